import PySMT.Proofs.C19Examples
/-!
# C19 — Portfolio: property theorems

Model: `PySMT/Impl/Portfolio.lean` (transition system of `pysmt/solvers/portfolio.py` with the F25 repair).
All theorems quantify over every reachable state of the system, i.e. over every schedule (every relative completion
order, every gap, a loser finishing while the winner is being selected), every number of members `cfg.n`, every
assignment of behaviours `cfg.beh : call → member → answer v | raise e | crash`, and any sequence of
`solve / get_model / get_value / push / pop` calls.  `Inev cfg P s` = on every schedule from `s`, `P` is reached
(no schedule stops earlier or runs for ever).

OS-level assumptions (see the header of the model): A1 `cfg.os.killAtomic = true` is an explicit hypothesis of the
theorems about `get_model / get_value`; it is necessary (`killAtomic_needed`).  A2 (a message is flushed before an
orderly exit and before `is_alive()` turns false), A3 (reliable FIFO channels), A4 (every member's `solve()` ends)
are built into the step relation and cannot be stated in Lean.  The real scheduler is sampled by the harness, not
enumerated: the theorems cover all schedules of the model.
-/
namespace PySMT.Portfolio.C19
open PySMT.Portfolio

/-- The verdict returned by `solve()` is the answer of the member that is kept for later queries. -/
theorem verdict_in_answers (cfg : Cfg) (s : State) (h : Reach cfg s) (v : Bool) (w : Nat)
    (hp : s.p = .returned v w ∨ ∃ q, s.p = .awaiting v w q) : w < cfg.n ∧ cfg.beh s.cycle w = .answer v :=
  PySMT.Portfolio.verdict_in_answers cfg s h v w hp

/-- With agreeing members the verdict is the common one. -/
theorem verdict_is_common (cfg : Cfg) (truth : Nat → Bool)
    (hagree : ∀ c i v, i < cfg.n → cfg.beh c i = .answer v → v = truth c)
    (s : State) (h : Reach cfg s) (v : Bool) (w : Nat) (hp : s.p = .returned v w) : v = truth s.cycle :=
  let ⟨hw, hb⟩ := PySMT.Portfolio.verdict_in_answers cfg s h v w (Or.inl hp)
  hagree s.cycle w v hw hb

/-- Failing / unknown / dying members do not matter as long as one member answers (`exit_on_exception` off):
    on every schedule `solve()` returns, with the answer of a member. -/
theorem failures_ignored (cfg : Cfg) (s : State) (h : Reach cfg s) (hs : inSolve s.p = true) (he : cfg.eoe = false)
    (hans : ∃ i, i < cfg.n ∧ ∃ v, cfg.beh s.cycle i = .answer v) :
    Inev cfg (fun t => ∃ v w, t.p = .returned v w ∧ w < cfg.n ∧ cfg.beh s.cycle w = .answer v) s :=
  PySMT.Portfolio.failures_ignored cfg s h hs he hans

/-- The parent is never stuck inside `solve()`. -/
theorem no_deadlock (cfg : Cfg) (s : State) (h : Reach cfg s) (hs : inSolve s.p = true) : ∃ t, IStep cfg s t :=
  PySMT.Portfolio.no_deadlock cfg s h hs

/-- Every `solve()` call ends on every schedule (returns or raises). -/
theorem solve_terminates (cfg : Cfg) (s : State) (h : Reach cfg s) (hs : inSolve s.p = true) :
    Inev cfg (fun t => (∃ v w, t.p = .returned v w) ∨ ∃ e, t.p = .raised e) s :=
  PySMT.Portfolio.solve_terminates cfg s h hs

/-- If every member fails, `solve()` raises on every schedule (F25: false for the unrepaired loop). -/
theorem all_fail_error (cfg : Cfg) (s : State) (h : Reach cfg s) (hs : inSolve s.p = true)
    (hfail : ∀ i, i < cfg.n → ∀ v, cfg.beh s.cycle i ≠ .answer v) :
    Inev cfg (fun t => ∃ e, t.p = .raised e ∧ errOK cfg s.cycle e ∧ (cfg.eoe = false → e = .allFailed)) s :=
  PySMT.Portfolio.all_fail_error cfg s h hs hfail

/-! The next four theorems are `_partial`: the property promises them for the real system, the theorems need the
    OS-level assumption A1 (`killAtomic`: a terminated member cannot swallow a later control message) as a hypothesis.
    A1 cannot be proved in Lean, it is necessary (`killAtomic_needed`), and Linux does not guarantee it for a reader
    that is between system-call entry and its first look at the socket queue when the signal arrives. -/

/-- A1 ⇒ replies to `get_model / get_value` come from the member whose answer was returned, and answer the
    query that was asked. -/
theorem serve_from_winner_partial (cfg : Cfg) (hA : cfg.os.killAtomic = true) (s : State) (h : Reach cfg s) (v : Bool) (w : Nat) :
    (s.p = .returned v w → ∀ x ∈ s.served, x.1 = w) ∧
    (∀ q, s.p = .awaiting v w q → (∀ x ∈ s.served, x.1 = w) ∧ ∀ r ∈ s.reply, r = (w, q)) :=
  PySMT.Portfolio.serve_from_winner cfg hA s h v w

/-- A1 ⇒ on every schedule `get_model / get_value` ends, and the parent has then received exactly the winner's reply to
    the query it asked (`served` grows by `(w, q)`); the only other ending is the death of the winner process after its
    answer (fault `OS.serveCrash`): then the call ends with an error (EOFError) and nothing is received.  The reply may
    itself be an exception raised by the member's solver (F25f repair: it is sent back and re-raised). -/
theorem query_answered_partial (cfg : Cfg) (hA : cfg.os.killAtomic = true) (s : State) (h : Reach cfg s) (v : Bool) (w q : Nat)
    (hp : s.p = .awaiting v w q) :
    Inev cfg (fun t => t.p = .returned v w ∧
      (t.served = s.served ++ [(w, q)] ∨ (t.served = s.served ∧ t.ms[w]? = some .crashed))) s :=
  PySMT.Portfolio.query_answered_exact cfg hA s h v w q hp

/-- A1 ⇒ no call of the API blocks: `solve` (with or without assumptions), `get_model / get_value` after a verdict,
    `get_model / get_value` without a kept solver (after a `solve()` that raised, before the first `solve()`, after `exit()`:
    immediate `ValueError`, F25e repair), `push / pop / add_assertion`, `exit()` -- each ends on every schedule. -/
theorem api_call_returns_partial (cfg : Cfg) (hA : cfg.os.killAtomic = true) (s t : State) (h : Reach cfg s)
    (hu : UStep cfg s t) : Inev cfg (fun u => quiescent u.p = true) t :=
  PySMT.Portfolio.api_call_returns cfg hA s t h hu

/-- Every schedule of a `solve()` call has at most `7·n + 2` internal steps (`imeasure` of the start state). -/
theorem solve_step_bound (cfg : Cfg) (s t : State) (n : Nat) (h : IPath cfg n (fresh cfg s) t) : n ≤ 7 * cfg.n + 2 :=
  PySMT.Portfolio.solve_step_bound cfg s t n h

/-- A1 ⇒ when `solve()` is over, no member but the winner is left. -/
theorem losers_dead_partial (cfg : Cfg) (hA : cfg.os.killAtomic = true) (s : State) (h : Reach cfg s) :
    (∀ v w, s.p = .returned v w → ∀ j, j ≠ w → ∀ m, s.ms[j]? = some m → dead m = true) ∧
    (∀ e, s.p = .raised e → ∀ (j : Nat) m, s.ms[j]? = some m → alive m = false) :=
  PySMT.Portfolio.losers_dead cfg hA s h

/-- A1 + `MembersSound` (an explicit assumption object about the member solvers: those that answer give `truth c`, and
    the model `modelOf c i` a member builds for a "sat" answer satisfies the formula, `sat c ·`) ⇒ the verdict is
    `truth c`, and everything obtained afterwards was computed by one and the same answering member `w`, whose model
    satisfies the formula.  What is *proved* is the portfolio's part ("the winner is an answering member and every reply
    came from it"); the satisfaction is inherited from `MembersSound.model`, it is a hypothesis, not a result. -/
theorem model_satisfies_partial (cfg : Cfg) (hA : cfg.os.killAtomic = true) (truth : Nat → Bool) {Model : Type}
    (modelOf : Nat → Nat → Model) (sat : Nat → Model → Prop) (hm : MembersSound cfg truth modelOf sat)
    (s : State) (h : Reach cfg s) (v : Bool) (w : Nat) (hp : s.p = .returned v w) :
    v = truth s.cycle ∧ (v = true → sat s.cycle (modelOf s.cycle w) ∧ ∀ x ∈ s.served, x.1 = w) :=
  PySMT.Portfolio.model_satisfies_sound cfg hA truth modelOf sat hm s h v w hp

/-- The closed form used by the driver is sound: the outcome of `solve()` number `c` is in `allowed cfg c`
    (in particular never "blocked", by `solve_terminates`). -/
theorem outcome_allowed (cfg : Cfg) (s : State) (h : Reach cfg s) :
    (∀ v w, s.p = .returned v w → Outcome.verdict v ∈ allowed cfg s.cycle) ∧
    (∀ e, s.p = .raised e → Outcome.error e ∈ allowed cfg s.cycle) :=
  PySMT.Portfolio.outcome_allowed cfg s h

/-- … and exact: every element of `allowed` is the outcome of some schedule. -/
theorem allowed_reachable (cfg : Cfg) (c : Nat) (o : Outcome) (ho : o ∈ allowed cfg (c + 1)) :
    ∃ s, Reach cfg s ∧ s.cycle = c + 1 ∧ quiescent s.p = true ∧ outcomeOf s = o :=
  PySMT.Portfolio.allowed_reachable cfg c o ho

/-- The explorer of `Drivers/C19.lean` walks exactly the step relation. -/
theorem isuccs_iff (cfg : Cfg) (s t : State) : t ∈ isuccs cfg s ↔ IStep cfg s t :=
  PySMT.Portfolio.isuccs_iff cfg s t

/-- A1 is necessary: without it there is a reachable state in which `get_model` waits for a reply that will
    never come (the terminated loser swallowed the request). -/
theorem killAtomic_needed :
    ∃ s, Reach (cfgTT false) s ∧ (∃ v w q, s.p = .awaiting v w q) ∧ ¬ ∃ t, IStep (cfgTT false) s t :=
  ⟨ttStuck, reach_ttStuck, ⟨true, 0, 0, by decide⟩,
    (isuccs_empty_iff (cfgTT false) ttStuck).mp (by decide)⟩

/-! ## non-vacuity: the hypotheses are satisfiable and the interesting states exist -/

-- `failures_ignored`: a reachable state inside `solve()` of a portfolio where one member answers and one fails
example : Reach cfgTU (fresh cfgTU init) ∧ inSolve (fresh cfgTU init).p = true ∧ cfgTU.eoe = false ∧
    ∃ i, i < cfgTU.n ∧ ∃ v, cfgTU.beh (fresh cfgTU init).cycle i = .answer v :=
  ⟨reach_fresh_init _, rfl, rfl, 0, by decide, true, rfl⟩

-- `all_fail_error`: a reachable state inside `solve()` of a portfolio whose members all fail
example : Reach (cfgRU false) (fresh (cfgRU false) init) ∧ inSolve (fresh (cfgRU false) init).p = true ∧
    ∀ i, i < (cfgRU false).n → ∀ v, (cfgRU false).beh (fresh (cfgRU false) init).cycle i ≠ .answer v :=
  ⟨reach_fresh_init _, rfl, by intro i _ v; simp only [cfgRU]; split <;> simp⟩

-- … and it does end with the "all failed" error / with a member's exception under exit_on_exception
example : ∃ s, Reach (cfgRU false) s ∧ s.p = .raised .allFailed :=
  let ⟨s, h, _, _, ho⟩ := PySMT.Portfolio.allowed_reachable (cfgRU false) 0 (.error .allFailed) (by decide)
  ⟨s, h, by unfold outcomeOf at ho; split at ho <;> simp_all⟩
example : Outcome.error (.member 0 .solverError) ∈ allowed (cfgRU true) 1 ∧
    Outcome.error (.member 1 .unknown) ∈ allowed (cfgRU true) 1 ∧ Outcome.error .allFailed ∉ allowed (cfgRU true) 1 := by
  decide

-- `verdict_in_answers`, `serve_from_winner`, `model_satisfies`: a reachable state in which `solve()` has returned
-- although both members were blocked on the shared control pipe, and a query has been answered by the winner
example : Reach (cfgTT true) ttServed ∧ ttServed.p = .returned true 0 ∧ ttServed.served = [(0, 0)] :=
  ⟨reach_ttServed, by decide, by decide⟩

-- the hypothesis `MembersSound` of `model_satisfies` is satisfiable by a non-trivial object: in `cfgTU` the formula is
-- "x" (satisfiable), a model is the value of x, member 0 (the only one that answers) builds the model x = true
example : MembersSound cfgTU (fun _ => true) (fun _ i => decide (i = 0)) (fun _ m => m = true) :=
  ⟨by intro c i v _ hb; simp only [cfgTU] at hb; split at hb <;> simp_all,
   by intro c i _ hb; simp only [cfgTU] at hb; split at hb <;> simp_all⟩

-- `query_answered_partial`, second alternative: the winner dies while the parent waits, the call ends with EOF
example : Reach cfgTTc ttcEOF ∧ ttcEOF.p = .returned true 0 ∧ ttcEOF.served = [] ∧ ttcEOF.ms[0]? = some .crashed :=
  ⟨reach_ttcEOF, by decide, by decide, by decide⟩

-- `api_call_returns_partial`: a query without a kept solver is a legal call in a reachable state
example : ∃ s, Reach (cfgRU false) s ∧ UStep (cfgRU false) s s ∧ s.p = .raised .allFailed :=
  let ⟨s, h, _, _, ho⟩ := PySMT.Portfolio.allowed_reachable (cfgRU false) 0 (.error .allFailed) (by decide)
  have hp : s.p = .raised .allFailed := by unfold outcomeOf at ho; split at ho <;> simp_all
  ⟨s, h, UStep.askNoSolver s (Or.inr ⟨_, hp⟩), hp⟩

-- `solve_step_bound`: a path of internal steps from the start of a `solve()` exists (8 steps for the 2 members of cfgTT)
example : ∃ t, IPath (cfgTT true) 2 (fresh (cfgTT true) init) t :=
  ⟨_, IPath.cons 1 _ _ _ (IStep.finish _ 0 (by decide)) (IPath.cons 0 _ _ _ (IStep.finish _ 1 (by decide)) (IPath.nil _))⟩

-- `query_answered`: a reachable state in which the parent waits for a reply
example : Reach (cfgTT true) (askState (ttReturned true) true 0 0) ∧
    (askState (ttReturned true) true 0 0).p = .awaiting true 0 0 :=
  ⟨reach_ask _ _ (reach_ttReturned true) true 0 0 (by decide), rfl⟩

end PySMT.Portfolio.C19
