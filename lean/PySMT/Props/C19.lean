import PySMT.Proofs.C19Main
namespace PySMT.Portfolio.C19
open PySMT.Portfolio

theorem verdict_in_answers (cfg : Cfg) (s : State) (h : Reach cfg s) (v : Bool) (w : Nat)
    (hp : s.p = .returned v w ∨ ∃ q, s.p = .awaiting v w q) : w < cfg.n ∧ cfg.beh s.cycle w = .answer v :=
  PySMT.Portfolio.verdict_in_answers cfg s h v w hp

end PySMT.Portfolio.C19
