import PySMT.Proofs.C17User
/-!
# C17 — text-interface solvers: property theorems

Model: `Impl/SmtSolver.lean` (the repaired `SmtLibSolver` + `Solver.is_sat/is_valid/is_unsat`), specification:
`Spec/StrictSolver.lean`.  All theorems quantify over **all** sequences of API calls (induction over the sequence),
all oracles (decision procedures, possibly stateful) behind the strict front end, all logics.

`LegalRun U w ops` collects the hypotheses on a call sequence, phrased over the state of the strict solver; it follows
from `UserLegal` (theorem `user_legal_is_legal`), which only mentions what the caller knows -- the assertion stack he
built, the formula of a preceding `is_sat`, the results he has seen:
* API preconditions: `pop(n)` stays within the levels the user pushed; `get_value` / `get_model` directly after a check
  that reported satisfiability (or after another value query);
* one environment: symbols and sort declarations are determined by their names (`Universe`, guaranteed by
  `FormulaManager`/`TypeManager`), and the sort list of a formula covers the sorts of its symbols (`ExprOk`);
* the exclusion for the known finding **F36**: `get_value(t)` only for terms whose symbols (and sorts) occur in the
  live assertions.
Because of the last item the theorems that need `LegalRun` carry the suffix `_partial`;
`stream_legal_full_statement` is the statement without the exclusion and is refuted below by the F36 witness.
The theorems without suffix hold for every sequence and every solver process.

Modelling decisions the unconditional theorems rest on (each compared with the real wrapper on every run, layer K):
* a reply is read as a whole: `_get_answer` reads a line, `_get_value_answer` reads the complete s-expression *before*
  parsing it (repair F75; before it, a parse error in the middle of an `(error …)` reply left the rest in the pipe and
  every later reply was attributed to the wrong command -- the model's atomic `recv` would have been wrong there);
* a solver that acknowledges a pop beyond its stack drives the wrapper into `IndexError`s (`list.pop()` on the emptied
  declaration stack, `declared_vars[-1]` after the declaration was sent): `popLevels`, `declareSort`, `declareVar`
  raise `Err.indexError` at the same points (K: `OVERPOP` cases against `refsolver.py --lenient-pop`).
Not modelled: `solve(assumptions)`, named assertions, function-typed symbols, `print_model`, non-incremental mode,
and the factory-level shortcuts `Factory.is_sat/is_valid/is_unsat/get_model` (factory.py:576-667), which create a
solver, make the calls modelled here, and exit.
-/
namespace PySMT.C17
open PySMT.StrictSolver PySMT.SmtSolver

/-! ## every solver process, every call sequence -/

/-- **replies_in_sync.**  Whatever the solver answers and whichever calls raise: the history of the pipe is a
    sequence of blocks "command written, reply of the solver *to that command* read" (plus the final `exit`), and
    no reply is left unread between two API calls. -/
theorem replies_in_sync (S : Solver) (logic : String) (ops : List Api) :
    inSync S S.init (run S logic ops).1.chan.trace ∧
    ((run S logic ops).1.dead = false → (run S logic ops).1.chan.queue = []) :=
  have h := synced_runFrom ops (create S logic) (synced_create S logic)
  ⟨h.inSync, h.queue⟩

/-- the hypothesis `Good w` of `verdict_faithful` holds of every live object, whatever the solver and the calls -/
example (S : Solver) (logic : String) (ops : List Api) (h : (run S logic ops).1.dead = false) :
    Good (run S logic ops).1 := by
  rcases synced_runFrom ops (create S logic) (synced_create S logic) with hg | ⟨hd, _⟩
  · exact hg
  · rw [show (runFrom (create S logic) ops).1.dead = (run S logic ops).1.dead from rfl, h] at hd; cases hd

/-- **verdict_faithful.**  On an object whose pipe is in step, `solve()` returns `True` (`False`) only if the reply of
    the solver to this very `(check-sat)` was `sat` (`unsat`), and that exchange is the last block of the history. -/
theorem verdict_faithful (S : Solver) (w w' : WState S) (hw : Good w) (b : Bool) (h : solve w = (w', .ok b)) :
    ∃ t s, Paired S S.init t s ∧
      (S.respond s .checkSat).2 = .verdict (if b then .sat else .unsat) ∧
      w'.chan.trace = t ++ [.send .checkSat, .recv (.verdict (if b then .sat else .unsat))] :=
  solve_faithful w hw w' b h

/-- **shortcuts_negate.**  `is_valid(f)` is `not is_sat(Not f)` and `is_unsat(f)` is `not is_sat(f)`, with the same
    effect on the object.  This only restates how `call` transcribes `Solver.is_valid` / `Solver.is_unsat`
    (solvers/solver.py:133-158): the negation `Not(f).simplify()` is taken by the harness, which hands the model the
    abstraction of the negated formula; that the transcription agrees with the code is tested (K), not proved. -/
theorem shortcuts_negate (S : Solver) (w : WState S) (e : Expr) :
    (call (.isValid e) w).1 = (call (.isSat e) w).1 ∧ (call (.isUnsat e) w).1 = (call (.isSat e) w).1 ∧
    (∀ b, (call (.isSat e) w).2 = .bool b → (call (.isValid e) w).2 = .bool (!b) ∧ (call (.isUnsat e) w).2 = .bool (!b)) :=
  SmtSolver.shortcuts_negate w e

/-! ## against the strict front end -/

/-- **stream_legal** (partial: F36 excluded through `LegalRun`).  The strict front end accepts the whole command stream
    (no `(error …)`: nothing declared twice, nothing used undeclared, no pop beyond the stack, no value query outside
    sat mode), and the solver state the wrapper talks to is the one reached by that stream. -/
theorem stream_legal_partial (U : Universe) (O : Oracle) (logic : String) (ops : List Api)
    (h : LegalRun U (create (Solver.strict O) logic) ops) :
    exec O (State.init, O.init) (stream (run (Solver.strict O) logic ops).1)
      = some (run (Solver.strict O) logic ops).1.chan.solver :=
  (ginv_run U O logic ops h).final.accepted

/-- **decl_mirror** (partial: F36 excluded).  After every call sequence `declared_vars` / `declared_sorts` are, level
    by level, the symbols / sorts the strict solver has in scope.  (`LegalRun` is closed under prefixes, so this
    holds after every API call of a run.) -/
theorem decl_mirror_partial (U : Universe) (O : Oracle) (logic : String) (ops : List Api)
    (h : LegalRun U (create (Solver.strict O) logic) ops) :
    (run (Solver.strict O) logic ops).1.vars = (run (Solver.strict O) logic ops).1.chan.solver.1.levels.map (·.syms) ∧
    (run (Solver.strict O) logic ops).1.sorts = (run (Solver.strict O) logic ops).1.chan.solver.1.levels.map (·.sorts) :=
  ⟨(ginv_run U O logic ops h).final.vars, (ginv_run U O logic ops h).final.sorts⟩

/-- **assertions_mirror** (partial: F36 excluded).  The assertions the solver holds, below the level a preceding
    `is_sat` left pending, are exactly the user's assertion stack (`userStack`: add / push n / pop n / reset). -/
theorem assertions_mirror_partial (U : Universe) (O : Oracle) (logic : String) (ops : List Api)
    (h : LegalRun U (create (Solver.strict O) logic) ops) (hx : ∀ a ∈ ops, a ≠ .exit) :
    (clearedLevels (run (Solver.strict O) logic ops).1).map (·.asserts) = userStack ops :=
  user_stack_run U O logic ops h hx

/-- **solve_truth** (partial: F36 excluded).  On a reachable live object `solve()` returns the verdict the decision
    procedure gives on exactly the user's live assertions (`unknown` ⇒ `SolverReturnedUnknownResultError`). -/
theorem solve_truth_partial (U : Universe) (O : Oracle) (w : W O) (hr : Reachable U w) (ha : w.dead = false) :
    ∃ s : State × O.ω, live s.1.levels = ((clearedLevels w).map (·.asserts)).flatten ∧ s.2 = w.chan.solver.2 ∧
      (call .solve w).2 = verdictOut (O.verdict s.2 s.1).1 :=
  solve_truth (hr.inv ha)

/-- **is_sat_truth** (partial: F36 excluded).  `is_sat(f)` returns the verdict on the user's live assertions together
    with `f` (by `shortcuts_negate`, `is_valid` / `is_unsat` return the negation for `Not f` / `f`). -/
theorem is_sat_truth_partial (U : Universe) (O : Oracle) (w : W O) (hr : Reachable U w) (ha : w.dead = false)
    (e : Expr) (he : ExprOk U e) :
    ∃ s : State × O.ω, live s.1.levels = e :: ((clearedLevels w).map (·.asserts)).flatten ∧ s.2 = w.chan.solver.2 ∧
      (call (.isSat e) w).2 = verdictOut (O.verdict s.2 s.1).1 :=
  isSat_truth (hr.inv ha) e he

/-- **model_total** (partial: F36 excluded; symbols are constants).  In sat mode `get_model()` succeeds, asks for every
    symbol in scope at any level, hence for every symbol of every live assertion (including the formula of a
    preceding `is_sat`), pairs each symbol with the value the solver reported for it, and leaves the solver state
    (and sat mode) untouched. -/
theorem model_total_partial (U : Universe) (O : Oracle) (w : W O) (hr : Reachable U w) (ha : w.dead = false)
    (hsat : w.chan.solver.1.satMode = true) :
    ∃ m, (call .getModel w).2 = .model m ∧
      m.map (·.1) = w.vars.reverse.flatMap id ∧
      (∀ e ∈ live w.chan.solver.1.levels, ∀ s ∈ e.syms, s ∈ m.map (·.1)) ∧
      (∀ p ∈ m, p.2 = O.value w.chan.solver.2 w.chan.solver.1 (Expr.ofSym p.1)) ∧
      (call .getModel w).1.chan.solver = w.chan.solver :=
  getModel_total (hr.inv ha) hsat

/-- **model_satisfies** (partial: F36 excluded; symbols are constants).  "… so it satisfies them": for any semantics
    of terms that only looks at a term's own symbols, and a decision procedure that is sound for it (`OracleSound`: a
    `sat` verdict comes with an assignment satisfying the live assertions whose values are the ones reported), the
    model `get_model()` returns in sat mode satisfies every live assertion, the formula of a preceding `is_sat`
    included (`modelValue m` reads the returned list of pairs as an assignment). -/
theorem model_satisfies_partial (U : Universe) (O : Oracle) (sem : Semantics) (hO : OracleSound O sem) (w : W O)
    (hr : Reachable U w) (ha : w.dead = false) (hsat : w.chan.solver.1.satMode = true) :
    ∃ m, (call .getModel w).2 = .model m ∧ ∀ e ∈ live w.chan.solver.1.levels, sem.holds (modelValue m) e :=
  getModel_satisfies sem hO (hr.inv ha) hsat

/-- **user_legal_is_legal.**  Legality in the user's own terms (`UserLegal`: his assertion stack, the formula of a
    preceding `is_sat`, and the results `(run …).2` he has seen) implies `LegalRun`: every `_partial` theorem holds
    for all user-legal call sequences. -/
theorem user_legal_is_legal (U : Universe) (O : Oracle) (logic : String) (ops : List Api)
    (h : UserLegal U UState.init ops (run (Solver.strict O) logic ops).2) :
    LegalRun U (create (Solver.strict O) logic) ops :=
  legalRun_of_userLegal_run U O logic ops h

/-- **stream_legal / decl_mirror for user-legal sequences** (partial: `UserLegal` contains the F36 exclusion in the
    form "`get_value(t)`: the symbols of `t` occur in the live assertions"). -/
theorem stream_legal_user_partial (U : Universe) (O : Oracle) (logic : String) (ops : List Api)
    (h : UserLegal U UState.init ops (run (Solver.strict O) logic ops).2) :
    exec O (State.init, O.init) (stream (run (Solver.strict O) logic ops).1)
        = some (run (Solver.strict O) logic ops).1.chan.solver ∧
    (run (Solver.strict O) logic ops).1.vars = (run (Solver.strict O) logic ops).1.chan.solver.1.levels.map (·.syms) ∧
    (run (Solver.strict O) logic ops).1.sorts = (run (Solver.strict O) logic ops).1.chan.solver.1.levels.map (·.sorts) :=
  have hl := legalRun_of_userLegal_run U O logic ops h
  ⟨(ginv_run U O logic ops hl).final.accepted, (ginv_run U O logic ops hl).final.vars,
   (ginv_run U O logic ops hl).final.sorts⟩

/-- A fact about the specification itself: in every state the strict front end reaches without rejecting a command,
    every live assertion mentions only symbols in scope. -/
theorem strict_live_in_scope (O : Oracle) (cs : List Cmd) (s : State × O.ω)
    (h : exec O (State.init, O.init) cs = some s) : ∀ e ∈ live s.1.levels, ∀ x ∈ e.syms, x ∈ scopeSyms s.1.levels :=
  live_in_scope _ (exec_scoped cs _ s h ⟨by simp, trivial⟩)

/-! ## non-vacuity: a concrete environment, oracle and call sequence satisfying the hypotheses -/

def symA : Sym := ⟨"a", "Bool", []⟩
def symC : Sym := ⟨"c", "Bool", []⟩
def symX : Sym := ⟨"x", "U", ["U"]⟩
def sortU : SortDecl := ⟨"U", 0⟩
def exA : Expr := ⟨"Fa", [symA], []⟩
def exC : Expr := ⟨"c", [symC], []⟩
def exX : Expr := ⟨"Fx", [symX, symA], [sortU]⟩

def univ : Universe where
  sym := fun s => s = symA ∨ s = symX
  sort := fun d => d = sortU
  sym_inj := by
    rintro s t (rfl | rfl) (rfl | rfl) h <;> first | rfl | (exfalso; revert h; decide)
  sort_inj := by rintro d e rfl rfl _; rfl

def alwaysSat : Oracle := ⟨Unit, (), fun _ _ => (.sat, ()), fun _ _ _ => "v"⟩

def okA : ExprOk univ exA := ⟨by simp [exA, univ], by simp [exA], by simp [exA, symA]⟩
def okX : ExprOk univ exX := ⟨by simp [exX, univ], by simp [exX, univ], by simp [exX, symX, symA, sortU]⟩

def demoOps : List Api :=
  [.addAssertion exA, .push 2, .addAssertion exX, .solve, .getModel, .pop 1, .isSat exX, .getValue exA,
   .resetAssertions, .exit]

/-- the hypotheses of the `_partial` theorems are satisfiable by a sequence that declares, pushes, pops, queries -/
example : LegalRun univ (create (Solver.strict alwaysSat) "QF_UF") demoOps := by
  rw [create_strict]
  refine ⟨fun _ => okA, fun _ => trivial, fun _ => okX, fun _ => trivial, fun _ => ?_, fun _ => ?_, fun _ => okX,
    fun _ => ?_, fun _ => trivial, fun _ => trivial, trivial⟩
  · simp only [LegalCall]; rfl
  · simp only [LegalCall]; decide
  · simp only [LegalCall]; exact ⟨rfl, rfl⟩

/-- the same sequence is legal in the user's terms, given the results the model returns -/
example : UserLegal univ UState.init demoOps (run (Solver.strict alwaysSat) "QF_UF" demoOps).2 := by
  refine ⟨fun _ => okA, fun _ => trivial, fun _ => okX, fun _ => trivial, fun _ => ?_, fun _ => ?_, fun _ => okX,
    fun _ => ?_, fun _ => trivial, fun _ => trivial, trivial⟩
  · show UState.sat _ = true; rfl
  · show 1 < List.length _; decide
  · refine ⟨rfl, ?_, ?_⟩
    · intro s hs
      refine ⟨exA, by decide, ?_⟩
      simpa [exA] using hs
    · intro d hd; simp [exA] at hd

/-- a semantics and a sound decision procedure exist (hypotheses of `model_satisfies_partial`): a term holds when all
    its symbols have the value "v", and `alwaysSat` reports "v" for everything -/
def demoSem : Semantics where
  holds := fun μ e => ∀ s ∈ e.syms, μ s = "v"
  coincidence := by
    intro μ ν e h
    constructor
    · intro hm s hs; rw [← h s hs]; exact hm s hs
    · intro hn s hs; rw [h s hs]; exact hn s hs

example : OracleSound alwaysSat demoSem := fun _ _ _ => ⟨fun _ => "v", fun _ _ _ _ => rfl, fun _ => rfl⟩

/-- … and the model really sends declarations in that run (the stream is not trivially legal) -/
example : (stream (run (Solver.strict alwaysSat) "QF_UF" demoOps).1).length = 23 := by decide

/-- sat mode is reachable (hypothesis of `model_total_partial`) -/
example : (run (Solver.strict alwaysSat) "QF_UF" [.addAssertion exA, .solve]).1.chan.solver.1.satMode = true := by decide

/-! ## the statement without the F36 exclusion, and its refutation -/

/-- `LegalCall` without the requirement that the term of `get_value` is in scope -/
def LegalCallFull (U : Universe) {O : Oracle} (w : W O) : Api → Prop
  | .getValue _ => w.chan.solver.1.satMode = true
  | a => LegalCall U w a

def LegalRunFull (U : Universe) {O : Oracle} : W O → List Api → Prop
  | _, [] => True
  | w, a :: as => (w.dead = false → LegalCallFull U w a) ∧ LegalRunFull U (step w a).1 as

def stream_legal_full_statement : Prop :=
  ∀ (U : Universe) (O : Oracle) (logic : String) (ops : List Api),
    LegalRunFull U (create (Solver.strict O) logic) ops →
    exec O (State.init, O.init) (stream (run (Solver.strict O) logic ops).1)
      = some (run (Solver.strict O) logic ops).1.chan.solver

/-- F36: `add_assertion(a); solve(); get_value(c)` sends `(get-value (c))` although `c` was never declared -/
example : ¬ stream_legal_full_statement := by
  intro h
  have := h univ alwaysSat "QF_UF" [.addAssertion exA, .solve, .getValue exC] (by
    rw [create_strict]
    refine ⟨fun _ => okA, fun _ => trivial, fun _ => ?_, trivial⟩
    simp only [LegalCallFull]; rfl)
  have hnone : exec alwaysSat (State.init, alwaysSat.init)
      (stream (run (Solver.strict alwaysSat) "QF_UF" [.addAssertion exA, .solve, .getValue exC]).1) = none := by rfl
  rw [hnone] at this
  cases this

end PySMT.C17
