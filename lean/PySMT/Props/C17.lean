import PySMT.Impl.SmtSolver
/-! placeholder, replaced when the proofs are in -/
