import PySMT.Core.Wire
import PySMT.Core.Eval
import PySMT.Core.TypeOf
import PySMT.Core.FreeVars
/-! Shared line-protocol plumbing for `lean/Drivers/*.lean`. -/
namespace PySMT.DriverLib
open PySMT.Wire

/-- run the request handlers over stdin, one answer line per request line -/
partial def loop (answer : String → String) : IO Unit := do
  let h ← IO.getStdin
  let out ← IO.getStdout
  let rec go : IO Unit := do
    let line ← h.getLine
    if line.isEmpty then return ()
    let line := if line.back == '\n' then (line.dropEnd 1).toString else line
    out.putStrLn (answer line)
    go
  go
  out.flush

/-- handler written in the parser monad; parse errors become `bad-op <msg>` -/
def handle (p : P String) (toks : Array String) (pos : Nat := 1) : String :=
  match Wire.run (do let r ← p; let e ← atEnd; if e then return r else throw "trailing tokens") toks pos with
  | .ok (s, _) => s
  | .error e => s!"bad-op {e}"

def encSyms (l : List Sym) : String :=
  s!"{l.length}" ++ String.join (l.map (fun s => s!" {hex s.name} {encSymTy s}"))

/-- requests every term-based driver understands -/
def coreAnswer (toks : Array String) : Option String :=
  match toks[0]? with
  | some "echo" => some <| handle (do let t ← term; return encTerm t) toks
  | some "type" => some <| handle (do let t ← term; return encOptTy t.typeOf) toks
  | some "wt" => some <| handle (do let t ← term; return toString t.wt) toks
  | some "eval" => some <| handle (do let I ← interp; let t ← term; return encVal (eval I t)) toks
  | some "fv" => some <| handle (do let t ← term; return encSyms t.fv.eraseDups) toks
  | _ => none

end PySMT.DriverLib
