/-!
# Sorts and symbols (DESIGN §3.1)

`Ty` mirrors `pysmt/typing.py`. Function types are not first-class: a function
signature lives in the symbol (`Sym.params ≠ []`), which is how every
well-sorted SMT-LIB term uses them. An instance of a declared sort
(`Pair(Int,Int)`) is `custom "Pair{Int, Int}"` — uninterpreted sorts are opaque.
-/
namespace PySMT

inductive Ty
  | bool | int | real | str
  | bv (w : Nat)
  | array (idx elem : Ty)
  | custom (name : String)
  deriving DecidableEq, Repr, Inhabited

/-- A declared symbol. `params = []` for constants/variables. -/
structure Sym where
  name   : String
  params : List Ty
  ret    : Ty
  deriving DecidableEq, Repr, Inhabited

def Sym.var (n : String) (t : Ty) : Sym := ⟨n, [], t⟩
def Sym.isFn (s : Sym) : Bool := !s.params.isEmpty

def Ty.isBv : Ty → Bool | .bv _ => true | _ => false
def Ty.isArray : Ty → Bool | .array _ _ => true | _ => false

end PySMT
