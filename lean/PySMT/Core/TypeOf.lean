import PySMT.Core.Term
/-!
# `typeOf` — model of `SimpleTypeChecker` (`pysmt/type_checker.py:37-341`), rule by rule.

`none` = the checker returns `None` or raises (both make `get_type`/`create_node` fail).
A `symbol` node whose symbol has a function signature is not a term of the modelled
fragment (pySMT types it with the function type; see finding F06) and gets `none`.
-/
namespace PySMT

def allAre (ts : List (Option Ty)) (t : Ty) : Bool := ts.all (· == some t)

def typeOfNode (op : Op) (p : Payload) (ts : List (Option Ty)) : Option Ty :=
  match op, p, ts with
  | .and, _, ts | .or, _, ts | .not, _, ts | .implies, _, ts | .iff, _, ts =>
    if allAre ts .bool then some .bool else none
  | .toReal, _, ts => if allAre ts .int then some .real else none
  | .plus, _, ts | .minus, _, ts | .times, _, ts | .div, _, ts =>
    if allAre ts .real then some .real else if allAre ts .int then some .int else none
  | .bvAdd, .ints (w :: _), ts | .bvSub, .ints (w :: _), ts | .bvNot, .ints (w :: _), ts
  | .bvAnd, .ints (w :: _), ts | .bvOr, .ints (w :: _), ts | .bvXor, .ints (w :: _), ts
  | .bvNeg, .ints (w :: _), ts | .bvMul, .ints (w :: _), ts | .bvUdiv, .ints (w :: _), ts
  | .bvUrem, .ints (w :: _), ts | .bvLshl, .ints (w :: _), ts | .bvLshr, .ints (w :: _), ts
  | .bvSdiv, .ints (w :: _), ts | .bvSrem, .ints (w :: _), ts | .bvAshr, .ints (w :: _), ts =>
    if allAre ts (.bv w) then some (.bv w) else none
  | .strConcat, _, ts | .strReplace, _, ts => if allAre ts .str then some .str else none
  | .strLength, _, ts | .strToInt, _, ts => if allAre ts .str then some .int else none
  | .strContains, _, ts | .strPrefixOf, _, ts | .strSuffixOf, _, ts =>
    if allAre ts .str then some .bool else none
  | .intToStr, _, ts => if allAre ts .int then some .str else none
  | .bvComp, _, [some (.bv w), some (.bv w')] => if w = w' then some (.bv 1) else none
  | .bvUlt, _, some (.bv w) :: rest | .bvUle, _, some (.bv w) :: rest
  | .bvSlt, _, some (.bv w) :: rest | .bvSle, _, some (.bv w) :: rest =>
    if allAre rest (.bv w) then some .bool else none
  | .bvToNatural, _, some (.bv _) :: _ => some .int
  | .bvConcat, .ints (w :: _), [some (.bv l), some (.bv r)] =>
    if l + r = w then some (.bv w) else none
  | .bvExtract, .ints [w, lo, hi], [some (.bv base)] =>
    if lo ≥ base ∨ hi ≥ base then none
    else if base < w then none
    else if w + lo ≠ hi + 1 then none          -- target_width != end - start + 1
    else some (.bv w)
  | .bvRol, .ints [w, k], [some (.bv a)] | .bvRor, .ints [w, k], [some (.bv a)] =>
    if w < k then none else if w ≠ a then none else some (.bv w)
  | .bvZext, .ints (w :: _), some (.bv a) :: _ | .bvSext, .ints (w :: _), some (.bv a) :: _ =>
    if w < a then none else some (.bv w)
  | .equals, _, some .bool :: _ => none
  | .equals, _, some (.bv w) :: rest => if allAre rest (.bv w) then some .bool else none
  | .equals, _, some t :: rest => if allAre rest t then some .bool else none
  | .le, _, some .real :: rest | .lt, _, some .real :: rest =>
    if allAre rest .real then some .bool else none
  | .le, _, ts | .lt, _, ts => if allAre ts .int then some .bool else none
  | .ite, _, [some .bool, some a, some b] => if a = b then some a else none
  | .boolConst, _, [] => some .bool
  | .realConst, _, [] | .algebraicConst, _, [] => some .real
  | .intConst, _, [] => some .int
  | .strConst, _, [] => some .str
  | .bvConst, .bv _ w, [] => some (.bv w)
  | .symbol, .sym s, [] => if s.params.isEmpty then some s.ret else none
  | .forall_, _, [some .bool] | .exists_, _, [some .bool] => some .bool
  | .function, .sym f, ts =>
    if ts.length = f.params.length ∧ ts = f.params.map some then some f.ret else none
  | .strCharAt, _, [some .str, some .int] => some .str
  | .strIndexOf, _, [some .str, some .str, some .int] => some .int
  | .strSubstr, _, [some .str, some .int, some .int] => some .str
  | .arraySelect, _, [some (.array i e), some j] => if i = j then some e else none
  | .arrayStore, _, [some (.array i e), some j, some v] =>
    if i = j ∧ e = v then some (.array i e) else none
  | .arrayValue, .ty idx, some d :: rest =>
    let rec chk : List (Option Ty) → Bool
      | k :: v :: more => k == some idx && v == some d && chk more
      | [_] => false
      | [] => true
    if chk rest then some (.array idx d) else none
  | .pow, _, [some a, some b] => if a = b then some .real else none
  | _, _, _ => none

def Term.typeOf : Term → Option Ty
  | .node op args p => typeOfNode op p (args.map Term.typeOf)

/-- every sub-term is accepted by the checker (what `create_node` enforces bottom-up) -/
def Term.wt : Term → Bool
  | .node op args p => (args.map Term.wt).all id && (typeOfNode op p (args.map Term.typeOf)).isSome

end PySMT
