import PySMT.Core.Val
/-!
# Interpretations (DESIGN §3.2)
-/
namespace PySMT

structure Interp where
  /-- values of non-function symbols -/
  sym  : Sym → Val
  /-- uninterpreted functions -/
  fn   : Sym → List Val → Val
  /-- quantification domain per sort (the theorems require it non-empty; `eval` uses it as is) -/
  dom  : Ty → List Val
  /-- the unconstrained result of real division by zero, as a function of the dividend -/
  div0r : Rat → Rat
  /-- the unconstrained result of integer division by zero -/
  div0i : Int → Int

namespace Interp

def bind (I : Interp) (s : Sym) (v : Val) : Interp :=
  { I with sym := fun s' => if s' = s then v else I.sym s' }

def bindMany (I : Interp) : List (Sym × Val) → Interp
  | [] => I
  | (s, v) :: rest => (I.bind s v).bindMany rest

/-- all (`all = true`) / some assignments of the bound variables from `dom` satisfy `k` -/
def quant (all : Bool) : Interp → List Sym → (Interp → Bool) → Bool
  | I, [], k => k I
  | I, s :: ss, k =>
    if all then (I.dom s.ret).all (fun v => quant all (I.bind s v) ss k)
    else (I.dom s.ret).any (fun v => quant all (I.bind s v) ss k)

end Interp
end PySMT

namespace PySMT

/-- Well-formed interpretation: every symbol and function value inhabits the declared
sort, every quantification domain is non-empty and well-sorted. This is the quantifier
"every interpretation (and every non-empty quantification domain)" of C01/C05/C10. -/
structure Interp.WF (I : Interp) : Prop where
  sym      : ∀ s : Sym, (I.sym s).hasSort s.ret = true
  fn       : ∀ (f : Sym) (as : List Val), (I.fn f as).hasSort f.ret = true
  dom_ne   : ∀ t : Ty, I.dom t ≠ []
  dom_sort : ∀ (t : Ty) (v : Val), v ∈ I.dom t → v.hasSort t = true

theorem Interp.WF.bind {I : Interp} (h : I.WF) (s : Sym) (v : Val) (hv : v.hasSort s.ret = true) :
    (I.bind s v).WF := by
  refine ⟨?_, h.fn, h.dom_ne, h.dom_sort⟩
  intro s'
  simp only [Interp.bind]
  split
  · next heq => subst heq; exact hv
  · exact h.sym s'

end PySMT
