import PySMT.Core.Term
/-!
# Free symbols, sub-terms
-/
namespace PySMT

/-- free symbols (incl. function names), with repetitions, in left-to-right order -/
def Term.fv : Term → List Sym
  | .node op args p =>
    let sub := (args.map Term.fv).flatten
    match op, p with
    | .symbol, .sym s => [s]
    | .function, .sym s => s :: sub
    | .forall_, .qvars vs => sub.filter (fun x => !vs.contains x)
    | .exists_, .qvars vs => sub.filter (fun x => !vs.contains x)
    | _, _ => sub

/-- all sub-terms (pre-order, with repetitions) -/
def Term.subterms : Term → List Term
  | .node op args p => .node op args p :: (args.map Term.subterms).flatten

def Term.isQF (t : Term) : Bool := t.subterms.all (fun s => !s.op.isQuantifier)

end PySMT
