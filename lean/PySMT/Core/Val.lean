import PySMT.Core.Ty
/-!
# Values (DESIGN §3.2)

Arrays are store chains over a constant array, kept in canonical form by `Val.store`
(keys strictly increasing w.r.t. `Val.cmp`, no entry equal to the default), so that
structural equality of canonical array values is extensional equality of finitely
supported functions.
-/
namespace PySMT

inductive Val
  | b (v : Bool) | i (v : Int) | r (v : Rat) | s (v : String) | bv (w v : Nat)
  | aconst (idx : Ty) (d : Val) | astore (a k v : Val)
  | u (sort : String) (k : Nat)
  deriving DecidableEq, Repr, Inhabited

namespace Val

def tag : Val → Nat
  | b _ => 0 | i _ => 1 | r _ => 2 | s _ => 3 | bv _ _ => 4 | u _ _ => 5 | aconst _ _ => 6 | astore _ _ _ => 7

/-- A total order on values used only to keep array values canonical. -/
def cmp : Val → Val → Ordering
  | b x, b y => compare x y
  | i x, i y => compare x y
  | r x, r y => if x < y then .lt else if x = y then .eq else .gt
  | s x, s y => compare x y
  | bv w x, bv w' y => (compare w w').then (compare x y)
  | u n x, u n' y => (compare n n').then (compare x y)
  | aconst _ x, aconst _ y => cmp x y
  | astore a k v, astore a' k' v' => (cmp a a').then ((cmp k k').then (cmp v v'))
  | x, y => compare x.tag y.tag

def lt (x y : Val) : Bool := cmp x y == .lt

/-- default of an array value -/
def arrDefault : Val → Val
  | aconst _ d => d
  | astore a _ _ => arrDefault a
  | v => v

/-- entries of a store chain, innermost first -/
def arrEntries : Val → List (Val × Val)
  | astore a k v => arrEntries a ++ [(k, v)]
  | _ => []

/-- index sort of an array value -/
def arrIdx : Val → Ty
  | aconst t _ => t
  | astore a _ _ => arrIdx a
  | _ => .int

def mkArr (idx : Ty) (d : Val) (ents : List (Val × Val)) : Val :=
  ents.foldl (fun a kv => astore a kv.1 kv.2) (aconst idx d)

def select : Val → Val → Val
  | astore a k v, j => if k = j then v else select a j
  | aconst _ d, _ => d
  | v, _ => v

/-- insert `(k,v)` into a key-sorted entry list, replacing an existing binding of `k` -/
def insertEnt (k v : Val) : List (Val × Val) → List (Val × Val)
  | [] => [(k, v)]
  | (k', v') :: rest =>
    if k = k' then (k, v) :: rest
    else if lt k k' then (k, v) :: (k', v') :: rest
    else (k', v') :: insertEnt k v rest

/-- all indices of a *small* finite index sort (at most 256 elements), greatest last -/
def smallDomain : Ty → Option (List Val)
  | .bool => some [b false, b true]
  | .bv w => if w ≤ 8 then some ((List.range (2 ^ w)).map (bv w)) else none
  | _ => none

def lookupEnt (k : Val) (d : Val) : List (Val × Val) → Val
  | [] => d
  | (k', v') :: rest => if k = k' then v' else lookupEnt k d rest

/-- Canonical representative of the finitely supported function `(d, ents)`:
entries sorted by key, none equal to the default; over a small finite index sort the
default is the value at the greatest index (so that the representation is unique even
when every index is assigned). -/
def normArr (idx : Ty) (d : Val) (ents : List (Val × Val)) : Val :=
  match smallDomain idx with
  | some dom =>
    match dom.getLast? with
    | some m =>
      let d' := lookupEnt m d ents
      if d' = d then mkArr idx d ents
      else mkArr idx d' ((dom.dropLast.map (fun k => (k, lookupEnt k d ents))).filter (fun kv => kv.2 ≠ d'))
    | none => mkArr idx d ents
  | none => mkArr idx d ents

/-- constant array in canonical form -/
def const (idx : Ty) (d : Val) : Val := aconst idx d

/-- canonical store -/
def store (a k v : Val) : Val :=
  let d := arrDefault a
  let ents := arrEntries a
  let idx := arrIdx a
  if v = d then normArr idx d (ents.filter (fun kv => kv.1 ≠ k))
  else normArr idx d (insertEnt k v ents)

def isTrue : Val → Bool | b true => true | _ => false

end Val

/-- a value of every sort (used for totalisation only; every theorem assumes well-typedness) -/
def Ty.defaultVal : Ty → Val
  | .bool => .b false | .int => .i 0 | .real => .r 0 | .str => .s ""
  | .bv w => .bv w 0 | .array i e => .aconst i e.defaultVal | .custom n => .u n 0

/-- `HasSort v t` : the value `v` inhabits sort `t` (decidable, structural on `v`). -/
def Val.hasSort : Val → Ty → Bool
  | .b _, .bool => true
  | .i _, .int => true
  | .r _, .real => true
  | .s _, .str => true
  | .bv w v, .bv w' => w == w' && decide (v < 2 ^ w)
  | .u n _, .custom n' => n == n'
  | .aconst ix d, .array ix' e => ix == ix' && d.hasSort e
  | .astore a k v, .array ix e => a.hasSort (.array ix e) && k.hasSort ix && v.hasSort e
  | _, _ => false

end PySMT
