import PySMT.Core.Term
import PySMT.Core.Interp
import Std.Data.HashMap
/-!
# Wire format (DESIGN §3.6): tokens separated by single spaces.

```
ty      := B | I | R | S | V <w> | A <ty> <ty> | C <hex>
symty   := <ty> | F <ret:ty> <k> <ty>*k
payload := - | b 0/1 | i <int> | q <num> <den> | s <hex> | v <value> <width>
         | n <k> <nat>*k | y <hex> <symty> | Q <m> (<hex> <ty>)*m | t <ty>
term    := T <n> (<op> <payload> <k> <childidx>*k)*n          -- root = last node
val     := b 0/1 | i <int> | r <num> <den> | s <hex> | v <w> <n> | a <idx:ty> <dflt:val> <k> (<val> <val>)*k | u <hex> <k>
interp  := N <nsym> (<hex> <ty> <val>)* <nfn> (<hex> <symty> <ntab> (<val>*arity <val>)* <dflt:val>)* <ndom> (<ty> <k> <val>*k)*
```
hex = UTF-8 bytes in hexadecimal, `_` for the empty string.
-/
namespace PySMT.Wire

structure PS where
  toks : Array String
  pos  : Nat

abbrev P := StateT PS (Except String)

def next : P String := do
  let st ← get
  if h : st.pos < st.toks.size then
    set { st with pos := st.pos + 1 }
    return st.toks[st.pos]
  else throw "eof"

def atEnd : P Bool := do
  let st ← get
  return st.pos ≥ st.toks.size

def nat : P Nat := do
  let t ← next
  match t.toNat? with
  | some n => return n
  | none => throw s!"nat expected: {t}"

def int : P Int := do
  let t ← next
  match t.toInt? with
  | some n => return n
  | none => throw s!"int expected: {t}"

def hexVal (c : Char) : Option Nat :=
  if '0' ≤ c ∧ c ≤ '9' then some (c.toNat - '0'.toNat)
  else if 'a' ≤ c ∧ c ≤ 'f' then some (c.toNat - 'a'.toNat + 10)
  else none

def unhex (s : String) : Except String String :=
  if s == "_" then .ok "" else
  let rec go : List Char → ByteArray → Except String ByteArray
    | [], acc => .ok acc
    | [_], _ => .error "odd hex"
    | a :: b :: rest, acc =>
      match hexVal a, hexVal b with
      | some x, some y => go rest (acc.push (UInt8.ofNat (x * 16 + y)))
      | _, _ => .error "bad hex"
  match go s.toList ByteArray.empty with
  | .ok bytes => match String.fromUTF8? bytes with
    | some str => .ok str
    | none => .error "bad utf8"
  | .error e => .error e

def hexDigit (n : Nat) : Char := if n < 10 then Char.ofNat (48 + n) else Char.ofNat (87 + n)

def hex (s : String) : String :=
  if s.isEmpty then "_" else
  String.ofList (s.toUTF8.toList.flatMap (fun b => [hexDigit (b.toNat / 16), hexDigit (b.toNat % 16)]))

def str : P String := do
  let t ← next
  match unhex t with
  | .ok s => return s
  | .error e => throw e

partial def ty : P Ty := do
  let t ← next
  match t with
  | "B" => return .bool | "I" => return .int | "R" => return .real | "S" => return .str
  | "V" => return .bv (← nat)
  | "A" => do let i ← ty; let e ← ty; return .array i e
  | "C" => return .custom (← str)
  | _ => throw s!"type expected: {t}"

def rep {α} (n : Nat) (p : P α) : P (List α) := do
  let mut acc := #[]
  for _ in [0:n] do acc := acc.push (← p)
  return acc.toList

/-- symbol type after the name has been read -/
def symTy (name : String) : P Sym := do
  let st ← get
  if h : st.pos < st.toks.size then
    if st.toks[st.pos] == "F" then
      let _ ← next
      let ret ← ty
      let k ← nat
      let ps ← rep k ty
      return ⟨name, ps, ret⟩
    else return ⟨name, [], ← ty⟩
  else throw "eof"

def payload : P Payload := do
  let t ← next
  match t with
  | "-" => return .none
  | "b" => return .b ((← nat) != 0)
  | "i" => return .i (← int)
  | "q" => do let n ← int; let d ← nat; return .q (mkRat n d)
  | "s" => return .s (← str)
  | "v" => do let v ← nat; let w ← nat; return .bv v w
  | "n" => do let k ← nat; return .ints (← rep k nat)
  | "y" => do let n ← str; return .sym (← symTy n)
  | "Q" => do
      let m ← nat
      let vs ← rep m (do let n ← str; let t ← ty; return Sym.var n t)
      return .qvars vs
  | "t" => return .ty (← ty)
  | _ => throw s!"payload expected: {t}"

def term : P Term := do
  let t ← next
  if t != "T" then throw s!"T expected: {t}"
  let n ← nat
  if n == 0 then throw "empty term"
  let mut tab : Array Term := #[]
  for _ in [0:n] do
    let opn ← next
    let some op := Op.ofName? opn | throw s!"unknown op {opn}"
    let p ← payload
    let k ← nat
    let idxs ← rep k nat
    let mut args : Array Term := #[]
    for i in idxs do
      if h : i < tab.size then args := args.push tab[i] else throw "forward reference"
    tab := tab.push (.node op args.toList p)
  return tab[n - 1]!

partial def val : P Val := do
  let t ← next
  match t with
  | "b" => return .b ((← nat) != 0)
  | "i" => return .i (← int)
  | "r" => do let n ← int; let d ← nat; return .r (mkRat n d)
  | "s" => return .s (← str)
  | "v" => do let w ← nat; let n ← nat; return .bv w n
  | "u" => do let s ← str; let k ← nat; return .u s k
  | "a" => do
      let idx ← ty
      let d ← val
      let k ← nat
      let mut a := Val.aconst idx d
      for _ in [0:k] do
        let key ← val
        let v ← val
        a := a.store key v
      return a
  | _ => throw s!"value expected: {t}"

/-- all values of a small finite sort -/
def allVals : Ty → List Val
  | .bool => [.b false, .b true]
  | .bv w => (List.range (2 ^ w)).map (Val.bv w)
  | t => [t.defaultVal]

def interp : P Interp := do
  let t ← next
  if t != "N" then throw s!"N expected: {t}"
  let nsym ← nat
  let syms ← rep nsym (do let n ← str; let t ← ty; let v ← val; return (Sym.var n t, v))
  let nfn ← nat
  let fns ← rep nfn (do
    let n ← str
    let f ← symTy n
    let ntab ← nat
    let tab ← rep ntab (do let as ← rep f.params.length val; let r ← val; return (as, r))
    let d ← val
    return (f, tab, d))
  let ndom ← nat
  let doms ← rep ndom (do let t ← ty; let k ← nat; let vs ← rep k val; return (t, vs))
  return {
    sym := fun s => match syms.find? (fun p => p.1 == s) with
      | some p => p.2 | none => s.ret.defaultVal
    fn := fun f as => match fns.find? (fun p => p.1 == f) with
      | some (_, tab, d) => (match tab.find? (fun e => e.1 == as) with | some e => e.2 | none => d)
      | none => f.ret.defaultVal
    dom := fun t => match doms.find? (fun p => p.1 == t) with
      | some p => p.2 | none => allVals t
    div0r := fun _ => 0
    div0i := fun _ => 0 }

def run {α} (p : P α) (toks : Array String) (pos : Nat := 0) : Except String (α × Nat) :=
  match p.run ⟨toks, pos⟩ with
  | .ok (a, st) => .ok (a, st.pos)
  | .error e => .error e

def tokens (line : String) : Array String :=
  ((line.splitOn " ").filter (· ≠ "")).toArray

/-! ## encoders -/

partial def encTy : Ty → String
  | .bool => "B" | .int => "I" | .real => "R" | .str => "S"
  | .bv w => s!"V {w}" | .array i e => s!"A {encTy i} {encTy e}" | .custom n => s!"C {hex n}"

def encSymTy (s : Sym) : String :=
  if s.params.isEmpty then encTy s.ret
  else s!"F {encTy s.ret} {s.params.length} " ++ " ".intercalate (s.params.map encTy)

def encPayload : Payload → String
  | .none => "-" | .b v => if v then "b 1" else "b 0" | .i v => s!"i {v}"
  | .q v => s!"q {v.num} {v.den}" | .s v => s!"s {hex v}" | .bv v w => s!"v {v} {w}"
  | .ints l => s!"n {l.length}" ++ String.join (l.map (fun n => s!" {n}"))
  | .sym s => s!"y {hex s.name} {encSymTy s}"
  | .qvars vs => s!"Q {vs.length}" ++ String.join (vs.map (fun v => s!" {hex v.name} {encTy v.ret}"))
  | .ty t => s!"t {encTy t}"

structure EncSt where
  memo : Std.HashMap String Nat := {}
  defs : Array String := #[]

partial def encNode (t : Term) : StateM EncSt Nat := do
  match t with
  | .node op args p =>
    let mut idxs : Array Nat := #[]
    for a in args do idxs := idxs.push (← encNode a)
    let key := s!"{op.name} {encPayload p} {idxs.size}" ++ String.join (idxs.toList.map (fun i => s!" {i}"))
    let st ← get
    match st.memo[key]? with
    | some i => return i
    | none =>
      let i := st.defs.size
      set { st with memo := st.memo.insert key i, defs := st.defs.push key }
      return i

/-- DAG encoding: post-order, first-visit numbering, structural de-duplication -/
def encTerm (t : Term) : String :=
  let (_, st) := (encNode t).run {}
  s!"T {st.defs.size} " ++ " ".intercalate st.defs.toList

partial def encVal : Val → String
  | .b v => if v then "b 1" else "b 0" | .i v => s!"i {v}" | .r v => s!"r {v.num} {v.den}"
  | .s v => s!"s {hex v}" | .bv w v => s!"v {w} {v}" | .u s k => s!"u {hex s} {k}"
  | a@(.aconst _ _) | a@(.astore _ _ _) =>
    let ents := a.arrEntries
    s!"a {encTy a.arrIdx} {encVal a.arrDefault} {ents.length}" ++ String.join (ents.map (fun kv => s!" {encVal kv.1} {encVal kv.2}"))

def encOptTy : Option Ty → String | some t => encTy t | none => "none"

end PySMT.Wire
