import PySMT.Core.Ty
/-!
# Terms (DESIGN §3.1): the 66 node types of `pysmt/operators.py`, payloads, trees.
-/
namespace PySMT

/-- Node types, in the order of `pysmt/operators.py` (ids 0 … 65). -/
inductive Op
  | forall_ | exists_ | and | or | not | implies | iff | symbol | function
  | realConst | boolConst | intConst | strConst | plus | minus | times | le | lt | equals | ite | toReal
  | bvConst | bvNot | bvAnd | bvOr | bvXor | bvConcat | bvExtract | bvUlt | bvUle | bvNeg | bvAdd | bvSub
  | bvMul | bvUdiv | bvUrem | bvLshl | bvLshr | bvRol | bvRor | bvZext | bvSext | bvSlt | bvSle | bvComp
  | bvSdiv | bvSrem | bvAshr | strLength | strConcat | strContains | strIndexOf | strReplace | strSubstr
  | strPrefixOf | strSuffixOf | strToInt | intToStr | strCharAt | arraySelect | arrayStore | arrayValue
  | div | pow | algebraicConst | bvToNatural
  deriving DecidableEq, Repr, Inhabited

def Op.all : List Op :=
  [.forall_, .exists_, .and, .or, .not, .implies, .iff, .symbol, .function,
   .realConst, .boolConst, .intConst, .strConst, .plus, .minus, .times, .le, .lt, .equals, .ite, .toReal,
   .bvConst, .bvNot, .bvAnd, .bvOr, .bvXor, .bvConcat, .bvExtract, .bvUlt, .bvUle, .bvNeg, .bvAdd, .bvSub,
   .bvMul, .bvUdiv, .bvUrem, .bvLshl, .bvLshr, .bvRol, .bvRor, .bvZext, .bvSext, .bvSlt, .bvSle, .bvComp,
   .bvSdiv, .bvSrem, .bvAshr, .strLength, .strConcat, .strContains, .strIndexOf, .strReplace, .strSubstr,
   .strPrefixOf, .strSuffixOf, .strToInt, .intToStr, .strCharAt, .arraySelect, .arrayStore, .arrayValue,
   .div, .pow, .algebraicConst, .bvToNatural]

/-- Name used on the wire = constructor name. -/
def Op.name : Op → String
  | .forall_ => "forall" | .exists_ => "exists" | .and => "and" | .or => "or" | .not => "not"
  | .implies => "implies" | .iff => "iff" | .symbol => "symbol" | .function => "function"
  | .realConst => "realConst" | .boolConst => "boolConst" | .intConst => "intConst" | .strConst => "strConst"
  | .plus => "plus" | .minus => "minus" | .times => "times" | .le => "le" | .lt => "lt" | .equals => "equals"
  | .ite => "ite" | .toReal => "toReal" | .bvConst => "bvConst" | .bvNot => "bvNot" | .bvAnd => "bvAnd"
  | .bvOr => "bvOr" | .bvXor => "bvXor" | .bvConcat => "bvConcat" | .bvExtract => "bvExtract"
  | .bvUlt => "bvUlt" | .bvUle => "bvUle" | .bvNeg => "bvNeg" | .bvAdd => "bvAdd" | .bvSub => "bvSub"
  | .bvMul => "bvMul" | .bvUdiv => "bvUdiv" | .bvUrem => "bvUrem" | .bvLshl => "bvLshl" | .bvLshr => "bvLshr"
  | .bvRol => "bvRol" | .bvRor => "bvRor" | .bvZext => "bvZext" | .bvSext => "bvSext" | .bvSlt => "bvSlt"
  | .bvSle => "bvSle" | .bvComp => "bvComp" | .bvSdiv => "bvSdiv" | .bvSrem => "bvSrem" | .bvAshr => "bvAshr"
  | .strLength => "strLength" | .strConcat => "strConcat" | .strContains => "strContains"
  | .strIndexOf => "strIndexOf" | .strReplace => "strReplace" | .strSubstr => "strSubstr"
  | .strPrefixOf => "strPrefixOf" | .strSuffixOf => "strSuffixOf" | .strToInt => "strToInt"
  | .intToStr => "intToStr" | .strCharAt => "strCharAt" | .arraySelect => "arraySelect"
  | .arrayStore => "arrayStore" | .arrayValue => "arrayValue" | .div => "div" | .pow => "pow"
  | .algebraicConst => "algebraicConst" | .bvToNatural => "bvToNatural"

def Op.ofName? (s : String) : Option Op := Op.all.find? (fun o => o.name == s)

/-- What `FNodeContent.payload` holds.
* `ints` : the integer tuple of a bit-vector operator (`(width,)`, `(width, lo, hi)`,
  `(width, step)`); * `sym` : the symbol of a `symbol` node or the function name of a
  `function` node; * `qvars` : bound variables; * `ty` : index sort of an array value. -/
inductive Payload
  | none | b (v : Bool) | i (v : Int) | q (v : Rat) | s (v : String)
  | bv (v w : Nat) | ints (l : List Nat) | sym (s : Sym) | qvars (vs : List Sym) | ty (t : Ty)
  deriving DecidableEq, Repr, Inhabited

inductive Term
  | node (op : Op) (args : List Term) (payload : Payload)
  deriving Repr

instance : Inhabited Term := ⟨.node .boolConst [] (.b false)⟩

mutual
def Term.dec : (a b : Term) → Decidable (a = b)
  | .node o1 a1 p1, .node o2 a2 p2 =>
    if ho : o1 = o2 then
      if hp : p1 = p2 then
        match Term.decList a1 a2 with
        | isTrue h => isTrue (by subst ho; subst hp; subst h; rfl)
        | isFalse h => isFalse (by intro e; cases e; exact h rfl)
      else isFalse (by intro e; cases e; exact hp rfl)
    else isFalse (by intro e; cases e; exact ho rfl)
def Term.decList : (a b : List Term) → Decidable (a = b)
  | [], [] => isTrue rfl
  | [], _ :: _ => isFalse (by intro e; cases e)
  | _ :: _, [] => isFalse (by intro e; cases e)
  | x :: xs, y :: ys =>
    match Term.dec x y, Term.decList xs ys with
    | isTrue h1, isTrue h2 => isTrue (by subst h1; subst h2; rfl)
    | isFalse h, _ => isFalse (by intro e; cases e; exact h rfl)
    | _, isFalse h => isFalse (by intro e; cases e; exact h rfl)
end
instance : DecidableEq Term := Term.dec

namespace Term
def op : Term → Op | node o _ _ => o
def args : Term → List Term | node _ a _ => a
def payload : Term → Payload | node _ _ p => p

-- convenient constructors (raw nodes; the normalising constructors are in Impl.Mk)
def tt : Term := node .boolConst [] (.b true)
def ff : Term := node .boolConst [] (.b false)
def bool (b : Bool) : Term := node .boolConst [] (.b b)
def int (n : Int) : Term := node .intConst [] (.i n)
def real (q : Rat) : Term := node .realConst [] (.q q)
def str (s : String) : Term := node .strConst [] (.s s)
def bvc (v w : Nat) : Term := node .bvConst [] (.bv v w)
def sym (s : Sym) : Term := node .symbol [] (.sym s)
def var (n : String) (t : Ty) : Term := sym (Sym.var n t)
def app (f : Sym) (as : List Term) : Term := node .function as (.sym f)
def mkNot (a : Term) : Term := node .not [a] .none
def mkAnd (as : List Term) : Term := node .and as .none
def mkOr (as : List Term) : Term := node .or as .none
def mkImplies (a b : Term) : Term := node .implies [a, b] .none
def mkIff (a b : Term) : Term := node .iff [a, b] .none
def mkIte (c a b : Term) : Term := node .ite [c, a, b] .none
def mkEq (a b : Term) : Term := node .equals [a, b] .none
def mkForall (vs : List Sym) (b : Term) : Term := node .forall_ [b] (.qvars vs)
def mkExists (vs : List Sym) (b : Term) : Term := node .exists_ [b] (.qvars vs)

/-- number of nodes of the tree -/
def size : Term → Nat
  | node _ args _ => 1 + (args.map size).sum
end Term

def Op.isQuantifier : Op → Bool | .forall_ | .exists_ => true | _ => false
def Op.isConstant : Op → Bool
  | .boolConst | .realConst | .intConst | .bvConst | .strConst | .algebraicConst => true | _ => false

end PySMT
