import PySMT.Core.Term
import PySMT.Core.Interp
/-!
# Reference semantics (DESIGN §3.3): `eval I t`, written from the SMT-LIB theory
definitions (Core, Ints, Reals, Reals_Ints, FixedSizeBitVectors + QF_BV extensions via
Lean core's `BitVec`, ArraysEx, Strings 2.6). This file is *specification*: it is not a
model of any pySMT code.

`eval` is total; on ill-typed applications it returns a junk value. Every theorem that
uses it assumes well-typedness.
-/
namespace PySMT
namespace Sem

/-! ## arithmetic -/
def add : Val → Val → Val
  | .i a, .i b => .i (a + b) | .r a, .r b => .r (a + b) | a, _ => a
def sub : Val → Val → Val
  | .i a, .i b => .i (a - b) | .r a, .r b => .r (a - b) | a, _ => a
def mul : Val → Val → Val
  | .i a, .i b => .i (a * b) | .r a, .r b => .r (a * b) | a, _ => a
def le : Val → Val → Bool
  | .i a, .i b => a ≤ b | .r a, .r b => a ≤ b | _, _ => false
def lt : Val → Val → Bool
  | .i a, .i b => a < b | .r a, .r b => a < b | _, _ => false
/-- SMT-LIB `div` on Int (Euclidean) and `/` on Real; division by zero is `I.div0*`. -/
def div (I : Interp) : Val → Val → Val
  | .i a, .i b => if b = 0 then .i (I.div0i a) else .i (Int.ediv a b)
  | .r a, .r b => if b = 0 then .r (I.div0r a) else .r (a / b)
  | a, _ => a
def toReal : Val → Val | .i a => .r a | v => v

/-- n-ary sum / product: fold from the first element -/
def sum : List Val → Val
  | [] => .i 0
  | v :: vs => vs.foldl add v
def prod : List Val → Val
  | [] => .i 1
  | v :: vs => vs.foldl mul v

/-! ## bit-vectors: every operator is the Lean core `BitVec` operation at the operand's width -/
def bv1 (f : (w : Nat) → BitVec w → BitVec w) : Val → Val
  | .bv w a => .bv w (f w (.ofNat w a)).toNat | v => v
def bv2 (f : (w : Nat) → BitVec w → BitVec w → BitVec w) : Val → Val → Val
  | .bv w a, .bv _ b => .bv w (f w (.ofNat w a) (.ofNat w b)).toNat | v, _ => v
def bvRel (f : (w : Nat) → BitVec w → BitVec w → Bool) : Val → Val → Bool
  | .bv w a, .bv _ b => f w (.ofNat w a) (.ofNat w b) | _, _ => false

def bvConcat : Val → Val → Val
  | .bv w a, .bv w' b => .bv (w + w') ((BitVec.ofNat w a) ++ (BitVec.ofNat w' b)).toNat | v, _ => v
def bvExtract (lo hi : Nat) : Val → Val
  | .bv w a => .bv (hi - lo + 1) ((BitVec.ofNat w a).extractLsb' lo (hi - lo + 1)).toNat | v => v
def bvZext (target : Nat) : Val → Val
  | .bv w a => .bv target ((BitVec.ofNat w a).setWidth target).toNat | v => v
def bvSext (target : Nat) : Val → Val
  | .bv w a => .bv target ((BitVec.ofNat w a).signExtend target).toNat | v => v
def bvComp : Val → Val → Val
  | .bv w a, .bv _ b => .bv 1 (if a % 2 ^ w = b % 2 ^ w then 1 else 0) | v, _ => v
def bvToNat : Val → Val | .bv w a => .i (a % 2 ^ w) | v => v

/-! ## strings (Strings 2.6), on code-point lists -/
def isPrefix : List Char → List Char → Bool
  | [], _ => true
  | _ :: _, [] => false
  | a :: as, b :: bs => a == b && isPrefix as bs

/-- first position `j ≥ i` (with `j ≤ |s|`) at which `t` occurs in `s` -/
def indexFrom (s t : List Char) (i : Nat) : Option Nat :=
  ((List.range (s.length + 1)).filter (fun j => decide (i ≤ j))).find? (fun j => isPrefix t (s.drop j))

def strContains (s t : List Char) : Bool := (indexFrom s t 0).isSome

def strIndexOf (s t : List Char) (i : Int) : Int :=
  if i < 0 then -1 else
  match indexFrom s t i.toNat with
  | some j => j
  | none => -1

def strReplace (s t t' : List Char) : List Char :=
  match indexFrom s t 0 with
  | some j => s.take j ++ t' ++ s.drop (j + t.length)
  | none => s

def strSubstr (s : List Char) (i n : Int) : List Char :=
  if 0 ≤ i ∧ i < s.length ∧ 0 < n then (s.drop i.toNat).take n.toNat else []

def strAt (s : List Char) (i : Int) : List Char :=
  if 0 ≤ i ∧ i < s.length then (s.drop i.toNat).take 1 else []

def strToInt (s : List Char) : Int :=
  if s ≠ [] ∧ s.all Char.isDigit then
    (s.foldl (fun acc c => acc * 10 + (c.toNat - '0'.toNat)) 0 : Nat)
  else -1

def intToStr (n : Int) : List Char :=
  if 0 ≤ n then (Nat.repr n.toNat).toList else []

def sOf : Val → List Char | .s v => v.toList | _ => []
def iOf : Val → Int | .i v => v | _ => 0
def mkS (l : List Char) : Val := .s (String.ofList l)

/-! ## arrays -/
def arrayValue (idx : Ty) (dflt : Val) : List Val → Val
  | k :: v :: rest => (arrayValue idx dflt rest).store k v
  | _ => .aconst idx dflt

end Sem

open Sem in
/-- meaning of an operator applied to argument *values* (everything except binders,
symbols and function applications) -/
def evalOp (I : Interp) (op : Op) (p : Payload) (vs : List Val) : Val :=
  match op, p, vs with
  | .and, _, vs => .b (vs.all Val.isTrue)
  | .or, _, vs => .b (vs.any Val.isTrue)
  | .not, _, [a] => .b (!a.isTrue)
  | .implies, _, [a, b] => .b (!a.isTrue || b.isTrue)
  | .iff, _, [a, b] => .b (a.isTrue == b.isTrue)
  | .boolConst, .b v, _ => .b v
  | .intConst, .i v, _ => .i v
  | .realConst, .q v, _ => .r v
  | .strConst, .s v, _ => .s v
  | .bvConst, .bv v w, _ => .bv w v
  | .plus, _, vs => sum vs
  | .minus, _, [a, b] => sub a b
  | .times, _, vs => prod vs
  | .div, _, [a, b] => div I a b
  | .le, _, [a, b] => .b (le a b)
  | .lt, _, [a, b] => .b (lt a b)
  | .equals, _, [a, b] => .b (decide (a = b))
  | .ite, _, [c, a, b] => if c.isTrue then a else b
  | .toReal, _, [a] => toReal a
  | .bvNot, _, [a] => bv1 (fun _ x => ~~~x) a
  | .bvNeg, _, [a] => bv1 (fun _ x => -x) a
  | .bvAnd, _, [a, b] => bv2 (fun _ x y => x &&& y) a b
  | .bvOr, _, [a, b] => bv2 (fun _ x y => x ||| y) a b
  | .bvXor, _, [a, b] => bv2 (fun _ x y => x ^^^ y) a b
  | .bvAdd, _, [a, b] => bv2 (fun _ x y => x + y) a b
  | .bvSub, _, [a, b] => bv2 (fun _ x y => x - y) a b
  | .bvMul, _, [a, b] => bv2 (fun _ x y => x * y) a b
  | .bvUdiv, _, [a, b] => bv2 (fun _ x y => BitVec.smtUDiv x y) a b
  | .bvUrem, _, [a, b] => bv2 (fun _ x y => BitVec.umod x y) a b
  | .bvSdiv, _, [a, b] => bv2 (fun _ x y => BitVec.smtSDiv x y) a b
  | .bvSrem, _, [a, b] => bv2 (fun _ x y => BitVec.srem x y) a b
  | .bvLshl, _, [a, b] => bv2 (fun _ x y => x <<< y.toNat) a b
  | .bvLshr, _, [a, b] => bv2 (fun _ x y => x >>> y.toNat) a b
  | .bvAshr, _, [a, b] => bv2 (fun _ x y => x.sshiftRight y.toNat) a b
  | .bvRol, .ints [_, k], [a] => bv1 (fun _ x => x.rotateLeft k) a
  | .bvRor, .ints [_, k], [a] => bv1 (fun _ x => x.rotateRight k) a
  | .bvZext, .ints [w, _], [a] => bvZext w a
  | .bvSext, .ints [w, _], [a] => bvSext w a
  | .bvConcat, _, [a, b] => bvConcat a b
  | .bvExtract, .ints [_, lo, hi], [a] => bvExtract lo hi a
  | .bvUlt, _, [a, b] => .b (bvRel (fun _ x y => x.ult y) a b)
  | .bvUle, _, [a, b] => .b (bvRel (fun _ x y => x.ule y) a b)
  | .bvSlt, _, [a, b] => .b (bvRel (fun _ x y => x.slt y) a b)
  | .bvSle, _, [a, b] => .b (bvRel (fun _ x y => x.sle y) a b)
  | .bvComp, _, [a, b] => bvComp a b
  | .bvToNatural, _, [a] => bvToNat a
  | .strLength, _, [a] => .i (sOf a).length
  | .strConcat, _, vs => mkS (vs.flatMap sOf)
  | .strContains, _, [a, b] => .b (strContains (sOf a) (sOf b))
  | .strIndexOf, _, [a, b, c] => .i (strIndexOf (sOf a) (sOf b) (iOf c))
  | .strReplace, _, [a, b, c] => mkS (strReplace (sOf a) (sOf b) (sOf c))
  | .strSubstr, _, [a, b, c] => mkS (strSubstr (sOf a) (iOf b) (iOf c))
  | .strPrefixOf, _, [a, b] => .b (isPrefix (sOf a) (sOf b))
  | .strSuffixOf, _, [a, b] => .b (isPrefix (sOf a).reverse (sOf b).reverse)
  | .strToInt, _, [a] => .i (strToInt (sOf a))
  | .intToStr, _, [a] => mkS (intToStr (iOf a))
  | .strCharAt, _, [a, b] => mkS (strAt (sOf a) (iOf b))
  | .arraySelect, _, [a, i] => a.select i
  | .arrayStore, _, [a, i, v] => a.store i v
  | .arrayValue, .ty idx, d :: rest => arrayValue idx d rest
  | _, _, _ => .b false      -- pow, algebraic constants, ill-formed applications: outside the semantics

/-- meaning of a node given the meanings of its children as functions of the interpretation -/
def evalNode (op : Op) (p : Payload) (fs : List (Interp → Val)) (I : Interp) : Val :=
  match op, p, fs with
  | .forall_, .qvars vs, [f] => .b (I.quant true vs (fun J => (f J).isTrue))
  | .exists_, .qvars vs, [f] => .b (I.quant false vs (fun J => (f J).isTrue))
  | .symbol, .sym s, _ => I.sym s
  | .function, .sym s, fs => I.fn s (fs.map (· I))
  | op, p, fs => evalOp I op p (fs.map (· I))

def Term.evalF : Term → Interp → Val
  | .node op args p => evalNode op p (args.map Term.evalF)

/-- `eval I t` : the value of `t` under `I` -/
def eval (I : Interp) (t : Term) : Val := t.evalF I

theorem eval_node (I : Interp) (op : Op) (args : List Term) (p : Payload) :
    eval I (.node op args p) = evalNode op p (args.map (fun a J => eval J a)) I := by
  simp only [eval, Term.evalF]

end PySMT

namespace PySMT

/-- "a division by zero is evaluated": some `div` sub-term has a divisor that evaluates to
zero (under `I`, or under some instantiation of the enclosing binders). Interpretations
with `div0 I t` are the ones C01/C02 leave unconstrained. -/
def div0Node (op : Op) (p : Payload) (fs : List ((Interp → Val) × (Interp → Bool))) (I : Interp) : Bool :=
  match op, p, fs with
  | .forall_, .qvars vs, [f] => I.quant false vs f.2
  | .exists_, .qvars vs, [f] => I.quant false vs f.2
  | .div, _, [a, b] => a.2 I || b.2 I || (b.1 I == .i 0) || (b.1 I == .r 0)
  | _, _, fs => fs.any (fun f => f.2 I)

def Term.div0F : Term → Interp → Bool
  | .node op args p => div0Node op p (args.map (fun a => (a.evalF, a.div0F)))

def div0 (I : Interp) (t : Term) : Bool := t.div0F I

end PySMT
