import PySMT.Impl.Printer
import PySMT.Spec.SmtlibText
/-!
# C07: the hypotheses of the printer theorems, as decidable predicates

`Printable env scope t` is the conjunction, over every node of `t`, of

* **WT** — the node is well-typed (`typeOfNode … ≠ none`) and carries pySMT's canonical payload and arity
  (what `FormulaManager`'s constructors build; `typeOfNode` alone ignores e.g. the payload of `bvComp`);
* **NamesOK** — the property's name proviso: every symbol name consists of printable characters other than `|` and `\`
  (SMT-LIB has no spelling for the others, finding F45), is not a reserved word and not a theory symbol; one name
  denotes one symbol (`resolves`: looking the *name* up in the enclosing binders / the declarations gives back the symbol);
  custom sorts are plain declared sorts (`SortOK`; parametric sort instances are outside the theorem, see `read_toSexp`);
* **Normal** — the shapes the constructors never build and the printer cannot distinguish: n-ary `and or + * str.++` have
  at least two arguments, `/` does not divide a Real constant by a non-zero Real constant (`Div` folds that);
* the known findings are excluded: no integer division (F10), no `str.to.int`/`int.to.str` (F11), no `pow` (F44),
  string constants are printable ASCII without backslash (F46), numerals are read as Int (`¬ env.realsOnly`).

It is a `Bool`-valued function so that the non-vacuity examples are `decide`d and the driver can report which share of
the generated formulas the theorems speak about (`printable` request).
-/
namespace PySMT.Printer
open PySMT.Std PySMT.Sexp

/-- printable and speakable inside `|…|` -/
def nameChar (c : Char) : Bool := 32 ≤ c.toNat && c.toNat != 127 && c != '|' && c != '\\'

def nameFine (n : String) : Bool := n.toList.all nameChar && !isReserved n && !theorySymbols.contains n

/-- string constants whose literal denotes themselves in the Strings theory -/
def strFine (v : String) : Bool := v.toList.all (fun c => 0x20 ≤ c.toNat && c.toNat ≤ 0x7E && c != '\\')

def SortOK (env : SEnv) : Ty → Bool
  | .bool | .int | .real | .str => true
  | .bv w => decide (0 < w)
  | .array i e => SortOK env i && SortOK env e
  | .custom n =>
    !n.toList.contains '{' && n.toList.all nameChar && !isReserved n && !["Bool", "Int", "Real", "String"].contains n
      && env.lookupSort n == some 0

def findVar (scope : List Sym) (n : String) : Option Sym := scope.find? (fun s => s.name == n)

def isRealConst : Term → Option Rat
  | .node .realConst [] (.q r) => some r
  | _ => none

/-- The sort of a node by the ranks of the SMT-LIB theories, with pySMT's canonical payloads and arities, written
family by family (so that it can be inverted in proofs; `typeOfNode` — the model of pySMT's checker, one 200-way match —
agrees with it on everything the constructors build, which `Printable` checks node by node). -/
def stdTy (op : Op) (p : Payload) (ts : List Ty) : Option Ty :=
  match op with
  | .and | .or => if p == .none && ts.all (· == .bool) then some .bool else none
  | .not => if p == .none && ts == [.bool] then some .bool else none
  | .implies | .iff => if p == .none && ts == [.bool, .bool] then some .bool else none
  | .plus | .times =>
    if p == .none && ts.all (· == .int) then some .int else if p == .none && ts.all (· == .real) then some .real else none
  | .minus => if p == .none && ts == [.int, .int] then some .int else if p == .none && ts == [.real, .real] then some .real else none
  | .div => if p == .none && ts == [.real, .real] then some .real else none
  | .le | .lt => if p == .none && (ts == [.int, .int] || ts == [.real, .real]) then some .bool else none
  | .equals =>
    match p, ts with
    | .none, [a, b] => if a == b && a != .bool then some .bool else none
    | _, _ => none
  | .ite =>
    match p, ts with
    | .none, [.bool, a, b] => if a == b then some a else none
    | _, _ => none
  | .toReal => if p == .none && ts == [.int] then some .real else none
  | .bvNot | .bvNeg =>
    match p, ts with
    | .ints [w], [.bv a] => if a == w then some (.bv w) else none
    | _, _ => none
  | .bvAnd | .bvOr | .bvXor | .bvAdd | .bvSub | .bvMul | .bvUdiv | .bvUrem | .bvLshl | .bvLshr | .bvAshr | .bvSdiv
  | .bvSrem =>
    match p, ts with
    | .ints [w], [.bv a, .bv b] => if a == w && b == w then some (.bv w) else none
    | _, _ => none
  | .bvConcat =>
    match p, ts with
    | .ints [w], [.bv a, .bv b] => if a + b == w then some (.bv w) else none
    | _, _ => none
  | .bvComp =>
    match p, ts with
    | .ints [1], [.bv a, .bv b] => if a == b then some (.bv 1) else none
    | _, _ => none
  | .bvUlt | .bvUle | .bvSlt | .bvSle =>
    match p, ts with
    | .none, [.bv a, .bv b] => if a == b then some .bool else none
    | _, _ => none
  | .bvExtract =>
    match p, ts with
    | .ints [w, lo, hi], [.bv m] => if lo ≤ hi && hi < m && w == hi - lo + 1 then some (.bv w) else none
    | _, _ => none
  | .bvRol | .bvRor =>
    match p, ts with
    | .ints [w, _], [.bv m] => if m == w then some (.bv w) else none
    | _, _ => none
  | .bvZext | .bvSext =>
    match p, ts with
    | .ints [w, k], [.bv a] => if w == a + k then some (.bv w) else none
    | _, _ => none
  | .bvToNatural =>
    match p, ts with
    | .none, [.bv _] => some .int
    | _, _ => none
  | .strLength => if p == .none && ts == [.str] then some .int else none
  | .strConcat => if p == .none && ts.all (· == .str) then some .str else none
  | .strContains | .strPrefixOf | .strSuffixOf => if p == .none && ts == [.str, .str] then some .bool else none
  | .strIndexOf => if p == .none && ts == [.str, .str, .int] then some .int else none
  | .strReplace => if p == .none && ts == [.str, .str, .str] then some .str else none
  | .strSubstr => if p == .none && ts == [.str, .int, .int] then some .str else none
  | .strCharAt => if p == .none && ts == [.str, .int] then some .str else none
  | .arraySelect =>
    match p, ts with
    | .none, [.array i e, j] => if i == j then some e else none
    | _, _ => none
  | .arrayStore =>
    match p, ts with
    | .none, [.array i e, j, v] => if i == j && e == v then some (.array i e) else none
    | _, _ => none
  | .arrayValue =>
    match p, ts with
    | .ty idx, d :: rest =>
      if rest.length % 2 == 0 && (pairsOf rest).all (fun kv => kv.1 == idx && kv.2 == d) then some (.array idx d) else none
    | _, _ => none
  | .symbol =>
    match p, ts with
    | .sym s, [] => if s.params.isEmpty then some s.ret else none
    | _, _ => none
  | .function =>
    match p with
    | .sym f => if !f.params.isEmpty && ts == f.params then some f.ret else none
    | _ => none
  | .boolConst => match p, ts with | .b _, [] => some .bool | _, _ => none
  | .intConst => match p, ts with | .i _, [] => some .int | _, _ => none
  | .realConst => match p, ts with | .q _, [] => some .real | _, _ => none
  | .strConst => match p, ts with | .s _, [] => some .str | _, _ => none
  | .bvConst => match p, ts with | .bv v w, [] => if 0 < w && v < 2 ^ w then some (.bv w) else none | _, _ => none
  | .forall_ | .exists_ => match p, ts with | .qvars _, [.bool] => some .bool | _, _ => none
  | .strToInt | .intToStr | .pow | .algebraicConst => none

/-- pairwise different terms (the keys of an array value built from a dictionary) -/
def termsDistinct : List Term → Bool
  | [] => true
  | x :: xs => !xs.contains x && termsDistinct xs

/-- the conditions of a node that are not about sorts -/
def nodeOK (env : SEnv) (scope : List Sym) (op : Op) (p : Payload) (args : List Term) : Bool :=
  let n := args.length
  match op, p with
  | .symbol, .sym s =>
    n == 0 && nameFine s.name && s.params.isEmpty &&
      (match findVar scope s.name with
       | some s' => s' == s
       | none => env.lookupFun s.name == some s)
  | .function, .sym f =>
    n != 0 && nameFine f.name && !f.params.isEmpty && (findVar scope f.name).isNone && env.lookupFun f.name == some f
  | .intConst, _ => !env.realsOnly
  | .strConst, .s v => strFine v
  | .and, _ | .or, _ | .plus, _ | .times, _ | .strConcat, _ => decide (2 ≤ n)
  | .div, _ =>
    !(match args with
      | [a, b] => (isRealConst a).isSome && (match isRealConst b with | some y => y != 0 | none => false)
      | _ => false)
  | .arrayValue, .ty idx =>
    SortOK env idx && (match args with
                       | d :: rest => (match d.typeOf with | some e => SortOK env e | none => false)
                          && termsDistinct ((pairsOf rest).map (·.1))
                       | [] => false)
  | _, _ => true

def binderOK (env : SEnv) (vs : List Sym) : Bool :=
  !vs.isEmpty && distinctNames (vs.map (·.name)) &&
    vs.all (fun v => nameFine v.name && v.params.isEmpty && SortOK env v.ret)

/-- sort of a well-typed term (`Bool` as a dummy otherwise) -/
def tyD (a : Term) : Ty := (a.typeOf).getD .bool

/-- the hypotheses of `read_toSexp` / `print_sound` for the term `t` under the binders `scope` (innermost first) -/
def Printable (env : SEnv) : List Sym → Term → Bool
  | scope, .node op args p =>
    (match stdTy op p (args.map tyD) with
     | some τ => typeOfNode op p (args.map Term.typeOf) == some τ
     | none => false) &&
    (match op, p with
     | .forall_, .qvars vs | .exists_, .qvars vs =>
       binderOK env vs && (args.map (Printable env (vs.reverse ++ scope))).all id
     | _, _ => nodeOK env scope op p args && (args.map (Printable env scope)).all id)

/-- what a reader of the tree printer's text sees: an array value is a chain of stores (in the printer's order: sorted
by `str(key)`) over the constant array -/
def unfoldAV : Term → Term
  | .node op args p =>
    let as := args.map unfoldAV
    match op, p, args, as with
    | .arrayValue, .ty idx, _ :: rest, ds :: restS =>
      let ents := sortBy (fun e => hrStr e.1.1) ((pairsOf rest).zip (pairsOf restS))
      ents.foldl (fun acc e => .node .arrayStore [acc, e.2.1, e.2.2] .none) (.node .arrayValue [ds] (.ty idx))
    | _, _, _, _ => .node op as p

/-- every array value lists its assignments in the order in which the chain of stores applies them (or has at most
one): then `eval` of the unfolded term is `eval` of the term without any commutation of stores -/
def avOrdered : Term → Bool
  | .node op args p =>
    (args.map avOrdered).all id &&
    (match op, p, args with
     | .arrayValue, .ty _, _ :: rest =>
       (sortBy (fun e : Term × Term => hrStr e.1) (pairsOf rest)) == (pairsOf rest).reverse
     | _, _, _ => true)

/-! ## array values in either printer's order; the guard under which the order does not matter -/

/-- what a reader of the printed text sees, for either printer: `sorted = true` is the tree printer (assignments of an
array value ordered by `str(key)`), `sorted = false` the DAG printer (argument order). `unfoldAV = unfoldAVw true`. -/
def unfoldAVw (sorted : Bool) : Term → Term
  | .node op args p =>
    let as := args.map (unfoldAVw sorted)
    match op, p, args, as with
    | .arrayValue, .ty idx, _ :: rest, ds :: restS =>
      let ents := (pairsOf rest).zip (pairsOf restS)
      let ents := if sorted then sortBy (fun e => hrStr e.1.1) ents else ents
      ents.foldl (fun acc e => .node .arrayStore [acc, e.2.1, e.2.2] .none) (.node .arrayValue [ds] (.ty idx))
    | _, _, _, _ => .node op as p

/-- the value of a constant node -/
def constVal : Term → Option Val
  | .node .boolConst [] (.b v) => some (.b v)
  | .node .intConst [] (.i v) => some (.i v)
  | .node .realConst [] (.q v) => some (.r v)
  | .node .strConst [] (.s v) => some (.s v)
  | .node .bvConst [] (.bv v w) => some (.bv w v)
  | _ => none

def pairwiseNe : List Val → Bool
  | [] => true
  | x :: xs => !xs.contains x && pairwiseNe xs

/-- every array value of the term has a non-array index sort and its keys are pairwise different constants of that sort
(what `FormulaManager.Array` builds: the keys of a dictionary of constants): then any order of the assignments denotes
the same array -/
def avGuard : Term → Bool
  | .node op args p =>
    (args.map avGuard).all id &&
    (match op, p, args with
     | .arrayValue, .ty idx, _ :: rest =>
       (match idx with | .array _ _ => false | _ => true) &&
       (pairsOf rest).all (fun kv => match constVal kv.1 with | some v => v.hasSort idx | none => false) &&
       pairwiseNe ((pairsOf rest).map (fun kv => (constVal kv.1).getD (.b false)))
     | _, _, _ => true)

/-- no quantifier anywhere -/
def noQuant : Term → Bool
  | .node op args _ => !op.isQuantifier && (args.map noQuant).all id

/-! ## hypotheses of `printDag_sound` -/

/-- the names `SmtDagPrinter.printer` must not generate: the quoted names of the free symbols -/
def dagNames (t : Term) : List String := t.fv.eraseDups.map (fun s => pyQuote s.name)

/-- the symbol of a `symbol` / `function` node is one of the protected ones -/
def dagNameOK (names : List String) : Op → Payload → Bool
  | .symbol, .sym s | .function, .sym s => names.contains (pyQuote s.name)
  | _, _ => true

/-- `Printable` for a quantifier-free term (no binder scope), every symbol of which is among the free symbols whose quoted
names are `names` -/
def DagOK (names : List String) (env : SEnv) : Term → Bool
  | .node op args p =>
    !op.isQuantifier &&
    (match stdTy op p (args.map tyD) with
     | some τ => typeOfNode op p (args.map Term.typeOf) == some τ
     | none => false) &&
    nodeOK env [] op p args &&
    dagNameOK names op p &&
    (args.map (DagOK names env)).all id

/-! ## hypotheses of `decls_before_use` -/

def allDistinct : List String → Bool
  | [] => true
  | x :: xs => !xs.contains x && allDistinct xs

/-- the environment the declarations of `scriptOfFormula logic _ t` build (in `runStd`'s representation: most recent first) -/
def scriptEnv (logic : String) (t : Term) : SEnv :=
  { logic := logic, sorts := (sortDecls t).reverse, funs := t.fv.eraseDups.reverse }

/-- `t` is a formula whose script the theorem speaks about: the logic name is a plain symbol, the declared sorts and
symbols have speakable, pairwise different names and are not predefined, every sort in a signature is declared, and
`t` is `Printable` in the environment of its own declarations -/
def ScriptOK (logic : String) (t : Term) : Bool :=
  isSimpleSymbolChars logic.toList && !isReserved logic &&
  allDistinct ((sortDecls t).map (·.1)) &&
  (sortDecls t).all (fun d => d.1.toList.all nameChar && !isReserved d.1 && !predefinedSorts.contains d.1) &&
  allDistinct (t.fv.eraseDups.map (·.name)) &&
  t.fv.eraseDups.all (fun s => nameFine s.name && SortOK (scriptEnv logic t) s.ret
    && s.params.all (SortOK (scriptEnv logic t))) &&
  t.typeOf == some .bool && Printable (scriptEnv logic t) [] t

/-! ## hypotheses of `cmds_accepted`: general command lists -/

def addAssert (st : StdState) (tm : Term) : StdState :=
  match st.asserts with
  | top :: rest => { st with asserts := (tm :: top) :: rest }
  | [] => { st with asserts := [[tm]] }

/-- the command is legal in the state `st` of the strict interpreter: names are speakable and new, every sort used is
declared, an asserted formula is `Printable` in the environment built so far (every symbol it uses has been declared and
is still in scope) -/
def cmdOK (dag : Bool) (st : StdState) : Cmd → Bool
  | .setLogic l => !st.logicSet && isSimpleSymbolChars l.toList && !isReserved l
  | .declareSort n _ =>
    n.toList.all nameChar && !isReserved n && !predefinedSorts.contains n && (st.env.lookupSort n).isNone
      && (st.env.lookupAlias n).isNone
  | .declareFun s => nameFine s.name && !st.env.nameTaken s.name && SortOK st.env s.ret && s.params.all (SortOK st.env)
  | .declareConst s =>
    s.params.isEmpty && nameFine s.name && !st.env.nameTaken s.name && SortOK st.env s.ret
  | .assert t => t.typeOf == some .bool && Printable st.env [] t && (!dag || noQuant t)
  | .push _ => true
  | .pop n => (match popN st n with | .ok _ => true | .error _ => false)
  | .checkSat => true

/-- the state after the command -/
def cmdNext (dag : Bool) (st : StdState) : Cmd → StdState
  | .setLogic l => { st with env := { st.env with logic := l }, logicSet := true }
  | .declareSort n k => { st with env := { st.env with sorts := (n, k) :: st.env.sorts } }
  | .declareFun s | .declareConst s => { st with env := { st.env with funs := s :: st.env.funs } }
  | .assert t => addAssert st (unfoldAVw (!dag) t)
  | .push n => pushN st n
  | .pop n => (match popN st n with | .ok st' => st' | .error _ => st)
  | .checkSat => st

def cmdsOK (dag : Bool) : StdState → List Cmd → Bool
  | _, [] => true
  | st, c :: cs => cmdOK dag st c && cmdsOK dag (cmdNext dag st c) cs

def cmdsRun (dag : Bool) : StdState → List Cmd → StdState
  | st, [] => st
  | st, c :: cs => cmdsRun dag (cmdNext dag st c) cs

end PySMT.Printer
