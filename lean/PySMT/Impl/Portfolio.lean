import Std.Data.HashSet
/-!
# C19 — model of `pysmt/solvers/portfolio.py` as a labelled transition system

The *state* is the parent process (the caller of `Portfolio.solve / get_model / get_value`), the
member processes of the current `solve` call, and the three channels between them:

* `queue`  – `signaling_queue` (multiprocessing.Queue, FIFO, members → parent),      portfolio.py:142
* `ctrl`   – the control pipe parent → members; its receiving end is *shared* by all
             members of the call (`child_ctrl_pipe` is inherited by every child),     portfolio.py:143
* `reply`  – the same pipe in the other direction (members → parent).

One *step* is one atomic action of one process.  The scheduler is "any enabled step": the theorems
in `Proofs/C19*.lean` quantify over every path of `Step`, i.e. every interleaving and every gap
between member completions, for any number of members.

Parent (portfolio.py:132-180, with the F25 repair):

    solveStart        _close_existing (cannot fail: the F25b repair; the channels and processes of the previous call
                      are dropped, they share nothing with the new call); new Queue, new Pipe; one process per member
    waiting           loop: signaling_queue.get
      getAns            a bool answer            ⇒ leave the loop, remember the winner
      getExnSkip        an exception, not exit_on_exception ⇒ continue
      getExnExit        an exception, exit_on_exception     ⇒ terminate everybody, raise
      allDead           nothing queued and no member process alive ⇒ raise (the F25 repair)
    killLosers k      `for p in processes`: terminate p unless it is the winner, one per step
    returned v w      `return res`; `_ext_solver` = member `w`
    ask q / awaiting  get_model / get_value: send on the control pipe, block in `recv`
      recvReply         the reply arrives (a value, or the exception the member's solver raised: F25f repair; the
                        parent re-raises it -- the content of a reply is not modelled)
      recvEOF           every process holding the other end is dead: `recv` raises EOFError, the call ends
    askNoSolver       get_model / get_value while no solver is kept (`_ext_solver is None`: before the first solve(),
                      after a solve() that raised -- F25e repair --, after exit()): immediate ValueError, no process touched
    close             exit(): `_close_existing`, everything of the last call is dropped
    edit              push / pop / add_assertion: bookkeeping in the parent only.  Which formula the members get
                      (live assertions + assumptions of the call, F25d repair) is data: `beh` is indexed by the call
                      number, so every change of the formula between two calls is covered by the quantification over `beh`.

Member `i` (`_run_solver`, portfolio.py:224-264):

    solving           inside `s.solve()`
    finish            solve() ends: bool answer ⇒ `put((idx, res))`; exception ⇒ `put((solver, ex))`;
                      silent death (`os._exit`, SIGKILL, segfault) ⇒ `crashed`, no message
    putting m         the message was handed to the queue's feeder thread, the process is alive
    flush             the message reaches the queue; answer ⇒ `serving` (blocked in `ctrl_pipe.recv`),
                      exception ⇒ `exited` (`return`; the process exits only after the feeder
                      thread has flushed – assumption A2 below)
    recvCmd           `serving`: take the next control message; `exit` ⇒ exited, query ⇒ reply
    serveCrash        fault model `OS.serveCrash`: a member dies (kill -9, segfault) while blocked in `recv`, i.e.
                      after its answer -- also the winner

OS-level assumptions (not provable in Lean; the first is an explicit hypothesis of the theorems that
need it, the others are built into the shape of the steps):

* A1 `OS.killAtomic`: after `Process.terminate()` has returned, the target cannot consume a control
  message that is sent later.  When the flag is `false` the model has the extra step `lateRecv`
  (a terminated member that was blocked in `recv` swallows one message), and `get_model` can then
  block for ever (`Props/C19.lean`, `killAtomic_needed`).
* A2 a member that leaves `_run_solver` in an orderly way exits only after its queued message has been
  written to the pipe (multiprocessing joins the feeder thread at exit), and `is_alive()` is false only
  after the exit.  Hence "no member alive and nothing queued" is a stable fact: `allDead` is atomic.
* A3 queue and pipe are reliable FIFO channels; `terminate()` on a dead process is a no-op.
* A4 every member's `solve()` ends (answer, exception or death).  A member that hangs for ever is
  outside the property ("members that fail or answer unknown").

Process start is atomic in the model (`solveStart` creates all members at once).  In the code the
children are started one after the other, but the parent reads nothing before all are started, so a
member that is "not yet started" behaves like a `solving` member that has not moved yet.

No Mathlib.  Everything here is computable; `isuccs`/`explore`/`outcomes` are what the driver runs, and
`Proofs/C19Exec.lean` proves `t ∈ isuccs cfg s ↔ IStep cfg s t`.
-/
namespace PySMT.Portfolio

/-- class of the exception a member's `solve()` raises -/
inductive Exn
  | solverError          -- any exception other than "unknown"
  | unknown              -- SolverReturnedUnknownResultError
  | invalid              -- UnknownSolverAnswerError: solve() returned something that is not a bool (F25c repair)
  deriving DecidableEq, Repr, Hashable

/-- what a member's `solve()` call ends with -/
inductive Beh
  | answer (v : Bool)
  | raise (e : Exn)
  | crash                -- dies without a message
  deriving DecidableEq, Repr, Hashable

inductive Msg
  | ans (i : Nat) (v : Bool)
  | exn (i : Nat) (e : Exn)
  deriving DecidableEq, Repr, Hashable

inductive MSt
  | solving
  | putting (m : Msg)
  | serving
  | exited
  | crashed
  | dying                -- only without A1: terminated while blocked in `recv`, may still swallow a message
  | killed
  deriving DecidableEq, Repr, Hashable

/-- error raised by `Portfolio.solve` -/
inductive Err
  | member (i : Nat) (e : Exn)   -- `raise res` (exit_on_exception)
  | allFailed                    -- the F25 repair: SolverReturnedUnknownResultError
  deriving DecidableEq, Repr, Hashable

inductive Cmd
  | query (q : Nat)      -- 0 = get_model, x+1 = get_value of item x
  | exit
  deriving DecidableEq, Repr, Hashable

inductive PSt
  | ready
  | waiting
  | killLosers (v : Bool) (w k : Nat)
  | killAll (e : Err) (k : Nat)
  | returned (v : Bool) (w : Nat)
  | raised (e : Err)
  | awaiting (v : Bool) (w q : Nat)
  deriving DecidableEq, Repr, Hashable

structure OS where
  killAtomic : Bool
  /-- fault model: may a member die (kill -9, segfault) while it is blocked in `recv`, i.e. after its answer? -/
  serveCrash : Bool := false
  deriving DecidableEq, Repr, Hashable

structure Cfg where
  n : Nat                       -- number of members
  eoe : Bool                    -- option exit_on_exception
  beh : Nat → Nat → Beh         -- solve call number → member → behaviour (assertions may change between calls)
  os : OS

structure State where
  cycle : Nat                   -- number of solve calls started
  ms : List MSt
  queue : List Msg
  ctrl : List Cmd
  reply : List (Nat × Nat)      -- (sender, query)
  p : PSt
  served : List (Nat × Nat)     -- replies the parent has received since the last solve
  deriving DecidableEq, Repr, Hashable

def init : State := ⟨0, [], [], [], [], .ready, []⟩

def alive : MSt → Bool
  | .solving | .putting _ | .serving => true
  | _ => false

/-- a member that can never act again -/
def dead : MSt → Bool
  | .exited | .crashed | .killed => true
  | _ => false

def afterSolve (i : Nat) : Beh → MSt
  | .answer v => .putting (.ans i v)
  | .raise e => .putting (.exn i e)
  | .crash => .crashed

def afterFlush : Msg → MSt
  | .ans _ _ => .serving
  | .exn _ _ => .exited

/-- effect of `Process.terminate()` -/
def kill (os : OS) : MSt → MSt
  | .solving => .killed
  | .putting _ => .killed
  | .serving => if os.killAtomic then .killed else .dying
  | m => m

/-- the parent is inside `solve()` -/
def inSolve : PSt → Bool
  | .waiting | .killLosers _ _ _ | .killAll _ _ => true
  | _ => false

/-- the parent is between two API calls -/
def quiescent : PSt → Bool
  | .ready | .returned _ _ | .raised _ => true
  | _ => false

def fresh (cfg : Cfg) (s : State) : State :=
  { cycle := s.cycle + 1, ms := List.replicate cfg.n .solving, queue := [], ctrl := [], reply := [],
    p := .waiting, served := [] }

variable (cfg : Cfg)

/-- internal steps: everything that happens while the caller is inside one API call -/
inductive IStep : State → State → Prop
  | finish (s : State) (i : Nat) : s.ms[i]? = some .solving →
      IStep s { s with ms := s.ms.set i (afterSolve i (cfg.beh s.cycle i)) }
  | flush (s : State) (i : Nat) (m : Msg) : s.ms[i]? = some (.putting m) →
      IStep s { s with ms := s.ms.set i (afterFlush m), queue := s.queue ++ [m] }
  | recvExit (s : State) (i : Nat) (cs : List Cmd) : s.ms[i]? = some .serving → s.ctrl = .exit :: cs →
      IStep s { s with ms := s.ms.set i .exited, ctrl := cs }
  | recvQuery (s : State) (i q : Nat) (cs : List Cmd) : s.ms[i]? = some .serving → s.ctrl = .query q :: cs →
      IStep s { s with ctrl := cs, reply := s.reply ++ [(i, q)] }
  | serveCrash (s : State) (i : Nat) : cfg.os.serveCrash = true → s.ms[i]? = some .serving →
      IStep s { s with ms := s.ms.set i .crashed }
  | lateRecv (s : State) (i : Nat) (c : Cmd) (cs : List Cmd) : cfg.os.killAtomic = false →
      s.ms[i]? = some .dying → s.ctrl = c :: cs →
      IStep s { s with ms := s.ms.set i .killed, ctrl := cs }
  | getAns (s : State) (i : Nat) (v : Bool) (q : List Msg) : s.p = .waiting → s.queue = .ans i v :: q →
      IStep s { s with queue := q, p := .killLosers v i 0 }
  | getExnSkip (s : State) (i : Nat) (e : Exn) (q : List Msg) : s.p = .waiting → cfg.eoe = false →
      s.queue = .exn i e :: q → IStep s { s with queue := q }
  | getExnExit (s : State) (i : Nat) (e : Exn) (q : List Msg) : s.p = .waiting → cfg.eoe = true →
      s.queue = .exn i e :: q → IStep s { s with queue := q, p := .killAll (.member i e) 0 }
  | allDead (s : State) : s.p = .waiting → s.queue = [] → (∀ m ∈ s.ms, alive m = false) →
      IStep s { s with p := .raised .allFailed }
  | killLoser (s : State) (v : Bool) (w k : Nat) : s.p = .killLosers v w k → k < s.ms.length →
      IStep s { s with ms := if k = w then s.ms else s.ms.modify k (kill cfg.os), p := .killLosers v w (k + 1) }
  | killLosersDone (s : State) (v : Bool) (w k : Nat) : s.p = .killLosers v w k → s.ms.length ≤ k →
      IStep s { s with p := .returned v w }
  | killAllStep (s : State) (e : Err) (k : Nat) : s.p = .killAll e k → k < s.ms.length →
      IStep s { s with ms := s.ms.modify k (kill cfg.os), p := .killAll e (k + 1) }
  | killAllDone (s : State) (e : Err) (k : Nat) : s.p = .killAll e k → s.ms.length ≤ k →
      IStep s { s with p := .raised e }
  | recvReply (s : State) (v : Bool) (w q j q' : Nat) (r : List (Nat × Nat)) : s.p = .awaiting v w q →
      s.reply = (j, q') :: r → IStep s { s with reply := r, p := .returned v w, served := s.served ++ [(j, q')] }
  | recvEOF (s : State) (v : Bool) (w q : Nat) : s.p = .awaiting v w q → s.reply = [] →
      (∀ m ∈ s.ms, dead m = true) → IStep s { s with ctrl := [], p := .returned v w }

/-- user steps: the API calls of the (single-threaded) caller -/
inductive UStep : State → State → Prop
  | solveStart (s : State) : quiescent s.p = true → UStep s (fresh cfg s)
  | ask (s : State) (v : Bool) (w q : Nat) : s.p = .returned v w →
      UStep s { s with ctrl := s.ctrl ++ [.query q], p := .awaiting v w q }
  | edit (s : State) : quiescent s.p = true → UStep s s     -- push / pop / add_assertion: no process is touched
  | askNoSolver (s : State) : (s.p = .ready ∨ ∃ e, s.p = .raised e) → UStep s s
  | close (s : State) : quiescent s.p = true →
      UStep s { s with ms := [], queue := [], ctrl := [], reply := [], p := .ready, served := [] }

inductive Step : State → State → Prop
  | internal (s t : State) : IStep cfg s t → Step s t
  | user (s t : State) : UStep cfg s t → Step s t

inductive Reach : State → Prop
  | init : Reach init
  | step (s t : State) : Reach s → Step cfg s t → Reach t

/-! ## Executable successor function and explorer -/

def memberSuccs (s : State) (i : Nat) : List State :=
  match s.ms[i]? with
  | some .solving => [{ s with ms := s.ms.set i (afterSolve i (cfg.beh s.cycle i)) }]
  | some (.putting m) => [{ s with ms := s.ms.set i (afterFlush m), queue := s.queue ++ [m] }]
  | some .serving =>
    (match s.ctrl with
    | .exit :: cs => [{ s with ms := s.ms.set i .exited, ctrl := cs }]
    | .query q :: cs => [{ s with ctrl := cs, reply := s.reply ++ [(i, q)] }]
    | [] => []) ++ (if cfg.os.serveCrash = true then [{ s with ms := s.ms.set i .crashed }] else [])
  | some .dying =>
    if cfg.os.killAtomic = false then
      match s.ctrl with
      | _ :: cs => [{ s with ms := s.ms.set i .killed, ctrl := cs }]
      | [] => []
    else []
  | _ => []

def parentSuccs (s : State) : List State :=
  match s.p with
  | .waiting =>
    match s.queue with
    | [] => if s.ms.all (fun m => alive m = false) then [{ s with p := .raised .allFailed }] else []
    | .ans i v :: q => [{ s with queue := q, p := .killLosers v i 0 }]
    | .exn i e :: q =>
      if cfg.eoe then [{ s with queue := q, p := .killAll (.member i e) 0 }] else [{ s with queue := q }]
  | .killLosers v w k =>
    if k < s.ms.length then
      [{ s with ms := if k = w then s.ms else s.ms.modify k (kill cfg.os), p := .killLosers v w (k + 1) }]
    else [{ s with p := .returned v w }]
  | .killAll e k =>
    if k < s.ms.length then [{ s with ms := s.ms.modify k (kill cfg.os), p := .killAll e (k + 1) }]
    else [{ s with p := .raised e }]
  | .awaiting v w _ =>
    match s.reply with
    | (j, q') :: r => [{ s with reply := r, p := .returned v w, served := s.served ++ [(j, q')] }]
    | [] => if s.ms.all (fun m => dead m) then [{ s with ctrl := [], p := .returned v w }] else []
  | _ => []

/-- all internal successors of `s` -/
def isuccs (s : State) : List State :=
  parentSuccs cfg s ++ (List.range s.ms.length).flatMap (memberSuccs cfg s)

/-- progress measure: every internal step decreases it (`Proofs/C19.imeasure_decreases`) -/
def mweight : MSt → Nat
  | .solving => 6
  | .putting _ => 3
  | .serving => 1
  | _ => 0

def pweight (n : Nat) : PSt → Nat
  | .waiting => n + 2
  | .killLosers _ _ k => (n - k) + 1
  | .killAll _ k => (n - k) + 1
  | .awaiting _ _ _ => 1
  | _ => 0

def imeasure (s : State) : Nat :=
  (s.ms.map mweight).sum + s.queue.length + s.ctrl.length + pweight s.ms.length s.p

/-- states reachable from the states in the work list by internal steps (depth-first work list; `fuel` bounds the
    number of expansions, `imeasure` bounds the depth, so the generous fuel of the driver is never exhausted for
    ≤ 5 members) -/
def closure : Nat → List State → Std.HashSet State → Std.HashSet State
  | 0, _, seen => seen
  | _ + 1, [], seen => seen
  | fuel + 1, s :: rest, seen =>
    if seen.contains s then closure fuel rest seen
    else closure fuel (isuccs cfg s ++ rest) (seen.insert s)

/-- terminal states of the internal closure: where a call either is over or can never end -/
def terminals (fuel : Nat) (s : State) : List State :=
  (closure cfg fuel [s] {}).toList.filter (fun t => (isuccs cfg t).isEmpty)

inductive Outcome
  | verdict (v : Bool)
  | error (e : Err)
  | blocked
  deriving DecidableEq, Repr, Hashable

def outcomeOf (s : State) : Outcome :=
  match s.p with
  | .returned v _ => .verdict v
  | .raised e => .error e
  | _ => .blocked

/-- outcomes of one `solve()` call from the quiescent state `s`, over all schedules -/
def solveOutcomes (fuel : Nat) (s : State) : List Outcome :=
  ((terminals cfg fuel (fresh cfg s)).map outcomeOf).eraseDups

inductive QOutcome
  | servedBy (j : Nat) (winner : Nat) (q qAnswered : Nat)
  | qblocked
  | qeof                 -- the call ended with EOFError: the winner process had died
  deriving DecidableEq, Repr, Hashable

/-- outcomes of one `get_model/get_value` call issued in any state in which `solve()` has returned (the first query
    of the call: `served` is empty before) -/
def queryOutcomes (fuel : Nat) (s : State) (q : Nat) : List QOutcome :=
  ((closure cfg fuel [fresh cfg s] {}).toList.flatMap fun t =>
    match t.p with
    | .returned v w =>
      (terminals cfg fuel { t with ctrl := t.ctrl ++ [.query q], p := .awaiting v w q }).map fun u =>
        match u.p, u.served.getLast? with
        | .returned _ _, some (j, q') => .servedBy j w q q'
        | .returned _ _, none => .qeof
        | _, _ => .qblocked
    | _ => []).eraseDups

/-! ## Closed form of the outcome set (proved exact in `Proofs/C19Outcome.lean`) -/

def answersIn (c : Nat) : List Bool :=
  (List.range cfg.n).filterMap fun i => match cfg.beh c i with | .answer v => some v | _ => none

def raisesIn (c : Nat) : List (Nat × Exn) :=
  (List.range cfg.n).filterMap fun i => match cfg.beh c i with | .raise e => some (i, e) | _ => none

/-- the outcomes `solve()` number `c` may have -/
def allowed (c : Nat) : List Outcome :=
  let vs := (answersIn cfg c).map Outcome.verdict
  if cfg.eoe then
    let es := (raisesIn cfg c).map fun ie => Outcome.error (.member ie.1 ie.2)
    if vs.isEmpty && es.isEmpty then [.error .allFailed] else vs ++ es
  else
    if vs.isEmpty then [.error .allFailed] else vs

end PySMT.Portfolio
