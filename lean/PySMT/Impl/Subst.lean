import PySMT.Core.FreeVars
import PySMT.Impl.SubstBuild
/-!
# Substitution (C05): model of `pysmt/substituter.py`

`Substituter` is an `IdentityDagWalker` (memoising post-order DAG walk, one-shot memo, key = the
formula) whose callbacks either return the replacement of a node or rebuild the node from the
results of its children (`Build.rebuild`). Memoisation by formula within one walk is sound because
the keyword arguments (`substitutions`, `interpretations`) are fixed during a walk; the quantifier
body and a function-interpretation body are handled by *fresh* `Substituter` objects, so no memo
is shared between walks with different maps. The model is therefore the recursive function the walk
computes (that a `DagWalker` computes its recursive definition is `PySMT/Proofs/Walker*.lean`).

* `MGSubstituter.walk_identity_or_replace / walk_forall / walk_exists` (`substituter.py:270-299`):
  the children are processed first (post-order), then the **original** node is looked up in the
  map; only when it is not a key the node is rebuilt.
* `MSSubstituter.walk_replace / walk_forall / walk_exists` (`substituter.py:326-343`): the node is
  rebuilt from the processed children, then the **rebuilt** node is looked up.
* `Substituter._push_with_children_to_stack` (`substituter.py:134-173`): at a quantifier the map
  is restricted to the keys none of whose free symbols is bound by the quantifier, the body is
  substituted by a fresh substituter of the same class, and `walk_forall/walk_exists` is applied
  to the result with the *unrestricted* map.
* `Substituter.walk_function` (`substituter.py:251-259`): an application of an interpreted symbol
  is replaced by `FunctionInterpretation.interpret(env, args)` = the body with the formal
  parameters replaced by the (already substituted) actual arguments, computed by a fresh
  substituter of the class of `env.substituter` and no interpretations (`substituter.py:80-91`).
* `Substituter.substitute` (`substituter.py:175-249`): argument validation.
-/
namespace PySMT.Subst
open PySMT.Build

/-- a substitution map: the `dict` from terms to terms, in insertion order (keys are distinct) -/
abbrev TMap := List (Term × Term)

/-- `substitutions.get(t)` -/
def lookup : TMap → Term → Option Term
  | [], _ => none
  | (k, v) :: rest, t => if k = t then some v else lookup rest t

/-- no free symbol of `k` is bound by `vs` (`substituter.py:152-159`) -/
def keyFree (vs : List Sym) (k : Term) : Bool := k.fv.all (fun m => !vs.contains m)

/-- the 'reduced' map used in the body of a quantifier binding `vs` -/
def restrict (σ : TMap) (vs : List Sym) : TMap := σ.filter (fun kv => keyFree vs kv.1)

/-- the map used for the children of a node -/
def bodyMap (σ : TMap) (op : Op) (p : Payload) : TMap :=
  match op.isQuantifier, p with
  | true, .qvars vs => restrict σ vs
  | _, _ => σ

/-- `FunctionInterpretation(formal_params, function_body)` -/
structure FunInterp where
  formals : List Sym
  body    : Term
  deriving Repr

/-- the `interpretations` dict: function symbol ↦ interpretation -/
abbrev IMap := List (Sym × FunInterp)

def IMap.get : IMap → Sym → Option FunInterp
  | [], _ => none
  | (g, fi) :: rest, f => if g = f then some fi else IMap.get rest f

/-- what `Substituter.walk_function` does with an application `f(as)` whose arguments `as` have
been processed: `some r` = the interpretation of `f` applied to `as`, `none` = `f` is not interpreted -/
abbrev FnHandler := Sym → List Term → Option Term

def noInterp : FnHandler := fun _ _ => none

/-- `Substituter.super(self, formula, args)` : `Substituter.walk_function` for applications,
`IdentityDagWalker.walk_<op>` otherwise -/
def build (h : FnHandler) (op : Op) (p : Payload) (as : List Term) : Term :=
  match op, p with
  | .function, .sym f => (match h f as with | some r => r | none => rebuild op p as)
  | _, _ => rebuild op p as

/-- One walk of an `MSSubstituter` (`ms = true`) / `MGSubstituter` (`ms = false`) with
`substitutions = σ`. -/
def substG (ms : Bool) (h : FnHandler) : TMap → Term → Term
  | σ, .node op args p =>
    let as' := args.map (substG ms h (bodyMap σ op p))
    let built := build h op p as'
    if ms then (match lookup σ built with | some v => v | none => built)
    else (match lookup σ (.node op args p) with | some v => v | none => built)

/-- `FunctionInterpretation.interpret(env, actual_params)`; `envMs` = `env.substituter` is an
`MSSubstituter`. `dict(zip(formal_params, actual_params))`. -/
def interpret (envMs : Bool) (fi : FunInterp) (actuals : List Term) : Term :=
  substG envMs noInterp (pyDict ((fi.formals.map Term.sym).zip actuals)) fi.body

def handlerOf (envMs : Bool) (ι : IMap) : FnHandler :=
  fun f as => (ι.get f).map (fun fi => interpret envMs fi as)

/-- `MGSubstituter(env).walk(t, substitutions=σ, interpretations=ι)` -/
def substMG (envMs : Bool) (ι : IMap) (σ : TMap) (t : Term) : Term := substG false (handlerOf envMs ι) σ t
/-- `MSSubstituter(env).walk(t, substitutions=σ, interpretations=ι)` -/
def substMS (envMs : Bool) (ι : IMap) (σ : TMap) (t : Term) : Term := substG true (handlerOf envMs ι) σ t

/-! ## which walks raise -/

/-- does the callback of the node return (given that the children did)? `hOk f as` = the
interpretation of `f` on `as` returns. -/
def buildOk (h : FnHandler) (hOk : Sym → List Term → Bool) (op : Op) (p : Payload) (as : List Term) : Bool :=
  match op, p with
  | .function, .sym f => (match h f as with | some _ => hOk f as | none => rebuildOk op p as)
  | _, _ => rebuildOk op p as

/-- no callback of the walk raises. (An `MGSubstituter` does not rebuild a node that is a key, but
it has processed its children before.) -/
def substOkG (ms : Bool) (h : FnHandler) (hOk : Sym → List Term → Bool) : TMap → Term → Bool
  | σ, .node op args p =>
    (args.map (substOkG ms h hOk (bodyMap σ op p))).all id &&
    ((!ms && (lookup σ (.node op args p)).isSome) ||
      buildOk h hOk op p (args.map (substG ms h (bodyMap σ op p))))

/-- `Term.is_term()` : everything but a symbol of function type -/
def isTerm : Term → Bool
  | .node .symbol _ (.sym s) => s.params.isEmpty
  | _ => true

def interpretOk (envMs : Bool) (fi : FunInterp) (actuals : List Term) : Bool :=
  decide (actuals.length = fi.formals.length) && isTerm fi.body
    && fi.formals.all (fun s => s.params.isEmpty) && actuals.all isTerm
    && substOkG envMs noInterp (fun _ _ => true) (pyDict ((fi.formals.map Term.sym).zip actuals)) fi.body

def handlerOkOf (envMs : Bool) (ι : IMap) : Sym → List Term → Bool :=
  fun f as => match ι.get f with | some fi => interpretOk envMs fi as | none => true

/-! ## `Substituter.substitute` -/

inductive Err
  | formulaNotTerm
  | keyNotTerm (i : Nat) | valueNotTerm (i : Nat)
  | keyForeign (i : Nat) | valueForeign (i : Nat)
  | ikeyNotFunction (i : Nat) | ikeyForeign (i : Nat)
  | raised                       -- an exception escaped from the walk
  deriving DecidableEq, Repr

/-- one item of `subs`: key, value and whether each belongs to the formula manager -/
structure Entry where
  key   : Term
  keyIn : Bool
  val   : Term
  valIn : Bool

/-- one item of `interpretations` -/
structure IEntry where
  key   : Term
  keyIn : Bool
  fi    : FunInterp

def checkEntries : Nat → List Entry → Option Err
  | _, [] => none
  | i, e :: rest =>
    if !isTerm e.key then some (.keyNotTerm i)
    else if !isTerm e.val then some (.valueNotTerm i)
    else if !e.keyIn then some (.keyForeign i)
    else if !e.valIn then some (.valueForeign i)
    else checkEntries (i + 1) rest

def isFunSym : Term → Bool
  | .node .symbol _ (.sym s) => !s.params.isEmpty
  | _ => false

def checkIEntries : Nat → List IEntry → Option Err
  | _, [] => none
  | i, e :: rest =>
    if !isFunSym e.key then some (.ikeyNotFunction i)
    else if !e.keyIn then some (.ikeyForeign i)
    else checkIEntries (i + 1) rest

def validate (f : Term) (es : List Entry) (is : List IEntry) : Option Err :=
  if !isTerm f then some .formulaNotTerm
  else match checkEntries 0 es with
    | some e => some e
    | none => checkIEntries 0 is

def imapOf (is : List IEntry) : IMap :=
  is.filterMap (fun e => match e.key with | .node .symbol _ (.sym s) => some (s, e.fi) | _ => none)

/-- `MGSubstituter/MSSubstituter(env).substitute(f, subs, interpretations)` -/
def substitute (ms envMs : Bool) (es : List Entry) (is : List IEntry) (f : Term) : Except Err Term :=
  match validate f es is with
  | some e => .error e
  | none =>
    let σ : TMap := es.map (fun e => (e.key, e.val))
    let ι := imapOf is
    if substOkG ms (handlerOf envMs ι) (handlerOkOf envMs ι) σ f
    then .ok (substG ms (handlerOf envMs ι) σ f)
    else .error .raised

end PySMT.Subst
