import PySMT.Core.TypeOf
/-!
# C03 — model of `FormulaManager.create_node` (`pysmt/formula.py:95-106`) and the list of
holes of `SimpleTypeChecker` (finding F06)

```python
def create_node(self, node_type, args, payload=None):
    content = FNodeContent(node_type, args, payload)
    if content in self.formulae:
        n = self.formulae[content]
        self._do_type_check(n)
        return n
    else:
        n = FNode(content, self._next_free_id)
        self._next_free_id += 1
        self.formulae[content] = n          # inserted BEFORE the check
        self._do_type_check(n)              # raises => nothing is returned
        return n
```

Object identity is structural equality on `Term` (that is C04). The table therefore is a
list of terms; an ill-typed node *stays in the table* after the failed check, but no
reference to it is ever returned: a later call with the same content finds it, checks it
again and raises again.
-/
namespace PySMT
namespace CreateNode

/-- `self.formulae` (keys only). A fresh manager holds `TRUE` and `FALSE`. -/
structure Mgr where
  formulae : List Term
  deriving Repr

def Mgr.init : Mgr := ⟨[Term.ff, Term.tt]⟩

/-- `create_node`: hash-cons, then type-check; `none` = an exception, no formula returned -/
def createNode (s : Mgr) (op : Op) (args : List Term) (p : Payload) : Mgr × Option Term :=
  let t := Term.node op args p
  let s' : Mgr := if s.formulae.contains t then s else ⟨t :: s.formulae⟩
  (s', if t.typeOf.isSome then some t else none)

/-- One constructor call of a history: the arguments are results of *earlier* calls
(by position in the list of calls), which is the only way client code can obtain a node. -/
structure Call where
  op : Op
  argIdx : List Nat
  payload : Payload
  deriving Repr

/-- state of a history: the manager and the result of every call so far (`none`: it raised,
or it referred to a call that returned nothing and so could not be made at all) -/
structure Hist where
  mgr : Mgr
  results : List (Option Term)      -- in call order
  deriving Repr

def Hist.init : Hist := ⟨Mgr.init, []⟩

/-- the arguments of a call, if every referenced earlier call returned a formula -/
def lookupArgs (results : List (Option Term)) : List Nat → Option (List Term)
  | [] => some []
  | i :: is =>
    match results[i]?, lookupArgs results is with
    | some (some t), some ts => some (t :: ts)
    | _, _ => none

def step (h : Hist) (c : Call) : Hist :=
  match lookupArgs h.results c.argIdx with
  | none => ⟨h.mgr, h.results ++ [none]⟩
  | some args =>
    let (m, r) := createNode h.mgr c.op args c.payload
    ⟨m, h.results ++ [r]⟩

def run (calls : List Call) : Hist := calls.foldl step Hist.init

/-- every formula the history handed out -/
def Hist.returned (h : Hist) : List Term := h.results.filterMap id

/-! ## Where the checker is more permissive than the sorting discipline (F06)

`SimpleTypeChecker` checks *sorts*; it trusts its caller (`FormulaManager`'s constructors)
for the arity of the operator and the shape of the payload, and two of its rules have
holes. `nodeOk op p σs` (σs = sorts of the arguments) excludes exactly these nodes;
`Term.noF06` asks it of every node. `Props/C03.lean` has one witness per component showing
that the unrestricted soundness statement is false. -/

/-- the number of arguments the operator takes -/
def arityOk (op : Op) (n : Nat) : Bool :=
  match op with
  | .and | .or | .plus | .times | .strConcat => decide (2 ≤ n)
  | .function => decide (1 ≤ n)
  | .arrayValue => n % 2 == 1
  | .symbol | .realConst | .boolConst | .intConst | .strConst | .bvConst | .algebraicConst => n == 0
  | .not | .toReal | .bvNot | .bvNeg | .bvExtract | .bvRol | .bvRor | .bvZext | .bvSext | .forall_ | .exists_
  | .strLength | .strToInt | .intToStr | .bvToNatural => n == 1
  | .ite | .strIndexOf | .strReplace | .strSubstr | .arrayStore => n == 3
  | _ => n == 2

def plainVars (vs : List Sym) : Bool := !vs.isEmpty && vs.all (fun v => v.params.isEmpty)

/-- the payload has the shape the constructors give it (`Core/Term.lean`): literal of the
right kind, exactly the cached width, `extract` with `lo ≤ hi`, extension amount consistent
with the cached target width, a non-empty list of plain bound variables -/
def payloadOk (op : Op) (p : Payload) (σs : List Ty) : Bool :=
  match op with
  | .boolConst => (match p with | .b _ => true | _ => false)
  | .intConst => (match p with | .i _ => true | _ => false)
  | .realConst => (match p with | .q _ => true | _ => false)
  | .strConst => (match p with | .s _ => true | _ => false)
  | .forall_ | .exists_ => (match p with | .qvars vs => plainVars vs | _ => false)
  | .bvNot | .bvNeg | .bvAnd | .bvOr | .bvXor | .bvAdd | .bvSub | .bvMul | .bvUdiv | .bvUrem | .bvLshl | .bvLshr
  | .bvSdiv | .bvSrem | .bvAshr | .bvConcat => (match p with | .ints [_] => true | _ => false)
  | .bvComp => (match p with | .ints [w] => w == 1 | _ => false)
  | .bvExtract => (match p with | .ints [_, lo, hi] => decide (lo ≤ hi) | _ => false)
  | .bvZext | .bvSext =>
    (match p, σs with | .ints [w, k], [.bv a] => w == a + k | _, _ => false)
  | _ => true

/-- `Pow` is only typed on numeric arguments (`walk_pow` only compares the two sorts) -/
def sortsOk (op : Op) (σs : List Ty) : Bool :=
  match op with
  | .pow => (match σs with | [.int, _] | [.real, _] => true | _ => false)
  | _ => true

def nodeOk (op : Op) (p : Payload) (σs : List Ty) : Bool :=
  arityOk op σs.length && payloadOk op p σs && sortsOk op σs

/-- pySMT restricts rotations to `step ≤ width` (SMT-LIB allows any numeral): the one place
where the checker is *less* permissive than the sorting discipline -/
def rotNodeOk (op : Op) (p : Payload) : Bool :=
  match op, p with
  | .bvRol, .ints [w, k] | .bvRor, .ints [w, k] => decide (k ≤ w)
  | _, _ => true

/-! ## The checker on *raw* nodes of the wrong arity (`pyNode`)

`typeOfNode` (Core) is exact on every node whose number of arguments is the operator's arity —
all nodes a `FormulaManager` constructor can build. On raw `create_node` calls with another
number of arguments `SimpleTypeChecker` is lenient in ways `typeOfNode` does not follow: rules
that index `args[0]`, `args[1]` ignore further arguments (`walk_bv_concat`, `walk_bv_extract`,
`walk_bv_rotate`, `walk_ite`, `walk_array_select`, `walk_array_store`, `walk_pow`), raise on an
empty argument tuple (`walk_math_relation`: `args[0]`), accept an array value whose last key has
no value (`walk_array_value` checks positions by parity), assert that the name of an
application is a function symbol, and (since /repo f0cd2ee) look at the binder list.
`pyNode` transcribes these rules; `Proofs/C03Raw.lean` proves
`arityOk op ts.length → rawPayloadOk op p → pyNode op p ts = typeOfNode op p ts`,
and the driver's `chk` answers with `pyNode`-based `typeOfRaw`/`wtRaw`, so that grid A compares
every raw call exactly (no counted exceptions). Not expressible: a `symbol` node of function
type (Python types it with the function type; `Ty` has no such sort). -/

/-- `walk_array_value` (type_checker.py:334-345): positions checked by parity, no pairing -/
def chkPy (idx d : Ty) : List (Option Ty) → Bool
  | k :: v :: more => k == some idx && v == some d && chkPy idx d more
  | [k] => k == some idx
  | [] => true

/-- the rule `SimpleTypeChecker` applies to a raw node, for any number of arguments -/
def pyNode (op : Op) (p : Payload) (ts : List (Option Ty)) : Option Ty :=
  match op with
  | .bvConcat =>
    (match p, ts with
      | .ints (w :: _), some (.bv l) :: some (.bv r) :: _ => if l + r = w then some (.bv w) else none
      | _, _ => none)
  | .bvExtract =>
    (match p, ts with
      | .ints (w :: lo :: hi :: _), some (.bv base) :: _ =>
        if lo ≥ base ∨ hi ≥ base then none else if base < w then none
        else if w + lo ≠ hi + 1 then none else some (.bv w)
      | _, _ => none)
  | .bvRol | .bvRor =>
    (match p, ts with
      | .ints (w :: k :: _), some (.bv a) :: _ => if w < k then none else if w ≠ a then none else some (.bv w)
      | _, _ => none)
  | .ite =>
    (match ts with
      | some .bool :: some a :: some b :: rest => if rest.all Option.isSome ∧ a = b then some a else none
      | _ => none)
  | .arraySelect =>
    (match ts with
      | some (.array i e) :: some j :: rest => if rest.all Option.isSome ∧ i = j then some e else none
      | _ => none)
  | .arrayStore =>
    (match ts with
      | some (.array i e) :: some j :: some v :: rest =>
        if rest.all Option.isSome ∧ i = j ∧ e = v then some (.array i e) else none
      | _ => none)
  | .pow => (match ts with | a :: b :: _ => if a = b then some .real else none | _ => none)
  | .arrayValue =>
    (match p, ts with
      | .ty idx, some d :: rest => if chkPy idx d rest then some (.array idx d) else none
      | _, _ => none)
  | .le | .lt => (match ts with | [] => none | _ => typeOfNode op p ts)
  | .function =>
    (match p with
      | .sym f => if f.params.isEmpty then none else typeOfNode op p ts
      | _ => none)
  | .forall_ | .exists_ =>
    (match p, ts with
      | .qvars vs, [some .bool] => if vs.all (fun v => v.params.isEmpty) then some .bool else none
      | _, _ => none)
  | _ => typeOfNode op p ts

/-- payload side conditions of the boundary theorem: a binder list the repaired
`walk_quantifier` accepts; no payload elements beyond the ones the rule reads
(`payload[0..2]` for extract, `payload[0..1]` for rotations — Python ignores further ones) -/
def rawPayloadOk (op : Op) (p : Payload) : Bool :=
  match op with
  | .forall_ | .exists_ => (match p with | .qvars vs => vs.all (fun v => v.params.isEmpty) | _ => false)
  | .bvExtract => (match p with | .ints l => decide (l.length ≤ 3) | _ => true)
  | .bvRol | .bvRor => (match p with | .ints l => decide (l.length ≤ 2) | _ => true)
  | _ => true

end CreateNode

/-- the type the real checker computes for a raw tree (`pyNode` at every node) -/
def Term.typeOfRaw : Term → Option Ty
  | .node op args p => CreateNode.pyNode op p (args.map Term.typeOfRaw)

/-- every sub-term is accepted by the real checker -/
def Term.wtRaw : Term → Bool
  | .node op args p =>
    (args.map Term.wtRaw).all id && (CreateNode.pyNode op p (args.map Term.typeOfRaw)).isSome

/-- every node of `t` has the arity of its operator (and a payload the boundary theorem covers):
true of every term a `FormulaManager` constructor builds -/
def Term.arityOkAll : Term → Bool
  | .node op args p =>
    (args.map Term.arityOkAll).all id && CreateNode.arityOk op args.length && CreateNode.rawPayloadOk op p

/-- no node of `t` falls into a hole of the checker (F06) -/
def Term.noF06 : Term → Bool
  | .node op args p =>
    (args.map Term.noF06).all id && CreateNode.nodeOk op p (args.filterMap Term.typeOf)

/-- every rotation in `t` is by at most the width (`CreateNode.rotNodeOk`) -/
def Term.rotInRange : Term → Bool
  | .node op args p => (args.map Term.rotInRange).all id && CreateNode.rotNodeOk op p

end PySMT
