import PySMT.Core.Wire
import PySMT.Impl.TheoryHeap
/-!
Request of the heap model of `TheoryOracle` (driver C14):

    theoryheap <k> <root>*k T <n> (<op> <payload> <k> <childidx>*k)*n

one DAG (wire format of `Core/Wire.lean`, every node numbered) and a history of `get_theory` calls given by node
numbers.  Answer: `ok` followed by one field per node: `-` (not memoised after the history) or
`<address>:<the 12 flags of the stored Theory, in the order of Theory.fieldNames>`.
-/
namespace PySMT.TheoryHeapDriver
open PySMT PySMT.Wire PySMT.Logics PySMT.TheoryHeap

def table : P (Array Term) := do
  let t ← next
  if t != "T" then throw s!"T expected: {t}"
  let n ← nat
  let mut tab : Array Term := #[]
  for _ in [0:n] do
    let opn ← next
    let some op := Op.ofName? opn | throw s!"unknown op {opn}"
    let p ← payload
    let k ← nat
    let idxs ← rep k nat
    let mut args : Array Term := #[]
    for i in idxs do
      if h : i < tab.size then args := args.push tab[i] else throw "forward reference"
    tab := tab.push (.node op args.toList p)
  return tab

def bits (t : Theory) : String := String.join (t.toBits.map (fun b => if b then "1" else "0"))

def handler : P String := do
  let k ← nat
  let roots ← rep k nat
  let tab ← table
  let e ← atEnd
  if !e then throw "trailing tokens"
  let mut hist : List Term := []
  for r in roots do
    if h : r < tab.size then hist := hist ++ [tab[r]] else throw "bad root"
  let s := run hist St.init
  let fields := tab.toList.map (fun t =>
    match s.look t with
    | some a => s!"{a}:{bits (s.heap.cells a)}"
    | none => "-")
  return "ok " ++ " ".intercalate fields

def answer (line : String) : String :=
  let toks := tokens line
  match Wire.run handler toks 1 with
  | .ok (s, _) => s
  | .error e => s!"bad-op {e}"

end PySMT.TheoryHeapDriver
