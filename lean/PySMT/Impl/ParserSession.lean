import PySMT.Impl.Parser
/-!
# `Impl.ParserSession` — the life cycle of one `SmtLibParser` OBJECT (model of the *mutable* side of `parser.py`)

`Impl/Parser.lean` is a *functional* model: the environment of a sub-expression is passed down, nothing is ever undone,
and a failure is a bare `.error e` (the state at the moment of the exception is lost). That is the right model for
"what does the text mean" (C08). For C15 ("a failing call leaves no trace") the question is the opposite one: *what does
the parser object look like after the exception*. This file models exactly that, on top of the definitions of
`Impl/Parser.lean` (all of `atomVal`, `applyFn`, `underscore`, `asForm`, `readTy`, `quantVar`, `mkFresh`, the command
handlers that do not read terms, … are used as they are; only the recursive skeleton that *mutates the cache* is
written again, operationally):

* `St` — the mutable state a parser object and its environment carry:
  `keys` = `SmtLibExecutionCache.keys` (association list used as one stack per name, as in `Impl/Parser.lean`),
  `bound`/`unbound` = the journal `cache._bound` / `cache._unbound` (`parser.py:95-108`, most recent first),
  `annots` = `cache.annotations` (write-only for the parser; `get_script` hands it to the script it returns),
  `intArith` = `self.logic`, `mgr` = the formula manager of the ENVIRONMENT (symbol table, fresh counter, sorts) —
  the only component that is shared by all parser objects of the environment and survives `_reset`.
  `cache.definitions` is written by `define` and never read: not modelled.
  Completeness of `St`: after `__init__` the only attributes of a parser object that are ever assigned are `self.cache`
  and `self.logic` (`parser.py`: `_reset`, `_cmd_set_logic`; the tables `interpreted`/`commands` are filled by the
  constructors only), and the cache's fields are `keys definitions annotations _bound _unbound`; the tokenizer belongs to
  one call. Of the environment the parser reads `formula_manager.symbols`, `_fresh_guess` (through `FreshSymbol`) and the
  type manager's declared sorts; the manager's node table is invisible up to structural identity (C04, and the walker
  part of C15).
* `St.bind` / `St.unbind` / `St.checkpoint` / `St.rollback` — `parser.py:99-124` literally: `rollback` pops, for every
  name, (number of `bind`s − number of `unbind`s since the checkpoint) entries, computed from the journal only.
* `rdValS … : Sexp → Except Err Val × St` — `get_expression` with the cache *mutated in place*: `_enter_let` binds
  while it reads the binding list and `_exit_let` unbinds afterwards, the same for quantifiers; when an exception
  passes, nothing is unbound (the state is returned as it is at that moment). The flag `lc` switches the literal cache
  of `atom` (`parser.py:731`: a literal is bound to its token the first time it is read) on or off: `lc = true` is the
  code, `lc = false` is what `Impl/Parser.lean` models (its header lists the literal cache as not modelled);
  the theorems of `Proofs/C15Parser*.lean` hold for both, the refinement theorem (`rdValS false` computes `rdVal`)
  for `lc = false`.
* `cmdS` — `get_command` (`parser.py:1246-1266`, after the repairs F42, F42b): `checkpoint`, run the handler,
  `rollback` when it raises. `cmdTermsS` is `parse_expr_list` after F42b (a term that fails fails the command).
* `getCommands` — `get_command_generator`: commands one after the other on the *same* state, stops at the first
  failure. `getScript` — `get_script`: `_reset`, then `getCommands`; `newParser σ` — `SmtLibParser(env)`.

Shortcuts inherited from `Impl/Parser.lean` (results are those of the functional model; the *state* is then not the
one the code leaves, but only with respect to `mgr`/`annots` and the literal cache — the bindings of binders are not
affected): a `let`/quantifier with a wrong number of bodies, a command with a wrong number of arguments, a string literal
in head position are rejected without reading their parts.
-/
namespace PySMT.ParserSession
open PySMT.Parser PySMT.Gen.ParserOps

/-- the mutable state of one parser object (`keys bound unbound annots intArith`) and of its environment (`mgr`) -/
structure St where
  keys     : List (String × Val)
  bound    : List String := []
  unbound  : List String := []
  annots   : List (Term × String × Option Sexp) := []
  intArith : Option Bool := none
  mgr      : MgrSt := {}
  deriving Repr, Inhabited

/-- what the functional model calls the environment -/
def St.env (st : St) : PEnv := ⟨st.keys, st.intArith, st.mgr⟩

/-- `cache.bind` -/
def St.bind (st : St) (n : String) (v : Val) : St :=
  { st with keys := (n, v) :: st.keys, bound := n :: st.bound }

/-- `cache.unbind` -/
def St.unbind (st : St) (n : String) : St :=
  { st with keys := Parser.unbind n st.keys, unbound := n :: st.unbound }

def St.setMgr (st : St) (σ : MgrSt) : St := { st with mgr := σ }

/-- `cache.update` / the loop over `delayed` in `_enter_let` -/
def bindAllS (bs : List (String × Val)) (st : St) : St := bs.foldl (fun s b => s.bind b.1 b.2) st

/-- `cache.unbind_all` / the loops of `_exit_let`, `_exit_quantifier`, `_cmd_define_fun` -/
def unbindAllS (ns : List String) (st : St) : St := ns.foldl (fun s n => s.unbind n) st

/-- `cache.checkpoint` -/
def St.checkpoint (st : St) : St := { st with bound := [], unbound := [] }

/-- `keys[name].pop()`, `k` times -/
def popN (n : String) : Nat → List (String × Val) → List (String × Val)
  | 0, ks => ks
  | k + 1, ks => popN n k (Parser.unbind n ks)

/-- one copy of every name of the list (the last occurrence is kept) -/
def dedupLast : List String → List String
  | [] => []
  | n :: ns => if ns.contains n then dedupLast ns else n :: dedupLast ns

/-- the names of `Counter(self._bound)` in insertion order (`bound` is most recent first) -/
def journalNames (bound : List String) : List String := (dedupLast bound).reverse

/-- `pending[name]` of `rollback`: binds minus unbinds since the checkpoint (a negative count pops nothing) -/
def pendingCount (st : St) (n : String) : Nat := st.bound.count n - st.unbound.count n

/-- `cache.rollback` -/
def St.rollback (st : St) : St :=
  { st with keys := (journalNames st.bound).foldl (fun ks n => popN n (pendingCount st n) ks) st.keys,
            bound := [], unbound := [] }

/-- results always come with the state (also when they are an exception) -/
abbrev Res (α : Type) := Except Err α × St

/-- the token of a string literal (`tokOf`) -/
def strTok (lit : String) : String := "\"" ++ lit ++ "\""

/-- `atom(token)`: the value is the functional model's; with the literal cache a token without a binding is bound -/
def rdAtomS (lc : Bool) (st : St) (lone : Bool) (tok : String) : Res Val :=
  match atomVal st.env lone (.atom tok) with
  | .ok v => (.ok v, if lc && (lookup (pyTok tok) st.keys).isNone then st.bind (pyTok tok) v else st)
  | .error e => (.error e, st)

/-- `keyword = tk[1:]` -/
def kwName (tok : String) : String := ((pyTok tok).drop 1).toString

/-- the `(keyword, value)` pairs `_enter_annotation` stores before it accepts the list or hits a token that is no
keyword (same recursion as `attrsOK`) -/
def attrPairs : List Sexp → List (String × Option Sexp)
  | [] => []
  | [k] => (match k with | .atom t => if isKw k then [(kwName t, none)] else [] | _ => [])
  | k :: x :: rest =>
    (match k with
     | .atom t =>
       if isKw k then (if isKw x then (kwName t, none) :: attrPairs (x :: rest) else (kwName t, some x) :: attrPairs rest)
       else []
     | _ => [])

def St.addAnnots (st : St) (t : Term) (ps : List (String × Option Sexp)) : St :=
  { st with annots := (ps.map (fun p => (t, p.1, p.2))).reverse ++ st.annots }

mutual
/-- `get_expression` on the mutable cache -/
def rdValS (lc : Bool) (st : St) (lone : Bool) : Sexp → Res Val
  | .atom tok => rdAtomS lc st lone tok
  | .str lit =>
    (.ok (.term (Term.str lit)),
     if lc && (lookup (strTok lit) st.keys).isNone then st.bind (strTok lit) (.term (Term.str lit)) else st)
  | .list [] => (.error .syntax, st)
  | .list (.atom hd :: rest) =>
    match tableLookup (pyTok hd) with
    | some (.handler fn) =>
      if fn == "_enter_let" then rdLetFormS lc st rest
      else if fn == "_enter_quantifier" then rdQuantFormS lc st (pyTok hd == "forall") rest
      else if fn == "_enter_annotation" then rdAnnotFormS lc st rest
      else if fn == "_smtlib_underscore" then (underscore rest, st)
      else if fn == "_enter_smtlib_as" then
        (match asForm st.env rest with
         | .ok (v, σ) => (.ok v, st.setMgr σ)
         | .error e => (.error e, st))
      else (.error .unmodelled, st)
    | some e =>
      (match fnOfEntry e with
       | some f =>
         (match rdArgsS lc st rest with
          | (.ok vals, st') => (applyFn f vals, st')
          | (.error e, st') => (.error e, st'))
       | none => (.error .unmodelled, st))
    | none =>
      (match rdAtomS lc st false hd with
       | (.ok (.fn f), st1) =>
         (match rdArgsS lc st1 rest with
          | (.ok vals, st') => (applyFn f vals, st')
          | (.error e, st') => (.error e, st'))
       | (.ok _, st1) =>
         (match rdArgsS lc st1 rest with
          | (.ok _, st') => (.error .other, st')
          | (.error e, st') => (.error e, st'))
       | (.error e, st1) => (.error e, st1))
  | .list (.str _ :: _) => (.error .other, st)
  | .list (h :: rest) =>
    match isToBvS h with
    | some w =>
      (match rest with
       | [n] =>
         (match w with
          | none => (.error .syntax, st)
          | some w' =>
            (match rdValS lc st false n with
             | (.ok (.term (.node .intConst _ (.i v))), st') =>
               if w' < 0 then (.error .unmodelled, st')
               else ((liftMk (if v ≥ 0 then Mk.BV v w'.toNat else Mk.SBV v w'.toNat)).map .term, st')
             | (.ok _, st') => (.error .syntax, st')
             | (.error e, st') => (.error e, st')))
       | _ => (.error .unmodelled, st))
    | none =>
      (match rdValS lc st false h with
       | (.ok (.fn f), st1) =>
         (match rdArgsS lc st1 rest with
          | (.ok vals, st') => (applyFn f vals, st')
          | (.error e, st') => (.error e, st'))
       | (.ok _, st1) => (.error .other, st1)
       | (.error e, st1) => (.error e, st1))

/-- `_enter_let` … `_exit_let` -/
def rdLetFormS (lc : Bool) (st : St) : List Sexp → Res Val
  | [.list (b :: bs), body] =>
    (match rdLetBindsS lc st [] [] (b :: bs) with
     | (.ok names, st1) =>
       (match rdValS lc st1 false body with
        | (.ok v, st2) => (.ok v, unbindAllS names st2)
        | (.error e, st2) => (.error e, st2))
     | (.error e, st1) => (.error e, st1))
  | .list (_ :: _) :: _ => (.error .other, st)
  | _ => (.error .syntax, st)

/-- `_enter_quantifier` … `_exit_quantifier` (which unbinds first and builds the quantifier afterwards) -/
def rdQuantFormS (lc : Bool) (st : St) (isForall : Bool) : List Sexp → Res Val
  | [.list (b :: bs), body] =>
    (match rdQuantBindsS st [] (b :: bs) with
     | (.ok vrs, st1) =>
       (match rdValS lc st1 false body with
        | (.ok (.term t), st2) =>
          ((liftMk ((if isForall then Mk.ForAll else Mk.Exists) (vrs.map (·.2)) t)).map .term,
           unbindAllS (vrs.map (·.1)) st2)
        | (.ok _, st2) => (.error .other, unbindAllS (vrs.map (·.1)) st2)
        | (.error e, st2) => (.error e, st2))
     | (.error e, st1) => (.error e, st1))
  | .list (_ :: _) :: _ => (.error .other, st)
  | _ => (.error .syntax, st)

/-- `_enter_annotation` -/
def rdAnnotFormS (lc : Bool) (st : St) : List Sexp → Res Val
  | t :: attrs =>
    (match rdValS lc st false t with
     | (.ok (.term t'), st1) =>
       (if attrsOK attrs then .ok (.term t') else .error .syntax, st1.addAnnots t' (attrPairs attrs))
     | (.ok _, st1) => (.error .other, st1)
     | (.error e, st1) => (.error e, st1))
  | [] => (.error .syntax, st)

/-- the arguments of an application, left to right -/
def rdArgsS (lc : Bool) (st : St) : List Sexp → Res (List Val)
  | [] => (.ok [], st)
  | s :: rest =>
    match rdValS lc st false s with
    | (.ok v, st1) =>
      (match rdArgsS lc st1 rest with
       | (.ok vs, st2) => (.ok (v :: vs), st2)
       | (.error e, st2) => (.error e, st2))
    | (.error e, st1) => (.error e, st1)

/-- the binding list of `_enter_let`. A name without a meaning is bound as soon as its term is read, the others
(`delayed`, most recent first) after the whole list. Result: the names of `newvals` (in the order of the text). -/
def rdLetBindsS (lc : Bool) (st : St) (seen : List String) (delayed : List (String × Val)) : List Sexp → Res (List String)
  | [] => (.ok seen.reverse, bindAllS delayed.reverse st)
  | .list [.atom x, e] :: bs =>
    if seen.contains (pyTok x) then (.error .syntax, st)
    else
      match rdValS lc st false e with
      | (.ok v, st1) =>
        (match lookup (pyTok x) st1.keys with
         | none => rdLetBindsS lc (st1.bind (pyTok x) v) (pyTok x :: seen) delayed bs
         | some _ => rdLetBindsS lc st1 (pyTok x :: seen) ((pyTok x, v) :: delayed) bs)
      | (.error e, st1) => (.error e, st1)
  | _ :: _ => (.error .syntax, st)

/-- the binder list of `_enter_quantifier`: `vrs` (most recent first), result in the order of the text -/
def rdQuantBindsS (st : St) (vrs : List (String × Sym)) : List Sexp → Res (List (String × Sym))
  | [] => (.ok vrs.reverse, st)
  | .list [.atom x, ty] :: bs =>
    (match readTy st.keys [] ty with
     | .ok t =>
       (match quantVar st.mgr (pyTok x) t with
        | .ok (s, σ) => rdQuantBindsS ((st.setMgr σ).bind (pyTok x) (.term (Term.sym s))) ((pyTok x, s) :: vrs) bs
        | .error e => (.error e, st))
     | .error e => (.error e, st))
  | _ :: _ => (.error .syntax, st)
end

/-- `get_expression(tokens)` for a whole command argument -/
def readTermS (lc : Bool) (st : St) (s : Sexp) : Res Term :=
  match rdValS lc st true s with
  | (.ok (.term t), st') => (.ok t, st')
  | (.ok _, st') => (.error .other, st')
  | (.error e, st') => (.error e, st')

def readTermsS (lc : Bool) (st : St) : List Sexp → Res (List Term)
  | [] => (.ok [], st)
  | s :: rest =>
    match readTermS lc st s with
    | (.ok t, st1) =>
      (match readTermsS lc st1 rest with
       | (.ok ts, st2) => (.ok (t :: ts), st2)
       | (.error e, st2) => (.error e, st2))
    | (.error e, st1) => (.error e, st1)

/-! ## commands -/

/-- the loop of `_cmd_define_fun` that creates and binds the formal parameters -/
def bindFormalsS (st : St) : List (String × Ty) → List Sym → Res (List Sym)
  | [], acc => (.ok acc.reverse, st)
  | (x, t) :: rest, acc =>
    match mkFresh st.mgr ("__" ++ x) [] t with
    | .ok (s, σ) => bindFormalsS ((st.setMgr σ).bind x (.term (Term.sym s))) rest (s :: acc)
    | .error e => (.error e, st)

def cmdDefineFunS (lc : Bool) (st : St) (args : List Sexp) : Res Command :=
  match args with
  | [.atom n, .list ps, r, body] =>
    (match formalTypes st.env ps, readTy st.keys [] r with
     | .ok fts, .ok rt =>
       (match bindFormalsS st fts [] with
        | (.ok formals, st1) =>
          (match readTermS lc st1 body with
           | (.ok b, st2) =>
             (match (if b.typeOf == some .int && rt == .real && b.fv.isEmpty then liftMk (Mk.ToReal b) else .ok b) with
              | .ok b' =>
                if (if b.typeOf == some .int && rt == .real && b.fv.isEmpty then some Ty.real else b.typeOf) ≠ some rt
                then (.error .syntax, st2)
                else
                  (.ok (.defineFun (pyTok n) formals rt b'),
                   (unbindAllS (fts.map (·.1)) st2).bind (pyTok n)
                     (if formals.isEmpty then .term b' else .fn (.defn formals b')))
              | .error e => (.error e, st2))
           | (.error e, st2) => (.error e, st2))
        | (.error e, st1) => (.error e, st1))
     | .error e, _ => (.error e, st)
     | _, .error e => (.error e, st))
  | _ => (.error .syntax, st)

def cmdAssertS (lc : Bool) (st : St) (args : List Sexp) : Res Command :=
  match args with
  | [t] =>
    (match readTermS lc st t with
     | (.ok t', st1) => (if t'.typeOf == some .bool then .ok (.assert t') else .error .syntax, st1)
     | (.error e, st1) => (.error e, st1))
  | _ => (.error .syntax, st)

def cmdTermsS (lc : Bool) (st : St) (nm : String) (args : List Sexp) : Res Command :=
  match args with
  | [.list ts] =>
    (match readTermsS lc st ts with
     | (.ok ts', st1) => (.ok (.terms nm ts'), st1)
     | (.error e, st1) => (.error e, st1))
  | _ => (.error .syntax, st)

def softOptsS (lc : Bool) (st : St) : List Sexp → Option Term → Option String → Res (Option Term × Option String)
  | [], w, i => (.ok (w, i), st)
  | [_], _, _ => (.error .syntax, st)
  | k :: v :: rest, w, i =>
    match k with
    | .atom kt =>
      if pyTok kt == ":weight" && w.isNone then
        (match readTermS lc st v with
         | (.ok t, st1) => softOptsS lc st1 rest (some t) i
         | (.error e, st1) => (.error e, st1))
      else if pyTok kt == ":id" && i.isNone then
        (match tokOf v with
         | some x => softOptsS lc st rest w (some x)
         | none => (.error .syntax, st))
      else (.error .syntax, st)
    | _ => (.error .syntax, st)

def cmdAssertSoftS (lc : Bool) (st : St) (args : List Sexp) : Res Command :=
  match args with
  | e :: opts =>
    (match readTermS lc st e with
     | (.ok t, st1) =>
       (match softOptsS lc st1 opts none none with
        | (.ok (w, i), st2) => (.ok (.assertSoft t (w.getD (Term.int 1)) (i.getD "I")), st2)
        | (.error e, st2) => (.error e, st2))
     | (.error e, st1) => (.error e, st1))
  | [] => (.error .syntax, st)

def cmdObjectiveS (lc : Bool) (st : St) (nm : String) (args : List Sexp) : Res Command :=
  match args with
  | e :: opts =>
    (match readTermS lc st e with
     | (.ok t, st1) =>
       (match objOpts opts [] with
        | .ok os => (.ok (.objective nm t (withSigned os)), st1)
        | .error e => (.error e, st1))
     | (.error e, st1) => (.error e, st1))
  | [] => (.error .syntax, st)

def cmdMinmaxS (lc : Bool) (st : St) (nm : String) (args : List Sexp) : Res Command :=
  match readTermsS lc st (args.takeWhile (fun x => !isOptTok x)) with
  | (.ok ts', st1) =>
    (match objOpts (args.dropWhile (fun x => !isOptTok x)) [] with
     | .ok os => (.ok (.minmax nm ts' (withSigned os)), st1)
     | .error e => (.error e, st1))
  | (.error e, st1) => (.error e, st1)

/-- the name a successfully read command binds with `cache.bind` at its end -/
def boundBy : Command → List String
  | .declareSort n _ => [n]
  | .defineSort n _ => [n]
  | .declare _ s => [s.name]
  | .defineFun n _ _ _ => [n]
  | _ => []

/-- a handler that reads no term: the functional model's (it raises before it changes anything) -/
def liftPure (st : St) (r : Except Err (PEnv × Command)) : Res Command :=
  match r with
  | .ok (Γ', k) =>
    (.ok k, { st with keys := Γ'.binds, bound := boundBy k ++ st.bound, intArith := Γ'.intArith, mgr := Γ'.mgr })
  | .error e => (.error e, st)

/-- `self.commands[current](current, tokens)` -/
def cmdNamedS (lc : Bool) (st : St) (nm : String) (args : List Sexp) : Res Command :=
  if nm == "assert" then cmdAssertS lc st args
  else if nm == "define-fun" then cmdDefineFunS lc st args
  else if nm == "get-value" || nm == "check-sat-assuming" || nm == "check-allsat" then cmdTermsS lc st nm args
  else if nm == "assert-soft" then cmdAssertSoftS lc st args
  else if nm == "maximize" || nm == "minimize" then cmdObjectiveS lc st nm args
  else if nm == "minmax" || nm == "maxmin" then cmdMinmaxS lc st nm args
  else liftPure st (cmdNamed st.env nm args)

/-- is the S-expression a command the parser dispatches on (`current in self.commands`) -/
def isCommand : Sexp → Bool
  | .list (.atom name :: _) => commands.any (fun e => e.1 == pyTok name)
  | _ => false

/-- one turn of the loop of `get_command`: `checkpoint`, the handler, `rollback` when it raises -/
def cmdS (lc : Bool) (st : St) (c : Sexp) : Res Command :=
  match c with
  | .list (.atom name :: args) =>
    if commands.any (fun e => e.1 == pyTok name) then
      (match cmdNamedS lc st.checkpoint (pyTok name) args with
       | (.ok k, st1) => (.ok k, st1)
       | (.error e, st1) => (.error e, st1.rollback))
    else (.error .unknownCommand, st)
  | _ => (.error .syntax, st)

/-- the same turn without the `except: rollback` (the code before commit 30febd7): what the exception leaves behind -/
def cmdNoRollbackS (lc : Bool) (st : St) (c : Sexp) : Res Command :=
  match c with
  | .list (.atom name :: args) =>
    if commands.any (fun e => e.1 == pyTok name) then cmdNamedS lc st.checkpoint (pyTok name) args
    else (.error .unknownCommand, st)
  | _ => (.error .syntax, st)

/-- outcome of reading a sequence of commands: those read before the first failure, the failure if any -/
structure Outcome where
  cmds : List Command
  err  : Option Err
  deriving Repr, Inhabited

/-- `get_command_generator(script)` consumed to its end: the commands are read one after the other on the same
parser object (no `_reset`), the first exception ends the generator -/
def getCommands (lc : Bool) : St → List Sexp → Outcome × St
  | st, [] => (⟨[], none⟩, st)
  | st, c :: rest =>
    match cmdS lc st c with
    | (.ok k, st1) => let r := getCommands lc st1 rest; (⟨k :: r.1.cmds, r.1.err⟩, r.2)
    | (.error e, st1) => (⟨[], some e⟩, st1)

/-- `SmtLibParser._reset`: a new cache (with `true`/`false`), no logic; the environment is not touched -/
def St.reset (st : St) : St :=
  { keys := PEnv.init.binds, bound := ["true", "false"], unbound := [], annots := [], intArith := none, mgr := st.mgr }

/-- `SmtLibParser(env)` on an environment whose formula manager is in state `σ` -/
def newParser (σ : MgrSt) : St :=
  { keys := PEnv.init.binds, bound := ["true", "false"], unbound := [], annots := [], intArith := none, mgr := σ }

/-- what `get_script` returns or raises: the commands and the annotations, or the exception -/
def scriptResult (r : Outcome × St) : Except Err (List Command × List (Term × String × Option Sexp)) :=
  match r.1.err with
  | none => .ok (r.1.cmds, r.2.annots)
  | some e => .error e

/-- `get_script`: `_reset` first, then all commands; the state is left as the last command (or the exception) left it -/
def getScript (lc : Bool) (st : St) (cs : List Sexp) : Except Err (List Command × List (Term × String × Option Sexp)) × St :=
  let r := getCommands lc st.reset cs
  (scriptResult r, r.2)

end PySMT.ParserSession
