/-!
# The tables of `FormulaManager` through which one call can influence a later one (C14)

* the constant caches `int_constants`, `real_constants`, `string_constants` (formula.py: `Int`, `Real`, `String`):
  after the F07 repair the argument is validated first and the cache is keyed on the validated value;
* the symbol table `symbols` (`get_or_create_symbol`, formula.py:139-147): a name has ONE type per manager; asking
  for the same name with another type raises `PysmtTypeError`.  This is where C14 is false by design: the outcome
  of `Symbol(n, τ)` depends on whether an earlier call bound `n` to another type.
-/
namespace PySMT.ManagerTables

/-! ### value-keyed constant caches, generically -/

section
variable {A K : Type} [DecidableEq K]

/-- `validate`: the normalised value of a legal argument, `none` for an argument that raises `PysmtTypeError`;
    the result is the payload of the returned node (hash consing: the payload determines the node) -/
def mkConst (validate : A → Option K) (v : A) (c : List (K × K)) : Except Unit K × List (K × K) :=
  match validate v with
  | none => (.error (), c)
  | some k =>
    match c.lookup k with
    | some n => (.ok n, c)
    | none => (.ok k, (k, k) :: c)

end

/-- arguments of `Real()`: an `int`, a `Fraction`/`float` (its exact value), a tuple `(n, d)`, a `bool`, another object -/
inductive PyRealArg where
  | int (i : Int)
  | frac (q : Rat)
  | pair (n d : Int)
  | bool (b : Bool)
  | other
  deriving DecidableEq

/-- `is_pysmt_fraction` / tuple / `is_python_rational` (`type(v) == int | float | Fraction`); `(n, 0)` raises
    ZeroDivisionError, which is an error as well -/
def validateReal : PyRealArg → Option Rat
  | .int i => some (i : Rat)
  | .frac q => some q
  | .pair n d => if d = 0 then none else some (mkRat n d.natAbs * (if d < 0 then -1 else 1))
  | .bool _ => none
  | .other => none

/-- arguments of `String()` -/
inductive PyStrArg where
  | str (s : String)
  | other
  deriving DecidableEq

def validateStr : PyStrArg → Option String
  | .str s => some s
  | .other => none

def mkReal := mkConst validateReal
def mkString := mkConst validateStr

/-! ### the symbol table -/

section
variable {T : Type} [DecidableEq T]

abbrev SymTab (T : Type) := List (String × T)

/-- `get_or_create_symbol(name, typename)`: the symbol, or `PysmtTypeError` when the name has another type -/
def getOrCreate (n : String) (τ : T) (s : SymTab T) : Except Unit (String × T) × SymTab T :=
  match s.lookup n with
  | some τ' => if τ' = τ then (.ok (n, τ), s) else (.error (), s)
  | none => (.ok (n, τ), (n, τ) :: s)

/-- a history of symbol requests (failing ones leave the table as it is) -/
def runSyms : List (String × T) → SymTab T → SymTab T
  | [], s => s
  | (n, τ) :: h, s => runSyms h (getOrCreate n τ s).2

/-- the type of the first request for `n` in the history -/
def firstType (h : List (String × T)) (n : String) : Option T := h.lookup n

end

end PySMT.ManagerTables
