import PySMT.Spec.StrictSolver
/-!
# Model of `pysmt/smtlib/solver.py: SmtLibSolver` (the repaired wrapper, F23/F34/F35/F38) and of the
  base-class shortcuts `pysmt/solvers/solver.py: Solver.is_sat / is_valid / is_unsat` with
  `pysmt/decorators.py: clear_pending_pop`.

The wrapper talks to an arbitrary reactive solver (`Solver`: a state and a function answering each command
with exactly one reply) through a pipe, modelled as a FIFO of unread replies (`Chan.queue`).  The two
primitive actions are `send` (write a command; the solver's reply is appended to the queue) and `recv`
(take the oldest unread reply; on an empty queue the real process would block for ever: `Err.hang`).
Every method of the Python class is transcribed on top of these two primitives, so that "the reply read is
the reply to the command just sent" is a *theorem* (`replies_in_sync`) and not part of the definitions.

Formulas are abstract (`StrictSolver.Expr`): the harness passes, for every API call, the abstraction of the
formula that is finally sent, i.e. of `formula.simplify()` (for `is_valid f`: of `Not(f).simplify()`),
with `syms` = `get_free_variables()` and `sorts` = declarations of `get_types(custom_only=True)`, both in
Python's iteration order.  A declaration set (`set()` in Python) is a list, newest first.

Not modelled: `named` assertions, `solve(assumptions)`, non-incremental mode, `print_model`,
function-typed symbols (`is_term()` filter of `get_model`), options other than the defaults.
-/
namespace PySMT.SmtSolver
open PySMT.StrictSolver

/-- any solver process: answers every command with exactly one reply -/
structure Solver where
  σ : Type
  init : σ
  respond : σ → Cmd → σ × Reply

/-- the strict reference front end (with some decision oracle) as a solver process -/
@[reducible] def Solver.strict (O : Oracle) : Solver := ⟨State × O.ω, (State.init, O.init), StrictSolver.respond O⟩

inductive Event
  | send (c : Cmd)
  | recv (r : Reply)
  deriving DecidableEq, Repr

/-- the pipe pair: solver state, replies produced but not yet read, and the history of what the wrapper did -/
structure Chan (σ : Type) where
  solver : σ
  queue : List Reply
  trace : List Event

inductive Err
  | solverError     -- UnknownSolverAnswerError (`_check_success`, `solve`)
  | unknownResult   -- SolverReturnedUnknownResultError
  | badValue        -- the reply to get-value is not an assignment list
  | hang            -- readline on a pipe on which nothing will ever arrive
  | closed          -- the solver was exited (I/O on closed file)
  | indexError      -- `declared_vars.pop()` / `declared_vars[-1]` on an empty stack (only a solver that accepts a pop
                    -- beyond its stack can get the wrapper there)
  deriving DecidableEq, Repr

structure WState (S : Solver) where
  /-- `declared_vars`, innermost level first (Python: last element) -/
  vars : List (List Sym)
  /-- `declared_sorts` -/
  sorts : List (List SortDecl)
  pendingPop : Bool
  dead : Bool
  chan : Chan S.σ

/-- state + exception monad; the state survives an exception (Python object after a `raise`) -/
def M (S : Solver) (α : Type) := WState S → WState S × Except Err α

namespace M
variable {S : Solver} {α β : Type}
def pure (a : α) : M S α := fun w => (w, .ok a)
def bind (m : M S α) (f : α → M S β) : M S β := fun w =>
  match m w with
  | (w', .ok a) => f a w'
  | (w', .error e) => (w', .error e)
instance : Monad (M S) where
  pure := M.pure
  bind := M.bind
def throw (e : Err) : M S α := fun w => (w, .error e)
def get : M S (WState S) := fun w => (w, .ok w)
def modify (f : WState S → WState S) : M S Unit := fun w => (f w, .ok ())
/-- `try: m finally: fin` for a clean-up that only assigns attributes -/
def tryFinally (m : M S α) (fin : WState S → WState S) : M S α := fun w => ((fin (m w).1), (m w).2)
end M

variable {S : Solver}

/-! ## the pipe -/

/-- `_send_command`: write the command; the solver reacts and its reply waits in the pipe -/
def send (c : Cmd) : M S Unit := M.modify fun w =>
  let r := S.respond w.chan.solver c
  { w with chan := { solver := r.1, queue := w.chan.queue ++ [r.2], trace := w.chan.trace ++ [.send c] } }

/-- `_get_answer` / `_get_value_answer`: read the oldest unread reply -/
def recv : M S Reply := fun w =>
  match w.chan.queue with
  | [] => (w, .error .hang)
  | r :: q => ({ w with chan := { w.chan with queue := q, trace := w.chan.trace ++ [.recv r] } }, .ok r)

/-- `_check_success` -/
def checkSuccess : M S Unit := do
  let r ← recv
  if r = .success then pure () else M.throw .solverError

/-- `_send_silent_command` -/
def sendSilent (c : Cmd) : M S Unit := do
  send c
  checkSuccess

/-! ## bookkeeping helpers -/

def inAny {α : Type} [DecidableEq α] (ls : List (List α)) (x : α) : Bool := ls.any (·.contains x)

/-- `self.declared_xxx[-1].add(x)` -/
def addTop {α : Type} (x : α) : List (List α) → List (List α)
  | [] => []          -- never used on an empty stack: `declareSort` / `declareVar` raise IndexError first
  | l :: r => (x :: l) :: r

/-- `_declare_sort` (F34: declares the sort *declaration*, by name and arity); `self.declared_sorts[-1]` raises
    IndexError on an empty stack -- after the command was sent and acknowledged -/
def declareSort (d : SortDecl) : M S Unit := do
  sendSilent (.declareSort d)
  let w ← M.get
  if w.sorts.isEmpty then M.throw .indexError
  else M.modify fun w => { w with sorts := addTop d w.sorts }

/-- `_declare_variable` -/
def declareVar (s : Sym) : M S Unit := do
  sendSilent (.declareFun s)
  let w ← M.get
  if w.vars.isEmpty then M.throw .indexError
  else M.modify fun w => { w with vars := addTop s w.vars }

/-- `for s in sorts: if all(s not in ds for ds in self.declared_sorts): self._declare_sort(s)` -/
def declareMissingSorts : List SortDecl → M S Unit
  | [] => pure ()
  | d :: ds => do
    let w ← M.get
    if inAny w.sorts d then declareMissingSorts ds
    else do
      declareSort d
      declareMissingSorts ds

/-- `for d in deps: if all(d not in dv for dv in self.declared_vars): self._declare_variable(d)` -/
def declareMissingVars : List Sym → M S Unit
  | [] => pure ()
  | s :: ss => do
    let w ← M.get
    if inAny w.vars s then declareMissingVars ss
    else do
      declareVar s
      declareMissingVars ss

/-! ## the methods (undecorated bodies) -/

/-- body of `push(levels)` (F23: `levels` bookkeeping levels, after the solver acknowledged) -/
def pushBody (n : Nat) : M S Unit := do
  sendSilent (.push n)
  M.modify fun w => { w with vars := List.replicate n [] ++ w.vars, sorts := List.replicate n [] ++ w.sorts }

/-- `for _ in range(levels): self.declared_vars.pop(); self.declared_sorts.pop()`: the stacks after the loop and
    whether it ran to its end (`list.pop()` on an empty list raises IndexError; what was popped stays popped) -/
def popLevels : Nat → List (List Sym) → List (List SortDecl) → (List (List Sym) × List (List SortDecl)) × Bool
  | 0, v, s => ((v, s), true)
  | _ + 1, [], s => (([], s), false)
  | _ + 1, _ :: v, [] => ((v, []), false)
  | n + 1, _ :: v, _ :: s => popLevels n v s

/-- body of `pop(levels)` (F23) -/
def popBody (n : Nat) : M S Unit := do
  sendSilent (.pop n)
  let w ← M.get
  let r := popLevels n w.vars w.sorts
  M.modify fun w => { w with vars := r.1.1, sorts := r.1.2 }
  if r.2 then pure () else M.throw .indexError

/-- `@clear_pending_pop`: `if self.pending_pop: self.pending_pop = False; self.pop()` -/
def clearPendingPop : M S Unit := do
  let w ← M.get
  if w.pendingPop then do
    M.modify fun w => { w with pendingPop := false }
    popBody 1       -- `self.pop()` is itself decorated, but `pending_pop` is already False
  else pure ()

def push (n : Nat) : M S Unit := do clearPendingPop; pushBody n
def pop (n : Nat) : M S Unit := do clearPendingPop; popBody n

/-- `reset_assertions` (F23: the declaration sets are reset as well) -/
def resetAssertions : M S Unit := do
  clearPendingPop
  sendSilent .resetAssertions
  M.modify fun w => { w with vars := [[]], sorts := [[]] }

/-- `add_assertion(formula)`; `e` abstracts `formula.simplify()` -/
def addAssertion (e : Expr) : M S Unit := do
  clearPendingPop
  declareMissingSorts e.sorts
  declareMissingVars e.syms
  sendSilent (.assert e)

/-- `solve()` -/
def solve : M S Bool := do
  clearPendingPop
  send .checkSat
  let ans ← recv
  match ans with
  | .verdict .sat => pure true
  | .verdict .unsat => pure false
  | .verdict .unknown => M.throw .unknownResult
  | _ => M.throw .solverError

/-- `get_value(item)` (not decorated) -/
def getValue (e : Expr) : M S String := do
  send (.getValue e)
  let ans ← recv
  match ans with
  | .value v => pure v
  | _ => M.throw .badValue

def getValues : List Sym → M S (List (Sym × String))
  | [] => pure []
  | s :: ss => do
    let v ← getValue (Expr.ofSym s)
    let rest ← getValues ss
    pure ((s, v) :: rest)

/-- `get_model()` (F23: symbols of every level, outermost level first) -/
def getModel : M S (List (Sym × String)) := do
  let w ← M.get
  getValues (w.vars.reverse.flatMap id)

/-- `Solver.is_sat(formula)` in incremental mode (`pysmt/solvers/solver.py`; F38: `pending_pop` is set in a
    `finally` clause, i.e. also when `add_assertion` or `solve` raise) -/
def isSat (e : Expr) : M S Bool := do
  push 1
  M.tryFinally (do addAssertion e; solve) (fun w => { w with pendingPop := true })

/-- `_exit` -/
def exitBody : M S Unit := do
  send .exit
  M.modify fun w => { w with dead := true }

/-! ## API calls -/

inductive Api
  | addAssertion (e : Expr)
  | push (n : Nat)
  | pop (n : Nat)
  | resetAssertions
  | solve
  | getValue (e : Expr)
  | getModel
  | isSat (e : Expr)
  /-- `is_valid(f)`; `ne` abstracts `Not(f).simplify()` -/
  | isValid (ne : Expr)
  | isUnsat (e : Expr)
  | exit
  deriving DecidableEq, Repr

inductive Out
  | unit
  | bool (b : Bool)
  | value (v : String)
  | model (m : List (Sym × String))
  | error (e : Err)
  deriving DecidableEq, Repr

def outOf {α : Type} (f : α → Out) (r : WState S × Except Err α) : WState S × Out :=
  match r with
  | (w, .ok a) => (w, f a)
  | (w, .error e) => (w, .error e)

/-- one API call on a live object -/
def call : Api → WState S → WState S × Out
  | .addAssertion e, w => outOf (fun _ => .unit) (addAssertion e w)
  | .push n, w => outOf (fun _ => .unit) (push n w)
  | .pop n, w => outOf (fun _ => .unit) (pop n w)
  | .resetAssertions, w => outOf (fun _ => .unit) (resetAssertions w)
  | .solve, w => outOf .bool (solve w)
  | .getValue e, w => outOf .value (getValue e w)
  | .getModel, w => outOf .model (getModel w)
  | .isSat e, w => outOf .bool (isSat e w)
  | .isValid ne, w => outOf (fun b => .bool (!b)) (isSat ne w)
  | .isUnsat e, w => outOf (fun b => .bool (!b)) (isSat e w)
  | .exit, w => outOf (fun _ => .unit) (exitBody w)

/-- one API call: after `exit()` (or a failed constructor) `exit()` does nothing and everything else raises -/
def step (w : WState S) (a : Api) : WState S × Out :=
  if w.dead then (w, if a = .exit then .unit else .error .closed) else call a w

/-- the object before `__init__` talked to the process -/
def blank (S : Solver) : WState S :=
  { vars := [[]], sorts := [[]], pendingPop := false, dead := false, chan := ⟨S.init, [], []⟩ }

/-- `__init__`: `self.options(self)` (print-success, diagnostic channel, produce-models) and `set_logic` -/
def initBody (logic : String) : M S Unit := do
  sendSilent (.setOption ":print-success" "true")
  sendSilent (.setOption ":diagnostic-output-channel" "\"stdout\"")
  sendSilent (.setOption ":produce-models" "true")
  sendSilent (.setLogic logic)

/-- the constructed object; a constructor that raised leaves no usable object -/
def create (S : Solver) (logic : String) : WState S :=
  match initBody logic (blank S) with
  | (w, .ok _) => w
  | (w, .error _) => { w with dead := true }

/-- run a sequence of API calls, collecting the results -/
def runFrom (w : WState S) : List Api → WState S × List Out
  | [] => (w, [])
  | a :: as =>
    let r := step w a
    let rest := runFrom r.1 as
    (rest.1, r.2 :: rest.2)

def run (S : Solver) (logic : String) (ops : List Api) : WState S × List Out := runFrom (create S logic) ops

/-- the command stream written so far -/
def stream (w : WState S) : List Cmd := w.chan.trace.filterMap fun | .send c => some c | .recv _ => none

end PySMT.SmtSolver
