/-
Model of `pysmt.oracles.TheoryOracle` (oracles.py, class TheoryOracle) and of `pysmt.oracles.get_logic`,
as repaired by the F21 commits: one rule per `walk_*` method, applied bottom-up (the DAG walker's
memoisation makes no difference to the result: every rule is a function of the node and of its children's
results, and no rule mutates a child's result -- `walk_combine` copies when there is a single child,
`combine`/`set_*` build new objects).

The record operations (`combine`, `copy`, `set_*`) are the *translated* ones of `Gen/TheoryOrder.lean`.
-/
import PySMT.Core.FreeVars
import PySMT.Gen.Logics
namespace PySMT.TheoryOracle
open PySMT PySMT.Logics

/-- `Theory()` -/
abbrev T0 : Theory := Theory.default

/-- `_theory_from_type` for a first-order sort -/
def theoryFromType : Ty → Theory
  | .real => { T0 with real_arithmetic := true, real_difference := true }
  | .int => { T0 with integer_arithmetic := true, integer_difference := true }
  | .bool => T0
  | .bv _ => { T0 with bit_vectors := true }
  | .array i e => (({ T0 with arrays := true }).combine (theoryFromType i)).combine (theoryFromType e)
  | .str => { T0 with strings := true }
  | .custom _ => { T0 with custom_type := true }

/-- `_theory_from_type(symbol_type)`: the last branch (`else: uninterpreted`) is taken by function types -/
def symTheory (s : Sym) : Theory :=
  if s.isFn then { T0 with uninterpreted := true } else theoryFromType s.ret

/-- `theory_out = args[0]; for t in args[1:]: theory_out = theory_out.combine(t)` -/
def foldCombine : List Theory → Theory
  | [] => T0            -- not reached: the operators using it have at least one argument
  | a :: rest => rest.foldl Theory.combine a

/-- `walk_combine`: a copy for a single argument, the fold otherwise -/
def combineList : List Theory → Theory
  | [a] => a.copy
  | l => foldCombine l

/-- `t.integer_arithmetic = True; t.integer_difference = True` -/
def withInt (t : Theory) : Theory := { t with integer_arithmetic := true, integer_difference := true }
/-- `Theory(integer_arithmetic=True, integer_difference=True)` -/
def intTheory : Theory := { T0 with integer_arithmetic := true, integer_difference := true }
/-- `t.uninterpreted = True` -/
def withUF (t : Theory) : Theory := { t with uninterpreted := true }
/-- `t.arrays = True; t.arrays_const = True` -/
def withConstArrays (t : Theory) : Theory := { t with arrays := true, arrays_const := true }

/-- the first lines of `walk_function`: nothing, a copy, or the fold -/
def funBase : List Theory → Theory
  | [] => T0
  | [a] => a.copy
  | a :: rest => rest.foldl Theory.combine a

/-- `FNode.is_zero` -/
def isZero : Term → Bool
  | .node .intConst _ (.i 0) => true
  | .node .realConst _ (.q q) => q == 0
  | _ => false

def hasFreeVars (t : Term) : Bool := !t.fv.isEmpty

/-- `walk_div` up to its last statement: the divisor alone decides linearity (F21b repair) -/
def divCore (args : List Term) (ths : List Theory) : Theory :=
  let t := foldCombine ths
  match args, ths with
  | [_, d], [_, td] =>
      if hasFreeVars d then t.set_linear false
      else if isZero d then t.set_linear false
      else t.combine td
  | _, _ => t

/-- one `walk_*` rule: the node (operator, payload, argument terms) and its children's theories -/
def rule (op : Op) (p : Payload) (args : List Term) (ths : List Theory) : Theory :=
  match op with
  -- walk_constant
  | .realConst | .algebraicConst => { T0 with real_arithmetic := true, real_difference := true }
  | .intConst => { T0 with integer_arithmetic := true, integer_difference := true }
  | .bvConst => { T0 with bit_vectors := true }
  | .strConst => { T0 with strings := true }
  | .boolConst => T0
  -- walk_symbol
  | .symbol => (match p with | .sym s => symTheory s | _ => T0)
  -- walk_function
  | .function =>
      let base := funBase ths
      let r := match p with
        | .sym s => base.combine (theoryFromType s.ret)
        | _ => base
      withUF r
  -- walk_toreal
  | .toReal => (ths.headD T0).set_lira true
  -- walk_str_int (combines with the Int theory since the F50 repair; used to overwrite the two flags)
  | .strLength | .strIndexOf | .strToInt =>
      (combineList ths).combine intTheory
  -- walk_bv_tonatural
  | .bvToNatural => withInt (ths.headD T0).copy
  -- walk_times
  | .times =>
      let t := foldCombine ths
      let t := if (args.filter hasFreeVars).length > 1 then t.set_linear false else t
      t.set_difference_logic false
  -- walk_pow
  | .pow => ((ths.headD T0).set_linear false).set_difference_logic false
  -- walk_plus
  | .plus => (foldCombine ths).set_difference_logic false
  -- walk_strings (INT_TO_STR since the F21a repair)
  | .intToStr => (ths.headD T0).set_strings true
  -- walk_array_value
  | .arrayValue =>
      let t := combineList ths
      let t := match p with
        | .ty idx => t.combine (theoryFromType idx)
        | _ => t
      withConstArrays t
  -- walk_div; its final `set_difference_logic(False)` used to be dead code after a `return` (repaired)
  | .div => (divCore args ths).set_difference_logic false
  -- walk_quantifier (F21c repair)
  | .forall_ | .exists_ =>
      let t := ths.headD T0
      (match p with
       | .qvars vs => vs.foldl (fun acc v => acc.combine (symTheory v)) t
       | _ => t)
  -- walk_combine: relations, Boolean connectives, bit-vector operators, the other string operators,
  -- ite, select, store, minus
  | _ => combineList ths

/-- `TheoryOracle.get_theory` -/
def theoryOf : Term → Theory
  | .node op args p => rule op p args (args.map theoryOf)

/-- `pysmt.oracles.get_logic`: quantifier-freeness, the theory, then the closest pySMT logic -/
def getLogic (t : Term) : Except PyErr Logic :=
  get_closer_pysmt_logic { name := "Detected Logic", quantifier_free := t.isQF, theory := theoryOf t }

end PySMT.TheoryOracle
