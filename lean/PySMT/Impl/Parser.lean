import PySMT.Spec.Sexp
import PySMT.Impl.Mk
import PySMT.Impl.Subst
import PySMT.Core.FreeVars
import PySMT.Gen.ParserOps
/-!
# `Impl.Parser` — model of `pysmt/smtlib/parser/parser.py` (after the repairs F13, F13b, F14, F15, F15c, F31, P02, P04; ids as in known_findings.d/C08.json, C09.json)

pySMT's reading of SMT-LIB text, as an elaborator over the same `Sexp` the standard reader (`Spec/SmtlibText.lean`)
works on. The tokenizer (`parser.py:146-303`) is *not* modelled character by character: the model starts from the
S-expression the standard lexer produces, and turns an atom back into pySMT's token with `pyTok` (pySMT drops the bars
of every quoted symbol, which is finding F16b: `|12|` is the token `12`).

What is mirrored, with the line ranges of the repaired file:

* `SmtLibExecutionCache` (`:88-149`): one stack of bindings per name; a definition is a binding like any other.
  Model: an association list used as a stack (`bind` = cons, `unbind` = erase the first entry of that name, `get` =
  first entry) — equivalent to one stack per name.
* `get_expression` (`:845-893`): the token after `(` is looked up in `self.interpreted` (regenerated table
  `Gen.ParserOps.table`), otherwise read with `atom`; at `)` the first element of the list is applied to the others.
* `atom` (`:656-707`): cache, `#b/#x`, string literal, `Fraction(token)` typed by the logic (finding F16: every token
  `Fraction` accepts is a number), unknown name ⇒ error (a String constant when the whole expression is one token).
* `_enter_let` (`:725-762`), `_enter_quantifier`/`_exit_quantifier`/`_get_quantified_var` (`:647-653, 716-724, 774-804`),
  `_enter_annotation` (`:806-847`), `_smtlib_underscore` (`:528-623`), `_enter_smtlib_as` (`:511-526`),
  `fix_real` (`:337-352`), `_minus_or_uminus`, `_division`, `_equals_or_iff`.
* `parse_type` (`:1026-1110`), the commands `set-logic set-info set-option declare-sort define-sort declare-fun
  declare-const define-fun assert push pop check-sat exit get-value check-sat-assuming` and the argument-less ones.
* the formula manager's symbol table and fresh-name counter (`formula.py:108-146`): `Symbol` refuses a second sort for a
  name, `FreshSymbol(template)` counts up from `_fresh_guess` until the name is free.

Not modelled (`Err.unmodelled`, the driver answers `out-of-fragment`): `define-sort` with parameters that are used, `(_ to_bv w)` outside the head position, the cache `atom` keeps of the *literals* it has read (`self.cache.bind(token, res)`; the cached value of a literal
token is the value the token would be given again, except when `set-logic` comes after the literal; since repair P14 the
String fallback of an unknown name is no longer cached — before it, `(get-value (foo))` made `foo` a String constant in
every later term), literals the standard lexer cannot produce and Python accepts (F16/F16b class: a token `"abc"` coming
from the quoted symbol `|"abc"|` is the string `abc` for pySMT and an error here; `1_0`, `٣` and other `Fraction`/`int`
spellings with `_`, blanks or non-ASCII digits are numbers for pySMT and unknown names here: `notLiteralStrict` of
`Proofs/C08Model2.lean` excludes them, the weaker `notLiteral` of `Proofs/C08Model.lean` does not), annotations' storage (`cache.annotations`; the returned term is modelled).
-/
namespace PySMT.Parser
open PySMT.Gen.ParserOps

/-- classes of outcomes that are not a result -/
inductive Err
  | syntax        -- PysmtSyntaxError
  | type          -- PysmtTypeError
  | value         -- PysmtValueError
  | unknownCommand
  | notImplemented
  | other         -- any other Python exception (TypeError, AssertionError, IndexError, ValueError, …)
  | unmodelled    -- outside the model
  deriving DecidableEq, Repr, Inhabited

def Err.name : Err → String
  | .syntax => "syntax" | .type => "type" | .value => "value" | .unknownCommand => "unknown-command"
  | .notImplemented => "not-implemented" | .other => "other" | .unmodelled => "unmodelled"

def ofMk : Mk.Err → Err
  | .type => .type | .value => .value | .unmodelled => .unmodelled | _ => .other

def liftMk (r : Mk.R) : Except Err Term :=
  match r with | .ok t => .ok t | .error e => .error (ofMk e)

/-- callable things that can stand first in a list -/
inductive Fn
  | mgr (method : String)
  | fixReal (method : String)
  | special (fn : String)
  | extract (stop start : Int) | zext (k : Int) | sext (k : Int) | rep (k : Int) | rol (k : Int) | ror (k : Int)
  | asConst (idx : Ty)
  | uf (s : Sym)
  | defn (formals : List Sym) (body : Term)
  deriving Repr, Inhabited

/-- what a name can be bound to / what an expression can evaluate to -/
inductive Val
  | term (t : Term)
  | fn (f : Fn)
  | sortDecl (name : String) (arity : Nat)     -- `_TypeDecl` (arity > 0)
  | sortTy (t : Ty)                            -- a `PySMTType` (declared sort of arity 0, defined sort)
  deriving Repr, Inhabited

/-- the formula manager as far as the parser observes it -/
structure MgrSt where
  symbols : List (String × Sym) := []     -- `mgr.symbols`
  fresh   : Nat := 0                        -- `mgr._fresh_guess`
  sorts   : List (String × Nat) := []      -- `type_manager._custom_types_decl`
  deriving Repr, Inhabited

structure PEnv where
  binds    : List (String × Val) := [("true", .term Term.tt), ("false", .term Term.ff)]
  /-- `none`: no (known) logic set; `some b`: `logic.theory.integer_arithmetic = b` -/
  intArith : Option Bool := none
  mgr      : MgrSt := {}
  deriving Repr, Inhabited

/-- `SmtLibParser._reset` -/
def PEnv.init : PEnv := {}

def lookup (n : String) : List (String × Val) → Option Val
  | [] => none
  | (k, v) :: rest => if k == n then some v else lookup n rest

def unbind (n : String) : List (String × Val) → List (String × Val)
  | [] => []
  | (k, v) :: rest => if k == n then rest else (k, v) :: unbind n rest

/-- pySMT's token for an atom of the standard lexer: bars dropped (F16b) -/
def pyTok (tok : String) : String := (Sexp.symName? tok).getD tok

/-! ## Python's `int(token)` and `Fraction(token)` on the characters the lexer lets through -/

def digitsVal (ds : List Char) : Nat := Sexp.natOfDigits ds

def takeDigits : List Char → List Char × List Char
  | [] => ([], [])
  | c :: cs => if Sexp.isDigit c then let (d, r) := takeDigits cs; (c :: d, r) else ([], c :: cs)

/-- `int(s)` for `[+-]?[0-9]+` (what the model covers; other spellings ⇒ `none` = `ValueError`) -/
def pyInt? (s : String) : Option Int :=
  let go (neg : Bool) (cs : List Char) : Option Int :=
    match takeDigits cs with
    | (d, []) => if d.isEmpty then none else some (if neg then -(digitsVal d : Int) else (digitsVal d : Int))
    | _ => none
  match s.toList with
  | '-' :: cs => go true cs
  | '+' :: cs => go false cs
  | cs => go false cs

/-- `Fraction(s)`: `[+-]? ( d+ ('/' d+)? | d* ('.' d*)? ([eE][+-]?d+)? )` with at least one digit before the exponent.
`none` = `ValueError`; a zero denominator (`ZeroDivisionError`) is reported as `some none`. -/
def pyFraction? (s : String) : Option (Option Rat) :=
  let body (neg : Bool) (cs : List Char) : Option (Option Rat) :=
    let sg : Rat → Rat := fun q => if neg then -q else q
    let (d1, r1) := takeDigits cs
    match r1 with
    | [] => if d1.isEmpty then none else some (some (sg (digitsVal d1 : Int)))
    | '/' :: r2 =>
      if d1.isEmpty then none else
      match takeDigits r2 with
      | (d2, []) => if d2.isEmpty then none
                    else if digitsVal d2 = 0 then some none
                    else some (some (sg (mkRat (digitsVal d1) (digitsVal d2))))
      | _ => none
    | _ =>
      -- optional fraction part
      let (d3, r3, hasDot) := match r1 with
        | '.' :: r => let (d, r') := takeDigits r; (d, r', true)
        | r => ([], r, false)
      if d1.isEmpty && d3.isEmpty then none else
      if !hasDot && d1.isEmpty then none else
      let mant : Rat := mkRat (digitsVal (d1 ++ d3)) (10 ^ d3.length)
      match r3 with
      | [] => some (some (sg mant))
      | e :: r4 =>
        if e == 'e' || e == 'E' then
          let (eneg, r5) := match r4 with
            | '-' :: r => (true, r) | '+' :: r => (false, r) | r => (false, r)
          match takeDigits r5 with
          | (d4, []) => if d4.isEmpty then none else
            let k := digitsVal d4
            some (some (sg (if eneg then mant / ((10 : Rat) ^ k) else mant * ((10 : Rat) ^ k))))
          | _ => none
        else none
  match s.toList with
  | '-' :: cs => body true cs
  | '+' :: cs => body false cs
  | cs => body false cs

/-! ## the formula manager's symbol table -/

/-- `mgr.Symbol(name, type)` = `get_or_create_symbol` -/
def mkSymbol (σ : MgrSt) (s : Sym) : Except Err (Sym × MgrSt) :=
  if s.name.isEmpty then .error .value else
  match σ.symbols.find? (fun e => e.1 == s.name) with
  | some (_, s') => if s' = s then .ok (s, σ) else .error .type
  | none => .ok (s, { σ with symbols := (s.name, s) :: σ.symbols })

def natToString (n : Nat) : String := toString n

/-- first `count ≥ start` (searching at most `fuel` candidates) such that `pre ++ count` is not a symbol name -/
def freshFind (σ : MgrSt) (pre : String) : Nat → Nat → Nat
  | 0, count => count
  | fuel + 1, count =>
    if σ.symbols.any (fun e => e.1 == pre ++ natToString count) then freshFind σ pre fuel (count + 1) else count

/-- `mgr.FreshSymbol(type, template = pre + "%d")` -/
def mkFresh (σ : MgrSt) (pre : String) (params : List Ty) (ret : Ty) : Except Err (Sym × MgrSt) :=
  let count := freshFind σ pre (σ.symbols.length + 1) σ.fresh
  let s : Sym := ⟨pre ++ natToString count, params, ret⟩
  mkSymbol { σ with fresh := count + 1 } s

/-! ## sorts (`parse_type`) -/

def tyName : Ty → String
  | .bool => "Bool" | .int => "Int" | .real => "Real" | .str => "String"
  | .bv w => "BV{" ++ toString w ++ "}"
  | .array i e => "Array{" ++ tyName i ++ ", " ++ tyName e ++ "}"
  | .custom n => n

def instName (n : String) (args : List Ty) : String :=
  if args.isEmpty then n else n ++ "{" ++ ", ".intercalate (args.map tyName) ++ "}"

mutual
def readTy (binds : List (String × Val)) (tparams : List String) : Sexp → Except Err Ty
  | .atom tok =>
    let t := pyTok tok
    if tparams.contains t then .error .unmodelled
    else if t == "Bool" then .ok .bool else if t == "Int" then .ok .int else if t == "Real" then .ok .real
    else if t == "String" then .ok .str
    else match lookup t binds with
      | none => .error .syntax
      | some (.sortTy ty) => .ok ty
      | some (.sortDecl _ _) => .error .other       -- get_type_instance(decl) without arguments: assertion in the type
      | some _ => .error .other                     -- assert isinstance(res, (PartialType, PySMTType))
  | .str _ => .error .syntax
  | .list [] => .error .syntax
  | .list (.atom hd :: rest) =>
    let h := pyTok hd
    if h == "Array" then
      match rest with
      | [i, e] => do
        let it ← readTy binds [] i
        let et ← readTy binds [] e
        .ok (.array it et)
      | _ => .error .syntax
    else if h == "_" then
      match rest with
      | [.atom b, .atom n] =>
        if pyTok b == "BitVec" then
          match pyInt? (pyTok n) with
          | some k => if k < 0 then .error .unmodelled else .ok (.bv k.toNat)
          | none => .error .syntax
        else .error .syntax
      | _ => .error .syntax
    else
      match lookup h binds with
      | some (.sortDecl n ar) =>
        if rest.length ≠ ar then .error .syntax
        else do
          let args ← readTyList binds tparams rest
          .ok (.custom (instName n args))
      | _ => .error .syntax
  | .list (_ :: _) => .error .syntax
def readTyList (binds : List (String × Val)) (tparams : List String) : List Sexp → Except Err (List Ty)
  | [] => .ok []
  | s :: rest => do
    let t ← readTy binds tparams s
    let ts ← readTyList binds tparams rest
    .ok (t :: ts)
end

/-! ## literals and names (`atom`) -/

/-- the number a token denotes under the current logic (`parser.py:684-701`) -/
def numeralTerm (intArith : Option Bool) (tok : String) (q : Rat) : Term :=
  if q.den = 1 then
    (if intArith.getD true then
      (if tok.toList.contains '.' then Term.real q else Term.int q.num)
     else Term.real q)
  else Term.real q

/-- `atom(token)` for a token that is not bound -/
def literal (intArith : Option Bool) (unknownAsString : Bool) (tok : String) : Except Err Val :=
  match tok.toList with
  | '#' :: 'b' :: ds =>
    (match Mk.binValue ds 0 with
     | some v => if ds.isEmpty then .error .other else (liftMk (Mk.BV v ds.length)).map .term
     | none => .error .other)
  | '#' :: 'x' :: ds =>
    if ds.isEmpty then .error .other
    else if ds.all Sexp.isHexDigit then
      (liftMk (Mk.BV (ds.foldl (fun acc c => acc * 16 + Sexp.hexDigitVal c) 0 : Nat) (4 * ds.length))).map .term
    else .error .other
  | '#' :: _ :: _ => .error .syntax
  | ['#'] => .error .other
  | _ =>
    match pyFraction? tok with
    | some (some q) => .ok (.term (numeralTerm intArith tok q))
    | some none => .error .other                       -- ZeroDivisionError
    | none => if unknownAsString then .ok (.term (Term.str tok)) else .error .syntax

def atomVal (Γ : PEnv) (unknownAsString : Bool) : Sexp → Except Err Val
  | .atom tok =>
    let t := pyTok tok
    match lookup t Γ.binds with
    | some v => .ok v
    | none => literal Γ.intArith unknownAsString t
  | .str lit => .ok (.term (Term.str lit))
  | .list _ => .error .other

/-! ## applying the first element of a list to the others -/

def termsOf : List Val → Option (List Term)
  | [] => some []
  | .term t :: rest => (termsOf rest).map (t :: ·)
  | _ :: _ => none

/-- number of positional FNode parameters of the manager methods the table uses (`none`: `*args`) -/
def mgrArity (method : String) : Option Nat :=
  if ["Not", "ToReal", "BVNot", "BVNeg", "BVToNatural", "StrLength", "StrToInt", "IntToStr"].contains method then some 1
  else if ["Implies", "Iff", "Minus", "Pow", "Div", "Equals", "GE", "GT", "LE", "LT", "Xor", "BVXor", "BVSub", "BVUDiv",
           "BVURem", "BVSDiv", "BVSRem", "BVULT", "BVUGT", "BVULE", "BVUGE", "BVSLT", "BVSGT", "BVSLE", "BVSGE", "BVLShl",
           "BVLShr", "BVAShr", "BVComp", "BVNand", "BVNor", "BVXnor", "BVSMod", "StrContains", "StrPrefixOf",
           "StrSuffixOf", "StrCharAt", "Select"].contains method then some 2
  else if ["Ite", "StrIndexOf", "StrReplace", "StrSubstr", "Store"].contains method then some 3
  else none

/-- `mgr.<method>(*args)`; a wrong number of arguments is Python's `TypeError` -/
def callMgr (method : String) (args : List Term) : Except Err Term :=
  match mgrArity method with
  | some k => if args.length ≠ k then .error .other else liftMk (Mk.call method (args.map .t))
  | none => liftMk (Mk.call method (args.map .t))

/-- `fix_real(op, *args)` (`parser.py:337-352`) -/
def fixReal (method : String) (args : List Term) : Except Err Term :=
  match callMgr method args with
  | .ok t => .ok t
  | .error .type =>
    let promote (x : Term) : Bool := x.typeOf == some .int && x.fv.isEmpty
    if args.any promote then do
      let args' ← args.mapM (fun x => if promote x then liftMk (Mk.ToReal x) else .ok x)
      callMgr method args'
    else .error .type
  | .error e => .error e

def constNum : Term → Option Rat
  | .node .intConst _ (.i n) => some n
  | .node .realConst _ (.q q) => some q
  | _ => none

def applySpecial (fn : String) (args : List Term) : Except Err Term :=
  if fn == "_minus_or_uminus" then
    match args with
    | [a] =>
      if a.typeOf == some .int then
        (match a with
         | .node .intConst _ (.i n) => .ok (Term.int (-n))
         | _ => liftMk (Mk.Times [Term.int (-1), a]))
      else
        (match a with
         | .node .realConst _ (.q q) => .ok (Term.real (-q))
         | _ => liftMk (Mk.Times [Term.real (-1), a]))
    | [a, b] => fixReal "Minus" [a, b]
    | _ => .error .other
  else if fn == "_division" then
    match args with
    | [a, b] =>
      if Mk.isConstant a && Mk.isConstant b then
        match constNum a, constNum b with
        | some x, some y => if y ≠ 0 then .ok (Term.real (x / y)) else fixReal "Div" [a, b]
        | _, _ => fixReal "Div" [a, b]        -- only numeric constants are folded (repair P15)
      else fixReal "Div" [a, b]
    | _ => .error .other
  else if fn == "_equals_or_iff" then
    match args with
    | [a, b] => if a.typeOf == some .bool then liftMk (Mk.Iff a b) else fixReal "Equals" [a, b]
    | _ => .error .other
  else .error .unmodelled

/-- `self._define_adapter(formals, body)(*actuals)` -/
def applyDefn (formals : List Sym) (body : Term) (actuals : List Term) : Except Err Term :=
  if formals.length ≠ actuals.length then .error .other
  else
    let es : List Subst.Entry := (formals.zip actuals).map (fun p => ⟨Term.sym p.1, true, p.2, true⟩)
    match Subst.substitute false false es [] body with
    | .ok t => .ok t
    | .error _ => .error .other

def applyFn (f : Fn) (vals : List Val) : Except Err Val :=
  match termsOf vals with
  | none => .error .other
  | some args =>
    (match f with
     | .mgr m => callMgr m args
     | .fixReal m => fixReal m args
     | .special s => applySpecial s args
     | .extract stop start =>
       (match args with | [a] => liftMk (Mk.BVExtract a start (some stop)) | _ => .error .other)
     | .zext k => (match args with | [a] => liftMk (Mk.BVZExt a k) | _ => .error .other)
     | .sext k => (match args with | [a] => liftMk (Mk.BVSExt a k) | _ => .error .other)
     | .rep k => (match args with | [a] => liftMk (Mk.BVRepeat a k) | _ => .error .other)
     | .rol k => (match args with | [a] => liftMk (Mk.BVRol a k) | _ => .error .other)
     | .ror k => (match args with | [a] => liftMk (Mk.BVRor a k) | _ => .error .other)
     | .asConst idx => (match args with | [a] => liftMk (Mk.Array idx a []) | _ => .error .other)
     | .uf s => liftMk (Mk.Function s args)
     | .defn formals body => applyDefn formals body args).map .term

/-- the operator a table entry stands for (`none`: a handler that consumes tokens itself) -/
def fnOfEntry : Entry → Option Fn
  | .mgr m => some (.mgr m)
  | .fixReal m => some (.fixReal m)
  | .special s => some (.special s)
  | .handler _ => none

def tableLookup (tok : String) : Option Entry := (table.find? (fun e => e.1 == tok)).map (·.2)

/-! ## annotations: shape of the attribute list (`_enter_annotation`) -/

def isKw : Sexp → Bool
  | .atom tok => (pyTok tok).startsWith ":"
  | _ => false

/-- keyword [value] keyword [value] … -/
def attrsOK : List Sexp → Bool
  | [] => true
  | [k] => isKw k
  | k :: x :: rest => isKw k && (if isKw x then attrsOK (x :: rest) else attrsOK rest)

/-! ## `(_ …)` -/

def underscore (args : List Sexp) : Except Err Val :=
  let int1 (k : Sexp) : Except Err Int :=
    match k with
    | .atom t => (match pyInt? (pyTok t) with | some n => .ok n | none => .error .syntax)
    | _ => .error .syntax
  match args with
  | .atom op :: rest =>
    let o := pyTok op
    if o == "extract" then
      match rest with
      | [e, s] => do
        -- the start is converted first (`int(sstart)`), then the end
        let s' ← int1 s
        let e' ← int1 e
        .ok (.fn (.extract e' s'))
      | _ => .error .other
    else if o == "zero_extend" then
      match rest with | [k] => (int1 k).map (fun n => .fn (.zext n)) | _ => .error .other
    else if o == "sign_extend" then
      match rest with | [k] => (int1 k).map (fun n => .fn (.sext n)) | _ => .error .other
    else if o == "repeat" then
      match rest with | [k] => (int1 k).map (fun n => .fn (.rep n)) | _ => .error .other
    else if o == "rotate_left" then
      match rest with | [k] => (int1 k).map (fun n => .fn (.rol n)) | _ => .error .other
    else if o == "rotate_right" then
      match rest with | [k] => (int1 k).map (fun n => .fn (.ror n)) | _ => .error .other
    else if o.startsWith "bv" then
      match pyInt? (o.drop 2).toString, rest with
      | some v, [w] => do
        let w' ← int1 w
        if w' < 0 then .error .unmodelled else (liftMk (Mk.BV v w'.toNat)).map .term
      | none, _ => .error .syntax
      | some _, _ => .error .other
    else if o == "to_bv" then .error .unmodelled
    else .error .syntax
  | _ => .error .syntax

/-! ## expressions (`get_expression`) -/

/-- `_get_quantified_var` -/
def quantVar (σ : MgrSt) (name : String) (ty : Ty) : Except Err (Sym × MgrSt) :=
  match mkSymbol σ (Sym.var name ty) with
  | .ok r => .ok r
  | .error .type => mkFresh σ name [] ty
  | .error e => .error e

/-- `(_ to_bv w)` : `some (int(w))` -/
def isToBv : List Sexp → Option (Option Int)
  | [.atom u, .atom tb, .atom w] => if pyTok u == "_" && pyTok tb == "to_bv" then some (pyInt? (pyTok w)) else none
  | _ => none

def isToBvS : Sexp → Option (Option Int)
  | .list l => isToBv l
  | _ => none

/-- `(as const (Array σ τ))` / `(as x σ)` after the keyword (`_enter_smtlib_as`) -/
def asForm (Γ : PEnv) : List Sexp → Except Err (Val × MgrSt)
  | [.atom what, ty] =>
    (match readTy Γ.binds [] ty with
     | .ok t =>
       if pyTok what == "const" then
         (match t with
          | .array idx _ => .ok (.fn (.asConst idx), Γ.mgr)
          | _ => .error .other)
       else (mkSymbol Γ.mgr (Sym.var (pyTok what) t)).map (fun r => (.term (Term.sym r.1), r.2))
     | .error e => .error e)
  | _ => .error .syntax

def bindAll (bs : List (String × Val)) (binds : List (String × Val)) : List (String × Val) :=
  bs.foldl (fun acc b => b :: acc) binds

mutual
/-- value of an expression; `lone`: the expression is a whole command argument (an unknown name is then a string) -/
def rdVal (Γ : PEnv) (lone : Bool) : Sexp → Except Err (Val × MgrSt)
  | .atom tok => (atomVal Γ lone (.atom tok)).map (fun v => (v, Γ.mgr))
  | .str lit => .ok (.term (Term.str lit), Γ.mgr)
  | .list [] => .error .syntax
  | .list (.atom hd :: rest) =>
    let h := pyTok hd
    match tableLookup h with
    | some (.handler fn) =>
      if fn == "_enter_let" then rdLetForm Γ rest
      else if fn == "_enter_quantifier" then rdQuantForm Γ (h == "forall") rest
      else if fn == "_enter_annotation" then rdAnnotForm Γ rest
      else if fn == "_smtlib_underscore" then (underscore rest).map (fun v => (v, Γ.mgr))
      else if fn == "_enter_smtlib_as" then asForm Γ rest
      else .error .unmodelled
    | some e =>
      (match fnOfEntry e with
       | some f =>
         (match rdArgs Γ rest with
          | .ok (vals, σ) => (applyFn f vals).map (fun v => (v, σ))
          | .error e => .error e)
       | none => .error .unmodelled)
    | none =>
      (match atomVal Γ false (.atom hd) with
       | .ok (.fn f) =>
         (match rdArgs Γ rest with
          | .ok (vals, σ) => (applyFn f vals).map (fun v => (v, σ))
          | .error e => .error e)
       | .ok _ => (match rdArgs Γ rest with | .ok _ => .error .other | .error e => .error e)
       | .error e => .error e)
  | .list (.str _ :: _) => .error .other
  | .list (h :: rest) =>
    -- ((_ to_bv w) n) is read by `_smtlib_underscore` itself; every other list in head position is evaluated
    match isToBvS h with
    | some w =>
      (match rest with
       | [n] =>
         (match w, rdVal Γ false n with
          | some w', .ok (.term (.node .intConst _ (.i v)), σ) =>
            if w' < 0 then .error .unmodelled
            else (liftMk (if v ≥ 0 then Mk.BV v w'.toNat else Mk.SBV v w'.toNat)).map (fun t => (.term t, σ))
          | none, _ => .error .syntax
          | _, .ok _ => .error .syntax
          | _, .error e => .error e)
       | _ => .error .unmodelled)
    | none =>
      (match rdVal Γ false h with
       | .ok (.fn f, σ) =>
         (match rdArgs { Γ with mgr := σ } rest with
          | .ok (vals, σ') => (applyFn f vals).map (fun v => (v, σ'))
          | .error e => .error e)
       | .ok _ => .error .other
       | .error e => .error e)

/-- `(let (bindings) body)` after the keyword -/
def rdLetForm (Γ : PEnv) : List Sexp → Except Err (Val × MgrSt)
  | [.list (b :: bs), body] =>
    (match rdLetBinds Γ [] [] (b :: bs) with
     | .ok Γ' => rdVal Γ' false body
     | .error e => .error e)
  | .list (_ :: _) :: _ => .error .other        -- `_exit_let(varlist, bdy)` with another number of arguments
  | _ => .error .syntax

/-- `(forall|exists (binders) body)` after the keyword -/
def rdQuantForm (Γ : PEnv) (isForall : Bool) : List Sexp → Except Err (Val × MgrSt)
  | [.list (b :: bs), body] =>
    (match rdQuantBinds Γ [] (b :: bs) with
     | .ok (Γ', vars) =>
       (match rdVal Γ' false body with
        | .ok (.term t, σ) =>
          (liftMk ((if isForall then Mk.ForAll else Mk.Exists) vars t)).map (fun r => (.term r, σ))
        | .ok _ => .error .other
        | .error e => .error e)
     | .error e => .error e)
  | .list (_ :: _) :: _ => .error .other
  | _ => .error .syntax

/-- `(! term attributes…)` after the keyword -/
def rdAnnotForm (Γ : PEnv) : List Sexp → Except Err (Val × MgrSt)
  | t :: attrs =>
    (match rdVal Γ false t with
     | .ok (.term t', σ) => if attrsOK attrs then .ok (.term t', σ) else .error .syntax
     | .ok _ => .error .other
     | .error e => .error e)
  | [] => .error .syntax

/-- the arguments of an application, left to right (the manager's state is threaded) -/
def rdArgs (Γ : PEnv) : List Sexp → Except Err (List Val × MgrSt)
  | [] => .ok ([], Γ.mgr)
  | s :: rest =>
    match rdVal Γ false s with
    | .ok (v, σ) =>
      (match rdArgs { Γ with mgr := σ } rest with
       | .ok (vs, σ') => .ok (v :: vs, σ')
       | .error e => .error e)
    | .error e => .error e

/-- the binding list of `_enter_let`: `seen` = names bound by this let so far, `delayed` = those that become visible
only in the body (most recent first). Result: the environment of the body. -/
def rdLetBinds (Γ : PEnv) (seen : List String) (delayed : List (String × Val)) : List Sexp → Except Err PEnv
  | [] => .ok { Γ with binds := bindAll delayed.reverse Γ.binds }
  | .list [.atom x, e] :: bs =>
    let n := pyTok x
    if seen.contains n then .error .syntax
    else
      match rdVal Γ false e with
      | .ok (v, σ) =>
        (match lookup n Γ.binds with
         | none => rdLetBinds { Γ with binds := (n, v) :: Γ.binds, mgr := σ } (n :: seen) delayed bs
         | some _ => rdLetBinds { Γ with mgr := σ } (n :: seen) ((n, v) :: delayed) bs)
      | .error e => .error e
  | _ :: _ => .error .syntax

/-- the binder list of `_enter_quantifier`: environment of the body and the bound variables, in order -/
def rdQuantBinds (Γ : PEnv) (vars : List Sym) : List Sexp → Except Err (PEnv × List Sym)
  | [] => .ok (Γ, vars.reverse)
  | .list [.atom x, ty] :: bs =>
    let n := pyTok x
    match readTy Γ.binds [] ty with
    | .ok t =>
      (match quantVar Γ.mgr n t with
       | .ok (s, σ) => rdQuantBinds { Γ with binds := (n, .term (Term.sym s)) :: Γ.binds, mgr := σ } (s :: vars) bs
       | .error e => .error e)
    | .error e => .error e
  | _ :: _ => .error .syntax
end

/-! The equation lemmas of the mutual block are generated here, once, so that the proof files that unfold these
functions can be imported together. -/
theorem rdVal_str (Γ : PEnv) (lone : Bool) (lit : String) :
    rdVal Γ lone (.str lit) = .ok (.term (Term.str lit), Γ.mgr) := by rw [rdVal]
theorem rdArgs_nil (Γ : PEnv) : rdArgs Γ [] = .ok ([], Γ.mgr) := by rw [rdArgs]
theorem rdLetBinds_nil (Γ : PEnv) (seen : List String) (delayed : List (String × Val)) :
    rdLetBinds Γ seen delayed [] = .ok { Γ with binds := bindAll delayed.reverse Γ.binds } := by rw [rdLetBinds]
theorem rdQuantBinds_nil (Γ : PEnv) (vars : List Sym) : rdQuantBinds Γ vars [] = .ok (Γ, vars.reverse) := by
  rw [rdQuantBinds]
theorem rdLetForm_nil (Γ : PEnv) : rdLetForm Γ [] = .error .syntax := by
  rw [rdLetForm] <;> (intros; simp_all)
theorem rdQuantForm_nil (Γ : PEnv) (b : Bool) : rdQuantForm Γ b [] = .error .syntax := by
  rw [rdQuantForm] <;> (intros; simp_all)
theorem rdAnnotForm_nil (Γ : PEnv) : rdAnnotForm Γ [] = .error .syntax := by rw [rdAnnotForm]

/-- pySMT's reading of a term in the environment `Γ` (the text is a whole command argument) -/
def readTerm (Γ : PEnv) (s : Sexp) : Except Err Term :=
  match rdVal Γ true s with
  | .ok (.term t, _) => .ok t
  | .ok _ => .error .other
  | .error e => .error e

/-- the same, with the formula manager's state after the reading -/
def readTermSt (Γ : PEnv) (s : Sexp) : Except Err (Term × MgrSt) :=
  match rdVal Γ true s with
  | .ok (.term t, σ) => .ok (t, σ)
  | .ok _ => .error .other
  | .error e => .error e

/-! ## commands -/

inductive Command
  | setLogic (name : Option String)
  | plain (name : String) (args : List String)
  | push (n : Int) | pop (n : Int)
  | declareSort (name : String) (arity : Nat)
  | defineSort (name : String) (ty : Ty)
  | declare (cmd : String) (s : Sym)
  | defineFun (name : String) (formals : List Sym) (ret : Ty) (body : Term)
  | assert (t : Term)
  | terms (name : String) (ts : List Term)
  | assertSoft (t : Term) (weight : Term) (id : String)
  | objective (name : String) (t : Term) (opts : List (String × String))
  | minmax (name : String) (ts : List Term) (opts : List (String × String))
  | loadObjective (n : Int)
  deriving Repr, Inhabited

def tokOf : Sexp → Option String
  | .atom t => some (pyTok t)
  | .str s => some ("\"" ++ s ++ "\"")
  | .list _ => none

def toksOf : List Sexp → Option (List String)
  | [] => some []
  | s :: rest => match tokOf s, toksOf rest with
    | some t, some ts => some (t :: ts)
    | _, _ => none

def lower (s : String) : String := s.map Char.toLower

def readTerms (Γ : PEnv) : List Sexp → Except Err (List Term × MgrSt)
  | [] => .ok ([], Γ.mgr)
  | s :: rest =>
    match readTermSt Γ s with
    | .ok (t, σ) =>
      (match readTerms { Γ with mgr := σ } rest with
       | .ok (ts, σ') => .ok (t :: ts, σ')
       | .error e => .error e)
    | .error e => .error e

/-- formal parameters of `define-fun`: fresh symbols `__<name><k>`, bound one after the other -/
def bindFormals (Γ : PEnv) : List Sexp → List Sym → Except Err (PEnv × List Sym)
  | [], acc => .ok (Γ, acc.reverse)
  | .list [.atom x, ty] :: rest, acc =>
    (match readTy Γ.binds [] ty with
     | .ok t => .ok t
     | .error e => .error e) >>= fun t =>
    (match mkFresh Γ.mgr ("__" ++ pyTok x) [] t with
     | .ok (s, σ) => bindFormals { Γ with binds := (pyTok x, .term (Term.sym s)) :: Γ.binds, mgr := σ } rest (s :: acc)
     | .error e => .error e)
  | _ :: _, _ => .error .syntax

/-- the types of all formals are read before any of them is bound (`parse_named_params` precedes the loop) -/
def formalTypes (Γ : PEnv) : List Sexp → Except Err (List (String × Ty))
  | [] => .ok []
  | .list [.atom x, ty] :: rest => do
    let t ← readTy Γ.binds [] ty
    let r ← formalTypes Γ rest
    .ok ((pyTok x, t) :: r)
  | _ :: _ => .error .syntax

def bindFormalsT (Γ : PEnv) : List (String × Ty) → List Sym → Except Err (PEnv × List Sym)
  | [], acc => .ok (Γ, acc.reverse)
  | (x, t) :: rest, acc =>
    match mkFresh Γ.mgr ("__" ++ x) [] t with
    | .ok (s, σ) => bindFormalsT { Γ with binds := (x, .term (Term.sym s)) :: Γ.binds, mgr := σ } rest (s :: acc)
    | .error e => .error e

def noArgCommands : List String :=
  ["check-sat", "exit", "get-assertions", "get-assignment", "get-model", "get-proof", "get-unsat-assumptions",
   "get-unsat-core", "reset", "reset-assertions", "get-objectives"]

def omtCommands : List String :=
  ["assert-soft", "check-allsat", "maximize", "minimize", "minmax", "maxmin", "load-objective-model"]

def cmdSetLogic (Γ : PEnv) (args : List Sexp) : Except Err (PEnv × Command) :=
  match toksOf args with
  | some [l] =>
    (match logics.find? (fun e => lower e.1 == lower l) with
     | some (n, ia) => .ok ({ Γ with intArith := some ia }, .setLogic (some n))
     | none => .ok (Γ, .setLogic none))
  | _ => .error .syntax

def cmdAtoms (Γ : PEnv) (nm : String) (k : Nat) (args : List Sexp) : Except Err (PEnv × Command) :=
  match toksOf args with
  | some l => if l.length = k then .ok (Γ, .plain nm l) else .error .syntax
  | none => .error .syntax

def cmdPushPop (Γ : PEnv) (isPush : Bool) (args : List Sexp) : Except Err (PEnv × Command) :=
  match toksOf args with
  | some [] => .ok (Γ, if isPush then .push 1 else .pop 1)
  | some [k] =>
    (match pyInt? k with
     | some n => .ok (Γ, if isPush then .push n else .pop n)
     | none => .error .other)
  | _ => .error .syntax

def cmdDeclareSort (Γ : PEnv) (args : List Sexp) : Except Err (PEnv × Command) :=
  match toksOf args with
  | some [n, ar] =>
    (match pyInt? ar with
     | none => .error .syntax
     | some a =>
       if a < 0 then .error .unmodelled else
       (match Γ.mgr.sorts.find? (fun e => e.1 == n) with
        | some (_, a') =>
          if a' ≠ a.toNat then .error .value
          else .ok ({ Γ with binds := (n, if a = 0 then .sortTy (.custom n) else .sortDecl n a.toNat) :: Γ.binds },
                    .declareSort n a.toNat)
        | none =>
          .ok ({ Γ with binds := (n, if a = 0 then .sortTy (.custom n) else .sortDecl n a.toNat) :: Γ.binds,
                        mgr := { Γ.mgr with sorts := (n, a.toNat) :: Γ.mgr.sorts } },
               .declareSort n a.toNat)))
  | _ => .error .syntax

def cmdDefineSort (Γ : PEnv) (args : List Sexp) : Except Err (PEnv × Command) :=
  match args with
  | [.atom n, .list ps, ty] =>
    (match toksOf ps with
     | some params =>
       (match readTy Γ.binds params ty with
        | .ok t => .ok ({ Γ with binds := (pyTok n, .sortTy t) :: Γ.binds }, .defineSort (pyTok n) t)
        | .error e => .error e)
     | none => .error .unmodelled)
  | _ => .error .syntax

def cmdDeclareFun (Γ : PEnv) (args : List Sexp) : Except Err (PEnv × Command) :=
  match args with
  | [.atom n, .list ps, r] =>
    (match readTyList Γ.binds [] ps, readTy Γ.binds [] r with
     | .ok pts, .ok rt =>
       (match mkSymbol Γ.mgr ⟨pyTok n, pts, rt⟩ with
        | .ok (s, σ) =>
          .ok ({ Γ with binds := (pyTok n, if pts.isEmpty then .term (Term.sym s) else .fn (.uf s)) :: Γ.binds, mgr := σ },
               .declare "declare-fun" s)
        | .error e => .error e)
     | .error e, _ => .error e
     | _, .error e => .error e)
  | _ => .error .syntax

def cmdDeclareConst (Γ : PEnv) (args : List Sexp) : Except Err (PEnv × Command) :=
  match args with
  | [.atom n, r] =>
    (match readTy Γ.binds [] r with
     | .ok rt =>
       (match mkSymbol Γ.mgr (Sym.var (pyTok n) rt) with
        | .ok (s, σ) => .ok ({ Γ with binds := (pyTok n, .term (Term.sym s)) :: Γ.binds, mgr := σ }, .declare "declare-const" s)
        | .error e => .error e)
     | .error e => .error e)
  | _ => .error .syntax

def cmdDefineFun (Γ : PEnv) (args : List Sexp) : Except Err (PEnv × Command) :=
  match args with
  | [.atom n, .list ps, r, body] =>
    (match formalTypes Γ ps, readTy Γ.binds [] r with
     | .ok fts, .ok rt =>
       (match bindFormalsT Γ fts [] with
        | .ok (Γ', formals) =>
          (match readTermSt Γ' body with
           | .ok (b, σ) =>
             let bt := b.typeOf
             let promote := bt == some .int && rt == .real && b.fv.isEmpty
             (match (if promote then liftMk (Mk.ToReal b) else .ok b) with
              | .ok b' =>
                if (if promote then some Ty.real else bt) ≠ some rt then .error .syntax
                else
                  let v : Val := if formals.isEmpty then .term b' else .fn (.defn formals b')
                  .ok ({ Γ with binds := (pyTok n, v) :: Γ.binds, mgr := σ }, .defineFun (pyTok n) formals rt b')
              | .error e => .error e)
           | .error e => .error e)
        | .error e => .error e)
     | .error e, _ => .error e
     | _, .error e => .error e)
  | _ => .error .syntax

/-- `_cmd_assert` -/
def cmdAssert (Γ : PEnv) (args : List Sexp) : Except Err (PEnv × Command) :=
  match args with
  | [t] =>
    (match readTermSt Γ t with
     | .ok (t', σ) => if t'.typeOf == some .bool then .ok ({ Γ with mgr := σ }, .assert t') else .error .syntax
     | .error e => .error e)
  | _ => .error .syntax

def cmdTerms (Γ : PEnv) (nm : String) (args : List Sexp) : Except Err (PEnv × Command) :=
  match args with
  | [.list ts] =>
    (match readTerms Γ ts with
     | .ok (ts', σ) => .ok ({ Γ with mgr := σ }, .terms nm ts')
     | .error e => .error e)
  | _ => .error .syntax

/-! ### OMT extension (`_cmd_assert_soft`, `_cmd_objective`, `_cmd_minmax_maxmin_obj`, `_cmd_check_allsat`,
`_cmd_load_objective_model`) -/

/-- the options of `assert-soft`: `:weight <term>` and `:id <token>`, each at most once -/
def softOpts (Γ : PEnv) : List Sexp → Option Term → Option String → Except Err (Option Term × Option String × MgrSt)
  | [], w, i => .ok (w, i, Γ.mgr)
  | [_], _, _ => .error .syntax
  | k :: v :: rest, w, i =>
    match k with
    | .atom kt =>
      if pyTok kt == ":weight" && w.isNone then
        (match readTermSt Γ v with
         | .ok (t, σ) => softOpts { Γ with mgr := σ } rest (some t) i
         | .error e => .error e)
      else if pyTok kt == ":id" && i.isNone then
        (match tokOf v with
         | some x => softOpts Γ rest w (some x)
         | none => .error .syntax)
      else .error .syntax
    | _ => .error .syntax

def cmdAssertSoft (Γ : PEnv) (args : List Sexp) : Except Err (PEnv × Command) :=
  match args with
  | e :: opts =>
    (match readTermSt Γ e with
     | .ok (t, σ) =>
       (match softOpts { Γ with mgr := σ } opts none none with
        | .ok (w, i, σ') => .ok ({ Γ with mgr := σ' }, .assertSoft t (w.getD (Term.int 1)) (i.getD "I"))
        | .error e => .error e)
     | .error e => .error e)
  | [] => .error .syntax

/-- `:id <token>` and `:signed`, in any order and number -/
def objOpts : List Sexp → List (String × String) → Except Err (List (String × String))
  | [], acc => .ok acc.reverse
  | [.atom k], acc => if pyTok k == ":signed" then .ok ((":signed", "True") :: acc).reverse else .error .syntax
  | [_], _ => .error .syntax
  | k :: v :: rest, acc =>
    match k with
    | .atom kt =>
      if pyTok kt == ":id" then
        (match tokOf v with
         | some x => objOpts rest ((":id", x) :: acc)
         | none => .error .syntax)
      else if pyTok kt == ":signed" then objOpts (v :: rest) ((":signed", "True") :: acc)
      else .error .syntax
    | _ => .error .syntax

def withSigned (opts : List (String × String)) : List (String × String) :=
  if opts.any (fun o => o.1 == ":signed") then opts else opts ++ [(":signed", "False")]

def cmdObjective (Γ : PEnv) (nm : String) (args : List Sexp) : Except Err (PEnv × Command) :=
  match args with
  | e :: opts =>
    (match readTermSt Γ e, objOpts opts [] with
     | .ok (t, σ), .ok os => .ok ({ Γ with mgr := σ }, .objective nm t (withSigned os))
     | .error e, _ => .error e
     | _, .error e => .error e)
  | [] => .error .syntax

def isOptTok : Sexp → Bool
  | .atom k => (pyTok k).startsWith ":"
  | _ => false

def cmdMinmax (Γ : PEnv) (nm : String) (args : List Sexp) : Except Err (PEnv × Command) :=
  let ts := args.takeWhile (fun x => !isOptTok x)
  let opts := args.dropWhile (fun x => !isOptTok x)
  match readTerms Γ ts, objOpts opts [] with
  | .ok (ts', σ), .ok os => .ok ({ Γ with mgr := σ }, .minmax nm ts' (withSigned os))
  | .error e, _ => .error e
  | _, .error e => .error e

def cmdLoadObjective (Γ : PEnv) (args : List Sexp) : Except Err (PEnv × Command) :=
  match toksOf args with
  | some [] => .ok (Γ, .loadObjective 1)
  | some [k] => (match pyInt? k with | some n => .ok (Γ, .loadObjective n) | none => .error .other)
  | _ => .error .syntax

/-- dispatch on the command name (`self.commands[current]`) -/
def cmdNamed (Γ : PEnv) (nm : String) (args : List Sexp) : Except Err (PEnv × Command) :=
  if nm == "assert" then cmdAssert Γ args
  else if nm == "set-logic" then cmdSetLogic Γ args
  else if nm == "set-info" || nm == "set-option" then cmdAtoms Γ nm 2 args
  else if nm == "get-info" || nm == "get-option" || nm == "echo" then cmdAtoms Γ nm 1 args
  else if noArgCommands.contains nm then cmdAtoms Γ nm 0 args
  else if nm == "push" then cmdPushPop Γ true args
  else if nm == "pop" then cmdPushPop Γ false args
  else if nm == "declare-sort" then cmdDeclareSort Γ args
  else if nm == "define-sort" then cmdDefineSort Γ args
  else if nm == "declare-fun" then cmdDeclareFun Γ args
  else if nm == "declare-const" then cmdDeclareConst Γ args
  else if nm == "define-fun" then cmdDefineFun Γ args
  else if nm == "get-value" || nm == "check-sat-assuming" || nm == "check-allsat" then cmdTerms Γ nm args
  else if nm == "assert-soft" then cmdAssertSoft Γ args
  else if nm == "maximize" || nm == "minimize" then cmdObjective Γ nm args
  else if nm == "minmax" || nm == "maxmin" then cmdMinmax Γ nm args
  else if nm == "load-objective-model" then cmdLoadObjective Γ args
  else if nm == "define-fun-rec" || nm == "define-funs-rec" then .error .notImplemented
  else .error .unmodelled

/-- one command (`get_command` + the `_cmd_*` handlers) -/
def cmd (Γ : PEnv) (c : Sexp) : Except Err (PEnv × Command) :=
  match c with
  | .list (.atom name :: args) =>
    if commands.any (fun e => e.1 == pyTok name) then cmdNamed Γ (pyTok name) args else .error .unknownCommand
  | _ => .error .syntax

/-- `get_script`: all commands, from the initial environment -/
def script : PEnv → List Sexp → Except Err (List Command)
  | _, [] => .ok []
  | Γ, c :: rest =>
    match cmd Γ c with
    | .ok (Γ', k) => (script Γ' rest).map (k :: ·)
    | .error e => .error e

/-- the environment after a prefix of commands -/
def envAfter : PEnv → List Sexp → Except Err PEnv
  | Γ, [] => .ok Γ
  | Γ, c :: rest =>
    match cmd Γ c with
    | .ok (Γ', _) => envAfter Γ' rest
    | .error e => .error e

end PySMT.Parser
