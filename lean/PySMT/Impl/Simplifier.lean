import PySMT.Impl.Simp.Rules
import PySMT.Impl.Simp.Bool
import PySMT.Impl.Simp.Arith
import PySMT.Impl.Simp.BV
import PySMT.Impl.Simp.Str
import PySMT.Impl.Simp.Array
/-!
# Model of `pysmt.simplifier.Simplifier` (pysmt/simplifier.py:33-1108)

`Simplifier` is a `DagWalker`: the memoised walk computes, for every node, the
`walk_<op>` method applied to the node and the results of its children — bottom-up. On
trees (object identity = structural equality, C04) this is

    simp (.node op args p) = rule_op p (args.map simp)

`ruleOf op = none` : the operator is outside the modelled fragment *so far*; the driver
answers `out-of-fragment` for terms containing it and the theorems assume `inFrag`.
To add a rule family see `Impl/Simp/README.md`.
-/
namespace PySMT.Simplifier
open PySMT.Simp

/-- bottom-up application of a rule table -/
def simpWith (tbl : Op → Option Entry) : Term → Term
  | .node op args p =>
    match tbl op with
    | some e => e.rule p (args.map (simpWith tbl))
    | none => .node op (args.map (simpWith tbl)) p

/-- every node has an entry in the table and satisfies the entry's guard -/
def inFragWith (tbl : Op → Option Entry) : Term → Bool
  | .node op args p =>
    (match tbl op with
     | some e => e.guard p (args.map Term.typeOf)
     | none => false) && (args.map (inFragWith tbl)).all id

/-- guard of `walk_equals`: equalities between array-sorted terms whose index sort is a bit-vector
sort **wider than 8 bits** (and whose element sort is not an array sort) are outside the *proved*
fragment. The extensional comparison of two constant array values (`BoolRules.arrayValuesEq`, part of
the model and checked by K and S on every sort) is proved over Int, Real, String, Bool and bit-vector
indices of width ≤ 8 (`Proofs/SimpArrayEq.lean`). Over a wider bit-vector index sort the canonical
array values of the reference semantics (`Core/Val.lean`, `smallDomain`) are not extensional for values
that assign all `2^w ≥ 512` indices — the case in which the method answers "equal although the defaults
differ". For the other array sorts (array-sorted elements, array or custom index sort) the method does
not compare and rebuilds the equality. -/
def equalsGuard : Payload → List (Option Ty) → Bool
  | _, some (.array (.bv w) e) :: _ => decide (w ≤ 8) || e.isArray
  | _, _ => true

/-- the rule table -/
def ruleOf : Op → Option Entry
  -- Boolean / core family (Impl/Simp/Bool.lean)
  | .and => some BoolRules.walkAnd
  | .or => some BoolRules.walkOr
  | .not => some BoolRules.walkNot
  | .iff => some BoolRules.walkIff
  | .implies => some BoolRules.walkImplies
  | .ite => some BoolRules.walkIte
  | .equals => some { rule := BoolRules.walkEquals, guard := equalsGuard }
  | .le => some BoolRules.walkLe
  | .lt => some BoolRules.walkLt
  | .forall_ => some BoolRules.walkForall
  | .exists_ => some BoolRules.walkExists
  | .function => some BoolRules.walkFunction
  | .toReal => some BoolRules.walkToReal
  | .symbol => some (keep .symbol)
  | .boolConst => some (keep .boolConst)
  | .intConst => some (keep .intConst)
  | .realConst => some (keep .realConst)
  | .strConst => some (keep .strConst)
  | .bvConst => some (keep .bvConst)
  -- arithmetic family (Impl/Simp/Arith.lean)
  | .plus => some ArithRules.walkPlus
  | .times => some ArithRules.walkTimes
  | .minus => some ArithRules.walkMinus
  | .div => some ArithRules.walkDiv
  -- bit-vector family (Impl/Simp/BV.lean)
  | .bvAnd => some BVRules.walkBvAnd
  | .bvOr => some BVRules.walkBvOr
  | .bvXor => some BVRules.walkBvXor
  | .bvNot => some BVRules.walkBvNot
  | .bvNeg => some BVRules.walkBvNeg
  | .bvAdd => some BVRules.walkBvAdd
  | .bvSub => some BVRules.walkBvSub
  | .bvMul => some BVRules.walkBvMul
  | .bvUdiv => some BVRules.walkBvUdiv
  | .bvUrem => some BVRules.walkBvUrem
  | .bvSdiv => some BVRules.walkBvSdiv
  | .bvSrem => some BVRules.walkBvSrem
  | .bvLshl => some BVRules.walkBvLshl
  | .bvLshr => some BVRules.walkBvLshr
  | .bvAshr => some BVRules.walkBvAshr
  | .bvUlt => some BVRules.walkBvUlt
  | .bvUle => some BVRules.walkBvUle
  | .bvSlt => some BVRules.walkBvSlt
  | .bvSle => some BVRules.walkBvSle
  | .bvComp => some BVRules.walkBvComp
  | .bvConcat => some BVRules.walkBvConcat
  | .bvExtract => some BVRules.walkBvExtract
  | .bvRol => some BVRules.walkBvRol
  | .bvRor => some BVRules.walkBvRor
  -- zext / sext: only the nodes whose width payload is operand width + step, as `BVZExt`/`BVSExt`
  -- build them (the type checker accepts any width ≥ operand width; see `BVRules.extGuard`)
  | .bvZext => some { rule := BVRules.walkBvZext, guard := BVRules.extGuard }
  | .bvSext => some { rule := BVRules.walkBvSext, guard := BVRules.extGuard }
  | .bvToNatural => some BVRules.walkBvToNatural
  -- string family (Impl/Simp/Str.lean)
  | .strLength => some StrRules.walkStrLength
  | .strConcat => some StrRules.walkStrConcat
  | .strCharAt => some StrRules.walkStrCharAt
  | .strContains => some StrRules.walkStrContains
  | .strIndexOf => some StrRules.walkStrIndexOf
  | .strReplace => some StrRules.walkStrReplace
  | .strSubstr => some StrRules.walkStrSubstr
  | .strPrefixOf => some StrRules.walkStrPrefixOf
  | .strSuffixOf => some StrRules.walkStrSuffixOf
  | .strToInt => some StrRules.walkStrToInt
  | .intToStr => some StrRules.walkIntToStr
  -- array family (Impl/Simp/Array.lean): the instances whose index sort is not an array sort
  -- (distinct constants of a scalar sort denote distinct indices; see `ArrayRules.scalarIdx`)
  | .arraySelect => some { rule := ArrayRules.walkArraySelect, guard := ArrayRules.arrayGuard }
  | .arrayStore => some { rule := ArrayRules.walkArrayStore, guard := ArrayRules.arrayGuard }
  | .arrayValue => some { rule := ArrayRules.walkArrayValue, guard := ArrayRules.valueGuard }
  | _ => none

/-- the simplifier -/
def simp : Term → Term := simpWith ruleOf

/-- every operator of the term has a rule (and meets its guard) -/
def inFrag : Term → Bool := inFragWith ruleOf

/-- operator-level fragment test used by the driver (K compares the *model*, guards do
not matter there) -/
def hasRules : Term → Bool
  | .node op args _ => (ruleOf op).isSome && (args.map hasRules).all id

end PySMT.Simplifier
