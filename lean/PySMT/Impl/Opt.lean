/-!
# Model of `pysmt/optimization/optimizer.py` (C18)

Executable model of

* `OptSearchInterval` (`optimizer.py:237-399`): bound initialisation for Int / unsigned BV /
  signed BV goals, `linear_search_cut`, `_compute_pivot` (with its `None` cases),
  `binary_search_cut`, `empty`, `search_is_sat`, `search_is_unsat`;
* the comparison-function table `_comparation_functions` (`:187-234`), including the `KeyError`
  for a goal whose `get_logic()` is not in the table (field `Goal.supported`, finding F24b);
* the generic loop `ExternalOptimizerMixin._optimize` (`:487-524`), `boxed_optimize`,
  `lexicographic_optimize` (as repaired for F24a: `_cleanup` also on success), `pareto_optimize`
  (as repaired for F24d: `try/finally`, so that an abandoned generator restores the solver);
* both mix-ins: `SUAOptimizerMixin` (assumption based) and `IncrementalOptimizerMixin`
  (push/pop based) -- `_optimization_check_progress`, `_lexicographic_opt`,
  `_pareto_check_progress`, `_pareto_block_model`;
* the part of `IncrementalTrackingSolver` the routines use (assertion stack, backtrack points,
  `push`, `pop`, `add_assertion`, `solve`).

The satisfiability oracle is a parameter `o : Oracle M`: `o n cs` is the answer of the `n`-th
`solve` call when the constraints `cs` (pushed by the routine, plus assumptions) are active on top
of the user's assertions.  Models are an arbitrary type `M`; the routines only look at a model
through `obj i m : Int`, the value of the `i`-th goal term (`toNat` resp. `toInt` of a bit-vector
value according to the goal's signedness).  Nothing in this file depends on Mathlib.
-/
namespace PySMT.Opt

inductive Strat | linear | binary
  deriving DecidableEq, Repr, Inhabited

inductive Mixin | sua | incr
  deriving DecidableEq, Repr, Inhabited

/-- `goal.opt()`: `MinimizationGoal` (also `MinMaxGoal`) or `MaximizationGoal` (also `MaxMinGoal`,
    and `MaxSMTGoal` after `_optimize` rewrote it to `MaximizationGoal(goal.term())`). -/
inductive Dir | min | max
  deriving DecidableEq, Repr, Inhabited

/-- sort of the goal term together with `goal.signed` -/
inductive Dom | int | ubv (w : Nat) | sbv (w : Nat)
  deriving DecidableEq, Repr, Inhabited

structure Goal where
  dir : Dir
  dom : Dom
  /-- `goal.get_logic()` is one of the keys of the table in `_comparation_functions` -/
  supported : Bool := true
  deriving DecidableEq, Repr, Inhabited

inductive Cmp | lt | le | gt | ge
  deriving DecidableEq, Repr, Inhabited

def Cmp.eval : Cmp → Int → Int → Bool
  | .lt, a, b => decide (a < b)
  | .le, a, b => decide (a ≤ b)
  | .gt, a, b => decide (a > b)
  | .ge, a, b => decide (a ≥ b)

/-- `op(term_g, constant)`; `dom` records the operator family (`LT` / `BVULT` / `BVSLT` …) -/
structure Atom where
  g : Nat
  dom : Dom
  cmp : Cmp
  bound : Int
  deriving DecidableEq, Repr, Inhabited

inductive Constraint
  | atom (a : Atom)                 -- a search cut or a Pareto `get_constraint`
  | eq (g : Nat) (dom : Dom) (v : Int)  -- `Equals(term_g, val)` of the lexicographic routine
  | disj (as : List Atom)           -- `Or(get_constraint(True) …)` of the Pareto routine
  deriving DecidableEq, Repr, Inhabited

/-! ## Meaning of the constraints (SMT-LIB semantics of the operators the table selects)

A model assigns to the `i`-th goal term a *raw* value `val i m`: an integer or a bit-vector.  The
atom built with operator family `dom` is evaluated with the operators of that family --
`LT/LE` on integers, `BVULT/BVULE` resp. `BVSLT/BVSLE` on bit-vectors (`>`/`≥` are the same
operators with swapped arguments, as in `FormulaManager.BVUGT` …) -- against the constant
`mgr.Int(b)` / `mgr.BV(b, w)` / `mgr.SBV(b, w)`, i.e. `BitVec.ofInt w b`.  Nothing here looks at the
goal: whether the operator family fits the goal's signedness is what the theorems have to show. -/

inductive Val
  | int (v : Int)
  | bv (w : Nat) (b : BitVec w)

def Cmp.evalU {w : Nat} : Cmp → BitVec w → BitVec w → Bool
  | .lt, a, b => a.ult b
  | .le, a, b => a.ule b
  | .gt, a, b => b.ult a
  | .ge, a, b => b.ule a

def Cmp.evalS {w : Nat} : Cmp → BitVec w → BitVec w → Bool
  | .lt, a, b => a.slt b
  | .le, a, b => a.sle b
  | .gt, a, b => b.slt a
  | .ge, a, b => b.sle a

/-- `search_is_sat` / `get_value`: how a goal of sort-and-signedness `dom` reads a model value
    (`constant_value()`, resp. `bv_signed_value()` for a signed goal) -/
def readObj : Dom → Val → Int
  | .int, .int v => v
  | .ubv _, .bv _ b => b.toNat
  | .sbv _, .bv _ b => b.toInt
  | _, _ => 0

/-- the value has the sort of a goal term of that `dom` -/
def ValTyped : Dom → Val → Prop
  | .int, .int _ => True
  | .ubv w, .bv w' _ => w' = w
  | .sbv w, .bv w' _ => w' = w ∧ 0 < w
  | _, _ => False

section Sem
variable {M : Type}

def Atom.holds (val : Nat → M → Val) (m : M) (a : Atom) : Bool :=
  match a.dom, val a.g m with
  | .int, .int v => a.cmp.eval v a.bound
  | .ubv w, .bv w' b => if h : w' = w then a.cmp.evalU (h ▸ b) (BitVec.ofInt w a.bound) else false
  | .sbv w, .bv w' b => if h : w' = w then a.cmp.evalS (h ▸ b) (BitVec.ofInt w a.bound) else false
  | _, _ => false

def Constraint.holds (val : Nat → M → Val) (m : M) : Constraint → Bool
  | .atom a => a.holds val m
  | .eq g dom v => readObj dom (val g m) == v
  | .disj as => as.any (fun a => a.holds val m)

end Sem

/-! ## Comparison table -/

/-- `op_strict` of `_comparation_functions` -/
def strictCmp (g : Goal) : Cmp := match g.dir with | .min => .lt | .max => .gt
/-- `op_ns` of `_comparation_functions` -/
def nsCmp (g : Goal) : Cmp := match g.dir with | .min => .le | .max => .ge

/-- Does `mgr.Int` / `mgr.BV(·, w)` / `mgr.SBV(·, w)` accept the value? (`formula.py:601-683`) -/
def castOk : Dom → Int → Bool
  | .int, _ => true
  | .ubv w, v => decide (0 ≤ v ∧ v < (2 : Int) ^ w)
  | .sbv w, v => decide (0 < w ∧ -((2 : Int) ^ (w - 1)) ≤ v ∧ v ≤ (2 : Int) ^ (w - 1) - 1)

/-! ## `OptSearchInterval` -/

structure Interval where
  lower : Option Int
  upper : Option Int
  pivot : Option Int
  deriving DecidableEq, Repr, Inhabited

/-- `OptSearchInterval.__init__` -/
def Interval.init (g : Goal) : Interval :=
  match g.dom, g.dir with
  | .int, _ => ⟨none, none, none⟩
  | .ubv w, .min => ⟨some 0, some ((2 : Int) ^ w + 1), none⟩
  | .ubv w, .max => ⟨some (0 - 1), some ((2 : Int) ^ w), none⟩
  | .sbv w, .min => ⟨some (-((2 : Int) ^ (w - 1))), some ((2 : Int) ^ (w - 1) - 1 + 1), none⟩
  | .sbv w, .max => ⟨some (-((2 : Int) ^ (w - 1)) - 1), some ((2 : Int) ^ (w - 1) - 1), none⟩

/-- the bound used by `linear_search_cut` (`None` would make the cast raise) -/
def linearBound (g : Goal) (iv : Interval) : Option Int :=
  match g.dir with | .min => iv.upper | .max => iv.lower

/-- `_compute_pivot` for Int and BV terms -/
def computePivot (g : Goal) (iv : Interval) : Int :=
  match iv.lower, iv.upper with
  | none, none => 0
  | lo, up =>
    let l : Int := match lo, up with
      | none, some u => u - ((u.natAbs : Int) + 1)
      | some l, _ => l
      | none, none => 0
    let u : Int := match lo, up with
      | some l, none => l + (l.natAbs : Int) + 1
      | _, some u => u
      | none, none => 0
    let p := (l + u) / 2
    match g.dir with | .min => p + 1 | .max => p

def Interval.empty (iv : Interval) : Bool :=
  match iv.lower, iv.upper with
  | some l, some u => decide (u ≤ l)
  | _, _ => false

/-- `search_is_sat` with the objective value of the new model -/
def searchIsSat (g : Goal) (iv : Interval) (v : Int) : Interval :=
  match g.dir with
  | .min =>
    match iv.upper with
    | none => { iv with pivot := none, upper := some v }
    | some u => if u > v then { iv with pivot := none, upper := some v } else { iv with pivot := none }
  | .max =>
    match iv.lower with
    | none => { iv with pivot := none, lower := some v }
    | some l => if l < v then { iv with pivot := none, lower := some v } else { iv with pivot := none }

/-- `search_is_unsat` -/
def searchIsUnsat (g : Goal) (iv : Interval) : Interval :=
  match iv.pivot with
  | some p => (match g.dir with | .min => { iv with lower := some p } | .max => { iv with upper := some p })
  | none => (match g.dir with | .min => { iv with lower := iv.upper } | .max => { iv with upper := iv.lower })

/-! ## The solver (`IncrementalTrackingSolver`) -/

inductive Event
  | push | pop
  | add (c : Constraint)
  | solve (cs : List Constraint) (sat : Bool)
  deriving DecidableEq, Repr

/-- `o n cs`: answer to the `n`-th `solve` call, `cs` = constraints active beyond the user's -/
abbrev Oracle (M : Type) := Nat → List Constraint → Option M

structure Solver (M : Type) where
  /-- assertions added since the routine was entered (`_assertion_stack` beyond the user's) -/
  stack : List Constraint := []
  /-- `_backtrack_points` (innermost first), relative to `stack` -/
  marks : List Nat := []
  /-- number of `solve` calls so far -/
  calls : Nat := 0
  /-- model of the last satisfiable `solve` (`get_model`) -/
  model : Option M := none
  /-- `pop` without a matching `push` happened (Python: `IndexError`) -/
  bad : Bool := false
  /-- all events, newest first (for the correspondence run only) -/
  trace : List Event := []

section Solver
variable {M : Type}

def Solver.push (s : Solver M) : Solver M :=
  { s with marks := s.stack.length :: s.marks, trace := .push :: s.trace }

def Solver.pop (s : Solver M) : Solver M :=
  match s.marks with
  | [] => { s with bad := true, trace := .pop :: s.trace }
  | p :: ms => { s with stack := s.stack.take p, marks := ms, trace := .pop :: s.trace }

def Solver.add (s : Solver M) (c : Constraint) : Solver M :=
  { s with stack := s.stack ++ [c], trace := .add c :: s.trace }

def Solver.addAll (s : Solver M) (cs : List Constraint) : Solver M := cs.foldl Solver.add s

def Solver.solve (o : Oracle M) (s : Solver M) (assumptions : List Constraint) : Option M × Solver M :=
  let cs := s.stack ++ assumptions
  let r := o s.calls cs
  (r, { s with calls := s.calls + 1, model := r, trace := .solve cs r.isSome :: s.trace })

end Solver

/-! ## Outcomes -/

inductive Outcome (α : Type)
  | done (r : α)
  /-- `PysmtValueError` from `mgr.BV`/`mgr.SBV` (or a `None` bound) -/
  | castErr (dom : Dom) (v : Option Int)
  /-- `KeyError` in `_comparation_functions` -/
  | keyErr
  /-- the model ran out of fuel (the Python loop would still be running) -/
  | fuel
  /-- `lexicographic_optimize([])` (`UnboundLocalError`) / `pareto_optimize([])` (`IndexError`) -/
  | emptyGoals
  deriving Repr

def Outcome.cast {α β : Type} (d : β) : Outcome α → Outcome β
  | .done _ => .done d
  | .castErr dom v => .castErr dom v
  | .keyErr => .keyErr
  | .fuel => .fuel
  | .emptyGoals => .emptyGoals

section Search
variable {M : Type}

/-- `_optimization_check_progress` of the two mix-ins -/
def checkProgress (o : Oracle M) (mx : Mixin) (strat : Strat) (extra : List Constraint)
    (cut : Option Constraint) (s : Solver M) : Option M × Solver M :=
  match mx with
  | .sua => s.solve o (extra ++ cut.toList)
  | .incr =>
    match strat with
    | .linear => (s.addAll cut.toList).solve o []
    | .binary =>
      let (r, s') := ((s.push).addAll cut.toList).solve o []
      (r, s'.pop)

/-- `linear_search_cut` / `binary_search_cut`: the interval (pivot recorded) and the bound to cast -/
def cutBound (strat : Strat) (g : Goal) (iv : Interval) : Interval × Option Int :=
  match strat with
  | .linear => (iv, linearBound g iv)
  | .binary => let p := computePivot g iv; ({ iv with pivot := some p }, some p)

/-- the `while not current.empty()` loop of `_optimize`, after the first (cut-free) step -/
def searchLoop (o : Oracle M) (obj : Nat → M → Int) (mx : Mixin) (strat : Strat) (g : Goal) (gi : Nat)
    (extra : List Constraint) : Nat → Interval → M → Solver M → Outcome M × Solver M
  | 0, _, _, s => (.fuel, s)
  | n + 1, iv, best, s =>
    if iv.empty then (.done best, s) else
    match cutBound strat g iv with
    | (_, none) => (.castErr g.dom none, s)
    | (iv1, some b) =>
      if castOk g.dom b then
        match checkProgress o mx strat extra (some (.atom ⟨gi, g.dom, strictCmp g, b⟩)) s with
        | (some m, s1) => searchLoop o obj mx strat g gi extra n (searchIsSat g iv1 (obj gi m)) m s1
        | (none, s1) => searchLoop o obj mx strat g gi extra n (searchIsUnsat g iv1) best s1
      else (.castErr g.dom (some b), s)

/-- `ExternalOptimizerMixin._optimize(goal, strategy, extra_assumption)`;
    result `some (model, cost)` or `none` -/
def optimize (o : Oracle M) (obj : Nat → M → Int) (mx : Mixin) (strat : Strat) (g : Goal) (gi : Nat)
    (extra : List Constraint) (fuel : Nat) (s : Solver M) : Outcome (Option (M × Int)) × Solver M :=
  let s0 := s.push                                        -- _setup
  if !g.supported then (.keyErr, s0) else                 -- OptSearchInterval.__init__
  let iv0 := Interval.init g
  if iv0.empty then (.done none, s0.pop) else
  match checkProgress o mx strat extra none s0 with        -- first step: no cut
  | (none, s1) => (.done none, s1.pop)
  | (some m, s1) =>
    match searchLoop o obj mx strat g gi extra fuel (searchIsSat g iv0 (obj gi m)) m s1 with
    | (.done b, s2) => (.done (some (b, obj gi b)), s2.pop)
    | (e, s2) => (e.cast none, s2)

/-- `boxed_optimize` -/
def boxed (o : Oracle M) (obj : Nat → M → Int) (mx : Mixin) (strat : Strat) (fuel : Nat) :
    List (Nat × Goal) → Solver M → Outcome (Option (List (Nat × M × Int))) × Solver M
  | [], s => (.done (some []), s)
  | (gi, g) :: rest, s =>
    match optimize o obj mx strat g gi [] fuel s with
    | (.done none, s1) => (.done none, s1)
    | (.done (some (m, c)), s1) =>
      (match boxed o obj mx strat fuel rest s1 with
       | (.done (some l), s2) => (.done (some ((gi, m, c) :: l)), s2)
       | r => r)
    | (e, s1) => (e.cast none, s1)

/-- `_lexicographic_opt` of the two mix-ins -/
def lexStep (o : Oracle M) (obj : Nat → M → Int) (mx : Mixin) (strat : Strat) (g : Goal) (gi : Nat)
    (cd : List Constraint) (fuel : Nat) (s : Solver M) : Outcome (Option (M × Int)) × Solver M :=
  match mx with
  | .sua => optimize o obj mx strat g gi cd fuel s
  | .incr =>
    let (r, s') := optimize o obj mx strat g gi [] fuel ((s.push).addAll cd)
    (r, s'.pop)

def lexLoop (o : Oracle M) (obj : Nat → M → Int) (mx : Mixin) (strat : Strat) (fuel : Nat) :
    List (Nat × Goal) → List Constraint → Option M → List Int → Solver M →
    Outcome (Option (M × List Int)) × Solver M
  | [], _, last, vals, s =>
    (match last with
     | none => (.emptyGoals, s.pop)                        -- `_cleanup`, then `model` is unbound
     | some m => (.done (some (m, vals)), s.pop))          -- `_cleanup` (repair of F24a)
  | (gi, g) :: rest, cd, _, vals, s =>
    match lexStep o obj mx strat g gi cd fuel s with
    | (.done none, s1) => (.done none, s1.pop)
    | (.done (some (m, v)), s1) =>
      lexLoop o obj mx strat fuel rest (cd ++ [.eq gi g.dom v]) (some m) (vals ++ [v]) s1
    | (e, s1) => (e.cast none, s1)

/-- `lexicographic_optimize` -/
def lexicographic (o : Oracle M) (obj : Nat → M → Int) (mx : Mixin) (strat : Strat) (fuel : Nat)
    (goals : List (Nat × Goal)) (s : Solver M) : Outcome (Option (M × List Int)) × Solver M :=
  lexLoop o obj mx strat fuel goals [] none [] s.push

/-- `[obj.get_constraint(strict) for obj in objs]` with `obj.val` = value in model `m` -/
def paretoAtoms (obj : Nat → M → Int) (strict : Bool) (goals : List (Nat × Goal)) (m : M) : List Atom :=
  goals.map (fun (gi, g) => ⟨gi, g.dom, if strict then strictCmp g else nsCmp g, obj gi m⟩)

/-- the constraints `k` of `_pareto_check_progress` -/
def paretoStepCs (obj : Nat → M → Int) (goals : List (Nat × Goal)) : Option M → List Constraint
  | none => []
  | some m => (paretoAtoms obj false goals m).map .atom ++ [.disj (paretoAtoms obj true goals m)]

/-- inner `while not optimum_found` loop -/
def paretoInner (o : Oracle M) (obj : Nat → M → Int) (mx : Mixin) (goals : List (Nat × Goal))
    (cd : List Constraint) : Nat → Option M → Solver M → Outcome (Option M) × Solver M
  | 0, _, s => (.fuel, s)
  | n + 1, last, s =>
    let k := paretoStepCs obj goals last
    let (r, s1) := match mx with
      | .sua => s.solve o (cd ++ k)
      | .incr => (s.addAll k).solve o []
    match r with
    | none => (.done last, s1)
    | some m => paretoInner o obj mx goals cd n (some m) s1

/-- outer `while not terminated` loop; `acc` = solutions yielded so far -/
def paretoOuter (o : Oracle M) (obj : Nat → M → Int) (mx : Mixin) (goals : List (Nat × Goal))
    (fuel : Nat) : Nat → List Constraint → List (M × List Int) → Solver M →
    Outcome (List (M × List Int)) × Solver M
  | 0, _, _, s => (.fuel, s)
  | n + 1, cd, acc, s =>
    match paretoInner o obj mx goals cd fuel none s.push with     -- _pareto_setup
    | (.done last, s2) =>
      let s3 := s2.pop                                             -- _pareto_cleanup (`finally`)
      (match last with
       | none => (.done acc, s3.pop)                               -- terminated; _cleanup
       | some m =>
         let blk := Constraint.disj (paretoAtoms obj true goals m)
         let acc' := acc ++ [(m, goals.map (fun (gi, _) => obj gi m))]
         match mx with
         | .sua => paretoOuter o obj mx goals fuel n (cd ++ [blk]) acc' s3
         | .incr => paretoOuter o obj mx goals fuel n cd acc' (s3.add blk))
    | (e, s2) => (e.cast [], s2)

/-- `pareto_optimize(goals)` consumed for `k` solutions and then abandoned (`close()`, `break`, or
    garbage collection raise `GeneratorExit` at the `yield`): the `finally` of the repaired routine
    runs `_cleanup`.  `k = 0` is treated like `k = 1` (a generator that is never advanced does not
    even call `_setup`). -/
def paretoTake (o : Oracle M) (obj : Nat → M → Int) (mx : Mixin) (goals : List (Nat × Goal))
    (fuel : Nat) : Nat → Nat → List Constraint → List (M × List Int) → Solver M →
    Outcome (List (M × List Int)) × Solver M
  | _, 0, _, _, s => (.fuel, s)
  | k, n + 1, cd, acc, s =>
    match paretoInner o obj mx goals cd fuel none s.push with
    | (.done last, s2) =>
      let s3 := s2.pop
      (match last with
       | none => (.done acc, s3.pop)
       | some m =>
         let blk := Constraint.disj (paretoAtoms obj true goals m)
         let acc' := acc ++ [(m, goals.map (fun (gi, _) => obj gi m))]
         if k ≤ 1 then (.done acc', s3.pop)                        -- abandoned at this `yield`
         else match mx with
         | .sua => paretoTake o obj mx goals fuel (k - 1) n (cd ++ [blk]) acc' s3
         | .incr => paretoTake o obj mx goals fuel (k - 1) n cd acc' (s3.add blk))
    | (e, s2) => (e.cast [], s2)

/-- `itertools.islice(pareto_optimize(goals), k)` followed by `close()` -/
def paretoPrefix (o : Oracle M) (obj : Nat → M → Int) (mx : Mixin) (goals : List (Nat × Goal))
    (fuel : Nat) (k : Nat) (s : Solver M) : Outcome (List (M × List Int)) × Solver M :=
  if goals.any (fun (_, g) => !g.supported) then (.keyErr, s)
  else if goals.isEmpty then (.emptyGoals, s.push.push.pop.pop)
  else paretoTake o obj mx goals fuel k fuel [] [] s.push

/-- `list(pareto_optimize(goals))` -/
def pareto (o : Oracle M) (obj : Nat → M → Int) (mx : Mixin) (goals : List (Nat × Goal))
    (fuel : Nat) (s : Solver M) : Outcome (List (M × List Int)) × Solver M :=
  if goals.any (fun (_, g) => !g.supported) then (.keyErr, s)      -- OptPareto.__init__, before _setup
  else if goals.isEmpty then (.emptyGoals, s.push.push.pop.pop)   -- `objs[0]` after _setup, _pareto_setup; both `finally`
  else paretoOuter o obj mx goals fuel fuel [] [] s.push

end Search

/-! ## Objectives of the derived goal kinds (what `obj i m` is for them) -/

/-- `MaxSMTGoal.term()`: sum of the weights of the satisfied soft clauses -/
def maxsmtObj {M : Type} (soft : List ((M → Bool) × Int)) (m : M) : Int :=
  (soft.map (fun (c, w) => if c m then w else 0)).sum

/-- `MinMaxGoal` term: `Max(terms)` -/
def maxOf {M : Type} (t : M → Int) (ts : List (M → Int)) (m : M) : Int :=
  ts.foldl (fun acc f => max acc (f m)) (t m)

/-- `MaxMinGoal` term: `Min(terms)` -/
def minOf {M : Type} (t : M → Int) (ts : List (M → Int)) (m : M) : Int :=
  ts.foldl (fun acc f => min acc (f m)) (t m)

end PySMT.Opt
