import PySMT.Impl.Rewritings.Partition
import PySMT.Impl.Rewritings.Shannon
import PySMT.Impl.Subst
import PySMT.Impl.Simplifier
/-!
# Model of `propagate_toplevel` and `DisjointSet` (`pysmt/rewritings.py:939-1115`)
(`do_simplify = False`, `preserve_equivalence = True`; `propagateSimp` composes it with the simplifier model of
C01 for the default `do_simplify = True`).  `formula.substitute(sigma)` is the `MGSubstituter` model of C05.

The ranking function of the disjoint set compares node ids of symbols; the model takes them
as a parameter `rank` (the harness sends the ids the real run used).  `DisjointSet.group` is
determined by `DisjointSet.leader` (the group of a leader is the set of keys it leads), so
only the leader map is kept.  `none` = the Python code raises (constants of different kinds
are compared; cannot happen on well-typed input).
-/
namespace PySMT.Rewritings

def isConstant (t : Term) : Bool := t.op.isConstant
def isSymbol : Term → Bool | .node .symbol _ _ => true | _ => false

/-- `constant_value()` of a numeric constant -/
def constNum : Term → Option Rat
  | .node .intConst _ (.i v) => some v
  | .node .realConst _ (.q v) => some v
  | .node .bvConst _ (.bv v _) => some v
  | _ => none

/-- the sign of `compare(a, b)` (`none`: the comparison raises `TypeError`) -/
def compareRank (rank : Term → Int) (a b : Term) : Option Int :=
  if a == b then some 0
  else if isConstant a && isConstant b then
    match constNum a, constNum b, a.payload, b.payload with
    | some x, some y, _, _ => some (if x < y then -1 else if x = y then 0 else 1)
    | _, _, .s x, .s y => some (if x < y then -1 else if x = y then 0 else 1)
    | _, _, _, _ => none
  else if isConstant a then some (-1)
  else if isConstant b then some 1
  else some (rank a - rank b)

abbrev Leader := List (Term × Term)

def Leader.get (l : Leader) (k : Term) : Option Term := lookupT l k

/-- a new element starts as a group of its own -/
def Leader.ensure (l : Leader) (k : Term) : Leader :=
  if (l.get k).isSome then l else l ++ [(k, k)]

/-- `DisjointSet.add(a, b)`: the groups of `a` and `b` are merged, the lower-ranked leader leads -/
def dsAdd (rank : Term → Int) (l : Leader) (a b : Term) : Option Leader :=
  let l := (l.ensure a).ensure b
  match l.get a, l.get b with
  | some la, some lb =>
    if la == lb then some l
    else do
      let c ← compareRank rank la lb
      let winner := if c > 0 then lb else la
      let loser := if c > 0 then la else lb
      pure (l.map (fun kv => if kv.2 == loser then (kv.1, winner) else kv))
  | _, _ => some l

/-- is the conjunct a definition `l = r` the propagation looks at? -/
def isDefinition : Term → Option (Term × Term)
  | .node .equals [l, r] _ =>
    if (isSymbol l || isConstant l) && (isSymbol r || isConstant r) then some (l, r) else none
  | _ => none

/-- the loop over `conjunctive_partition(formula)` -/
def buildLeader (rank : Term → Int) : List Term → Leader → Option Leader
  | [], l => some l
  | c :: cs, l =>
    match isDefinition c with
    | some (a, b) => (dsAdd rank l a b).bind (buildLeader rank cs)
    | none => buildLeader rank cs l

/-- `propagate_toplevel(t, do_simplify=False)` -/
def propagate (rank : Term → Int) (t : Term) : Option Term := do
  let l ← buildLeader rank (conjPartition t) []
  let moved := l.filter (fun kv => kv.1 != kv.2)
  if moved.any (fun kv => isConstant kv.1 && isConstant kv.2) then pure Term.ff
  else
    -- `formula.substitute(sigma)`: the full `MGSubstituter` model of C05 (rebuilds through every manager
    -- constructor: `ToReal` of a constant folds, `Div` by a constant becomes a product, …)
    let res := Subst.substG false Subst.noInterp moved t
    pure (mkAnd [res, mkAnd (moved.map (fun kv => Term.mkEq kv.1 kv.2))])

/-- the two sides of every top-level definition -/
def defTerms (t : Term) : List Term :=
  (conjPartition t).flatMap (fun c => match isDefinition c with | some (a, b) => [a, b] | none => [])

/-- the variables bound somewhere in the term -/
def boundVars : Term → List Sym
  | .node _ args p => (match p with | .qvars vs => vs | _ => []) ++ (args.map boundVars).flatten

/-- the substitution `sigma` of `propagate_toplevel`: every member that is not its own leader -/
def movedOf (rank : Term → Int) (t : Term) : Option (List (Term × Term)) :=
  (buildLeader rank (conjPartition t) []).map (fun l => l.filter (fun kv => kv.1 != kv.2))

/-- no symbol of a *representative* (a value of `sigma`) is bound anywhere in the formula: the condition
under which the substitution cannot capture (finding F51 is its failure) -/
def repsNotBound (rank : Term → Int) (t : Term) : Bool :=
  match movedOf rank t with
  | some mv => mv.all (fun kv => kv.2.fv.all (fun s => !(boundVars t).contains s))
  | none => true

/-- `propagate_toplevel(t)` with the default `do_simplify=True`: the result is simplified
(`res.simplify()`, model `Simplifier.simp` of C01) -/
def propagateSimp (rank : Term → Int) (t : Term) : Option Term :=
  (propagate rank t).map Simplifier.simp

end PySMT.Rewritings
