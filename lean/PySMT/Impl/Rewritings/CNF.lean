import PySMT.Core.Eval
import PySMT.Core.TypeOf
import PySMT.Core.FreeVars
/-!
# Model of `pysmt/rewritings.py: CNFizer` (:32-220) — C11

The Python class is a memoising `DagWalker` whose callbacks return, for every sub-formula `g`,
the pair *(literal standing for `g`, set of definitional clauses)*, or the string
`THEORY_PLACEHOLDER` for a node that is a term, not a formula.

* The definition variable of `g` is `_key_var(g)`: a `FreshSymbol()` remembered in
  `_introduced_variables[g]`.  In the model it is `E.key g` — a function of the sub-formula, so
  memoisation is invisible.  `Fresh` below is the model of `FormulaManager.new_fresh_symbol`
  (`formula.py:119-128`) that produces such a `key`; the theorems need `key` injective on the
  sub-formulas and disjoint from the input's symbols, which `Proofs/C11Fresh.lean` proves for it.
* Every negated literal is built as `self.mgr.Not(a).simplify()`.  `mgr.Not` strips a leading
  negation; `simplify` is the whole simplifier (C01), which also rewrites *inside* theory atoms.
  The model takes the simplifier as the parameter `E.simp` and mirrors `Simplifier.walk_not` on
  top of it (`negLit`).  The theorems assume what C01 proves about it (`SimpSound`); the driver
  receives the finitely many values of `simp` it needs from the harness.
* Sets of clauses / literals are lists; `convert` normalises them (`dedup`), comparison in K is
  set-of-sets.
* `convert` describes the code *after* the F33 repair (a clause all of whose literals were
  removed by the top-level clean-up makes the CNF false instead of being dropped) and `enc` the
  code after the F50 repair (`walk_or` negates with `Not(a).simplify()` like every other rule;
  it used `Not(a)`, which leaves literals such as `! True` in the clauses).
-/
namespace PySMT.CNF

abbrev Clause := List Term

/-- the two things the walker takes from its environment -/
structure Env where
  /-- `_key_var` : sub-formula ↦ definition symbol (Boolean, no parameters) -/
  key  : Term → Sym
  /-- `FNode.simplify` -/
  simp : Term → Term

/-- `FNode.is_true()` / `is_false()` -/
def isTrueC : Term → Bool
  | .node .boolConst _ (.b true) => true
  | _ => false
def isFalseC : Term → Bool
  | .node .boolConst _ (.b false) => true
  | _ => false

/-- `walk(g) == THEORY_PLACEHOLDER`: `walk_symbol`, `walk_function`, `walk_ite`, `walk_theory_op`,
`walk_constant` (`walk_theory_relation` and the connectives never answer the placeholder) -/
def ph : Term → Bool
  | .node op args p =>
    match op with
    | .and | .or | .not | .implies | .iff | .forall_ | .exists_ => false
    | .le | .lt | .equals | .bvUlt | .bvUle | .bvSlt | .bvSle
    | .strContains | .strPrefixOf | .strSuffixOf => false
    | .symbol => (match p with | .sym s => !(s.params.isEmpty && s.ret == .bool) | _ => true)
    | .function => (match p with | .sym s => !(s.ret == .bool) | _ => true)
    | .ite => (args.map ph).any id
    | .boolConst => false
    | .realConst | .intConst | .bvConst | .strConst | .algebraicConst => true
    | _ => (Term.node op args p).typeOf != some .bool

/-- `Simplifier.walk_not` applied to an already simplified argument -/
def simpNot (s : Term) : Term :=
  match s with
  | .node .boolConst _ (.b v) => Term.bool (!v)
  | .node .not [y] _ => y
  | s => Term.mkNot s

/-- `self.mgr.Not(a).simplify()` -/
def negLit (E : Env) (a : Term) : Term :=
  match a with
  | .node .not [x] _ => E.simp x
  | a => simpNot (E.simp a)

/-- `walk`: (literal, definitional clauses).  On a placeholder node the answer is junk
(`(g, [])`), it is never used. -/
def enc (E : Env) : Term → Term × List Clause
  | .node op args p =>
    let t := Term.node op args p
    let k := Term.sym (E.key t)
    match op, args with
    | .and, [a] => enc E a
    | .and, as =>
      let rs := as.map (enc E)
      (k, ((k :: rs.map (fun r => negLit E r.1)) :: rs.map (fun r => [r.1, Term.mkNot k]))
            ++ (rs.map (·.2)).flatten)
    | .or, [a] => enc E a
    | .or, as =>
      let rs := as.map (enc E)
      (k, ((Term.mkNot k :: rs.map (·.1)) :: rs.map (fun r => [k, negLit E r.1]))
            ++ (rs.map (·.2)).flatten)
    | .not, [a] =>
      let r := enc E a
      if isTrueC r.1 then (Term.ff, [])
      else if isFalseC r.1 then (Term.tt, [])
      else (negLit E r.1, r.2)
    | .implies, [a, b] =>
      let ra := enc E a
      let rb := enc E b
      (k, [[negLit E ra.1, rb.1, Term.mkNot k], [ra.1, k], [negLit E rb.1, k]] ++ ra.2 ++ rb.2)
    | .iff, [a, b] =>
      let ra := enc E a
      let rb := enc E b
      (k, [[negLit E ra.1, negLit E rb.1, k], [negLit E ra.1, rb.1, Term.mkNot k],
           [ra.1, negLit E rb.1, Term.mkNot k], [ra.1, rb.1, k]] ++ ra.2 ++ rb.2)
    | .ite, [i, th, el] =>
      if ph t then (t, [])
      else
        let ri := enc E i
        let rt := enc E th
        let re := enc E el
        (k, [[negLit E ri.1, negLit E rt.1, k], [negLit E ri.1, rt.1, Term.mkNot k],
             [ri.1, negLit E re.1, k], [ri.1, re.1, Term.mkNot k]] ++ ri.2 ++ rt.2 ++ re.2)
    | _, _ => (t, [])

/-! ## the top-level clean-up of `convert` -/

def dedup {α} [BEq α] : List α → List α
  | [] => []
  | x :: xs => if xs.contains x then dedup xs else x :: dedup xs

def sameSet (a b : Clause) : Bool := a.all (b.contains ·) && b.all (a.contains ·)

def dedupClauses : List Clause → List Clause
  | [] => []
  | c :: cs => if cs.any (sameSet c) then dedupClauses cs else c :: dedupClauses cs

/-- frozenset of frozensets -/
def norm (cs : List Clause) : List Clause := dedupClauses (cs.map dedup)

/-- one iteration of the `for clause in _cnf` loop: `none` = the clause is pruned -/
def cleanClause (E : Env) (tl : Term) (c : Clause) : Option Clause :=
  if c.any (fun l => isTrueC l || l == tl) then none
  else some (c.filter (fun l => !(l == negLit E tl) && !isFalseC l))

/-- `FALSE_CNF` -/
def falseCnf : List Clause := [[]]

/-- the body of `convert` after the walk (F33 repaired: an emptied clause makes the CNF false) -/
def finish (E : Env) (tl : Term) (cs : List Clause) : List Clause :=
  if cs.isEmpty then [[tl]]
  else if cs.any (·.isEmpty) then falseCnf
  else
    let cleaned := cs.filterMap (cleanClause E tl)
    if cleaned.any (·.isEmpty) then falseCnf else norm cleaned

/-- why `convert` raises: `walk_quantifier` (`NotImplementedError`; the walker visits every node, also those
inside theory atoms), or the root is not a formula: the walk answers the placeholder *string* and
`tl, _cnf = self.walk(formula)` fails to unpack it (`ValueError`) -/
def convertErr (t : Term) : Option String :=
  if !t.isQF then some "NotImplementedError" else if ph t then some "ValueError" else none

/-- `CNFizer.convert`; `none` = it raises (`convertErr`) -/
def convert (E : Env) (t : Term) : Option (List Clause) :=
  if t.isQF && !ph t then some (finish E (enc E t).1 (enc E t).2) else none

/-- `FormulaManager.And` / `Or` on a list -/
def mkAndN : List Term → Term
  | [] => Term.tt
  | [x] => x
  | xs => Term.mkAnd xs
def mkOrN : List Term → Term
  | [] => Term.ff
  | [x] => x
  | xs => Term.mkOr xs

def formulaOf (cs : List Clause) : Term := mkAndN (cs.map mkOrN)

/-- `CNFizer.convert_as_formula` -/
def convertAsFormula (E : Env) (t : Term) : Option Term := (convert E t).map formulaOf

/-! ## sub-formulas that receive a definition variable, in the order of the walk

`keyOrder t` lists the distinct nodes for which `_key_var` is called, in the post-order of
`DagWalker` (children left to right, a node after its children, every distinct node once) —
including connectives that sit inside theory atoms, which the CNFizer also visits. -/

def wantsKey : Term → Bool
  | .node op args p =>
    match op, args with
    | .and, [_] | .or, [_] => false
    | .and, _ | .or, _ => true
    | .implies, [_, _] | .iff, [_, _] => true
    | .ite, [_, _, _] => !ph (.node op args p)
    | _, _ => false

def postorder : Term → List Term
  | .node op args p => (args.map postorder).flatten ++ [.node op args p]

def keyOrder (t : Term) : List Term := dedup ((postorder t).filter wantsKey)

/-- the Boolean skeleton: the nodes at Boolean positions that are connectives (atoms are not entered) — the
only nodes whose definition variable can occur in the clauses; the polarity walker visits exactly these -/
def boolNodes : Term → List Term
  | .node op args p =>
    match op with
    | .and | .or | .not | .implies | .iff => (args.map boolNodes).flatten ++ [.node op args p]
    | .ite => if ph (.node op args p) then [] else (args.map boolNodes).flatten ++ [.node op args p]
    | _ => []

/-! ## model of `FormulaManager.new_fresh_symbol` (`formula.py:119-128`) -/

structure Supply where
  /-- `self.symbols` (names) -/
  used  : List String
  /-- `self._fresh_guess` -/
  guess : Nat

def fvName (n : Nat) : String := "FV" ++ toString n

/-- `while (base % count) in self.symbols: count = count + 1` — at most `|symbols|` steps -/
def firstFree (base : Nat → String) (used : List String) : Nat → Nat → Nat
  | 0, c => c
  | fuel + 1, c => if used.contains (base c) then firstFree base used fuel (c + 1) else c

/-- `new_fresh_symbol(BOOL, base)`: the symbol and the updated manager -/
def Supply.fresh (s : Supply) (base : Nat → String) (ty : Ty) : Sym × Supply :=
  let c := firstFree base s.used (s.used.length + 1) s.guess
  (⟨base c, [], ty⟩, { used := base c :: s.used, guess := c + 1 })

/-- the `_key_var` calls of one walk, in order -/
def assignKeys (base : Nat → String) : Supply → List Term → List (Term × Sym)
  | _, [] => []
  | s, g :: gs => let r := s.fresh base .bool; (g, r.1) :: assignKeys base r.2 gs

def lookupKey (tbl : List (Term × Sym)) (g : Term) : Sym :=
  match tbl.find? (fun e => e.1 == g) with
  | some e => e.2
  | none => ⟨"", [], .bool⟩

/-- the definition-variable table of a fresh `CNFizer` run on `t` in a manager in state `s` (any set of
known symbol names, any value of the fresh counter) -/
def keyTableIn (s : Supply) (t : Term) : List (Term × Sym) := assignKeys fvName s (keyOrder t)

/-- … in a manager that knows exactly the symbols of `t` (what the driver uses) -/
def keyTable (t : Term) : List (Term × Sym) := keyTableIn ⟨t.fv.map (·.name), 0⟩ t

def envIn (simp : Term → Term) (s : Supply) (t : Term) : Env := ⟨lookupKey (keyTableIn s t), simp⟩

/-- the environment of such a run -/
def stdEnv (simp : Term → Term) (t : Term) : Env := ⟨lookupKey (keyTable t), simp⟩

/-! ## advertised shape (specification, written from the property text)

A *literal* is an atom or a negated atom; an *atom* is a term of sort Bool (`typeOf = some .bool`) whose root is
not a Boolean connective, a Boolean `ite` or a Boolean constant. -/

def isBoolIte : Term → Bool
  | .node .ite [_, a, _] _ => a.typeOf == some .bool
  | _ => false

def isAtomS (t : Term) : Bool :=
  (match t.op with
   | .and | .or | .not | .implies | .iff | .boolConst | .forall_ | .exists_ => false
   | .ite => !isBoolIte t
   | _ => true) && t.typeOf == some .bool

def isLitS : Term → Bool
  | .node .not [a] _ => isAtomS a
  | t => isAtomS t

/-- a set of clauses has the advertised shape: every clause is non-empty and every member of it is a literal —
or the CNF is one of the three degenerate answers `{{True}}`, `{{False}}`, `{{}}` -/
def shapeClauses (cs : List Clause) : Bool :=
  cs == [[Term.tt]] || cs == [[Term.ff]] || cs == [[]] || cs.all (fun c => !c.isEmpty && c.all isLitS)

/-- a formula is a conjunction of disjunctions of literals (as `And`/`Or` build them: a
one-element conjunction/disjunction is the element itself, the empty ones are the constants) -/
def shapeFormula (f : Term) : Bool :=
  let clauseOK (c : Term) : Bool :=
    match c with
    | .node .or ls _ => ls.all isLitS
    | c => isLitS c
  match f with
  | .node .boolConst _ _ => true
  | .node .and cs _ => cs.all clauseOK
  | f => clauseOK f

end PySMT.CNF
