import PySMT.Impl.Rewritings.CNF
/-!
# Model of `pysmt/rewritings.py: PolarityCNFizer` (:224-374) — C11

Same walker as `CNFizer` with the memoisation key `(formula, polarity)`: `_get_children` hands
every Boolean child down with the polarity under which it occurs (`not` flips it, the left side
of `implies` flips it, both sides of `iff` and the condition of `ite` are visited under both
polarities) and does not descend into atoms.  The definition variable is still keyed by the
formula alone (`_key_var(formula)`), so the literal of a sub-formula is the same under both
polarities and equal to the one of `CNF.enc`; only the definitional clauses are split:
polarity `true` keeps `k → definition`, polarity `false` keeps `definition → k`.

`encP E g pol` = `memoization[(g, pol)]`.  Atoms are handled by the inherited callbacks.
After the F19 repair `_get_children` accepts every Boolean atom (it raised `AssertionError` on a
Boolean array select).
-/
namespace PySMT.PolCNF
open PySMT.CNF

/-- `memoization[(g, pol)]`: (literal, clauses) -/
def encP (E : Env) : Term → Bool → Term × List Clause
  | .node op args p => fun pol =>
    let t := Term.node op args p
    let k := Term.sym (E.key t)
    match op, args with
    | .and, [a] => encP E a pol
    | .and, as =>
      let rs := as.map (fun a => encP E a pol)
      (k, (if pol then rs.map (fun r => [r.1, Term.mkNot k])
           else [k :: rs.map (fun r => negLit E r.1)]) ++ (rs.map (·.2)).flatten)
    | .or, [a] => encP E a pol
    | .or, as =>
      let rs := as.map (fun a => encP E a pol)
      (k, (if pol then [Term.mkNot k :: rs.map (·.1)]
           else rs.map (fun r => [k, negLit E r.1])) ++ (rs.map (·.2)).flatten)
    | .not, [a] =>
      let r := encP E a (!pol)
      if isTrueC r.1 then (Term.ff, [])
      else if isFalseC r.1 then (Term.tt, [])
      else (negLit E r.1, r.2)
    | .implies, [a, b] =>
      let ra := encP E a (!pol)
      let rb := encP E b pol
      (k, (if pol then [[negLit E ra.1, rb.1, Term.mkNot k]]
           else [[ra.1, k], [negLit E rb.1, k]]) ++ ra.2 ++ rb.2)
    | .iff, [a, b] =>
      let ap := encP E a pol
      let bp := encP E b pol
      let an := encP E a (!pol)
      let bn := encP E b (!pol)
      (k, [[negLit E ap.1, negLit E bp.1, k], [negLit E ap.1, bp.1, Term.mkNot k],
           [ap.1, negLit E bp.1, Term.mkNot k], [ap.1, bp.1, k]] ++ ap.2 ++ an.2 ++ bp.2 ++ bn.2)
    | .ite, [i, th, el] =>
      if ph t then (t, [])
      else
        let ip := encP E i pol
        let i_n := encP E i (!pol)
        let rt := encP E th pol
        let re := encP E el pol
        (k, (if pol then [[negLit E ip.1, rt.1, Term.mkNot k], [ip.1, re.1, Term.mkNot k]]
             else [[negLit E ip.1, negLit E rt.1, k], [ip.1, negLit E re.1, k]])
            ++ ip.2 ++ i_n.2 ++ rt.2 ++ re.2)
    | _, _ => (t, [])

/-- a quantifier is reached by the walk (`walk_quantifier` raises): quantifiers hidden inside
atoms are not visited -/
def boolQuant : Term → Bool
  | .node op args p =>
    match op with
    | .forall_ | .exists_ => true
    | .and | .or | .not | .implies | .iff => (args.map boolQuant).any id
    | .ite => !ph (.node op args p) && (args.map boolQuant).any id
    | _ => false

/-- `PolarityCNFizer.convert` (the inherited `convert` on the polarity walk, root polarity `True`) -/
def convert (E : Env) (t : Term) : Option (List Clause) :=
  if boolQuant t || ph t then none else some (finish E (encP E t true).1 (encP E t true).2)

/-- why `convert` raises: a quantifier at a Boolean position (`NotImplementedError`), or the root is not a formula —
then either `_get_children` rejects it (`AssertionError`: constants, arithmetic / bit-vector / array-store terms, a
term-level `ite`) or the walk answers the placeholder string and unpacking it fails (`ValueError`: symbols,
applications, string operators, array reads) -/
def convertErr (t : Term) : Option String :=
  if boolQuant t then some "NotImplementedError"
  else if ph t then
    (match t.op with
     | .symbol | .function | .arraySelect | .strLength | .strConcat | .strIndexOf | .strReplace | .strSubstr
     | .strCharAt | .strToInt | .intToStr => some "ValueError"
     | _ => some "AssertionError")
  else none

def convertAsFormula (E : Env) (t : Term) : Option Term := (convert E t).map formulaOf

/-- `_key_var` is called on the key-wanting nodes of the Boolean skeleton `CNF.boolNodes` (atoms are not entered) -/
def keyOrder (t : Term) : List Term := dedup ((boolNodes t).filter wantsKey)

def keyTableIn (s : Supply) (t : Term) : List (Term × Sym) := assignKeys fvName s (keyOrder t)

def keyTable (t : Term) : List (Term × Sym) := keyTableIn ⟨t.fv.map (·.name), 0⟩ t

def envIn (simp : Term → Term) (s : Supply) (t : Term) : Env := ⟨lookupKey (keyTableIn s t), simp⟩

def stdEnv (simp : Term → Term) (t : Term) : Env := ⟨lookupKey (keyTable t), simp⟩

end PySMT.PolCNF
