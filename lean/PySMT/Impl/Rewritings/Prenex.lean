import PySMT.Impl.Rewritings.Shannon
/-!
# Model of `PrenexNormalizer` (`pysmt/rewritings.py:535-702`)

The walker returns, for a Boolean formula, a pair (quantifier blocks innermost first,
quantifier-free matrix) and `None` for a non-Boolean term.  Bound variables that clash with
a variable already reserved in the enclosing conjunction/disjunction are renamed to fresh
symbols.  Fresh symbols come from an explicit supply `fresh : Nat → String` and a counter
threaded through the walk (`FormulaManager.new_fresh_symbol` picks names unused in the
environment; the theorems assume the supply is disjoint from the names of the input).
Variable *sets* are duplicate-free lists.  `none` also stands for the runs in which the
Python code raises because an argument in a Boolean position produced `None`.
-/
namespace PySMT.Rewritings

/-- one quantifier block: `(is_exists, variables)` -/
abbrev QBlock := Bool × List Sym
/-- what `PrenexNormalizer.walk` returns (`none` = `None`) -/
abbrev PRes := Option (List QBlock × Term)

/-- `dict((v, FreshSymbol(v.symbol_type())) for v in needs_rename)`: the `i`-th variable gets the
fresh name number `k + i` -/
def renFrom (fresh : Nat → String) : List Sym → Nat → List (Sym × Sym)
  | [], _ => []
  | v :: vs, k => (v, Sym.var (fresh k) v.ret) :: renFrom fresh vs (k + 1)

/-- the loop over the quantifier blocks of one argument of `walk_conj_disj`; returns the
blocks to append, the new reserved set, the (renamed) matrix and the supply counter -/
def mergeBlocks (fresh : Nat → String) :
    List QBlock → List Sym → Term → Nat → List QBlock × List Sym × Term × Nat
  | [], res, m, n => ([], res, m, n)
  | (q, vs) :: rest, res, m, n =>
    let clash := vs.filter (fun v => res.contains v)
    let keep := vs.filter (fun v => !res.contains v)
    let ren := renFrom fresh clash n
    let m' := if clash.isEmpty then m
              else substT (ren.map (fun vw => (Term.sym vw.1, Term.sym vw.2))) m
    let new := keep ++ ren.map (·.2)
    let r := mergeBlocks fresh rest (res ++ new) m' (n + clash.length)
    ((q, new) :: r.1, r.2.1, r.2.2.1, r.2.2.2)

/-- the loop over the arguments of `walk_conj_disj` -/
def mergeArgs (fresh : Nat → String) :
    List (List QBlock × Term) → List Sym → Nat → List QBlock × List Term × Nat
  | [], _, n => ([], [], n)
  | (qs, m) :: rest, res, n =>
    let r := mergeBlocks fresh qs res m n
    let r' := mergeArgs fresh rest r.2.1 r.2.2.2
    (r.1 ++ r'.1, r.2.2.1 :: r'.2.1, r'.2.2)

/-- `walk_conj_disj(formula, args)`; `fvs` = `formula.get_free_variables()` -/
def conjDisj (fresh : Nat → String) (isAnd : Bool) (fvs : List Sym)
    (args : List (List QBlock × Term)) (n : Nat) : (List QBlock × Term) × Nat :=
  let r := mergeArgs fresh args fvs n
  ((r.1, if isAnd then mkAnd r.2.1 else mkOr r.2.1), r.2.2)

/-- `walk_not(_, [arg])` -/
def prenexNot (r : List QBlock × Term) : List QBlock × Term :=
  (r.1.map (fun qv => (!qv.1, qv.2)), mkNot r.2)

/-- `walk_implies(Implies(a, b), [ra, rb])`; `fvs` = free variables of `Or(Not(a), b)` -/
def prenexImplies (fresh : Nat → String) (fvs : List Sym) (ra rb : List QBlock × Term) (n : Nat) :
    (List QBlock × Term) × Nat :=
  conjDisj fresh false fvs [prenexNot ra, rb] n

/-- all optional results present? -/
def allSome {α} : List (Option α) → Option (List α)
  | [] => some []
  | some a :: rest => (allSome rest).map (a :: ·)
  | none :: _ => none

/-- `set(formula.quantifier_vars())`: one copy of every variable (the last occurrence is kept; the
order inside a block is immaterial and not compared) -/
def dedupSyms : List Sym → List Sym
  | [] => []
  | x :: xs => if xs.contains x then dedupSyms xs else x :: dedupSyms xs

/-- the blocks of a prefix bind … -/
def boundOf (qs : List QBlock) : List Sym := (qs.map (·.2)).flatten

/-- `walk_quantifier`: the variables not shadowed by an inner block form a new outermost block -/
def prenexQuant (isExists : Bool) (vs : List Sym) (rb : List QBlock × Term) : List QBlock × Term :=
  let nq := (dedupSyms vs).filter (fun v => !(boundOf rb.1).contains v)
  if nq.isEmpty then rb else (rb.1 ++ [(isExists, nq)], rb.2)

/-- the `walk_*` function of a node, given the results `rs` for its children and the supply
counter `n` after them -/
def prenexNode (fresh : Nat → String) (op : Op) (args : List Term) (p : Payload) (rs : List PRes) (n : Nat) :
    PRes × Nat :=
  match op, args, p, rs with
  | .symbol, _, .sym s, _ =>
    (if s.ret == .bool && s.params.isEmpty then some ([], .node op args p) else none, n)
  | .boolConst, _, _, _ => (some ([], .node op args p), n)
  | .and, _, _, rs =>
    (match allSome rs with
     | some as => let r := conjDisj fresh true (Term.node op args p).fv as n; (some r.1, r.2)
     | none => (none, n))
  | .or, _, _, rs =>
    (match allSome rs with
     | some as => let r := conjDisj fresh false (Term.node op args p).fv as n; (some r.1, r.2)
     | none => (none, n))
  | .not, [_], _, [some ra] => (some (prenexNot ra), n)
  | .implies, [a, b], _, [some ra, some rb] =>
    let r := prenexImplies fresh (a.fv ++ b.fv) ra rb n
    (some r.1, r.2)
  | .iff, [a, b], _, [some ra, some rb] =>
    let i1 := prenexImplies fresh (a.fv ++ b.fv) ra rb n
    let i2 := prenexImplies fresh (b.fv ++ a.fv) rb ra i1.2
    let r := conjDisj fresh true (a.fv ++ b.fv) [i1.1, i2.1] i2.2
    (some r.1, r.2)
  | .ite, [c, a, b], _, [some rc, some ra, some rb] =>
    let i1 := prenexImplies fresh (c.fv ++ a.fv) rc ra n
    let i2 := prenexImplies fresh (c.fv ++ b.fv) (prenexNot rc) rb i1.2
    let r := conjDisj fresh true (c.fv ++ a.fv ++ b.fv) [i1.1, i2.1] i2.2
    (some r.1, r.2)
  | .function, _, .sym f, _ => (if f.ret == .bool then some ([], .node op args p) else none, n)
  | .forall_, [_], .qvars vs, [some rb] => (some (prenexQuant false vs rb), n)
  | .exists_, [_], .qvars vs, [some rb] => (some (prenexQuant true vs rb), n)
  | .equals, _, _, _ | .le, _, _, _ | .lt, _, _, _ | .bvUlt, _, _, _ | .bvUle, _, _, _
  | .bvSlt, _, _, _ | .bvSle, _, _, _ | .strContains, _, _, _ | .strPrefixOf, _, _, _
  | .strSuffixOf, _, _, _ => (some ([], .node op args p), n)
  | .arraySelect, _, _, _ =>
    -- repaired behaviour: a Boolean array select is an atom
    (if (Term.node op args p).typeOf == some .bool then some ([], .node op args p) else none, n)
  | _, _, _, _ => (none, n)

mutual
/-- `PrenexNormalizer.walk` -/
def prenexW (fresh : Nat → String) : Term → Nat → PRes × Nat
  | .node op args p, n =>
    let rs := prenexL fresh args n
    prenexNode fresh op args p rs.1 rs.2
/-- the results for the children, left to right, threading the supply counter -/
def prenexL (fresh : Nat → String) : List Term → Nat → List PRes × Nat
  | [], n => ([], n)
  | a :: as, n =>
    let r := prenexW fresh a n
    let rs := prenexL fresh as r.2
    (r.1 :: rs.1, rs.2)
end

/-- `PrenexNormalizer.normalize`: wrap the matrix, innermost block first -/
def wrapBlocks (qs : List QBlock) (m : Term) : Term :=
  qs.foldl (fun r qv => if qv.1 then mkExists qv.2 r else mkForall qv.2 r) m

/-- `prenex_normal_form(t)`; `none` when the Python code raises: a non-Boolean input, or a theory
operator without a Boolean reading in a Boolean position (cannot happen on well-typed input:
`prenex_total`).  A quantifier *inside a theory atom* does not make the walk fail: the atom is returned
unchanged, in Python and in the model alike (the result is then not in prenex form, which is why
`prenex_shape` assumes `quantInBoolPos`). -/
def prenex (fresh : Nat → String) (t : Term) : Option Term :=
  (prenexW fresh t 0).1.map (fun r => wrapBlocks r.1 r.2)

/-- strip the quantifier prefix -/
def stripPrefix : Term → Term
  | .node .forall_ [b] _ => stripPrefix b
  | .node .exists_ [b] _ => stripPrefix b
  | t => t

/-- **Advertised shape of `prenex_normal_form`**: a quantifier prefix over a quantifier-free matrix -/
def isPrenex (t : Term) : Bool := (stripPrefix t).isQF

/-- the input fragment: every quantifier is in a Boolean position (reachable from the root
through Boolean connectives, Boolean `ite` and quantifiers only) -/
def quantInBoolPos : Term → Bool
  | .node op args p =>
    match op with
    | .and | .or | .not | .implies | .iff | .forall_ | .exists_ => (args.map quantInBoolPos).all id
    | .ite =>
      if (Term.node op args p).typeOf == some .bool then (args.map quantInBoolPos).all id
      else (Term.node op args p).isQF
    | _ => (Term.node op args p).isQF

/-- every symbol occurring in the term: free, bound, applied -/
def allSyms : Term → List Sym
  | .node _ args p =>
    (match p with | .sym s => [s] | .qvars vs => vs | _ => []) ++ (args.map allSyms).flatten

/-- duplicate-free list of bound variables -/
def nodupB : List Sym → Bool
  | [] => true
  | x :: xs => !xs.contains x && nodupB xs

/-- every binder of the term binds plain (non-function) symbols -/
def plainBinders : Term → Bool
  | .node _ args p =>
    (args.map plainBinders).all id &&
      (match p with | .qvars vs => vs.all (fun v => v.params.isEmpty) | _ => true)

end PySMT.Rewritings
