import PySMT.Impl.Rewritings.CNF
/-!
# Model of `pysmt/rewritings.py: Ackermannizer` (:847-934) — C11

`do_ackermannization(f)`:

1. `_fill_maps_and_sub` — an `IdentityDagWalker` whose `walk_function` answers the fresh constant
   `_terms_dict[app]` (`FreshSymbol(return type, "ack%d")`, one per distinct application) and
   records the argument tuple in `_funs_to_args[f]`; every other node is rebuilt with the
   rewritten children.  Model: `sub E` with `E.key app` the constant of `app`.
2. `_get_equality_implications` — for every function symbol and every unordered pair of recorded
   applications `f(a₁…aₙ)`, `f(b₁…bₙ)`:
   `And_i EqualsOrIff(aᵢ', bᵢ') → EqualsOrIff(c_{f(a)}, c_{f(b)})` where `aᵢ'` is the
   *rewritten* argument (after the F20 repair; the code used to rewrite an argument only when
   it was itself an application, so `f(g(x)+1)` kept `g(x)`).
3. the result is `And(And(implications), rewritten f)`, or just the rewritten formula when there
   is no implication.

Python sets are lists without duplicates here; the order of pairs and of conjuncts is not
modelled (K compares modulo AC of `and` and symmetry of `=`/`iff`, both justified in
`Proofs/C11Ack.lean`).
-/
namespace PySMT.Ackermann
open PySMT.CNF (dedup mkAndN)

structure Env where
  /-- `_terms_dict` : application ↦ fresh constant (no parameters, sort = return sort) -/
  key : Term → Sym

/-- the rewritten formula (`IdentityDagWalker` + `walk_function`) -/
def sub (E : Env) : Term → Term
  | .node op args p =>
    match op with
    | .function => Term.sym (E.key (.node op args p))
    | _ => .node op (args.map (sub E)) p

/-- application sub-terms in the order `walk_function` sees them (post-order, with repetitions) -/
def apps : Term → List Term
  | .node op args p =>
    (args.map apps).flatten ++ (if op == .function then [.node op args p] else [])

/-- keys of `_terms_dict` -/
def appsD (t : Term) : List Term := dedup (apps t)

/-- `itertools.combinations(l, 2)` -/
def pairs {α} : List α → List (α × α)
  | [] => []
  | x :: xs => xs.map (fun y => (x, y)) ++ pairs xs

/-- `FormulaManager.EqualsOrIff` -/
def eqOrIff (a b : Term) : Term :=
  if a.typeOf == some .bool then Term.mkIff a b else Term.mkEq a b

/-- `_generate_implication` -/
def implication (E : Env) (a b : Term) : Term :=
  Term.mkImplies
    (mkAndN (dedup (List.zipWith (fun x y => eqOrIff (sub E x) (sub E y)) a.args b.args)))
    (eqOrIff (Term.sym (E.key a)) (Term.sym (E.key b)))

/-- applications of the same function symbol (`_funs_to_args` is keyed by the function name) -/
def sameFn (a b : Term) : Bool := a.payload == b.payload

/-- `_get_equality_implications` -/
def implications (E : Env) (t : Term) : List Term :=
  dedup (((pairs (appsD t)).filter (fun ab => sameFn ab.1 ab.2)).map (fun ab => implication E ab.1 ab.2))

/-- `do_ackermannization` -/
def ack (E : Env) (t : Term) : Term :=
  let imps := implications E t
  if imps.isEmpty then sub E t else Term.mkAnd [mkAndN imps, sub E t]

/-! ## fresh constants: `FreshSymbol(typename = return type, template = "ack%d")` -/

def ackName (n : Nat) : String := "ack" ++ toString n

def retTy : Term → Ty
  | .node _ _ (.sym f) => f.ret
  | _ => .bool

def assignConsts : CNF.Supply → List Term → List (Term × Sym)
  | _, [] => []
  | s, g :: gs => let r := s.fresh ackName (retTy g); (g, r.1) :: assignConsts r.2 gs

/-- `_terms_dict` of a fresh `Ackermannizer` run on `t` in a manager that knows exactly the
symbols of `t` -/
def constTableIn (s : CNF.Supply) (t : Term) : List (Term × Sym) := assignConsts s (appsD t)

def constTable (t : Term) : List (Term × Sym) := constTableIn ⟨t.fv.map (·.name), 0⟩ t

def envIn (s : CNF.Supply) (t : Term) : Env := ⟨CNF.lookupKey (constTableIn s t)⟩

def stdEnv (t : Term) : Env := ⟨CNF.lookupKey (constTable t)⟩

/-! ## advertised shape (specification): no uninterpreted-function application -/

def noApp (t : Term) : Bool := t.subterms.all (fun s => s.op != .function)

end PySMT.Ackermann
