import PySMT.Impl.Rewritings.NNF
/-!
# Model of `AIGer` (`pysmt/rewritings.py:708-777`)

A `DagWalker` over *all* children; relations, theory operators, constants, symbols and
function applications are returned unchanged (`walk_nop` ignores the rewritten arguments),
so only the Boolean skeleton is rebuilt.  `walk_ite` rewrites Boolean `ite` only (the test
is on the type of the *then* branch).
-/
namespace PySMT.Rewritings

def aig : Term → Term
  | .node .and as _ => mkAnd (as.map aig)
  | .node .or as _ => mkNot (mkAnd (as.map (fun a => mkNot (aig a))))
  | .node .not [a] _ => mkNot (aig a)
  | .node .implies [a, b] _ => mkNot (mkAnd [aig a, mkNot (aig b)])
  | .node .iff [a, b] _ =>
    mkAnd [mkNot (mkAnd [aig a, mkNot (aig b)]), mkNot (mkAnd [aig b, mkNot (aig a)])]
  | .node .ite [c, a, b] p =>
    if a.typeOf == some .bool then
      mkAnd [mkNot (mkAnd [aig c, mkNot (aig a)]), mkNot (mkAnd [mkNot (aig c), mkNot (aig b)])]
    else .node .ite [c, a, b] p
  | .node .forall_ [b] (.qvars vs) => mkForall vs (aig b)
  | .node .exists_ [b] (.qvars vs) => mkExists vs (aig b)
  | t => t

/-- **Advertised shape of `aig`**: above the atoms only `and` and `not` (quantifiers are
kept, `AIGer.walk_quantifier`). -/
def isAIG : Term → Bool
  | .node .and as _ => (as.map isAIG).all id
  | .node .not [a] _ => isAIG a
  | .node .forall_ [b] _ => isAIG b
  | .node .exists_ [b] _ => isAIG b
  | .node op _ _ => !isConnective op

end PySMT.Rewritings
