import PySMT.Impl.Rewritings.Shannon
/-!
# Model of `TimesDistributor` (`pysmt/rewritings.py:782-842`)

An `IdentityDagWalker` with three rules: a product with a sum among its (rewritten)
arguments becomes the sum of the products of the Cartesian product; sums are flattened one
level; `a - b` becomes `a + (-1)*b` (distributed over the summands of `b`).
-/
namespace PySMT.Rewritings

def isPlus : Term → Bool | .node .plus _ _ => true | _ => false

/-- summands of a (rewritten) argument: `a.args()` if `a.is_plus()` else `[a]` -/
def summands : Term → List Term
  | .node .plus as _ => as
  | t => [t]

/-- `itertools.product(*ls)` -/
def cartesian {α} : List (List α) → List (List α)
  | [] => [[]]
  | l :: ls => l.flatMap (fun x => (cartesian ls).map (x :: ·))

/-- `TimesDistributor.walk_times(_, args)` -/
def walkTimes (args : List Term) : Term :=
  if args.any isPlus then mkPlus ((cartesian (args.map summands)).map mkTimes)
  else mkTimes args

/-- `TimesDistributor.walk_plus(_, args)` -/
def walkPlus (args : List Term) : Term := mkPlus (args.flatMap summands)

/-- `TimesDistributor.walk_minus(formula, [lhs, rhs])`; `real` = the type of `formula` is Real -/
def walkMinus (real : Bool) (lhs rhs : Term) : Term :=
  let m1 := if real then Term.real (-1) else Term.int (-1)
  mkPlus (summands lhs ++ (summands rhs).map (fun r => mkTimes [m1, r]))

/-- `TimesDistributor(env).walk(t)` -/
def timesDistr : Term → Term
  | .node .times args _ => walkTimes (args.map timesDistr)
  | .node .plus args _ => walkPlus (args.map timesDistr)
  | .node .minus [a, b] p =>
    walkMinus ((Term.node .minus [a, b] p).typeOf == some .real) (timesDistr a) (timesDistr b)
  | .node op args p => rebuild op (args.map timesDistr) p

/-- no product has a sum among its arguments, no sum has a sum among its arguments, no
subtraction is left (the advertised normal form) -/
def timesNormal : Term → Bool
  | .node op args _ =>
    (args.map timesNormal).all id &&
    (match op with
     | .times => !args.any isPlus
     | .plus => !args.any isPlus
     | .minus => false
     | _ => true)

end PySMT.Rewritings
