import PySMT.Impl.Rewritings.NNF
/-!
# Model of `conjunctive_partition` / `disjunctive_partition` (`pysmt/rewritings.py:1024-1057`)

The generators pop from the end of a work list, expand `And` (resp. `Or`) nodes and yield
every other node the first time it is met.  On a tree this is: the non-`And` leaves of the
maximal `And`-tree at the root, visited last argument first, first occurrences only.
-/
namespace PySMT.Rewritings

/-- leaves of the top-level `and`-tree in the order the work list visits them -/
def conjLeaves : Term → List Term
  | .node .and as _ => (as.reverse.map conjLeaves).flatten
  | t => [t]

def disjLeaves : Term → List Term
  | .node .or as _ => (as.reverse.map disjLeaves).flatten
  | t => [t]

/-- first occurrences only (the `seen` set) -/
def dedup : List Term → List Term
  | [] => []
  | x :: xs => x :: (dedup xs).filter (fun y => y != x)

/-- `list(conjunctive_partition(t))` -/
def conjPartition (t : Term) : List Term := dedup (conjLeaves t)

/-- `list(disjunctive_partition(t))` -/
def disjPartition (t : Term) : List Term := dedup (disjLeaves t)

def isAnd : Term → Bool | .node .and _ _ => true | _ => false
def isOr : Term → Bool | .node .or _ _ => true | _ => false

end PySMT.Rewritings
