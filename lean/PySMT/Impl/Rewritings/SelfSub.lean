import PySMT.Impl.Rewritings.Shannon
/-!
# Model of `SelfSubstitutionQuantifierEliminator` (`pysmt/solvers/qelim.py:113-153`)

`∃y. f ≡ f[y := f[y := ⊤]]`, `∀y. f ≡ f[y := f[y := ⊥]]`, one bound variable at a time,
last variable first (`for v in qvars[::-1]`).
-/
namespace PySMT.Rewritings

/-- one step of `self_substitute` -/
def selfSubStep (token : Term) (v : Sym) (f : Term) : Term :=
  substT [(Term.sym v, substT [(Term.sym v, token)] f)] f

/-- `self_substitute(f, qvars, token)` -/
def selfSubVars (token : Term) (vs : List Sym) (f : Term) : Term :=
  vs.foldr (selfSubStep token) f

/-- `SelfSubstitutionQuantifierEliminator.eliminate_quantifiers` -/
def selfSub : Term → Term
  | .node .forall_ [b] (.qvars vs) => selfSubVars Term.ff vs (selfSub b)
  | .node .exists_ [b] (.qvars vs) => selfSubVars Term.tt vs (selfSub b)
  | .node op args p => rebuild op (args.map selfSub) p

end PySMT.Rewritings
