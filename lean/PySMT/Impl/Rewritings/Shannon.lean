import PySMT.Impl.Rewritings.NNF
import PySMT.Core.FreeVars
/-!
# Model of `ShannonQuantifierEliminator` (`pysmt/solvers/qelim.py:70-111`), together with the
pieces of pySMT it is built from:

* `rebuild` — `IdentityDagWalker.walk_*` (`pysmt/walkers/identitydag.py`): the node is
  re-created through the `FormulaManager` constructor of its operator.  On nodes the manager
  built itself this is the identity except where an argument changed: `Not` strips a double
  negation, `And`/`Or` of one argument is that argument, an empty binder disappears.
* `substT` — `MGSubstituter.substitute` (`pysmt/substituter.py`): a node that is a key of the
  map is replaced (children are not looked at), below a quantifier the keys that mention a
  bound variable are dropped, everything else is rebuilt.  No renaming of bound variables
  (pySMT does none).
* `allAssignments` — `pysmt.utils.all_assignments` (`itertools` power-set order).
-/
namespace PySMT.Rewritings

/-- `IdentityDagWalker.walk_<op>(formula, args)` -/
def rebuild (op : Op) (args : List Term) (p : Payload) : Term :=
  match op, args, p with
  | .not, [a], _ => mkNot a
  | .and, as, _ => mkAnd as
  | .or, as, _ => mkOr as
  | .forall_, [b], .qvars vs => mkForall vs b
  | .exists_, [b], .qvars vs => mkExists vs b
  | op, args, p => .node op args p

/-- `dict.get` (keys are distinct) -/
def lookupT (σ : List (Term × Term)) (t : Term) : Option Term :=
  (σ.find? (fun kv => kv.1 == t)).map (·.2)

/-- the substitution map used below a binder of `vs` -/
def dropBound (σ : List (Term × Term)) (vs : List Sym) : List (Term × Term) :=
  σ.filter (fun kv => kv.1.fv.all (fun m => !vs.contains m))

/-- the map used for the children of a node (`Substituter._push_with_children_to_stack`) -/
def bodyMap (σ : List (Term × Term)) (op : Op) (p : Payload) : List (Term × Term) :=
  match op, p with
  | .forall_, .qvars vs => dropBound σ vs
  | .exists_, .qvars vs => dropBound σ vs
  | _, _ => σ

/-- `MGSubstituter(env).substitute(t, σ)` -/
def substT (σ : List (Term × Term)) : Term → Term
  | .node op args p =>
    match lookupT σ (.node op args p) with
    | some r => r
    | none => rebuild op (args.map (substT (bodyMap σ op p))) p

/-- `itertools.combinations(l, r)` -/
def combinations {α} : List α → Nat → List (List α)
  | _, 0 => [[]]
  | [], _ + 1 => []
  | x :: xs, r + 1 => (combinations xs r).map (x :: ·) ++ combinations xs (r + 1)

/-- `pysmt.utils.powerset` -/
def powerset {α} (l : List α) : List (List α) :=
  (List.range (l.length + 1)).flatMap (combinations l)

/-- `pysmt.utils.all_assignments(vs, env)` as substitution maps -/
def allAssignments (vs : List Sym) : List (List (Term × Term)) :=
  (powerset vs).map (fun S => vs.map (fun v => (Term.sym v, Term.bool (S.contains v))))

/-- `ShannonQuantifierEliminator.eliminate_quantifiers` (when it does not raise) -/
def shannon : Term → Term
  | .node .forall_ [b] (.qvars vs) =>
    mkAnd ((allAssignments vs).map (fun σ => substT σ (shannon b)))
  | .node .exists_ [b] (.qvars vs) =>
    mkOr ((allAssignments vs).map (fun σ => substT σ (shannon b)))
  | .node op args p => rebuild op (args.map shannon) p

/-- every binder of `t` binds Boolean variables only (otherwise
`_assert_vars_boolean` raises `InternalSolverError`) -/
def boolQuants : Term → Bool
  | .node op args p =>
    (args.map boolQuants).all id &&
    (match op, p with
     | .forall_, .qvars vs => vs.all (fun v => v.ret == .bool && v.params.isEmpty)
     | .exists_, .qvars vs => vs.all (fun v => v.ret == .bool && v.params.isEmpty)
     | _, _ => true)

end PySMT.Rewritings
