import PySMT.Core.Term
import PySMT.Core.TypeOf
/-!
# Model of `NNFizer` (`pysmt/rewritings.py:379-531`) and of the `FormulaManager`
constructors the rewriters of this directory call (`pysmt/formula.py`: `Not`, `And`, `Or`,
`ForAll`, `Exists`, `Plus`, `Times`).

`NNFizer` is a `DagWalker` whose `_get_children` returns, for a negated node, the *negated*
children (`mgr.Not(x)`), so that `walk(Not(s))` never sees `s` itself.  On trees this is a
recursion with a polarity: `nnfP true t = walk(t)`, `nnfP false t = walk(mgr.Not(t))`
(`mgr.Not(Not(u)) = u`, hence `nnfP false (Not u) = walk(u) = nnfP true u`).
Theory atoms (everything that is not a Boolean connective, a Boolean `ite` or a quantifier)
are left untouched.  The model describes the *repaired* behaviour of findings F18 (negated
Boolean `ite`) and F19 (Boolean array select is an atom).
-/
namespace PySMT.Rewritings

/-- `FormulaManager.Not`: a double negation is never built -/
def mkNot : Term → Term
  | .node .not [a] _ => a
  | t => .node .not [t] .none

/-- `FormulaManager.And` -/
def mkAnd : List Term → Term
  | [] => Term.tt
  | [a] => a
  | as => .node .and as .none

/-- `FormulaManager.Or` -/
def mkOr : List Term → Term
  | [] => Term.ff
  | [a] => a
  | as => .node .or as .none

/-- `FormulaManager.ForAll`: an empty binder is dropped -/
def mkForall (vs : List Sym) (b : Term) : Term :=
  if vs.isEmpty then b else .node .forall_ [b] (.qvars vs)

/-- `FormulaManager.Exists` -/
def mkExists (vs : List Sym) (b : Term) : Term :=
  if vs.isEmpty then b else .node .exists_ [b] (.qvars vs)

/-- `FormulaManager.Plus` (on a non-empty list) -/
def mkPlus : List Term → Term
  | [a] => a
  | as => .node .plus as .none

/-- `FormulaManager.Times` (on a non-empty list) -/
def mkTimes : List Term → Term
  | [a] => a
  | as => .node .times as .none

/-- `walk` of `NNFizer` with the polarity made explicit (see the header). -/
def nnfP : Bool → Term → Term
  | pos, .node .not [a] _ => nnfP (!pos) a
  | pos, .node .and as _ =>
    if pos then mkAnd (as.map (nnfP true)) else mkOr (as.map (nnfP false))
  | pos, .node .or as _ =>
    if pos then mkOr (as.map (nnfP true)) else mkAnd (as.map (nnfP false))
  | pos, .node .implies [a, b] _ =>
    if pos then mkOr [nnfP false a, nnfP true b] else mkAnd [nnfP true a, nnfP false b]
  | pos, .node .iff [a, b] _ =>
    if pos then mkAnd [mkOr [nnfP false a, nnfP true b], mkOr [nnfP false b, nnfP true a]]
    else mkOr [mkAnd [nnfP true a, nnfP false b], mkAnd [nnfP true b, nnfP false a]]
  | pos, .node .ite [c, a, b] _ =>
    if pos then mkAnd [mkOr [nnfP false c, nnfP true a], mkOr [nnfP true c, nnfP true b]]
    else mkAnd [mkOr [nnfP false c, nnfP false a], mkOr [nnfP true c, nnfP false b]]
  | pos, .node .forall_ [b] (.qvars vs) =>
    if pos then mkForall vs (nnfP true b) else mkExists vs (nnfP false b)
  | pos, .node .exists_ [b] (.qvars vs) =>
    if pos then mkExists vs (nnfP true b) else mkForall vs (nnfP false b)
  | pos, t => if pos then t else .node .not [t] .none

/-- `pysmt.rewritings.nnf` -/
def nnf (t : Term) : Term := nnfP true t

/-- Is `op` one of the node types `NNFizer` looks into (a Boolean connective, `ite` in a
Boolean position, a quantifier)?  Everything else is an atom. -/
def isConnective : Op → Bool
  | .and | .or | .not | .implies | .iff | .ite | .forall_ | .exists_ => true
  | _ => false

/-- **Advertised shape of `nnf`**: only `and`/`or`/quantifiers above the literals, and a
negation only directly on an atom. -/
def isNNF : Term → Bool
  | .node .and as _ => (as.map isNNF).all id
  | .node .or as _ => (as.map isNNF).all id
  | .node .forall_ [b] _ => isNNF b
  | .node .exists_ [b] _ => isNNF b
  | .node .not [.node op _ _] _ => !isConnective op
  | .node op _ _ => !isConnective op

end PySMT.Rewritings
