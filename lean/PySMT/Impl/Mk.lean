import PySMT.Core.Term
import PySMT.Core.TypeOf
/-!
# `Impl.Mk` — model of the constructors of `pysmt/formula.py: FormulaManager` on `Term`
(+ `shortcuts.Abs`, + the infix layer of `pysmt/fnode.py:689-964`)

Every public constructor is a function into `Except Err Term`:

* `create` is `create_node` (formula.py:95-106): build the node, run the type checker
  (`Core.TypeOf.typeOfNode`, the model of `SimpleTypeChecker`) on it — the children are
  existing formulas, hence already checked.
* primitive constructors perform their normalisations (`Not(Not x) = x`, 0/1-ary `And/Or/
  Plus/Times`, `Div` by a real constant, `ToReal` of a constant, empty binder lists,
  0-ary `Function`, `Array` dropping default-valued entries);
* derived constructors are rewritten *exactly as in the Python code* (same argument
  order, same association order, same recursion scheme).

What is *not* modelled: the memoisation tables and symbol table (C04: `Impl.Manager`),
gmpy2 code paths, the string forms of `Real`, and non-integer exponents of `Pow`
(`Err.unmodelled`).

Python-level argument values (`int`, `bool`, `Fraction`, `None`, `slice`, `str`) are
`Arg`s; `call name args` is `getattr(mgr, name)(*args)` and `Infix.run` interprets the
method bodies of `FNode` that `tools/gen_infix.py` extracts into `Gen/Infix.lean`.
-/
namespace PySMT.Mk

/-- classes of exceptions the modelled code raises -/
inductive Err
  | type        -- PysmtTypeError
  | value       -- PysmtValueError
  | assertion   -- AssertionError
  | index       -- IndexError (BVConcat with fewer than two arguments)
  | mode        -- PysmtModeError (infix notation disabled / `Ite` with literals)
  | unsupported -- UnsupportedOperatorError (`__getitem__` on a non bit-vector)
  | pyType      -- plain Python TypeError (e.g. `None(self, right)` for `<<` on a non bit-vector)
  | pyValue     -- plain Python ValueError (`shortcuts.Abs` on a non numeric sort)
  | other       -- some other Python exception (AttributeError, ZeroDivisionError, …)
  | unmodelled  -- outside the model (the driver answers `out-of-fragment`)
  deriving DecidableEq, Repr, Inhabited

def Err.name : Err → String
  | .type => "type" | .value => "value" | .assertion => "assertion" | .index => "index"
  | .mode => "mode" | .unsupported => "unsupported" | .pyType => "py-type" | .pyValue => "py-value"
  | .other => "other" | .unmodelled => "unmodelled"

abbrev R := Except Err Term

/-- Python-level argument of a constructor / infix method -/
inductive Arg
  | t (t : Term)                 -- an FNode
  | i (n : Int)                  -- int
  | b (v : Bool)                 -- bool
  | q (v : Rat)                  -- Fraction / float
  | s (v : String)               -- str
  | none                         -- None
  | slice (lo hi : Option Int)   -- slice(lo, hi)
  | ty (t : Ty)                  -- a PySMTType (index sort of `Array`)
  | sym (s : Sym)                -- a symbol FNode (function name, bound variable)
  deriving Repr, Inhabited

/-! ## `create_node` and syntactic accessors -/

/-- `create_node` followed by the type check it performs (children are already checked) -/
def create (op : Op) (args : List Term) (p : Payload := .none) : R :=
  if (typeOfNode op p (args.map Term.typeOf)).isSome then .ok (.node op args p) else .error .type

/-- `BV_OPERATORS` of `operators.py:104-108` -/
def isBvOp : Op → Bool
  | .bvNot | .bvAnd | .bvOr | .bvXor | .bvConcat | .bvExtract | .bvNeg | .bvAdd | .bvSub | .bvMul
  | .bvUdiv | .bvUrem | .bvLshl | .bvLshr | .bvRol | .bvRor | .bvZext | .bvSext | .bvComp | .bvSdiv
  | .bvSrem | .bvAshr => true
  | _ => false

/-- the node reached by following the then-branches of an ITE chain (`fnode.py:478-486`);
fuel = size of the term, so it always reaches a non-ITE node on a tree -/
def iteLeaf : Nat → Term → Term
  | 0, t => t
  | n + 1, .node .ite [_, a, _] _ => iteLeaf n a
  | _, t => t

/-- `FNode.bv_width` on a node that is not an ITE (fnode.py:468-493) -/
def leafWidth (t : Term) : Except Err Nat :=
  match t with
  | .node .bvConst _ (.bv _ w) => .ok w
  | .node .symbol _ (.sym s) =>
    if s.params.isEmpty then (match s.ret with | .bv w => .ok w | _ => .error .assertion)
    else .error .assertion
  | .node .function _ (.sym f) => (match f.ret with | .bv w => .ok w | _ => .error .other)
  | .node .ite _ _ => .error .other            -- malformed ITE node
  | .node .arraySelect (a :: _) _ =>
    (match a.typeOf with | some (.array _ (.bv w)) => .ok w | _ => .error .other)
  | .node op _ (.ints (w :: _)) => if isBvOp op then .ok w else .error .assertion
  | .node op _ _ => if isBvOp op then .error .other else .error .assertion

/-- `FNode.bv_width` (fnode.py:468-493): a *syntactic* width (the then-branches of an ITE chain
are followed down to the first non-ITE node) -/
def bvWidth (t : Term) : Except Err Nat := leafWidth (iteLeaf t.size t)

def isNot : Term → Bool | .node .not _ _ => true | _ => false
def isConstant : Term → Bool | .node op _ _ => op.isConstant
def isBoolTy (t : Term) : Bool := t.typeOf == some .bool
def isBvTy (t : Term) : Bool := match t.typeOf with | some (.bv _) => true | _ => false

/-! ## constants -/

def BoolC (v : Bool) : Term := Term.bool v
def TRUE : Term := Term.tt
def FALSE : Term := Term.ff
def IntC (n : Int) : Term := Term.int n
def RealC (q : Rat) : Term := Term.real q
def StringC (s : String) : Term := Term.str s

/-- `BV(value, width)` for an integer value (formula.py:635-658; a width below one is refused) -/
def BV (value : Int) (width : Nat) : R :=
  if width = 0 then .error .value
  else if value < 0 then .error .value
  else if value ≥ (2 : Int) ^ width then .error .value
  else .ok (Term.bvc value.toNat width)

/-- value of a string of binary digits, most significant first; `none` if another character occurs -/
def binValue : List Char → Nat → Option Nat
  | [], acc => some acc
  | '0' :: cs, acc => binValue cs (2 * acc)
  | '1' :: cs, acc => binValue cs (2 * acc + 1)
  | _ :: _, _ => none

/-- `BV("#b0101")` / `BV("0101")`, optional width that must agree (formula.py:619-633).
Only the characters `0` and `1` are accepted after the optional `#b` (repaired: `int(s, 2)` used
to accept signs, underscores, blanks and `0b` after `#b`). The empty string and `"#b"` make
`int("", 2)` raise a plain `ValueError`. -/
def BVStr (s : String) (width : Option Nat := .none) : R :=
  let digits := if s.startsWith "#b" then (s.drop 2).toString.toList else s.toList
  if digits.isEmpty then .error .pyValue else
  match binValue digits 0 with
  | .none => .error .value
  | some v =>
    match width with
    | some w => if w ≠ digits.length then .error .value else BV v digits.length
    | .none => BV v digits.length

/-- `SBV(value, width)` for an integer value (formula.py:665-685). For `width = 0` Python
computes `2**(-1) = 0.5`, so every integer is out of range. -/
def SBV (value : Int) (width : Nat) : R :=
  if width = 0 then .error .value
  else if value < -((2 : Int) ^ (width - 1)) then .error .value
  else if value > (2 : Int) ^ (width - 1) - 1 then .error .value
  else if value ≥ 0 then BV value width
  else BV ((2 : Int) ^ width + value) width

def BVOne (width : Nat) : R := BV 1 width
def BVZero (width : Nat) : R := BV 0 width

/-! ## Boolean and arithmetic primitives -/

def ForAll (vs : List Sym) (f : Term) : R :=
  if vs.isEmpty then .ok f else create .forall_ [f] (.qvars vs)
def Exists (vs : List Sym) (f : Term) : R :=
  if vs.isEmpty then .ok f else create .exists_ [f] (.qvars vs)

/-- `Function(vname, params)` (formula.py:189-201) -/
def Function (f : Sym) (params : List Term) : R :=
  if params.isEmpty then .ok (Term.sym f)
  else if f.params.isEmpty then .error .other          -- `.param_types` of a non-function type
  else if params.length ≠ f.params.length then .error .value
  else create .function params (.sym f)

def Not (f : Term) : R :=
  match f with
  | .node .not [a] _ => .ok a          -- `formula.arg(0)` of a negation
  | .node .not _ _ => .error .other    -- a negation node always has exactly one argument
  | _ => create .not [f]

def Implies (l r : Term) : R := create .implies [l, r]
def Iff (l r : Term) : R := create .iff [l, r]
def Minus (l r : Term) : R := create .minus [l, r]

def And (args : List Term) : R :=
  match args with
  | [] => .ok TRUE
  | [a] => .ok a
  | _ => create .and args

def Or (args : List Term) : R :=
  match args with
  | [] => .ok FALSE
  | [a] => .ok a
  | _ => create .or args

def Plus (args : List Term) : R :=
  match args with
  | [] => .error .type
  | [a] => .ok a
  | _ => create .plus args

def Times (args : List Term) : R :=
  match args with
  | [] => .error .type
  | [a] => .ok a
  | _ => create .times args

/-- numeric value of an Int/Real constant node -/
def constRat : Term → Option Rat
  | .node .intConst _ (.i n) => some n
  | .node .realConst _ (.q q) => some q
  | _ => .none

def ratPow (b : Rat) (e : Int) : Except Err Rat :=
  if e ≥ 0 then .ok (b ^ e.toNat)
  else if b = 0 then .error .other                        -- ZeroDivisionError
  else .ok (1 / b ^ (-e).toNat)

/-- `Pow` (formula.py:258-269); only integer exponents are modelled -/
def Pow (base exponent : Term) : R :=
  if !isConstant exponent then .error .value
  else if isConstant base then
    match constRat base, exponent with
    | some b, .node .intConst _ (.i e) => (ratPow b e).map RealC
    | some b, .node .realConst _ (.q e) =>
      if e.den = 1 then (ratPow b e.num).map RealC else .error .unmodelled
    | _, _ => .error .unmodelled
  else create .pow [base, exponent]

/-- `Div` (formula.py:271-286) with `env.enable_div_by_0 = True` (the default) -/
def Div (l r : Term) : R :=
  match r with
  | .node .realConst [] (.q c) =>            -- a constant node has no children
    if c = 0 then create .div [l, r] else Times [l, RealC (1 / c)]
  | _ => create .div [l, r]

def Equals (l r : Term) : R := create .equals [l, r]
def LE (l r : Term) : R := create .le [l, r]
def LT (l r : Term) : R := create .lt [l, r]
def Ite (c l r : Term) : R := create .ite [c, l, r]

/-- `ToReal` (formula.py:487-500) -/
def ToReal (f : Term) : R :=
  match f.typeOf with
  | some .real => .ok f
  | some .int =>
    (match f with
     | .node .intConst [] (.i n) => .ok (RealC n)
     | _ => create .toReal [f])
  | _ => .error .type

/-! ## derived Boolean / arithmetic constructors -/

def NotEquals (l r : Term) : R := do Not (← Equals l r)
def GE (l r : Term) : R := create .le [r, l]
def GT (l r : Term) : R := create .lt [r, l]
def Xor (l r : Term) : R := do Not (← Iff l r)

/-- `EqualsOrIff` (formula.py:594-604): `get_type(left)` decides -/
def EqualsOrIff (l r : Term) : R :=
  match l.typeOf with
  | .none => .error .type
  | some .bool => Iff l r
  | some _ => Equals l r

/-- the constraints of `AtMostOne` (formula.py:509-514):
`Implies(e_i, Not(Or(e_{i+1} …)))` for every element but the last -/
def amoConstraints : List Term → Except Err (List Term)
  | [] => .ok []
  | [_] => .ok []
  | a :: b :: rest => do
    let o ← Or (b :: rest)
    let n ← Not o
    let c ← Implies a n
    let cs ← amoConstraints (b :: rest)
    .ok (c :: cs)

def AtMostOne (args : List Term) : R := do And (← amoConstraints args)

def ExactlyOne (args : List Term) : R := do
  let o ← Or args
  let a ← AtMostOne args
  And [o, a]

/-- `Not(EqualsOrIff(a, b))` for every `b` of the list -/
def neqAll (a : Term) : List Term → Except Err (List Term)
  | [] => .ok []
  | b :: bs => do
    let e ← EqualsOrIff a b
    let n ← Not e
    let rest ← neqAll a bs
    .ok (n :: rest)

def adPairs : List Term → Except Err (List Term)
  | [] => .ok []
  | a :: rest => do
    let xs ← neqAll a rest
    let ys ← adPairs rest
    .ok (xs ++ ys)

def AllDifferent (args : List Term) : R := do And (← adPairs args)

/-- `_MinWrap` / `_MaxWrap` (formula.py:546-570): `isMin` selects `Ite(le(a,b), a, b)` or
`Ite(le(a,b), b, a)`; halving recursion `exprs[0:h]`, `exprs[h:]` with `h = len // 2` -/
def minMaxWrap (le : Term → Term → R) (isMin : Bool) (l : List Term) : R :=
  match l with
  | [] => .error .assertion
  | [a] => .ok a
  | [a, b] => do
    let c ← le a b
    if isMin then Ite c a b else Ite c b a
  | a :: b :: c :: rest =>
    let full := a :: b :: c :: rest
    let h := full.length / 2
    match minMaxWrap le isMin (full.take h) with
    | .error e => .error e
    | .ok x =>
      match minMaxWrap le isMin (full.drop h) with
      | .error e => .error e
      | .ok y => do
        let c ← le x y
        if isMin then Ite c x y else Ite c y x
termination_by l.length
decreasing_by
  all_goals simp only [List.length_take, List.length_drop, List.length_cons]
  all_goals omega

def BVULE (l r : Term) : R := create .bvUle [l, r]
def BVSLE (l r : Term) : R := create .bvSle [l, r]

def Min (args : List Term) : R := minMaxWrap LE true args
def Max (args : List Term) : R := minMaxWrap LE false args
def MinBV (sign : Bool) (args : List Term) : R := minMaxWrap (if sign then BVSLE else BVULE) true args
def MaxBV (sign : Bool) (args : List Term) : R := minMaxWrap (if sign then BVSLE else BVULE) false args

/-! ## bit-vectors -/

/-- unary operator whose payload is the operand's `bv_width()` -/
def bvUn (op : Op) (f : Term) : R := do
  let w ← bvWidth f
  create op [f] (.ints [w])

/-- binary operator whose payload is the *left* operand's `bv_width()` -/
def bvBin (op : Op) (l r : Term) : R := do
  let w ← bvWidth l
  create op [l, r] (.ints [w])

/-- left-associated chain `((a0 ∘ a1) ∘ a2) …` (formula.py:703-727, 787-817) -/
def bvChain (op : Op) (res : Term) : List Term → R
  | [] => .ok res
  | a :: rest => do
    let r ← bvBin op res a
    bvChain op r rest

def bvNary (op : Op) (args : List Term) : R :=
  match args with
  | [] => .error .value
  | a :: rest => bvChain op a rest

def BVNot (f : Term) : R := bvUn .bvNot f
def BVNeg (f : Term) : R := bvUn .bvNeg f
def BVAnd (args : List Term) : R := bvNary .bvAnd args
def BVOr (args : List Term) : R := bvNary .bvOr args
def BVAdd (args : List Term) : R := bvNary .bvAdd args
def BVMul (args : List Term) : R := bvNary .bvMul args
def BVXor (l r : Term) : R := bvBin .bvXor l r
def BVSub (l r : Term) : R := bvBin .bvSub l r
def BVUDiv (l r : Term) : R := bvBin .bvUdiv l r
def BVURem (l r : Term) : R := bvBin .bvUrem l r
def BVSDiv (l r : Term) : R := bvBin .bvSdiv l r
def BVSRem (l r : Term) : R := bvBin .bvSrem l r

def concat2 (l r : Term) : R := do
  let wl ← bvWidth l
  let wr ← bvWidth r
  create .bvConcat [l, r] (.ints [wl + wr])

def concatChain (base : Term) : List Term → R
  | [] => .ok base
  | e :: rest => do
    let b ← concat2 base e
    concatChain b rest

/-- `BVConcat` (formula.py:735-745): `ex[0]`, `ex[1]` raise `IndexError` for fewer than two arguments -/
def BVConcat (args : List Term) : R :=
  match args with
  | a :: b :: rest => do
    let base ← concat2 a b
    concatChain base rest
  | _ => .error .index

/-- `BVExtract(formula, start=0, end=None)` (formula.py:747-759) -/
def BVExtract (f : Term) (start : Int := 0) (stop : Option Int := .none) : R := do
  let w ← bvWidth f
  let e : Int := match stop with | some e => e | .none => (w : Int) - 1
  if ¬ (e ≥ start ∧ start ≥ 0) then .error .assertion
  else
    let size := e - start + 1
    if ¬ (size ≤ (w : Int)) then .error .assertion
    else create .bvExtract [f] (.ints [size.toNat, start.toNat, e.toNat])

def BVULT (l r : Term) : R := create .bvUlt [l, r]
def BVUGT (l r : Term) : R := create .bvUlt [r, l]
def BVUGE (l r : Term) : R := create .bvUle [r, l]
def BVSLT (l r : Term) : R := create .bvSlt [l, r]
def BVSGT (l r : Term) : R := BVSLT r l
def BVSGE (l r : Term) : R := BVSLE r l

/-- the shift amount: a Python integer is turned into a constant of the left operand's width -/
def shiftAmount (l : Term) (r : Arg) (strict : Bool) : R :=
  match r with
  | .i n => do BV n (← bvWidth l)
  | .t t => .ok t
  | .sym s => .ok (Term.sym s)
  | _ => .error (if strict then .assertion else .other)

def BVLShl (l : Term) (r : Arg) : R := do bvBin .bvLshl l (← shiftAmount l r true)
def BVLShr (l : Term) (r : Arg) : R := do bvBin .bvLshr l (← shiftAmount l r true)
def BVAShr (l : Term) (r : Arg) : R := do bvBin .bvAshr l (← shiftAmount l r false)

def rotate (op : Op) (f : Term) (steps : Int) : R := do
  let w ← bvWidth f
  if steps < 0 then .error .type              -- refused by the type checker
  else create op [f] (.ints [w, steps.toNat])

def BVRol (f : Term) (steps : Int) : R := rotate .bvRol f steps
def BVRor (f : Term) (steps : Int) : R := rotate .bvRor f steps

/-- `BVZExt` / `BVSExt`: payload `(width + increase, increase)`; a negative increase is
rejected by the type checker (target width below the operand's width) -/
def extend (op : Op) (f : Term) (increase : Int) : R := do
  let w ← bvWidth f
  if increase < 0 then .error .type
  else create op [f] (.ints [w + increase.toNat, increase.toNat])

def BVZExt (f : Term) (increase : Int) : R := extend .bvZext f increase
def BVSExt (f : Term) (increase : Int) : R := extend .bvSext f increase

def BVComp (l r : Term) : R := create .bvComp [l, r] (.ints [1])
def BVToNatural (f : Term) : R := create .bvToNatural [f]

def BVNand (l r : Term) : R := do BVNot (← BVAnd [l, r])
def BVNor (l r : Term) : R := do BVNot (← BVOr [l, r])
def BVXnor (l r : Term) : R := do BVNot (← BVXor l r)

/-- `BVSMod` (formula.py:951-994): the SMT-LIB abbreviation, statement by statement, in the
evaluation order of the Python code. `BV("#b0")` / `BV("#b1")` are the one-bit constants
`BV(0, 1)` / `BV(1, 1)` (the string form is `BVStr`, exercised separately by K). -/
def BVSMod (s t : Term) : R := do
  let m ← bvWidth s
  let zero1 ← BV 0 1
  let one1 ← BV 1 1
  let msbS ← BVExtract s ((m : Int) - 1) (some ((m : Int) - 1))
  let msbT ← BVExtract t ((m : Int) - 1) (some ((m : Int) - 1))
  let sPos ← Equals msbS zero1
  let negS ← BVNeg s
  let absS ← Ite sPos s negS
  let tPos ← Equals msbT zero1
  let negT ← BVNeg t
  let absT ← Ite tPos t negT
  let u ← BVURem absS absT
  let zeroM ← BV 0 m
  let cond1 ← Equals u zeroM
  let c2a ← Equals msbS zero1
  let c2b ← Equals msbT zero1
  let cond2 ← And [c2a, c2b]
  let c3a ← Equals msbS one1
  let c3b ← Equals msbT zero1
  let cond3 ← And [c3a, c3b]
  let c4a ← Equals msbS zero1
  let c4b ← Equals msbT one1
  let cond4 ← And [c4a, c4b]
  let negU ← BVNeg u
  let case3 ← BVAdd [negU, t]
  let case4 ← BVAdd [u, t]
  let case5 ← BVNeg u
  let c12 ← Or [cond1, cond2]
  let inner ← Ite cond4 case4 case5
  let mid ← Ite cond3 case3 inner
  Ite c12 u mid

def repeatChain (f : Term) (res : Term) : Nat → R
  | 0 => .ok res
  | n + 1 => do
    let r ← BVConcat [res, f]
    repeatChain f r n

/-- `BVRepeat(formula, count)` (formula.py:996-1003, repaired: a count below one is rejected) -/
def BVRepeat (f : Term) (count : Int := 1) : R :=
  if count < 1 then .error .value
  else repeatChain f f (count - 1).toNat

/-! ## strings, arrays -/

def StrLength (f : Term) : R := create .strLength [f]
def StrConcat (args : List Term) : R :=
  if args.length ≤ 1 then .error .pyType else create .strConcat args
def StrContains (s t : Term) : R := create .strContains [s, t]
def StrIndexOf (s t i : Term) : R := create .strIndexOf [s, t, i]
def StrReplace (s t1 t2 : Term) : R := create .strReplace [s, t1, t2]
def StrSubstr (s i j : Term) : R := create .strSubstr [s, i, j]
def StrPrefixOf (s t : Term) : R := create .strPrefixOf [s, t]
def StrSuffixOf (s t : Term) : R := create .strSuffixOf [s, t]
def StrToInt (s : Term) : R := create .strToInt [s]
def IntToStr (x : Term) : R := create .intToStr [x]
def StrCharAt (s i : Term) : R := create .strCharAt [s, i]
def Select (a i : Term) : R := create .arraySelect [a, i]
def Store (a i v : Term) : R := create .arrayStore [a, i, v]

/-- `FNode.is_constant()` (fnode.py:145-161): a constant node, or an array value all of whose
children are constants -/
def isConstantFull : Term → Bool
  | .node .arrayValue args _ => (args.map isConstantFull).all id
  | .node op _ _ => op.isConstant

/-- `Array(idx_type, default, assigned_values)` (formula.py:1098-1127); `assigned` is the
dictionary in the order in which the code visits it (sorted by `id`, supplied by the caller).
Every key must be a constant; a pair whose value is the default is dropped, after its key has
been checked against the index sort (the type checker never sees a dropped pair). -/
def arrayArgs (idx : Ty) (dflt : Term) : List (Term × Term) → Except Err (List Term)
  | [] => .ok []
  | (k, v) :: rest =>
    if !isConstantFull k then .error .value
    else if v = dflt then
      (if k.typeOf = some idx then arrayArgs idx dflt rest else .error .type)
    else do
      let more ← arrayArgs idx dflt rest
      .ok (k :: v :: more)

def Array (idx : Ty) (dflt : Term) (assigned : List (Term × Term)) : R := do
  let more ← arrayArgs idx dflt assigned
  create .arrayValue (dflt :: more) (.ty idx)

/-! ## `shortcuts.Abs` (shortcuts.py:251-273) -/

def Abs (f : Term) : R :=
  match f.typeOf with
  | .none => .error .type
  | some .int => do Ite (← GT f (IntC 0)) f (← Minus (IntC 0) f)
  | some .real => do Ite (← GT f (RealC 0)) f (← Minus (RealC 0) f)
  | some _ => .error .pyValue

/-! ## `getattr(mgr, name)(*args)` -/

/-- `_polymorph_args_to_tuple`: every element must be an FNode -/
def termArgs : List Arg → Except Err (List Term)
  | [] => .ok []
  | .t t :: rest => do .ok (t :: (← termArgs rest))
  | .sym s :: rest => do .ok (Term.sym s :: (← termArgs rest))
  | _ :: _ => .error .type

def symArgs : List Arg → Except Err (List Sym)
  | [] => .ok []
  | .sym s :: rest => do .ok (s :: (← symArgs rest))
  | _ :: _ => .error .unmodelled

def pairUp : List Term → Except Err (List (Term × Term))
  | [] => .ok []
  | k :: v :: rest => do .ok ((k, v) :: (← pairUp rest))
  | [_] => .error .unmodelled

def asTerm : Arg → Option Term
  | .t t => some t
  | .sym s => some (Term.sym s)
  | _ => .none

/-- call of a manager method by name. The shapes accepted are the ones the harness and the
infix layer use; a shape that is not modelled answers `unmodelled` (never a default). -/
def call (name : String) (args : List Arg) : R :=
  let un (f : Term → R) : R :=
    match args.map asTerm with | [some a] => f a | _ => .error .unmodelled
  let bin (f : Term → Term → R) : R :=
    match args.map asTerm with | [some a, some b] => f a b | _ => .error .unmodelled
  let tern (f : Term → Term → Term → R) : R :=
    match args.map asTerm with | [some a, some b, some c] => f a b c | _ => .error .unmodelled
  let nary (f : List Term → R) : R := do f (← termArgs args)
  let withInt (f : Term → Int → R) : R :=
    match args with
    | [a, .i n] => (match asTerm a with | some t => f t n | .none => .error .unmodelled)
    | _ => .error .unmodelled
  let shift (f : Term → Arg → R) : R :=
    match args with
    | [a, r] => (match asTerm a with | some t => f t r | .none => .error .unmodelled)
    | _ => .error .unmodelled
  match name with
  | "Not" => un Not | "Implies" => bin Implies | "Iff" => bin Iff | "Minus" => bin Minus
  | "And" => nary And | "Or" => nary Or | "Plus" => nary Plus | "Times" => nary Times
  | "Pow" => bin Pow | "Div" => bin Div | "Equals" => bin Equals | "NotEquals" => bin NotEquals
  | "GE" => bin GE | "GT" => bin GT | "LE" => bin LE | "LT" => bin LT | "Ite" => tern Ite
  | "ToReal" => un ToReal | "AtMostOne" => nary AtMostOne | "ExactlyOne" => nary ExactlyOne
  | "AllDifferent" => nary AllDifferent | "Xor" => bin Xor
  | "Min" => nary Min | "Max" => nary Max
  | "MinBV" => (match args with | .b s :: rest => do MinBV s (← termArgs rest) | _ => .error .unmodelled)
  | "MaxBV" => (match args with | .b s :: rest => do MaxBV s (← termArgs rest) | _ => .error .unmodelled)
  | "EqualsOrIff" => bin EqualsOrIff
  | "TRUE" => (match args with | [] => .ok TRUE | _ => .error .unmodelled)
  | "FALSE" => (match args with | [] => .ok FALSE | _ => .error .unmodelled)
  | "Bool" => (match args with | [.b v] => .ok (BoolC v) | [_] => .error .type | _ => .error .unmodelled)
  | "Int" => (match args with | [.i n] => .ok (IntC n) | [_] => .error .type | _ => .error .unmodelled)
  | "Real" => (match args with
      | [.i n] => .ok (RealC n) | [.q v] => .ok (RealC v) | [_] => .error .type | _ => .error .unmodelled)
  | "String" => (match args with | [.s v] => .ok (StringC v) | _ => .error .unmodelled)
  | "BV" => (match args with
      | [.i n, .i w] => if w ≤ 0 then .error .value else BV n w.toNat
      | [.b _, .i w] => if w ≤ 0 then .error .value else .error .type
      | [.q _, .i w] => if w ≤ 0 then .error .value else .error .type
      | [.s v] => BVStr v
      | [.s v, .none] => BVStr v
      | [.s v, .i w] => if w < 0 then .error .unmodelled else BVStr v (some w.toNat)
      | [.i _] => .error .value | [.i _, .none] => .error .value
      | _ => .error .unmodelled)
  | "SBV" => (match args with
      | [.i n, .i w] => if w < 0 then .error .unmodelled else SBV n w.toNat
      | [.i _] => .error .value | [.i _, .none] => .error .value
      | [.s v] => BVStr v
      | [.s v, .none] => BVStr v
      | [.s v, .i w] => if w < 0 then .error .unmodelled else BVStr v (some w.toNat)
      | _ => .error .unmodelled)
  | "BVOne" => (match args with | [.i w] => if w ≤ 0 then .error .value else BVOne w.toNat | _ => .error .unmodelled)
  | "BVZero" => (match args with | [.i w] => if w ≤ 0 then .error .value else BVZero w.toNat | _ => .error .unmodelled)
  | "BVNot" => un BVNot | "BVNeg" => un BVNeg
  | "BVAnd" => nary BVAnd | "BVOr" => nary BVOr | "BVAdd" => nary BVAdd | "BVMul" => nary BVMul
  | "BVConcat" => nary BVConcat
  | "BVXor" => bin BVXor | "BVSub" => bin BVSub | "BVUDiv" => bin BVUDiv | "BVURem" => bin BVURem
  | "BVSDiv" => bin BVSDiv | "BVSRem" => bin BVSRem
  | "BVExtract" => (match args with
      | [a] => (match asTerm a with | some t => BVExtract t | .none => .error .unmodelled)
      | [a, .i s] => (match asTerm a with | some t => BVExtract t s | .none => .error .unmodelled)
      | [a, .i s, .i e] => (match asTerm a with | some t => BVExtract t s (some e) | .none => .error .unmodelled)
      | [a, .i s, .none] => (match asTerm a with | some t => BVExtract t s | .none => .error .unmodelled)
      | _ => .error .unmodelled)
  | "BVULT" => bin BVULT | "BVUGT" => bin BVUGT | "BVULE" => bin BVULE | "BVUGE" => bin BVUGE
  | "BVSLT" => bin BVSLT | "BVSGT" => bin BVSGT | "BVSLE" => bin BVSLE | "BVSGE" => bin BVSGE
  | "BVLShl" => shift BVLShl | "BVLShr" => shift BVLShr | "BVAShr" => shift BVAShr
  | "BVRol" => (match args with
      | [a, .i n] => (match asTerm a with | some t => BVRol t n | .none => .error .unmodelled)
      | [_, _] => .error .type | _ => .error .unmodelled)
  | "BVRor" => (match args with
      | [a, .i n] => (match asTerm a with | some t => BVRor t n | .none => .error .unmodelled)
      | [_, _] => .error .type | _ => .error .unmodelled)
  | "BVZExt" => (match args with
      | [a, .i n] => (match asTerm a with | some t => BVZExt t n | .none => .error .unmodelled)
      | [_, _] => .error .type | _ => .error .unmodelled)
  | "BVSExt" => (match args with
      | [a, .i n] => (match asTerm a with | some t => BVSExt t n | .none => .error .unmodelled)
      | [_, _] => .error .type | _ => .error .unmodelled)
  | "BVComp" => bin BVComp | "BVToNatural" => un BVToNatural
  | "BVNand" => bin BVNand | "BVNor" => bin BVNor | "BVXnor" => bin BVXnor | "BVSMod" => bin BVSMod
  | "BVRepeat" => (match args with
      | [a] => (match asTerm a with | some t => BVRepeat t | .none => .error .unmodelled)
      | _ => withInt (fun t n => BVRepeat t n))
  | "StrLength" => un StrLength | "StrConcat" => nary StrConcat | "StrContains" => bin StrContains
  | "StrIndexOf" => tern StrIndexOf | "StrReplace" => tern StrReplace | "StrSubstr" => tern StrSubstr
  | "StrPrefixOf" => bin StrPrefixOf | "StrSuffixOf" => bin StrSuffixOf | "StrToInt" => un StrToInt
  | "IntToStr" => un IntToStr | "StrCharAt" => bin StrCharAt
  | "Select" => bin Select | "Store" => tern Store
  | "Array" => (match args with
      | .ty idx :: d :: rest =>
        (match asTerm d with
         | some dt => do Array idx dt (← pairUp (← termArgs rest))
         | .none => .error .unmodelled)
      | _ => .error .unmodelled)
  | "Function" => (match args with
      | .sym f :: rest => do Function f (← termArgs rest)
      | _ => .error .unmodelled)
  | "ForAll" => (match args.reverse with
      | body :: vs => (match asTerm body with
          | some b => do ForAll (← symArgs vs.reverse) b
          | .none => .error .unmodelled)
      | _ => .error .unmodelled)
  | "Exists" => (match args.reverse with
      | body :: vs => (match asTerm body with
          | some b => do Exists (← symArgs vs.reverse) b
          | .none => .error .unmodelled)
      | _ => .error .unmodelled)
  | "Abs" => un Abs
  | _ => .error .unmodelled

/-- the names `call` knows (for the driver's self-description and the K coverage check) -/
def callNames : List String :=
  ["Not", "Implies", "Iff", "Minus", "And", "Or", "Plus", "Times", "Pow", "Div", "Equals", "NotEquals",
   "GE", "GT", "LE", "LT", "Ite", "ToReal", "AtMostOne", "ExactlyOne", "AllDifferent", "Xor", "Min", "Max",
   "MinBV", "MaxBV", "EqualsOrIff", "TRUE", "FALSE", "Bool", "Int", "Real", "String", "BV", "SBV", "BVOne",
   "BVZero", "BVNot", "BVNeg", "BVAnd", "BVOr", "BVAdd", "BVMul", "BVConcat", "BVXor", "BVSub", "BVUDiv",
   "BVURem", "BVSDiv", "BVSRem", "BVExtract", "BVULT", "BVUGT", "BVULE", "BVUGE", "BVSLT", "BVSGT", "BVSLE",
   "BVSGE", "BVLShl", "BVLShr", "BVAShr", "BVRol", "BVRor", "BVZExt", "BVSExt", "BVComp", "BVToNatural",
   "BVNand", "BVNor", "BVXnor", "BVSMod", "BVRepeat", "StrLength", "StrConcat", "StrContains", "StrIndexOf",
   "StrReplace", "StrSubstr", "StrPrefixOf", "StrSuffixOf", "StrToInt", "IntToStr", "StrCharAt", "Select",
   "Store", "Array", "Function", "ForAll", "Exists", "Abs"]

/-! ## The infix layer of `FNode` (fnode.py:689-964)

`tools/gen_infix.py` translates every method of the region into a `Method` (parameter names
+ statements of the small language below) and writes the table to `Gen/Infix.lean`.
`run table name self args` interprets a method body; `applyInfix` and `prepareArg` are the
models of `_apply_infix` and `_infix_prepare_arg` (whose AST hashes are part of the table,
so that a change to them is noticed by the conformance theorem). -/
namespace Infix

/-- expressions -/
inductive E
  | self
  | var (name : String)                          -- parameter / local variable
  | int (n : Int)
  | none
  | mgr (f : String) (args : List E)             -- `_mgr().f(args…)` (keywords already put in position)
  | infix (recv right : E) (f g : Option String) -- `recv._apply_infix(right, _mgr().f, _mgr().g)`; `g = f` when absent
  | neg (e : E)                                  -- `-e`
  | bvWidth (e : E)                              -- `e.bv_width()`
  | attr (e : E) (a : String)                    -- `idx.start`, `idx.stop`
  | meth (recv : E) (name : String) (args : List E)  -- `recv.name(args…)`, another method of the table
  deriving Repr, Inhabited

/-- conditions -/
inductive C
  | isBV (e : E)         -- `e.get_type().is_bv_type()`
  | isPyInt (e : E)      -- `is_python_integer(e)`
  | isFNode (e : E)      -- `isinstance(e, FNode)`
  | isSlice (e : E)      -- `isinstance(e, slice)`
  | isNone (e : E)       -- `e is None`
  | and (a b : C)
  deriving Repr, Inhabited

/-- statements -/
inductive S
  | ret (e : E)
  | assign (v : String) (e : E)
  | ite (c : C) (t f : List S)
  | assertFNode (e : E)            -- `assert isinstance(e, FNode)`
  | raise (e : Err)                -- `raise Cls(…)`, the class mapped by the generator
  | opaque (hash : String)         -- body outside the language: modelled by hand, pinned by its AST hash
  deriving Repr, Inhabited

structure Method where
  params  : List String
  varargs : Bool                   -- `*args` (then `params = []`)
  body    : List S
  deriving Repr, Inhabited

abbrev Table := List (String × Method)

mutual
def E.beq : E → E → Bool
  | .self, .self => true
  | .var a, .var b => a == b
  | .int a, .int b => a == b
  | .none, .none => true
  | .mgr f as, .mgr g bs => f == g && E.beqL as bs
  | .infix r1 a1 f1 g1, .infix r2 a2 f2 g2 => E.beq r1 r2 && E.beq a1 a2 && f1 == f2 && g1 == g2
  | .neg a, .neg b => E.beq a b
  | .bvWidth a, .bvWidth b => E.beq a b
  | .attr a x, .attr b y => E.beq a b && x == y
  | .meth r1 n1 a1, .meth r2 n2 a2 => E.beq r1 r2 && n1 == n2 && E.beqL a1 a2
  | _, _ => false
def E.beqL : List E → List E → Bool
  | [], [] => true
  | a :: as, b :: bs => E.beq a b && E.beqL as bs
  | _, _ => false
end

def C.beq : C → C → Bool
  | .isBV a, .isBV b | .isPyInt a, .isPyInt b | .isFNode a, .isFNode b
  | .isSlice a, .isSlice b | .isNone a, .isNone b => E.beq a b
  | .and a1 b1, .and a2 b2 => C.beq a1 a2 && C.beq b1 b2
  | _, _ => false

mutual
def S.beq : S → S → Bool
  | .ret a, .ret b => E.beq a b
  | .assign v a, .assign w b => v == w && E.beq a b
  | .ite c t f, .ite c' t' f' => C.beq c c' && S.beqL t t' && S.beqL f f'
  | .assertFNode a, .assertFNode b => E.beq a b
  | .raise a, .raise b => a == b
  | .opaque a, .opaque b => a == b
  | _, _ => false
def S.beqL : List S → List S → Bool
  | [], [] => true
  | a :: as, b :: bs => S.beq a b && S.beqL as bs
  | _, _ => false
end

def Method.beq (a b : Method) : Bool := a.params == b.params && a.varargs == b.varargs && S.beqL a.body b.body

def Table.lookup (tbl : Table) (name : String) : Option Method :=
  (tbl.find? (fun e => e.1 == name)).map (·.2)

abbrev Env := List (String × Arg)

def Env.get (env : Env) (v : String) : Except Err Arg :=
  match env.find? (fun e => e.1 == v) with
  | some e => .ok e.2
  | .none => .error .other                       -- NameError

def Env.set (env : Env) (v : String) (a : Arg) : Env := (v, a) :: env

def argTerm : Arg → Except Err Term
  | .t t => .ok t
  | .sym s => .ok (Term.sym s)
  | _ => .error .other                           -- AttributeError on a Python literal

def isFNodeArg : Arg → Bool | .t _ | .sym _ => true | _ => false

/-- `_infix_prepare_arg(arg, expected_type)` (fnode.py:701-718) -/
def prepareArg (arg : Arg) (expected : Ty) : R :=
  match arg with
  | .t t => .ok t
  | .sym s => .ok (Term.sym s)
  | _ =>
    match expected with
    | .bv w =>
      (match arg with
       | .i n => BV n w
       | .s v => BVStr v (some w)
       | _ => .error .type)
    | .bool => (match arg with | .b v => .ok (BoolC v) | _ => .error .type)
    | .int => (match arg with | .i n => .ok (IntC n) | _ => .error .type)
    | .real => (match arg with | .i n => .ok (RealC n) | .q v => .ok (RealC v) | _ => .error .type)
    | _ => .error .value

def callOpt (f : Option String) (args : List Arg) : R :=
  match f with
  | some n => call n args
  | .none => .error .pyType                      -- 'NoneType' object is not callable

/-- `self._apply_infix(right, function, bv_function)` (fnode.py:690-699) -/
def applyInfix (self : Term) (right : Arg) (f g : Option String) : R :=
  match self.typeOf with
  | .none => .error .type
  | some τ => do
    let r ← prepareArg right τ
    if τ.isBv then callOpt g [.t self, .t r] else callOpt f [.t self, .t r]

/-- AST hashes (`tools/gen_infix.py: ast_hash`) of the hand-modelled pieces of fnode.py as
of the last alignment of this file with the source -/
def alignedHashes : List (String × String) :=
  [("_apply_infix", "60e3c059a1be2f0a"), ("_infix_prepare_arg", "2f10499b059000a8"), ("__call__", "a4bb6eeb2ae42963")]

/-- `FNode.__call__` (fnode.py:953-964), modelled by hand -/
def callModel (self : Term) (args : List Arg) : R :=
  match self with
  | .node .symbol _ (.sym f) =>
    if f.params.isEmpty then .error .value
    else if f.params.length ≠ args.length then .error .value
    else
      let rec prep : List Arg → List Ty → Except Err (List Arg)
        | a :: as, t :: ts => do .ok (.t (← prepareArg a t) :: (← prep as ts))
        | _, _ => .ok []
      do call "Function" (.sym f :: (← prep args f.params))
  | _ => .error .value

mutual
/-- value of an expression; `fuel` bounds the nesting of expressions and method calls -/
def evalE (tbl : Table) : Nat → Term → Env → E → Except Err Arg
  | 0, _, _, _ => .error .unmodelled
  | _ + 1, self, _, .self => .ok (.t self)
  | _ + 1, _, env, .var v => env.get v
  | _ + 1, _, _, .int n => .ok (.i n)
  | _ + 1, _, _, .none => .ok .none
  | n + 1, self, env, .mgr f args => do
    let vs ← evalEs tbl n self env args
    .ok (.t (← call f vs))
  | n + 1, self, env, .infix recv right f g => do
    let r ← evalE tbl n self env recv
    let a ← evalE tbl n self env right
    .ok (.t (← applyInfix (← argTerm r) a f g))
  | n + 1, self, env, .neg e => do
    let r ← evalE tbl n self env e
    runMethod tbl n "__neg__" (← argTerm r) []
  | n + 1, self, env, .bvWidth e => do
    let r ← evalE tbl n self env e
    .ok (.i (← bvWidth (← argTerm r)))
  | n + 1, self, env, .attr e a => do
    let r ← evalE tbl n self env e
    match r, a with
    | .slice lo _, "start" => .ok (match lo with | some v => .i v | .none => .none)
    | .slice _ hi, "stop" => .ok (match hi with | some v => .i v | .none => .none)
    | _, _ => .error .other
  | n + 1, self, env, .meth recv name args => do
    let r ← evalE tbl n self env recv
    let vs ← evalEs tbl n self env args
    runMethod tbl n name (← argTerm r) vs

def evalEs (tbl : Table) : Nat → Term → Env → List E → Except Err (List Arg)
  | 0, _, _, _ => .error .unmodelled
  | _ + 1, _, _, [] => .ok []
  | n + 1, self, env, e :: es => do
    let v ← evalE tbl n self env e
    let vs ← evalEs tbl n self env es
    .ok (v :: vs)

def evalC (tbl : Table) : Nat → Term → Env → C → Except Err Bool
  | 0, _, _, _ => .error .unmodelled
  | n + 1, self, env, .isBV e => do
    let r ← evalE tbl n self env e
    match (← argTerm r).typeOf with
    | .none => .error .type
    | some τ => .ok τ.isBv
  | n + 1, self, env, .isPyInt e => do
    let r ← evalE tbl n self env e
    .ok (match r with | .i _ => true | _ => false)
  | n + 1, self, env, .isFNode e => do
    let r ← evalE tbl n self env e
    .ok (isFNodeArg r)
  | n + 1, self, env, .isSlice e => do
    let r ← evalE tbl n self env e
    .ok (match r with | .slice _ _ => true | _ => false)
  | n + 1, self, env, .isNone e => do
    let r ← evalE tbl n self env e
    .ok (match r with | .none => true | _ => false)
  | n + 1, self, env, .and a b => do
    if (← evalC tbl n self env a) then evalC tbl n self env b else .ok false

/-- run a statement list (an `if` continues with the statements that follow it) -/
def exec (tbl : Table) : Nat → String → Term → List Arg → Env → List S → Except Err Arg
  | 0, _, _, _, _, _ => .error .unmodelled
  | _ + 1, _, _, _, _, [] => .ok .none
  | n + 1, _, self, _, env, .ret e :: _ => evalE tbl n self env e
  | n + 1, nm, self, as, env, .assign v e :: rest => do
    let r ← evalE tbl n self env e
    exec tbl n nm self as (env.set v r) rest
  | n + 1, nm, self, as, env, .ite c t f :: rest => do
    if (← evalC tbl n self env c) then exec tbl n nm self as env (t ++ rest)
    else exec tbl n nm self as env (f ++ rest)
  | n + 1, nm, self, as, env, .assertFNode e :: rest => do
    let r ← evalE tbl n self env e
    if isFNodeArg r then exec tbl n nm self as env rest else .error .assertion
  | _ + 1, _, _, _, _, .raise e :: _ => .error e
  | _ + 1, nm, self, as, _, .opaque h :: _ =>
    if nm == "__call__" && alignedHashes.contains (nm, h) then (callModel self as).map .t
    else .error .unmodelled

/-- `getattr(self, name)(*args)` -/
def runMethod (tbl : Table) : Nat → String → Term → List Arg → Except Err Arg
  | 0, _, _, _ => .error .unmodelled
  | n + 1, name, self, args =>
    match tbl.lookup name with
    | .none => .error .unmodelled
    | some m =>
      if m.varargs then exec tbl n name self args [] m.body
      else if m.params.length ≠ args.length then .error .pyType
      else exec tbl n name self args (m.params.zip args) m.body
end

/-- fuel used by the driver and in the theorems (deepest nesting in fnode.py is < 12) -/
def fuel : Nat := 24

/-- the infix call `getattr(self, name)(*args)`; the result must be a formula -/
def run (tbl : Table) (name : String) (self : Term) (args : List Arg) : R := do
  match (← runMethod tbl fuel name self args) with
  | .t t => .ok t
  | .sym s => .ok (Term.sym s)
  | _ => .error .other

end Infix

end PySMT.Mk
