/-
Model of the solver/logic selection of `pysmt.factory.Factory` (factory.py: `_get_solver_class`,
`_pick_favorite`, `_filter_solvers`) and of the logic a script is labelled with
(`smtlib/script.py: smtlibscript_from_formula`, the `logic is None` branch).

A solver class is its name and its `LOGICS`; `solver_list` (a dict keyed by name) is a list of classes with
pairwise distinct names, in insertion order.  The logic argument is already a `Logic` (the string form goes
through `get_logic_by_name` first).  `most_generic_logic` / `get_closer_logic` are the translated functions of
`Gen/TheoryOrder.lean`.
-/
import PySMT.Impl.TheoryOracle
namespace PySMT.FactorySelect
open PySMT PySMT.Logics

structure SolverClass where
  name : String
  logics : List Logic
deriving DecidableEq, Repr

inductive FErr where
  | NoSolverAvailableError | NoLogicAvailableError | IndexError | UndefinedLogicError
deriving DecidableEq, Repr

def liftErr : Except PyErr Logic → Except FErr Logic
  | .ok l => .ok l
  | .error .NoLogicAvailableError => .error .NoLogicAvailableError
  | .error .IndexError => .error .IndexError
  | .error .UndefinedLogicError => .error .UndefinedLogicError

/-- `_filter_solvers(solver_list, logic)` for a given logic -/
def filterSolvers (sl : List SolverClass) (logic : Logic) : List SolverClass :=
  sl.filter (fun s => s.logics.any (fun l => Logic.le logic l))

/-- `_pick_favorite`: the first name of the preference list that is among the filtered solvers -/
def pickFavorite (prefs : List String) (sl solvers : List SolverClass) : Except FErr SolverClass :=
  match prefs.find? (fun c => solvers.any (fun s => s.name == c)) with
  | some c =>
    (match sl.find? (fun s => s.name == c) with
     | some s => .ok s
     | none => .error .NoSolverAvailableError)      -- KeyError cannot happen: solvers ⊆ solver_list
  | none => .error .NoSolverAvailableError

/-- the logic the selection works with when a solver name is given: the requested one, else the most generic
logic of the class, else the default logic if the class lists it -/
def effLogic (cls : SolverClass) (defaultLogic : Logic) : Option Logic → Except FErr Logic
  | some g => .ok g
  | none =>
    match most_generic_logic cls.logics with
    | .ok m => .ok m
    | .error .NoLogicAvailableError =>
        if cls.logics.contains defaultLogic then .ok defaultLogic else .error .NoLogicAvailableError
    | .error e => liftErr (.error e)

/-- `closer_logic = get_closer_logic(SolverClass.LOGICS, logic); return SolverClass, closer_logic` -/
def finish (cls : SolverClass) (g : Logic) : Except FErr (SolverClass × Logic) :=
  match liftErr (get_closer_logic cls.logics g) with
  | .ok c => .ok (cls, c)
  | .error e => .error e

/-- is the named solver among `_filter_solvers(solver_list, logic)` (always, when no logic is requested) -/
def supports (sl : List SolverClass) (n : String) : Option Logic → Bool
  | some g => (filterSolvers sl g).any (fun s => s.name == n)
  | none => true

/-- `_get_solver_class(solver_list, solver_type, default_logic, name, logic)` -/
def getSolverClass (sl : List SolverClass) (prefs : List String) (defaultLogic : Logic)
    (name : Option String) (logic : Option Logic) : Except FErr (SolverClass × Logic) :=
  if sl.isEmpty then .error .NoSolverAvailableError else
  match name with
  | some n =>
    (match sl.find? (fun s => s.name == n) with
     | none => .error .NoSolverAvailableError
     | some cls =>
       if !(supports sl n logic) then .error .NoSolverAvailableError
       else (effLogic cls defaultLogic logic).bind (finish cls))
  | none =>
    let g := logic.getD defaultLogic
    if (filterSolvers sl g).isEmpty then .error .NoSolverAvailableError
    else (pickFavorite prefs sl (filterSolvers sl g)).bind (fun cls => finish cls g)

/-- the logic `smtlibscript_from_formula(formula)` puts into `set-logic`: the closest SMT-LIB logic of the
detected one, or the detected (pySMT) logic itself when SMT-LIB has none (the code warns and goes on) -/
def scriptLogic (t : Term) : Except PyErr Logic :=
  match TheoryOracle.getLogic t with
  | .error e => .error e
  | .ok f =>
    (match get_closer_smtlib_logic f with
     | .ok s => .ok s
     | .error .NoLogicAvailableError => .ok f
     | .error e => .error e)

end PySMT.FactorySelect
