import PySMT.Core.Term
import PySMT.Core.TypeOf
/-!
# Rebuilding a node from new children (C05)

Model of `pysmt/walkers/identitydag.py` (every `walk_*` of `IdentityDagWalker` calls the
`FormulaManager` constructor of the node type on the new children) together with the
normalisations of those constructors that can fire when the children changed
(`pysmt/formula.py`):

* `And`/`Or` of no / one element (`formula.py:428-464`), `Plus`/`Times` of one element (237-256, 466-485)
* `Not(Not x) = x` (203-211)
* `ToReal` of a Real term is the term, of an Int constant the Real constant (487-500)
* `Div(l, c)` with `c` a Real constant other than 0 is `Times(l, Real(1/c))`; the environment default
  `enable_div_by_0 = True` keeps `Div(l, 0)` (271-286)
* `ForAll`/`Exists` over no variable is the body (159-187)
* every bit-vector constructor recomputes the payload from `bv_width()` of the *new* child
  (`formula.py:697-929`, `fnode.py:468-493`)
* `Array(idx, default, assign)` goes through a `dict` (a repeated key keeps its first position and
  its last value) and drops the pairs whose value is the default (1098-1120); the order of the
  pairs is the order of the keys' object ids, which the model does not have: it keeps the order of
  first occurrence, and the harness compares array values up to the order of the pairs.

`create_node` type-checks every node it creates; `rebuildOk` says whether the constructor returns
(`true`) or raises.
-/
namespace PySMT.Build

/-- `FNode.bv_width()` (`fnode.py:468-493`). `none` = the method raises.
A `bvComp` node answers `1` (its constructor always stores the payload `(1,)`). -/
def fnodeWidth : Term → Option Nat
  | .node op args p =>
    let ws := args.map fnodeWidth
    match op, p with
    | .bvConst, .bv _ w => some w
    | .symbol, .sym s => if s.params.isEmpty then (match s.ret with | .bv w => some w | _ => none) else none
    | .function, .sym f => (match f.ret with | .bv w => some w | _ => none)
    | .ite, _ => (match ws with | [_, w, _] => w | _ => none)
    | .arraySelect, _ =>
      (match args.map Term.typeOf with
       | some (.array _ (.bv w)) :: _ => some w
       | _ => none)
    | .bvComp, _ => some 1
    | _, .ints (w :: _) => some w
    | _, _ => none

/-- `FNode.is_constant()` (`fnode.py:145-161`): a constant node, or an array value all of whose
children are constants. -/
def isConst : Term → Bool
  | .node op args _ =>
    op.isConstant || (op == .arrayValue && (args.map isConst).all id)

/-- `zip(args[1::2], args[2::2])` -/
def pairsOf : List Term → List (Term × Term)
  | k :: v :: rest => (k, v) :: pairsOf rest
  | _ => []

def unpairs : List (Term × Term) → List Term
  | [] => []
  | (k, v) :: rest => k :: v :: unpairs rest

/-- `d[k] = v` on an insertion-ordered `dict` -/
def dictInsert (k v : Term) : List (Term × Term) → List (Term × Term)
  | [] => [(k, v)]
  | (k', v') :: rest => if k' = k then (k', v) :: rest else (k', v') :: dictInsert k v rest

/-- `dict(pairs)` -/
def pyDict (ps : List (Term × Term)) : List (Term × Term) :=
  ps.foldl (fun d kv => dictInsert kv.1 kv.2 d) []

/-- payload width of a unary/binary bit-vector operator after rebuilding: `bv_width()` of the
first new child (`p` when that raises; then `rebuildOk` is `false`) -/
def bvPayload (p : Payload) (a : Term) : Payload :=
  match fnodeWidth a with
  | some w => .ints [w]
  | none => p

def isBvSameWidthOp : Op → Bool
  | .bvNot | .bvNeg | .bvAnd | .bvOr | .bvXor | .bvAdd | .bvSub | .bvMul | .bvUdiv | .bvUrem
  | .bvLshl | .bvLshr | .bvAshr | .bvSdiv | .bvSrem => true
  | _ => false

/-! The constructors, one definition per node type with a normalisation (`p` = payload of the node
being rebuilt, `as` = the new children). All are total: when the Python constructor raises, the
raw node is returned and `rebuildOk` is `false`. -/

/-- `And(args)` -/
def mkAndN (p : Payload) : List Term → Term
  | [] => .tt
  | [a] => a
  | as => .node .and as p
/-- `Or(args)` -/
def mkOrN (p : Payload) : List Term → Term
  | [] => .ff
  | [a] => a
  | as => .node .or as p
/-- `Plus(args)` / `Times(args)` -/
def mkArithN (op : Op) (p : Payload) : List Term → Term
  | [a] => a
  | as => .node op as p
/-- `Not(a)` -/
def mkNotN (p : Payload) : List Term → Term
  | [.node .not [b] _] => b
  | as => .node .not as p
/-- `ToReal(a)` -/
def mkToReal (p : Payload) : List Term → Term
  | [a] =>
    (match a.typeOf, a with
     | some .real, _ => a
     | _, .node .intConst [] (.i v) => .real v
     | _, _ => .node .toReal [a] p)
  | as => .node .toReal as p
/-- `Div(a, b)` with `enable_div_by_0 = True` -/
def mkDiv (p : Payload) : List Term → Term
  | [a, .node .realConst [] (.q c)] =>
    if c = 0 then .node .div [a, .node .realConst [] (.q c)] p else .node .times [a, .real (1 / c)] .none
  | as => .node .div as p
/-- `ForAll(vars, b)` / `Exists(vars, b)` -/
def mkQuant (op : Op) (p : Payload) : List Term → Term
  | [b] => (match p with | .qvars [] => b | _ => .node op [b] p)
  | as => .node op as p
/-- `BVConcat(a, b)` -/
def mkConcat (p : Payload) : List Term → Term
  | [a, b] =>
    (match fnodeWidth a, fnodeWidth b with
     | some wa, some wb => .node .bvConcat [a, b] (.ints [wa + wb])
     | _, _ => .node .bvConcat [a, b] p)
  | as => .node .bvConcat as p
/-- `BVExtract(a, start, end)` -/
def mkExtract (p : Payload) (as : List Term) : Term :=
  match p with
  | .ints [_, lo, hi] => .node .bvExtract as (.ints [hi - lo + 1, lo, hi])
  | _ => .node .bvExtract as p
/-- `BVRol(a, steps)` / `BVRor(a, steps)` -/
def mkRot (op : Op) (p : Payload) : List Term → Term
  | [a] =>
    (match p, fnodeWidth a with
     | .ints [_, k], some w => .node op [a] (.ints [w, k])
     | _, _ => .node op [a] p)
  | as => .node op as p
/-- `BVZExt(a, increase)` / `BVSExt(a, increase)` -/
def mkExt (op : Op) (p : Payload) : List Term → Term
  | [a] =>
    (match p, fnodeWidth a with
     | .ints [_, inc], some w => .node op [a] (.ints [w + inc, inc])
     | _, _ => .node op [a] p)
  | as => .node op as p
/-- `Array(idx_type, default, dict(zip(keys, values)))` -/
def mkArray (p : Payload) : List Term → Term
  | d :: rest => .node .arrayValue (d :: unpairs ((pyDict (pairsOf rest)).filter (fun kv => kv.2 ≠ d))) p
  | [] => .node .arrayValue [] p
/-- the unary / binary bit-vector operators whose payload is the width of the first argument -/
def mkBvOp (op : Op) (p : Payload) : List Term → Term
  | a :: rest => .node op (a :: rest) (bvPayload p a)
  | [] => .node op [] p

/-- `IdentityDagWalker.walk_<op>(formula, args)` : the manager constructor of `op` applied to the
new children `as`. -/
def rebuild (op : Op) (p : Payload) (as : List Term) : Term :=
  match op with
  | .and => mkAndN p as
  | .or => mkOrN p as
  | .plus => mkArithN .plus p as
  | .times => mkArithN .times p as
  | .not => mkNotN p as
  | .toReal => mkToReal p as
  | .div => mkDiv p as
  | .forall_ => mkQuant .forall_ p as
  | .exists_ => mkQuant .exists_ p as
  | .bvConcat => mkConcat p as
  | .bvExtract => mkExtract p as
  | .bvRol => mkRot .bvRol p as
  | .bvRor => mkRot .bvRor p as
  | .bvZext => mkExt .bvZext p as
  | .bvSext => mkExt .bvSext p as
  | .bvComp => .node .bvComp as (.ints [1])
  | .arrayValue => mkArray p as
  | op => if isBvSameWidthOp op then mkBvOp op p as else .node op as p

/-- the constructor called by `rebuild` returns (does not raise): its own argument checks pass and
`create_node`'s type check accepts the new node. `pow` is outside the modelled fragment. -/
def rebuildOk (op : Op) (p : Payload) (as : List Term) : Bool :=
  (match op with
   | .pow => false
   | .plus | .times => !as.isEmpty
   | .strConcat => decide (2 ≤ as.length)
   | .arrayValue => (pairsOf as.tail).all (fun kv => isConst kv.1)
   | .bvExtract =>
     (match p, as with
      | .ints [_, lo, hi], [a] =>
        (match fnodeWidth a with | some w => decide (lo ≤ hi) && decide (hi - lo + 1 ≤ w) | none => false)
      | _, _ => false)
   | .bvConcat => (match as with | [a, b] => (fnodeWidth a).isSome && (fnodeWidth b).isSome | _ => false)
   | .bvRol | .bvRor | .bvZext | .bvSext => (match as with | [a] => (fnodeWidth a).isSome | _ => false)
   | op => !isBvSameWidthOp op || (match as with | a :: _ => (fnodeWidth a).isSome | [] => false))
  && (rebuild op p as).typeOf.isSome

/-! ## Normal terms: what the constructors produce

`normalNode op p args` holds for every node a `FormulaManager` constructor can return (given
normal children); on such nodes rebuilding with the same children is the identity
(`Proofs/C05Build.lean: rebuild_self`). -/

def normalNode (op : Op) (p : Payload) (args : List Term) : Bool :=
  match op with
  | .and | .or | .plus | .times => decide (2 ≤ args.length)
  | .not => (match args with | [a] => a.op != .not | _ => false)
  | .toReal => (match args with | [a] => a.typeOf != some .real && a.op != .intConst | _ => false)
  | .div => (match args with | [_, b] => !(b.op == .realConst && b != .real 0) | _ => false)
  | .forall_ | .exists_ => p != .qvars []
  | .bvConcat =>
    (match args with
     | [a, b] => (match fnodeWidth a, fnodeWidth b with | some wa, some wb => p == .ints [wa + wb] | _, _ => false)
     | _ => false)
  | .bvExtract => (match p with | .ints [w, lo, hi] => w == hi - lo + 1 | _ => false)
  | .bvRol | .bvRor =>
    (match args with
     | [a] => (match p, fnodeWidth a with | .ints [w, _], some wa => w == wa | _, _ => false)
     | _ => false)
  | .bvZext | .bvSext =>
    (match args with
     | [a] => (match p, fnodeWidth a with | .ints [w, inc], some wa => w == wa + inc | _, _ => false)
     | _ => false)
  | .bvComp => p == .ints [1]
  | .arrayValue =>
    (match args with
     | d :: rest => decide (rest = unpairs ((pyDict (pairsOf rest)).filter (fun kv => kv.2 ≠ d)))
     | [] => false)
  | .pow => false
  | .intConst => (match p with | .i _ => true | _ => false)
  | .realConst => (match p with | .q _ => true | _ => false)
  | op =>
    !isBvSameWidthOp op ||
      (match args with
       | a :: _ => (match fnodeWidth a with | some w => p == .ints [w] | none => false)
       | [] => false)

def normal : Term → Bool
  | .node op args p => (args.map normal).all id && normalNode op p args

end PySMT.Build
