import PySMT.Core.Term
import PySMT.Core.TypeOf
/-!
# `Term.wf` — well-formed terms: what the `FormulaManager` constructors guarantee

`Term.wt` (Core/TypeOf.lean) is the model of `SimpleTypeChecker`, which does **not** check
arities (`Plus()` of no argument "has type" Real, `Minus(a)` is accepted, `Pow` is typed
Real although it has no semantics). Every node a `FormulaManager` constructor creates has
the arity of its operator; `Term.wf` adds exactly this to `wt`:

* `Op.shapeOK op p n` : a node `op` with payload `p` may have `n` arguments
  (binary operators 2, `plus`/`times` ≥ 2 as `Plus`/`Times` build them, quantifiers carry a
  `.qvars` payload, constants carry the payload of their sort, a bit-vector constant is
  `< 2^width`, extract/extend/rotate carry their index payload with `lo ≤ hi`, …); `pow` and algebraic constants
  are outside the semantics (`Core/Eval.lean`) and never well-formed;
* `Term.wf t` : every node of `t` has an admissible shape and is accepted by the checker.

On well-formed terms the reference semantics is type-sound
(`PySMT.eval_hasSort`, Proofs/SimpSorts.lean); on merely `wt` terms it is not
(`plus []` : Real evaluates to the integer 0).
-/
namespace PySMT

/-- may a node `op` with payload `p` have `n` arguments? -/
def Op.shapeOK (op : Op) (p : Payload) (n : Nat) : Bool :=
  match op, p with
  | .pow, _ | .algebraicConst, _ => false
  | .forall_, .qvars _ | .exists_, .qvars _ => n == 1
  | .forall_, _ | .exists_, _ => false
  | .and, _ | .or, _ | .strConcat, _ | .arrayValue, _ => true
  | .function, _ => decide (1 ≤ n)          -- `Function(f, [])` is the symbol `f`, never a node
  | .symbol, _ | .realConst, .q _ | .boolConst, .b _ | .intConst, .i _ | .strConst, .s _ => n == 0
  | .realConst, _ | .boolConst, _ | .intConst, _ | .strConst, _ => false
  | .bvConst, .bv v w => n == 0 && decide (v < 2 ^ w)
  | .bvConst, _ => false
  | .plus, _ | .times, _ => decide (2 ≤ n)
  | .bvExtract, .ints [_, lo, hi] => n == 1 && decide (lo ≤ hi)
  | .bvZext, .ints [_, _] | .bvSext, .ints [_, _] | .bvRol, .ints [_, _] | .bvRor, .ints [_, _] => n == 1
  | .bvExtract, _ | .bvZext, _ | .bvSext, _ | .bvRol, _ | .bvRor, _ => false
  | .not, _ | .toReal, _ | .bvNot, _ | .bvNeg, _
  | .strLength, _ | .strToInt, _ | .intToStr, _ | .bvToNatural, _ => n == 1
  | .ite, _ | .strIndexOf, _ | .strReplace, _ | .strSubstr, _ | .arrayStore, _ => n == 3
  | _, _ => n == 2

/-- every node has the shape its constructor gives it and is accepted by the type checker -/
def Term.wf : Term → Bool
  | .node op args p =>
    (args.map Term.wf).all id && op.shapeOK p args.length
      && (typeOfNode op p (args.map Term.typeOf)).isSome

theorem Term.wf_node {op : Op} {args : List Term} {p : Payload} :
    (Term.node op args p).wf = true ↔
      (∀ a ∈ args, a.wf = true) ∧ op.shapeOK p args.length = true
        ∧ (typeOfNode op p (args.map Term.typeOf)).isSome = true := by
  simp only [Term.wf, Bool.and_eq_true, List.all_eq_true, List.mem_map, id]
  constructor
  · rintro ⟨⟨h1, h2⟩, h3⟩
    exact ⟨fun a ha => h1 _ ⟨a, ha, rfl⟩, h2, h3⟩
  · rintro ⟨h1, h2, h3⟩
    refine ⟨⟨?_, h2⟩, h3⟩
    rintro _ ⟨a, ha, rfl⟩
    exact h1 a ha

theorem Term.wf_wt : (t : Term) → t.wf = true → t.wt = true
  | .node op args p => by
    intro h
    have ⟨h1, _, h3⟩ := Term.wf_node.mp h
    simp only [Term.wt, Bool.and_eq_true, List.all_eq_true, List.mem_map, id]
    refine ⟨?_, h3⟩
    rintro _ ⟨a, ha, rfl⟩
    exact Term.wf_wt a (h1 a ha)

end PySMT
