import Std.Data.HashMap
import PySMT.Impl.Walker

/-!
Line protocol of the generic walker model (shared by `Drivers/C14.lean`, `C15.lean`, `C20.lean`).

    walker ch=<c,c;c;...> direct=<n,n|-> inv=<0|1> short=<0|1> full=<0|1> memo=<n,n|-> ops=<op;op;...>

* `ch`     children list of node 0, 1, 2, ... (`;` between nodes, `,` between children; every child index must be
           smaller than the node's own index: the index is the rank)
* `direct` nodes at which the walker overrides `_push_with_children_to_stack` (quantifiers)
* `inv`    `invalidate_memoization`;  `short` whether `formula in self.memoization` can hit (plain `_get_key`)
* `memo`   nodes memoised (with their specified value) before the first operation
* ops      `w<n>` walk node n | `w<n>@<k>` walk n, exception injected at the k-th callback invocation of this walk
           (k ≥ 1) | `w<n>!<a,b>` walk n, the callback raises at nodes a, b | `w<n>#c<a>` walk n, `_get_children(a)`
           raises | `w<n>#k<a>` walk n, `_get_key(a)` raises

The callback of the model is the hash `h(n, args) = fold (acc·31 + a) mod 1000003` starting from `n + 1`; an injected
exception carries the node at which it was raised.  The iteration budget is the proved bound `2·edges + 2`.

Answer: one field per operation, separated by ` | `:

    <ok:r | err:n | keyerr | fuel> c=<callbacks of this walk, in order> st=<len(stack) after> m=<memo keys after>
    p=<stack.append count of this walk> i=<loop iterations of this walk>

with `full=0` the two lists are replaced by `<length>:<rolling hash>`.
-/

namespace PySMT.WalkerDriver
open PySMT.Walker

abbrev HMemo := Std.HashMap Nat Nat

instance : MemoLike HMemo Nat Nat where
  empty := {}
  look m n := m[n]?
  insert m n r := m.insert n r

/-- the DAG of a request: node indices are ranks -/
def mkGraph (ch : Array (List Nat)) : Graph Nat where
  children n := (ch.getD n []).filter (fun c => decide (c < n))
  rank n := n
  acyclic := by
    intro n c h
    have := (List.mem_filter.mp h).2
    simpa using this

def modP : Nat := 1000003

/-- the callback every generic test walker computes -/
def hcb (n : Nat) (args : List Nat) : Nat :=
  args.foldl (fun acc a => (acc * 31 + a) % modP) ((n + 1) % modP)

/-- callback with fault injection: raise at total invocation number `failAt`, or at a node of `failNodes` -/
def cb (failAt : Option Nat) (failNodes : List Nat) (tr : List Nat) (n : Nat) (args : List Nat) : Except Nat Nat :=
  match failAt with
  | some k => if tr.length == k then .error n
              else if failNodes.contains n then .error n else .ok (hcb n args)
  | none => if failNodes.contains n then .error n else .ok (hcb n args)

structure Req where
  ch : Array (List Nat)
  direct : List Nat
  inv : Bool
  short : Bool
  full : Bool
  memo : List Nat
  ops : List String

def parseNats (s : String) : Option (List Nat) :=
  if s == "-" || s == "" then some [] else (s.splitOn ",").mapM String.toNat?

def parseBool (s : String) : Option Bool :=
  if s == "0" then some false else if s == "1" then some true else none

def field (key : String) (tok : String) : Option String :=
  if tok.startsWith (key ++ "=") then some (tok.drop (key.length + 1)).toString else none

def parseReq (line : String) : Option Req :=
  match line.splitOn " " with
  | ["walker", a, b, c, d, e, f, g] => do
    let chs ← field "ch" a
    let ch ← (chs.splitOn ";").mapM parseNats
    let direct ← (field "direct" b) >>= parseNats
    let inv ← (field "inv" c) >>= parseBool
    let short ← (field "short" d) >>= parseBool
    let full ← (field "full" e) >>= parseBool
    let memo ← (field "memo" f) >>= parseNats
    let ops ← field "ops" g
    let cha := ch.toArray
    -- well-formedness: children below the node, indices in range
    let okCh := (List.range cha.size).all (fun n => (cha.getD n []).all (fun c => decide (c < n)))
    let okIdx := (direct ++ memo).all (fun n => decide (n < cha.size))
    if okCh && okIdx then some ⟨cha, direct, inv, short, full, memo, ops.splitOn ";"⟩ else none
  | _ => none

inductive Op where
  | walk (n : Nat) (failAt : Option Nat) (failNodes : List Nat)
  | walkFault (n : Nat) (children : Bool) (at_ : Nat)    -- `_get_children(at_)` / `_get_key(at_)` raises

def parseOp (size : Nat) (s : String) : Option Op :=
  if !s.startsWith "w" then none else
  let body := (s.drop 1).toString
  if (body.splitOn "#").length == 2 then
    match body.splitOn "#" with
    | [n, fl] => do
      let n ← n.toNat?
      let a ← (fl.drop 1).toString.toNat?
      if n < size && a < size && (fl.startsWith "c" || fl.startsWith "k") then
        some (.walkFault n (fl.startsWith "c") a) else none
    | _ => none
  else
  match body.splitOn "@" with
  | [n, k] => do
    let n ← n.toNat?
    let k ← k.toNat?
    if n < size && k ≥ 1 then some (.walk n (some k) []) else none
  | [_] =>
    match body.splitOn "!" with
    | [n, l] => do
      let n ← n.toNat?
      let l ← parseNats l
      if n < size then some (.walk n none l) else none
    | [n] => do
      let n ← n.toNat?
      if n < size then some (.walk n none []) else none
    | _ => none
  | _ => none

def rolling (l : List Nat) : Nat :=
  l.foldl (fun h x => (h * 1000003 + x + 1) % 2305843009213693951) 0

def showList (full : Bool) (l : List Nat) : String :=
  if full then (if l.isEmpty then "-" else ",".intercalate (l.map toString))
  else s!"{l.length}:{rolling l}"

def showOut : WOut Nat Nat → String
  | .ok r => s!"ok:{r}"
  | .raise (.cb n) => s!"err:{n}"
  | .raise .key => "keyerr"
  | .fuel => "fuel"

def memoKeys (size : Nat) (m : HMemo) : List Nat :=
  (List.range size).filter (fun n => m.contains n)

/-- the specified value of every node (used only to pre-populate `memo=`): a fault-free walk of each node in a
    scratch walker -/
def specValues (g : Graph Nat) (dir : Nat → Bool) (size fuel : Nat) : HMemo :=
  let s0 : WState HMemo Nat := WState.init
  let s := (List.range size).foldl
    (fun s n => (walk g dir (cb none []) false false fuel n s).2) s0
  s.memo

def runOps (r : Req) : Option String := do
  let size := r.ch.size
  let ops ← r.ops.mapM (parseOp size)
  let g := mkGraph r.ch
  let dir : Nat → Bool := fun n => r.direct.contains n
  let edges := r.ch.foldl (fun acc l => acc + l.length) 0
  let fuel := 2 * edges + 2
  let memo0 : HMemo :=
    if r.memo.isEmpty then {} else
      let sv := specValues g dir size fuel
      r.memo.foldl (fun m n => match sv[n]? with | some v => m.insert n v | none => m) {}
  let s0 : WState HMemo Nat := { (WState.init : WState HMemo Nat) with memo := memo0 }
  let (outs, _) := ops.foldl (fun (acc : List String × WState HMemo Nat) op =>
      let (outs, s) := acc
      match op with
      | .walk n failAt failNodes =>
        let base := s.trace.length
        let fa := failAt.map (fun k => base + k - 1)
        let (o, s') := walk g dir (cb fa failNodes) r.inv r.short fuel n s
        let newCalls := (s'.trace.take (s'.trace.length - base)).reverse
        let line := s!"{showOut o} c={showList r.full newCalls} st={s'.stack.length} " ++
          s!"m={showList r.full (memoKeys size s'.memo)} p={s'.pushes - s.pushes} i={s'.iters - s.iters}"
        (line :: outs, s')
      | .walkFault n ch a =>
        let base := s.trace.length
        let flt : Faults Nat Nat :=
          if ch then ⟨fun x => if x == a then some a else none, fun _ => none⟩
          else ⟨fun _ => none, fun x => if x == a then some a else none⟩
        let (o, s') := walkF g dir (cb none []) flt r.inv r.short fuel n s
        let newCalls := (s'.trace.take (s'.trace.length - base)).reverse
        let line := s!"{showOut o} c={showList r.full newCalls} st={s'.stack.length} " ++
          s!"m={showList r.full (memoKeys size s'.memo)} p={s'.pushes - s.pushes} i={s'.iters - s.iters}"
        (line :: outs, s')) ([], s0)
  some (" | ".intercalate outs.reverse)

def answer (line : String) : String :=
  match parseReq line with
  | none => "bad-op"
  | some r =>
    match runOps r with
    | none => "bad-op"
    | some s => s

partial def loop (h : IO.FS.Stream) (out : IO.FS.Stream) : IO Unit := do
  let line ← h.getLine
  if line.isEmpty then return ()
  let line := if line.back == '\n' then (line.dropEnd 1).toString else line
  out.putStrLn (answer line)
  loop h out

def main : IO Unit := do
  let out ← IO.getStdout
  loop (← IO.getStdin) out
  out.flush

end PySMT.WalkerDriver
