import PySMT.Impl.Simplifier
import PySMT.Impl.Subst
/-!
# Model of `EagerModel.get_value` (pysmt/solvers/eager.py:43-79)

    def get_value(self, formula, model_completion=True):
        if model_completion:
            syms = formula.get_free_variables()
            self._complete_model(syms)
            r = substituter.substitute(formula, self.completed_assignment)
        else:
            r = substituter.substitute(formula, self.assignment)
        res = simplifier.simplify(r)
        if not res.is_constant(): raise PysmtTypeError(...)
        return res

The assignment maps *symbols* to *constants*. On quantifier-free formulas the (MG)
substituter replaces every occurrence of an assigned symbol and rebuilds the other nodes
with the `FormulaManager` constructors. Two models: `getValue'` / `satisfies'` (end of this file)
use the model of that substituter (`Subst.substMG`, Impl/Subst.lean, C05) — this is the code's
pipeline, compared end to end with the real code by `Drivers/C02.lean`; `getValue` / `satisfies`
replace the symbols in place (`substConst`, no rebuilding). `Props/C02.lean` proves the same
theorems for both and that they return the same constant (`getValue'_eq_getValue_partial`).
-/
namespace PySMT.Model
open PySMT.Simplifier

/-- an assignment: symbol ↦ constant, first binding wins (a Python dict has one per key) -/
abbrev Asg := List (Sym × Term)

def Asg.get (σ : Asg) (s : Sym) : Option Term :=
  match σ with
  | [] => none
  | (k, v) :: rest => if k = s then some v else Asg.get rest s

/-- replace every assigned symbol by its constant -/
def substConst (σ : Asg) : Term → Term
  | .node op args p =>
    match op, p with
    | .symbol, .sym s => (σ.get s).getD (.node op args p)
    | _, _ => .node op (args.map (substConst σ)) p

/-- `_complete_model` defaults (eager.py:62-73); `none` = "Unhandled type" -/
def defaultOf : Ty → Option Term
  | .bool => some (Term.bool false)
  | .real => some (Term.real 0)
  | .int => some (Term.int 0)
  | .bv w => some (Term.bvc 0 w)
  | _ => none

/-- `_complete_model(symbols)`: every symbol without a value gets the default of its sort -/
def complete (σ : Asg) : List Sym → Option Asg
  | [] => some σ
  | s :: rest =>
    match σ.get s with
    | some _ => complete σ rest
    | none =>
      if s.params.isEmpty then
        match defaultOf s.ret with
        | some d => complete (σ ++ [(s, d)]) rest
        | none => none
      else none

/-- `get_value`; `none` = the method raises -/
def getValue (completion : Bool) (σ : Asg) (f : Term) : Option Term :=
  match (if completion then complete σ f.fv else some σ) with
  | none => none
  | some σ' =>
    let r := simp (substConst σ' f)
    if Build.isConstant r then some r else none

/-- `Model.satisfies(formula)` (pysmt/solvers/solver.py:492-532) for an `EagerModel` and no solver
argument: `subs = self.get_values(free_variables)` asks `get_value` (with completion) for every free
symbol, i.e. completes the assignment on the free symbols of the formula (and raises — `none` —
for a symbol whose sort has no default); the formula is substituted and simplified; `True` iff the
result is the constant TRUE. Every other outcome (the constant FALSE, remaining free symbols = partial
model, a division by zero that is not folded — the replacement loop needs a solver) is `False`. -/
def satisfies (σ : Asg) (f : Term) : Option Bool :=
  match complete σ f.fv with
  | none => none
  | some σ' => some (Build.isTrue (simp (substConst σ' f)))

/-! ## the code's own substitution step

`get_value` / `satisfies` call `self.environment.substituter.substitute(formula, assignment)`; the
default substituter of an `Environment` is `MGSubstituter`, which **rebuilds** every node it does not
replace through the `FormulaManager` constructors (`Div(x, c)` becomes `Times(x, 1/c)`, `Not(Not x)`
collapses, `ToReal` of a constant folds, bit-vector payloads are recomputed, array values go through
`Array(...)`): `Subst.substMG` (Impl/Subst.lean, the model of C05). `getValue'` / `satisfies'` are
`get_value` / `satisfies` with this step; `getValue` / `satisfies` above replace the symbols in place.
The two agree wherever the result is a constant (`Props/C02.lean: getValue'_eq_getValue_partial`). -/

/-- the assignment as the `dict` handed to `substitute`: symbol node ↦ value -/
def Asg.toTMap (σ : Asg) : Subst.TMap := σ.map (fun kv => (Term.sym kv.1, kv.2))

/-- `substituter.substitute(f, assignment)` with the environment's `MGSubstituter` -/
def substAsg (σ : Asg) (f : Term) : Term := Subst.substMG false [] σ.toTMap f

/-- `get_value` with the code's substitution step; `none` = the method raises -/
def getValue' (completion : Bool) (σ : Asg) (f : Term) : Option Term :=
  match (if completion then complete σ f.fv else some σ) with
  | none => none
  | some σ' =>
    let r := simp (substAsg σ' f)
    if Build.isConstant r then some r else none

/-- `Model.satisfies` with the code's substitution step -/
def satisfies' (σ : Asg) (f : Term) : Option Bool :=
  match complete σ f.fv with
  | none => none
  | some σ' => some (Build.isTrue (simp (substAsg σ' f)))

end PySMT.Model
