import PySMT.Impl.Simplifier
/-!
# Model of `EagerModel.get_value` (pysmt/solvers/eager.py:43-79)

    def get_value(self, formula, model_completion=True):
        if model_completion:
            syms = formula.get_free_variables()
            self._complete_model(syms)
            r = substituter.substitute(formula, self.completed_assignment)
        else:
            r = substituter.substitute(formula, self.assignment)
        res = simplifier.simplify(r)
        if not res.is_constant(): raise PysmtTypeError(...)
        return res

The assignment maps *symbols* to *constants*. On quantifier-free formulas the (MG)
substituter replaces every occurrence of an assigned symbol and rebuilds the other nodes
with the `FormulaManager` constructors; that rebuilding is subsumed by the simplifier, which
rebuilds every node again (`simp` of the raw replacement `substConst` = `simplify` of the
rebuilt term — compared end to end by the driver request `getvalue`). The general
substituter (binders, term keys, interpretations) is `Impl/Subst.lean` (C05).
-/
namespace PySMT.Model
open PySMT.Simplifier

/-- an assignment: symbol ↦ constant, first binding wins (a Python dict has one per key) -/
abbrev Asg := List (Sym × Term)

def Asg.get (σ : Asg) (s : Sym) : Option Term :=
  match σ with
  | [] => none
  | (k, v) :: rest => if k = s then some v else Asg.get rest s

/-- replace every assigned symbol by its constant -/
def substConst (σ : Asg) : Term → Term
  | .node op args p =>
    match op, p with
    | .symbol, .sym s => (σ.get s).getD (.node op args p)
    | _, _ => .node op (args.map (substConst σ)) p

/-- `_complete_model` defaults (eager.py:62-73); `none` = "Unhandled type" -/
def defaultOf : Ty → Option Term
  | .bool => some (Term.bool false)
  | .real => some (Term.real 0)
  | .int => some (Term.int 0)
  | .bv w => some (Term.bvc 0 w)
  | _ => none

/-- `_complete_model(symbols)`: every symbol without a value gets the default of its sort -/
def complete (σ : Asg) : List Sym → Option Asg
  | [] => some σ
  | s :: rest =>
    match σ.get s with
    | some _ => complete σ rest
    | none =>
      if s.params.isEmpty then
        match defaultOf s.ret with
        | some d => complete (σ ++ [(s, d)]) rest
        | none => none
      else none

/-- `get_value`; `none` = the method raises -/
def getValue (completion : Bool) (σ : Asg) (f : Term) : Option Term :=
  match (if completion then complete σ f.fv else some σ) with
  | none => none
  | some σ' =>
    let r := simp (substConst σ' f)
    if Build.isConstant r then some r else none

/-- `Model.satisfies(formula)` (pysmt/solvers/solver.py:492-532) for an `EagerModel` and no solver
argument: `subs = self.get_values(free_variables)` asks `get_value` (with completion) for every free
symbol, i.e. completes the assignment on the free symbols of the formula (and raises — `none` —
for a symbol whose sort has no default); the formula is substituted and simplified; `True` iff the
result is the constant TRUE. Every other outcome (the constant FALSE, remaining free symbols = partial
model, a division by zero that is not folded — the replacement loop needs a solver) is `False`. -/
def satisfies (σ : Asg) (f : Term) : Option Bool :=
  match complete σ f.fv with
  | none => none
  | some σ' => some (Build.isTrue (simp (substConst σ' f)))

end PySMT.Model
