/-
Generic model of `pysmt/walkers/dag.py: DagWalker` (C14, C15, C20).

The Python class is a memoised work-stack machine:

    walk(formula)                      -- memo shortcut, try: iter_walk finally: clean up   (after the F22 repair)
    iter_walk(formula)                 -- stack.append((False, formula)); _process_stack(); return memo[key]
    _process_stack()                   -- while stack: pop; expanded ? _compute_node_result : _push_with_children_to_stack
    _push_with_children_to_stack(f)    -- append (True, f), then (False, c) for every child whose key is not memoised
    _compute_node_result(f)            -- if key not memoised: memo[key] = functions[type](f, args = [memo[key c] for c])

It is modelled once over an abstract finite DAG.  A node `n : N` of the model is a *memoisation key*
(`_get_key`): the plain formula for most walkers, the pair (measure, formula) for `SizeOracle`,
(formula, polarity) for the polarity CNF-izer; `children` is `_get_children` on keys.  `direct n`
marks the nodes at which `Substituter` / `SmtDagPrinter` override `_push_with_children_to_stack`
(quantifiers): the callback is invoked at once, nothing is pushed.

Nothing here is proved; see `PySMT/Proofs/Walker*.lean` and `PySMT/Props/C{14,15,20}.lean`.
-/

namespace PySMT.Walker

/-- A finite DAG given by its child lists; `rank` witnesses acyclicity. -/
structure Graph (N : Type) where
  children : N → List N
  rank     : N → Nat
  acyclic  : ∀ n c, c ∈ children n → rank c < rank n

/-- The memoisation dictionary, abstractly (`look` = `key in memo` / `memo[key]`, `insert` = `memo[key] = r`,
    `empty` = `memo.clear()`).  The theorems hold for every lawful implementation; the proofs' reference
    implementation is the association list below, the driver uses a hash map. -/
class MemoLike (M : Type) (N R : outParam Type) where
  empty  : M
  look   : M → N → Option R
  insert : M → N → R → M

export MemoLike (look)

class LawfulMemo (M : Type) (N R : outParam Type) [DecidableEq N] [MemoLike M N R] : Prop where
  look_empty  : ∀ n : N, look (MemoLike.empty : M) n = none
  look_insert : ∀ (m : M) (n : N) (r : R) (x : N),
      look (MemoLike.insert m n r) x = if x = n then some r else look m x

/-- association-list dictionary -/
abbrev AMemo (N R : Type) := List (N × R)

instance {N R : Type} [DecidableEq N] : MemoLike (AMemo N R) N R where
  empty := []
  look m n := List.lookup n m
  insert m n r := (n, r) :: m

/-- What `walk` can raise: `KeyError` (a child result is missing from the memo) or whatever a callback raised. -/
inductive Err (E : Type) where
  | key
  | cb (e : E)
  deriving DecidableEq, Repr

/-- The walker object's mutable state plus step counters. -/
structure WState (M N : Type) where
  stack  : List (Bool × N)   -- head = last element of the Python list; `(was_expanded, key)`
  memo   : M
  trace  : List N            -- callbacks invoked so far (node of each invocation), most recent first
  pushes : Nat               -- executions of `stack.append`
  iters  : Nat               -- iterations of the `while self.stack` loop

/-- Number of callback invocations so far. -/
def WState.calls {M N : Type} (s : WState M N) : Nat := s.trace.length

/-- Result of running the loop: still running (or finished, when the stack is empty) / an exception escaped. -/
inductive Res (E M N : Type) where
  | run  (s : WState M N)
  | fail (e : Err E) (s : WState M N)

section
variable {M N R E : Type} [DecidableEq N] [MemoLike M N R]

/-- Children on which the walker recurs: none below a `direct` node. -/
def kids (g : Graph N) (direct : N → Bool) (n : N) : List N :=
  if direct n then [] else g.children n

/-- `[memo[key c] for c in children]`; `none` models the `KeyError`. -/
def lookAll (m : M) : List N → Option (List R)
  | [] => some []
  | c :: cs =>
    match look m c with
    | none => none
    | some r =>
      match lookAll m cs with
      | none => none
      | some rs => some (r :: rs)

/-- One iteration of the `while self.stack` loop of `_process_stack`.
    The callback `f tr n args` receives the trace `tr` of the callbacks invoked before it (used only to inject
    faults at the k-th invocation, `k = tr.length + 1`). -/
def step (g : Graph N) (direct : N → Bool) (f : List N → N → List R → Except E R)
    (s : WState M N) : Res E M N :=
  match s.stack with
  | [] => .run s
  | (true, n) :: rest =>                                   -- _compute_node_result
    match look s.memo n with
    | some _ => .run { s with stack := rest, iters := s.iters + 1 }
    | none =>
      match lookAll s.memo (g.children n) with
      | none => .fail .key { s with stack := rest, iters := s.iters + 1 }
      | some args =>
        match f s.trace n args with
        | .ok r => .run { s with stack := rest, memo := MemoLike.insert s.memo n r,
                                 trace := n :: s.trace, iters := s.iters + 1 }
        | .error e => .fail (.cb e) { s with stack := rest, trace := n :: s.trace, iters := s.iters + 1 }
  | (false, n) :: rest =>                                  -- _push_with_children_to_stack
    if direct n then
      -- Substituter / SmtDagPrinter at a quantifier: compute at once (only if not done already), push nothing
      match look s.memo n with
      | some _ => .run { s with stack := rest, iters := s.iters + 1 }
      | none =>
        match f s.trace n [] with
        | .ok r => .run { s with stack := rest, memo := MemoLike.insert s.memo n r,
                                 trace := n :: s.trace, iters := s.iters + 1 }
        | .error e => .fail (.cb e) { s with stack := rest, trace := n :: s.trace, iters := s.iters + 1 }
    else
      let todo := (g.children n).filter (fun c => (look s.memo c).isNone)
      .run { s with stack := (todo.map (fun c => (false, c))).reverse ++ (true, n) :: rest,
                    pushes := s.pushes + 1 + todo.length, iters := s.iters + 1 }

/-- `_process_stack`: the loop, with an explicit iteration budget (the proofs show `2·edges + 2` suffices). -/
def iter (g : Graph N) (direct : N → Bool) (f : List N → N → List R → Except E R) :
    Nat → WState M N → Res E M N
  | 0, s => .run s
  | k + 1, s =>
    match s.stack with
    | [] => .run s                                         -- `while self.stack:` exits
    | _ :: _ =>
      match step g direct f s with
      | .run s' => iter g direct f k s'
      | .fail e s' => .fail e s'

/-- Outcome of `walk`. -/
inductive WOut (E R : Type) where
  | ok (r : R)
  | raise (e : Err E)
  | fuel                     -- the model's iteration budget was too small (never with the proved bound)
  deriving DecidableEq, Repr

/-- The `finally:` block of `walk` (F22 repair): `del self.stack[pending:]`, and the memo of a one-shot walker. -/
def cleanup (inval : Bool) (pending : Nat) (s : WState M N) : WState M N :=
  { s with stack := s.stack.drop (s.stack.length - pending),
           memo := if inval then (MemoLike.empty : M) else s.memo }

/-- `DagWalker.walk(formula)`.
    * `inval` = `invalidate_memoization`;
    * `shortcut` = whether `formula in self.memoization` can hit at all (it cannot when `_get_key` returns a tuple). -/
def walk (g : Graph N) (direct : N → Bool) (f : List N → N → List R → Except E R)
    (inval shortcut : Bool) (fuel : Nat) (n : N) (s : WState M N) : WOut E R × WState M N :=
  match (if shortcut then look s.memo n else none) with
  | some r => (.ok r, s)
  | none =>
    let pending := s.stack.length
    let s1 : WState M N := { s with stack := (false, n) :: s.stack, pushes := s.pushes + 1 }
    match iter g direct f fuel s1 with
    | .fail e s2 => (.raise e, cleanup inval pending s2)
    | .run s2 =>
      match s2.stack with
      | _ :: _ => (.fuel, cleanup inval pending s2)
      | [] =>
        match look s2.memo n with
        | some r => (.ok r, cleanup inval pending s2)
        | none => (.raise .key, cleanup inval pending s2)

/-! #### crash points outside the callbacks

    `_get_children(formula)` and `_get_key(s)` are methods a walker may override, and they can raise:
    `DagWalker._get_key` raises `NotImplementedError` when keyword arguments are passed and it is not overridden,
    `PolarityCNFizer._get_children` and `NNFizer._get_children` contain assertions.  In
    `_push_with_children_to_stack` they run *after* `(True, formula)` was appended, `_get_key` possibly after some
    children were pushed; in `_compute_node_result` `_get_key(formula)` runs first. -/

structure Faults (N E : Type) where
  children : N → Option E      -- `_get_children(n)` raises
  key      : N → Option E      -- `_get_key(n)` raises

def Faults.none {N E : Type} : Faults N E := ⟨fun _ => Option.none, fun _ => Option.none⟩

/-- the children pushed before `_get_key` raises on one of them -/
def pushUntil (flt : Faults N E) (m : M) : List N → List N × Option E
  | [] => ([], Option.none)
  | c :: cs =>
    match flt.key c with
    | some e => ([], some e)
    | Option.none =>
      let r := pushUntil flt m cs
      (if (look m c).isNone then c :: r.1 else r.1, r.2)

/-- the crash point met by the next loop iteration, if any: the error and the state the exception leaves -/
def faultAt (g : Graph N) (direct : N → Bool) (flt : Faults N E) (s : WState M N) : Option (Err E × WState M N) :=
  match s.stack with
  | [] => Option.none
  | (true, n) :: rest =>
    match flt.key n with
    | some e => some (.cb e, { s with stack := rest, iters := s.iters + 1 })
    | Option.none => Option.none
  | (false, n) :: rest =>
    if direct n then
      match flt.key n with
      | some e => some (.cb e, { s with stack := rest, iters := s.iters + 1 })
      | Option.none => Option.none
    else
      match flt.children n with
      | some e => some (.cb e, { s with stack := (true, n) :: rest, pushes := s.pushes + 1, iters := s.iters + 1 })
      | Option.none =>
        let r := pushUntil flt s.memo (g.children n)
        match r.2 with
        | some e => some (.cb e, { s with stack := (r.1.map (fun c => (false, c))).reverse ++ (true, n) :: rest,
                                          pushes := s.pushes + 1 + r.1.length, iters := s.iters + 1 })
        | Option.none => Option.none

/-- one loop iteration with crash points in `_get_children` / `_get_key` -/
def stepF (g : Graph N) (direct : N → Bool) (f : List N → N → List R → Except E R) (flt : Faults N E)
    (s : WState M N) : Res E M N :=
  match faultAt g direct flt s with
  | some (e, s') => .fail e s'
  | Option.none => step g direct f s

def iterF (g : Graph N) (direct : N → Bool) (f : List N → N → List R → Except E R) (flt : Faults N E) :
    Nat → WState M N → Res E M N
  | 0, s => .run s
  | k + 1, s =>
    match s.stack with
    | [] => .run s
    | _ :: _ =>
      match stepF g direct f flt s with
      | .run s' => iterF g direct f flt k s'
      | .fail e s' => .fail e s'

/-- `DagWalker.walk` with the additional crash points -/
def walkF (g : Graph N) (direct : N → Bool) (f : List N → N → List R → Except E R) (flt : Faults N E)
    (inval shortcut : Bool) (fuel : Nat) (n : N) (s : WState M N) : WOut E R × WState M N :=
  match (if shortcut then look s.memo n else none) with
  | some r => (.ok r, s)
  | none =>
    let pending := s.stack.length
    let s1 : WState M N := { s with stack := (false, n) :: s.stack, pushes := s.pushes + 1 }
    match iterF g direct f flt fuel s1 with
    | .fail e s2 => (.raise e, cleanup inval pending s2)
    | .run s2 =>
      match s2.stack with
      | _ :: _ => (.fuel, cleanup inval pending s2)
      | [] =>
        match look s2.memo n with
        | some r => (.ok r, cleanup inval pending s2)
        | none => (.raise .key, cleanup inval pending s2)

/-- The state of a freshly constructed walker. -/
def WState.init : WState M N := ⟨[], MemoLike.empty, [], 0, 0⟩

end

/-! ### Specification: the recursive definition the walker is supposed to compute -/

section
variable {N R E α : Type}

/-- Results of a list of sub-computations; the later siblings are evaluated first (the walker's stack is LIFO),
    so the *first error met* is the one the walker raises. -/
def collect (sp : α → Except E R) : List α → Except E (List R)
  | [] => .ok []
  | c :: cs =>
    match collect sp cs with
    | .error e => .error e
    | .ok rs =>
      match sp c with
      | .error e => .error e
      | .ok r => .ok (r :: rs)

/-- `spec n = f n [spec c | c ∈ kids n]`, by recursion on `rank`. -/
def spec (g : Graph N) (direct : N → Bool) (f : N → List R → Except E R) (n : N) : Except E R :=
  if direct n then f n []
  else
    match collect (fun c : {c // c ∈ g.children n} => spec g direct f c.1) (g.children n).attach with
    | .error e => .error e
    | .ok args => f n args
termination_by g.rank n
decreasing_by exact g.acyclic n c.1 c.2

end

/-! ### Instances: the overriding walkers -/

section
variable {N : Type}

/-- `SizeOracle._get_key = (measure, formula)`, `PolarityCNFizer._get_key = (formula, pol)` with the plain
    `_get_children`: the key space is a product, the extra component is inherited by the children. -/
def Graph.tagged (g : Graph N) (T : Type) : Graph (T × N) where
  children := fun (t, n) => (g.children n).map (fun c => (t, c))
  rank := fun (_, n) => g.rank n
  acyclic := by
    intro ⟨t, n⟩ ⟨t', c⟩ h
    simp only [List.mem_map, Prod.mk.injEq] at h
    obtain ⟨c', hc, _, rfl⟩ := h
    exact g.acyclic n c' hc

/-- `NNFizer._get_children` / `PolarityCNFizer._get_children`: another child function over the same (or a tagged)
    key space; it only has to go down in `rank`. -/
def Graph.withChildren (g : Graph N) (ch : N → List N)
    (h : ∀ n c, c ∈ ch n → g.rank c < g.rank n) : Graph N :=
  { children := ch, rank := g.rank, acyclic := h }

end

/-! ### Sequences of calls on one walker object -/

section
variable {M N R E : Type} [DecidableEq N] [MemoLike M N R]

/-- consecutive `walk` calls on the same walker object -/
def walks (g : Graph N) (direct : N → Bool) (f : List N → N → List R → Except E R)
    (inval shortcut : Bool) (fuel : Nat) : List N → WState M N → List (WOut E R) × WState M N
  | [], s => ([], s)
  | q :: qs, s =>
    let r := walk g direct f inval shortcut fuel q s
    let rs := walks g direct f inval shortcut fuel qs r.2
    (r.1 :: rs.1, rs.2)

end

section
variable {M N R E : Type} [DecidableEq N] [MemoLike M N R]

/-- consecutive `walk` calls on the same walker object, each with its own callbacks: `substitute` with different
    maps on `env.substituter`, `get_size` after `set_walking_measure`, a failing call followed by good ones -/
def walksF (g : Graph N) (direct : N → Bool) (inval shortcut : Bool) (fuel : Nat) :
    List ((List N → N → List R → Except E R) × N) → WState M N → List (WOut E R) × WState M N
  | [], s => ([], s)
  | (f, q) :: qs, s =>
    let r := walk g direct f inval shortcut fuel q s
    let rs := walksF g direct inval shortcut fuel qs r.2
    (r.1 :: rs.1, rs.2)

end

/-! ### `FormulaManager.create_node`, reduced to what matters for C15

    formula.py:  content in self.formulae ? n = self.formulae[content] : (n = FNode(content); self.formulae[content] = n)
                 self._do_type_check(n)            -- env.stc.get_type(n): the type checker is a DagWalker, memo kept
    A node of the model is a *content* (hash consing makes contents and nodes correspond one to one; node ids are
    not modelled).  The type checker computes `Option T` (`None` = ill-typed) and `get_type` raises on `None`. -/

section
variable {M N T E : Type} [DecidableEq N] [MemoLike M N (Option T)]

structure Mgr (M N : Type) where
  table : List N            -- keys of `formulae`
  stc   : WState M N        -- the environment's type checker

inductive CreateErr (E : Type) where
  | illTyped                -- PysmtTypeError raised by get_type
  | walker (e : Err E)      -- an exception escaping from the type checker's walk
  | fuel
  deriving DecidableEq, Repr

def createNode (g : Graph N) (tc : List N → N → List (Option T) → Except E (Option T)) (fuel : Nat)
    (c : N) (s : Mgr M N) : Except (CreateErr E) N × Mgr M N :=
  let table' := if c ∈ s.table then s.table else c :: s.table          -- inserted *before* the type check
  let r := walk g (fun _ => false) tc false true fuel c s.stc
  let s' : Mgr M N := ⟨table', r.2⟩
  match r.1 with
  | .ok (some _) => (.ok c, s')
  | .ok none => (.error .illTyped, s')
  | .raise e => (.error (.walker e), s')
  | .fuel => (.error .fuel, s')

end

/-! ### The constant caches of `FormulaManager.Int` / `Real` (F07)

    Python dictionaries look keys up by `==`/`hash`, and `1 == 1.0 == True`.  `PyNum` are the argument values that
    matter: an `int`, an integral `float`, a `bool`; `val` is the number they compare equal to.  The result of
    `Int(v)` is the payload of the returned node (hash consing: the payload determines the node). -/

inductive PyNum where
  | int (i : Int)
  | float (i : Int)
  | bool (b : Bool)
  deriving DecidableEq, Repr

def PyNum.val : PyNum → Int
  | .int i => i
  | .float i => i
  | .bool b => if b then 1 else 0

/-- `is_python_integer`: `type(v) == int` -/
def PyNum.isInt : PyNum → Bool
  | .int _ => true
  | _ => false

/-- `int_constants`: value ↦ payload of the cached node -/
abbrev ConstCache := List (Int × Int)

/-- `Int()` after the repair: validate, then consult the cache (keyed on the validated value) -/
def mkInt (v : PyNum) (c : ConstCache) : Except Unit Int × ConstCache :=
  if v.isInt then
    match c.lookup v.val with
    | some n => (.ok n, c)
    | none => (.ok v.val, (v.val, v.val) :: c)
  else (.error (), c)

/-- `Int()` before the repair: the cache is consulted first -/
def mkIntOld (v : PyNum) (c : ConstCache) : Except Unit Int × ConstCache :=
  match c.lookup v.val with
  | some n => (.ok n, c)
  | none => if v.isInt then (.ok v.val, (v.val, v.val) :: c) else (.error (), c)

end PySMT.Walker
