import PySMT.Core.Eval
import PySMT.Core.FreeVars
import PySMT.Impl.WF
import PySMT.Impl.Simp.Build
/-!
# Rules of the simplifier model and what it means for a rule to be locally correct

`Simplifier.walk_X(formula, args)` (pysmt/simplifier.py) receives the original node and
the *already simplified* arguments. The only parts of the original node the methods read
are its payload (`quantifier_vars()`, `function_name()`, `bv_width()`, extract bounds,
rotation step, array index type) — so a rule is a function of the payload and the
simplified arguments. (If a rule ever needs more of the original node, extend `Rule`
deliberately, here.)

`RuleOK op e` is the *local* correctness of the table entry `e` for operator `op`. It has
four components (type, sound, total, fv), each under the hypotheses

* `hwf  : (Term.node op args p).wf = true`     — the node built from the simplified
  arguments is well-formed (in particular every argument is, hereditarily);
* `hty  : (Term.node op args p).typeOf = some τ`;
* `hg   : e.guard p (args.map Term.typeOf) = true` — the entry's guard (default: always
  true). A guard restricts an operator to part of its instances *by payload and argument
  types only* (types are preserved by simplification, so the guard of the original node is
  the guard of the node with simplified arguments). Use it when a family covers an
  operator only partially, and say so in the comment of the entry.

The assembled theorems (`Proofs/SimpMain.lean`) are generic in the table: adding a family
= adding entries to `Simplifier.ruleOf` and `RuleOK` proofs to `Proofs.Simp.ruleOf_ok`.
Type soundness of the reference semantics is available globally
(`PySMT.eval_hasSort`, Proofs/SimpSorts.lean) and is not part of the interface.
-/
namespace PySMT.Simp

/-- the division-by-zero functions map 0 to 0. Under such an interpretation *every* rule is sound
without the proviso: the only rule that is not sound under the total SMT-LIB reading `x / 0 = f(x)`
for arbitrary `f` is `0 / x ↦ 0` (`walk_div`), which needs exactly `f(0) = 0`. -/
def _root_.PySMT.Interp.Tot (I : Interp) : Prop := I.div0r 0 = 0 ∧ I.div0i 0 = 0

/-- a rule: payload of the original node → simplified arguments → result -/
abbrev Rule := Payload → List Term → Term

/-- the rule "rebuild the node" (what `walk_identity` does for leaves) -/
def keep (op : Op) : Rule := fun p args => .node op args p

/-- a table entry: the rule and the instances of the operator it is claimed for -/
structure Entry where
  rule : Rule
  /-- restriction of the operator by payload and argument types (`true` = no restriction) -/
  guard : Payload → List (Option Ty) → Bool := fun _ _ => true

instance : Coe Rule Entry := ⟨fun r => { rule := r }⟩

/-- local correctness of the entry `e` for `op` -/
structure RuleOK (op : Op) (e : Entry) : Prop where
  /-- the result has the type of the node and is well-formed -/
  type : ∀ (p : Payload) (args : List Term) (τ : Ty),
    (Term.node op args p).wf = true → (Term.node op args p).typeOf = some τ →
    e.guard p (args.map Term.typeOf) = true →
    (e.rule p args).typeOf = some τ ∧ (e.rule p args).wf = true
  /-- under every well-formed interpretation that evaluates no division by zero in the
  node, the result has the value of the node and evaluates no division by zero either -/
  sound : ∀ (p : Payload) (args : List Term) (τ : Ty),
    (Term.node op args p).wf = true → (Term.node op args p).typeOf = some τ →
    e.guard p (args.map Term.typeOf) = true →
    ∀ I : Interp, I.WF → div0 I (.node op args p) = false →
      eval I (e.rule p args) = eval I (.node op args p) ∧ div0 I (e.rule p args) = false
  /-- without the proviso: under every well-formed interpretation whose division-by-zero functions
  map 0 to 0 the result has the value of the node (divisions by zero, also in branches that are not
  taken, are allowed) -/
  total : ∀ (p : Payload) (args : List Term) (τ : Ty),
    (Term.node op args p).wf = true → (Term.node op args p).typeOf = some τ →
    e.guard p (args.map Term.typeOf) = true →
    ∀ I : Interp, I.WF → I.Tot → eval I (e.rule p args) = eval I (.node op args p)
  /-- the result mentions only symbols that are free in the node -/
  fv : ∀ (p : Payload) (args : List Term) (τ : Ty),
    (Term.node op args p).wf = true → (Term.node op args p).typeOf = some τ →
    e.guard p (args.map Term.typeOf) = true →
    ∀ s, s ∈ (e.rule p args).fv → s ∈ (Term.node op args p).fv

/-- rebuilding the node is always correct -/
theorem keep_ok (op : Op) : RuleOK op (keep op) where
  type := fun _ _ _ hwf hty _ => ⟨hty, hwf⟩
  sound := fun _ _ _ _ _ _ _ _ hd => ⟨rfl, hd⟩
  total := fun _ _ _ _ _ _ _ _ _ => rfl
  fv := fun _ _ _ _ _ _ _ hs => hs

end PySMT.Simp
