import PySMT.Impl.Simp.Rules
/-!
# String rule family: `walk_str_length … walk_int_to_str` (pysmt/simplifier.py:945-1044)
— same case order and guards.

Every rule folds constant arguments with a Python `str` primitive and otherwise rebuilds the
node through the `FormulaManager` constructor. The Python primitives are modelled here, on
code-point lists, *from the Python language reference / CPython behaviour* (not from the
SMT-LIB definitions of `Core/Eval.lean`; `Proofs/SimpStr.lean` proves that they agree where the
rules use them):

| Python | model |
|--------|-------|
| `len(s)` | `String.length` |
| `"".join(xs)` | `pyJoin` |
| `s[i:j]` (`0 ≤ i`, `0 ≤ j`) | `pySlice s i j` |
| `t in s` | `pyContains s t` |
| `s.find(t, start)` (`0 ≤ start`) | `pyFind s t start` |
| `s.replace(t1, t2, 1)` | `pyReplaceFirst t1 t2 s` |
| `s.startswith(t)`, `s.endswith(t)` | `pyStartsWith s t`, `pyEndsWith s t` |
| `s.isascii() and s.isdigit()` | `pyIsAsciiDigits s` |
| `int(s)` on such a string | `pyInt s` |
| `str(n)` | `pyStr n` |
-/
namespace PySMT.Simp.StrRules
open PySMT.Build

/-! ## Python `str` primitives -/

/-- `"".join(xs)` -/
def pyJoin (xs : List String) : String := xs.foldl (· ++ ·) ""

/-- `s[i:j]` for non-negative `i`, `j`: the bounds are clipped to `len(s)`, `i ≥ j` gives `""` -/
def pySlice (s : List Char) (i j : Nat) : List Char := (s.take j).drop i

/-- `s.startswith(t)` : `s[:len(t)] == t` -/
def pyStartsWith (s t : List Char) : Bool := s.take t.length == t

/-- `s.endswith(t)` : `len(t) <= len(s) and s[len(s)-len(t):] == t` -/
def pyEndsWith (s t : List Char) : Bool :=
  decide (t.length ≤ s.length) && s.drop (s.length - t.length) == t

/-- `t in s` : `t` occurs at some position `0 … len(s)` (the empty string occurs everywhere) -/
def pyContains (s t : List Char) : Bool :=
  match s with
  | [] => t.isEmpty
  | c :: cs => pyStartsWith (c :: cs) t || pyContains cs t

/-- lowest position (counted from `off`) at which `t` occurs in the suffix `rest`; `-1` if none -/
def pyFindAux (t : List Char) : List Char → Nat → Int
  | [], off => if t.isEmpty then off else -1
  | c :: cs, off => if pyStartsWith (c :: cs) t then off else pyFindAux t cs (off + 1)

/-- `s.find(t, start)` for `start ≥ 0`: the lowest index `j ≥ start` with `s[j:j+len(t)] == t`,
`-1` if there is none; `start > len(s)` gives `-1` even for the empty needle
(`"ab".find("", 3) == -1`, `"ab".find("", 2) == 2`, `"".find("", 0) == 0`) -/
def pyFind (s t : List Char) (start : Nat) : Int :=
  if start > s.length then -1 else pyFindAux t (s.drop start) start

/-- `s.replace(t1, t2, 1)` : the first (leftmost) occurrence of `t1` is replaced; the empty
string occurs at position 0 (`"abc".replace("", "X", 1) == "Xabc"`, `"".replace("", "X", 1) == "X"`) -/
def pyReplaceFirst (t1 t2 : List Char) : List Char → List Char
  | [] => if t1.isEmpty then t2 else []
  | c :: cs =>
    if pyStartsWith (c :: cs) t1 then t2 ++ (c :: cs).drop t1.length
    else c :: pyReplaceFirst t1 t2 cs

/-- `s.isascii() and s.isdigit()` : non-empty, every character one of `0 … 9` (the only ASCII
characters with the Unicode property `Numeric_Type=Digit`) -/
def pyIsAsciiDigits (s : List Char) : Bool :=
  !s.isEmpty && s.all (fun c => decide (c.toNat < 128) && (decide ('0'.toNat ≤ c.toNat) && decide (c.toNat ≤ '9'.toNat)))

/-- `int(s)` on a string of ASCII digits: positional decimal value -/
def pyInt (s : List Char) : Int :=
  s.foldl (fun acc c => 10 * acc + ((c.toNat : Int) - 48)) 0

/-- `str(n)` : decimal numeral, `-` sign for negative numbers -/
def pyStr (n : Int) : String := toString n

/-! ## recognisers -/

/-- `is_string_constant()` / `constant_value()` -/
def isStrConst (t : Term) : Option String :=
  match t with | .node .strConst [] (.s v) => some v | _ => none

/-- `all(arg.is_string_constant() for arg in args)` with the values -/
def strConsts : List Term → Option (List String)
  | [] => some []
  | a :: as =>
    match isStrConst a, strConsts as with
    | some v, some vs => some (v :: vs)
    | _, _ => none

/-! ## the rules -/

/-- `walk_str_length` (simplifier.py:945-949) -/
def walkStrLength : Rule := fun p args =>
  match args with
  | [s] =>
    match isStrConst s with
    | some v => int_ v.length
    | none => strOp .strLength [s]
  | _ => .node .strLength args p

/-- `walk_str_concat` (simplifier.py:951-955); `StrConcat` of fewer than two arguments raises -/
def walkStrConcat : Rule := fun _ args =>
  match strConsts args with
  | some vs => str_ (pyJoin vs)
  | none => strOp .strConcat args

/-- `walk_str_charat` (simplifier.py:957-967) -/
def walkStrCharAt : Rule := fun p args =>
  match args with
  | [s, i] =>
    match isStrConst s, isIntConst i with
    | some sv, some iv =>
      if iv < 0 then str_ ""
      else str_ (String.ofList (pySlice sv.toList iv.toNat (iv.toNat + 1)))
    | _, _ => strOp .strCharAt [s, i]
  | _ => .node .strCharAt args p

/-- `walk_str_contains` (simplifier.py:969-974) -/
def walkStrContains : Rule := fun p args =>
  match args with
  | [s, t] =>
    match isStrConst s, isStrConst t with
    | some sv, some tv => bool_ (pyContains sv.toList tv.toList)
    | _, _ => strOp .strContains [s, t]
  | _ => .node .strContains args p

/-- `walk_str_indexof` (simplifier.py:976-990) -/
def walkStrIndexOf : Rule := fun p args =>
  match args with
  | [s, t, i] =>
    match isStrConst s, isStrConst t, isIntConst i with
    | some sv, some tv, some iv =>
      if iv < 0 then int_ (-1)
      else int_ (pyFind sv.toList tv.toList iv.toNat)
    | _, _, _ => strOp .strIndexOf [s, t, i]
  | _ => .node .strIndexOf args p

/-- `walk_str_replace` (simplifier.py:992-999) -/
def walkStrReplace : Rule := fun p args =>
  match args with
  | [s, t1, t2] =>
    match isStrConst s, isStrConst t1, isStrConst t2 with
    | some sv, some v1, some v2 => str_ (String.ofList (pyReplaceFirst v1.toList v2.toList sv.toList))
    | _, _, _ => strOp .strReplace [s, t1, t2]
  | _ => .node .strReplace args p

/-- `walk_str_substr` (simplifier.py:1001-1013) -/
def walkStrSubstr : Rule := fun p args =>
  match args with
  | [s, i, j] =>
    match isStrConst s, isIntConst i, isIntConst j with
    | some sv, some iv, some jv =>
      if iv < 0 ∨ iv + jv ≤ iv then str_ ""
      else str_ (String.ofList (pySlice sv.toList iv.toNat (iv + jv).toNat))
    | _, _, _ => strOp .strSubstr [s, i, j]
  | _ => .node .strSubstr args p

/-- `walk_str_prefixof` (simplifier.py:1015-1019): `t.startswith(s)` -/
def walkStrPrefixOf : Rule := fun p args =>
  match args with
  | [s, t] =>
    match isStrConst s, isStrConst t with
    | some sv, some tv => bool_ (pyStartsWith tv.toList sv.toList)
    | _, _ => strOp .strPrefixOf [s, t]
  | _ => .node .strPrefixOf args p

/-- `walk_str_suffixof` (simplifier.py:1021-1025): `t.endswith(s)` -/
def walkStrSuffixOf : Rule := fun p args =>
  match args with
  | [s, t] =>
    match isStrConst s, isStrConst t with
    | some sv, some tv => bool_ (pyEndsWith tv.toList sv.toList)
    | _, _ => strOp .strSuffixOf [s, t]
  | _ => .node .strSuffixOf args p

/-- `walk_str_to_int` (simplifier.py:1027-1036) -/
def walkStrToInt : Rule := fun p args =>
  match args with
  | [s] =>
    match isStrConst s with
    | some v => if pyIsAsciiDigits v.toList then int_ (pyInt v.toList) else int_ (-1)
    | none => strOp .strToInt [s]
  | _ => .node .strToInt args p

/-- `walk_int_to_str` (simplifier.py:1038-1044) -/
def walkIntToStr : Rule := fun p args =>
  match args with
  | [i] =>
    match isIntConst i with
    | some v => if v < 0 then str_ "" else str_ (pyStr v)
    | none => strOp .intToStr [i]
  | _ => .node .intToStr args p

end PySMT.Simp.StrRules
