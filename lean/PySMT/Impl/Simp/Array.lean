import PySMT.Impl.Simp.Rules
import PySMT.Impl.Simp.Bool
/-!
# Array rule family: `walk_array_select`, `walk_array_store`, `walk_array_value`
(pysmt/simplifier.py:1051-1071) — same case order and guards. (The array branch of
`walk_equals` is `BoolRules.arrayValuesEq`, Impl/Simp/Bool.lean.)

## The invariant of `ARRAY_VALUE` nodes

`FormulaManager.Array` (formula.py:1104-1126) is the only constructor of `ARRAY_VALUE` nodes.
It receives the assignments as a Python `dict` and raises `PysmtValueError` for a key that is
not a constant, so in every array value pySMT can build **the keys are pairwise distinct
constants** (and sorted by `id`, which `FNode.array_value_get` — a binary search on `id` —
relies on). `Term.wf` records arities and types only, and an entry guard sees types only, so
this invariant is *tested by the rules* (`keysOK`): on an argument list that violates it —
which no pySMT formula contains — the rule rebuilds the node, exactly as the model does
wherever the Python constructor raises. On every real call the test succeeds and the rule
is the Python method (checked call by call by K1).

Without the invariant the methods are not meaning preserving: `dict(zip(keys, values))`
keeps the *last* binding of a repeated key, the reference semantics of `arrayValue`
(`Sem.arrayValue`) the *first*; a non-constant key may or may not denote the index that is
looked up.
-/
namespace PySMT.Simp.ArrayRules
open PySMT.Build PySMT.Simp.BoolRules

/-- no term occurs twice -/
def noDup : List Term → Bool
  | [] => true
  | k :: ks => !ks.contains k && noDup ks

/-- the `ARRAY_VALUE` invariant on the argument list after the default: the keys are pairwise
distinct constants -/
def keysOK (rest : List Term) : Bool :=
  ((pairs rest).map (·.1)).all isConstant && noDup ((pairs rest).map (·.1))

/-- `walk_array_select` (simplifier.py:1051-1055): `a.array_value_get(i)` is the value assigned
to `i`, else the default -/
def walkArraySelect : Rule := fun p args =>
  match args with
  | [a, i] =>
    if isArrayValue a && isConstant i then
      match a with
      | .node .arrayValue (_ :: rest) _ => if keysOK rest then arrayValueGet a i else select_ a i
      | _ => select_ a i
    else select_ a i
  | _ => .node .arraySelect args p

/-- `walk_array_store` (simplifier.py:1057-1065): `assign = a.array_value_assigned_values_map();
assign[i] = v; Array(a.array_value_index_type(), a.array_value_default(), assign)` -/
def walkArrayStore : Rule := fun p args =>
  match args with
  | [a, i, v] =>
    if isArrayValue a && isConstant i then
      match a with
      | .node .arrayValue (d :: rest) (.ty idx) =>
        if keysOK rest then array_ idx d (dictSet (dictOf (pairs rest)) i v) else store_ a i v
      | _ => store_ a i v
    else store_ a i v
  | _ => .node .arrayStore args p

/-- `walk_array_value` (simplifier.py:1067-1071): `Array(formula.array_value_index_type(),
args[0], dict(zip(args[1::2], args[2::2])))` -/
def walkArrayValue : Rule := fun p args =>
  match p, args with
  | .ty idx, d :: rest =>
    if keysOK rest then array_ idx d (dictOf (pairs rest)) else .node .arrayValue args p
  | _, _ => .node .arrayValue args p

/-- the index sort is not an array sort (`true` for every other sort). Guard of the three
entries: distinct constants of a scalar sort denote distinct indices; two distinct array-value
*constants* can denote the same array (over `Bool`: `Array(Bool, T)` and
`Array(Bool, F, {F: T, T: T})`), so for array-sorted indices `array_value_get`, a look-up by
node identity, is not the look-up of the denoted index. -/
def scalarIdx : Ty → Bool
  | .array _ _ => false
  | _ => true

/-- guard of `arraySelect` / `arrayStore`: the index sort of the array operand is scalar -/
def arrayGuard : Payload → List (Option Ty) → Bool
  | _, some (.array idx _) :: _ => scalarIdx idx
  | _, _ => true

/-- guard of `arrayValue`: the index sort (payload) is scalar -/
def valueGuard : Payload → List (Option Ty) → Bool
  | .ty idx, _ => scalarIdx idx
  | _, _ => true

end PySMT.Simp.ArrayRules
