import PySMT.Core.Term
import PySMT.Core.TypeOf
/-!
# The normalising constructors the simplifier calls (`pysmt/formula.py`, `FormulaManager`)

Every function is the rewriting a `FormulaManager` method performs before `create_node`,
as a *total* function on `Term`. The type check of `create_node` is not re-modelled here:
the rules apply the constructors to well-formed arguments only and the `RuleOK.type`
theorems show that the result is well-formed.

Where the Python method raises (`Plus()`/`Times()` without argument) the function returns
the raw node; the rules never get there on well-formed input.

Result order: `And`/`Or` called with a Python `set`, `Times` after `sorted(key=node_id)`
and `Array` (sorted by `id`) produce their arguments in an order the model does not
determine; the model fixes *one* order and the correspondence check compares modulo the
order of and/or/times arguments and array-value entries (`Proofs/SimpPerm.lean`).
-/
namespace PySMT.Build

/-! ## predicates on nodes used by the rules (`fnode.py` `is_*`) -/
def isBoolConst (t : Term) : Option Bool :=
  match t with | .node .boolConst [] (.b v) => some v | _ => none
def isTrue (t : Term) : Bool := isBoolConst t == some true
def isFalse (t : Term) : Bool := isBoolConst t == some false
def isIntConst (t : Term) : Option Int :=
  match t with | .node .intConst [] (.i v) => some v | _ => none
def isRealConst (t : Term) : Option Rat :=
  match t with | .node .realConst [] (.q v) => some v | _ => none
/-- `is_zero()` / `is_one()` : Int or Real constant 0 / 1 -/
def isZero (t : Term) : Bool := isIntConst t == some 0 || isRealConst t == some 0
def isOne (t : Term) : Bool := isIntConst t == some 1 || isRealConst t == some 1
/-- `is_constant()` : a constant node, or an array value all of whose children are constants -/
def isConstant : Term → Bool
  | .node .arrayValue args _ => (args.map isConstant).all id
  | .node op _ _ => op.isConstant

/-! ## Boolean / core -/
def bool_ (b : Bool) : Term := Term.bool b
def int_ (n : Int) : Term := Term.int n
def real_ (q : Rat) : Term := Term.real q
def str_ (s : String) : Term := Term.str s

/-- `Not` (formula.py:203-211): drops a double negation -/
def not_ : Term → Term
  | .node .not (a :: _) _ => a
  | t => .node .not [t] .none

/-- `And` (formula.py:428-445) -/
def and_ : List Term → Term
  | [] => Term.tt
  | [a] => a
  | as => .node .and as .none

/-- `Or` (formula.py:447-464) -/
def or_ : List Term → Term
  | [] => Term.ff
  | [a] => a
  | as => .node .or as .none

def implies_ (a b : Term) : Term := .node .implies [a, b] .none
def iff_ (a b : Term) : Term := .node .iff [a, b] .none
def equals_ (a b : Term) : Term := .node .equals [a, b] .none
def le_ (a b : Term) : Term := .node .le [a, b] .none
def lt_ (a b : Term) : Term := .node .lt [a, b] .none
def ite_ (c a b : Term) : Term := .node .ite [c, a, b] .none

/-- `ForAll` / `Exists` (formula.py:159-187): no variables ⇒ the body -/
def forall_ (vs : List Sym) (body : Term) : Term :=
  if vs.isEmpty then body else .node .forall_ [body] (.qvars vs)
def exists_ (vs : List Sym) (body : Term) : Term :=
  if vs.isEmpty then body else .node .exists_ [body] (.qvars vs)

/-- `Function` (formula.py:189-201): no parameters ⇒ the symbol itself -/
def function_ (f : Sym) (args : List Term) : Term :=
  if args.isEmpty then Term.sym f else .node .function args (.sym f)

/-! ## arithmetic -/
/-- `Plus` (formula.py:466-485); `Plus()` raises -/
def plus_ : List Term → Term
  | [a] => a
  | as => .node .plus as .none

/-- `Times` (formula.py:237-256); `Times()` raises -/
def times_ : List Term → Term
  | [a] => a
  | as => .node .times as .none

def minus_ (a b : Term) : Term := .node .minus [a, b] .none

/-- `Div` (formula.py:271-286): division by a non-zero real constant becomes a product with
the inverse; division by a constant zero (`enable_div_by_0`, the default) and integer
division stay `div` nodes -/
def div_ (l r : Term) : Term :=
  match isRealConst r with
  | some v => if v = 0 then .node .div [l, r] .none else times_ [l, real_ (1 / v)]
  | none => .node .div [l, r] .none

/-- `ToReal` (formula.py:487-500): identity on real terms, folds an integer constant -/
def toReal_ (t : Term) : Term :=
  if t.typeOf = some .real then t
  else match isIntConst t with
    | some v => real_ v
    | none => .node .toReal [t] .none

/-! ## bit-vectors: the constructors compute the width payload from the operand -/
/-- `FNode.bv_width()` -/
def bvWidth (t : Term) : Nat := match t.typeOf with | some (.bv w) => w | _ => 0

def bv_ (v w : Nat) : Term := Term.bvc v w
def bvUn (op : Op) (a : Term) : Term := .node op [a] (.ints [bvWidth a])
def bvBin (op : Op) (a b : Term) : Term := .node op [a, b] (.ints [bvWidth a])
def bvNot_ := bvUn .bvNot
def bvNeg_ := bvUn .bvNeg
def bvAnd_ := bvBin .bvAnd
def bvOr_ := bvBin .bvOr
def bvXor_ := bvBin .bvXor
def bvAdd_ := bvBin .bvAdd
def bvSub_ := bvBin .bvSub
def bvMul_ := bvBin .bvMul
def bvUdiv_ := bvBin .bvUdiv
def bvUrem_ := bvBin .bvUrem
def bvSdiv_ := bvBin .bvSdiv
def bvSrem_ := bvBin .bvSrem
def bvLshl_ := bvBin .bvLshl
def bvLshr_ := bvBin .bvLshr
def bvAshr_ := bvBin .bvAshr
def bvConcat_ (a b : Term) : Term := .node .bvConcat [a, b] (.ints [bvWidth a + bvWidth b])
/-- `BVExtract(f, start, end)` : payload `(end-start+1, start, end)` -/
def bvExtract_ (a : Term) (lo hi : Nat) : Term := .node .bvExtract [a] (.ints [hi - lo + 1, lo, hi])
def bvRol_ (a : Term) (k : Nat) : Term := .node .bvRol [a] (.ints [bvWidth a, k])
def bvRor_ (a : Term) (k : Nat) : Term := .node .bvRor [a] (.ints [bvWidth a, k])
def bvZext_ (a : Term) (k : Nat) : Term := .node .bvZext [a] (.ints [bvWidth a + k, k])
def bvSext_ (a : Term) (k : Nat) : Term := .node .bvSext [a] (.ints [bvWidth a + k, k])
def bvRel (op : Op) (a b : Term) : Term := .node op [a, b] .none
def bvUlt_ := bvRel .bvUlt
def bvUle_ := bvRel .bvUle
def bvSlt_ := bvRel .bvSlt
def bvSle_ := bvRel .bvSle
def bvComp_ (a b : Term) : Term := .node .bvComp [a, b] (.ints [1])
def bvToNatural_ (a : Term) : Term := .node .bvToNatural [a] .none

/-! ## strings -/
def strOp (op : Op) (as : List Term) : Term := .node op as .none

/-! ## arrays -/
def select_ (a i : Term) : Term := .node .arraySelect [a, i] .none
def store_ (a i v : Term) : Term := .node .arrayStore [a, i, v] .none

/-- a Python `dict` built from (key, value) pairs: a later binding of a key replaces the
value and keeps the position of the first insertion -/
def dictOf : List (Term × Term) → List (Term × Term)
  | [] => []
  | (k, v) :: rest =>
    let d := dictOf rest
    match d.find? (fun kv => kv.1 == k) with
    | some kv' => (k, kv'.2) :: d.filter (fun kv => kv.1 != k)
    | none => (k, v) :: d

/-- `dict[k] = v` -/
def dictSet (d : List (Term × Term)) (k v : Term) : List (Term × Term) :=
  if d.any (fun kv => kv.1 == k) then d.map (fun kv => if kv.1 == k then (k, v) else kv) else d ++ [(k, v)]

/-- `Array(idx_type, default, assigned_values)` (formula.py:1098-1120): entries equal to
the default are dropped; the entries are ordered by `id()` of the key in Python — here in
dictionary order (compared modulo entry order) -/
def array_ (idx : Ty) (dflt : Term) (assign : List (Term × Term)) : Term :=
  .node .arrayValue (dflt :: (assign.filter (fun kv => kv.2 != dflt)).flatMap (fun kv => [kv.1, kv.2])) (.ty idx)

/-- the (key, value) pairs of an array-value node (`array_value_assigned_values_map`) -/
def pairs : List Term → List (Term × Term)
  | k :: v :: rest => (k, v) :: pairs rest
  | _ => []

end PySMT.Build
