import PySMT.Impl.Simp.Rules
/-!
# Boolean / core rule family: `walk_and … walk_toreal`, `walk_identity`
(pysmt/simplifier.py:87-312, 484-492, 1102-1106) — same case order and guards.

`args[i] == args[j]` on FNodes is object identity = structural equality (C04).
-/
namespace PySMT.Simp.BoolRules
open PySMT.Build

/-- `walk_not(Not(a), [a])` (simplifier.py:141-150) -/
def walkNot1 (a : Term) : Term :=
  match isBoolConst a with
  | some b => bool_ (!b)
  | none =>
    match a with
    | .node .not (x :: _) _ => x
    | a => not_ a

def walkNot : Rule := fun p args =>
  match args with
  | [a] => walkNot1 a
  | _ => .node .not args p

/-- one `new_args.add(s)` preceded by the complement test; `none` = complement present -/
def addLit (acc : List Term) (s : Term) : Option (List Term) :=
  if acc.contains (walkNot1 s) then none
  else some (if acc.contains s then acc else acc ++ [s])

def addLits : List Term → List Term → Option (List Term)
  | acc, [] => some acc
  | acc, s :: ss => match addLit acc s with | none => none | some acc' => addLits acc' ss

/-- the `for a in args` loop shared by `walk_and` (`u = true`, `o = .and`) and `walk_or`
(`u = false`, `o = .or`): the constant `u` is skipped, the constant `¬u` ends the method
(`none`), a nested `o` node contributes its arguments, everything else is added after the
complement test. `new_args` (a Python set) is kept as a duplicate-free list in insertion order. -/
def acLoop (o : Op) (u : Bool) : List Term → List Term → Option (List Term)
  | [], acc => some acc
  | a :: rest, acc =>
    if isBoolConst a = some u then acLoop o u rest acc
    else if isBoolConst a = some (!u) then none
    else match a with
      | .node op ss _ =>
        if op = o then (match addLits acc ss with | none => none | some acc' => acLoop o u rest acc')
        else (match addLit acc a with | none => none | some acc' => acLoop o u rest acc')

/-- the part of `walk_and`/`walk_or` after the `args[0] == args[1]` shortcut -/
def acResult (o : Op) (u : Bool) (args : List Term) : Term :=
  match acLoop o u args [] with
  | none => bool_ (!u)
  | some l => if u then and_ l else or_ l

/-- `walk_and` (simplifier.py:87-112) -/
def walkAnd : Rule := fun _ args =>
  match args with
  | [a, b] => if a = b then a else acResult .and true args
  | _ => acResult .and true args

/-- `walk_or` (simplifier.py:114-139) -/
def walkOr : Rule := fun _ args =>
  match args with
  | [a, b] => if a = b then a else acResult .or false args
  | _ => acResult .or false args

/-- `walk_iff` (simplifier.py:152-175) -/
def walkIff : Rule := fun p args =>
  match args with
  | [sl, sr] =>
    match isBoolConst sl, isBoolConst sr with
    | some l, some r => bool_ (l == r)
    | some l, none => if l then sr else not_ sr
    | none, some r => if r then sl else not_ sl
    | none, none => if sl = sr then Term.tt else iff_ sl sr
  | _ => .node .iff args p

/-- `walk_implies` (simplifier.py:177-198) -/
def walkImplies : Rule := fun p args =>
  match args with
  | [sl, sr] =>
    match isBoolConst sl with
    | some l => if l then sr else Term.tt
    | none =>
      match isBoolConst sr with
      | some r => if r then Term.tt else not_ sl
      | none => if sl = sr then Term.tt else implies_ sl sr
  | _ => .node .implies args p

/-- `walk_ite` (simplifier.py:243-257) -/
def walkIte : Rule := fun p args =>
  match args with
  | [si, st, se] =>
    if st = se then st
    else match isBoolConst si with
      | some c => if c then st else se
      | none => ite_ si st se
  | _ => .node .ite args p

/-! ### `walk_equals` (simplifier.py:200-241) -/

def isArrayValue (t : Term) : Bool := t.op == .arrayValue

/-- `array_value_get(i)` : the value assigned to the constant index `i`, else the default -/
def arrayValueGet (a : Term) (i : Term) : Term :=
  match a with
  | .node .arrayValue (d :: rest) _ =>
    (match (pairs rest).find? (fun kv => kv.1 == i) with | some kv => kv.2 | none => d)
  | a => a

/-- size of a finite index sort / `none` = infinite; `some 0` = "unknown" in the code -/
def idxSize : Ty → Option Nat
  | .bv w => some (2 ^ w)
  | .bool => some 2
  | .int | .real | .str => none
  | _ => some 0

/-- the extensional comparison of two constant array values (after the F01 repair);
`none` = "left to the solver" -/
def arrayValuesEq (sl sr : Term) : Option Bool :=
  match sl.typeOf with
  | some (.array idx elem) =>
    if idxSize idx != some 0 && !elem.isArray then
      match sl, sr with
      | .node .arrayValue (dl :: restl) _, .node .arrayValue (dr :: restr) _ =>
        let idxs := ((pairs restl).map (·.1) ++ (pairs restr).map (·.1)).eraseDups
        if idxs.any (fun i => arrayValueGet sl i != arrayValueGet sr i) then some false
        else some (dl == dr || idxSize idx == some idxs.length)
      | _, _ => none
    else none
  | _ => none

def walkEquals : Rule := fun p args =>
  match args with
  | [sl, sr] =>
    if sl = sr then Term.tt
    else if isArrayValue sl || isArrayValue sr then
      if isConstant sl && isConstant sr then
        match arrayValuesEq sl sr with
        | some b => bool_ b
        | none => equals_ sl sr
      else equals_ sl sr
    else if isConstant sl && isConstant sr then
      -- `Bool(l == r)` on the `constant_value()`s = the payloads of the two constant nodes
      bool_ (decide (sl.payload = sr.payload))
    else equals_ sl sr
  | _ => .node .equals args p

/-- numeric value of an Int/Real constant (`constant_value()`) -/
def numVal (t : Term) : Option Rat :=
  match isIntConst t with
  | some i => some i
  | none => isRealConst t

def isMinus (t : Term) : Option (Term × Term) :=
  match t with | .node .minus [x, y] _ => some (x, y) | _ => none

/-- `walk_le` (simplifier.py:259-278). The third `if` of the method
(`sr.is_zero() and sr.is_minus()`) can never be taken and has no counterpart. -/
def walkLe : Rule := fun p args =>
  match args with
  | [sl, sr] =>
    match numVal sl, numVal sr with
    | some l, some r => bool_ (l ≤ r)
    | _, _ =>
      if isZero sl then
        match isMinus sr with
        | some (x, y) => le_ y x
        | none => le_ sl sr
      else le_ sl sr
  | _ => .node .le args p

/-- `walk_lt` (simplifier.py:280-290) -/
def walkLt : Rule := fun p args =>
  match args with
  | [sl, sr] =>
    match numVal sl, numVal sr with
    | some l, some r => bool_ (l < r)
    | _, _ => lt_ sl sr
  | _ => .node .lt args p

/-- `set(quantifier_vars).intersection(body.get_free_variables())` as a duplicate-free
list (a variable listed twice is kept at its last position; compared modulo order) -/
def usedVars (fvs : List Sym) : List Sym → List Sym
  | [] => []
  | v :: vs => if fvs.contains v && !vs.contains v then v :: usedVars fvs vs else usedVars fvs vs

/-- `walk_forall` (simplifier.py:292-301) -/
def walkForall : Rule := fun p args =>
  match p, args with
  | .qvars vs, [sf] => forall_ (usedVars sf.fv vs) sf
  | _, _ => .node .forall_ args p

/-- `walk_exists` (simplifier.py:303-312) -/
def walkExists : Rule := fun p args =>
  match p, args with
  | .qvars vs, [sf] => exists_ (usedVars sf.fv vs) sf
  | _, _ => .node .exists_ args p

/-- `walk_function` (simplifier.py:484-485) -/
def walkFunction : Rule := fun p args =>
  match p with
  | .sym f => function_ f args
  | _ => .node .function args p

/-- `walk_toreal` (simplifier.py:487-492) -/
def walkToReal : Rule := fun p args =>
  match args with
  | [a] =>
    match isIntConst a with
    | some v => real_ v
    | none => toReal_ a
  | _ => .node .toReal args p

end PySMT.Simp.BoolRules
