import PySMT.Impl.Simp.Rules
import PySMT.Impl.Simp.Bool
/-!
# Arithmetic rule family: `walk_plus`, `walk_times`, `walk_minus`, `walk_div`
(pysmt/simplifier.py:314-429, 450-482, 1073-1100). `walk_pow` and algebraic constants are
outside the fragment (known finding F05).

The Python code computes on `int` / `Fraction`; the model computes on `Rat` and writes the
result back as an Int constant (`numTerm`) when the sum/product has integer type (all
constants met are then integers).
-/
namespace PySMT.Simp.ArithRules
open PySMT.Build
open PySMT.Simp.BoolRules (numVal)

/-- `Real(c)` if `ttype` is Real, `Int(c)` otherwise (`ttype = get_type(args[0])`) -/
def numTerm (ttype : Option Ty) (c : Rat) : Term :=
  if ttype = some .real then real_ c else int_ c.num

/-- the nodes the `while stack:` loop of `walk_plus` classifies, in the order it pops
them: `stack = list(args)`, `pop()` takes the last element, a nested `plus` is replaced by
its arguments -/
def plusLeaves : Term → List Term
  | .node op as p =>
    if op = .plus then ((as.map plusLeaves).reverse).flatten else [.node op as p]

structure Acc where
  toSum : List Term := []
  toSub : List Term := []
  const : Rat := 0

/-- one iteration of the loop on a popped node that is not a `plus` -/
def classify (ttype : Option Ty) (acc : Acc) (x : Term) : Acc :=
  match numVal x with
  | some c => { acc with const := acc.const + c }
  | none =>
    match x with
    | .node .minus [a, b] _ => { acc with toSum := acc.toSum ++ [a], toSub := acc.toSub ++ [b] }
    | .node .times ts _ =>
      (match ts.getLast?.bind numVal with
       | some c =>
         if c < 0 then
           let newArgs := if c = -1 then ts.dropLast else ts.dropLast ++ [numTerm ttype (-c)]
           { acc with toSub := acc.toSub ++ [times_ newArgs] }
         else { acc with toSum := acc.toSum ++ [x] }
       | none => { acc with toSum := acc.toSum ++ [x] })
    | x => { acc with toSum := acc.toSum ++ [x] }

/-- the code after the loop -/
def assemble (ttype : Option Ty) (acc : Acc) : Term :=
  let constant := numTerm ttype acc.const
  if acc.toSum.isEmpty && acc.toSub.isEmpty then constant
  else
    let toSum := if acc.const = 0 then acc.toSum else acc.toSum ++ [constant]
    if acc.toSub.isEmpty then plus_ toSum
    else
      let sub := plus_ acc.toSub
      if toSum.isEmpty then times_ [numTerm ttype (-1), sub]
      else minus_ (plus_ toSum) sub

/-- `walk_plus` (simplifier.py:314-387) -/
def walkPlus : Rule := fun p args =>
  match args with
  | [] => .node .plus args p
  | a0 :: _ =>
    let ttype := a0.typeOf
    assemble ttype ((((args.map plusLeaves).reverse).flatten).foldl (classify ttype) {})

/-- pop order of the loop of `walk_times` (nested `times` flattened) -/
def timesLeaves : Term → List Term
  | .node op as p =>
    if op = .times then ((as.map timesLeaves).reverse).flatten else [.node op as p]

/-- `walk_times` (simplifier.py:389-429). The loop stops at the first zero constant; the
result is then the zero constant whatever is left on the stack, so the model multiplies
all constants. The Python result is sorted by node id: compared modulo argument order. -/
def walkTimes : Rule := fun p args =>
  match args with
  | [] => .node .times args p
  | a0 :: _ =>
    let ttype := a0.typeOf
    let leaves := ((args.map timesLeaves).reverse).flatten
    let c := (leaves.filterMap numVal).foldl (· * ·) 1
    let newArgs := leaves.filter (fun x => (numVal x).isNone)
    if c = 0 then numTerm ttype 0
    else if newArgs.isEmpty then numTerm ttype c
    else times_ (if c = 1 then newArgs else newArgs ++ [numTerm ttype c])

/-- `walk_minus` (simplifier.py:450-482) -/
def walkMinus : Rule := fun p args =>
  match args with
  | [sl, sr] =>
    match isRealConst sl, isRealConst sr with
    | some l, some r => real_ (l - r)
    | _, _ =>
      match isIntConst sl, isIntConst sr with
      | some l, some r => int_ (l - r)
      | _, _ =>
        if isZero sr then sl
        else if sl = sr then (if sl.typeOf = some .real then real_ 0 else int_ 0)
        else minus_ sl sr
  | _ => .node .minus args p

/-- `walk_div` (simplifier.py:1073-1100); integer division as repaired for F04 -/
def walkDiv : Rule := fun p args =>
  match args with
  | [sl, sr] =>
    let folded : Option Term :=
      match numVal sl, numVal sr with
      | some _, some _ =>
        if isZero sr then none
        else
          match isRealConst sl, isRealConst sr, isIntConst sl, isIntConst sr with
          | some l, some r, _, _ => some (real_ (l / r))
          | _, _, some l, some r =>
            if r > 0 then some (int_ (l / r))             -- Python `l // r` (floor); Lean `/` on Int is `Int.ediv`, equal for r > 0
            else if r < 0 then some (int_ (-(l / (-r))))
            else none
          | _, _, _, _ => none
      | _, _ => none
    match folded with
    | some t => t
    | none =>
      if isZero sl then sl
      else if isOne sr then sl
      else div_ sl sr
  | _ => .node .div args p

end PySMT.Simp.ArithRules
