import PySMT.Impl.Simp.Rules
/-!
# Bit-vector rule family: the 27 `walk_bv_*` methods of `pysmt/simplifier.py:494-965,1046-1049`

One `Rule` per method, same case order and guards. The Python code computes on `int`
(arbitrary precision): the model computes on `Nat` where the value cannot become negative and on
`Int` where it can (`walk_bv_neg`, `walk_bv_sub`, `bv_signed_value`), with Python's `%`
(non-negative for a positive modulus = `Int.emod`). `formula.bv_width()` of an operator node is the
first entry of its payload tuple (`pw`), `x.bv_width()` of an argument is `Build.bvWidth`.

Bit-string code (`bv_bin_str`, slicing, `[::-1]`, `"#b%s"`) is modelled by the number the string
denotes: for a bit string `s` (least significant bit first) of length `n`, `s[i:j]` denotes
`(v >>> i) % 2^(j-i)` and the concatenation `s ++ t` denotes `val s + val t * 2^|s|`.

`self.manager.BV(v, w)` raises for `v ≥ 2^w` (and for `w = 0`: pySMT has no constant of width 0,
although `BVType(0)` exists); the model builds the node and `RuleOK.type` proves `v < 2^w`.
-/
namespace PySMT.Simp.BVRules
open PySMT.Build

/-- `is_bv_constant()` together with `bv_unsigned_value()` / `constant_value()` -/
def isBvConst (t : Term) : Option Nat :=
  match t with | .node .bvConst [] (.bv v _) => some v | _ => none

/-- `formula.bv_width()` of an operator node: `payload[0]` -/
def pw : Payload → Nat | .ints (w :: _) => w | _ => 0
/-- `payload[1]`: `bv_rotation_step()`, `bv_extend_step()`, `bv_extract_start()` -/
def pk : Payload → Nat | .ints (_ :: k :: _) => k | _ => 0
/-- `payload[2]`: `bv_extract_end()` -/
def pe : Payload → Nat | .ints (_ :: _ :: e :: _) => e | _ => 0

/-- `pysmt.utils.twos_complement(val, bits)` -/
def twosComplement (val bits : Nat) : Int :=
  if val &&& (1 <<< (bits - 1)) ≠ 0 then (val : Int) - 2 ^ bits else val

/-- `x.bv_signed_value() < 0` for a constant `x` of value `v` -/
def signedNeg (v width : Nat) : Bool := decide (twosComplement v width < 0)

/-- `pysmt.utils.set_bit(v, index, True)` -/
def setBit (v index : Nat) : Nat := v ||| (1 <<< index)

/-- Python `~v & m` for `v, m ≥ 0`: bit `i` of the result is `¬ v_i ∧ m_i` -/
def notAnd (v m : Nat) : Nat := Nat.bitwise (fun x y => !x && y) v m

/-- `walk_bv_and` (simplifier.py:494-524) -/
def walkBvAnd : Rule := fun p args =>
  match args with
  | [a, b] =>
    let width := pw p
    match isBvConst a with
    | some lhs =>
      if lhs = 0 then bv_ 0 width
      else if lhs = 2 ^ width - 1 then b
      else
        match isBvConst b with
        | some rhs => bv_ (lhs &&& rhs) width
        | none => bvAnd_ a b
    | none =>
      match isBvConst b with
      | some rhs =>
        if rhs = 0 then bv_ 0 width
        else if rhs = 2 ^ width - 1 then a
        else bvAnd_ a b
      | none => bvAnd_ a b
  | _ => .node .bvAnd args p

/-- `walk_bv_not` (simplifier.py:526-530) -/
def walkBvNot : Rule := fun p args =>
  match args with
  | [a] =>
    match isBvConst a with
    | some v => bv_ (notAnd v (2 ^ pw p - 1)) (pw p)
    | none => bvNot_ a
  | _ => .node .bvNot args p

/-- `walk_bv_neg` (simplifier.py:532-537) -/
def walkBvNeg : Rule := fun p args =>
  match args with
  | [a] =>
    match isBvConst a with
    | some v => bv_ ((((2 : Int) ^ pw p - v) % 2 ^ pw p).toNat) (pw p)
    | none => bvNeg_ a
  | _ => .node .bvNeg args p

/-- `walk_bv_or` (simplifier.py:539-574). `args[1].is_constant()` followed by
`bv_unsigned_value()`: a constant of bit-vector type is a bit-vector constant (the other case
raises in Python; the model rebuilds the node) -/
def walkBvOr : Rule := fun p args =>
  match args with
  | [a, b] =>
    match isBvConst a with
    | some lhs =>
      if lhs = 0 then b
      else
        let width := pw p
        let mask := 2 ^ width - 1
        if lhs = mask then bv_ mask width
        else if isConstant b then
          match isBvConst b with
          | some rhs => bv_ (lhs ||| rhs) width
          | none => bvOr_ a b
        else bvOr_ a b
    | none =>
      match isBvConst b with
      | some rhs =>
        if rhs = 0 then a
        else
          let width := pw p
          let mask := 2 ^ width - 1
          if rhs = mask then bv_ mask width else bvOr_ a b
      | none => bvOr_ a b
  | _ => .node .bvOr args p

/-- `walk_bv_xor` (simplifier.py:576-580) -/
def walkBvXor : Rule := fun p args =>
  match args with
  | [a, b] =>
    match isBvConst a, isBvConst b with
    | some l, some r => bv_ (l ^^^ r) (pw p)
    | _, _ => bvXor_ a b
  | _ => .node .bvXor args p

/-- `walk_bv_add` (simplifier.py:582-602) -/
def walkBvAdd : Rule := fun p args =>
  match args with
  | [a, b] =>
    match isBvConst a with
    | some lhs =>
      if lhs = 0 then b
      else
        match isBvConst b with
        | some rhs => bv_ ((lhs + rhs) % 2 ^ pw p) (pw p)
        | none => bvAdd_ a b
    | none =>
      if isBvConst b = some 0 then a else bvAdd_ a b
  | _ => .node .bvAdd args p

/-- `walk_bv_mul` (simplifier.py:604-632) -/
def walkBvMul : Rule := fun p args =>
  match args with
  | [a, b] =>
    match isBvConst a with
    | some lhs =>
      if lhs = 0 then bv_ 0 (pw p)
      else if lhs = 1 then b
      else
        match isBvConst b with
        | some rhs => bv_ ((lhs * rhs) % 2 ^ pw p) (pw p)
        | none => bvMul_ a b
    | none =>
      match isBvConst b with
      | some rhs =>
        if rhs = 0 then bv_ 0 (pw p)
        else if rhs = 1 then a
        else bvMul_ a b
      | none => bvMul_ a b
  | _ => .node .bvMul args p

/-- `walk_bv_udiv` (simplifier.py:634-655) -/
def walkBvUdiv : Rule := fun p args =>
  match args with
  | [a, b] =>
    match isBvConst b with
    | some rhs =>
      if rhs = 0 then bv_ (2 ^ pw p - 1) (pw p)
      else if rhs = 1 then a
      else
        match isBvConst a with
        | some lhs => bv_ ((lhs / rhs) % 2 ^ pw p) (pw p)
        | none => bvUdiv_ a b
    | none => bvUdiv_ a b
  | _ => .node .bvUdiv args p

/-- `walk_bv_urem` (simplifier.py:657-678) -/
def walkBvUrem : Rule := fun p args =>
  match args with
  | [a, b] =>
    match isBvConst b with
    | some rhs =>
      if rhs = 0 then a
      else if rhs = 1 then bv_ 0 (pw p)
      else
        match isBvConst a with
        | some lhs => bv_ (lhs % rhs) (pw p)
        | none => bvUrem_ a b
    | none =>
      if isBvConst a = some 0 then bv_ 0 (pw p) else bvUrem_ a b
  | _ => .node .bvUrem args p

/-- `walk_bv_ult` (simplifier.py:680-698) -/
def walkBvUlt : Rule := fun p args =>
  match args with
  | [a, b] =>
    if a = b then bool_ false
    else
      match isBvConst b with
      | some rhs =>
        if rhs = 0 then bool_ false
        else
          match isBvConst a with
          | some lhs => bool_ (decide (lhs < rhs))
          | none => bvUlt_ a b
      | none => bvUlt_ a b
  | _ => .node .bvUlt args p

/-- `walk_bv_ule` (simplifier.py:700-718) -/
def walkBvUle : Rule := fun p args =>
  match args with
  | [a, b] =>
    if a = b then bool_ true
    else
      match isBvConst a with
      | some lhs =>
        if lhs = 0 then bool_ true
        else
          match isBvConst b with
          | some rhs => bool_ (decide (lhs ≤ rhs))
          | none => bvUle_ a b
      | none => bvUle_ a b
  | _ => .node .bvUle args p

/-- `walk_bv_extract` (simplifier.py:720-730): `bitstr[start:end+1]` of the reversed
(least-significant-first) bit string, reversed again and read as a number: bits
`start … end` of the value -/
def walkBvExtract : Rule := fun p args =>
  match args with
  | [a] =>
    let start := pk p
    let end_ := pe p
    match isBvConst a with
    | some v => bv_ ((v >>> start) % 2 ^ (end_ + 1 - start)) ((end_ + 1) - start)
    | none => bvExtract_ a start end_
  | _ => .node .bvExtract args p

/-- `walk_bv_ror` (simplifier.py:732-740): `slice1 = bitstr[0:k]` (the `k` low bits),
`slice2 = bitstr[k:]`, result `slice2 + slice1` (least significant first); the width of the
result is the length of the string, i.e. the width of the argument -/
def walkBvRor : Rule := fun p args =>
  match args with
  | [a] =>
    match isBvConst a with
    | some v =>
      let w := bvWidth a
      let k := min (pk p) w               -- Python slicing clips at the length of the string
      bv_ ((v >>> k) + (v % 2 ^ k) * 2 ^ (w - k)) w
    | none => bvRor_ a (pk p)
  | _ => .node .bvRor args p

/-- `walk_bv_rol` (simplifier.py:742-750): `slice1 = bitstr[0:-k]` (the `w - k` low bits; empty
for `k = 0` and for `k ≥ w`), `slice2 = bitstr[-k:]` (the rest), result `slice2 + slice1` -/
def walkBvRol : Rule := fun p args =>
  match args with
  | [a] =>
    match isBvConst a with
    | some v =>
      let w := bvWidth a
      let k := pk p
      let n1 := if k = 0 then 0 else w - k     -- length of `bitstr[0:-k]`
      bv_ ((v >>> n1) + (v % 2 ^ n1) * 2 ^ (w - n1)) w
    | none => bvRol_ a (pk p)
  | _ => .node .bvRol args p

/-- `walk_bv_sext` (simplifier.py:752-758): `filler = bitstr[0]` is the most significant bit;
`filler*k + bitstr` -/
def walkBvSext : Rule := fun p args =>
  match args with
  | [a] =>
    match isBvConst a with
    | some v =>
      let wa := bvWidth a
      let k := pk p
      let filler := v.testBit (wa - 1)
      bv_ ((if filler then (2 ^ k - 1) * 2 ^ wa else 0) + v) (pw p)
    | none => bvSext_ a (pk p)
  | _ => .node .bvSext args p

/-- `walk_bv_zext` (simplifier.py:760-766) -/
def walkBvZext : Rule := fun p args =>
  match args with
  | [a] =>
    match isBvConst a with
    | some v => bv_ v (pw p)
    | none => bvZext_ a (pk p)
  | _ => .node .bvZext args p

/-- guard of the `bvZext` / `bvSext` entries: the width payload is operand width + step, as
`BVZExt`/`BVSExt` always store it (the type checker accepts any width ≥ the operand width; the
Python rules raise in `BV(res, width=…)` on such a node and the rebuilt node would change type) -/
def extGuard : Payload → List (Option Ty) → Bool
  | .ints [w, k], [some (.bv a)] => w == a + k
  | _, _ => false

/-- `walk_bv_concat` (simplifier.py:768-775) -/
def walkBvConcat : Rule := fun p args =>
  match args with
  | [a, b] =>
    match isBvConst a, isBvConst b with
    | some v0, some v1 =>
      let w0 := bvWidth a
      let w1 := bvWidth b
      bv_ (2 ^ w1 * v0 + v1) (w1 + w0)
    | _, _ => bvConcat_ a b
  | _ => .node .bvConcat args p

/-- `walk_bv_lshl` (simplifier.py:777-802) -/
def walkBvLshl : Rule := fun p args =>
  match args with
  | [a, b] =>
    match isBvConst b with
    | some rhs =>
      if rhs = 0 then a
      else
        let width := bvWidth a
        if rhs ≥ width then bv_ 0 width
        else
          match isBvConst a with
          | some lhs => bv_ ((lhs <<< rhs) % 2 ^ width) width
          | none => bvLshl_ a b
    | none =>
      if isBvConst a = some 0 then a else bvLshl_ a b
  | _ => .node .bvLshl args p

/-- `walk_bv_lshr` (simplifier.py:804-829) -/
def walkBvLshr : Rule := fun p args =>
  match args with
  | [a, b] =>
    match isBvConst b with
    | some rhs =>
      if rhs = 0 then a
      else
        let width := bvWidth a
        if rhs ≥ width then bv_ 0 width
        else
          match isBvConst a with
          | some lhs => bv_ ((lhs >>> rhs) % 2 ^ width) width
          | none => bvLshr_ a b
    | none =>
      if isBvConst a = some 0 then a else bvLshr_ a b
  | _ => .node .bvLshr args p

/-- `walk_bv_sub` (simplifier.py:831-851): the second `if` is not an `elif` -/
def walkBvSub : Rule := fun p args =>
  match args with
  | [a, b] =>
    let width := pw p
    let s1 : Option Term := if a = b then some (bv_ 0 width) else none
    let s2 : Option Term :=
      match isBvConst b with
      | some rhs =>
        if rhs = 0 then some a
        else
          match isBvConst a with
          | some lhs => some (bv_ ((((lhs : Int) - rhs) % 2 ^ width).toNat) width)
          | none => s1
      | none => s1
    match s2 with
    | some t => t
    | none => bvSub_ a b
  | _ => .node .bvSub args p

/-- `walk_bv_slt` (simplifier.py:853-860) -/
def walkBvSlt : Rule := fun p args =>
  match args with
  | [a, b] =>
    match isBvConst a, isBvConst b with
    | some l, some r => bool_ (decide (twosComplement l (bvWidth a) < twosComplement r (bvWidth b)))
    | _, _ => if a = b then bool_ false else bvSlt_ a b
  | _ => .node .bvSlt args p

/-- `walk_bv_sle` (simplifier.py:862-869) -/
def walkBvSle : Rule := fun p args =>
  match args with
  | [a, b] =>
    match isBvConst a, isBvConst b with
    | some l, some r => bool_ (decide (twosComplement l (bvWidth a) ≤ twosComplement r (bvWidth b)))
    | _, _ => if a = b then bool_ true else bvSle_ a b
  | _ => .node .bvSle args p

/-- `walk_bv_comp` (simplifier.py:871-879) -/
def walkBvComp : Rule := fun p args =>
  match args with
  | [sl, sr] =>
    if sl = sr then bv_ 1 1
    else if (isBvConst sl).isSome && (isBvConst sr).isSome then bv_ 0 1
    else bvComp_ sl sr
  | _ => .node .bvComp args p

/-- `walk_bv_sdiv` (simplifier.py:881-903): the four sign cases, through `walk_bv_neg` and
`walk_bv_udiv` applied to freshly built `BVNeg` / `BVUDiv` nodes (payload = width of the first
argument) -/
def walkBvSdiv : Rule := fun p args =>
  match args with
  | [l, r] =>
    match isBvConst l, isBvConst r with
    | some vl, some vr =>
      let lSign := signedNeg vl (bvWidth l)
      let rSign := signedNeg vr (bvWidth r)
      let neg (t : Term) : Term := walkBvNeg (.ints [bvWidth t]) [t]
      let udiv (x y : Term) : Term := walkBvUdiv (.ints [bvWidth x]) [x, y]
      if !lSign && !rSign then udiv l r
      else if lSign && !rSign then neg (udiv (neg l) r)
      else if !lSign && rSign then neg (udiv l (neg r))
      else udiv (neg l) (neg r)
    | _, _ => bvSdiv_ l r
  | _ => .node .bvSdiv args p

/-- `walk_bv_srem` (simplifier.py:905-925) -/
def walkBvSrem : Rule := fun p args =>
  match args with
  | [a, b] =>
    match isBvConst a, isBvConst b with
    | some va, some vb =>
      let neg (t : Term) : Term := walkBvNeg (.ints [bvWidth t]) [t]
      let l := if signedNeg va (bvWidth a) then neg a else a
      let r := if signedNeg vb (bvWidth b) then neg b else b
      let res := walkBvUrem (.ints [bvWidth l]) [l, r]
      if signedNeg va (bvWidth a) then neg res else res
    | _, _ => bvSrem_ a b
  | _ => .node .bvSrem args p

/-- the loop `for i in range(width-padlen, width): n = set_bit(n, i, True)` -/
def padOnes (n width padlen : Nat) : Nat :=
  (List.range' (width - padlen) (width - (width - padlen))).foldl setBit n

/-- `walk_bv_ashr` (simplifier.py:927-944) -/
def walkBvAshr : Rule := fun p args =>
  match args with
  | [l, r] =>
    match isBvConst l, isBvConst r with
    | some vl, some vr =>
      let sign := signedNeg vl (bvWidth l)
      let ret := walkBvLshr (.ints [bvWidth l]) [l, r]
      let width := pw p
      if sign then
        match isBvConst ret with                 -- `ret.bv_unsigned_value()`: `ret` is a constant
        | some n =>
          let padlen := if width > vr then vr else width
          bv_ (padOnes n width padlen) width
        | none => ret
      else ret
    | _, _ => bvAshr_ l r
  | _ => .node .bvAshr args p

/-- `walk_bv_tonatural` (simplifier.py:1046-1049) -/
def walkBvToNatural : Rule := fun p args =>
  match args with
  | [a] =>
    match isBvConst a with
    | some v => int_ (v : Int)
    | none => bvToNatural_ a
  | _ => .node .bvToNatural args p

end PySMT.Simp.BVRules
