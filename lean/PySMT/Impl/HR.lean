import PySMT.Core.Term
import PySMT.Core.TypeOf
import PySMT.Impl.Mk
import PySMT.Gen.HROps
/-!
# `Impl.HR` — token-level model of the human-readable printer and parser

* `hrTokens : Term → List Tok` — model of `HRPrinter` (`pysmt/printers.py:31-337`, what `FNode.serialize()` runs), as the
  list of tokens `HRLexer` makes of the printed text.
* `hrParse : List Tok → Except Err Term` — model of `PrattParser(HRLexer)` (`pysmt/parsing.py`): `expression`, the
  `nud`/`led` methods of every grammar symbol, the type-directed constructors of the lexer (`AndOrBVAnd`, …, `BVHack`),
  with the binding powers and constructor names of the **regenerated** table `Gen/HROps.lean` (`tools/gen_hrops.py`).
  The formula manager's constructors are the shared model `Impl/Mk.lean`.

**Token level.** The regular-expression scanner (`Lexer.tokenize`) is *not* modelled: a token here is what the scanner
hands to the parser — a constant with its value, an identifier already resolved to its symbol (`Identifier.__init__` asks the
formula manager at scanning time), or the spelling of one of the fixed rules. What is kept of the lexer is its table
(spelling ↦ grammar symbol, `Gen.HROps.rules`) and the identifier map (`Gen.HROps.idents`: an identifier named `xor`,
`ToReal`, `Int`, … is the operator, never the symbol: `lexIdent`). The correspondence run (`harness/props/c09.py`, K)
compares `hrTokens f` with the real scanner's tokens of the real `f.serialize()`, and `hrParse` of those tokens with the
real `HRParser().parse(text)`.

Deviations (all on inputs the printer never writes; an error on both sides):
* sorts are read by the separate function `pType` (the Python code calls `expression()` and gets a type object back);
* an error is an error: the exception classes are not distinguished beyond `Err`;
* fuel: `hrParse` gives `expr` the fuel `3 * length + 3`, which is never exhausted on printed text (theorem).
-/
namespace PySMT.HR
open PySMT.Gen.HROps (Kind Form)

/-- what the scanner hands to the parser -/
inductive Tok
  | real (q : Rat)            -- `Constant(mgr.Real(Fraction(read)))`
  | int (n : Int)             -- `Constant(mgr.Int(int(read)))`
  | bvc (v : Int) (w : Nat)   -- `<v>_<w>`: `Constant(mgr.BV(int(v), width=int(w)))`
  | str (s : String)          -- `"…"`: `Constant(mgr.String(read))`, `read` = the text between the quotes, as is
  | bvType (w : Nat)          -- `BV{w}`
  | ident (s : Sym)           -- `Identifier(name)`: the symbol the formula manager knows under this name
  | unknown (name : String)   -- text the scanner cannot turn into a token (`UndefinedSymbolError`, lexing error)
  | op (s : String)           -- a fixed rule / an identifier-map entry, by its spelling
  deriving DecidableEq, Repr, Inhabited

inductive Err
  | syntax                 -- PysmtSyntaxError / SyntaxError / exhausted token stream
  | mgr (e : Mk.Err)       -- raised by a constructor of the formula manager
  | undefined              -- UndefinedSymbolError / lexing error (token `unknown`)
  | fuel
  | unmodelled             -- outside the model (a type where a term is expected, a non-integer rotation amount …)
  deriving DecidableEq, Repr, Inhabited

def Err.name : Err → String
  | .syntax => "syntax" | .mgr e => "mgr-" ++ e.name | .undefined => "undefined" | .fuel => "fuel"
  | .unmodelled => "unmodelled"

/-! ## the lexer's table -/

def kindOf (s : String) : Option Kind := Gen.HROps.tokens.lookup s

def kindLbp : Kind → Nat
  | .infix _ l | .unary _ l | .fnCall _ l | .quant _ l | .punct _ l => l
  | .infixUnary _ _ l _ => l
  | .const _ | .tyTok _ => 0

/-- `token.lbp` -/
def lbp : Tok → Nat
  | .op s => match kindOf s with | some k => kindLbp k | none => 0
  | _ => 0

/-- the infix reading of a spelling: constructor, left binding power -/
def infixOf (s : String) : Option (String × Nat) :=
  match kindOf s with
  | some (.infix c l) => some (c, l)
  | some (.infixUnary b _ bl _) => some (b, bl)
  | _ => none

/-- the prefix reading of a spelling -/
def unaryOf (s : String) : Option (String × Nat) :=
  match kindOf s with
  | some (.unary c l) => some (c, l)
  | some (.infixUnary _ u _ ul) => some (u, ul)
  | _ => none

def fnOf (s : String) : Option String :=
  match kindOf s with
  | some (.fnCall c _) => some c
  | _ => none

def quantOf (s : String) : Option (String × Nat) :=
  match kindOf s with
  | some (.quant c l) => some (c, l)
  | _ => none

def punctOf (s : String) : Option (String × Nat) :=
  match kindOf s with
  | some (.punct c l) => some (c, l)
  | _ => none

/-- `HRLexer.identifier`: the identifier map first -/
def reservedName (n : String) : Bool := (Gen.HROps.idents.lookup n).isSome

def lexIdent (s : Sym) : Tok := if reservedName s.name then .op s.name else .ident s

/-! ### which names survive printing and scanning

The scanner is not modelled, but what it does to a *name* is simple enough to be stated: `walk_symbol` writes
`quote(name, style="'")` (`pysmt/utils.py`): bare when the name matches `_simple_symbol_prog` and is not one of
`_keywords`, otherwise between single quotes with `\` and `'` escaped by a backslash. The scanner reads a bare name back
only through its rule `[A-Za-z_][A-Za-z0-9_]*` (and only when no keyword rule — `forall`, `exists` — takes it first), a
quoted one through `'(.*?)'`, which knows no escape. `hrName` is the set of names for which the two agree. -/

def isIdStart (c : Char) : Bool := c.isAlpha || c == '_'
def isIdChar (c : Char) : Bool := c.isAlphanum || c == '_'
/-- the scanner's identifier rule `[A-Za-z_][A-Za-z0-9_]*` covers the whole name -/
def isHRIdent (n : String) : Bool :=
  match n.toList with
  | [] => false
  | c :: cs => isIdStart c && cs.all isIdChar

def smtSimpleStart (c : Char) : Bool := c.isAlpha || "~!@$%^&*_-+=<>.?/".toList.contains c
def smtSimpleChar (c : Char) : Bool := smtSimpleStart c || c.isDigit
/-- `_simple_symbol_prog.match(name)` (Python's `$` also matches before one trailing newline) -/
def isSmtSimple (n : String) : Bool :=
  let cs := n.toList
  let cs := if cs.getLast? = some '\n' then cs.dropLast else cs
  match cs with
  | [] => false
  | c :: rest => smtSimpleStart c && rest.all smtSimpleChar

/-- `quote` writes the name between quotes -/
def needsQuote (n : String) : Bool := Gen.HROps.quoteKeywords.contains n || !isSmtSimple n

/-- a fixed rule of the scanner spells this name (`forall`, `exists`): the rule comes before the identifier rule -/
def keywordRule (n : String) : Bool := (Gen.HROps.rules.lookup n).isSome

/-- **names the HR format can carry**: not an entry of the identifier map; printed bare and then an identifier of the
scanner that no keyword rule takes, or printed quoted and then free of `'` and `\` (finding F30 otherwise) -/
def hrName (n : String) : Bool :=
  !reservedName n &&
  (if needsQuote n then !n.toList.contains '\'' && !n.toList.contains '\\'
   else isHRIdent n && !keywordRule n)

/-- the regular expression `isSmtSimple` was written against -/
def alignedSimpleRegex : String :=
  "^[~!@\\$%\\^&\\*_\\-+=<>\\.\\?\\/A-Za-z][~!@\\$%\\^&\\*_\\-+=<>\\.\\?\\/A-Za-z0-9]*$"

/-! ## the printer -/

abbrev lpar : Tok := .op "("
abbrev rpar : Tok := .op ")"
abbrev lbrak : Tok := .op "["
abbrev rbrak : Tok := .op "]"
abbrev comma : Tok := .op ","

def sepBy (sep : List Tok) : List (List Tok) → List Tok
  | [] => []
  | [x] => x
  | x :: y :: more => x ++ sep ++ sepBy sep (y :: more)

/-- the syntactic form `HRPrinter` gives a node type -/
inductive Shape
  | naryInfix (s : String)    -- `( a s b s c )`          walk_nary
  | prefixPar (s : String)    -- `( s a )`                walk_not, walk_bv_neg
  | hack (s : String)         -- `( a s k )`              rotations and extensions, `k` = the step of the payload
  | unaryCall (s : String)    -- `s ( a )`, `s` a prefix operator (ToReal, bv2nat)
  | call (s : String)         -- `s ( a , b )`, `s` a function-call token (string operators)
  | ite                       -- `( c ? a : b )`
  | quant (s : String)        -- `( s x , y . body )`
  | extract                   -- `a [ lo : hi ]`
  | select                    -- `a [ i ]`
  | store                     -- `a [ i := v ]`
  | arrayValue                -- `Array{ I , E } ( d ) [ k := v ] …`
  | app                       -- `f ( a , b )`
  | sym
  | const
  deriving DecidableEq, Repr

def printerForm (op : Op) : Option Form := Gen.HROps.printer.lookup op

/-- the hand-modelled `walk_*` methods -/
def customShape : Op → Option Shape
  | .not | .bvNot => some (.prefixPar "!")
  | .bvNeg => some (.prefixPar "-")
  | .bvRol => some (.hack "ROL") | .bvRor => some (.hack "ROR")
  | .bvZext => some (.hack "ZEXT") | .bvSext => some (.hack "SEXT")
  | .toReal => some (.unaryCall "ToReal") | .bvToNatural => some (.unaryCall "bv2nat")
  | .strLength => some (.call "str.len") | .strConcat => some (.call "str.++")
  | .strCharAt => some (.call "str.at") | .strContains => some (.call "str.contains")
  | .strIndexOf => some (.call "str.indexof") | .strReplace => some (.call "str.replace")
  | .strSubstr => some (.call "str.substr") | .strPrefixOf => some (.call "str.prefixof")
  | .strSuffixOf => some (.call "str.suffixof") | .strToInt => some (.call "str.to.int")
  | .intToStr => some (.call "int.to.str")
  | .ite => some .ite
  | .forall_ => some (.quant "forall") | .exists_ => some (.quant "exists")
  | .bvExtract => some .extract | .arraySelect => some .select | .arrayStore => some .store
  | .arrayValue => some .arrayValue | .function => some .app | .symbol => some .sym
  | .realConst | .intConst | .boolConst | .bvConst | .strConst => some .const
  | _ => none

/-- AST hashes (`tools/gen_hrops.py: ast_hash`) of the `walk_*` bodies `customShape`/`nodeToks` were written against -/
def alignedPrinter : List (Op × String) := [
  (.forall_, "0233f8cb3fd7d40d"), (.exists_, "0e5364e22f0e6bb1"), (.not, "b58dd0c350e9891d"),
  (.symbol, "1ac6f6265a0121f1"), (.function, "7e908763a13d2a9f"), (.realConst, "15ffc1e737cbeffd"),
  (.boolConst, "b5c8e5594c40981c"), (.intConst, "3ace272e9e35491d"), (.strConst, "df98e078fef8f6af"),
  (.ite, "bf24683b84d3ae2e"), (.toReal, "6b2ccc59f4c85800"), (.bvConst, "a9f31e9ed4a541cf"),
  (.bvNot, "b58dd0c350e9891d"), (.bvExtract, "4e1e7766c37b91f9"), (.bvNeg, "834c895edf18d7ca"),
  (.bvRol, "f4bb17f3ca60e907"), (.bvRor, "b6ee74837be14c5b"), (.bvZext, "eeabd6dd98e39cfb"),
  (.bvSext, "25cd519ce8f6d16a"), (.strLength, "fe5536ccfefec7f4"), (.strConcat, "c098589f4b874cfe"),
  (.strContains, "f7f1efdce35fb7c4"), (.strIndexOf, "a41394b261f4c0e5"), (.strReplace, "ff49bd7b728e3066"),
  (.strSubstr, "3f063f9ceba66250"), (.strPrefixOf, "213f9bce7ca77208"), (.strSuffixOf, "1f0f899593956f9a"),
  (.strToInt, "f2d65c1615d47ac3"), (.intToStr, "3a1be441cabcea8d"), (.strCharAt, "f3967fb9ebcd9b28"),
  (.arraySelect, "160c3dc004daf5ee"), (.arrayStore, "d91527ab34ea46f8"), (.arrayValue, "59e2de39784ffa07"),
  (.bvToNatural, "493bae9af74c029d")]

/-- the shape of a node type: read from the regenerated printer table; a hand-written body counts only when it is the
body the model was written against -/
def shapeOf (op : Op) : Option Shape :=
  match printerForm op with
  | some (.nary _ s) => some (.naryInfix s)
  | some (.custom h) => if alignedPrinter.contains (op, h) then customShape op else none
  | none => none

/-- `str(type)` of a sort, scanned; `String` and user sorts are not sorts of the HR grammar: the scanner makes an
(undefined) identifier of them -/
def tyToks : Ty → List Tok
  | .bool => [.op "Bool"] | .int => [.op "Int"] | .real => [.op "Real"]
  | .bv w => [.bvType w]
  | .array i e => .op "Array{" :: tyToks i ++ comma :: tyToks e ++ [.op "}"]
  | .str => [.unknown "String"]
  | .custom n => [.unknown n]

/-- `"%s" % value.replace('"', '""')` between the quotes -/
def escape (s : String) : String :=
  String.ofList (s.toList.flatMap (fun c => if c = '"' then ['"', '"'] else [c]))

def natStr (n : Nat) : String := toString n
def intStr (n : Int) : String := if n < 0 then "-" ++ natStr n.natAbs else natStr n.natAbs

/-- `str(k)` of a constant `k` (the key under which `walk_array_value` sorts the assignments) -/
def renderConst : Term → String
  | .node .intConst _ (.i n) => intStr n
  | .node .realConst _ (.q q) => if q.den = 1 then intStr q.num ++ ".0" else intStr q.num ++ "/" ++ natStr q.den
  | .node .boolConst _ (.b v) => if v then "True" else "False"
  | .node .bvConst _ (.bv v w) => natStr v ++ "_" ++ natStr w
  | .node .strConst _ (.s s) => "\"" ++ escape s ++ "\""
  | _ => ""

def insertKV (kv : String × List Tok) : List (String × List Tok) → List (String × List Tok)
  | [] => [kv]
  | x :: rest => if kv.1 < x.1 then kv :: x :: rest else x :: insertKV kv rest

def sortKV (l : List (String × List Tok)) : List (String × List Tok) := l.foldr insertKV []

/-- `[ k := v ]` for the assignments of an array value: (key term, key tokens, value tokens), sorted by `str(key)` -/
def avPairs : List Term → List (List Tok) → List (String × List Tok)
  | k :: _ :: ts, kt :: vt :: more => (renderConst k, lbrak :: kt ++ .op ":=" :: vt ++ [rbrak]) :: avPairs ts more
  | _, _ => []

def hackStep : Payload → Option Nat
  | .ints [_, k] => some k
  | _ => none

def constTok (op : Op) (p : Payload) : Tok :=
  match op, p with
  | .realConst, .q q => .real q
  | .intConst, .i n => .int n
  | .boolConst, .b v => .op (if v then "True" else "False")
  | .bvConst, .bv v w => .bvc v w
  | .strConst, .s s => .str (escape s)
  | _, _ => .unknown "constant"

/-- the tokens of a node from the tokens of its arguments -/
def nodeToks (op : Op) (p : Payload) (args : List Term) (as : List (List Tok)) : List Tok :=
  match shapeOf op, p, as with
  | some (.naryInfix s), _, as => lpar :: sepBy [.op s] as ++ [rpar]
  | some (.prefixPar s), _, [a] => lpar :: .op s :: a ++ [rpar]
  | some (.hack s), p, [a] =>
    (match hackStep p with
     | some k => lpar :: a ++ [.op s, .int k, rpar]
     | none => [.unknown "payload"])
  | some (.unaryCall s), _, [a] => .op s :: lpar :: a ++ [rpar]
  | some (.call s), _, as => .op s :: lpar :: sepBy [comma] as ++ [rpar]
  | some .ite, _, [c, a, b] => lpar :: c ++ .op "?" :: a ++ .op ":" :: b ++ [rpar]
  | some (.quant s), .qvars vs, [b] =>
    if vs.isEmpty then b
    else lpar :: .op s :: sepBy [comma] (vs.map (fun v => [lexIdent v])) ++ .op "." :: b ++ [rpar]
  | some .extract, .ints [_, lo, hi], [a] => a ++ [lbrak, .int lo, .op ":", .int hi, rbrak]
  | some .select, _, [a, i] => a ++ lbrak :: i ++ [rbrak]
  | some .store, _, [a, i, v] => a ++ lbrak :: i ++ .op ":=" :: v ++ [rbrak]
  | some .arrayValue, .ty idx, d :: more =>
    let elem : Ty := match args with
      | dt :: _ => (match dt.typeOf with | some τ => τ | none => .custom "?")
      | [] => .custom "?"
    .op "Array{" :: tyToks idx ++ comma :: tyToks elem ++ .op "}" :: lpar :: d ++ rpar ::
      ((sortKV (avPairs args.tail more)).map (·.2)).flatten
  | some .app, .sym f, as => lexIdent f :: lpar :: sepBy [comma] as ++ [rpar]
  | some .sym, .sym s, [] => [lexIdent s]
  | some .const, p, [] => [constTok op p]
  | _, _, _ => [.unknown "shape"]

/-- **the printer model**: the scanned `f.serialize()` -/
def hrTokens : Term → List Tok
  | .node op args p => nodeToks op p args (args.map hrTokens)

/-! ## the constructors the tokens carry -/

def liftMk (r : Mk.R) : Except Err Term :=
  match r with
  | .ok t => .ok t
  | .error e => .error (.mgr e)

/-- `BVHack(op)`: the right operand must be a constant, its value is the step -/
def bvHack (f : Term → Int → Mk.R) (a b : Term) : Except Err Term :=
  if Mk.isConstant b then
    match b with
    | .node .intConst _ (.i k) => liftMk (f a k)
    | _ => .error .unmodelled
  else .error .syntax

/-- the `operator` of an `InfixOpAdapter`, by the name the regenerated table gives it -/
def applyInfix (c : String) (l r : Term) : Except Err Term :=
  if c = "self.AndOrBVAnd" then
    (match l.typeOf with
     | none => .error (.mgr .type)
     | some .bool => liftMk (Mk.And [l, r])
     | some _ => liftMk (Mk.BVAnd [l, r]))
  else if c = "self.OrOrBVOr" then
    (match l.typeOf with
     | none => .error (.mgr .type)
     | some .bool => liftMk (Mk.Or [l, r])
     | some _ => liftMk (Mk.BVOr [l, r]))
  else if c = "self.PlusOrBVAdd" then
    (match l.typeOf with
     | none => .error (.mgr .type)
     | some (.bv _) => liftMk (Mk.BVAdd [l, r])
     | some _ => liftMk (Mk.Plus [l, r]))
  else if c = "self.MinusOrBVSub" then
    (match l.typeOf with
     | none => .error (.mgr .type)
     | some (.bv _) => liftMk (Mk.BVSub l r)
     | some _ => liftMk (Mk.Minus l r))
  else if c = "self.TimesOrBVMul" then
    (match l.typeOf with
     | none => .error (.mgr .type)
     | some (.bv _) => liftMk (Mk.BVMul [l, r])
     | some _ => liftMk (Mk.Times [l, r]))
  else if c = "mgr.Iff" then liftMk (Mk.Iff l r)
  else if c = "mgr.Implies" then liftMk (Mk.Implies l r)
  else if c = "mgr.Equals" then liftMk (Mk.Equals l r)
  else if c = "mgr.LE" then liftMk (Mk.LE l r)
  else if c = "mgr.LT" then liftMk (Mk.LT l r)
  else if c = "mgr.GE" then liftMk (Mk.GE l r)
  else if c = "mgr.GT" then liftMk (Mk.GT l r)
  else if c = "mgr.Div" then liftMk (Mk.Div l r)
  else if c = "mgr.Pow" then liftMk (Mk.Pow l r)
  else if c = "mgr.BVULE" then liftMk (Mk.BVULE l r)
  else if c = "mgr.BVUGE" then liftMk (Mk.BVUGE l r)
  else if c = "mgr.BVULT" then liftMk (Mk.BVULT l r)
  else if c = "mgr.BVUGT" then liftMk (Mk.BVUGT l r)
  else if c = "mgr.BVSLE" then liftMk (Mk.BVSLE l r)
  else if c = "mgr.BVSGE" then liftMk (Mk.BVSGE l r)
  else if c = "mgr.BVSLT" then liftMk (Mk.BVSLT l r)
  else if c = "mgr.BVSGT" then liftMk (Mk.BVSGT l r)
  else if c = "mgr.BVLShl" then liftMk (Mk.BVLShl l (.t r))
  else if c = "mgr.BVLShr" then liftMk (Mk.BVLShr l (.t r))
  else if c = "mgr.BVAShr" then liftMk (Mk.BVAShr l (.t r))
  else if c = "mgr.BVUDiv" then liftMk (Mk.BVUDiv l r)
  else if c = "mgr.BVSDiv" then liftMk (Mk.BVSDiv l r)
  else if c = "mgr.BVURem" then liftMk (Mk.BVURem l r)
  else if c = "mgr.BVSRem" then liftMk (Mk.BVSRem l r)
  else if c = "mgr.BVConcat" then liftMk (Mk.BVConcat [l, r])
  else if c = "mgr.BVXor" then liftMk (Mk.BVXor l r)
  else if c = "mgr.BVComp" then liftMk (Mk.BVComp l r)
  else if c = "BVHack(mgr.BVRor)" then bvHack Mk.BVRor l r
  else if c = "BVHack(mgr.BVRol)" then bvHack Mk.BVRol l r
  else if c = "BVHack(mgr.BVZExt)" then bvHack Mk.BVZExt l r
  else if c = "BVHack(mgr.BVSExt)" then bvHack Mk.BVSExt l r
  else .error .unmodelled

/-- the `operator` of a `UnaryOpAdapter` -/
def applyUnary (c : String) (x : Term) : Except Err Term :=
  if c = "self.NotOrBVNot" then
    (match x.typeOf with
     | none => .error (.mgr .type)
     | some .bool => liftMk (Mk.Not x)
     | some _ => liftMk (Mk.BVNot x))
  else if c = "self.UMinusOrBvNeg" then
    (match x.typeOf with
     | none => .error (.mgr .type)
     | some .int => liftMk (Mk.Times [Mk.IntC (-1), x])
     | some .real => liftMk (Mk.Times [Mk.RealC (-1), x])
     | some _ => liftMk (Mk.BVNeg x))
  else if c = "mgr.ToReal" then liftMk (Mk.ToReal x)
  else if c = "mgr.BVToNatural" then liftMk (Mk.BVToNatural x)
  else .error .unmodelled

/-- the `operator(*params)` of a `FunctionCallAdapter` (a wrong number of parameters is a Python `TypeError`) -/
def applyFn (c : String) (ps : List Term) : Except Err Term :=
  if c = "mgr.StrConcat" then liftMk (Mk.StrConcat ps)
  else match ps with
  | [a] =>
    if c = "mgr.StrLength" then liftMk (Mk.StrLength a)
    else if c = "mgr.StrToInt" then liftMk (Mk.StrToInt a)
    else if c = "mgr.IntToStr" then liftMk (Mk.IntToStr a)
    else .error (.mgr .pyType)
  | [a, b] =>
    if c = "mgr.StrCharAt" then liftMk (Mk.StrCharAt a b)
    else if c = "mgr.StrContains" then liftMk (Mk.StrContains a b)
    else if c = "mgr.StrPrefixOf" then liftMk (Mk.StrPrefixOf a b)
    else if c = "mgr.StrSuffixOf" then liftMk (Mk.StrSuffixOf a b)
    else .error (.mgr .pyType)
  | [a, b, d] =>
    if c = "mgr.StrIndexOf" then liftMk (Mk.StrIndexOf a b d)
    else if c = "mgr.StrReplace" then liftMk (Mk.StrReplace a b d)
    else if c = "mgr.StrSubstr" then liftMk (Mk.StrSubstr a b d)
    else .error (.mgr .pyType)
  | _ => .error (.mgr .pyType)

def symsOf : List Term → Option (List Sym)
  | [] => some []
  | .node .symbol [] (.sym s) :: rest => (symsOf rest).map (s :: ·)
  | _ :: _ => none

/-- the `operator(qvars, matrix)` of a `Quantifier` (bound "variables" that are not symbols are outside the model) -/
def applyQuant (c : String) (vs : List Term) (m : Term) : Except Err Term :=
  match symsOf vs with
  | none => .error .unmodelled
  | some ss =>
    if c = "mgr.ForAll" then liftMk (Mk.ForAll ss m)
    else if c = "mgr.Exists" then liftMk (Mk.Exists ss m)
    else .error .unmodelled

def intConstVal : Term → Option Int
  | .node .intConst _ (.i n) => some n
  | _ => none

/-- `mgr.BVExtract(op, e1.constant_value(), end.constant_value())` -/
def applyExtract (a lo hi : Term) : Except Err Term :=
  match intConstVal lo, intConstVal hi with
  | some l, some h => liftMk (Mk.BVExtract a l (some h))
  | _, _ => if Mk.isConstant lo && Mk.isConstant hi then .error .unmodelled else .error (.mgr .assertion)

/-! ## the Pratt parser -/

abbrev PR := Except Err (Term × List Tok)
/-- `parser.expression(rbp)` on the remaining tokens -/
abbrev Ex := Nat → List Tok → PR
/-- `r = expression(); while token is ',': advance; r = expression()` -/
abbrev Ps := List Tok → Except Err (List Term × List Tok)
abbrev Pt := List Tok → Except Err (Ty × List Tok)

/-- `parser.expect(cls, s)`; every punctuation class has one spelling (`Props.C09HR.hrOps_consistent`) -/
def expect (s : String) (toks : List Tok) : Except Err (List Tok) :=
  match toks with
  | .op s' :: rest => if s' = s then .ok rest else .error .syntax
  | _ => .error .syntax

/-- `if type(parser.token) != <close>: while True: …` -/
def argList (ps : Ps) (close : String) (toks : List Tok) : Except Err (List Term × List Tok) :=
  match toks with
  | .op s :: _ => if s = close then .ok ([], toks) else ps toks
  | _ => ps toks

/-- `UnaryOpAdapter.nud`, `InfixOrUnaryOpAdapter.nud` -/
def nudUnary (ex : Ex) (c : String) (l : Nat) (rest : List Tok) : PR :=
  match ex l rest with
  | .error e => .error e
  | .ok (r, rest1) =>
    match applyUnary c r with
    | .error e => .error e
    | .ok t => .ok (t, rest1)

/-- `FunctionCallAdapter.nud` (`parser.advance()` skips the next token, whatever it is) -/
def nudFn (ps : Ps) (c : String) (rest : List Tok) : PR :=
  match rest with
  | [] => .error .syntax
  | _ :: rest1 =>
    match argList ps ")" rest1 with
    | .error e => .error e
    | .ok (as, rest2) =>
      match expect ")" rest2 with
      | .error e => .error e
      | .ok rest3 =>
        match applyFn c as with
        | .error e => .error e
        | .ok t => .ok (t, rest3)

/-- `Quantifier.nud` -/
def nudQuant (ex : Ex) (ps : Ps) (c : String) (l : Nat) (rest : List Tok) : PR :=
  match argList ps "." rest with
  | .error e => .error e
  | .ok (vs, rest1) =>
    match expect "." rest1 with
    | .error e => .error e
    | .ok rest2 =>
      match ex l rest2 with
      | .error e => .error e
      | .ok (m, rest3) =>
        match applyQuant c vs m with
        | .error e => .error e
        | .ok t => .ok (t, rest3)

/-- `OpenPar.nud` -/
def nudPar (ex : Ex) (rest : List Tok) : PR :=
  match ex 0 rest with
  | .error e => .error e
  | .ok (r, rest1) =>
    match expect ")" rest1 with
    | .error e => .error e
    | .ok rest2 => .ok (r, rest2)

/-- `OpenArrayTypeTok.nud` in a term position: a constant array `Array{I, E}(d)`; the element sort is not looked at -/
def nudArray (ex : Ex) (pt : Pt) (rest : List Tok) : PR :=
  match pt rest with
  | .error e => .error e
  | .ok (idx, r1) =>
    match expect "," r1 with
    | .error e => .error e
    | .ok r2 =>
      match pt r2 with
      | .error e => .error e
      | .ok (_, r3) =>
        match expect "}" r3 with
        | .error e => .error e
        | .ok r4 =>
          match expect "(" r4 with
          | .error _ => .error .unmodelled          -- a sort where a term is expected
          | .ok r5 =>
            match ex 0 r5 with
            | .error e => .error e
            | .ok (d, r6) =>
              match expect ")" r6 with
              | .error e => .error e
              | .ok r7 =>
                match liftMk (Mk.Array idx d []) with
                | .error e => .error e
                | .ok t => .ok (t, r7)

def nudOp (ex : Ex) (ps : Ps) (pt : Pt) (s : String) (rest : List Tok) : PR :=
  match kindOf s with
  | some (.unary c l) => nudUnary ex c l rest
  | some (.infixUnary _ u _ ul) => nudUnary ex u ul rest
  | some (.fnCall c _) => nudFn ps c rest
  | some (.quant c l) => nudQuant ex ps c l rest
  | some (.const c) =>
    if c = "TRUE" then .ok (Term.tt, rest) else if c = "FALSE" then .ok (Term.ff, rest) else .error .unmodelled
  | some (.punct cls _) =>
    if cls = "OpenPar" then nudPar ex rest
    else if cls = "OpenArrayTypeTok" then nudArray ex pt rest
    else .error .syntax
  | some (.tyTok _) => .error .unmodelled
  | _ => .error .syntax

/-- `token.nud(parser)` -/
def nud (ex : Ex) (ps : Ps) (pt : Pt) (t : Tok) (rest : List Tok) : PR :=
  match t with
  | .real q => .ok (Term.real q, rest)
  | .int n => .ok (Term.int n, rest)
  | .bvc v w =>
    (match liftMk (Mk.BV v w) with
     | .error e => .error e
     | .ok c => .ok (c, rest))
  | .str s => .ok (Term.str s, rest)
  | .ident s => .ok (Term.sym s, rest)
  | .bvType _ => .error .unmodelled
  | .unknown _ => .error .undefined
  | .op s => nudOp ex ps pt s rest

/-- `InfixOpAdapter.led`, `InfixOrUnaryOpAdapter.led` -/
def ledInfix (ex : Ex) (c : String) (l : Nat) (left : Term) (rest : List Tok) : PR :=
  match ex l rest with
  | .error e => .error e
  | .ok (r, rest1) =>
    match applyInfix c left r with
    | .error e => .error e
    | .ok t => .ok (t, rest1)

/-- `ExprIf.led` -/
def ledIte (ex : Ex) (l : Nat) (left : Term) (rest : List Tok) : PR :=
  match ex l rest with
  | .error e => .error e
  | .ok (a, rest1) =>
    match expect ":" rest1 with
    | .error e => .error e
    | .ok rest2 =>
      match ex l rest2 with
      | .error e => .error e
      | .ok (b, rest3) =>
        match liftMk (Mk.Ite left a b) with
        | .error e => .error e
        | .ok t => .ok (t, rest3)

/-- `OpenPar.led`: a function call (`Function(vname, [])` is `vname`, whatever it is) -/
def ledCall (ps : Ps) (left : Term) (rest : List Tok) : PR :=
  match argList ps ")" rest with
  | .error e => .error e
  | .ok (as, rest1) =>
    match expect ")" rest1 with
    | .error e => .error e
    | .ok rest2 =>
      if as.isEmpty then .ok (left, rest2)
      else
        match left with
        | .node .symbol [] (.sym f) =>
          (match liftMk (Mk.Function f as) with
           | .error e => .error e
           | .ok t => .ok (t, rest2))
        | _ => .error (.mgr .assertion)

/-- `OpenBrak.led`: extraction, select or store -/
def ledBrak (ex : Ex) (left : Term) (rest : List Tok) : PR :=
  match ex 0 rest with
  | .error e => .error e
  | .ok (e1, rest1) =>
    match rest1 with
    | .op s :: rest2 =>
      if s = ":" then
        (match ex 0 rest2 with
         | .error e => .error e
         | .ok (e2, rest3) =>
           match expect "]" rest3 with
           | .error e => .error e
           | .ok rest4 =>
             match applyExtract left e1 e2 with
             | .error e => .error e
             | .ok t => .ok (t, rest4))
      else if s = "]" then
        (match liftMk (Mk.Select left e1) with
         | .error e => .error e
         | .ok t => .ok (t, rest2))
      else if s = ":=" then
        (match ex 0 rest2 with
         | .error e => .error e
         | .ok (e2, rest3) =>
           match expect "]" rest3 with
           | .error e => .error e
           | .ok rest4 =>
             match liftMk (Mk.Store left e1 e2) with
             | .error e => .error e
             | .ok t => .ok (t, rest4))
      else .error .syntax
    | _ => .error .syntax

/-- `token.led(parser, left)` -/
def led (ex : Ex) (ps : Ps) (t : Tok) (left : Term) (rest : List Tok) : PR :=
  match t with
  | .op s =>
    (match infixOf s with
     | some (c, l) => ledInfix ex c l left rest
     | none =>
       match punctOf s with
       | some (cls, l) =>
         if cls = "ExprIf" then ledIte ex l left rest
         else if cls = "OpenPar" then ledCall ps left rest
         else if cls = "OpenBrak" then ledBrak ex left rest
         else .error .syntax
       | none => .error .syntax)
  | _ => .error .syntax

/-- a sort: `BV{w}`, `Int`, `Real`, `Bool`, `Array{ I , E }` -/
def pType : Nat → List Tok → Except Err (Ty × List Tok)
  | 0, _ => .error .fuel
  | _ + 1, [] => .error .syntax
  | _ + 1, .bvType w :: rest => .ok (.bv w, rest)
  | n + 1, .op s :: rest =>
    (match kindOf s with
     | some (.tyTok cls) =>
       if cls = "IntTypeTok" then .ok (.int, rest)
       else if cls = "RealTypeTok" then .ok (.real, rest)
       else if cls = "BoolTypeTok" then .ok (.bool, rest)
       else .error .unmodelled
     | some (.punct cls _) =>
       if cls = "OpenArrayTypeTok" then
         (match pType n rest with
          | .error e => .error e
          | .ok (i, r1) =>
            match expect "," r1 with
            | .error e => .error e
            | .ok r2 =>
              match pType n r2 with
              | .error e => .error e
              | .ok (e, r3) =>
                match expect "}" r3 with
                | .error e => .error e
                | .ok r4 => .ok (.array i e, r4))
       else .error .syntax
     | _ => .error .syntax)
  | _ + 1, .unknown _ :: _ => .error .undefined
  | _ + 1, _ :: _ => .error .unmodelled

mutual
/-- `PrattParser.expression(rbp)`; the first argument is fuel -/
def expr : Nat → Nat → List Tok → PR
  | 0, _, _ => .error .fuel
  | _ + 1, _, [] => .error .syntax
  | n + 1, rbp, t :: rest =>
    match nud (expr n) (params n) (pType n) t rest with
    | .error e => .error e
    | .ok (left, rest1) => loop n rbp left rest1
/-- `while rbp < self.token.lbp: …` -/
def loop : Nat → Nat → Term → List Tok → PR
  | 0, _, _, _ => .error .fuel
  | _ + 1, _, left, [] => .ok (left, [])
  | n + 1, rbp, left, t :: rest =>
    if rbp < lbp t then
      match led (expr n) (params n) t left rest with
      | .error e => .error e
      | .ok (left1, rest1) => loop n rbp left1 rest1
    else .ok (left, t :: rest)
/-- a comma-separated list of expressions -/
def params : Nat → List Tok → Except Err (List Term × List Tok)
  | 0, _ => .error .fuel
  | n + 1, toks =>
    match expr n 0 toks with
    | .error e => .error e
    | .ok (r, rest) =>
      match rest with
      | .op s :: rest1 =>
        if s = "," then
          (match params n rest1 with
           | .error e => .error e
           | .ok (rs, rest2) => .ok (r :: rs, rest2))
        else .ok ([r], rest)
      | _ => .ok ([r], rest)
end

def fuelFor (toks : List Tok) : Nat := 3 * toks.length + 3

/-- **the parser model**: `PrattParser.parse` — one expression, then the end of the input -/
def hrParse (toks : List Tok) : Except Err Term :=
  match expr (fuelFor toks) 0 toks with
  | .error e => .error e
  | .ok (t, []) => .ok t
  | .ok (_, _ :: _) => .error .syntax       -- "Bogus data after expression"

/-! ## the fragment of the round-trip theorem -/

def isOk (r : Except Err Term) (t : Term) : Bool :=
  match r with
  | .ok u => decide (u = t)
  | .error _ => false

/-- not a prefix operator applied to a parenthesis (`ToReal(x)`, `bv2nat(x)`): such a term may not be followed by `[` or
`(` (the operator's own `expression(100)` would take the index for its operand). Implied by typing wherever it is asked. -/
def tight : Term → Bool
  | .node op _ _ => match shapeOf op with | some (.unaryCall _) => false | _ => true

/-- a sort the HR grammar can spell -/
def readableTy : Ty → Bool
  | .bool | .int | .real | .bv _ => true
  | .array i e => readableTy i && readableTy e
  | .str | .custom _ => false

/-- the local condition on a node `op args p` of the fragment: its syntactic form is one the parser reads back
(binary infix applications, every hand-modelled form), names are names the format can carry (`hrName`: F30 otherwise), string
constants hold no double quote (F30), and **the constructor the parser calls for this form, applied to these arguments, returns this very
node** (`isOk`: the node is what the formula manager builds — well-typed, canonical payload, in the manager's normal form). -/
def fragNode (op : Op) (args : List Term) (p : Payload) : Bool :=
  let node := Term.node op args p
  match shapeOf op, p, args with
  | some (.naryInfix s), _, [a, b] =>
    (match infixOf s with
     | some (c, _) => isOk (applyInfix c a b) node
     | none => false)
  | some (.prefixPar s), _, [a] =>
    (match unaryOf s with
     | some (c, _) => isOk (applyUnary c a) node
     | none => false)
  | some (.hack s), .ints [_, k], [a] =>
    (match infixOf s with
     | some (c, _) => isOk (applyInfix c a (Term.int k)) node
     | none => false)
  | some (.unaryCall s), _, [a] =>
    (match unaryOf s with
     | some (c, _) => isOk (applyUnary c a) node
     | none => false)
  | some (.call s), _, a :: as =>
    (match fnOf s with
     | some c => isOk (applyFn c (a :: as)) node
     | none => false)
  | some .ite, _, [c, a, b] => isOk (liftMk (Mk.Ite c a b)) node
  | some (.quant s), .qvars vs, [b] =>
    !vs.isEmpty && vs.all (fun v => hrName v.name) &&
    (match quantOf s with
     | some (c, _) => isOk (applyQuant c (vs.map Term.sym) b) node
     | none => false)
  | some .extract, .ints [_, lo, hi], [a] => tight a && isOk (applyExtract a (Term.int lo) (Term.int hi)) node
  | some .select, _, [a, i] => tight a && isOk (liftMk (Mk.Select a i)) node
  | some .store, _, [a, i, v] => tight a && isOk (liftMk (Mk.Store a i v)) node
  | some .arrayValue, .ty idx, [d] =>
    readableTy idx && (match d.typeOf with | some τ => readableTy τ | none => false) &&
      isOk (liftMk (Mk.Array idx d [])) node
  | some .app, .sym f, a :: as => hrName f.name && isOk (liftMk (Mk.Function f (a :: as))) node
  | some .sym, .sym s, [] => hrName s.name
  | some .const, p, [] =>
    (match op, p with
     | .realConst, .q _ => true
     | .intConst, .i _ => true
     | .boolConst, .b _ => true
     | .bvConst, .bv v w => isOk (liftMk (Mk.BV v w)) node
     | .strConst, .s s => !s.toList.contains '"'
     | _, _ => false)
  | _, _, _ => false

def inHRFrag : Term → Bool
  | .node op args p => (args.map inHRFrag).all id && fragNode op args p

/-- the fragment of `hr_roundtrip` -/
def InHRFrag (t : Term) : Prop := inHRFrag t = true

/-! ## n-ary operators: the grouping the parser gives them -/

/-- what the `while` loop builds from `a s b s c …`: the constructor of `s`, applied from the left -/
def applyChain (c : String) (acc : Term) : List Term → Except Err Term
  | [] => .ok acc
  | a :: more =>
    match applyInfix c acc a with
    | .error e => .error e
    | .ok t => applyChain c t more

/-- `op(op(op(acc, a1), a2), …)` -/
def leftNest (op : Op) (p : Payload) (acc : Term) : List Term → Term
  | [] => acc
  | a :: more => leftNest op p (.node op [acc, a] p) more

/-- the node types the formula manager builds with more than two arguments and prints infix -/
def groupable : Op → Bool
  | .and | .or | .plus | .times => true
  | _ => false

/-- an infix application of three or more arguments of a groupable operator becomes the left-nested chain of binary
applications -/
def regroupNode (op : Op) (as : List Term) (p : Payload) : Term :=
  match shapeOf op, as with
  | some (.naryInfix _), a :: b :: c :: more =>
    if groupable op then leftNest op p a (b :: c :: more) else .node op as p
  | _, _ => .node op as p

/-- **what the HR parser makes of a printed term**: every n-ary `And`/`Or`/`Plus`/`Times` re-grouped to the left -/
def regroup : Term → Term
  | .node op args p => regroupNode op (args.map regroup) p

/-- the local condition of the larger fragment, on the *re-grouped* arguments `as` of a node: as `fragNode`, and an
infix application of three or more arguments of a groupable operator whose left-to-right constructor calls return the
left-nested nodes -/
def fragNodeN (op : Op) (as : List Term) (p : Payload) : Bool :=
  match shapeOf op, as with
  | some (.naryInfix s), a :: b :: c :: more =>
    groupable op &&
    (match infixOf s with
     | some (cn, _) => isOk (applyChain cn a (b :: c :: more)) (leftNest op p a (b :: c :: more))
     | none => false)
  | _, _ => fragNode op as p

def inHRFragN : Term → Bool
  | .node op args p => (args.map inHRFragN).all id && fragNodeN op (args.map regroup) p

/-- the fragment of `hr_roundtrip_partial` -/
def InHRFragN (t : Term) : Prop := inHRFragN t = true

/-! ## an explicit sufficient condition for the fragment (`Props.C09HR.hr_frag_of_printable_partial`) -/

/-- the operator slice for which `InHRFragN` is *derived* from C07's `Printable` and the manager's normal form: Boolean
connectives, linear integer / real arithmetic and comparisons, equality, if-then-else, array select / store, symbols,
function applications, quantifiers, Boolean / integer / real constants -/
def sliceOp : Op → Bool
  | .and | .or | .not | .implies | .iff | .ite | .equals | .le | .lt | .plus | .minus | .times
  | .symbol | .function | .boolConst | .intConst | .realConst | .arraySelect | .arrayStore | .forall_ | .exists_ => true
  | _ => false

def spellNode (op : Op) (p : Payload) : Bool :=
  sliceOp op &&
  (match op, p with
   | .symbol, .sym s | .function, .sym s => hrName s.name
   | .forall_, .qvars vs | .exists_, .qvars vs => vs.all (fun v => hrName v.name)
   | _, _ => true)

/-- every operator is in the slice and every name is a name the HR format can carry -/
def hrSpellable : Term → Bool
  | .node op args p => (args.map hrSpellable).all id && spellNode op p

/-! ## "differs at most in the grouping of n-ary operators" -/

/-- the arguments of an application of `op` (payload `p`), arguments that are themselves such applications spliced in -/
def flatArgs (op : Op) (p : Payload) : List Term → List Term
  | [] => []
  | .node op' as' p' :: rest =>
    if op' = op ∧ p' = p then as' ++ flatArgs op p rest else .node op' as' p' :: flatArgs op p rest

/-- every nest of applications of one groupable operator (`And`/`Or`/`Plus`/`Times`) flattened into one application
(bottom-up): `((a & b) & (c & d))`, `(a & (b & c) & d)` and `(a & b & c & d)` have the same flat form; `((p & q) | p)`
and `(p & (q | p))` do not -/
def flatNary : Term → Term
  | .node op args p =>
    if groupable op then .node op (flatArgs op p (args.map flatNary)) p else .node op (args.map flatNary) p

/-- two terms (and hence their serialisations) differ at most in the grouping of n-ary operators -/
def sameUpToGrouping (a b : Term) : Prop := flatNary a = flatNary b

/-- token lists with the parentheses erased (a much coarser relation than `sameUpToGrouping`; auxiliary) -/
def stripPar (l : List Tok) : List Tok := l.filter (fun t => t != lpar && t != rpar)

/-! ## what the model was written against -/

/-- AST hashes of the methods of parsing.py and of the helpers of `HRPrinter` this file models -/
def alignedHashes : List (String × String) := [
  ("parsing.HRParser", "c264b406abe29bda"),
  ("parsing.parse", "bdcd10ec1f7476a0"),
  ("Lexer.__init__", "058cebb543ef2ad7"),
  ("Lexer.compile", "02a75f7cd76ac129"),
  ("Lexer.lexing_error", "21859c08b0f3954b"),
  ("Lexer.tokenize", "65131e590f02e67d"),
  ("GrammarSymbol.__init__", "56c37cbf79f8efbb"),
  ("GrammarSymbol.nud", "8ab405e2a8452308"),
  ("GrammarSymbol.led", "f6814eaa0ed7af5b"),
  ("HRLexer.__init__", "23ce9c4146042904"),
  ("HRLexer.bv_type", "c0684b01518392e3"),
  ("HRLexer.real_constant", "daa4d12c53f5eb15"),
  ("HRLexer.bv_constant", "ced23bd195d714b1"),
  ("HRLexer.int_constant", "2da780f15c9da3b0"),
  ("HRLexer.string_constant", "0be56e2772c0922e"),
  ("HRLexer.identifier", "6266324395ed43db"),
  ("HRLexer.UMinusOrBvNeg", "4f8fdb3d56e45f2b"),
  ("HRLexer.AndOrBVAnd", "d577757b89d79a4f"),
  ("HRLexer.OrOrBVOr", "a0c3a79afd2bcb6a"),
  ("HRLexer.NotOrBVNot", "239b1aeca613f7df"),
  ("HRLexer.PlusOrBVAdd", "a3bec76783ab554c"),
  ("HRLexer.MinusOrBVSub", "30440fcd1239a54b"),
  ("HRLexer.TimesOrBVMul", "0f5f9baf06262f32"),
  ("HRLexer.BVHack", "e27208f0385aefe2"),
  ("BVTypeTok.__init__", "8c45720d00f46ae8"),
  ("BVTypeTok.nud", "2852251c4472891c"),
  ("IntTypeTok.nud", "eb4b2696c8501778"),
  ("RealTypeTok.nud", "31938aa3af1fe9bf"),
  ("BoolTypeTok.nud", "22397d7ffe18b92a"),
  ("Constant.__init__", "e305b22b33e1e386"),
  ("Constant.nud", "6791f882da0a8674"),
  ("Identifier.__init__", "31a943dbdd623b17"),
  ("Identifier.nud", "6791f882da0a8674"),
  ("ExprIf.__init__", "89708a5c131ca3ff"),
  ("ExprIf.led", "7a2c911107787843"),
  ("OpenArrayTypeTok.__init__", "89708a5c131ca3ff"),
  ("OpenArrayTypeTok.nud", "f1a09b8962b8773f"),
  ("OpenPar.__init__", "fa10596c486bfa00"),
  ("OpenPar.nud", "0f0aa33cae733152"),
  ("OpenPar.led", "76af4c6d9a0f3939"),
  ("OpenBrak.__init__", "235c92b422bbd06a"),
  ("OpenBrak.led", "cdc4e5c70a0d0894"),
  ("Quantifier.__init__", "19b8d8bfc1861de8"),
  ("Quantifier.nud", "4f29ed232567d6d2"),
  ("PrattParser.__init__", "72a8d52ad0e2a920"),
  ("PrattParser.expression", "5d5afe38c0bdc9bb"),
  ("PrattParser.parse_fname", "fd16096045612930"),
  ("PrattParser.parse", "9a247b1d8496d281"),
  ("PrattParser.advance", "163cb98bb0d58d59"),
  ("PrattParser.expect", "7a104cdad49be954"),
  ("UnaryOpAdapter.__init__", "19b8d8bfc1861de8"),
  ("UnaryOpAdapter.nud", "458c6e2a48d935c4"),
  ("InfixOpAdapter.__init__", "19b8d8bfc1861de8"),
  ("InfixOpAdapter.led", "3685f4edd7e802e0"),
  ("InfixOpAdapter.__repr__", "02f1f2603437e05f"),
  ("InfixOrUnaryOpAdapter.__init__", "c6d2ebd64ded0f51"),
  ("InfixOrUnaryOpAdapter.nud", "ea4208e30e168096"),
  ("InfixOrUnaryOpAdapter.led", "0948b1e19e5fad1f"),
  ("FunctionCallAdapter.__init__", "19b8d8bfc1861de8"),
  ("FunctionCallAdapter.nud", "eefc5bf82023bdf7"),
  ("FunctionCallAdapter.__repr__", "02f1f2603437e05f"),
  ("HRPrinter.__init__", "04c3e9e4cffc6c01"),
  ("HRPrinter.printer", "213c2186322afe1d"),
  ("HRPrinter.walk_threshold", "b611a332794bba00"),
  ("HRPrinter.walk_nary", "55f936f6539eb225"),
  ("HRPrinter.walk_quantifier", "7837c661d75231ae"),
  ("utils.quote", "e48443c73b9f2dba")]

/-- the functional rules of the scanner (not modelled: token level) the model was written against -/
def alignedFunctional : List (String × String) := [
  ("(\\s+)", "skip"),
  ("(-?\\d+/\\d+)", "real_constant"),
  ("(-?\\d+\\.\\d+)", "real_constant"),
  ("(-?\\d+_\\d+)", "bv_constant"),
  ("(-?\\d+)", "int_constant"),
  ("\\\"(.*?)\\\"", "string_constant"),
  ("BV\\{(\\d+)\\}", "bv_type"),
  ("'(.*?)'", "identifier"),
  ("([A-Za-z_][A-Za-z0-9_]*)", "identifier"),
  ("(.)", "lexing_error")]

end PySMT.HR
