import PySMT.Spec.AssertStack
/-!
# Model of `SmtLibScript.get_last_formula` and `get_strict_formula` (pysmt/smtlib/script.py)

`lastFormula` is the replay loop of `get_last_formula(return_optimizations=True)` (script.py:261-337)
with the same parallel structures as the Python code:

| Python                        | here            | representation                                             |
|-------------------------------|-----------------|------------------------------------------------------------|
| `stack`                       | `stack`         | list, appended at the end                                  |
| `backtrack`                   | `backtrack`     | list used as a stack: most recent entry FIRST              |
| `goals`                       | `goals`         | list of references: an objective, or the address of a `MaxSMTGoal` object |
| `goals_backtrack`             | `goalsBt`       | most recent first                                          |
| `max_smt_goals` (dict)        | `maxGoals`      | association list in insertion order: id ↦ (position, address) |
| `max_smt_goals_backtrack` (`defaultdict(list)`) | `maxBt` | total function (as a table `Tab`) id ↦ list (most recent first); a missing key reads as `[]`, deleting a key stores `[]` |
| the `MaxSMTGoal` objects      | `heap`, `next`  | object store: address ↦ the object's `.soft` list; `next` = next fresh address |

The `MaxSMTGoal` objects are *shared* between `goals` and `max_smt_goals` and mutated in place
(`add_soft_clause`, `goal.soft = goal.soft[:l]`); the object store makes that sharing explicit instead of
assuming that the two structures stay in step.  Formulas, weights, objectives and ids are opaque numbers; the
four objective commands (`maximize`, `minimize`, `minmax`, `maxmin`, each with a `:signed` flag) all do
`goals.append(<Goal of the command>)` and are one constructor `objective g`.

Python exceptions are results: `indexError` (`pop()` of an empty list — only on scripts that are illegal in
SMT-LIB), `valueError` (`get_strict_formula` refusing the script).
-/

namespace PySMT.Script
open PySMT.AssertStack

inductive Err where
  | indexError | valueError
  deriving Repr, DecidableEq, Inhabited

/-- an element of the Python list `goals` -/
inductive GRef where
  | obj (g : Nat)
  | max (addr : Nat)
  deriving Repr, DecidableEq, Inhabited

/-- a value of the dict `max_smt_goals`, together with its key -/
structure MaxEntry where
  id : Nat
  pos : Nat
  addr : Nat
  deriving Repr, DecidableEq, Inhabited

/-- A total function `Nat → β` with finitely many updates, as data: the most recent update first, and the value
    everywhere else.  (A Lean function built by nested `fun x => if x = a then v else h x` would be re-evaluated from
    scratch at every application by the compiled code: definitions returning functions are eta-expanded.) -/
structure Tab (β : Type) where
  entries : List (Nat × β)
  dflt : β

def Tab.getL {β : Type} : List (Nat × β) → β → Nat → β
  | [], d, _ => d
  | (a, v) :: r, d, x => if x = a then v else Tab.getL r d x

instance {β : Type} : CoeFun (Tab β) (fun _ => Nat → β) := ⟨fun t => Tab.getL t.entries t.dflt⟩

/-- the constant function -/
def Tab.const {β : Type} (d : β) : Tab β := ⟨[], d⟩

/-- function update (used for the object store and the `defaultdict`) -/
def upd {β : Type} (h : Tab β) (a : Nat) (v : β) : Tab β := ⟨(a, v) :: h.entries, h.dflt⟩

theorem upd_apply {β : Type} (h : Tab β) (a : Nat) (v : β) (x : Nat) : upd h a v x = if x = a then v else h x := rfl

@[simp] theorem Tab.const_apply {β : Type} (d : β) (x : Nat) : Tab.const d x = d := rfl

structure St where
  stack : List Nat
  backtrack : List Nat
  goals : List GRef
  goalsBt : List Nat
  maxGoals : List MaxEntry
  maxBt : Tab (List Nat)
  heap : Tab (List (Nat × Nat))
  next : Nat

def St.init : St := ⟨[], [], [], [], [], Tab.const [], Tab.const [], 0⟩

def lookup (id : Nat) : List MaxEntry → Option MaxEntry
  | [] => none
  | e :: es => if e.id = id then some e else lookup id es

/-- `for k, (_, goal) in max_smt_goals.items(): max_smt_goals_backtrack[k].append(len(goal.soft))` -/
def pushBt (heap : Tab (List (Nat × Nat))) : List MaxEntry → Tab (List Nat) → Tab (List Nat)
  | [], bt => bt
  | e :: es, bt => pushBt heap es (upd bt e.id ((heap e.addr).length :: bt e.id))

/-- one iteration of the `push` loop (script.py:292-296) -/
def pushOnce (st : St) : St :=
  { st with backtrack := st.stack.length :: st.backtrack
            goalsBt := st.goals.length :: st.goalsBt
            maxBt := pushBt st.heap st.maxGoals st.maxBt }

/-- the loop over `max_smt_goals.items()` inside `pop` (script.py:306-312); `glen = len(goals)` after the
    truncation.  Returns the new `defaultdict` and object store. -/
def popLoop (glen : Nat) : List MaxEntry → Tab (List Nat) → Tab (List (Nat × Nat)) →
    Except Err (Tab (List Nat) × Tab (List (Nat × Nat)))
  | [], bt, h => .ok (bt, h)
  | e :: es, bt, h =>
    if e.pos ≥ glen then popLoop glen es bt h            -- goals_to_remove.append(k)
    else match bt e.id with
      | [] => .error .indexError                          -- max_smt_goals_backtrack[k].pop() of []
      | l :: r => popLoop glen es (upd bt e.id r) (upd h e.addr ((h e.addr).take l))

/-- `for k in goals_to_remove: … max_smt_goals_backtrack.pop(k, None)` (the unrepaired code used `del`, which
    raised KeyError for a goal created in the popped level: finding F41) -/
def delKeys : List Nat → Tab (List Nat) → Tab (List Nat)
  | [], bt => bt
  | k :: ks, bt => delKeys ks (upd bt k [])

/-- one iteration of the `pop` loop (script.py:298-315) -/
def popOnce (st : St) : Except Err St :=
  match st.backtrack, st.goalsBt with
  | l :: bs, gl :: gbs =>
    let goals := st.goals.take gl
    match popLoop goals.length st.maxGoals st.maxBt st.heap with
    | .error e => .error e
    | .ok (bt, h) =>
      let toRemove := (st.maxGoals.filter fun e => decide (e.pos ≥ goals.length)).map (·.id)
      .ok { st with stack := st.stack.take l, backtrack := bs, goals := goals, goalsBt := gbs,
                    maxGoals := st.maxGoals.filter (fun e => !toRemove.contains e.id),
                    maxBt := delKeys toRemove bt, heap := h }
  | _, _ => .error .indexError

def pushN : Nat → St → St
  | 0, st => st
  | n + 1, st => pushN n (pushOnce st)

def popN : Nat → St → Except Err St
  | 0, st => .ok st
  | n + 1, st => match popOnce st with
    | .error e => .error e
    | .ok st' => popN n st'

/-- `assert-soft` (script.py:324-333): `setdefault`, `add_soft_clause`, append the goal when it has exactly
    one soft clause. -/
def softStep (st : St) (id f w : Nat) : St :=
  match lookup id st.maxGoals with
  | none =>
    -- fresh `MaxSMTGoal()` stored under the new key with position `len(goals)`
    let a := st.next
    let heap := upd st.heap a [(f, w)]
    { st with maxGoals := st.maxGoals ++ [⟨id, st.goals.length, a⟩], heap := heap, next := a + 1,
              goals := st.goals ++ [.max a] }              -- len(goal.soft) == 1
  | some e =>
    let soft := st.heap e.addr ++ [(f, w)]
    let heap := upd st.heap e.addr soft
    if soft.length = 1 then { st with heap := heap, goals := st.goals ++ [.max e.addr] }
    else { st with heap := heap }

def step (st : St) : Cmd → Except Err St
  | .assert f => .ok { st with stack := st.stack ++ [f] }
  | .reset => .ok { St.init with heap := st.heap, next := st.next }   -- fresh containers; old objects are garbage
  | .push n => .ok (pushN n st)
  | .pop n => popN n st
  | .objective g => .ok { st with goals := st.goals ++ [.obj g] }
  | .soft id f w => .ok (softStep st id f w)
  | .check => .ok st
  | .other => .ok st

def runFrom : St → List Cmd → Except Err St
  | st, [] => .ok st
  | st, c :: cs => match step st c with
    | .error e => .error e
    | .ok st' => runFrom st' cs

def resolve (heap : Tab (List (Nat × Nat))) : GRef → Goal
  | .obj g => .obj g
  | .max a => .maxsmt (heap a)

/-- what `get_last_formula(return_optimizations=True)` returns: the arguments of the final `And`, and the
    goals with the soft clauses they hold at that moment. -/
def St.result (st : St) : List Nat × List Goal := (st.stack, st.goals.map (resolve st.heap))

def lastFormula (cs : List Cmd) : Except Err (List Nat × List Goal) :=
  match runFrom St.init cs with
  | .error e => .error e
  | .ok st => .ok st.result

/-! ### `get_strict_formula` (script.py:239-251)

Refuses push, pop and (since the repair of finding F42) reset-assertions, and anything but exactly one check-sat. -/

def isStackCmd : Cmd → Bool
  | .push _ => true
  | .pop _ => true
  | .reset => true
  | _ => false

def isCheck : Cmd → Bool
  | .check => true
  | _ => false

def assertsOfCmds (cs : List Cmd) : List Nat :=
  cs.filterMap fun | .assert f => some f | _ => none

def strictFormula (cs : List Cmd) : Except Err (List Nat) :=
  if cs.any isStackCmd then .error .valueError          -- "Was not expecting push-pop / reset-assertions commands"
  else if (cs.filter isCheck).length ≠ 1 then .error .valueError   -- "exactly one check-sat"
  else .ok (assertsOfCmds cs)

end PySMT.Script
