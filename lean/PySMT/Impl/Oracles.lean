import PySMT.Core.Term
import PySMT.Core.TypeOf
import PySMT.Gen.Operators
/-!
# Model of `pysmt/oracles.py`: FreeVarsOracle, AtomsOracle, QuantifierOracle, TypesOracle, SizeOracle

Every oracle is a `DagWalker`: a per-node function applied bottom-up to the results of the
children (memoisation per node object does not change the result: C04 identifies objects with
structures). Each `…Node` function below is one `walk_*` dispatch table, the class tests
(`op.RELATIONS`, `op.CONSTANTS`, …) use the **regenerated** tables of `Gen/Operators.lean`.
`frozenset`s are modelled as lists (union = append); K compares them as sets.

The model describes the repaired code (fix commits e240b74, 82de4a9, 0c0d637, 16890d1).
-/
namespace PySMT.Oracles
open PySMT.Gen.Operators

/-! ## FreeVarsOracle (oracles.py:344-381) -/

/-- dispatch: `walk_symbol`, `walk_function`, `walk_quantifier` (QUANTIFIERS), `walk_constant`
(CONSTANTS), `walk_simple_args` (everything else) -/
def fvNode (op : Op) (p : Payload) (rs : List (List Sym)) : List Sym :=
  if op == .symbol then
    match p with | .sym s => [s] | _ => []                       -- frozenset([formula])
  else if op == .function then
    match p with | .sym s => s :: rs.flatten | _ => rs.flatten   -- chain([function_name], *args)
  else if quantifiers.contains op then
    match p with
    | .qvars vs => (rs.headD []).filter (fun x => !vs.contains x) -- args[0].difference(quantifier_vars)
    | _ => rs.headD []
  else if constants.contains op then []                          -- frozenset()
  else rs.flatten                                                -- frozenset(chain(*args))

def fvO : Term → List Sym
  | .node op args p => fvNode op p (args.map fvO)

/-! ## AtomsOracle (oracles.py:384-451) -/

/-- result of the atoms walk: a set of atoms, `None` ("this is a theory term"), or the
`AssertionError` of `assert_not_none` when a Boolean operator meets a theory term -/
inductive ARes
  | err
  | theory
  | atoms (l : List Term)
  deriving DecidableEq, Repr

def ARes.isErr : ARes → Bool | .err => true | _ => false
def ARes.isAtoms : ARes → Bool | .atoms _ => true | _ => false
def ARes.get : ARes → List Term | .atoms l => l | _ => []

/-- `frozenset(x for a in args for x in assert_not_none(a))` -/
def unionAll (rs : List ARes) : ARes :=
  if rs.all ARes.isAtoms then .atoms (rs.map ARes.get).flatten else .err

/-- `self` is the node itself, `ty` its type (`self.env.stc.get_type(formula)`, used by
`walk_array_select`) -/
def atomsNode (op : Op) (p : Payload) (self : Term) (ty : Option Ty) (rs : List ARes) : ARes :=
  if rs.any ARes.isErr then .err                                   -- an exception in a child aborts the walk
  else if boolConnectives.contains op || quantifiers.contains op then unionAll rs   -- walk_bool_op
  else if relations.contains op then .atoms [self]                  -- walk_theory_relation
  else if op == .arraySelect then                                   -- walk_array_select
    if ty == some .bool then .atoms [self] else .theory
  else if theoryOperators.contains op then .theory                  -- walk_theory_op
  else if constants.contains op then                                -- walk_constant
    if op == .boolConst then .atoms [] else .theory
  else if op == .symbol then                                        -- walk_symbol: is_symbol(BOOL)
    match p with
    | .sym s => if s.params.isEmpty && s.ret == .bool then .atoms [self] else .theory
    | _ => .theory
  else if op == .function then                                      -- walk_function
    match p with
    | .sym f => if f.ret == .bool then .atoms [self] else .theory
    | _ => .theory
  else if op == .ite then                                           -- walk_ite
    if rs.all ARes.isAtoms then .atoms (rs.map ARes.get).flatten else .theory
  else .err

def atomsO : Term → ARes
  | .node op args p => atomsNode op p (.node op args p) (Term.node op args p).typeOf (args.map atomsO)

/-! ## QuantifierOracle (oracles.py:133-145): `walk_all` / `walk_false` -/

def qfNode (op : Op) (rs : List Bool) : Bool :=
  if quantifiers.contains op then false else rs.all id

def isQFO : Term → Bool
  | .node op args _ => qfNode op (args.map isQFO)

/-! ## TypesOracle (oracles.py:454-531) -/

/-- `constant_type()` -/
def constType (op : Op) (p : Payload) : List Ty :=
  match op, p with
  | .boolConst, _ => [.bool]
  | .realConst, _ => [.real]
  | .algebraicConst, _ => [.real]
  | .intConst, _ => [.int]
  | .strConst, _ => [.str]
  | .bvConst, .bv _ w => [.bv w]
  | _, _ => []

/-- dispatch: `walk_symbol`, `walk_function`, `walk_quantifier`, `walk_constant`,
`walk_array_value`, `walk_combine` -/
def typesNode (op : Op) (p : Payload) (ty : Option Ty) (rs : List (List Ty)) : List Ty :=
  if op == .symbol then
    match p with | .sym s => (if s.params.isEmpty then [s.ret] else []) | _ => []
  else if op == .function then
    match p with | .sym f => f.ret :: (f.params ++ rs.flatten) | _ => rs.flatten
  else if quantifiers.contains op then
    match p with | .qvars vs => vs.map (·.ret) ++ rs.headD [] | _ => rs.headD []
  else if constants.contains op then constType op p
  else if op == .arrayValue then ty.toList ++ rs.flatten
  else rs.flatten

/-- the walk: the set of types before expansion -/
def typesWalk : Term → List Ty
  | .node op args p => typesNode op p (Term.node op args p).typeOf (args.map typesWalk)

/-- one type of `expand_types`: post-order, skipping what has been emitted already -/
def visitTy : Ty → List Ty → List Ty
  | .array i e, acc =>
    if (Ty.array i e) ∈ acc then acc else visitTy e (visitTy i acc) ++ [.array i e]
  | .bool, acc => if Ty.bool ∈ acc then acc else acc ++ [.bool]
  | .int, acc => if Ty.int ∈ acc then acc else acc ++ [.int]
  | .real, acc => if Ty.real ∈ acc then acc else acc ++ [.real]
  | .str, acc => if Ty.str ∈ acc then acc else acc ++ [.str]
  | .bv w, acc => if Ty.bv w ∈ acc then acc else acc ++ [.bv w]
  | .custom n, acc => if Ty.custom n ∈ acc then acc else acc ++ [.custom n]

/-- `expand_types(types)` for the given iteration order of `types` -/
def expandTypes (ts : List Ty) : List Ty := ts.foldl (fun acc t => visitTy t acc) []

/-- `get_types(formula)` (the iteration order of the intermediate frozenset is not modelled:
K compares `get_types` as a set and `expand_types` on explicit lists exactly) -/
def typesO (t : Term) : List Ty := expandTypes (typesWalk t)

/-- the base-type filter of `get_types(…, custom_only=True)`: not Bool/Int/Real/BV/Array/String -/
def keptByCustomOnly : Ty → Bool
  | .bool | .int | .real | .str | .bv _ | .array _ _ => false
  | .custom _ => true

/-- `get_types(formula, custom_only=True)`: the expanded list, filtered (order kept) -/
def typesCustomO (t : Term) : List Ty := (typesO t).filter keptByCustomOnly

/-! ## SizeOracle (oracles.py:43-134) -/

inductive Measure
  | treeNodes | dagNodes | leaves | depth | symbols | boolDag
  deriving DecidableEq, Repr

def Measure.ofNat? : Nat → Option Measure
  | 0 => some .treeNodes | 1 => some .dagNodes | 2 => some .leaves | 3 => some .depth
  | 4 => some .symbols | 5 => some .boolDag | _ => none

/-- `walk_count_tree` -/
def treeO : Term → Nat
  | .node _ args _ => 1 + (args.map treeO).sum

/-- `walk_count_dag` -/
def dagO : Term → List Term
  | .node op args p => .node op args p :: (args.map dagO).flatten

/-- `walk_count_leaves` -/
def leavesO : Term → Nat
  | .node _ args _ => (if args.isEmpty then 1 else 0) + (args.map leavesO).sum

/-- Python's `max(args)` on a non-empty list -/
def maxList : List Nat → Nat
  | [] => 0
  | x :: xs => xs.foldl max x

/-- `walk_count_depth` -/
def depthO : Term → Nat
  | .node _ args _ => 1 + (if args.isEmpty then 0 else maxList (args.map depthO))

/-- `walk_count_symbols` -/
def symbolsO : Term → List Term
  | .node op args p =>
    (if op == .symbol then [.node op args p] else []) ++ (args.map symbolsO).flatten

/-- the leaves of `walk_count_bool_dag`: theory relations, Boolean applications, Boolean selects -/
def boolDagStop (op : Op) (ty : Option Ty) : Bool :=
  relations.contains op || ((op == .function || op == .arraySelect) && ty == some .bool)

/-- `walk_count_bool_dag` -/
def boolDagO : Term → List Term
  | .node op args p =>
    if boolDagStop op (Term.node op args p).typeOf then [.node op args p]
    else .node op args p :: (args.map boolDagO).flatten

/-- `get_size(formula, measure)` -/
def sizeO (m : Measure) (t : Term) : Nat :=
  match m with
  | .treeNodes => treeO t
  | .dagNodes => (dagO t).eraseDups.length
  | .leaves => leavesO t
  | .depth => depthO t
  | .symbols => (symbolsO t).eraseDups.length
  | .boolDag => (boolDagO t).eraseDups.length

end PySMT.Oracles
