/-!
# C04 — executable model of `pysmt/formula.py` (FormulaManager), the structural part of
`pysmt/fnode.py`, `pysmt/typing.py: TypeManager` and `FormulaContextualizer`

Self-contained (no import).  Object identity of `FNode`s is abstracted to the node id
(`FNode._node_id`, handed out consecutively by `create_node`); CPython `id()` — which
`FormulaManager.Array` sorts by and `FNode.array_value_get` searches by — is an explicit
parameter `addr : Nid → Nat`.

Everything that changes a manager is a `Prog`: a tree of *primitive requests* (`Prim`)
with continuations.  The primitives are the only state-changing code of the Python class:

* `create`     = `create_node`                    (formula.py:95-106)
* `intConst`   = `Int`                            (formula.py:372-388; repaired order: validate, then cache)
* `realConst`  = `Real`                           (formula.py:342-370; idem)
* `strConst`   = `String`                         (formula.py:390-403)
* `symbol`     = `get_or_create_symbol`           (formula.py:108-147)
* `setFresh`   = the `_fresh_guess` update of `new_fresh_symbol`
* `internTy`   = `TypeManager.normalize`          (typing.py:505-545)

so every theorem proved "for all `Prog`s" covers every present and future constructor that
is written in terms of them.
-/
namespace PySMT.Manager

/-- node ids (`FNode._node_id`); a notation, so that it *is* `Nat` for `omega` -/
notation "Nid" => Nat

/-! ## Types (`pysmt/typing.py`) -/

mutual
  inductive Ty
    | bool | int | real | string
    | bv (w : Nat)
    | array (idx elem : Ty)
    | func (ret : Ty) (params : TyL)
    | custom (name : String) (args : TyL)
    deriving DecidableEq, Repr
  inductive TyL
    | nil
    | cons (h : Ty) (t : TyL)
    deriving DecidableEq, Repr
end

instance : Inhabited Ty := ⟨.bool⟩

def TyL.toList : TyL → List Ty
  | .nil => []
  | .cons h t => h :: t.toList

def TyL.ofList : List Ty → TyL
  | [] => .nil
  | h :: t => .cons h (TyL.ofList t)

def TyL.length : TyL → Nat
  | .nil => 0
  | .cons _ t => t.length + 1

/-! ## Node contents (`fnode.py: FNodeContent`) -/

/- Node types, numbered as in `pysmt/operators.py` (K compares `node_type()`). -/
namespace NT
abbrev FORALL : Nat := 0
abbrev EXISTS : Nat := 1
abbrev AND : Nat := 2
abbrev OR : Nat := 3
abbrev NOT : Nat := 4
abbrev IMPLIES : Nat := 5
abbrev IFF : Nat := 6
abbrev SYMBOL : Nat := 7
abbrev FUNCTION : Nat := 8
abbrev REAL_CONSTANT : Nat := 9
abbrev BOOL_CONSTANT : Nat := 10
abbrev INT_CONSTANT : Nat := 11
abbrev STR_CONSTANT : Nat := 12
abbrev PLUS : Nat := 13
abbrev MINUS : Nat := 14
abbrev TIMES : Nat := 15
abbrev LE : Nat := 16
abbrev LT : Nat := 17
abbrev EQUALS : Nat := 18
abbrev ITE : Nat := 19
abbrev TOREAL : Nat := 20
abbrev BV_CONSTANT : Nat := 21
abbrev BV_NOT : Nat := 22
abbrev BV_AND : Nat := 23
abbrev BV_OR : Nat := 24
abbrev BV_XOR : Nat := 25
abbrev BV_CONCAT : Nat := 26
abbrev BV_EXTRACT : Nat := 27
abbrev BV_ULT : Nat := 28
abbrev BV_ULE : Nat := 29
abbrev BV_NEG : Nat := 30
abbrev BV_ADD : Nat := 31
abbrev BV_SUB : Nat := 32
abbrev BV_MUL : Nat := 33
abbrev BV_UDIV : Nat := 34
abbrev BV_UREM : Nat := 35
abbrev BV_LSHL : Nat := 36
abbrev BV_LSHR : Nat := 37
abbrev BV_ROL : Nat := 38
abbrev BV_ROR : Nat := 39
abbrev BV_ZEXT : Nat := 40
abbrev BV_SEXT : Nat := 41
abbrev BV_SLT : Nat := 42
abbrev BV_SLE : Nat := 43
abbrev BV_COMP : Nat := 44
abbrev BV_SDIV : Nat := 45
abbrev BV_SREM : Nat := 46
abbrev BV_ASHR : Nat := 47
abbrev STR_LENGTH : Nat := 48
abbrev STR_CONCAT : Nat := 49
abbrev STR_CONTAINS : Nat := 50
abbrev STR_INDEXOF : Nat := 51
abbrev STR_REPLACE : Nat := 52
abbrev STR_SUBSTR : Nat := 53
abbrev STR_PREFIXOF : Nat := 54
abbrev STR_SUFFIXOF : Nat := 55
abbrev STR_TO_INT : Nat := 56
abbrev INT_TO_STR : Nat := 57
abbrev STR_CHARAT : Nat := 58
abbrev ARRAY_SELECT : Nat := 59
abbrev ARRAY_STORE : Nat := 60
abbrev ARRAY_VALUE : Nat := 61
abbrev DIV : Nat := 62
abbrev POW : Nat := 63
abbrev ALGEBRAIC_CONSTANT : Nat := 64
abbrev BV_TONATURAL : Nat := 65
end NT

/-- What an `FNodeContent.payload` can hold. -/
inductive Payload
  | none
  | bool (b : Bool)                  -- BOOL_CONSTANT
  | int (n : Int)                    -- INT_CONSTANT
  | rat (q : Rat)                    -- REAL_CONSTANT (a normalised `Fraction`)
  | str (s : String)                 -- STR_CONSTANT
  | bv (value width : Nat)           -- BV_CONSTANT `(value, width)`
  | nums (l : List Int)              -- BV operators: `(width,)`, `(size,start,end)`, `(width,step)`
  | sym (name : String) (ty : Ty)    -- SYMBOL `(name, type)`
  | vars (l : List Nid)               -- FORALL / EXISTS: tuple of bound symbols
  | fn (f : Nid)                      -- FUNCTION: the function symbol
  | ty (t : Ty)                      -- ARRAY_VALUE: index type
  | alg (tag : String)               -- ALGEBRAIC_CONSTANT: opaque numeral
  deriving DecidableEq, Repr

structure Content where
  nodeType : Nat
  args : List Nid
  payload : Payload
  deriving DecidableEq, Repr

def Payload.ids : Payload → List Nid
  | .vars l => l
  | .fn f => [f]
  | _ => []

/-- All formula objects a content refers to (children and payload nodes). -/
def Content.ids (c : Content) : List Nid := c.args ++ c.payload.ids

/-! ## Python values used as constant spellings -/

/-- A Python value passed to `Int(..)`, `Real(..)`, `Bool(..)`.  Floats and Fractions are
    carried as the exact rational they denote (`float.as_integer_ratio()`). -/
inductive PyNum
  | int (n : Int)
  | bool (b : Bool)
  | float (q : Rat)
  | frac (q : Rat)
  | pair (a b : Int)       -- the tuple `(a, b)`
  | other                  -- `str`, `None`, … (never a number)
  deriving DecidableEq, Repr

/-- Exact numeric value of a Python number (`bool` is a subclass of `int`: `True == 1`). -/
def PyNum.num? : PyNum → Option Rat
  | .int n => some n
  | .bool b => some (if b then 1 else 0)
  | .float q => some q
  | .frac q => some q
  | _ => none

/-- CPython `==` on these values: numbers of any type compare by exact value; a tuple equals
    only a tuple with pairwise equal components; anything else is only equal to itself. -/
def PyNum.pyEq (a b : PyNum) : Bool :=
  match a, b with
  | .pair a1 a2, .pair b1 b2 => a1 == b1 && a2 == b2
  | .other, .other => true
  | _, _ =>
    match a.num?, b.num? with
    | some x, some y => x == y
    | _, _ => false

/-- CPython's numeric hash is a function of the exact value (reduction modulo 2^61-1); the
    model only needs that it is *some* function of the value, so that `pyEq` keys collide. -/
def PyNum.pyHash : PyNum → Option Rat
  | .pair a b => some (a + 2 * b)
  | k => k.num?

/-- Value denoted by a legal argument of `Real(..)` (formula.py:356-364): a `Fraction`, a
    tuple `(n,d)`, an `int` or a `float`.  `bool` is *not* accepted (`type(v) == int` fails). -/
inductive Err
  | typeError | valueError | assertion | zeroDivision | indexError | badId | outOfFragment
  deriving DecidableEq, Repr

def PyNum.realValue : PyNum → Except Err Rat
  | .frac q => .ok q
  | .pair a b => if b = 0 then .error .zeroDivision else .ok (mkRat a b.natAbs * (if b < 0 then -1 else 1))
  | .int n => .ok n
  | .float q => .ok q
  | _ => .error .typeError

def PyNum.intValue : PyNum → Except Err Int
  | .int n => .ok n
  | _ => .error .typeError

/-! ## Manager state -/

structure TypeMgr where
  bvTypes : List Nat
  arrayTypes : List (Ty × Ty)
  funTypes : List (Ty × TyL)
  customDecls : List (String × Nat)
  customTypes : List (String × TyL)
  deriving Repr

def TypeMgr.init : TypeMgr :=
  { bvTypes := [1, 8, 16, 32, 64, 128], arrayTypes := [(.int, .int)], funTypes := [],
    customDecls := [], customTypes := [] }

structure Mgr where
  formulae : List (Content × Nid)
  nextId : Nat
  symbols : List (String × Nid)
  intConsts : List (Int × Nid)
  realConsts : List (PyNum × Nid)
  strConsts : List (String × Nid)
  fresh : Nat
  tm : TypeMgr
  /-- verdict of the environment's type checker on a node content (`env.stc.get_type`): a
      parameter of the manager, never changed; the model and all its theorems are for every
      such verdict function -/
  tc : Content → Bool

def trueC : Content := ⟨NT.BOOL_CONSTANT, [], .bool true⟩
def falseC : Content := ⟨NT.BOOL_CONSTANT, [], .bool false⟩
abbrev trueId : Nid := 1
abbrev falseId : Nid := 2

/-- `FormulaManager.__init__`: ids start at 1, TRUE and FALSE are created first. -/
def Mgr.initWith (tc : Content → Bool) : Mgr :=
  { formulae := [(falseC, falseId), (trueC, trueId)], nextId := 3, symbols := [],
    intConsts := [], realConsts := [], strConsts := [], fresh := 0, tm := TypeMgr.init, tc := tc }

/-- a manager whose type checker accepts everything it is asked (well-sorted histories) -/
def Mgr.init : Mgr := Mgr.initWith (fun _ => true)

def assoc [DecidableEq α] (k : α) : List (α × β) → Option β
  | [] => none
  | (k', v) :: t => if k = k' then some v else assoc k t

def assocBy (p : α → Bool) : List (α × β) → Option β
  | [] => none
  | (k', v) :: t => if p k' then some v else assocBy p t

/-- The node with a given id (`FNode._content`). -/
def rassoc (i : Nid) : List (Content × Nid) → Option Content
  | [] => none
  | (c, j) :: t => if i = j then some c else rassoc i t

def Mgr.content? (s : Mgr) (i : Nid) : Option Content := rassoc i s.formulae

def Mgr.validId (s : Mgr) (i : Nid) : Bool := decide (0 < i) && decide (i < s.nextId)

/-! ## Primitive state changes -/

/-- The table part of `create_node` (formula.py:95-106): look the content up, insert it if
    new.  The arguments are `FNode` objects in Python, hence always existing nodes; the model
    checks that explicitly. -/
def createNodeU (c : Content) (s : Mgr) : Except Err Nid × Mgr :=
  if c.ids.all s.validId then
    match assoc c s.formulae with
    | some i => (.ok i, s)
    | none => (.ok s.nextId,
        { s with formulae := (c, s.nextId) :: s.formulae, nextId := s.nextId + 1 })
  else (.error .badId, s)

/-- `create_node`: after the look-up / insertion the node is type-checked — on BOTH paths
    (formula.py:99 and :105); a rejected node raises `PysmtTypeError` and STAYS in the table. -/
def createNode (c : Content) (s : Mgr) : Except Err Nid × Mgr :=
  match createNodeU c s with
  | (.ok i, s') => if s.tc c then (.ok i, s') else (.error .typeError, s')
  | r => r

def intC (n : Int) : Content := ⟨NT.INT_CONSTANT, [], .int n⟩
def realC (q : Rat) : Content := ⟨NT.REAL_CONSTANT, [], .rat q⟩
def strC (x : String) : Content := ⟨NT.STR_CONSTANT, [], .str x⟩
def symC (name : String) (t : Ty) : Content := ⟨NT.SYMBOL, [], .sym name t⟩

/-- `Int(value)`, repaired order (F07): validate the argument, then consult the cache. -/
def intConst (v : PyNum) (s : Mgr) : Except Err Nid × Mgr :=
  match v.intValue with
  | .error e => (.error e, s)
  | .ok n =>
    match assoc n s.intConsts with
    | some i => (.ok i, s)
    | none =>
      match createNode (intC n) s with
      | (.ok i, s') => (.ok i, { s' with intConsts := (n, i) :: s'.intConsts })
      | r => r

/-- `Real(value)`, repaired order (F07).  The cache is keyed by the Python *value* as given,
    looked up with Python `==`. -/
def realConst (v : PyNum) (s : Mgr) : Except Err Nid × Mgr :=
  match v.realValue with
  | .error e => (.error e, s)
  | .ok q =>
    match assocBy (fun k => k.pyEq v) s.realConsts with
    | some i => (.ok i, s)
    | none =>
      match createNode (realC q) s with
      | (.ok i, s') => (.ok i, { s' with realConsts := (v, i) :: s'.realConsts })
      | r => r

/-- `Int`/`Real` as they were before the repair (cache consulted first): kept only to state
    F07 (`Props/C04.lean`), never used by a constructor below. -/
def intConstLegacy (v : PyNum) (s : Mgr) : Except Err Nid × Mgr :=
  match assocBy (fun (k : Int) => (PyNum.int k).pyEq v) s.intConsts with
  | some i => (.ok i, s)
  | none => intConst v s

def realConstLegacy (v : PyNum) (s : Mgr) : Except Err Nid × Mgr :=
  match assocBy (fun k => k.pyEq v) s.realConsts with
  | some i => (.ok i, s)
  | none => realConst v s

/-- `String(value)` for a `str` value. -/
def strConst (x : String) (s : Mgr) : Except Err Nid × Mgr :=
  match assoc x s.strConsts with
  | some i => (.ok i, s)
  | none =>
    match createNode (strC x) s with
    | (.ok i, s') => (.ok i, { s' with strConsts := (x, i) :: s'.strConsts })
    | r => r

/-- `get_or_create_symbol` + `_create_symbol` (formula.py:108-147). -/
def symbolPrim (name : String) (t : Ty) (s : Mgr) : Except Err Nid × Mgr :=
  match assoc name s.symbols with
  | some i =>
    match s.content? i with
    | some ⟨_, _, .sym _ t'⟩ => if t' = t then (.ok i, s) else (.error .typeError, s)
    | _ => (.error .assertion, s)
  | none =>
    if name = "" then (.error .valueError, s) else
    match createNode (symC name t) s with
    | (.ok i, s') => (.ok i, { s' with symbols := (name, i) :: s'.symbols })
    | r => r

/-! ### `TypeManager` -/

def insertNew [DecidableEq α] (a : α) (l : List α) : List α := if a ∈ l then l else a :: l

/-- `TypeManager.Type(name, arity)`: the declaration table rejects a second arity. -/
def TypeMgr.declare (tm : TypeMgr) (name : String) (arity : Nat) : Except Err TypeMgr :=
  match assoc name tm.customDecls with
  | some a => if a = arity then .ok tm else .error .valueError
  | none => .ok { tm with customDecls := (name, arity) :: tm.customDecls }

mutual
  /-- `TypeManager.normalize` (typing.py:505-545, with the F08 repair: the *current* type's
      name, arity and arguments are used).  Sub-types are visited last-to-first, as the
      explicit stack of the Python code does. -/
  def TypeMgr.intern (tm : TypeMgr) : Ty → Except Err TypeMgr
    | .bool | .int | .real | .string => .ok tm
    | .bv w => .ok { tm with bvTypes := insertNew w tm.bvTypes }
    | .array i e =>
      match tm.intern e with
      | .error x => .error x
      | .ok tm1 =>
        match tm1.intern i with
        | .error x => .error x
        | .ok tm2 => .ok { tm2 with arrayTypes := insertNew (i, e) tm2.arrayTypes }
    | .func r ps =>
      match tm.internL ps with
      | .error x => .error x
      | .ok tm1 =>
        match tm1.intern r with
        | .error x => .error x
        | .ok tm2 => .ok { tm2 with funTypes := insertNew (r, ps) tm2.funTypes }
    | .custom name as =>
      match tm.internL as with
      | .error x => .error x
      | .ok tm1 =>
        match tm1.declare name as.length with
        | .error x => .error x
        | .ok tm2 => .ok { tm2 with customTypes := insertNew (name, as) tm2.customTypes }
  def TypeMgr.internL (tm : TypeMgr) : TyL → Except Err TypeMgr
    | .nil => .ok tm
    | .cons h t =>
      match tm.internL t with
      | .error x => .error x
      | .ok tm1 => tm1.intern h
end

def internTyPrim (t : Ty) (s : Mgr) : Except Err Nid × Mgr :=
  match s.tm.intern t with
  | .ok tm' => (.ok 0, { s with tm := tm' })
  | .error e => (.error e, s)

/-! ## Programs over a manager -/

inductive Prim
  | create (c : Content)
  | intConst (v : PyNum)
  | realConst (v : PyNum)
  | strConst (x : String)
  | symbol (name : String) (t : Ty)
  | setFresh (n : Nat)
  | internTy (t : Ty)

def Prim.exec : Prim → Mgr → Except Err Nid × Mgr
  | .create c, s => createNode c s
  | .intConst v, s => PySMT.Manager.intConst v s
  | .realConst v, s => PySMT.Manager.realConst v s
  | .strConst x, s => PySMT.Manager.strConst x s
  | .symbol n t, s => symbolPrim n t s
  | .setFresh n, s => (.ok 0, { s with fresh := n })
  | .internTy t, s => internTyPrim t s

inductive Prog (α : Type) : Type
  | pure (a : α)
  | fail (e : Err)
  | read (k : Mgr → Prog α)
  | prim (p : Prim) (k : Nid → Prog α)

def Prog.bind : Prog α → (α → Prog β) → Prog β
  | .pure a, f => f a
  | .fail e, _ => .fail e
  | .read k, f => .read (fun s => (k s).bind f)
  | .prim p k, f => .prim p (fun i => (k i).bind f)

instance : Monad Prog where
  pure := Prog.pure
  bind := Prog.bind

/-- Run a program.  After a failure the state keeps what was done before it (as in Python). -/
def Prog.run : Prog α → Mgr → Except Err α × Mgr
  | .pure a, s => (.ok a, s)
  | .fail e, s => (.error e, s)
  | .read k, s => (k s).run s
  | .prim p k, s =>
    match p.exec s with
    | (.ok i, s') => (k i).run s'
    | (.error e, s') => (.error e, s')

def getS : Prog Mgr := .read .pure
def failP (e : Err) : Prog α := .fail e
def create (c : Content) : Prog Nid := .prim (.create c) .pure
def getC (i : Nid) : Prog Content :=
  .read fun s => match s.content? i with
    | some c => .pure c
    | none => .fail .badId

/-! ## Read-only queries on formulas (`fnode.py`) -/

def isBvOperator (nt : Nat) : Bool :=
  nt == NT.BV_NOT || nt == NT.BV_AND || nt == NT.BV_OR || nt == NT.BV_XOR || nt == NT.BV_CONCAT ||
  nt == NT.BV_EXTRACT || nt == NT.BV_NEG || nt == NT.BV_ADD || nt == NT.BV_SUB || nt == NT.BV_MUL ||
  nt == NT.BV_UDIV || nt == NT.BV_UREM || nt == NT.BV_LSHL || nt == NT.BV_LSHR || nt == NT.BV_ROL ||
  nt == NT.BV_ROR || nt == NT.BV_ZEXT || nt == NT.BV_SEXT || nt == NT.BV_COMP || nt == NT.BV_SDIV ||
  nt == NT.BV_SREM || nt == NT.BV_ASHR

def isConstantNT (nt : Nat) : Bool :=
  nt == NT.BOOL_CONSTANT || nt == NT.REAL_CONSTANT || nt == NT.INT_CONSTANT ||
  nt == NT.BV_CONSTANT || nt == NT.STR_CONSTANT || nt == NT.ALGEBRAIC_CONSTANT

/-- type of the function symbol of a FUNCTION node (`function_name().symbol_type()`) -/
def fnType (s : Mgr) (c : Content) : Option Ty :=
  match c.payload with
  | .fn f => (match s.content? f with
              | some ⟨_, _, .sym _ t⟩ => some t
              | _ => none)
  | _ => none

/-- One step of `SimpleTypeChecker` on a well-sorted node (no checking): `t0`, `t1` are the
    types of the first and second child, `fty` the type of the function symbol. -/
def typeView (nt : Nat) (pl : Payload) (t0 t1 fty : Unit → Option Ty) : Option Ty :=
  if nt ≤ NT.IFF then some .bool
  else if nt = NT.SYMBOL then (match pl with | .sym _ t => some t | _ => none)
  else if nt = NT.FUNCTION then (match fty () with | some (.func r _) => some r | _ => none)
  else if nt = NT.REAL_CONSTANT || nt = NT.ALGEBRAIC_CONSTANT || nt = NT.TOREAL || nt = NT.POW then some .real
  else if nt = NT.BOOL_CONSTANT then some .bool
  else if nt = NT.INT_CONSTANT then some .int
  else if nt = NT.STR_CONSTANT then some .string
  else if nt = NT.PLUS || nt = NT.MINUS || nt = NT.TIMES || nt = NT.DIV || nt = NT.ARRAY_STORE then t0 ()
  else if nt = NT.LE || nt = NT.LT || nt = NT.EQUALS then some .bool
  else if nt = NT.ITE then t1 ()
  else if nt = NT.BV_CONSTANT then (match pl with | .bv _ w => some (.bv w) | _ => none)
  else if nt = NT.BV_ULT || nt = NT.BV_ULE || nt = NT.BV_SLT || nt = NT.BV_SLE then some .bool
  else if isBvOperator nt then
    (match pl with | .nums (w :: _) => some (.bv w.toNat) | _ => none)
  else if nt = NT.STR_LENGTH || nt = NT.STR_INDEXOF || nt = NT.STR_TO_INT || nt = NT.BV_TONATURAL then some .int
  else if nt = NT.STR_CONCAT || nt = NT.STR_REPLACE || nt = NT.STR_SUBSTR || nt = NT.INT_TO_STR ||
          nt = NT.STR_CHARAT then some .string
  else if nt = NT.STR_CONTAINS || nt = NT.STR_PREFIXOF || nt = NT.STR_SUFFIXOF then some .bool
  else if nt = NT.ARRAY_SELECT then
    (match t0 () with | some (.array _ e) => some e | _ => none)
  else if nt = NT.ARRAY_VALUE then
    (match pl, t0 () with
     | .ty it, some e => some (.array it e)
     | _, _ => none)
  else none

/-- Type of a well-sorted formula, as `SimpleTypeChecker` computes it (no checking). -/
def typeOfAux (s : Mgr) : Nat → Nid → Option Ty
  | 0, _ => none
  | fuel + 1, i =>
    match s.content? i with
    | none => none
    | some c =>
      typeView c.nodeType c.payload (fun _ => typeOfAux s fuel (c.args.headD 0))
        (fun _ => typeOfAux s fuel (c.args.getD 1 0)) (fun _ => fnType s c)

def Mgr.typeOf (s : Mgr) (i : Nid) : Option Ty := typeOfAux s (i + 1) i

/-- One step of `FNode.bv_width` (fnode.py:468-490); `none` where Python raises.  `w1` is the
    width of the second child (ITE), `selTy` the type of the first child (select). -/
def bvView (nt : Nat) (pl : Payload) (w1 : Unit → Option Nat) (selTy fty : Unit → Option Ty) : Option Nat :=
  if nt = NT.BV_CONSTANT then (match pl with | .bv _ w => some w | _ => none)
  else if nt = NT.SYMBOL then (match pl with | .sym _ (.bv w) => some w | _ => none)
  else if nt = NT.FUNCTION then (match fty () with | some (.func (.bv w) _) => some w | _ => none)
  else if nt = NT.ITE then w1 ()
  else if nt = NT.ARRAY_SELECT then
    (match selTy () with | some (.array _ (.bv w)) => some w | _ => none)
  else if isBvOperator nt then
    (match pl with | .nums (w :: _) => some w.toNat | _ => none)
  else none

def bvWidthAux (s : Mgr) : Nat → Nid → Option Nat
  | 0, _ => none
  | fuel + 1, i =>
    match s.content? i with
    | none => none
    | some c =>
      bvView c.nodeType c.payload (fun _ => bvWidthAux s fuel (c.args.getD 1 0))
        (fun _ => s.typeOf (c.args.headD 0)) (fun _ => fnType s c)

def Mgr.bvWidth (s : Mgr) (i : Nid) : Option Nat := bvWidthAux s (i + 1) i

/-- `FNode.bv_signed_value()` = `utils.twos_complement(value, width)` (fnode.py:595-599):
    the value minus `2^width` when the sign bit is set. -/
def bvSignedValue (v w : Nat) : Int :=
  if v / 2 ^ (w - 1) % 2 = 1 then (v : Int) - 2 ^ w else v

/-- `FNode.bv_bin_str()`: `width` binary digits, most significant first -/
def bvBinStr (v : Nat) : Nat → List Char
  | 0 => []
  | w + 1 => bvBinStr (v / 2) w ++ [if v % 2 = 1 then '1' else '0']

/-- `FNode.is_constant()` without arguments (fnode.py:145-161). -/
def isConstantAux (s : Mgr) : Nat → Nid → Bool
  | 0, _ => false
  | fuel + 1, i =>
    match s.content? i with
    | none => false
    | some c =>
      if isConstantNT c.nodeType then true
      else if c.nodeType = NT.ARRAY_VALUE then c.args.all (isConstantAux s fuel)
      else false

def Mgr.isConstant (s : Mgr) (i : Nid) : Bool := isConstantAux s (i + 1) i

/-! ## Constructors (`FormulaManager`), in the order of formula.py

Documented normalisations modelled here (each is exercised by K):
`ForAll/Exists([] , f) = f` · `Function(f, []) = f` · `Not(Not x) = x` ·
`And/Or/Plus/Times` of one argument = the argument, `And() = TRUE`, `Or() = FALSE`,
list and var-args spellings · `GE/GT` = swapped `LE/LT` · `NotEquals = Not(Equals)` ·
`Xor = Not(Iff)` · `Pow` of a constant base folds into `Real` · `Div` by a non-zero Real
constant = `Times(left, Real(1/c))` · `ToReal` of a Real term / of an Int constant ·
`EqualsOrIff` · `Min/Max/MinBV/MaxBV` · `AtMostOne/ExactlyOne/AllDifferent` ·
`Real` from int / float / Fraction / pair · `Bool(b)` · `BV` from `"#b…"`, `"01…"`, int ·
`SBV` two's complement · `BVOne/BVZero` · n-ary left-associated `BVAnd/BVOr/BVAdd/BVMul/BVConcat` ·
`BVExtract` default end · shifts by a Python int · `BVUGT/UGE/SGT/SGE` swapped ·
`BVNand/BVNor/BVXnor` · `BVSMod` expansion · `BVRepeat` · `Array` (sorted, default-valued
assignments dropped) · `FreshSymbol` naming. -/

def mkPlain (nt : Nat) (args : List Nid) : Prog Nid := create ⟨nt, args, .none⟩

def mkSymbol (name : String) (t : Ty) : Prog Nid := .prim (.symbol name t) .pure
def mkReal (v : PyNum) : Prog Nid := .prim (.realConst v) .pure
def mkInt (v : PyNum) : Prog Nid := .prim (.intConst v) .pure

inductive PyStr
  | str (x : String)
  | other
  deriving DecidableEq, Repr

def mkString : PyStr → Prog Nid
  | .str x => .prim (.strConst x) .pure
  | .other => failP .typeError

def mkBool : PyNum → Prog Nid
  | .bool b => pure (if b then trueId else falseId)
  | _ => failP .typeError

/-- `new_fresh_symbol`: first unused `base % count` from `_fresh_guess` on. -/
def freshFind (syms : List (String × Nid)) (pre post : String) : Nat → Nat → Nat
  | 0, count => count
  | fuel + 1, count =>
    if (assoc (pre ++ toString count ++ post) syms).isSome then freshFind syms pre post fuel (count + 1)
    else count

def mkFreshSymbol (t : Ty) (pre post : String) : Prog Nid :=
  .read fun s =>
    let count := freshFind s.symbols pre post (s.symbols.length + 1) s.fresh
    .prim (.setFresh (count + 1)) fun _ => mkSymbol (pre ++ toString count ++ post) t

def mkQuant (nt : Nat) (vars : List Nid) (body : Nid) : Prog Nid :=
  if vars.isEmpty then pure body else create ⟨nt, [body], .vars vars⟩

def mkFunction (f : Nid) (params : List Nid) : Prog Nid :=
  if params.isEmpty then pure f else do
    let c ← getC f
    match c.payload with
    | .sym _ (.func _ ps) =>
      if params.length = ps.length then create ⟨NT.FUNCTION, params, .fn f⟩ else failP .valueError
    | .sym _ _ => failP .typeError
    | _ => failP .assertion

def mkNot (f : Nid) : Prog Nid := do
  let c ← getC f
  if c.nodeType = NT.NOT then
    match c.args with
    | a :: _ => pure a
    | [] => failP .indexError
  else create ⟨NT.NOT, [f], .none⟩

def mkNary (nt : Nat) (onEmpty : Prog Nid) : List Nid → Prog Nid
  | [] => onEmpty
  | [a] => pure a
  | args => create ⟨nt, args, .none⟩

def mkAnd : List Nid → Prog Nid := mkNary NT.AND (pure trueId)
def mkOr : List Nid → Prog Nid := mkNary NT.OR (pure falseId)
def mkPlus : List Nid → Prog Nid := mkNary NT.PLUS (failP .typeError)
def mkTimes : List Nid → Prog Nid := mkNary NT.TIMES (failP .typeError)

/-! relations: `GE`/`GT` (and the bit-vector `UGT/UGE/SGT/SGE`) are the swapped `LE`/`LT` -/
def mkLE (a b : Nid) : Prog Nid := mkPlain NT.LE [a, b]
def mkLT (a b : Nid) : Prog Nid := mkPlain NT.LT [a, b]
def mkGE (a b : Nid) : Prog Nid := mkPlain NT.LE [b, a]
def mkGT (a b : Nid) : Prog Nid := mkPlain NT.LT [b, a]
def mkEquals (a b : Nid) : Prog Nid := mkPlain NT.EQUALS [a, b]
def mkIff (a b : Nid) : Prog Nid := mkPlain NT.IFF [a, b]
def mkBVULT (a b : Nid) : Prog Nid := mkPlain NT.BV_ULT [a, b]
def mkBVULE (a b : Nid) : Prog Nid := mkPlain NT.BV_ULE [a, b]
def mkBVUGT (a b : Nid) : Prog Nid := mkPlain NT.BV_ULT [b, a]
def mkBVUGE (a b : Nid) : Prog Nid := mkPlain NT.BV_ULE [b, a]
def mkBVSLT (a b : Nid) : Prog Nid := mkPlain NT.BV_SLT [a, b]
def mkBVSLE (a b : Nid) : Prog Nid := mkPlain NT.BV_SLE [a, b]
def mkBVSGT (a b : Nid) : Prog Nid := mkPlain NT.BV_SLT [b, a]
def mkBVSGE (a b : Nid) : Prog Nid := mkPlain NT.BV_SLE [b, a]

/-- `_Algebraic(val)` -/
def mkAlgebraic (tag : String) : Prog Nid := create ⟨NT.ALGEBRAIC_CONSTANT, [], .alg tag⟩

def mkStrConcat (args : List Nid) : Prog Nid :=
  if args.length ≤ 1 then failP .typeError else create ⟨NT.STR_CONCAT, args, .none⟩

def isConstP (i : Nid) : Prog Bool := .read fun s => .pure (s.isConstant i)

/-- `Pow` (formula.py:258-269).  Folding is modelled for an Int/Real constant base and a
    non-negative Int constant exponent; other constant combinations go through Python floats
    or raise `ZeroDivisionError` (F05) and are outside the modelled fragment. -/
def mkPow (b e : Nid) : Prog Nid := do
  let ec ← isConstP e
  if !ec then failP .valueError else
  let bc ← isConstP b
  if bc then
    let cb ← getC b
    let ce ← getC e
    match cb.payload, ce.payload with
    | .int x, .int n => if 0 ≤ n then mkReal (.int (x ^ n.toNat)) else failP .outOfFragment
    | .rat q, .int n => if 0 ≤ n then mkReal (.frac (q ^ n.toNat)) else failP .outOfFragment
    | _, _ => failP .outOfFragment
  else create ⟨NT.POW, [b, e], .none⟩

/-- `Div` (formula.py:271-286) with `enable_div_by_0 = True` (the default). -/
def mkDiv (l r : Nid) : Prog Nid := do
  let cr ← getC r
  let isZero := (cr.nodeType = NT.REAL_CONSTANT && cr.payload == .rat 0) ||
                (cr.nodeType = NT.INT_CONSTANT && cr.payload == .int 0)
  if isZero then create ⟨NT.DIV, [l, r], .none⟩
  else if cr.nodeType = NT.REAL_CONSTANT then
    match cr.payload with
    | .rat q => do
      let inv ← mkReal (.frac (1 / q))
      mkTimes [l, inv]
    | _ => failP .assertion
  else create ⟨NT.DIV, [l, r], .none⟩

def typeOfP (i : Nid) : Prog Ty :=
  .read fun s => match s.typeOf i with
    | some t => .pure t
    | none => .fail .typeError

def mkToReal (f : Nid) : Prog Nid := do
  let t ← typeOfP f
  if t = .real then pure f
  else if t = .int then
    let c ← getC f
    if c.nodeType = NT.INT_CONSTANT then
      match c.payload with
      | .int n => mkReal (.int n)
      | _ => failP .assertion
    else create ⟨NT.TOREAL, [f], .none⟩
  else failP .typeError

def mkEqualsOrIff (l r : Nid) : Prog Nid := do
  let t ← typeOfP l
  if t = .bool then mkPlain NT.IFF [l, r] else mkPlain NT.EQUALS [l, r]

def mkXor (l r : Nid) : Prog Nid := do
  let i ← mkPlain NT.IFF [l, r]
  mkNot i

def mkNotEquals (l r : Nid) : Prog Nid := do
  let i ← mkPlain NT.EQUALS [l, r]
  mkNot i

/-- `AtMostOne` (formula.py:496-508): `And [ eᵢ → ¬ Or(e_{i+1..}) | i < n-1 ]`. -/
def atMostOneAux : List Nid → Prog (List Nid)
  | [] => pure []
  | [_] => pure []
  | e :: rest => do
    let o ← mkOr rest
    let n ← mkNot o
    let imp ← mkPlain NT.IMPLIES [e, n]
    let cs ← atMostOneAux rest
    pure (imp :: cs)

def mkAtMostOne (args : List Nid) : Prog Nid := do
  let cs ← atMostOneAux args
  mkAnd cs

def mkExactlyOne (args : List Nid) : Prog Nid := do
  let o ← mkOr args
  let a ← mkAtMostOne args
  mkAnd [o, a]

def allDiffRow (a : Nid) : List Nid → Prog (List Nid)
  | [] => pure []
  | b :: t => do
    let e ← mkEqualsOrIff a b
    let n ← mkNot e
    let r ← allDiffRow a t
    pure (n :: r)

def allDiffAux : List Nid → Prog (List Nid)
  | [] => pure []
  | a :: t => do
    let row ← allDiffRow a t
    let rest ← allDiffAux t
    pure (row ++ rest)

def mkAllDifferent (args : List Nid) : Prog Nid := do
  let cs ← allDiffAux args
  mkAnd cs

/-- `_MinWrap` / `_MaxWrap` (formula.py:540-564). -/
def minMaxAux (isMin : Bool) (le : Nid → Nid → Prog Nid) : Nat → List Nid → Prog Nid
  | 0, _ => failP .assertion
  | fuel + 1, exprs =>
    match exprs with
    | [] => failP .assertion
    | [a] => pure a
    | [a, b] => do
      let c ← le a b
      if isMin then create ⟨NT.ITE, [c, a, b], .none⟩ else create ⟨NT.ITE, [c, b, a], .none⟩
    | _ => do
      let h := exprs.length / 2
      let a ← minMaxAux isMin le fuel (exprs.take h)
      let b ← minMaxAux isMin le fuel (exprs.drop h)
      let c ← le a b
      if isMin then create ⟨NT.ITE, [c, a, b], .none⟩ else create ⟨NT.ITE, [c, b, a], .none⟩

def mkMinMax (isMin : Bool) (leNT : Nat) (args : List Nid) : Prog Nid :=
  minMaxAux isMin (fun a b => mkPlain leNT [a, b]) (args.length + 1) args

/-! ### Bit-vectors -/

inductive BvVal
  | str (x : String)
  | int (n : Int)
  | other
  deriving DecidableEq, Repr

def binStep (acc : Option Nat) (c : Char) : Option Nat :=
  match acc with
  | none => none
  | some n => if c = '0' then some (2 * n) else if c = '1' then some (2 * n + 1) else none

/-- `int(s, 2)` for a non-empty string of `0`/`1` -/
def parseBin : List Char → Option Nat
  | [] => none
  | cs => cs.foldl binStep (some 0)

/-- the digits of `"#b…"` / `"…"` -/
def bvBody (cs : List Char) : List Char :=
  match cs with
  | '#' :: 'b' :: rest => rest
  | _ => cs

/-- `BV(value, width)` (formula.py:601-649). -/
def mkBV (v : BvVal) (width : Option Nat) : Prog Nid :=
  let fromInt (n : Int) (width : Option Nat) : Prog Nid :=
    match width with
    | none => failP .valueError
    | some w =>
      if w = 0 then failP .valueError
      else if n < 0 then failP .valueError
      else if n ≥ 2 ^ w then failP .valueError
      else create ⟨NT.BV_CONSTANT, [], .bv n.toNat w⟩
  match v with
  | .str x =>
    let body := bvBody x.toList
    match parseBin body with
    | none => failP .valueError
    | some n =>
      let sw := body.length
      match width with
      | some w => if w = sw then fromInt n (some sw) else failP .valueError
      | none => fromInt n (some sw)
  | .int n => fromInt n width
  | .other =>
    match width with
    | none => failP .valueError
    | some w => if w = 0 then failP .valueError else failP .typeError

def mkSBV (v : BvVal) (width : Option Nat) : Prog Nid :=
  match v with
  | .int n =>
    match width with
    | none => failP .valueError
    | some w =>
      if w = 0 then failP .valueError
      else if n < -(2 ^ (w - 1) : Int) then failP .valueError
      else if n > (2 ^ (w - 1) : Int) - 1 then failP .valueError
      else if 0 ≤ n then mkBV (.int n) (some w)
      else mkBV (.int ((2 ^ w : Int) + n)) (some w)
  | _ => mkBV v width

/-- A Python value given as the `width` of a bit-vector constant: `None`, an `int`, or a
    `bool` / `float` whose numeric value is the integer `n` (`True == 1`, `2.0 == 2`: equal
    to — and hashing like — the integer, so it would name the same `(value, width)` payload). -/
inductive PyWidth
  | none
  | int (n : Int)
  | alt (n : Int)
  deriving DecidableEq, Repr

/-- `BV(value, width)` for any Python `width`: only an `int` is accepted (the width is part
    of the hash-consing key); a string value fixes the width itself and only compares. -/
def mkBVpy (v : BvVal) (w : PyWidth) : Prog Nid :=
  match v, w with
  | _, .none => mkBV v none
  | .str x, .int k | .str x, .alt k =>
    if 0 ≤ k then mkBV (.str x) (some k.toNat)
    else (match parseBin (bvBody x.toList) with
          | none => failP .valueError
          | some _ => failP .valueError)
  | _, .alt _ => failP .typeError
  | _, .int k => if k ≤ 0 then failP .valueError else mkBV v (some k.toNat)

/-- `SBV(value, width)` for any Python `width` (the range test precedes the call of `BV`) -/
def mkSBVpy (v : BvVal) (w : PyWidth) : Prog Nid :=
  match v, w with
  | .int _, .none => failP .valueError
  | .int n, .int k => if k ≤ 0 then failP .valueError else mkSBV (.int n) (some k.toNat)
  | .int n, .alt k =>
    if k ≤ 0 then failP .valueError
    else if n < -(2 ^ (k.toNat - 1) : Int) then failP .valueError
    else if n > (2 ^ (k.toNat - 1) : Int) - 1 then failP .valueError
    else failP .typeError
  | _, _ => mkBVpy v w

def bvw (i : Nid) : Prog Nat :=
  .read fun s => match s.bvWidth i with
    | some w => .pure w
    | none => .fail .assertion

def mkBVUn (nt : Nat) (f : Nid) : Prog Nid := do
  let w ← bvw f
  create ⟨nt, [f], .nums [w]⟩

def mkBVBin (nt : Nat) (l r : Nid) : Prog Nid := do
  let w ← bvw l
  create ⟨nt, [l, r], .nums [w]⟩

def bvFold (nt : Nat) (res : Nid) : List Nid → Prog Nid
  | [] => pure res
  | a :: t => do
    let r ← mkBVBin nt res a
    bvFold nt r t

/-- `BVAnd/BVOr/BVAdd/BVMul(*args)`: left-associated. -/
def mkBVNary (nt : Nat) : List Nid → Prog Nid
  | [] => failP .valueError
  | a :: t => bvFold nt a t

def mkBVConcat2 (l r : Nid) : Prog Nid := do
  let wl ← bvw l
  let wr ← bvw r
  create ⟨NT.BV_CONCAT, [l, r], .nums [(wl + wr : Nat)]⟩

def concatFold (res : Nid) : List Nid → Prog Nid
  | [] => pure res
  | a :: t => do
    let r ← mkBVConcat2 res a
    concatFold r t

def mkBVConcat : List Nid → Prog Nid
  | a :: b :: t => do
    let r ← mkBVConcat2 a b
    concatFold r t
  | _ => failP .indexError

def mkBVExtract (f : Nid) (start : Int) (end_ : Option Int) : Prog Nid := do
  let w ← bvw f
  let e : Int := end_.getD ((w : Int) - 1)
  if e ≥ start ∧ start ≥ 0 then
    let size := e - start + 1
    if size ≤ (w : Int) then create ⟨NT.BV_EXTRACT, [f], .nums [size, start, e]⟩
    else failP .assertion
  else failP .assertion

/-- second operand of a shift: a node or a Python int -/
inductive BvArg
  | node (i : Nid)
  | int (n : Int)
  | other                  -- `bool`, `float`, …: `assert isinstance(right, FNode)` fails
  deriving DecidableEq, Repr

def mkBVShift (nt : Nat) (l : Nid) (r : BvArg) : Prog Nid :=
  match r with
  | .node r => mkBVBin nt l r
  | .other => failP .assertion
  | .int n => do
    let w ← bvw l
    let r ← mkBV (.int n) (some w)
    mkBVBin nt l r

def mkBVRot (nt : Nat) (f : Nid) (steps : Int) : Prog Nid := do
  let w ← bvw f
  create ⟨nt, [f], .nums [w, steps]⟩

def mkBVExt (nt : Nat) (f : Nid) (inc : Int) : Prog Nid := do
  let w ← bvw f
  create ⟨nt, [f], .nums [(w : Int) + inc, inc]⟩

/-- `BVRol/BVRor/BVZExt/BVSExt(formula, n)` with a Python value that is not an `int`
    (`bool`, `float`, …; `none` here): `PysmtTypeError`, before the formula is looked at. -/
def mkBVRotPy (nt : Nat) (f : Nid) (steps : Option Int) : Prog Nid :=
  match steps with
  | some n => mkBVRot nt f n
  | none => failP .typeError

def mkBVExtPy (nt : Nat) (f : Nid) (inc : Option Int) : Prog Nid :=
  match inc with
  | some n => mkBVExt nt f n
  | none => failP .typeError

def mkBVComp (l r : Nid) : Prog Nid := create ⟨NT.BV_COMP, [l, r], .nums [1]⟩

def mkBVNotOf (nt : Nat) (l r : Nid) : Prog Nid := do
  let x ← (if nt = NT.BV_XOR then mkBVBin nt l r else mkBVNary nt [l, r])
  mkBVUn NT.BV_NOT x

def mkBVRepeat (f : Nid) (count : Int) : Prog Nid :=
  let rec go (res : Nid) : Nat → Prog Nid
    | 0 => pure res
    | n + 1 => do
      let r ← mkBVConcat [res, f]
      go r n
  go f (count - 1).toNat

/-- `BVSMod` (formula.py:945-988), creation order as CPython evaluates it. -/
def mkBVSMod (s t : Nid) : Prog Nid := do
  let m ← bvw s
  let zero1 ← mkBV (.str "#b0") none
  let one1 ← mkBV (.str "#b1") none
  let msbS ← mkBVExtract s ((m : Int) - 1) (some ((m : Int) - 1))
  let msbT ← mkBVExtract t ((m : Int) - 1) (some ((m : Int) - 1))
  let e1 ← mkPlain NT.EQUALS [msbS, zero1]
  let n1 ← mkBVUn NT.BV_NEG s
  let absS ← mkPlain NT.ITE [e1, s, n1]
  let e2 ← mkPlain NT.EQUALS [msbT, zero1]
  let n2 ← mkBVUn NT.BV_NEG t
  let absT ← mkPlain NT.ITE [e2, t, n2]
  let u ← mkBVBin NT.BV_UREM absS absT
  let z ← mkBV (.int 0) (some m)
  let cond1 ← mkPlain NT.EQUALS [u, z]
  let a1 ← mkPlain NT.EQUALS [msbS, zero1]
  let a2 ← mkPlain NT.EQUALS [msbT, zero1]
  let cond2 ← mkAnd [a1, a2]
  let b1 ← mkPlain NT.EQUALS [msbS, one1]
  let b2 ← mkPlain NT.EQUALS [msbT, zero1]
  let cond3 ← mkAnd [b1, b2]
  let c1 ← mkPlain NT.EQUALS [msbS, zero1]
  let c2 ← mkPlain NT.EQUALS [msbT, one1]
  let cond4 ← mkAnd [c1, c2]
  let nu ← mkBVUn NT.BV_NEG u
  let case3 ← mkBVNary NT.BV_ADD [nu, t]
  let case4 ← mkBVNary NT.BV_ADD [u, t]
  let case5 ← mkBVUn NT.BV_NEG u
  let o ← mkOr [cond1, cond2]
  let i3 ← mkPlain NT.ITE [cond4, case4, case5]
  let i2 ← mkPlain NT.ITE [cond3, case3, i3]
  mkPlain NT.ITE [o, u, i2]

/-! ### Array values -/

def insertByAddr (addr : Nid → Nat) (kv : Nid × Nid) : List (Nid × Nid) → List (Nid × Nid)
  | [] => [kv]
  | h :: t => if addr kv.1 ≤ addr h.1 then kv :: h :: t else h :: insertByAddr addr kv t

/-- `sorted(assigned_values, key=id)` -/
def sortByAddr (addr : Nid → Nat) : List (Nid × Nid) → List (Nid × Nid)
  | [] => []
  | h :: t => insertByAddr addr h (sortByAddr addr t)

def flattenPairs : List (Nid × Nid) → List Nid
  | [] => []
  | (k, v) :: t => k :: v :: flattenPairs t

/-- The assignments kept by `Array`: sorted by address, default-valued ones dropped. -/
def arrayAssignments (addr : Nid → Nat) (default : Nid) (assign : List (Nid × Nid)) : List (Nid × Nid) :=
  (sortByAddr addr assign).filter (fun kv => kv.2 != default)

/-- The loop of `Array` over the sorted keys (formula.py:1114-1127): an index must be a
    constant (`PysmtValueError`); an assignment equal to the default is dropped, after its
    index was checked to have the index sort (`PysmtTypeError`) — the type checker never
    sees it otherwise. -/
def arrayCheck (s : Mgr) (idxTy : Ty) (default : Nid) : List (Nid × Nid) → Option Err
  | [] => none
  | (k, v) :: t =>
    if !s.isConstant k then some .valueError
    else if v = default ∧ s.typeOf k ≠ some idxTy then some .typeError
    else arrayCheck s idxTy default t

/-- `Array(idx_type, default, assigned_values)` (formula.py:1101-1129).  `assign` are the
    items of the Python dict (distinct keys). -/
def mkArray (addr : Nid → Nat) (idxTy : Ty) (default : Nid) (assign : List (Nid × Nid)) : Prog Nid :=
  .read fun s =>
    match arrayCheck s idxTy default (sortByAddr addr assign) with
    | some e => .fail e
    | none =>
      create ⟨NT.ARRAY_VALUE, default :: flattenPairs (arrayAssignments addr default assign), .ty idxTy⟩

def pairsOf : List Nid → List (Nid × Nid)
  | k :: v :: t => (k, v) :: pairsOf t
  | _ => []

/-- The loop of `array_value_get` (fnode.py:650-661) over the `(index, value)` pairs. -/
def bsearch (addr : Nid → Nat) (ps : List (Nid × Nid)) (target : Nid) : Nat → Nat → Nat → Option Nid
  | 0, _, _ => none
  | fuel + 1, start, end_ =>
    if start < end_ then
      let pivot := (end_ + start) / 2
      match ps[pivot]? with
      | none => none
      | some (k, v) =>
        if addr k = addr target then some v
        else if addr k > addr target then bsearch addr ps target fuel start pivot
        else bsearch addr ps target fuel (pivot + 1) end_
    else none

def arrayGetC (addr : Nid → Nat) (c : Content) (idx : Nid) : Option Nid :=
  match c.args with
  | [] => none
  | d :: rest =>
    let ps := pairsOf rest
    some ((bsearch addr ps idx (ps.length + 1) 0 ((c.args.length - 1) / 2)).getD d)

/-- `FNode.array_value_get(index)` -/
def arrayValueGet (addr : Nid → Nat) (s : Mgr) (a idx : Nid) : Except Err Nid :=
  if !s.isConstant idx then .error .assertion else
  match s.content? a with
  | none => .error .badId
  | some c =>
    match arrayGetC addr c idx with
    | some r => .ok r
    | none => .error .indexError

/-! ### payload-decoding accessors (`fnode.py`) -/

/-- `FNode.symbol_name()` / `symbol_type()` -/
def Mgr.symbolName (s : Mgr) (i : Nid) : Option String :=
  match s.content? i with
  | some ⟨nt, _, .sym n _⟩ => if nt = NT.SYMBOL then some n else none
  | _ => none

def Mgr.symbolType (s : Mgr) (i : Nid) : Option Ty :=
  match s.content? i with
  | some ⟨nt, _, .sym _ t⟩ => if nt = NT.SYMBOL then some t else none
  | _ => none

/-- `FNode.array_value_assigned_values_map()` (as the list of its items), `array_value_default()`,
    `array_value_index_type()` -/
def Mgr.assignedValues (s : Mgr) (i : Nid) : Option (List (Nid × Nid)) :=
  match s.content? i with
  | some ⟨nt, _ :: rest, _⟩ => if nt = NT.ARRAY_VALUE then some (pairsOf rest) else none
  | _ => none

def Mgr.arrayDefault (s : Mgr) (i : Nid) : Option Nid :=
  match s.content? i with
  | some ⟨nt, d :: _, _⟩ => if nt = NT.ARRAY_VALUE then some d else none
  | _ => none

def Mgr.indexType (s : Mgr) (i : Nid) : Option Ty :=
  match s.content? i with
  | some ⟨nt, _, .ty t⟩ => if nt = NT.ARRAY_VALUE then some t else none
  | _ => none

/-! ## `FormulaContextualizer` / `IdentityDagWalker` (formula.py:1125-1196, identitydag.py) -/

/-- `FormulaContextualizer.walk_symbol` on a *source* symbol content. -/
def copySymbol (c : Content) : Prog Nid :=
  match c.payload with
  | .sym n t => .prim (.internTy t) fun _ => mkSymbol n t
  | _ => failP .assertion

def copySymbols (src : Mgr) : List Nid → Prog (List Nid)
  | [] => pure []
  | v :: t => do
    match src.content? v with
    | none => failP .badId
    | some c =>
      let v' ← copySymbol c
      let t' ← copySymbols src t
      pure (v' :: t')

def numAt (p : Payload) (k : Nat) : Int :=
  match p with
  | .nums l => l.getD k 0
  | _ => 0

/-- The `walk_*` callback for a source node `c` whose children were already rebuilt as `args`. -/
def reconstruct (src : Mgr) (addr : Nid → Nat) (c : Content) (args : List Nid) : Prog Nid :=
  let a0 := args.getD 0 0
  let a1 := args.getD 1 0
  let nt := c.nodeType
  if nt = NT.FORALL || nt = NT.EXISTS then
    (match c.payload with
     | .vars vs => do
       let vs' ← copySymbols src vs
       mkQuant nt vs' a0
     | _ => failP .assertion)
  else if nt = NT.AND then mkAnd args
  else if nt = NT.OR then mkOr args
  else if nt = NT.NOT then mkNot a0
  else if nt = NT.SYMBOL then copySymbol c
  else if nt = NT.FUNCTION then
    (match c.payload with
     | .fn f =>
       (match src.content? f with
        | none => failP .badId
        | some cf => do
          let f' ← copySymbol cf
          mkFunction f' args)
     | _ => failP .assertion)
  else if nt = NT.REAL_CONSTANT then
    (match c.payload with | .rat q => mkReal (.frac q) | _ => failP .assertion)
  else if nt = NT.BOOL_CONSTANT then
    (match c.payload with | .bool b => mkBool (.bool b) | _ => failP .assertion)
  else if nt = NT.INT_CONSTANT then
    (match c.payload with | .int n => mkInt (.int n) | _ => failP .assertion)
  else if nt = NT.STR_CONSTANT then
    (match c.payload with | .str x => mkString (.str x) | _ => failP .assertion)
  else if nt = NT.PLUS then mkPlus args
  else if nt = NT.TIMES then mkTimes args
  else if nt = NT.TOREAL then mkToReal a0
  else if nt = NT.BV_CONSTANT then
    (match c.payload with | .bv v w => mkBV (.int v) (some w) | _ => failP .assertion)
  else if nt = NT.BV_NOT || nt = NT.BV_NEG then mkBVUn nt a0
  else if nt = NT.BV_AND || nt = NT.BV_OR || nt = NT.BV_ADD || nt = NT.BV_MUL then mkBVNary nt [a0, a1]
  else if nt = NT.BV_XOR || nt = NT.BV_SUB || nt = NT.BV_UDIV || nt = NT.BV_UREM || nt = NT.BV_SDIV ||
          nt = NT.BV_SREM then mkBVBin nt a0 a1
  else if nt = NT.BV_LSHL || nt = NT.BV_LSHR || nt = NT.BV_ASHR then mkBVShift nt a0 (.node a1)
  else if nt = NT.BV_CONCAT then mkBVConcat [a0, a1]
  else if nt = NT.BV_EXTRACT then mkBVExtract a0 (numAt c.payload 1) (some (numAt c.payload 2))
  else if nt = NT.BV_ROL || nt = NT.BV_ROR then mkBVRot nt a0 (numAt c.payload 1)
  else if nt = NT.BV_ZEXT || nt = NT.BV_SEXT then mkBVExt nt a0 (numAt c.payload 1)
  else if nt = NT.BV_COMP then mkBVComp a0 a1
  else if nt = NT.STR_CONCAT then mkStrConcat args
  else if nt = NT.ARRAY_VALUE then
    (match c.payload with
     | .ty it =>
       .prim (.internTy it) fun _ => mkArray addr it a0 (pairsOf (args.drop 1))
     | _ => failP .assertion)
  else if nt = NT.DIV then mkDiv a0 a1
  else if nt = NT.POW then mkPow a0 a1
  else if nt = NT.ALGEBRAIC_CONSTANT then create ⟨nt, [], c.payload⟩
  else
    -- IMPLIES, IFF, MINUS, LE, LT, EQUALS, ITE, BV relations, string operators, SELECT,
    -- STORE, BV_TONATURAL: the callback is the plain constructor on the rebuilt children
    mkPlain nt args

/-- The memoization table of a manager's `FormulaContextualizer`.  It lives as long as the
    manager (`FormulaManager._normalizer`, `invalidate_memoization = False`) and is keyed by the
    source *object*: a node of another manager, identified here by (source manager, node id) —
    node ids alone are unique only within one manager. -/
abbrev Memo := List ((Nat × Nid) × Nid)

def foldMemo (f : Nid → Memo → Prog Memo) : List Nid → Memo → Prog Memo
  | [], m => pure m
  | a :: t, m => do
    let m' ← f a m
    foldMemo f t m'

/-- `DagWalker.iter_walk` specialised to the contextualizer: depth first, children last to
    first (the explicit stack pops the last pushed child first), one result per node.
    `k` names the source manager `src` in the memo keys. -/
def normAux (src : Mgr) (k : Nat) (addr : Nid → Nat) : Nat → Nid → Memo → Prog Memo
  | 0, _, _ => failP .badId
  | fuel + 1, i, memo =>
    match assoc (k, i) memo with
    | some _ => pure memo
    | none =>
      match src.content? i with
      | none => failP .badId
      | some c => do
        let memo' ← foldMemo (normAux src k addr fuel) c.args.reverse memo
        let r ← reconstruct src addr c (c.args.map (fun a => (assoc (k, a) memo').getD 0))
        pure ((((k, i), r)) :: memo')

/-- `FormulaManager.normalize(formula)` with the manager's persistent memo `memo`: re-create
    node `i` of manager `src` (named `k`) in the current manager (`addr` = addresses of the
    current manager's objects); returns the grown memo and the copy. -/
def normalizeM (src : Mgr) (k : Nat) (addr : Nid → Nat) (i : Nid) (memo : Memo) : Prog (Memo × Nid) := do
  let memo' ← normAux src k addr (i + 1) i memo
  match assoc (k, i) memo' with
  | some r => pure (memo', r)
  | none => failP .badId

/-- one `normalize` call with a fresh normalizer -/
def normalize (src : Mgr) (addr : Nid → Nat) (i : Nid) : Prog Nid := do
  let r ← normalizeM src 0 addr i []
  pure r.2

/-! ## Several environments

A world is a family of managers, each with the memo of its normalizer.  A step runs a program
in one manager, or normalizes a node of manager `k` into manager `t` (`k = t` allowed: the
manager's own formula).  On a failing `normalize` the memo entries of the aborted walk are
dropped here (Python keeps them; they are never wrong, so this is unobservable). -/

structure World where
  mgrs : Nat → Mgr
  memos : Nat → Memo

def World.init : World := ⟨fun _ => Mgr.init, fun _ => []⟩

def upd {α : Type} (f : Nat → α) (t : Nat) (v : α) : Nat → α := fun x => if x = t then v else f x

def World.runProg {α : Type} (w : World) (t : Nat) (p : Prog α) : Except Err α × World :=
  let r := p.run (w.mgrs t)
  (r.1, { w with mgrs := upd w.mgrs t r.2 })

/-- result, new target manager, new memo of the target -/
def normStep (src tgt : Mgr) (k : Nat) (addr : Nid → Nat) (i : Nid) (memo : Memo) :
    Except Err Nid × Mgr × Memo :=
  match (normalizeM src k addr i memo).run tgt with
  | (.ok (memo', j), tgt') => (.ok j, tgt', memo')
  | (.error e, tgt') => (.error e, tgt', memo)

def World.normalize (w : World) (t k : Nat) (addr : Nid → Nat) (i : Nid) : Except Err Nid × World :=
  let r := normStep (w.mgrs k) (w.mgrs t) k addr i (w.memos t)
  (r.1, { mgrs := upd w.mgrs t r.2.1, memos := upd w.memos t r.2.2 })

end PySMT.Manager
