import PySMT.Spec.AssertStack
import PySMT.Gen.PendingPop
/-!
# Model of `IncrementalTrackingSolver` and of the `pending_pop` protocol (pysmt/solvers/solver.py, decorators.py)

* `Solver.is_sat` (solver.py:91-134, incremental branch): `push()`, `add_assertion(f)`, `solve()`,
  `pending_pop = True` (set in a `finally`, so also when `add_assertion` or `solve` raises: `isSatFails`) — or `solve([f])` when `push` is not implemented.  `is_valid f = not is_sat(Not f)`,
  `is_unsat f = not is_sat f` (:132-155).
* `clear_pending_pop` (decorators.py:48-66): `if self.pending_pop: self.pending_pop = False; self.pop()`,
  then the decorated function.
* `IncrementalTrackingSolver` (solver.py:277-392): every public method first calls its proxy (`_add_assertion`,
  `_push`, `_pop`, `_reset_assertions`, `_solve`) and then updates `_assertion_stack` / `_backtrack_points`;
  `reset_assertions` clears `_assertion_stack` but NOT `_backtrack_points`; the `assertions` property is itself
  decorated.

* `solve(assumptions)`: assumptions the native check accepts are passed to it (`Op.oneshot .assuming`: no state change);
  the others are asserted by the wrapper itself in a level of its own, `self.push(); self.add_assertion(And(..));
  self.pending_pop = True` inside the decorated `solve`/`_solve` (z3.py, msat.py: non-literals; bdd.py, yices.py: all;
  pico.py: non-unit clauses) — `Op.assumingPush`, and `Op.assumingPushFails` when that `add_assertion` raises.  Whether a
  class has this path and whether the assignment is protected by `try/finally` is extracted per class (`assumePush`,
  `assumeGuarded`).

The concrete solver classes differ in *where* they put `@clear_pending_pop`; the model is parametrised by
that placement (`Config`), which `tools/gen_pendingpop.py` extracts from the source for every class.  For each
entry point the flag says whether a decorated function is entered before the native solver is touched
(for a tracking solver: the public method of `IncrementalTrackingSolver` calls the proxy first, so a decorator on
the proxy counts; for a direct subclass of `Solver`: the decorator on the public method).

The native solver is modelled as an ideal SMT-LIB assertion stack (`native`, innermost level first) that
raises on an illegal `pop`.  `checks` logs the assertion set each native check-sat ran on.
`_last_command` / `_last_result` are not modelled (they do not influence the assertion list).
A native call of a query may raise (`Op.solveFails`, `Op.oneshotFails`): the client catches the exception and goes
on using the solver, so the run continues from the state the exception left behind.  The
non-incremental branch of `is_sat` (options.incremental = False; the solver is single-use by design) is not
modelled.
-/

namespace PySMT.SolverTrack
open PySMT.AssertStack

structure Config where
  dAdd : Bool          -- add_assertion / _add_assertion
  dPush : Bool         -- push / _push
  dPop : Bool          -- pop / _pop
  dReset : Bool        -- reset_assertions / _reset_assertions
  dSolve : Bool        -- solve / _solve
  dRead : Bool         -- the `assertions` property
  tracking : Bool      -- the class is an IncrementalTrackingSolver (bookkeeping lists exist)
  native : Bool        -- the proxies drive a native assertion stack (false: they are no-ops, e.g. Portfolio)
  pushSupported : Bool -- false: `push` raises NotImplementedError and is_sat uses solve([f])
  assumePush : Bool    -- solve/_solve has the path `self.push(); self.add_assertion(And(…)); self.pending_pop = True`
  assumeGuarded : Bool -- … with `pending_pop = True` in a `finally` (reached also when add_assertion raises)
  deriving Repr, DecidableEq, Inhabited

inductive Err where
  | indexError     -- `_backtrack_points.pop()` of an empty list
  | nativeError    -- the native solver refuses a pop below its base level
  deriving Repr, DecidableEq, Inhabited

structure St where
  native : List (List Nat)   -- native solver's assertion levels, innermost first
  tracked : List Nat         -- `_assertion_stack`
  points : List Nat          -- `_backtrack_points`, most recent FIRST
  pending : Bool             -- `pending_pop`
  checks : List (List Nat)   -- assertion sets (plus assumptions) of the native checks, most recent first
  deriving Repr, DecidableEq, Inhabited

def St.init : St := ⟨[[]], [], [], false, []⟩

def seq (x : Except Err St) (f : St → Except Err St) : Except Err St :=
  match x with
  | .ok s => f s
  | .error e => .error e

@[simp] theorem seq_ok (s : St) (f : St → Except Err St) : seq (.ok s) f = f s := rfl
@[simp] theorem seq_error (e : Err) (f : St → Except Err St) : seq (.error e) f = .error e := rfl

/-! ### native solver -/

def nativeAdd (f : Nat) : List (List Nat) → List (List Nat)
  | [] => [[f]]
  | l :: ls => (l ++ [f]) :: ls

def nativeLive (nat : List (List Nat)) : List Nat := nat.reverse.flatten

/-! ### bookkeeping of `IncrementalTrackingSolver.pop` (solver.py:389-391) -/

def unwind : Nat → List Nat → List Nat → Except Err (List Nat × List Nat)
  | 0, tracked, points => .ok (tracked, points)
  | _ + 1, _, [] => .error .indexError
  | n + 1, tracked, p :: ps => unwind n (tracked.take p) ps

/-- `pop(levels)` below the decorator: native pop, then the bookkeeping. -/
def popCore (cfg : Config) (n : Nat) (st : St) : Except Err St :=
  if cfg.native && decide (¬ n < st.native.length) then .error .nativeError
  else
    let nat := if cfg.native then st.native.drop n else st.native
    if cfg.tracking then
      match unwind n st.tracked st.points with
      | .error e => .error e
      | .ok (t, p) => .ok { st with native := nat, tracked := t, points := p }
    else .ok { st with native := nat }

/-- the prologue of `clear_pending_pop`.  The nested `self.pop()` re-enters a decorated function only with
    `pending_pop = False`, so it is `popCore 1`. -/
def clear (cfg : Config) (st : St) : Except Err St :=
  if st.pending then popCore cfg 1 { st with pending := false } else .ok st

def enter (cfg : Config) (decorated : Bool) (st : St) : Except Err St :=
  if decorated then clear cfg st else .ok st

def add (cfg : Config) (f : Nat) (st : St) : Except Err St :=
  seq (enter cfg cfg.dAdd st) fun st =>
    .ok { st with native := if cfg.native then nativeAdd f st.native else st.native
                  tracked := if cfg.tracking then st.tracked ++ [f] else st.tracked }

def push (cfg : Config) (n : Nat) (st : St) : Except Err St :=
  seq (enter cfg cfg.dPush st) fun st =>
    .ok { st with native := if cfg.native then List.replicate n [] ++ st.native else st.native
                  points := if cfg.tracking then List.replicate n st.tracked.length ++ st.points
                            else st.points }

def pop (cfg : Config) (n : Nat) (st : St) : Except Err St :=
  seq (enter cfg cfg.dPop st) fun st => popCore cfg n st

def reset (cfg : Config) (st : St) : Except Err St :=
  seq (enter cfg cfg.dReset st) fun st =>
    .ok { st with native := if cfg.native then [[]] else st.native
                  tracked := if cfg.tracking then [] else st.tracked }

/-- what the native check runs on: the native assertions, or (no native stack, e.g. Portfolio) the tracked
    list, plus the assumptions. -/
def seen (cfg : Config) (st : St) : List Nat :=
  if cfg.native then nativeLive st.native else st.tracked

def solve (cfg : Config) (assumption : Option Nat) (st : St) : Except Err St :=
  seq (enter cfg cfg.dSolve st) fun st =>
    .ok { st with checks := (seen cfg st ++ assumption.toList) :: st.checks }

/-- `Solver.is_sat` -/
def isSat (cfg : Config) (f : Nat) (st : St) : Except Err St :=
  if cfg.pushSupported then
    seq (push cfg 1 st) fun st =>
    seq (add cfg f st) fun st =>
    seq (solve cfg none st) fun st =>
    .ok { st with pending := true }
  else solve cfg (some f) st

/-- `Solver.is_sat` when one of its native calls raises (solver.py:126-132: `try: add_assertion; solve  finally:
    pending_pop = True`).  `fail = .add`: the decorated `add_assertion` is entered (its prologue runs) and raises
    before anything is asserted; `fail = .solve`: the check runs and raises `SolverReturnedUnknownResultError`.
    Either way the exception reaches the caller with `pending_pop` set.  Without `push` the query is `solve([f])`:
    nothing is asserted, so only the check can raise. -/
def isSatFails (cfg : Config) (fail : Fail) (f : Nat) (st : St) : Except Err St :=
  if cfg.pushSupported then
    seq (push cfg 1 st) fun st =>
    match fail with
    | .add => seq (enter cfg cfg.dAdd st) fun st => .ok { st with pending := true }
    | .solve =>
      seq (add cfg f st) fun st =>
      seq (solve cfg none st) fun st =>
      .ok { st with pending := true }
  else solve cfg (some f) st

/-- `solve(assumptions)` as the wrappers implement it for assumptions they cannot hand to the native check
    (z3.py:212-228 and msat.py for non-literals; bdd.py, yices.py for all; pico.py for non-unit clauses): inside the
    decorated `solve`/`_solve`: `self.push()` and `self.add_assertion(And(assumptions))` — the PUBLIC methods, so for a
    tracking class the bookkeeping runs too —, `self.pending_pop = True`, then the native check. -/
def assumingPush (cfg : Config) (f : Nat) (st : St) : Except Err St :=
  if cfg.assumePush then
    seq (enter cfg cfg.dSolve st) fun st =>
    seq (push cfg 1 st) fun st =>
    seq (add cfg f st) fun st =>
    .ok { st with pending := true, checks := seen cfg st :: st.checks }
  else solve cfg (some f) st      -- a class without that path hands every assumption to the native check

/-- … when `add_assertion` raises after the `push` (the formula is not Boolean, cannot be converted, …): the decorated
    `add_assertion` is entered and raises before anything is asserted.  With the guard (`finally`, Z3Solver since the
    repair of finding F44) `pending_pop` is set on the way out; without it the pushed level stays open. -/
def assumingPushFails (cfg : Config) (f : Nat) (st : St) : Except Err St :=
  if cfg.assumePush then
    seq (enter cfg cfg.dSolve st) fun st =>
    seq (push cfg 1 st) fun st =>
    seq (enter cfg cfg.dAdd st) fun st =>
    .ok { st with pending := cfg.assumeGuarded || st.pending }
  else solve cfg (some f) st      -- nothing is asserted, so nothing raises

/-- the one call whose exception path is unprotected in some wrappers -/
def leaky : Op → Bool
  | .assumingPushFails _ => true
  | _ => false

/-- does the call end with an exception that the client is expected to catch? -/
def raises (cfg : Config) : Op → Bool
  | .solveFails => true
  | .oneshotFails .assuming fail _ => fail == .solve
  | .oneshotFails _ fail _ => cfg.pushSupported || fail == .solve
  | .assumingPushFails _ => cfg.assumePush
  | _ => false

/-- the formula `Not f` handed to `is_sat` by `is_valid`; formulas are opaque numbers, the harness uses even
    numbers for atoms and `2a+1` for the negation of atom `2a`. -/
def negOf (f : Nat) : Nat := f + 1

/-- reading the `assertions` property -/
def read (cfg : Config) (st : St) : Except Err St := enter cfg cfg.dRead st

def step (cfg : Config) (st : St) : Op → Except Err St
  | .assert f => add cfg f st
  | .push n => push cfg n st
  | .pop n => pop cfg n st
  | .reset => reset cfg st
  | .solve => solve cfg none st
  | .oneshot .isSat f => isSat cfg f st
  | .oneshot .isUnsat f => isSat cfg f st
  | .oneshot .isValid f => isSat cfg (negOf f) st
  | .oneshot .assuming f => solve cfg (some f) st
  | .read => read cfg st
  -- `solve()` that raises: the decorated `_solve` ran its prologue and the check; nothing else changes
  | .solveFails => solve cfg none st
  | .oneshotFails .isSat fail f => isSatFails cfg fail f st
  | .oneshotFails .isUnsat fail f => isSatFails cfg fail f st
  | .oneshotFails .isValid fail f => isSatFails cfg fail (negOf f) st
  | .oneshotFails .assuming _ f => solve cfg (some f) st
  | .assumingPush f => assumingPush cfg f st
  | .assumingPushFails f => assumingPushFails cfg f st

def runFrom (cfg : Config) : St → List Op → Except Err St
  | st, [] => .ok st
  | st, o :: os => seq (step cfg st o) fun st' => runFrom cfg st' os

def run (cfg : Config) (ops : List Op) : Except Err St := runFrom cfg St.init ops

/-! ### The glue route: a script executed on a solver

`SmtLibScript.evaluate(solver)` hands every command to `InterpreterOMT.evaluate`, which for the commands below ends in
`InterpreterSMT._smt_evaluate` (script.py:437-505): `assert` → `solver.assert_(f)` (= `add_assertion`), `push n` →
`solver.push(n)`, `pop n` → `solver.pop(n)`, `reset-assertions` → `solver.reset_assertions()`, `check-sat` →
`solver.check_sat()` (= `solve()`); set-logic, declare-fun, … do not touch the assertions.  `assert-soft` is refused
(NotImplementedError) and objectives only fill the interpreter's own list: scripts containing them are not `Plain`. -/

def Plain : Cmd → Bool
  | .soft _ _ _ => false
  | .objective _ => false
  | _ => true

def interpCmd : Cmd → Option Op
  | .assert f => some (.assert f)
  | .push n => some (.push n)
  | .pop n => some (.pop n)
  | .reset => some .reset
  | .check => some .solve
  | _ => none

/-- the calls a (plain) script makes on the solver -/
def interp (cs : List Cmd) : List Op := cs.filterMap interpCmd

/-- the value of the `assertions` property in state `st` -/
def observe (cfg : Config) (st : St) : Except Err (List Nat) :=
  match read cfg st with
  | .ok st' => .ok st'.tracked
  | .error e => .error e

/-- what a `solve()` issued in state `st` would be computed on -/
def wouldCheck (cfg : Config) (st : St) : Except Err (List Nat) :=
  match solve cfg none st with
  | .ok st' => .ok (st'.checks.headD [])
  | .error e => .error e

/-- Every entry point that touches the assertions clears a pending pop first.  A solver without a native
    stack need not decorate `_reset_assertions`: the bookkeeping list is emptied, which makes the pending
    truncation harmless. -/
def Covers (cfg : Config) : Bool :=
  cfg.dAdd && cfg.dPush && cfg.dPop && cfg.dSolve && (cfg.dReset || !cfg.native) && (cfg.dRead || !cfg.tracking)

/-! ### Reading the regenerated table `Gen/PendingPop.lean`

Python attribute lookup: the first class of the linearisation (`mro`) that defines the name. -/

open PySMT.Gen.PendingPop in
def findClass (tbl : List ClassInfo) (n : String) : Option ClassInfo := tbl.find? (·.name == n)

open PySMT.Gen.PendingPop in
def resolveIn (tbl : List ClassInfo) (meth : String) : List String → Option ClassInfo
  | [] => none
  | m :: ms => match findClass tbl m with
    | some c => if c.defines.contains meth then some c else resolveIn tbl meth ms
    | none => resolveIn tbl meth ms

def solverName : String := "pysmt.solvers.solver.Solver"
def itsName : String := "pysmt.solvers.solver.IncrementalTrackingSolver"

section
open PySMT.Gen.PendingPop
variable (tbl : List ClassInfo) (c : ClassInfo)

/-- a decorated function is entered before the native solver is touched: the public method is decorated, or it
    is `IncrementalTrackingSolver`'s (which calls the proxy first) and the proxy is decorated -/
def entryDecorated (pub proxy : String) : Bool :=
  match resolveIn tbl pub c.mro with
  | none => false
  | some o => o.decorated.contains pub ||
      (o.name == itsName && match resolveIn tbl proxy c.mro with
        | some p => p.decorated.contains proxy
        | none => false)

def entryImplemented (pub proxy : String) : Bool :=
  match resolveIn tbl pub c.mro with
  | none => false
  | some o => !o.abstract.contains pub &&
      (o.name != itsName || match resolveIn tbl proxy c.mro with
        | some p => !p.abstract.contains proxy
        | none => false)

def proxyTrivial (proxy : String) : Bool :=
  match resolveIn tbl proxy c.mro with
  | some p => p.trivial.contains proxy
  | none => false

def isTracking : Bool := c.mro.contains itsName

/-- the class whose `solve` (for a tracking class: `_solve`) runs -/
def solveOwner : Option ClassInfo :=
  match resolveIn tbl "solve" c.mro with
  | some o => if o.name == itsName then resolveIn tbl "_solve" c.mro else some o
  | none => none

def configOf : Config where
  dAdd := entryDecorated tbl c "add_assertion" "_add_assertion"
  dPush := entryDecorated tbl c "push" "_push"
  dPop := entryDecorated tbl c "pop" "_pop"
  dReset := entryDecorated tbl c "reset_assertions" "_reset_assertions"
  dSolve := entryDecorated tbl c "solve" "_solve"
  dRead := match resolveIn tbl "assertions" c.mro with
    | some o => o.decorated.contains "assertions"
    | none => false
  tracking := isTracking c
  native := !(isTracking c && proxyTrivial tbl c "_add_assertion" && proxyTrivial tbl c "_push" &&
              proxyTrivial tbl c "_pop" && proxyTrivial tbl c "_reset_assertions")
  pushSupported := entryImplemented tbl c "push" "_push"
  assumePush := match solveOwner tbl c with | some o => o.assumePush | none => false
  assumeGuarded := match solveOwner tbl c with | some o => o.assumeGuarded | none => false

/-- a class one can instantiate and solve with -/
def isConcrete : Bool := c.mro.contains solverName && entryImplemented tbl c "solve" "_solve"

/-- the class runs its one-shot queries through `Solver.is_sat` (and therefore relies on `pending_pop`) -/
def usesBaseIsSat : Bool :=
  match resolveIn tbl "is_sat" c.mro with
  | some o => o.name == solverName
  | none => false

/-- the other state-changing methods (`all_sat`, `declare_variable`), where implemented, are decorated too -/
def extrasCovered : Bool :=
  ["all_sat", "declare_variable"].all fun m =>
    match resolveIn tbl m c.mro with
    | some o => o.abstract.contains m || o.trivial.contains m || o.decorated.contains m
    | none => true
end

end PySMT.SolverTrack
