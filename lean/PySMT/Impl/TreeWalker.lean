import PySMT.Impl.Walker
/-!
# Model of `pysmt/walkers/tree.py: TreeWalker.walk` (lines 43-84), an anchor of C20

    iterator = f(formula); if iterator is None: return
    stack = [iterator]
    while stack:
        f = stack[-1]
        try:
            child = next(f)
            iterator = functions[child.node_type()](child)
            if iterator is not None: stack.append(iterator)
        except StopIteration:
            stack.pop()

A walk function is a generator that yields the children on which the walk continues (`gen n = true`; the frame is the
list of children still to be yielded = children list + cursor) or an ordinary function returning `None` (`gen n =
false`: leaves such as `walk_symbol`).  There is no memo: a shared sub-formula is walked once per occurrence.
(`threshold`, used by the printers to cut the output, is not modelled.)
-/
namespace PySMT.TreeWalker
open PySMT.Walker

structure TState (N : Type) where
  stack  : List (List N)     -- head = stack[-1]; a frame = what its generator will still yield
  visits : List N            -- walk functions invoked so far, most recent first
  steps  : Nat               -- iterations of the `while stack` loop

variable {N : Type}

/-- the children a node's walk function yields -/
def yields (g : Graph N) (gen : N → Bool) (n : N) : List N := if gen n then g.children n else []

/-- one iteration of the loop -/
def tstep (g : Graph N) (gen : N → Bool) (s : TState N) : TState N :=
  match s.stack with
  | [] => s
  | [] :: rest => { s with stack := rest, steps := s.steps + 1 }                       -- StopIteration: pop
  | (c :: cs) :: rest =>                                                                -- child = next(f)
    if gen c then { stack := g.children c :: cs :: rest, visits := c :: s.visits, steps := s.steps + 1 }
    else { stack := cs :: rest, visits := c :: s.visits, steps := s.steps + 1 }

def titer (g : Graph N) (gen : N → Bool) : Nat → TState N → TState N
  | 0, s => s
  | k + 1, s => match s.stack with
    | [] => s
    | _ :: _ => titer g gen k (tstep g gen s)

/-- `TreeWalker.walk(formula)` -/
def twalk (g : Graph N) (gen : N → Bool) (fuel : Nat) (root : N) : TState N :=
  if gen root then titer g gen fuel ⟨[g.children root], [root], 0⟩ else ⟨[], [root], 0⟩

/-- number of nodes of the tree expansion below `n` (what the walk visits) -/
def tsize (g : Graph N) (gen : N → Bool) (n : N) : Nat :=
  if gen n then 1 + ((g.children n).attach.map (fun c => tsize g gen c.1)).sum else 1
termination_by g.rank n
decreasing_by exact g.acyclic n c.1 c.2

def listMax : List Nat → Nat
  | [] => 0
  | x :: xs => max x (listMax xs)

/-- nesting depth below `n` -/
def height (g : Graph N) (gen : N → Bool) (n : N) : Nat :=
  if gen n then 1 + listMax ((g.children n).attach.map (fun c => height g gen c.1)) else 1
termination_by g.rank n
decreasing_by exact g.acyclic n c.1 c.2

end PySMT.TreeWalker
