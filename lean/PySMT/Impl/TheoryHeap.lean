import PySMT.Impl.TheoryOracle
/-!
# Heap model of `pysmt.oracles.TheoryOracle` (C14)

`Theory` objects are mutable Python objects; the oracle's long-lived memo (`env.theoryo.memoization`) stores
*references* to them.  Here a `Theory` object is an address into a heap, the memo maps nodes to addresses, and every
`walk_*` rule of `pysmt/oracles.py` is written with the object operations it performs:

* `new v`            a constructor call (`Theory()`, `_theory_from_type`, and inside `copy`, `combine`, `set_*`:
                     all of these build and return a **new** object in `pysmt/logics.py`);
* `mutate a f`       an attribute assignment on the object at `a` (`theory_out.uninterpreted = True`, ...);
* returning an argument's address: the rule hands back the very object it was given.

Rules that mutate in place (current source): `walk_function` (`uninterpreted`), `walk_bv_tonatural` (`integer_*`),
`walk_array_value` (`arrays`, `arrays_const`), and `walk_constant` / `_theory_from_type` (on the `Theory()` they have
just made); `walk_str_int` did until the F50 repair (it now combines with a new Int theory).  The only rule that can
return an argument object itself is `walk_quantifier` for an empty list of bound variables (not constructible
through the formula manager); `walk_div` ends with `set_difference_logic`, a copy.

The *values* are those of c13's `TheoryOracle.rule` (proved in `Proofs/TheoryHeap.lean`).
-/
namespace PySMT.TheoryHeap
open PySMT PySMT.Logics PySMT.TheoryOracle

structure Heap where
  cells : Nat → Theory
  next  : Nat                       -- addresses `< next` are allocated

def Heap.empty : Heap := ⟨fun _ => T0, 0⟩

/-- a constructor call: a new object -/
def Heap.new (h : Heap) (v : Theory) : Nat × Heap :=
  (h.next, ⟨fun i => if i = h.next then v else h.cells i, h.next + 1⟩)

/-- attribute assignments on the object at `a` -/
def Heap.mutate (h : Heap) (a : Nat) (f : Theory → Theory) : Heap :=
  ⟨fun i => if i = a then f (h.cells a) else h.cells i, h.next⟩

/-- `x.copy()` -/
def copyO (h : Heap) (a : Nat) : Nat × Heap := h.new (h.cells a).copy
/-- `x.combine(y)` -/
def combineO (h : Heap) (a b : Nat) : Nat × Heap := h.new ((h.cells a).combine (h.cells b))

/-- `theory_out = args[0]; for t in args[1:]: theory_out = theory_out.combine(t)`: the object `args[0]` itself
    when there is nothing to combine -/
def foldO (h : Heap) (a : Nat) : List Nat → Nat × Heap
  | [] => (a, h)
  | b :: rest =>
    let r := combineO h a b
    foldO r.2 r.1 rest

/-- `theory_out = args[0]` followed by the combine loop -/
def foldBaseO (h : Heap) : List Nat → Nat × Heap
  | [] => h.new T0                  -- `args[0]` raises IndexError; not reached
  | a :: rest => foldO h a rest

/-- the first lines of `walk_function`: `Theory()`, a copy of the only argument, or the combine loop -/
def funBaseO (h : Heap) : List Nat → Nat × Heap
  | [] => h.new T0
  | [a] => copyO h a
  | a :: rest => foldO h a rest

/-- `walk_combine` -/
def walkCombineO (h : Heap) : List Nat → Nat × Heap
  | [] => h.new T0                  -- `args[0]` raises IndexError; no operator with this rule has no argument
  | [a] => copyO h a
  | a :: rest => foldO h a rest

/-- the loop of `walk_quantifier`: `theory_out = theory_out.combine(self._theory_from_type(var.symbol_type()))` -/
def quantO (h : Heap) (a : Nat) : List Sym → Nat × Heap
  | [] => (a, h)
  | v :: vs =>
    let r := h.new (symTheory v)
    let c := combineO r.2 a r.1
    quantO c.2 c.1 vs

/-- the value of `args[0]` (`Theory()` for an empty argument list, which no operator using it has) -/
def cellHd (h : Heap) : List Nat → Theory
  | a :: _ => h.cells a
  | [] => T0

/-- the object `args[0]` -/
def objHd (h : Heap) : List Nat → Nat × Heap
  | a :: _ => (a, h)
  | [] => h.new T0

/-- `walk_div` before its final `set_difference_logic` -/
def divCoreO (h : Heap) (args : List Term) (as : List Nat) : Nat × Heap :=
  let t := foldBaseO h as
  match args, as with
  | [_, d], [_, td] =>
      if hasFreeVars d then t.2.new ((t.2.cells t.1).set_linear false)
      else if isZero d then t.2.new ((t.2.cells t.1).set_linear false)
      else combineO t.2 t.1 td
  | _, _ => t

/-- one `walk_*` method on the objects `as` of the children; returns the object it returns -/
def ruleH (op : Op) (p : Payload) (args : List Term) (as : List Nat) (h : Heap) : Nat × Heap :=
  match op with
  -- walk_constant: `Theory()` then attribute assignments
  | .realConst | .algebraicConst =>
      let r := h.new T0
      (r.1, r.2.mutate r.1 (fun t => { t with real_arithmetic := true, real_difference := true }))
  | .intConst =>
      let r := h.new T0
      (r.1, r.2.mutate r.1 (fun t => { t with integer_arithmetic := true, integer_difference := true }))
  | .bvConst => let r := h.new T0; (r.1, r.2.mutate r.1 (fun t => { t with bit_vectors := true }))
  | .strConst => let r := h.new T0; (r.1, r.2.mutate r.1 (fun t => { t with strings := true }))
  | .boolConst => h.new T0
  -- walk_symbol: `_theory_from_type`
  | .symbol => (match p with | .sym s => h.new (symTheory s) | _ => h.new T0)
  -- walk_function
  | .function =>
      let base := funBaseO h as
      (match p with
       | .sym s =>
         let r := base.2.new (theoryFromType s.ret)
         let o := combineO r.2 base.1 r.1
         (o.1, o.2.mutate o.1 withUF)                                 -- theory_out.uninterpreted = True
       | _ => let o := copyO base.2 base.1; (o.1, o.2.mutate o.1 withUF))
  -- walk_toreal: set_lira makes a copy
  | .toReal => h.new ((cellHd h as).set_lira true)
  -- walk_str_int
  | .strLength | .strIndexOf | .strToInt =>
      let o := walkCombineO h as
      let i := o.2.new intTheory                                    -- Theory(integer_arithmetic=True, ...)
      combineO i.2 o.1 i.1                                          -- theory_out.combine(int_theory): a new object
  -- walk_bv_tonatural
  | .bvToNatural =>
      let o := h.new (cellHd h as).copy                            -- args[0].copy()
      (o.1, o.2.mutate o.1 withInt)
  -- walk_times
  | .times =>
      let t := foldBaseO h as
      let t := if (args.filter hasFreeVars).length > 1 then t.2.new ((t.2.cells t.1).set_linear false) else t
      t.2.new ((t.2.cells t.1).set_difference_logic false)
  -- walk_pow
  | .pow =>
      let t := h.new ((cellHd h as).set_linear false)
      t.2.new ((t.2.cells t.1).set_difference_logic false)
  -- walk_plus
  | .plus =>
      let t := foldBaseO h as
      t.2.new ((t.2.cells t.1).set_difference_logic false)
  -- walk_strings
  | .intToStr => h.new ((cellHd h as).set_strings true)
  -- walk_array_value
  | .arrayValue =>
      let t := walkCombineO h as
      (match p with
       | .ty idx =>
         let i := t.2.new (theoryFromType idx)
         let o := combineO i.2 t.1 i.1
         (o.1, o.2.mutate o.1 withConstArrays)
       | _ => let o := copyO t.2 t.1; (o.1, o.2.mutate o.1 withConstArrays))
  -- walk_div
  | .div =>
      let u := divCoreO h args as
      u.2.new ((u.2.cells u.1).set_difference_logic false)          -- always a copy
  -- walk_quantifier
  | .forall_ | .exists_ =>
      (match p with
       | .qvars vs => let b := objHd h as; quantO b.2 b.1 vs
       | _ => objHd h as)
  -- walk_combine
  | _ => walkCombineO h as

/-- the oracle object: its memo (node ↦ object) and the heap -/
structure St where
  memo : List (Term × Nat)
  heap : Heap

def St.init : St := ⟨[], Heap.empty⟩

def St.look (s : St) (t : Term) : Option Nat := s.memo.lookup t

mutual
/-- memoised bottom-up evaluation (the effect of `DagWalker.walk`: `Proofs/WalkerThms.lean`); the later siblings
    first, as the work stack does -/
def visit : Term → St → Nat × St
  | .node op args p, s =>
    match s.look (.node op args p) with
    | some a => (a, s)
    | none =>
      let r := visitList args s
      let o := ruleH op p args r.1 r.2.heap
      (o.1, ⟨(.node op args p, o.1) :: r.2.memo, o.2⟩)
def visitList : List Term → St → List Nat × St
  | [], s => ([], s)
  | t :: ts, s =>
    let r := visitList ts s
    let o := visit t r.2
    (o.1 :: r.1, o.2)
end

/-- `get_theory(t)`: the object returned and the state afterwards -/
def getTheory (t : Term) (s : St) : Theory × St :=
  let r := visit t s
  (r.2.heap.cells r.1, r.2)

/-- a history of `get_theory` calls -/
def run : List Term → St → St
  | [], s => s
  | t :: ts, s => run ts (visit t s).2

/-- `get_logic(t)` on the oracle object (the quantifier oracle has no mutable results) -/
def getLogicH (t : Term) (s : St) : Except PyErr Logic × St :=
  let r := getTheory t s
  (get_closer_pysmt_logic { name := "Detected Logic", quantifier_free := t.isQF, theory := r.1 }, r.2)

end PySMT.TheoryHeap
