import PySMT.Spec.Sexp
import PySMT.Core.Term
import PySMT.Core.TypeOf
import PySMT.Core.FreeVars
import PySMT.Gen.PrinterOps
/-!
# Model of the SMT-LIB printers (C07)

Anchors: `pysmt/smtlib/printers.py` (`SmtPrinter` :60-326, `SmtDagPrinter` :328-706), `pysmt/utils.py: quote` (:75-83),
`pysmt/typing.py: as_smtlib` (:118-128, 225-229), `pysmt/smtlib/script.py: smtlibscript_from_formula` (:378-424) and
`SmtLibCommand.serialize`, `pysmt/oracles.py: TypesOracle` (:454-530).

The printers write *text*; the model produces the S-expression that the text denotes (`Spec/Sexp.lean`), because the
property and the correspondence check (K) are whitespace-insensitive: K reads the implementation's text with
`Sexp.read` and compares with `toSexp` / `toSexpDag`. The only character-level function is `pyQuote` (= `utils.quote`);
`quoteAtom name` is the token the standard lexer makes of `pyQuote name`.

Operator spellings are *not* written here: they come from `Gen/PrinterOps.lean`, which `tools/gen_printerops.py`
regenerates from the two classes with Python's `ast` (`Spell`).
-/
namespace PySMT.Printer
open PySMT.Sexp

/-! ## `utils.quote` -/

/-- `_simple_symbol_prog.match(name)`; Python's `$` also matches before a final newline -/
def pyIsSimple (cs : List Char) : Bool :=
  isSimpleSymbolChars cs ||
    (match cs.reverse with
     | '\n' :: r => isSimpleSymbolChars r.reverse
     | _ => false)

def pyEscape : List Char → List Char
  | [] => []
  | c :: cs => if c == '\\' then '\\' :: '\\' :: pyEscape cs else if c == '|' then '\\' :: '|' :: pyEscape cs else c :: pyEscape cs

def pyQuoteChars (name : List Char) : List Char :=
  if ["Int", "Real", "Bool"].contains (String.ofList name) || !pyIsSimple name then '|' :: (pyEscape name ++ ['|']) else name

/-- `pysmt.utils.quote(name)` -/
def pyQuote (name : String) : String := String.ofList (pyQuoteChars name.toList)

/-- the token(s) that the standard lexer reads from a piece of printed text; a text that is not exactly one
atom is kept as an (unreadable) marker atom so that it differs from every legal reading -/
def atomOfText (txt : String) : Sexp :=
  match lexChars txt.toList with
  | .ok [.atom a] => .atom a
  | _ => .atom ("|<not-a-symbol:" ++ txt ++ ">|")

def quoteAtom (name : String) : Sexp := atomOfText (pyQuote name)

/-! ## spellings (regenerated table) -/

/-- key ↦ spelling -/
abbrev Spell := String → String

def spellOf (tbl : List (String × String)) : Spell := fun k => (tbl.lookup k).getD ("<no-spelling:" ++ k ++ ">")

def treeSpell : Spell := spellOf Gen.PrinterOps.tree
def dagSpell : Spell := spellOf Gen.PrinterOps.dag

/-- the walker method that prints a node type (`walk_<operator name in lower case>`) -/
def walkKey : Op → String
  | .forall_ => "walk_forall" | .exists_ => "walk_exists" | .and => "walk_and" | .or => "walk_or" | .not => "walk_not"
  | .implies => "walk_implies" | .iff => "walk_iff" | .symbol => "walk_symbol" | .function => "walk_function"
  | .realConst => "walk_real_constant" | .boolConst => "walk_bool_constant" | .intConst => "walk_int_constant"
  | .strConst => "walk_str_constant" | .plus => "walk_plus" | .minus => "walk_minus" | .times => "walk_times"
  | .le => "walk_le" | .lt => "walk_lt" | .equals => "walk_equals" | .ite => "walk_ite" | .toReal => "walk_toreal"
  | .bvConst => "walk_bv_constant" | .bvNot => "walk_bv_not" | .bvAnd => "walk_bv_and" | .bvOr => "walk_bv_or"
  | .bvXor => "walk_bv_xor" | .bvConcat => "walk_bv_concat" | .bvExtract => "walk_bv_extract" | .bvUlt => "walk_bv_ult"
  | .bvUle => "walk_bv_ule" | .bvNeg => "walk_bv_neg" | .bvAdd => "walk_bv_add" | .bvSub => "walk_bv_sub"
  | .bvMul => "walk_bv_mul" | .bvUdiv => "walk_bv_udiv" | .bvUrem => "walk_bv_urem" | .bvLshl => "walk_bv_lshl"
  | .bvLshr => "walk_bv_lshr" | .bvRol => "walk_bv_rotate:is_bv_rol" | .bvRor => "walk_bv_rotate:is_bv_ror"
  | .bvZext => "walk_bv_extend:is_bv_zext" | .bvSext => "walk_bv_extend:is_bv_sext" | .bvSlt => "walk_bv_slt"
  | .bvSle => "walk_bv_sle" | .bvComp => "walk_bv_comp" | .bvSdiv => "walk_bv_sdiv" | .bvSrem => "walk_bv_srem"
  | .bvAshr => "walk_bv_ashr" | .strLength => "walk_str_length" | .strConcat => "walk_str_concat"
  | .strContains => "walk_str_contains" | .strIndexOf => "walk_str_indexof" | .strReplace => "walk_str_replace"
  | .strSubstr => "walk_str_substr" | .strPrefixOf => "walk_str_prefixof" | .strSuffixOf => "walk_str_suffixof"
  | .strToInt => "walk_str_to_int" | .intToStr => "walk_int_to_str" | .strCharAt => "walk_str_charat"
  | .arraySelect => "walk_array_select" | .arrayStore => "walk_array_store" | .arrayValue => "walk_array_value"
  | .div => "walk_div" | .pow => "walk_pow" | .algebraicConst => "walk_algebraic_constant"
  | .bvToNatural => "walk_bv_tonatural"

/-! ## numerals -/

/-- decimal digits of a natural number (`str(n)`), most significant first; `fuel > n` is plenty -/
def decDigits : Nat → Nat → List Char
  | 0, _ => ['0']
  | fuel + 1, n => if n < 10 then [Char.ofNat (48 + n)] else decDigits fuel (n / 10) ++ [Char.ofNat (48 + n % 10)]

def natChars (n : Nat) : List Char := decDigits (n + 1) n
def natStr (n : Nat) : String := String.ofList (natChars n)

def natAtom (n : Nat) : Sexp := .atom (natStr n)

/-! ## sorts: `as_smtlib(funstyle=False)` -/

/-- a declared sort's name is written through `quote` (`as_smtlib`, `DECLARE_SORT`; after the repair F43) -/
def sortAtom (name : String) : Sexp := quoteAtom name

/-- split `a, b{c, d}, e` at the top-level `", "` -/
def splitTop : List Char → Nat → List Char → List (List Char)
  | [], _, cur => [cur.reverse]
  | ',' :: ' ' :: rest, 0, cur => cur.reverse :: splitTop rest 0 []
  | c :: rest, d, cur =>
    if c == '{' then splitTop rest (d + 1) (c :: cur)
    else if c == '}' then splitTop rest (d - 1) (c :: cur)
    else splitTop rest d (c :: cur)

def breakBrace : List Char → List Char × Option (List Char)
  | [] => ([], none)
  | c :: cs => if c == '{' then ([], some cs) else
    let (a, b) := breakBrace cs
    (c :: a, b)

/-- the sort denoted by a pySMT type name (`Pair{Int, BV{8}}`), printed -/
def nameToSexp : Nat → List Char → Sexp
  | 0, cs => sortAtom (String.ofList cs)
  | fuel + 1, cs =>
    match breakBrace cs with
    | (base, none) =>
      if ["Int", "Real", "Bool", "String"].contains (String.ofList base) then .atom (String.ofList base)
      else sortAtom (String.ofList base)
    | (base, some inner) =>
      let inner := inner.dropLast
      if base == "BV".toList then .list [.atom "_", .atom "BitVec", .atom (String.ofList inner)]
      else
        let hd := if base == "Array".toList then Sexp.atom "Array" else sortAtom (String.ofList base)
        .list (hd :: (splitTop inner 0 []).map (nameToSexp fuel))

def tySexp : Ty → Sexp
  | .bool => .atom "Bool" | .int => .atom "Int" | .real => .atom "Real" | .str => .atom "String"
  | .bv w => .list [.atom "_", .atom "BitVec", natAtom w]
  | .array i e => .list [.atom "Array", tySexp i, tySexp e]
  | .custom n => nameToSexp n.length n.toList

/-! ## constants -/


def intSexp (sp : Spell) (n : Int) : Sexp :=
  if n < 0 then .list [.atom (sp "walk_int_constant"), natAtom (-n).toNat] else natAtom n.toNat

/-- `str(n) + ".0"` -/
def decAtom (n : Nat) : Sexp := .atom (String.ofList (natChars n ++ ['.', '0']))

def realSexp (sp : Spell) (q : Rat) : Sexp :=
  let n := q.num.natAbs
  let d := q.den
  let body : Sexp :=
    if d != 1 then .list [.atom (sp "walk_real_constant:1"), decAtom n, decAtom d]
    else decAtom n
  if q < 0 then .list [.atom (sp "walk_real_constant:0"), body] else body

def binDigits : Nat → Nat → List Char
  | 0, _ => []
  | w + 1, v => binDigits w (v / 2) ++ [if v % 2 == 1 then '1' else '0']

/-- `"#b" + bv_bin_str()`; wider than `w` when the value does not fit -/
def bvSexp (v w : Nat) : Sexp :=
  let extra := if v < 2 ^ w then [] else (Nat.toDigits 2 (v / 2 ^ w))
  .atom (String.ofList ('#' :: 'b' :: (extra ++ binDigits w v)))

/-! ## `str(type)` and `str(k)` of a constant (human-readable printer): sort key of the array-value assignments -/

/-- `str(t)` of a pySMT type (`PySMTType.name`) -/
def pyTyName : Ty → String
  | .bool => "Bool" | .int => "Int" | .real => "Real" | .str => "String"
  | .bv w => "BV{" ++ toString w ++ "}"
  | .array i e => "Array{" ++ pyTyName i ++ ", " ++ pyTyName e ++ "}"
  | .custom n => n

def pairsOf {α} : List α → List (α × α)
  | k :: v :: more => (k, v) :: pairsOf more
  | _ => []

/-- stable insertion sort by key (Python's `sorted(…, key=str)`): the elements are inserted last-to-first, each before
the first element whose key is not smaller, so that elements with equal keys keep their order -/
def insertBy {α} (key : α → String) (x : α) : List α → List α
  | [] => [x]
  | y :: ys => if ¬ (key y < key x) then x :: y :: ys else y :: insertBy key x ys
def sortBy {α} (key : α → String) (l : List α) : List α := l.reverse.foldl (fun acc x => insertBy key x acc) []

/-- `str(c)` for a constant `c` (HRPrinter: `printers.py:94-121, 180-184, 278-291`) -/
def hrStr : Term → String
  | .node op args p =>
    let strs := args.map hrStr
    match op, p with
    | .intConst, .i n => toString n
    | .realConst, .q r => if r.den == 1 then toString r.num ++ ".0" else toString r.num ++ "/" ++ toString r.den
    | .boolConst, .b v => if v then "True" else "False"
    | .bvConst, .bv v w => toString v ++ "_" ++ toString w
    | .strConst, .s v => "\"" ++ v.replace "\"" "\"\"" ++ "\""
    | .arrayValue, .ty idx =>
      match strs, args with
      | d :: rest, a :: _ =>
        let ps := sortBy (fun kv => kv.1) (pairsOf rest)
        "Array{" ++ pyTyName idx ++ ", " ++ ((a.typeOf.map pyTyName).getD "?") ++ "}(" ++ d ++ ")"
          ++ String.join (ps.map (fun kv => "[" ++ kv.1 ++ " := " ++ kv.2 ++ "]"))
      | _, _ => "?"
    | _, _ => "?"

/-- `dict(zip(keys, values))` (`array_value_assigned_values_map`, fnode.py:667-669) on the assignments of an array value,
each carried with what was printed for it: a key that occurs again keeps its first position and takes the later value -/
def dictInsert {β} (e : (Term × Term) × (β × β)) : List ((Term × Term) × (β × β)) → List ((Term × Term) × (β × β))
  | [] => [e]
  | x :: xs => if x.1.1 == e.1.1 then ((x.1.1, e.1.2), (x.2.1, e.2.2)) :: xs else x :: dictInsert e xs
def dictPairs {β} (l : List ((Term × Term) × (β × β))) : List ((Term × Term) × (β × β)) :=
  l.foldl (fun acc e => dictInsert e acc) []

/-- `(store … (store ((as const σ) d) k1 v1) … kn vn)` -/
def storeChain (sp : Spell) (arrTy : Sexp) (d : Sexp) (ents : List (Sexp × Sexp)) : Sexp :=
  ents.foldl (fun acc kv => .list [.atom (sp "walk_array_value:0"), acc, kv.1, kv.2])
    (.list [.list [.atom (sp "walk_array_value:1"), .atom (sp "walk_array_value:2"), arrTy], d])

def sortedVar (v : Sym) : Sexp := .list [quoteAtom v.name, tySexp v.ret]

def indexed (name : String) (idx : List Nat) (a : List Sexp) : Sexp :=
  .list (.list (.atom "_" :: .atom name :: idx.map natAtom) :: a)

/-- type of an array value node: `formula.get_type().as_smtlib(False)` -/
def arrTySexp (idx : Ty) (dflt : Term) : Sexp :=
  .list [.atom "Array", tySexp idx, match dflt.typeOf with | some t => tySexp t | none => .atom "|<untyped>|"]

/-- What one walker method writes for a node, given what was written for the children (`as`).
`sorted`: the tree printer orders the assignments of an array value by `str(key)`; the DAG printer keeps the
argument order. -/
def nodeSexp (sp : Spell) (sorted : Bool) (op : Op) (p : Payload) (args : List Term) (as : List Sexp) : Sexp :=
  match op, p with
  | .symbol, .sym s => quoteAtom s.name
  | .function, .sym f => .list (quoteAtom f.name :: as)
  | .intConst, .i n => intSexp sp n
  | .realConst, .q r => realSexp sp r
  | .boolConst, .b v => .atom (if v then "true" else "false")
  | .bvConst, .bv v w => bvSexp v w
  | .strConst, .s v => .str v
  | .forall_, .qvars vs | .exists_, .qvars vs => .list (.atom (sp (walkKey op)) :: .list (vs.map sortedVar) :: as)
  | .bvExtract, .ints [_, lo, hi] => indexed (sp (walkKey op)) [hi, lo] as
  | .bvRol, .ints [_, k] | .bvRor, .ints [_, k] | .bvZext, .ints [_, k] | .bvSext, .ints [_, k] =>
    indexed (sp (walkKey op)) [k] as
  | .arrayValue, .ty idx =>
    match args, as with
    | d :: rest, ds :: restS =>
      let ents := (pairsOf rest).zip (pairsOf restS)
      -- the tree printer goes through the dictionary of assignments, the DAG printer through the argument list
      let ents := if sorted then sortBy (fun e => hrStr e.1.1) (dictPairs ents) else ents
      storeChain sp (arrTySexp idx d) ds (ents.map (·.2))
    | _, _ => .atom "|<ill-formed array value>|"
  | _, _ => .list (.atom (sp (walkKey op)) :: as)

/-! ## `SmtPrinter` (tree) -/

def toSexpWith (sp : Spell) : Term → Sexp
  | .node op args p => nodeSexp sp true op p args (args.map (toSexpWith sp))

/-- `to_smtlib(f, daggify=False)` as an S-expression -/
def toSexp (t : Term) : Sexp := toSexpWith treeSpell t

/-! ## `SmtDagPrinter` -/

/-- method name without the branch suffix -/
def walkBase (op : Op) : String := ((walkKey op).splitOn ":").headD ""

/-- does the method for `op` introduce a `let`? (regenerated: the methods that call `_new_symbol`) -/
def isLet (op : Op) : Bool := Gen.PrinterOps.dagLet.contains (walkBase op)

structure DSt where
  /-- work stack, head = top; `(was_expanded, formula)` -/
  stack : List (Bool × Term)
  /-- memoization, most recent entry first (a later entry for the same key overrides) -/
  memo : List (Term × Sexp)
  seed : Nat
  /-- `let` bindings written so far, most recent first -/
  binds : List (Sexp × Sexp)

def defName (k : Nat) : String := String.ofList (".def_".toList ++ natChars k)

/-- `_new_symbol`: skip the seeds whose name is taken -/
def nextFree (names : List String) : Nat → Nat → Nat
  | 0, k => k
  | fuel + 1, k => if names.contains (defName k) then nextFree names fuel (k + 1) else k

def memoGet (m : List (Term × Sexp)) (t : Term) : Sexp := (m.lookup t).getD (.atom "|<KeyError>|")

def bindNew (names : List String) (st : DSt) (rest : List (Bool × Term)) (t : Term) (e : Sexp) : DSt :=
  let k := nextFree names (names.length + 1) st.seed
  let d := Sexp.atom (defName k)
  { stack := rest, memo := (t, d) :: st.memo, seed := k + 1, binds := (d, e) :: st.binds }

/-- one iteration of `_process_stack` -/
def dagStep (sp : Spell) (names : List String) (sub : Term → Sexp) (st : DSt) : DSt :=
  match st.stack with
  | [] => st
  | (expanded, .node op args p) :: rest =>
    let t := Term.node op args p
    if expanded then
      if (st.memo.lookup t).isSome then { st with stack := rest }
      else
        let e := nodeSexp sp false op p args (args.map (memoGet st.memo))
        if isLet op then bindNew names st rest t e
        else { st with stack := rest, memo := (t, e) :: st.memo }
    else if op.isQuantifier then
      -- the overridden `_push_with_children_to_stack` prints the quantifier at once (its body by a nested printer),
      -- unless it is memoized already (a quantifier with several parents is on the stack once per parent)
      if (st.memo.lookup t).isSome then { st with stack := rest }
      else bindNew names st rest t (nodeSexp sp false op p args (args.map sub))
    else
      let kids := args.filter (fun a => (st.memo.lookup a).isNone)
      { st with stack := kids.reverse.map (fun a => (false, a)) ++ (true, t) :: rest }

def dagLoop (sp : Spell) (names : List String) (sub : Term → Sexp) : Nat → DSt → DSt
  | 0, st => st
  | fuel + 1, st => if st.stack.isEmpty then st else dagLoop sp names sub fuel (dagStep sp names sub st)

def letWrap (binds : List (Sexp × Sexp)) (key : Sexp) : Sexp :=
  binds.foldl (fun body de => .list [.atom "let", .list [.list [de.1, de.2]], body]) key

/-- `SmtDagPrinter.printer(f)`; `fuel` bounds the nesting of quantifiers and the number of loop iterations -/
def dagPrint (sp : Spell) : Nat → Term → Sexp
  | 0, _ => .atom "|<out of fuel>|"
  | fuel + 1, t =>
    let names := t.fv.eraseDups.map (fun s => pyQuote s.name)
    let st := dagLoop sp names (dagPrint sp fuel) fuel { stack := [(false, t)], memo := [], seed := 0, binds := [] }
    letWrap st.binds (memoGet st.memo t)

def dagFuel (t : Term) : Nat := 8 * t.size + 16

/-- `to_smtlib(f, daggify=True)` as an S-expression -/
def toSexpDag (t : Term) : Sexp := dagPrint dagSpell (dagFuel t) t

/-! ## scripts: `smtlibscript_from_formula(f).serialize` -/

/-- custom sort declarations `(basename, arity)` mentioned by a pySMT type name (outermost first) -/
def declsOfName : Nat → List Char → List (String × Nat)
  | 0, _ => []
  | fuel + 1, cs =>
    match breakBrace cs with
    | (base, none) => if ["Int", "Real", "Bool", "String"].contains (String.ofList base) then [] else [(String.ofList base, 0)]
    | (base, some inner) =>
      if base == "BV".toList then [] else
      let parts := splitTop inner.dropLast 0 []
      let sub := (parts.map (declsOfName fuel)).flatten
      if base == "Array".toList then sub else (String.ofList base, parts.length) :: sub

def declsOfTy : Ty → List (String × Nat)
  | .array i e => declsOfTy i ++ declsOfTy e
  | .custom n => declsOfName n.length n.toList
  | _ => []

/-- the sorts `TypesOracle` sees: of symbols, of the signatures of applied functions, of bound variables, of array values -/
def Term.tys : Term → List Ty
  | .node op args p =>
    let sub := (args.map Term.tys).flatten
    match op, p with
    | .symbol, .sym s => [s.ret]
    | .function, .sym f => (f.ret :: f.params) ++ sub
    | .forall_, .qvars vs | .exists_, .qvars vs => vs.map (·.ret) ++ sub
    | .arrayValue, .ty idx =>
      (match args with
       | d :: _ => (match d.typeOf with | some e => [Ty.array idx e] | none => [])
       | [] => []) ++ sub
    | _, _ => sub

/-- declared sorts of a formula, each type declaration once (after the repair of F34) -/
def sortDecls (t : Term) : List (String × Nat) := ((Term.tys t).map declsOfTy).flatten.eraseDups

/-- `symbol_type().as_smtlib(funstyle=True)`: the parameter list and the result sort -/
def declareFun (s : Sym) : Sexp :=
  .list [.atom "declare-fun", quoteAtom s.name, .list (s.params.map tySexp), tySexp s.ret]

def declareSort (d : String × Nat) : Sexp := .list [.atom "declare-sort", sortAtom d.1, natAtom d.2]

/-- `smtlibscript_from_formula(f, logic)` serialised (`daggify` selects the printer); the logic name is an input:
its computation is the subject of C13 -/
def scriptOfFormula (logic : String) (daggify : Bool) (t : Term) : List Sexp :=
  [.list [.atom "set-logic", atomOfText logic]]
    ++ (sortDecls t).map declareSort
    ++ t.fv.eraseDups.map declareFun
    ++ [.list [.atom "assert", if daggify then toSexpDag t else toSexp t], .list [.atom "check-sat"]]

/-! ## general scripts: `SmtLibScript.serialize` over a command list

One printer object serves all commands of a script, but `printer(f)` starts every formula with a fresh let counter and the
reserved names of *that* formula: each assertion is printed exactly like a formula on its own. -/

/-- the commands the model covers (`SmtLibCommand.serialize`, script.py:57-200) -/
inductive Cmd
  | setLogic (logic : String)
  | declareSort (name : String) (arity : Nat)
  | declareFun (s : Sym)
  | declareConst (s : Sym)
  | assert (t : Term)
  | push (n : Nat)
  | pop (n : Nat)
  | checkSat

def cmdSexp (daggify : Bool) : Cmd → Sexp
  | .setLogic l => .list [.atom "set-logic", atomOfText l]
  | .declareSort n k => declareSort (n, k)
  | .declareFun s => declareFun s
  | .declareConst s => .list [.atom "declare-const", quoteAtom s.name, tySexp s.ret]
  | .assert t => .list [.atom "assert", if daggify then toSexpDag t else toSexp t]
  | .push n => .list [.atom "push", natAtom n]
  | .pop n => .list [.atom "pop", natAtom n]
  | .checkSat => .list [.atom "check-sat"]

/-- `SmtLibScript.serialize(daggify)` for a script made of these commands -/
def scriptOfCmds (daggify : Bool) (cmds : List Cmd) : List Sexp := cmds.map (cmdSexp daggify)

end PySMT.Printer
