import PySMT.Spec.Sexp
/-!
# C07: reading back what `Sexp.render` writes

* `parseToks_toToks` — token level: the reader inverts `toToks`.
* `lex_render` / `render_read` — character level: for a well-formed S-expression (`Sexp.WF`: every token has a spelling
  in the 2.6 lexicon) the standard lexer + reader applied to `render s` gives back `[s]`.
-/
namespace PySMT.Sexp

/-! ## token level -/

mutual
theorem parseGo_toToks : ∀ (s : Sexp) (rest : List Tok) (stack : List (List Sexp)) (acc : List Sexp),
    parseGo (toToks s ++ rest) stack acc = parseGo rest stack (s :: acc)
  | .atom tok, rest, stack, acc => by simp [toToks, parseGo]
  | .str lit, rest, stack, acc => by simp [toToks, parseGo]
  | .list xs, rest, stack, acc => by
    simp only [toToks, List.cons_append, List.append_assoc, parseGo]
    rw [parseGo_toToksList xs]
    simp [parseGo]
theorem parseGo_toToksList : ∀ (xs : List Sexp) (rest : List Tok) (stack : List (List Sexp)) (acc : List Sexp),
    parseGo (toToksList xs ++ rest) stack acc = parseGo rest stack (xs.reverse ++ acc)
  | [], rest, stack, acc => by simp [toToksList]
  | x :: xs, rest, stack, acc => by
    simp only [toToksList, List.append_assoc]
    rw [parseGo_toToks x, parseGo_toToksList xs]
    simp
end

/-- token level round trip -/
theorem parseToks_toToks (s : Sexp) : parseToks (toToks s) = .ok [s] := by
  have h := parseGo_toToks s [] [] []
  simp only [List.append_nil] at h
  simp [parseToks, h, parseGo]

theorem parseToks_toToksList (xs : List Sexp) : parseToks (toToksList xs) = .ok xs := by
  have h := parseGo_toToksList xs [] [] []
  simp only [List.append_nil] at h
  simp [parseToks, h, parseGo]

/-! ## character level: the lexer on the spelling of one token -/

/-- what may follow a token in a rendering: nothing, or a character that ends a run and does not continue a string -/
def OKRest : List Char → Prop
  | [] => True
  | c :: _ => isSymChar c = false ∧ (c == '"') = false

theorem lexGo_cons (m : Mode) (out : List Tok) (c : Char) (cs : List Char) :
    lexGo m out (c :: cs) = match step m out c with
      | .ok (m', out') => lexGo m' out' cs
      | .error e => .error e := rfl

theorem lexGo_run (cs : List Char) (h : cs.all isSymChar = true) (acc : List Char) (out : List Tok) (rest : List Char) :
    lexGo (.run acc) out (cs ++ rest) = lexGo (.run (cs.reverse ++ acc)) out rest := by
  induction cs generalizing acc with
  | nil => rfl
  | cons c cs ih =>
    simp only [List.all_cons, Bool.and_eq_true] at h
    simp only [List.cons_append, lexGo_cons, step, h.1, if_true]
    rw [ih h.2]
    simp

theorem lexGo_run_end (acc : List Char) (out : List Tok) (rest : List Char) (t : Tok)
    (hc : classify acc.reverse = .ok t) (hr : OKRest rest) :
    lexGo (.run acc) out rest = lexGo .top (t :: out) rest := by
  cases rest with
  | nil => simp [lexGo, finish, hc]
  | cons c r =>
    simp only [OKRest] at hr
    simp [lexGo_cons, step, hr.1, hc]

theorem lexGo_runTok (c : Char) (cs : List Char) (t : Tok) (out : List Tok) (rest : List Char)
    (hstart : (isSymChar c || c == '#' || c == ':') = true) (hall : cs.all isSymChar = true)
    (hcl : classify (c :: cs) = .ok t) (hr : OKRest rest) :
    lexGo .top out (c :: cs ++ rest) = lexGo .top (t :: out) rest := by
  rw [List.cons_append, lexGo_cons]
  simp only [step, stepTop, hstart, if_true]
  rw [lexGo_run cs hall, lexGo_run_end _ _ _ t _ hr]
  simpa using hcl

theorem lexGo_bar (cs : List Char) (h : cs.all isQuotedChar = true) (acc : List Char) (out : List Tok) (rest : List Char) :
    lexGo (.bar acc) out (cs ++ '|' :: rest) =
      lexGo .top (.atom (String.ofList (symTokChars (acc.reverse ++ cs))) :: out) rest := by
  induction cs generalizing acc with
  | nil => simp [lexGo_cons, step]
  | cons c cs ih =>
    simp only [List.all_cons, Bool.and_eq_true] at h
    have hq := h.1
    simp only [isQuotedChar, Bool.and_eq_true, bne_iff_ne, ne_eq] at hq
    have h1 : (c == '|') = false := by simpa using hq.1.2
    simp only [List.cons_append, lexGo_cons, step, h1, h.1, if_true, Bool.false_eq_true, if_false]
    rw [ih h.2]
    simp

theorem lexGo_str (cs : List Char) (h : cs.all isPrintable = true) (acc : List Char) (out : List Tok) (rest : List Char)
    (hr : OKRest rest) :
    lexGo (.str acc) out (escapeStr cs ++ '"' :: rest) =
      lexGo .top (.str (String.ofList (acc.reverse ++ cs)) :: out) rest := by
  induction cs generalizing acc with
  | nil =>
    simp only [escapeStr, List.nil_append, lexGo_cons, step, beq_self_eq_true, if_true, List.append_nil]
    cases rest with
    | nil => simp [lexGo, finish]
    | cons c r =>
      simp only [OKRest] at hr
      simp [lexGo_cons, step, hr.2]
  | cons c cs ih =>
    simp only [List.all_cons, Bool.and_eq_true] at h
    by_cases hc : c = '"'
    · subst hc
      simp only [escapeStr, beq_self_eq_true, if_true, List.cons_append, lexGo_cons, step]
      rw [ih h.2]
      simp
    · have hc' : (c == '"') = false := by simpa using hc
      simp only [escapeStr, hc', Bool.false_eq_true, if_false, List.cons_append, lexGo_cons, step, h.1, if_true]
      rw [ih h.2]
      simp

/-! ### the token classes are runs -/

/-- a token that the lexer reads in `run` mode -/
def RunTok (cs : List Char) : Prop :=
  ∃ c cs', cs = c :: cs' ∧ (isSymChar c || c == '#' || c == ':') = true ∧ cs'.all isSymChar = true

theorem isSymChar_of_isDigit {c : Char} (h : isDigit c = true) : isSymChar c = true := by
  simp [isSymChar, h]

theorem all_sym_of_all_digit {cs : List Char} (h : cs.all isDigit = true) : cs.all isSymChar = true := by
  rw [List.all_eq_true] at *
  exact fun c hc => isSymChar_of_isDigit (h c hc)

theorem numeral_digits {cs : List Char} (h : isNumeralChars cs = true) : cs ≠ [] ∧ cs.all isDigit = true := by
  unfold isNumeralChars at h
  split at h
  · simp at h
  · simp; decide
  · simp only [Bool.and_eq_true] at h
    simp [h.1.1, h.2]

theorem runTok_of_all_sym {c : Char} {cs : List Char} (h : (c :: cs).all isSymChar = true) : RunTok (c :: cs) := by
  simp only [List.all_cons, Bool.and_eq_true] at h
  exact ⟨c, cs, rfl, by simp [h.1], h.2⟩

theorem runTok_numeral {cs : List Char} (h : isNumeralChars cs = true) : RunTok cs := by
  have ⟨hne, hd⟩ := numeral_digits h
  cases cs with
  | nil => exact absurd rfl hne
  | cons c cs => exact runTok_of_all_sym (all_sym_of_all_digit hd)

theorem splitDot_spec : ∀ (cs a b : List Char), splitDot cs = (a, some b) → cs = a ++ '.' :: b
  | [], a, b, h => by simp [splitDot] at h
  | c :: cs, a, b, h => by
    unfold splitDot at h
    by_cases hc : c = '.'
    · subst hc
      simp at h
      simp [h.1, h.2]
    · have hc' : (c == '.') = false := by simpa using hc
      simp only [hc', Bool.false_eq_true, if_false] at h
      have := splitDot_spec cs (splitDot cs).1 b
      cases hsd : splitDot cs with
      | mk a' b' =>
        rw [hsd] at h
        simp only [Prod.mk.injEq] at h
        have h2 := splitDot_spec cs a' b (by rw [hsd, h.2])
        rw [← h.1, h2]
        simp

theorem runTok_decimal {cs : List Char} (h : isDecimalChars cs = true) : RunTok cs := by
  unfold isDecimalChars at h
  split at h
  · next a b hsd =>
    simp only [Bool.and_eq_true] at h
    have hcs := splitDot_spec cs a b hsd
    have ⟨hne, hd⟩ := numeral_digits h.1.1
    cases a with
    | nil => exact absurd rfl hne
    | cons c a =>
      subst hcs
      have h1 := all_sym_of_all_digit hd
      have h2 := all_sym_of_all_digit h.2
      have h3 : ((c :: a) ++ '.' :: b).all isSymChar = true := by
        rw [List.all_append, h1, List.all_cons, h2]
        decide
      exact runTok_of_all_sym h3
  · simp at h

theorem isSymChar_of_bin {c : Char} (h : isBinDigit c = true) : isSymChar c = true := by
  simp only [isBinDigit, Bool.or_eq_true, beq_iff_eq] at h
  rcases h with h | h <;> subst h <;> decide

theorem isSymChar_of_hex {c : Char} (h : isHexDigit c = true) : isSymChar c = true := by
  simp only [isHexDigit, Bool.or_eq_true] at h
  rcases h with h | h
  · exact isSymChar_of_isDigit h
  · simp only [hexLetters, List.contains_iff_mem, List.mem_cons, List.not_mem_nil, or_false] at h
    rcases h with h | h | h | h | h | h | h | h | h | h | h | h <;> subst h <;> decide

theorem runTok_binary {cs : List Char} (h : isBinaryChars cs = true) : RunTok cs := by
  unfold isBinaryChars at h
  split at h
  · next ds =>
    simp only [Bool.and_eq_true] at h
    refine ⟨'#', 'b' :: ds, rfl, by decide, ?_⟩
    simp only [List.all_cons, Bool.and_eq_true]
    refine ⟨by decide, ?_⟩
    rw [List.all_eq_true] at *
    exact fun c hc => isSymChar_of_bin (h.2 c hc)
  · simp at h

theorem runTok_hex {cs : List Char} (h : isHexChars cs = true) : RunTok cs := by
  unfold isHexChars at h
  split at h
  · next ds =>
    simp only [Bool.and_eq_true] at h
    refine ⟨'#', 'x' :: ds, rfl, by decide, ?_⟩
    simp only [List.all_cons, Bool.and_eq_true]
    refine ⟨by decide, ?_⟩
    rw [List.all_eq_true] at *
    exact fun c hc => isSymChar_of_hex (h.2 c hc)
  · simp at h

theorem simple_all_sym {cs : List Char} (h : isSimpleSymbolChars cs = true) : cs ≠ [] ∧ cs.all isSymChar = true := by
  cases cs with
  | nil => simp [isSimpleSymbolChars] at h
  | cons c cs =>
    simp only [isSimpleSymbolChars, Bool.and_eq_true] at h
    simp [h.1.1, h.2]

theorem runTok_simple {cs : List Char} (h : isSimpleSymbolChars cs = true) : RunTok cs := by
  have ⟨hne, ha⟩ := simple_all_sym h
  cases cs with
  | nil => exact absurd rfl hne
  | cons c cs => exact runTok_of_all_sym ha

theorem runTok_keyword {cs : List Char} (h : isKeywordChars cs = true) : RunTok cs := by
  unfold isKeywordChars at h
  split at h
  · next cs' => exact ⟨':', cs', rfl, by decide, (simple_all_sym h).2⟩
  · simp at h

/-- every token class that `classify` accepts is read as one run token -/
theorem lexGo_classified (cs : List Char) (out : List Tok) (rest : List Char)
    (h : (isNumeralChars cs || isDecimalChars cs || isBinaryChars cs || isHexChars cs || isKeywordChars cs
          || isSimpleSymbolChars cs) = true) (hr : OKRest rest) :
    lexGo .top out (cs ++ rest) = lexGo .top (.atom (String.ofList cs) :: out) rest := by
  have hrun : RunTok cs := by
    simp only [Bool.or_eq_true] at h
    rcases h with ((((h | h) | h) | h) | h) | h
    · exact runTok_numeral h
    · exact runTok_decimal h
    · exact runTok_binary h
    · exact runTok_hex h
    · exact runTok_keyword h
    · exact runTok_simple h
  obtain ⟨c, cs', rfl, hstart, hall⟩ := hrun
  exact lexGo_runTok c cs' _ out rest hstart hall (by simp [classify, h]) hr

theorem stripBars_spec {tok n : List Char} (h : stripBars tok = some n) : tok = '|' :: (n ++ ['|']) := by
  unfold stripBars at h
  split at h
  · next cs =>
    split at h
    · next r hr =>
      simp only [Option.some.injEq] at h
      subst h
      have : cs = (cs.reverse).reverse := by simp
      rw [this, hr]
      simp
    · simp at h
  · simp at h

theorem lexGo_bars (n : List Char) (hq : n.all isQuotedChar = true) (out : List Tok) (rest : List Char) :
    lexGo .top out ('|' :: (n ++ ['|']) ++ rest) = lexGo .top (.atom (String.ofList (symTokChars n)) :: out) rest := by
  have : '|' :: (n ++ ['|']) ++ rest = '|' :: (n ++ '|' :: rest) := by simp
  rw [this, lexGo_cons]
  have h0 : step .top out '|' = .ok (.bar [], out) := by
    simp only [step, stepTop]
    rfl
  rw [h0]
  simp only []
  rw [lexGo_bar n hq]
  simp

/-- the lexer on the spelling of an atom token -/
theorem lexGo_atom (tok : List Char) (h : atomOK tok = true) (out : List Tok) (rest : List Char) (hr : OKRest rest) :
    lexGo .top out (atomChars tok ++ rest) = lexGo .top (.atom (String.ofList tok) :: out) rest := by
  unfold atomOK at h
  split at h
  · next n hsb =>
    simp only [Bool.and_eq_true] at h
    have htok := stripBars_spec hsb
    have hac : atomChars tok = tok := by subst htok; simp [atomChars]
    rw [hac, htok, lexGo_bars n h.2]
    simp [symTokChars, h.1]
  · next hsb =>
    simp only [Bool.and_eq_true, Bool.or_eq_true, bne_iff_ne, ne_eq, Bool.not_eq_true'] at h
    obtain ⟨hhead, hcls⟩ := h
    have hhead' : (tok.head? == some '|') = false := by simpa using hhead
    -- the token is spelled as itself and read as a run, or spelled with bars
    have key : ∀ (hs : isSimpleSymbolChars tok = true),
        lexGo .top out (tok ++ rest) = lexGo .top (.atom (String.ofList tok) :: out) rest :=
      fun hs => lexGo_classified tok out rest (by simp [hs]) hr
    by_cases hns : isNonSymbolChars tok = true
    · have hac : atomChars tok = tok := by simp [atomChars, hns]
      rw [hac]
      rcases hcls with (⟨_, hnr⟩ | hs) | ⟨hnn, _⟩
      · apply lexGo_classified tok out rest _ hr
        simp only [isNonSymbolChars, Bool.or_eq_true] at hns
        simp only [Bool.or_eq_true]
        rcases hns with ((((h1 | h1) | h1) | h1) | h1) | h1
        · simp [h1]
        · simp [h1]
        · simp [h1]
        · simp [h1]
        · simp [h1]
        · rw [hnr] at h1; simp at h1
      · exact key hs
      · rw [hns] at hnn; simp at hnn
    · have hns' : isNonSymbolChars tok = false := by simpa using hns
      have hnr : isReserved (String.ofList tok) = false := by
        simp only [isNonSymbolChars, Bool.or_eq_false_iff] at hns'
        exact hns'.2
      by_cases hs : isSimpleSymbolChars tok = true
      · have hac : atomChars tok = tok := by simp [atomChars, hns', hhead', quoteSymChars, hs, hnr]
        rw [hac]
        exact key hs
      · have hs' : isSimpleSymbolChars tok = false := by simpa using hs
        rcases hcls with (⟨hnn, _⟩ | hs2) | ⟨_, hq⟩
        · rw [hns'] at hnn; simp at hnn
        · rw [hs'] at hs2; simp at hs2
        · have hac : atomChars tok = '|' :: (tok ++ ['|']) := by
            simp [atomChars, hns', hhead', quoteSymChars, hs']
          rw [hac, lexGo_bars tok hq]
          simp [symTokChars, hns']

/-! ### whole S-expressions -/

theorem lexGo_space (out : List Tok) (cs : List Char) : lexGo .top out (' ' :: cs) = lexGo .top out cs := by
  rw [lexGo_cons]; rfl

theorem okRest_space (cs : List Char) : OKRest (' ' :: cs) := by simp only [OKRest]; decide
theorem okRest_rp (cs : List Char) : OKRest (')' :: cs) := by simp only [OKRest]; decide

mutual
theorem lexGo_render : ∀ (s : Sexp), WF s = true → ∀ (out : List Tok) (rest : List Char), OKRest rest →
    lexGo .top out (renderChars s ++ rest) = lexGo .top ((toToks s).reverse ++ out) rest
  | .atom tok, h, out, rest, hr => by
    simp only [WF] at h
    simp only [renderChars, toToks, List.reverse_cons, List.reverse_nil, List.nil_append, List.singleton_append]
    rw [lexGo_atom tok.toList h out rest hr, String.ofList_toList]
  | .str lit, h, out, rest, hr => by
    simp only [WF] at h
    simp only [renderChars, toToks, List.reverse_cons, List.reverse_nil, List.nil_append, List.singleton_append]
    have : ('"' :: (escapeStr lit.toList ++ ['"'])) ++ rest = '"' :: (escapeStr lit.toList ++ '"' :: rest) := by simp
    rw [this, lexGo_cons]
    have h0 : step .top out '"' = .ok (.str [], out) := by simp only [step, stepTop]; rfl
    rw [h0]
    simp only []
    rw [lexGo_str lit.toList h [] out rest hr]
    simp [String.ofList_toList]
  | .list xs, h, out, rest, hr => by
    simp only [WF] at h
    simp only [renderChars, toToks]
    have : ('(' :: (renderList xs ++ [')'])) ++ rest = '(' :: (renderList xs ++ ')' :: rest) := by simp
    rw [this, lexGo_cons]
    have h0 : step .top out '(' = .ok (.top, .lp :: out) := by simp only [step, stepTop]; rfl
    rw [h0]
    simp only []
    rw [lexGo_renderList xs h (.lp :: out) (')' :: rest) (okRest_rp rest), lexGo_cons]
    have h1 : ∀ o, step .top o ')' = .ok (.top, .rp :: o) := by intro o; simp only [step, stepTop]; rfl
    rw [h1]
    simp
theorem lexGo_renderList : ∀ (xs : List Sexp), WFList xs = true → ∀ (out : List Tok) (rest : List Char), OKRest rest →
    lexGo .top out (renderList xs ++ rest) = lexGo .top ((toToksList xs).reverse ++ out) rest
  | [], _, out, rest, _ => by simp [renderList, toToksList]
  | [x], h, out, rest, hr => by
    simp only [WFList, Bool.and_true] at h
    simp only [renderList, toToksList, List.append_nil]
    exact lexGo_render x h out rest hr
  | x :: y :: more, h, out, rest, hr => by
    simp only [WFList, Bool.and_eq_true] at h
    have hy : WFList (y :: more) = true := by simp [WFList, h.2.1, h.2.2]
    simp only [renderList, toToksList, List.append_assoc, List.cons_append]
    rw [lexGo_render x h.1 out _ (okRest_space _), lexGo_space]
    have ih := lexGo_renderList (y :: more) hy ((toToks x).reverse ++ out) rest hr
    simp only [toToksList] at ih
    rw [ih]
    simp
end

theorem lex_render (s : Sexp) (h : WF s = true) : lexChars (renderChars s) = .ok (toToks s) := by
  have := lexGo_render s h [] [] trivial
  simp only [List.append_nil] at this
  simp [lexChars, this, lexGo, finish]

/-- Character-level round trip: the standard lexer and reader invert `render` on every S-expression whose tokens have a
spelling in the SMT-LIB 2.6 lexicon. -/
theorem render_read (s : Sexp) (h : WF s = true) : read (render s) = .ok [s] := by
  simp only [read, render, String.toList_ofList, lex_render s h, parseToks_toToks]

end PySMT.Sexp
