import PySMT.Proofs.WalkerMore
import PySMT.Core.FreeVars
import PySMT.Impl.Oracles

/-! The generic walker instantiated on the graph of `Term`s (nodes = terms, children = `args`, rank = `Term.size`,
    key = the term itself): the memoised iterative walk computes exactly the recursive bottom-up functions that the
    other properties use as models (`Oracles.fvO`, `Term.fv`, the size measures here; `Simplifier.simp` in `WalkerInstSimp`, `Subst.substG` in
    `WalkerInstSubst` -- `Impl.Simplifier` and `Impl.Subst` cannot be imported together: both transitively define
    `PySMT.Build.bvWidth`). -/

namespace PySMT.Walker
set_option linter.unusedSectionVars false
set_option linter.unusedSimpArgs false

/-! ### the term graph -/

theorem size_lt_of_mem_args (c : Term) (l : List Term) (h : c ∈ l) : c.size ≤ (l.map Term.size).sum := by
  induction l with
  | nil => cases h
  | cons a l ih =>
    simp only [List.map_cons, List.sum_cons]
    rcases List.mem_cons.mp h with rfl | h'
    · omega
    · have := ih h'; omega

/-- nodes = terms, children = arguments, rank = number of nodes of the tree -/
def termGraph : Graph Term where
  children := Term.args
  rank := Term.size
  acyclic := by
    intro n c h
    cases n with
    | node op args p =>
      have := size_lt_of_mem_args c args h
      simp only [Term.size]; omega

theorem kids_termGraph (t : Term) : kids termGraph (fun _ => false) t = t.args := by simp [kids, termGraph]

section fold
variable {R E : Type}

theorem collect_ok_map {α : Type} (sp : α → Except E R) (h : α → R) (l : List α) (hl : ∀ a ∈ l, sp a = .ok (h a)) :
    collect sp l = .ok (l.map h) := by
  induction l with
  | nil => rfl
  | cons a l ih =>
    simp only [collect, List.map_cons]
    rw [ih (fun a' ha' => hl a' (List.mem_cons_of_mem _ ha')), hl a List.mem_cons_self]

/-- the callback of a walker whose `walk_*` methods compute `g node results-of-the-children` and never raise -/
def cbOf (g : Term → List R → R) : Term → List R → Except E R := fun n rs => .ok (g n rs)

/-- **spec_eq_fold**: on the term graph, with nodes `d` at which the walker calls the callback at once (push
    override), the recursive specification of the walk is any function `F` that satisfies the bottom-up equation. -/
theorem spec_eq_fold (d : Term → Bool) (g : Term → List R → R) (F : Term → R)
    (hF : ∀ t, F t = if d t then g t [] else g t (t.args.map F)) :
    ∀ k t, t.size < k → spec termGraph d (cbOf (E := E) g) t = .ok (F t) := by
  intro k
  induction k with
  | zero => intro t h; omega
  | succ k ih =>
    intro t ht
    rw [spec_eq]
    by_cases hd : d t = true
    · have : kids termGraph d t = [] := by simp [kids, hd]
      rw [this]
      simp only [collect, cbOf]
      rw [hF t]; simp [hd]
    · have hk : kids termGraph d t = t.args := by simp [kids, hd, termGraph]
      rw [hk, collect_ok_map (spec termGraph d (cbOf g)) F t.args]
      · simp only [cbOf]; rw [hF t]; simp [hd]
      · intro c hc
        have := termGraph.acyclic t c hc
        exact ih c (by simp only [termGraph] at this; omega)

/-! ### sub-terms = nodes below -/

theorem mem_subterms_self (t : Term) : t ∈ t.subterms := by
  cases t with
  | node op args p => simp [Term.subterms]

theorem mem_subterms_of_arg (t c x : Term) (hc : c ∈ t.args) (hx : x ∈ c.subterms) : x ∈ t.subterms := by
  cases t with
  | node op args p =>
    simp only [Term.subterms, List.mem_cons, List.mem_flatten, List.mem_map]
    exact Or.inr ⟨c.subterms, ⟨c, hc, rfl⟩, hx⟩

theorem subterms_cases (t x : Term) (hx : x ∈ t.subterms) : x = t ∨ ∃ c ∈ t.args, x ∈ c.subterms := by
  cases t with
  | node op args p =>
    simp only [Term.subterms, List.mem_cons, List.mem_flatten, List.mem_map] at hx
    rcases hx with h | ⟨l, ⟨c, hc, rfl⟩, hx⟩
    · exact Or.inl h
    · exact Or.inr ⟨c, hc, hx⟩

theorem desc_subterms (t x : Term) (h : Desc termGraph (fun _ => false) t x) : x ∈ t.subterms := by
  induction h with
  | refl n => exact mem_subterms_self n
  | step n c x hc _ ih => exact mem_subterms_of_arg n c x (by rw [kids_termGraph] at hc; exact hc) ih

theorem subterms_desc : ∀ k (t : Term), t.size < k → ∀ x, x ∈ t.subterms → Desc termGraph (fun _ => false) t x := by
  intro k
  induction k with
  | zero => intro t h; omega
  | succ k ih =>
    intro t ht x hx
    rcases subterms_cases t x hx with rfl | ⟨c, hc, hx'⟩
    · exact Desc.refl _
    · have := termGraph.acyclic t c hc
      exact Desc.step t c x (by rw [kids_termGraph]; exact hc) (ih c (by simp only [termGraph] at this; omega) x hx')

/-- the nodes below `t` in the term graph are exactly its sub-terms -/
theorem desc_iff_subterm (t x : Term) : Desc termGraph (fun _ => false) t x ↔ x ∈ t.subterms :=
  ⟨desc_subterms t x, subterms_desc (t.size + 1) t (Nat.lt_succ_self _) x⟩

theorem covers_subterms (t : Term) : Covers termGraph (fun _ => false) t t.subterms :=
  fun x h => desc_subterms t x h

theorem mem_args_of_kids (d : Term → Bool) (n c : Term) (h : c ∈ kids termGraph d n) : c ∈ n.args := by
  unfold kids at h
  by_cases hd : d n
  · simp [hd] at h
  · simpa [hd, termGraph] using h

/-- with a push override at the nodes `d` the walker sees a part of the sub-terms only -/
theorem covers_subterms_direct (d : Term → Bool) (t : Term) : Covers termGraph d t t.subterms := by
  intro x h
  induction h with
  | refl n => exact mem_subterms_self n
  | step n c x hc _ ih => exact mem_subterms_of_arg n c x (mem_args_of_kids d n c hc) ih

/-! ### edges of the tree of sub-terms: `size − 1` -/

theorem cost_flatten (g : Graph Term) (ls : List (List Term)) : cost g ls.flatten = (ls.map (cost g)).sum := by
  induction ls with
  | nil => rfl
  | cons l ls ih => simp [List.flatten_cons, cost_append, ih]

theorem sum_add_length {α : Type} (f h : α → Nat) (l : List α) (hl : ∀ a ∈ l, f a + 1 = h a) :
    (l.map f).sum + l.length = (l.map h).sum := by
  induction l with
  | nil => rfl
  | cons a l ih =>
    have := ih (fun a' ha' => hl a' (List.mem_cons_of_mem _ ha'))
    have := hl a List.mem_cons_self
    simp only [List.map_cons, List.sum_cons, List.length_cons]; omega

theorem cost_subterms : ∀ k (t : Term), t.size < k → cost termGraph t.subterms + 1 = t.size := by
  intro k
  induction k with
  | zero => intro t h; omega
  | succ k ih =>
    intro t ht
    cases t with
    | node op args p =>
      have hargs : ∀ a ∈ args, cost termGraph a.subterms + 1 = a.size := by
        intro a ha
        have := size_lt_of_mem_args a args ha
        simp only [Term.size] at ht
        exact ih a (by omega)
      have h1 := sum_add_length (fun a => cost termGraph a.subterms) Term.size args hargs
      simp only [Term.subterms, Term.size, cost_cons, cost_flatten, List.map_map]
      have : (termGraph.children (Term.node op args p)).length = args.length := rfl
      rw [this]
      have h2 : (List.map (cost termGraph ∘ Term.subterms) args) = List.map (fun a => cost termGraph a.subterms) args := rfl
      rw [h2]; omega

/-- the distinct sub-terms of `t` = the nodes of its DAG -/
def dagNodes (t : Term) : List Term := t.subterms.eraseDups

/-- `2·E + 2`, `E` = number of edges of the DAG of `t` (each distinct sub-term counted once): the iteration and
    push bound of one walk, and a sufficient budget -/
def dagBound (t : Term) : Nat := 2 * cost termGraph (dagNodes t) + 2

theorem covers_dagNodes (d : Term → Bool) (t : Term) : Covers termGraph d t (dagNodes t) :=
  fun x h => List.mem_eraseDups.mpr (covers_subterms_direct d t x h)

/-- for a tree (no sharing) the bound is twice the tree size -/
theorem fuel_of_size (t : Term) : 2 * cost termGraph t.subterms + 2 = 2 * t.size := by
  have := cost_subterms (t.size + 1) t (Nat.lt_succ_self _); omega

end fold

/-! ### `walk_eq_fold` -/

section walk
variable {M R E : Type} [MemoLike M Term R] [LawfulMemo M Term R]

/-- the memo holds values of `F` only, is closed under arguments (below non-`d` nodes), and the walker is idle -/
structure FoldIdle (d : Term → Bool) (F : Term → R) (s : WState M Term) : Prop where
  ok : ∀ n r, look s.memo n = some r → r = F n
  down : DownClosed termGraph d s.memo
  stack : s.stack = []

theorem idle_of_foldIdle (d : Term → Bool) (g : Term → List R → R) (F : Term → R)
    (hF : ∀ t, F t = if d t then g t [] else g t (t.args.map F)) (s : WState M Term) (h : FoldIdle d F s) :
    Idle termGraph d (cbOf (E := E) g) s :=
  ⟨⟨fun n r hr => by rw [spec_eq_fold d g F hF (n.size + 1) n (Nat.lt_succ_self _), h.ok n r hr], h.down⟩, h.stack⟩

theorem foldIdle_init (d : Term → Bool) (F : Term → R) : FoldIdle d F (WState.init : WState M Term) :=
  ⟨fun n r h => by simp [WState.init, LawfulMemo.look_empty] at h,
   fun n h => by simp [WState.init, LawfulMemo.look_empty] at h, rfl⟩

/-- **walk_eq_fold**.  Let `F` be any bottom-up function on terms, `F (.node op args p) = g (.node op args p) (args.map F)`.
    The memoised, iterative `DagWalker.walk` whose callbacks compute `g`, started on any term `t` from any idle walker
    whose memo holds values of `F` (closed under arguments), with an iteration budget of `dagBound t` =
    `2·(edges of the DAG of t) + 2` (distinct sub-terms counted once -- not the tree size):
    * returns `F t`;
    * invokes the callback exactly once on each distinct sub-term of `t` that was not memoised before, on nothing else;
    * performs at most `dagBound t` loop iterations and pushes: linear in the DAG, even where the tree is exponential;
    * is idle again afterwards, its memo still holding values of `F` only. -/
theorem walk_eq_fold (g : Term → List R → R) (F : Term → R) (hF : ∀ t, F t = g t (t.args.map F))
    (inval shortcut : Bool) (fuel : Nat) (t : Term) (s : WState M Term) (hi : FoldIdle (fun _ => false) F s)
    (hfuel : dagBound t ≤ fuel) :
    let r := walk termGraph (fun _ => false) (fun _ => cbOf (E := E) g) inval shortcut fuel t s
    r.1 = .ok (F t) ∧
    (∃ new, r.2.trace = new ++ s.trace ∧ new.Nodup ∧
        (∀ x, x ∈ new ↔ (x ∈ t.subterms ∧ look s.memo x = none)) ∧ r.2.calls = s.calls + new.length) ∧
    (r.2.iters ≤ s.iters + dagBound t ∧ r.2.pushes ≤ s.pushes + dagBound t) ∧
    FoldIdle (fun _ => false) F r.2 := by
  intro r
  have hF' : ∀ t, F t = if (fun _ => false) t then g t [] else g t (t.args.map F) := by intro t; simp [hF t]
  have hidle := idle_of_foldIdle (E := E) (fun _ => false) g F hF' s hi
  have hsp := spec_eq_fold (E := E) (fun _ => false) g F hF' (t.size + 1) t (Nat.lt_succ_self _)
  have hcov := covers_dagNodes (fun _ => false) t
  have h1 := walk_correct termGraph (fun _ => false) (cbOf (E := E) g) inval shortcut fuel t s hidle
    (dagNodes t) hcov hfuel
  refine ⟨by rw [h1, hsp]; rfl, ?_, ?_, ?_⟩
  · obtain ⟨new, h2, h3, h4, h5⟩ := calls_eq_distinct termGraph (fun _ => false) (cbOf (E := E) g) inval shortcut
      fuel t s hidle (dagNodes t) hcov hfuel (F t) hsp
    exact ⟨new, h2, h3, fun x => by rw [h4 x, desc_iff_subterm], h5⟩
  · exact steps_le_2E termGraph (fun _ => false) (cbOf (E := E) g) inval shortcut fuel t s hidle (dagNodes t) hcov hfuel
  · have h6 := walk_idle termGraph (fun _ => false) _ (cbOf (E := E) g) (refines_pure _) inval shortcut fuel t s hidle
    refine ⟨?_, h6.closed.down, h6.stack⟩
    intro n r' hr
    have := h6.closed.ok n r' hr
    rw [spec_eq_fold (E := E) (fun _ => false) g F hF' (n.size + 1) n (Nat.lt_succ_self _)] at this
    cases this; rfl

/-- the same for a walker that calls the callback at once at the nodes `d` (the push override of `Substituter` and
    `SmtDagPrinter` at quantifiers): the value is `F t` for every `F` with `F t = g t []` at `d`-nodes and the
    bottom-up equation elsewhere. -/
theorem walk_eq_fold_direct (d : Term → Bool) (g : Term → List R → R) (F : Term → R)
    (hF : ∀ t, F t = if d t then g t [] else g t (t.args.map F))
    (inval shortcut : Bool) (fuel : Nat) (t : Term) (s : WState M Term) (hi : FoldIdle d F s)
    (hfuel : dagBound t ≤ fuel) :
    let r := walk termGraph d (fun _ => cbOf (E := E) g) inval shortcut fuel t s
    r.1 = .ok (F t) ∧ (r.2.iters ≤ s.iters + dagBound t ∧ r.2.pushes ≤ s.pushes + dagBound t) ∧ FoldIdle d F r.2 := by
  intro r
  have hidle := idle_of_foldIdle (E := E) d g F hF s hi
  have hsp := spec_eq_fold (E := E) d g F hF (t.size + 1) t (Nat.lt_succ_self _)
  have h1 := walk_correct termGraph d (cbOf (E := E) g) inval shortcut fuel t s hidle (dagNodes t)
    (covers_dagNodes d t) hfuel
  refine ⟨by rw [h1, hsp]; rfl,
    steps_le_2E termGraph d (cbOf (E := E) g) inval shortcut fuel t s hidle (dagNodes t) (covers_dagNodes d t) hfuel, ?_⟩
  have h6 := walk_idle termGraph d _ (cbOf (E := E) g) (refines_pure _) inval shortcut fuel t s hidle
  refine ⟨?_, h6.closed.down, h6.stack⟩
  intro n r' hr
  have := h6.closed.ok n r' hr
  rw [spec_eq_fold (E := E) d g F hF (n.size + 1) n (Nat.lt_succ_self _)] at this
  cases this; rfl

end walk

/-! ### instances -/

open PySMT.Oracles

theorem fvO_fold (t : Term) : fvO t = fvNode t.op t.payload (t.args.map fvO) := by
  cases t with
  | node op args p => rw [fvO]; rfl

/-- `Term.fv` (Core) as a node function -/
def fvCoreNode (n : Term) (rs : List (List Sym)) : List Sym :=
  match n.op, n.payload with
  | .symbol, .sym s => [s]
  | .function, .sym s => s :: rs.flatten
  | .forall_, .qvars vs => rs.flatten.filter (fun x => !vs.contains x)
  | .exists_, .qvars vs => rs.flatten.filter (fun x => !vs.contains x)
  | _, _ => rs.flatten

theorem termfv_fold (t : Term) : t.fv = fvCoreNode t (t.args.map Term.fv) := by
  cases t with
  | node op args p =>
    rw [Term.fv.eq_def]
    simp only [fvCoreNode, Term.op, Term.payload, Term.args]
    split <;> first | rfl | (split <;> first | rfl | simp_all)

theorem treeO_fold (t : Term) : treeO t = (fun (_ : Term) rs => 1 + rs.sum) t (t.args.map treeO) := by
  cases t with
  | node op args p => rw [treeO]; rfl

theorem depthO_fold (t : Term) :
    depthO t = (fun (n : Term) rs => 1 + (if n.args.isEmpty then 0 else maxList rs)) t (t.args.map depthO) := by
  cases t with
  | node op args p => rw [depthO]; rfl

theorem dagO_fold (t : Term) : dagO t = (fun (n : Term) rs => n :: rs.flatten) t (t.args.map dagO) := by
  cases t with
  | node op args p => rw [dagO]; rfl

/-! ### the overriding walkers as instances of the graph constructors -/

/-- `PolarityCNFizer._get_children` on keys `(formula, polarity)`: negation flips the polarity, implication flips
    it for the antecedent, `iff` and the condition of `ite` are visited with both polarities, theory atoms are leaves -/
def polChildren : Bool × Term → List (Bool × Term)
  | (pol, .node .not [a] _) => [(!pol, a)]
  | (pol, .node .implies [a, b] _) => [(!pol, a), (pol, b)]
  | (pol, .node .iff [a, b] _) => [(pol, a), (pol, b), (!pol, a), (!pol, b)]
  | (pol, .node .and args _) => args.map (fun a => (pol, a))
  | (pol, .node .or args _) => args.map (fun a => (pol, a))
  | (pol, .node .ite [i, t, e] _) => [(pol, i), (!pol, i), (pol, t), (pol, e)]
  | _ => []

theorem polChildren_args (k : Bool × Term) (c : Bool × Term) (h : c ∈ polChildren k) : c.2 ∈ k.2.args := by
  obtain ⟨pol, t⟩ := k
  cases t with
  | node op args p =>
    unfold polChildren at h
    split at h <;> simp_all [Term.args] <;> (try rcases h with rfl | rfl | rfl | rfl <;> simp) <;>
      (try rcases h with rfl | rfl <;> simp) <;> (try (obtain ⟨a, ha, rfl⟩ := h; exact ha))

/-- the key space of the polarity CNF-izer: `Graph.tagged` (keys `(pol, formula)`) with `Graph.withChildren` -/
def polGraph : Graph (Bool × Term) :=
  (termGraph.tagged Bool).withChildren polChildren (by
    intro n c h
    have := polChildren_args n c h
    have := termGraph.acyclic n.2 c.2 this
    simpa [Graph.tagged] using this)

/-! ### the named instances: oracles -/

section named
variable {M E : Type}

/-- **freevars_walk_eq**: `FreeVarsOracle.walk` (memo kept, keyed by the formula) computes the recursive `fvO`. -/
theorem freevars_walk_eq [MemoLike M Term (List Sym)] [LawfulMemo M Term (List Sym)]
    (inval shortcut : Bool) (fuel : Nat) (t : Term) (s : WState M Term)
    (hi : FoldIdle (fun _ => false) fvO s) (hfuel : dagBound t ≤ fuel) :
    let r := walk termGraph (fun _ => false)
      (fun _ => cbOf (E := E) (fun n rs => fvNode n.op n.payload rs)) inval shortcut fuel t s
    r.1 = .ok (fvO t) ∧
    (∃ new, r.2.trace = new ++ s.trace ∧ new.Nodup ∧
        (∀ x, x ∈ new ↔ (x ∈ t.subterms ∧ look s.memo x = none)) ∧ r.2.calls = s.calls + new.length) ∧
    (r.2.iters ≤ s.iters + dagBound t ∧ r.2.pushes ≤ s.pushes + dagBound t) ∧
    FoldIdle (fun _ => false) fvO r.2 :=
  walk_eq_fold _ fvO fvO_fold inval shortcut fuel t s hi hfuel

/-- the same walk with the callbacks of the reference definition computes `Term.fv` -/
theorem termfv_walk_eq [MemoLike M Term (List Sym)] [LawfulMemo M Term (List Sym)]
    (inval shortcut : Bool) (fuel : Nat) (t : Term) (s : WState M Term)
    (hi : FoldIdle (fun _ => false) Term.fv s) (hfuel : dagBound t ≤ fuel) :
    let r := walk termGraph (fun _ => false) (fun _ => cbOf (E := E) fvCoreNode) inval shortcut fuel t s
    r.1 = .ok t.fv ∧
    (∃ new, r.2.trace = new ++ s.trace ∧ new.Nodup ∧
        (∀ x, x ∈ new ↔ (x ∈ t.subterms ∧ look s.memo x = none)) ∧ r.2.calls = s.calls + new.length) ∧
    (r.2.iters ≤ s.iters + dagBound t ∧ r.2.pushes ≤ s.pushes + dagBound t) ∧
    FoldIdle (fun _ => false) Term.fv r.2 :=
  walk_eq_fold _ Term.fv termfv_fold inval shortcut fuel t s hi hfuel

/-- **size_tree_walk_eq**: the walk with `walk_count_tree` computes the tree size `treeO` -- an exponentially large
    number on a diamond chain -- with one callback per distinct sub-term. -/
theorem size_tree_walk_eq [MemoLike M Term Nat] [LawfulMemo M Term Nat]
    (inval shortcut : Bool) (fuel : Nat) (t : Term) (s : WState M Term)
    (hi : FoldIdle (fun _ => false) treeO s) (hfuel : dagBound t ≤ fuel) :
    let r := walk termGraph (fun _ => false)
      (fun _ => cbOf (E := E) (fun (_ : Term) rs => 1 + rs.sum)) inval shortcut fuel t s
    r.1 = .ok (treeO t) ∧
    (∃ new, r.2.trace = new ++ s.trace ∧ new.Nodup ∧
        (∀ x, x ∈ new ↔ (x ∈ t.subterms ∧ look s.memo x = none)) ∧ r.2.calls = s.calls + new.length) ∧
    (r.2.iters ≤ s.iters + dagBound t ∧ r.2.pushes ≤ s.pushes + dagBound t) ∧
    FoldIdle (fun _ => false) treeO r.2 :=
  walk_eq_fold _ treeO treeO_fold inval shortcut fuel t s hi hfuel

/-- `walk_count_dag`: the walk computes the list `dagO` whose distinct members `get_size` counts -/
theorem size_dag_walk_eq [MemoLike M Term (List Term)] [LawfulMemo M Term (List Term)]
    (inval shortcut : Bool) (fuel : Nat) (t : Term) (s : WState M Term)
    (hi : FoldIdle (fun _ => false) dagO s) (hfuel : dagBound t ≤ fuel) :
    (walk termGraph (fun _ => false)
      (fun _ => cbOf (E := E) (fun (n : Term) rs => n :: rs.flatten)) inval shortcut fuel t s).1 = .ok (dagO t) :=
  (walk_eq_fold _ dagO dagO_fold inval shortcut fuel t s hi hfuel).1

/-- the Nat-valued measures of `SizeOracle` -/
inductive NatMeasure | tree | leaves | depth
  deriving DecidableEq

def natSizeNode : NatMeasure → Term → List Nat → Nat
  | .tree, _, rs => 1 + rs.sum
  | .leaves, n, rs => (if n.args.isEmpty then 1 else 0) + rs.sum
  | .depth, n, rs => 1 + (if n.args.isEmpty then 0 else maxList rs)

def natSize : NatMeasure → Term → Nat
  | .tree => treeO
  | .leaves => leavesO
  | .depth => depthO

theorem natSize_fold (m : NatMeasure) (t : Term) : natSize m t = natSizeNode m t (t.args.map (natSize m)) := by
  cases t with
  | node op args p =>
    cases m
    · show treeO _ = _; rw [treeO]; rfl
    · show leavesO _ = _; rw [leavesO]; rfl
    · show depthO _ = _; rw [depthO]; rfl

/-- **size_walk_eq_tagged**: `SizeOracle` proper -- keys `(measure, formula)`, one memo for all measures, the
    `formula in memo` shortcut never hits --: whatever was memoised before, for this measure or another one, the walk
    for measure `m` returns the recursive `natSize m t`. -/
theorem size_walk_eq_tagged [MemoLike M (NatMeasure × Term) Nat] [LawfulMemo M (NatMeasure × Term) Nat]
    (inval : Bool) (fuel : Nat) (m : NatMeasure) (t : Term) (s : WState M (NatMeasure × Term))
    (hi : Idle (termGraph.tagged NatMeasure) (fun _ => false)
            (fun (k : NatMeasure × Term) rs => (.ok (natSizeNode k.1 k.2 rs) : Except E Nat)) s)
    (V : List (NatMeasure × Term)) (hV : Covers (termGraph.tagged NatMeasure) (fun _ => false) (m, t) V)
    (hfuel : 2 * cost (termGraph.tagged NatMeasure) V + 2 ≤ fuel) :
    (walk (termGraph.tagged NatMeasure) (fun _ => false)
      (fun _ (k : NatMeasure × Term) rs => (.ok (natSizeNode k.1 k.2 rs) : Except E Nat)) inval false fuel (m, t) s).1
      = .ok (natSize m t) := by
  have h := size_measure_indep termGraph (fun _ => false)
    (fun (k : NatMeasure × Term) rs => (.ok (natSizeNode k.1 k.2 rs) : Except E Nat)) inval fuel m t s hi V hV hfuel
  rw [h]
  have hF : ∀ t, natSize m t = if (fun _ => false) t then natSizeNode m t [] else natSizeNode m t (t.args.map (natSize m)) := by
    intro t; simp [natSize_fold m t]
  have := spec_eq_fold (E := E) (fun _ => false) (natSizeNode m) (natSize m) hF (t.size + 1) t (Nat.lt_succ_self _)
  unfold cbOf at this
  rw [this]; rfl

end named

end PySMT.Walker
