import PySMT.Proofs.C10PrenexSem
/-!
# C10 — `prenex_normal_form` returns an equivalent formula when no bound variable has to be
renamed (`prenex_equiv_partial`)
-/
namespace PySMT.Rewritings

/-! ## "no variable of the blocks is reserved" -/

def noClash : List QBlock → List Sym → Bool
  | [], _ => true
  | (_, vs) :: rest, res => vs.all (fun v => !res.contains v) && noClash rest (res ++ vs)

def noClashArgs : List (List QBlock × Term) → List Sym → Bool
  | [], _ => true
  | (qs, _) :: rest, res => noClash qs res && noClashArgs rest (res ++ boundOf qs)

theorem boundOf_cons (q : Bool) (vs : List Sym) (rest : List QBlock) :
    boundOf ((q, vs) :: rest) = vs ++ boundOf rest := rfl

theorem noClash_not_mem : ∀ (qs : List QBlock) (res : List Sym), noClash qs res = true →
    ∀ s ∈ boundOf qs, s ∉ res
  | [], _, _, s, hs => by simp [boundOf] at hs
  | (q, vs) :: rest, res, h, s, hs => by
    simp only [noClash, Bool.and_eq_true, List.all_eq_true, Bool.not_eq_eq_eq_not, Bool.not_true] at h
    rw [boundOf_cons, List.mem_append] at hs
    rcases hs with hs | hs
    · have := h.1 s hs
      simpa using this
    · have := noClash_not_mem rest _ h.2 s hs
      intro hm
      exact this (List.mem_append_left _ hm)

theorem noClashArgs_not_mem : ∀ (as : List (List QBlock × Term)) (res : List Sym), noClashArgs as res = true →
    ∀ r ∈ as, ∀ s ∈ boundOf r.1, s ∉ res
  | [], _, _, r, hr => by cases hr
  | (qs, m) :: rest, res, h, r, hr => by
    simp only [noClashArgs, Bool.and_eq_true] at h
    simp only [List.mem_cons] at hr
    rcases hr with rfl | hr
    · exact noClash_not_mem qs res h.1
    · intro s hs hm
      exact noClashArgs_not_mem rest _ h.2 r hr s hs (List.mem_append_left _ hm)

theorem mem_boundOf_flatMap {as : List (List QBlock × Term)} {s : Sym} :
    s ∈ boundOf (as.flatMap (·.1)) ↔ ∃ r ∈ as, s ∈ boundOf r.1 := by
  simp only [boundOf, List.mem_flatten, List.mem_map, List.mem_flatMap]
  constructor
  · rintro ⟨_, ⟨blk, ⟨r, hr, hb⟩, rfl⟩, hs⟩
    exact ⟨r, hr, _, ⟨blk, hb, rfl⟩, hs⟩
  · rintro ⟨r, hr, _, ⟨blk, hb, rfl⟩, hs⟩
    exact ⟨_, ⟨blk, ⟨r, hr, hb⟩, rfl⟩, hs⟩

/-! ## merging without renaming -/

theorem filter_eq_nil_of {α} {p : α → Bool} {l : List α} (h : ∀ a ∈ l, p a = false) : l.filter p = [] := by
  rw [List.filter_eq_nil_iff]
  intro a ha; simp [h a ha]

theorem mergeBlocks_nc (fresh : Nat → String) : ∀ (qs : List QBlock) (res : List Sym) (m : Term) (n : Nat),
    noClash qs res = true → mergeBlocks fresh qs res m n = (qs, res ++ boundOf qs, m, n)
  | [], res, m, n, _ => by simp [mergeBlocks, boundOf]
  | (q, vs) :: rest, res, m, n, h => by
    simp only [noClash, Bool.and_eq_true, List.all_eq_true, Bool.not_eq_eq_eq_not, Bool.not_true] at h
    have hc : vs.filter (fun v => res.contains v) = [] := filter_eq_nil_of h.1
    have hk : vs.filter (fun v => !res.contains v) = vs := by
      rw [List.filter_eq_self]
      intro a ha; have := h.1 a ha; simpa using this
    simp only [mergeBlocks, hc, hk, List.zipIdx_nil, List.map_nil, List.isEmpty_nil, if_true, List.append_nil,
      List.length_nil, Nat.add_zero]
    rw [mergeBlocks_nc fresh rest _ m n h.2, boundOf_cons, List.append_assoc]

theorem mergeArgs_nc (fresh : Nat → String) : ∀ (as : List (List QBlock × Term)) (res : List Sym) (n : Nat),
    noClashArgs as res = true → mergeArgs fresh as res n = (as.flatMap (·.1), as.map (·.2), n)
  | [], _, _, _ => by simp [mergeArgs]
  | (qs, m) :: rest, res, n, h => by
    simp only [noClashArgs, Bool.and_eq_true] at h
    simp only [mergeArgs, mergeBlocks_nc fresh qs res m n h.1, mergeArgs_nc fresh rest _ n h.2,
      List.flatMap_cons, List.map_cons]

theorem conjDisj_nc (fresh : Nat → String) (isAnd : Bool) (fvs : List Sym) (as : List (List QBlock × Term))
    (n : Nat) (h : noClashArgs as fvs = true) :
    conjDisj fresh isAnd fvs as n =
      ((as.flatMap (·.1), if isAnd then mkAnd (as.map (·.2)) else mkOr (as.map (·.2))), n) := by
  simp only [conjDisj, mergeArgs_nc fresh as fvs n h]

/-! ## the supply counter: it never decreases, and it stays put only if nothing clashed -/

theorem mergeBlocks_le (fresh : Nat → String) : ∀ (qs : List QBlock) (res : List Sym) (m : Term) (n : Nat),
    n ≤ (mergeBlocks fresh qs res m n).2.2.2
  | [], _, _, _ => Nat.le_refl _
  | (q, vs) :: rest, res, m, n => by
    simp only [mergeBlocks]
    exact Nat.le_trans (Nat.le_add_right _ _) (mergeBlocks_le fresh rest _ _ _)

theorem mergeBlocks_eq (fresh : Nat → String) : ∀ (qs : List QBlock) (res : List Sym) (m : Term) (n : Nat),
    (mergeBlocks fresh qs res m n).2.2.2 = n → noClash qs res = true
  | [], _, _, _, _ => rfl
  | (q, vs) :: rest, res, m, n, h => by
    simp only [mergeBlocks] at h
    have hle := mergeBlocks_le fresh rest
      (res ++ (vs.filter (fun v => !res.contains v) ++
        ((vs.filter (fun v => res.contains v)).zipIdx.map
          (fun vi => (vi.1, Sym.var (fresh (n + vi.2)) vi.1.ret))).map (·.2)))
      (if (vs.filter (fun v => res.contains v)).isEmpty then m
       else substT (((vs.filter (fun v => res.contains v)).zipIdx.map
          (fun vi => (vi.1, Sym.var (fresh (n + vi.2)) vi.1.ret))).map
            (fun vw => (Term.sym vw.1, Term.sym vw.2))) m)
      (n + (vs.filter (fun v => res.contains v)).length)
    have hlen : (vs.filter (fun v => res.contains v)).length = 0 := by omega
    have hc : vs.filter (fun v => res.contains v) = [] := List.eq_nil_of_length_eq_zero hlen
    have hall : ∀ v ∈ vs, res.contains v = false := by
      intro v hv
      cases hcv : res.contains v with
      | false => rfl
      | true =>
        have : v ∈ vs.filter (fun v => res.contains v) := List.mem_filter.mpr ⟨hv, hcv⟩
        rw [hc] at this; cases this
    have hk : vs.filter (fun v => !res.contains v) = vs := by
      rw [List.filter_eq_self]
      intro a ha; have := hall a ha; simpa using this
    simp only [hc, hk, List.zipIdx_nil, List.map_nil, List.isEmpty_nil, if_true, List.append_nil,
      List.length_nil, Nat.add_zero] at h
    simp only [noClash, Bool.and_eq_true, List.all_eq_true, Bool.not_eq_eq_eq_not, Bool.not_true]
    exact ⟨hall, mergeBlocks_eq fresh rest _ m n h⟩

theorem mergeArgs_le (fresh : Nat → String) : ∀ (as : List (List QBlock × Term)) (res : List Sym) (n : Nat),
    n ≤ (mergeArgs fresh as res n).2.2
  | [], _, _ => Nat.le_refl _
  | (qs, m) :: rest, res, n => by
    simp only [mergeArgs]
    exact Nat.le_trans (mergeBlocks_le fresh qs res m n) (mergeArgs_le fresh rest _ _)

theorem mergeArgs_eq (fresh : Nat → String) : ∀ (as : List (List QBlock × Term)) (res : List Sym) (n : Nat),
    (mergeArgs fresh as res n).2.2 = n → noClashArgs as res = true
  | [], _, _, _ => rfl
  | (qs, m) :: rest, res, n, h => by
    simp only [mergeArgs] at h
    have h1 := mergeBlocks_le fresh qs res m n
    have h2 := mergeArgs_le fresh rest (mergeBlocks fresh qs res m n).2.1 (mergeBlocks fresh qs res m n).2.2.2
    have e1 : (mergeBlocks fresh qs res m n).2.2.2 = n := by omega
    have hnc := mergeBlocks_eq fresh qs res m n e1
    rw [mergeBlocks_nc fresh qs res m n hnc] at h
    simp only [noClashArgs, Bool.and_eq_true]
    exact ⟨hnc, mergeArgs_eq fresh rest _ n h⟩

theorem conjDisj_le (fresh : Nat → String) (isAnd : Bool) (fvs : List Sym) (as : List (List QBlock × Term))
    (n : Nat) : n ≤ (conjDisj fresh isAnd fvs as n).2 := mergeArgs_le fresh as fvs n

theorem conjDisj_eq (fresh : Nat → String) (isAnd : Bool) (fvs : List Sym) (as : List (List QBlock × Term))
    (n : Nat) (h : (conjDisj fresh isAnd fvs as n).2 = n) : noClashArgs as fvs = true :=
  mergeArgs_eq fresh as fvs n h

/-! ## the invariant of the walk -/

/-- `r = (blocks, matrix)` is a correct prenex form of `t` -/
structure Good (t : Term) (r : List QBlock × Term) : Prop where
  wb : WB r.2
  sem : ∀ I : Interp, I.WF → qsem r.1 (fun J => truth J r.2) I = truth I t
  fv : ∀ s ∈ r.2.fv, s ∈ t.fv ∨ s ∈ boundOf r.1

/-- pointwise relation of two lists -/
inductive All2 {α β : Type} (R : α → β → Prop) : List α → List β → Prop
  | nil : All2 R [] []
  | cons {a b l1 l2} : R a b → All2 R l1 l2 → All2 R (a :: l1) (b :: l2)

theorem All2.mem_right {α β : Type} {R : α → β → Prop} {l1 : List α} {l2 : List β} (h : All2 R l1 l2) :
    ∀ b ∈ l2, ∃ a ∈ l1, R a b := by
  induction h with
  | nil => intro b hb; cases hb
  | @cons a b' l1 l2 hab _ ih =>
    intro b hb
    simp only [List.mem_cons] at hb
    rcases hb with rfl | hb
    · exact ⟨a, by simp, hab⟩
    · obtain ⟨a', ha', h'⟩ := ih b hb
      exact ⟨a', by simp [ha'], h'⟩

/-- n-ary conjunction / disjunction of truth values -/
def lbop (c : Bool) (l : List Bool) : Bool := if c then l.all id else l.any id

theorem lbop_cons (c x : Bool) (l : List Bool) : lbop c (x :: l) = bop c x (lbop c l) := by
  cases c <;> simp [lbop, bop]

theorem indep_lbop (c : Bool) {V : List Sym} {ms : List Term} (h : ∀ m ∈ ms, Indep V (fun J => truth J m)) :
    Indep V (fun J => lbop c (ms.map (truth J))) := by
  intro J s v hJ hm hv
  simp only
  congr 1
  exact List.map_congr_left (fun m hmm => h m hmm J s v hJ hm hv)

/-- the core of `walk_conj_disj` when nothing is renamed -/
theorem merge_sem (c : Bool) {args : List Term} {as : List (List QBlock × Term)} (hg : All2 Good args as) :
    ∀ res : List Sym, (∀ a ∈ args, ∀ s ∈ a.fv, s ∈ res) → noClashArgs as res = true →
    ∀ I : Interp, I.WF →
      qsem (as.flatMap (·.1)) (fun J => lbop c ((as.map (·.2)).map (truth J))) I = lbop c (args.map (truth I)) := by
  induction hg with
  | nil => intro _ _ _ _ _; rfl
  | @cons a1 r1 args' as' hg1 hg' ih =>
    intro res hfv hnc I hI
    obtain ⟨qs1, m1⟩ := r1
    simp only [noClashArgs, Bool.and_eq_true] at hnc
    have nc1 := noClash_not_mem qs1 res hnc.1
    have nc2 := noClashArgs_not_mem as' _ hnc.2
    -- the other matrices do not mention the variables of the first prefix
    have hind1 : Indep (boundOf qs1) (fun J => lbop c ((as'.map (·.2)).map (truth J))) := by
      apply indep_lbop
      intro m hm
      obtain ⟨r, hr, rfl⟩ := List.mem_map.mp hm
      apply indep_truth
      intro s hs hsm
      obtain ⟨aj, haj, hgj⟩ := hg'.mem_right r hr
      rcases hgj.fv s hsm with h1 | h1
      · exact nc1 s hs (hfv aj (by simp [haj]) s h1)
      · exact nc2 r hr s h1 (List.mem_append_right _ hs)
    -- the first argument does not mention the variables of the other prefixes
    have hind2 : Indep (boundOf (as'.flatMap (·.1))) (fun J => truth J a1) := by
      apply indep_truth
      intro s hs hsa
      obtain ⟨r, hr, hsr⟩ := mem_boundOf_flatMap.mp hs
      exact nc2 r hr s hsr (List.mem_append_left _ (hfv a1 (by simp) s hsa))
    simp only [List.flatMap_cons, List.map_cons, lbop_cons, qsem_append]
    rw [qsem_congr_wf (as'.flatMap (·.1)) _
      (fun J => bop c (truth J a1) (lbop c ((as'.map (·.2)).map (truth J))))
      (fun J hJ => by rw [qsem_pull c qs1 _ J hJ hind1, hg1.sem J hJ]) I hI]
    rw [qsem_pull_left c _ _ I hI hind2]
    congr 1
    exact ih _ (fun a ha s hs => List.mem_append_left _ (hfv a (by simp [ha]) s hs)) hnc.2 I hI

theorem fv_tt : Term.tt.fv = [] := by rw [Term.tt, fv_node_plain _ _ _ (by decide) (by decide) (by decide)]; rfl
theorem fv_ff : Term.ff.fv = [] := by rw [Term.ff, fv_node_plain _ _ _ (by decide) (by decide) (by decide)]; rfl

theorem fv_mkAnd_sub {ms : List Term} {s : Sym} (h : s ∈ (mkAnd ms).fv) : ∃ m ∈ ms, s ∈ m.fv := by
  match ms, h with
  | [], h => rw [show mkAnd [] = Term.tt from rfl, fv_tt] at h; cases h
  | [a], h => exact ⟨a, by simp, h⟩
  | a :: b :: rest, h =>
    rw [show mkAnd (a :: b :: rest) = .node .and (a :: b :: rest) .none from rfl,
      fv_node_plain _ _ _ (by decide) (by decide) (by decide)] at h
    simp only [List.mem_flatten, List.mem_map] at h
    obtain ⟨_, ⟨m, hm, rfl⟩, hs⟩ := h
    exact ⟨m, hm, hs⟩

theorem fv_mkOr_sub {ms : List Term} {s : Sym} (h : s ∈ (mkOr ms).fv) : ∃ m ∈ ms, s ∈ m.fv := by
  match ms, h with
  | [], h => rw [show mkOr [] = Term.ff from rfl, fv_ff] at h; cases h
  | [a], h => exact ⟨a, by simp, h⟩
  | a :: b :: rest, h =>
    rw [show mkOr (a :: b :: rest) = .node .or (a :: b :: rest) .none from rfl,
      fv_node_plain _ _ _ (by decide) (by decide) (by decide)] at h
    simp only [List.mem_flatten, List.mem_map] at h
    obtain ⟨_, ⟨m, hm, rfl⟩, hs⟩ := h
    exact ⟨m, hm, hs⟩

theorem forall2_wb {args : List Term} {as : List (List QBlock × Term)} (h : All2 Good args as) :
    ∀ m ∈ as.map (·.2), WB m := by
  induction h with
  | nil => intro m hm; cases hm
  | @cons a b l1 l2 hab _ ih =>
    intro m hm
    simp only [List.map_cons, List.mem_cons] at hm
    rcases hm with rfl | hm
    · exact hab.wb
    · exact ih m hm

theorem forall2_fv {args : List Term} {as : List (List QBlock × Term)} (h : All2 Good args as) :
    ∀ r ∈ as, ∀ s ∈ r.2.fv, (∃ a ∈ args, s ∈ a.fv) ∨ s ∈ boundOf r.1 := by
  induction h with
  | nil => intro r hr; cases hr
  | @cons a b l1 l2 hab _ ih =>
    intro r hr s hs
    simp only [List.mem_cons] at hr
    rcases hr with rfl | hr
    · rcases hab.fv s hs with h1 | h1
      · exact .inl ⟨a, by simp, h1⟩
      · exact .inr h1
    · rcases ih r hr s hs with ⟨a', ha', h1⟩ | h1
      · exact .inl ⟨a', by simp [ha'], h1⟩
      · exact .inr h1

/-- `walk_conj_disj` without renaming: the merged prefix over the conjunction / disjunction
of the matrices denotes the conjunction / disjunction of the arguments -/
theorem merge_good (c : Bool) {args : List Term} {as : List (List QBlock × Term)} {fvs : List Sym}
    (hg : All2 Good args as) (hfv : ∀ a ∈ args, ∀ s ∈ a.fv, s ∈ fvs) (hnc : noClashArgs as fvs = true) :
    WB (if c then mkAnd (as.map (·.2)) else mkOr (as.map (·.2))) ∧
    (∀ I : Interp, I.WF →
      qsem (as.flatMap (·.1)) (fun J => truth J (if c then mkAnd (as.map (·.2)) else mkOr (as.map (·.2)))) I =
        lbop c (args.map (truth I))) ∧
    (∀ s ∈ (if c then mkAnd (as.map (·.2)) else mkOr (as.map (·.2))).fv,
      (∃ a ∈ args, s ∈ a.fv) ∨ s ∈ boundOf (as.flatMap (·.1))) := by
  have hwb := forall2_wb hg
  have hM : ∀ J : Interp, J.WF →
      truth J (if c then mkAnd (as.map (·.2)) else mkOr (as.map (·.2))) = lbop c ((as.map (·.2)).map (truth J)) := by
    intro J hJ
    cases c
    · simp only [Bool.false_eq_true, if_false, lbop]
      rw [truth_of_eval (eval_mkOr hJ hwb)]
      simp [List.any_map]
    · simp only [if_true, lbop]
      rw [truth_of_eval (eval_mkAnd hJ hwb)]
      simp [List.all_map]
  have hwbM : WB (if c then mkAnd (as.map (·.2)) else mkOr (as.map (·.2))) := by
    cases c
    · simp only [Bool.false_eq_true, if_false]; exact wb_mkOr hwb
    · simp only [if_true]; exact wb_mkAnd hwb
  refine ⟨hwbM, fun I hI => ?_, fun s hs => ?_⟩
  · rw [qsem_congr_wf _ _ _ hM I hI]
    exact merge_sem c hg fvs hfv hnc I hI
  · have : ∃ m ∈ as.map (·.2), s ∈ m.fv := by
      cases c
      · simp only [Bool.false_eq_true, if_false] at hs; exact fv_mkOr_sub hs
      · simp only [if_true] at hs; exact fv_mkAnd_sub hs
    obtain ⟨m, hm, hsm⟩ := this
    obtain ⟨r, hr, rfl⟩ := List.mem_map.mp hm
    rcases forall2_fv hg r hr s hsm with h1 | h1
    · exact .inl h1
    · exact .inr (mem_boundOf_flatMap.mpr ⟨r, hr, h1⟩)

/-! ## the walker's rules, one by one -/

theorem good_atom {t : Term} (h : WB t) : Good t ([], t) :=
  ⟨h, fun _ _ => rfl, fun _ hs => .inl hs⟩

theorem fv_not (a : Term) (p : Payload) (s : Sym) : s ∈ (Term.node .not [a] p).fv ↔ s ∈ a.fv := by
  rw [fv_node_plain _ _ _ (by decide) (by decide) (by decide)]
  simp

theorem fv_mkNot_sub {m : Term} {s : Sym} (h : s ∈ (mkNot m).fv) : s ∈ m.fv := by
  rcases mkNot_cases m with ⟨a, p, rfl, h2⟩ | h2
  · rw [h2] at h; exact (fv_not a p s).mpr h
  · rw [h2] at h; exact (fv_not m .none s).mp h

theorem prenexNot_eq (r : List QBlock × Term) : prenexNot r = (flipBlocks r.1, mkNot r.2) := rfl

theorem good_not {t : Term} {r : List QBlock × Term} (p : Payload) (h : Good t r) :
    Good (.node .not [t] p) (prenexNot r) := by
  rw [prenexNot_eq]
  refine ⟨wb_mkNot h.wb, fun I hI => ?_, fun s hs => ?_⟩
  · simp only
    rw [qsem_congr_wf _ _ (fun J => !truth J r.2) (fun J hJ => truth_of_eval (eval_mkNot hJ h.wb)) I hI,
      ← qsem_not, h.sem I hI, truth_not]
  · simp only at hs ⊢
    rw [boundOf_flip]
    rcases h.fv s (fv_mkNot_sub hs) with h1 | h1
    · exact .inl ((fv_not t p s).mpr h1)
    · exact .inr h1

theorem mem_fv_of_child {op : Op} (h1 : op ≠ .symbol) (h2 : op ≠ .function) (h3 : op.isQuantifier = false)
    {args : List Term} {p : Payload} {a : Term} (ha : a ∈ args) {s : Sym} (hs : s ∈ a.fv) :
    s ∈ (Term.node op args p).fv := by
  rw [fv_node_plain _ _ _ h1 h2 h3]
  simp only [List.mem_flatten, List.mem_map]
  exact ⟨_, ⟨a, ha, rfl⟩, hs⟩

/-- `walk_conj_disj` on an `And` / `Or` node -/
theorem good_conj (c : Bool) {args : List Term} {p : Payload} {as : List (List QBlock × Term)}
    (hg : All2 Good args as)
    (hnc : noClashArgs as (Term.node (if c then .and else .or) args p).fv = true) :
    Good (.node (if c then .and else .or) args p)
      (as.flatMap (·.1), if c then mkAnd (as.map (·.2)) else mkOr (as.map (·.2))) := by
  have hop : (if c then Op.and else Op.or) ≠ .symbol ∧ (if c then Op.and else Op.or) ≠ .function ∧
      (if c then Op.and else Op.or).isQuantifier = false := by cases c <;> decide
  have hfv : ∀ a ∈ args, ∀ s ∈ a.fv, s ∈ (Term.node (if c then .and else .or) args p).fv :=
    fun a ha s hs => mem_fv_of_child hop.1 hop.2.1 hop.2.2 ha hs
  obtain ⟨h1, h2, h3⟩ := merge_good c hg hfv hnc
  refine ⟨h1, fun I hI => ?_, fun s hs => ?_⟩
  · rw [h2 I hI]
    cases c
    · simp only [Bool.false_eq_true, if_false, lbop, truth_or, List.any_map]; rfl
    · simp only [if_true, lbop, truth_and, List.all_map]; rfl
  · rcases h3 s hs with ⟨a, ha, hsa⟩ | h
    · exact .inl (hfv a ha s hsa)
    · exact .inr h

theorem fv_binary {op : Op} (h1 : op ≠ .symbol) (h2 : op ≠ .function) (h3 : op.isQuantifier = false)
    (a b : Term) (p : Payload) (s : Sym) : s ∈ (Term.node op [a, b] p).fv ↔ s ∈ a.fv ∨ s ∈ b.fv := by
  rw [fv_node_plain _ _ _ h1 h2 h3]
  simp

theorem all2_pair {α β : Type} {R : α → β → Prop} {a1 a2 : α} {b1 b2 : β} (h1 : R a1 b1) (h2 : R a2 b2) :
    All2 R [a1, a2] [b1, b2] := .cons h1 (.cons h2 .nil)

/-- `walk_implies` -/
theorem good_implies (fresh : Nat → String) {a b : Term} {ra rb : List QBlock × Term} (n : Nat) (p : Payload)
    {fvs : List Sym} (hfa : ∀ s ∈ a.fv, s ∈ fvs) (hfb : ∀ s ∈ b.fv, s ∈ fvs)
    (ha : Good a ra) (hb : Good b rb) (hn : (prenexImplies fresh fvs ra rb n).2 = n) :
    Good (.node .implies [a, b] p) (prenexImplies fresh fvs ra rb n).1 := by
  have hnc := conjDisj_eq fresh false fvs [prenexNot ra, rb] n hn
  have hg : All2 Good [Term.node .not [a] .none, b] [prenexNot ra, rb] := all2_pair (good_not .none ha) hb
  have hfv : ∀ x ∈ [Term.node .not [a] .none, b], ∀ s ∈ x.fv, s ∈ fvs := by
    intro x hx s hs
    simp only [List.mem_cons, List.not_mem_nil, or_false] at hx
    rcases hx with rfl | rfl
    · exact hfa s ((fv_not a .none s).mp hs)
    · exact hfb s hs
  obtain ⟨h1, h2, h3⟩ := merge_good false hg hfv hnc
  unfold prenexImplies
  rw [conjDisj_nc fresh false fvs _ n hnc]
  refine ⟨h1, fun I hI => ?_, fun s hs => ?_⟩
  · rw [h2 I hI]
    simp only [lbop, Bool.false_eq_true, if_false, List.map_cons, List.map_nil, List.any_cons, List.any_nil,
      truth_not, truth_implies, id, Bool.or_false]
  · rcases h3 s hs with ⟨x, hx, hsx⟩ | h
    · simp only [List.mem_cons, List.not_mem_nil, or_false] at hx
      refine .inl ((fv_binary (by decide) (by decide) rfl a b p s).mpr ?_)
      rcases hx with rfl | rfl
      · exact .inl ((fv_not a .none s).mp hsx)
      · exact .inr hsx
    · exact .inr h

theorem prenexImplies_le (fresh : Nat → String) (fvs : List Sym) (ra rb : List QBlock × Term) (n : Nat) :
    n ≤ (prenexImplies fresh fvs ra rb n).2 := conjDisj_le fresh false fvs _ n

/-- the conjunction of two results (`walk_iff`, `walk_ite`) -/
theorem good_and2 (fresh : Nat → String) {x y : Term} {rx ry : List QBlock × Term} (n : Nat)
    {fvs : List Sym} (hfx : ∀ s ∈ x.fv, s ∈ fvs) (hfy : ∀ s ∈ y.fv, s ∈ fvs)
    (hx : Good x rx) (hy : Good y ry) (hn : (conjDisj fresh true fvs [rx, ry] n).2 = n) :
    WB (conjDisj fresh true fvs [rx, ry] n).1.2 ∧
    (∀ I : Interp, I.WF → qsem (conjDisj fresh true fvs [rx, ry] n).1.1
        (fun J => truth J (conjDisj fresh true fvs [rx, ry] n).1.2) I = (truth I x && truth I y)) ∧
    (∀ s ∈ (conjDisj fresh true fvs [rx, ry] n).1.2.fv,
        (s ∈ x.fv ∨ s ∈ y.fv) ∨ s ∈ boundOf (conjDisj fresh true fvs [rx, ry] n).1.1) := by
  have hnc := conjDisj_eq fresh true fvs [rx, ry] n hn
  have hfv : ∀ t ∈ [x, y], ∀ s ∈ t.fv, s ∈ fvs := by
    intro t ht s hs
    simp only [List.mem_cons, List.not_mem_nil, or_false] at ht
    rcases ht with rfl | rfl
    · exact hfx s hs
    · exact hfy s hs
  obtain ⟨h1, h2, h3⟩ := merge_good true (all2_pair hx hy) hfv hnc
  rw [conjDisj_nc fresh true fvs _ n hnc]
  refine ⟨h1, fun I hI => ?_, fun s hs => ?_⟩
  · rw [h2 I hI]
    simp [lbop]
  · rcases h3 s hs with ⟨t, ht, hst⟩ | h
    · simp only [List.mem_cons, List.not_mem_nil, or_false] at ht
      rcases ht with rfl | rfl
      · exact .inl (.inl hst)
      · exact .inl (.inr hst)
    · exact .inr h

theorem mem_append_left' {s : Sym} {l1 l2 : List Sym} (h : s ∈ l1) : s ∈ l1 ++ l2 := List.mem_append_left _ h
theorem mem_append_right' {s : Sym} {l1 l2 : List Sym} (h : s ∈ l2) : s ∈ l1 ++ l2 := List.mem_append_right _ h

/-- `walk_iff` -/
theorem good_iff (fresh : Nat → String) {a b : Term} {ra rb : List QBlock × Term} (n : Nat) (p : Payload)
    (ha : Good a ra) (hb : Good b rb)
    (hn : (conjDisj fresh true (a.fv ++ b.fv)
        [(prenexImplies fresh (a.fv ++ b.fv) ra rb n).1,
         (prenexImplies fresh (b.fv ++ a.fv) rb ra (prenexImplies fresh (a.fv ++ b.fv) ra rb n).2).1]
        (prenexImplies fresh (b.fv ++ a.fv) rb ra (prenexImplies fresh (a.fv ++ b.fv) ra rb n).2).2).2 = n) :
    Good (.node .iff [a, b] p)
      (conjDisj fresh true (a.fv ++ b.fv)
        [(prenexImplies fresh (a.fv ++ b.fv) ra rb n).1,
         (prenexImplies fresh (b.fv ++ a.fv) rb ra (prenexImplies fresh (a.fv ++ b.fv) ra rb n).2).1]
        (prenexImplies fresh (b.fv ++ a.fv) rb ra (prenexImplies fresh (a.fv ++ b.fv) ra rb n).2).2).1 := by
  have l1 := prenexImplies_le fresh (a.fv ++ b.fv) ra rb n
  have l2 := prenexImplies_le fresh (b.fv ++ a.fv) rb ra (prenexImplies fresh (a.fv ++ b.fv) ra rb n).2
  have l3 := conjDisj_le fresh true (a.fv ++ b.fv)
        [(prenexImplies fresh (a.fv ++ b.fv) ra rb n).1,
         (prenexImplies fresh (b.fv ++ a.fv) rb ra (prenexImplies fresh (a.fv ++ b.fv) ra rb n).2).1]
        (prenexImplies fresh (b.fv ++ a.fv) rb ra (prenexImplies fresh (a.fv ++ b.fv) ra rb n).2).2
  have e1 : (prenexImplies fresh (a.fv ++ b.fv) ra rb n).2 = n := by omega
  rw [e1] at l2 l3 hn ⊢
  have e2 : (prenexImplies fresh (b.fv ++ a.fv) rb ra n).2 = n := by omega
  rw [e2] at l3 hn ⊢
  have g1 := good_implies fresh n .none (fun s hs => mem_append_left' hs) (fun s hs => mem_append_right' hs) ha hb e1
  have g2 := good_implies fresh n .none (fun s hs => mem_append_left' hs) (fun s hs => mem_append_right' hs) hb ha e2
  have hfx : ∀ s ∈ (Term.node .implies [a, b] .none).fv, s ∈ a.fv ++ b.fv := by
    intro s hs
    rcases (fv_binary (by decide) (by decide) rfl a b .none s).mp hs with h | h
    · exact mem_append_left' h
    · exact mem_append_right' h
  have hfy : ∀ s ∈ (Term.node .implies [b, a] .none).fv, s ∈ a.fv ++ b.fv := by
    intro s hs
    rcases (fv_binary (by decide) (by decide) rfl b a .none s).mp hs with h | h
    · exact mem_append_right' h
    · exact mem_append_left' h
  obtain ⟨h1, h2, h3⟩ := good_and2 fresh n hfx hfy g1 g2 hn
  refine ⟨h1, fun I hI => ?_, fun s hs => ?_⟩
  · rw [h2 I hI, truth_implies, truth_implies, truth_iff]
    cases truth I a <;> cases truth I b <;> rfl
  · rcases h3 s hs with (h | h) | h
    · refine .inl ((fv_binary (by decide) (by decide) rfl a b p s).mpr ?_)
      exact (fv_binary (by decide) (by decide) rfl a b .none s).mp h
    · refine .inl ((fv_binary (by decide) (by decide) rfl a b p s).mpr ?_)
      exact ((fv_binary (by decide) (by decide) rfl b a .none s).mp h).symm
    · exact .inr h

theorem fv_ite (c a b : Term) (p : Payload) (s : Sym) :
    s ∈ (Term.node .ite [c, a, b] p).fv ↔ s ∈ c.fv ∨ s ∈ a.fv ∨ s ∈ b.fv := by
  rw [fv_node_plain _ _ _ (by decide) (by decide) rfl]
  simp

/-- `walk_ite` -/
theorem good_ite (fresh : Nat → String) {c a b : Term} {rc ra rb : List QBlock × Term} (n : Nat) (p : Payload)
    (hc : Good c rc) (ha : Good a ra) (hb : Good b rb)
    (hn : (conjDisj fresh true (c.fv ++ a.fv ++ b.fv)
        [(prenexImplies fresh (c.fv ++ a.fv) rc ra n).1,
         (prenexImplies fresh (c.fv ++ b.fv) (prenexNot rc) rb (prenexImplies fresh (c.fv ++ a.fv) rc ra n).2).1]
        (prenexImplies fresh (c.fv ++ b.fv) (prenexNot rc) rb (prenexImplies fresh (c.fv ++ a.fv) rc ra n).2).2).2 = n) :
    Good (.node .ite [c, a, b] p)
      (conjDisj fresh true (c.fv ++ a.fv ++ b.fv)
        [(prenexImplies fresh (c.fv ++ a.fv) rc ra n).1,
         (prenexImplies fresh (c.fv ++ b.fv) (prenexNot rc) rb (prenexImplies fresh (c.fv ++ a.fv) rc ra n).2).1]
        (prenexImplies fresh (c.fv ++ b.fv) (prenexNot rc) rb (prenexImplies fresh (c.fv ++ a.fv) rc ra n).2).2).1 := by
  have l1 := prenexImplies_le fresh (c.fv ++ a.fv) rc ra n
  have l2 := prenexImplies_le fresh (c.fv ++ b.fv) (prenexNot rc) rb (prenexImplies fresh (c.fv ++ a.fv) rc ra n).2
  have l3 := conjDisj_le fresh true (c.fv ++ a.fv ++ b.fv)
        [(prenexImplies fresh (c.fv ++ a.fv) rc ra n).1,
         (prenexImplies fresh (c.fv ++ b.fv) (prenexNot rc) rb (prenexImplies fresh (c.fv ++ a.fv) rc ra n).2).1]
        (prenexImplies fresh (c.fv ++ b.fv) (prenexNot rc) rb (prenexImplies fresh (c.fv ++ a.fv) rc ra n).2).2
  have e1 : (prenexImplies fresh (c.fv ++ a.fv) rc ra n).2 = n := by omega
  rw [e1] at l2 l3 hn ⊢
  have e2 : (prenexImplies fresh (c.fv ++ b.fv) (prenexNot rc) rb n).2 = n := by omega
  rw [e2] at l3 hn ⊢
  have g1 := good_implies fresh n .none (fun s hs => mem_append_left' hs) (fun s hs => mem_append_right' hs) hc ha e1
  have hnc : Good (Term.node .not [c] .none) (prenexNot rc) := good_not .none hc
  have g2 := good_implies fresh n .none
    (fun s hs => mem_append_left' ((fv_not c .none s).mp hs)) (fun s hs => mem_append_right' hs) hnc hb e2
  have hfx : ∀ s ∈ (Term.node .implies [c, a] .none).fv, s ∈ c.fv ++ a.fv ++ b.fv := by
    intro s hs
    rcases (fv_binary (by decide) (by decide) rfl c a .none s).mp hs with h | h
    · exact mem_append_left' (mem_append_left' h)
    · exact mem_append_left' (mem_append_right' h)
  have hfy : ∀ s ∈ (Term.node .implies [Term.node .not [c] .none, b] .none).fv, s ∈ c.fv ++ a.fv ++ b.fv := by
    intro s hs
    rcases (fv_binary (by decide) (by decide) rfl _ b .none s).mp hs with h | h
    · exact mem_append_left' (mem_append_left' ((fv_not c .none s).mp h))
    · exact mem_append_right' h
  obtain ⟨h1, h2, h3⟩ := good_and2 fresh n hfx hfy g1 g2 hn
  refine ⟨h1, fun I hI => ?_, fun s hs => ?_⟩
  · rw [h2 I hI, truth_implies, truth_implies, truth_not, truth_ite]
    cases truth I c <;> cases truth I a <;> cases truth I b <;> rfl
  · rcases h3 s hs with (h | h) | h
    · refine .inl ((fv_ite c a b p s).mpr ?_)
      rcases (fv_binary (by decide) (by decide) rfl c a .none s).mp h with h | h
      · exact .inl h
      · exact .inr (.inl h)
    · refine .inl ((fv_ite c a b p s).mpr ?_)
      rcases (fv_binary (by decide) (by decide) rfl _ b .none s).mp h with h | h
      · exact .inl ((fv_not c .none s).mp h)
      · exact .inr (.inr h)
    · exact .inr h

/-! ## binders -/

theorem dedupSyms_mem (x : Sym) : ∀ l : List Sym, x ∈ dedupSyms l → x ∈ l
  | [], h => by simp [dedupSyms] at h
  | y :: ys, h => by
    simp only [dedupSyms, List.mem_cons, List.mem_filter] at h ⊢
    rcases h with h | ⟨h, _⟩
    · exact .inl h
    · exact .inr (dedupSyms_mem x ys h)

theorem dedupSyms_of_nodup : ∀ l : List Sym, nodupB l = true → dedupSyms l = l
  | [], _ => rfl
  | x :: xs, h => by
    simp only [nodupB, Bool.and_eq_true, Bool.not_eq_eq_eq_not, Bool.not_true] at h
    rw [dedupSyms, dedupSyms_of_nodup xs h.2, List.filter_eq_self.mpr]
    intro y hy
    have : y ≠ x := by
      rintro rfl
      have := h.1
      simp [hy] at this
    simpa using this

/-- `walk_quantifier` -/
theorem good_quant (isExists : Bool) {b : Term} {vs : List Sym} {rb : List QBlock × Term} (hb : Good b rb)
    (hnd : nodupB vs = true) :
    Good (.node (if isExists then .exists_ else .forall_) [b] (.qvars vs)) (prenexQuant isExists vs rb) := by
  obtain ⟨qs, m⟩ := rb
  have hK : ∀ I : Interp, I.WF →
      I.quant (!isExists) (vs.filter (fun v => !(boundOf qs).contains v)) (qsem qs (fun J => truth J m)) =
        truth I (.node (if isExists then .exists_ else .forall_) [b] (.qvars vs)) := by
    intro I hI
    rw [← quant_filter (!isExists) (boundOf qs) (fun s hs => inv_qsem qs _ hs) vs I hI,
      quant_congr_wf _ _ (fun J => truth J b) (fun J hJ => hb.sem J hJ) vs I hI]
    cases isExists
    · simp only [Bool.false_eq_true, if_false, Bool.not_false, truth_forall]
    · simp only [if_true, Bool.not_true, truth_exists]
  have hfvq : ∀ s, s ∈ (Term.node (if isExists then Op.exists_ else Op.forall_) [b] (.qvars vs)).fv ↔
      s ∈ b.fv ∧ s ∉ vs := by
    intro s
    cases isExists
    · simp only [Bool.false_eq_true, if_false, fv_forall]
      simp
    · simp only [if_true, fv_exists]
      simp
  have hpq : prenexQuant isExists vs (qs, m) =
      if (vs.filter (fun v => !(boundOf qs).contains v)).isEmpty then (qs, m)
      else (qs ++ [(isExists, vs.filter (fun v => !(boundOf qs).contains v))], m) := by
    simp only [prenexQuant, dedupSyms_of_nodup vs hnd]
  rw [hpq]
  by_cases hemp : (vs.filter (fun v => !(boundOf qs).contains v)).isEmpty = true
  · rw [if_pos hemp]
    have hnil : vs.filter (fun v => !(boundOf qs).contains v) = [] := List.isEmpty_iff.mp hemp
    refine ⟨hb.wb, fun I hI => ?_, fun s hs => ?_⟩
    · have := hK I hI
      rw [hnil] at this
      exact this
    · rcases hb.fv s hs with h | h
      · by_cases hv : s ∈ vs
        · by_cases hbd : s ∈ boundOf qs
          · exact .inr hbd
          · have : s ∈ vs.filter (fun v => !(boundOf qs).contains v) := by
              simp [hv, hbd]
            rw [hnil] at this; cases this
        · exact .inl ((hfvq s).mpr ⟨h, hv⟩)
      · exact .inr h
  · rw [if_neg hemp]
    refine ⟨hb.wb, fun I hI => ?_, fun s hs => ?_⟩
    · simp only [qsem_append, qsem]
      exact hK I hI
    · have hbo : boundOf (qs ++ [(isExists, vs.filter (fun v => !(boundOf qs).contains v))]) =
          boundOf qs ++ vs.filter (fun v => !(boundOf qs).contains v) := by
        simp [boundOf]
      simp only [hbo, List.mem_append, List.mem_filter]
      rcases hb.fv s hs with h | h
      · by_cases hv : s ∈ vs
        · by_cases hbd : s ∈ boundOf qs
          · exact .inr (.inl hbd)
          · exact .inr (.inr ⟨hv, by simpa using hbd⟩)
        · exact .inl ((hfvq s).mpr ⟨h, hv⟩)
      · exact .inr (.inl h)

end PySMT.Rewritings
