import PySMT.Proofs.C10Alpha
/-!
# C10 — `prenex_normal_form`: the invariant of the walk and the merge of clash-free prefixes
-/
namespace PySMT.Rewritings

/-! ## "no variable of the blocks is reserved" -/

def noClash : List QBlock → List Sym → Bool
  | [], _ => true
  | (_, vs) :: rest, res => vs.all (fun v => !res.contains v) && noClash rest (res ++ vs)

def noClashArgs : List (List QBlock × Term) → List Sym → Bool
  | [], _ => true
  | (qs, _) :: rest, res => noClash qs res && noClashArgs rest (res ++ boundOf qs)

theorem boundOf_cons (q : Bool) (vs : List Sym) (rest : List QBlock) :
    boundOf ((q, vs) :: rest) = vs ++ boundOf rest := rfl

theorem noClash_not_mem : ∀ (qs : List QBlock) (res : List Sym), noClash qs res = true →
    ∀ s ∈ boundOf qs, s ∉ res
  | [], _, _, s, hs => by simp [boundOf] at hs
  | (q, vs) :: rest, res, h, s, hs => by
    simp only [noClash, Bool.and_eq_true, List.all_eq_true, Bool.not_eq_eq_eq_not, Bool.not_true] at h
    rw [boundOf_cons, List.mem_append] at hs
    rcases hs with hs | hs
    · have := h.1 s hs
      simpa using this
    · have := noClash_not_mem rest _ h.2 s hs
      intro hm
      exact this (List.mem_append_left _ hm)

theorem noClashArgs_not_mem : ∀ (as : List (List QBlock × Term)) (res : List Sym), noClashArgs as res = true →
    ∀ r ∈ as, ∀ s ∈ boundOf r.1, s ∉ res
  | [], _, _, r, hr => by cases hr
  | (qs, m) :: rest, res, h, r, hr => by
    simp only [noClashArgs, Bool.and_eq_true] at h
    simp only [List.mem_cons] at hr
    rcases hr with rfl | hr
    · exact noClash_not_mem qs res h.1
    · intro s hs hm
      exact noClashArgs_not_mem rest _ h.2 r hr s hs (List.mem_append_left _ hm)

theorem mem_boundOf_flatMap {as : List (List QBlock × Term)} {s : Sym} :
    s ∈ boundOf (as.flatMap (·.1)) ↔ ∃ r ∈ as, s ∈ boundOf r.1 := by
  simp only [boundOf, List.mem_flatten, List.mem_map, List.mem_flatMap]
  constructor
  · rintro ⟨_, ⟨blk, ⟨r, hr, hb⟩, rfl⟩, hs⟩
    exact ⟨r, hr, _, ⟨blk, hb, rfl⟩, hs⟩
  · rintro ⟨r, hr, _, ⟨blk, hb, rfl⟩, hs⟩
    exact ⟨_, ⟨blk, ⟨r, hr, hb⟩, rfl⟩, hs⟩

/-! ## the invariant of the walk -/

/-- `r = (blocks, matrix)` is a correct prenex form of `t` -/
structure Good (t : Term) (r : List QBlock × Term) : Prop where
  wb : WB r.2
  sem : ∀ I : Interp, I.WF → qsem r.1 (fun J => truth J r.2) I = truth I t
  supp : Supp (t.fv ++ boundOf r.1) (fun J => truth J r.2)

/-- pointwise relation of two lists -/
inductive All2 {α β : Type} (R : α → β → Prop) : List α → List β → Prop
  | nil : All2 R [] []
  | cons {a b l1 l2} : R a b → All2 R l1 l2 → All2 R (a :: l1) (b :: l2)

theorem All2.mem_right {α β : Type} {R : α → β → Prop} {l1 : List α} {l2 : List β} (h : All2 R l1 l2) :
    ∀ b ∈ l2, ∃ a ∈ l1, R a b := by
  induction h with
  | nil => intro b hb; cases hb
  | @cons a b' l1 l2 hab _ ih =>
    intro b hb
    simp only [List.mem_cons] at hb
    rcases hb with rfl | hb
    · exact ⟨a, by simp, hab⟩
    · obtain ⟨a', ha', h'⟩ := ih b hb
      exact ⟨a', by simp [ha'], h'⟩

/-- n-ary conjunction / disjunction of truth values -/
def lbop (c : Bool) (l : List Bool) : Bool := if c then l.all id else l.any id

theorem lbop_cons (c x : Bool) (l : List Bool) : lbop c (x :: l) = bop c x (lbop c l) := by
  cases c <;> simp [lbop, bop]

theorem indep_lbop (c : Bool) {V : List Sym} {ms : List Term} (h : ∀ m ∈ ms, Indep V (fun J => truth J m)) :
    Indep V (fun J => lbop c (ms.map (truth J))) := by
  intro J s v hJ hm hv
  simp only
  congr 1
  exact List.map_congr_left (fun m hmm => h m hmm J s v hJ hm hv)

/-- the core of `walk_conj_disj` when nothing is renamed -/
theorem merge_sem (c : Bool) {args : List Term} {as : List (List QBlock × Term)} (hg : All2 Good args as) :
    ∀ res : List Sym, (∀ a ∈ args, ∀ s ∈ a.fv, s ∈ res) → noClashArgs as res = true →
    ∀ I : Interp, I.WF →
      qsem (as.flatMap (·.1)) (fun J => lbop c ((as.map (·.2)).map (truth J))) I = lbop c (args.map (truth I)) := by
  induction hg with
  | nil => intro _ _ _ _ _; rfl
  | @cons a1 r1 args' as' hg1 hg' ih =>
    intro res hfv hnc I hI
    obtain ⟨qs1, m1⟩ := r1
    simp only [noClashArgs, Bool.and_eq_true] at hnc
    have nc1 := noClash_not_mem qs1 res hnc.1
    have nc2 := noClashArgs_not_mem as' _ hnc.2
    -- the other matrices do not mention the variables of the first prefix
    have hind1 : Indep (boundOf qs1) (fun J => lbop c ((as'.map (·.2)).map (truth J))) := by
      apply indep_lbop
      intro m hm
      obtain ⟨r, hr, rfl⟩ := List.mem_map.mp hm
      obtain ⟨aj, haj, hgj⟩ := hg'.mem_right r hr
      apply indep_of_supp hgj.supp
      intro s hs hsm
      rcases List.mem_append.mp hsm with h1 | h1
      · exact nc1 s hs (hfv aj (by simp [haj]) s h1)
      · exact nc2 r hr s h1 (List.mem_append_right _ hs)
    -- the first argument does not mention the variables of the other prefixes
    have hind2 : Indep (boundOf (as'.flatMap (·.1))) (fun J => truth J a1) := by
      apply indep_truth
      intro s hs hsa
      obtain ⟨r, hr, hsr⟩ := mem_boundOf_flatMap.mp hs
      exact nc2 r hr s hsr (List.mem_append_left _ (hfv a1 (by simp) s hsa))
    simp only [List.flatMap_cons, List.map_cons, lbop_cons, qsem_append]
    rw [qsem_congr_wf (as'.flatMap (·.1)) _
      (fun J => bop c (truth J a1) (lbop c ((as'.map (·.2)).map (truth J))))
      (fun J hJ => by rw [qsem_pull c qs1 _ J hJ hind1, hg1.sem J hJ]) I hI]
    rw [qsem_pull_left c _ _ I hI hind2]
    congr 1
    exact ih _ (fun a ha s hs => List.mem_append_left _ (hfv a (by simp [ha]) s hs)) hnc.2 I hI

theorem forall2_wb {args : List Term} {as : List (List QBlock × Term)} (h : All2 Good args as) :
    ∀ m ∈ as.map (·.2), WB m := by
  induction h with
  | nil => intro m hm; cases hm
  | @cons a b l1 l2 hab _ ih =>
    intro m hm
    simp only [List.map_cons, List.mem_cons] at hm
    rcases hm with rfl | hm
    · exact hab.wb
    · exact ih m hm

theorem supp_lbop (c : Bool) {S : List Sym} {ms : List Term} (h : ∀ m ∈ ms, Supp S (fun J => truth J m)) :
    Supp S (fun J => lbop c (ms.map (truth J))) := by
  intro J J' hJ hJ' hsym hfn hd hr hi
  simp only
  congr 1
  exact List.map_congr_left (fun m hm => h m hm J J' hJ hJ' hsym hfn hd hr hi)

/-- `walk_conj_disj` on clash-free prefixes: the merged prefix over the conjunction / disjunction
of the matrices denotes the conjunction / disjunction of the arguments -/
theorem merge_good (c : Bool) {args : List Term} {as : List (List QBlock × Term)} {fvs : List Sym}
    (hg : All2 Good args as) (hfv : ∀ a ∈ args, ∀ s ∈ a.fv, s ∈ fvs) (hnc : noClashArgs as fvs = true) :
    WB (if c then mkAnd (as.map (·.2)) else mkOr (as.map (·.2))) ∧
    (∀ I : Interp, I.WF →
      qsem (as.flatMap (·.1)) (fun J => truth J (if c then mkAnd (as.map (·.2)) else mkOr (as.map (·.2)))) I =
        lbop c (args.map (truth I))) ∧
    Supp (fvs ++ boundOf (as.flatMap (·.1)))
      (fun J => truth J (if c then mkAnd (as.map (·.2)) else mkOr (as.map (·.2)))) := by
  have hwb := forall2_wb hg
  have hM : ∀ J : Interp, J.WF →
      truth J (if c then mkAnd (as.map (·.2)) else mkOr (as.map (·.2))) = lbop c ((as.map (·.2)).map (truth J)) := by
    intro J hJ
    cases c
    · simp only [Bool.false_eq_true, if_false, lbop]
      rw [truth_of_eval (eval_mkOr hJ hwb)]
      simp [List.any_map]
    · simp only [if_true, lbop]
      rw [truth_of_eval (eval_mkAnd hJ hwb)]
      simp [List.all_map]
  have hwbM : WB (if c then mkAnd (as.map (·.2)) else mkOr (as.map (·.2))) := by
    cases c
    · simp only [Bool.false_eq_true, if_false]; exact wb_mkOr hwb
    · simp only [if_true]; exact wb_mkAnd hwb
  refine ⟨hwbM, fun I hI => ?_, ?_⟩
  · rw [qsem_congr_wf _ _ _ hM I hI]
    exact merge_sem c hg fvs hfv hnc I hI
  · apply Supp.congr _ hM
    apply supp_lbop
    intro m hm
    obtain ⟨r, hr, rfl⟩ := List.mem_map.mp hm
    obtain ⟨a, ha, hga⟩ := hg.mem_right r hr
    apply hga.supp.mono
    intro s hs
    rcases List.mem_append.mp hs with h1 | h1
    · exact List.mem_append_left _ (hfv a ha s h1)
    · exact List.mem_append_right _ (mem_boundOf_flatMap.mpr ⟨r, hr, h1⟩)

/-- a clash-free prefix with duplicate-free blocks binds every variable once -/
theorem nodup_of_noClash : ∀ (qs : List QBlock) (res : List Sym), noClash qs res = true →
    (∀ blk ∈ qs, blk.2.Nodup) → (boundOf qs).Nodup
  | [], _, _, _ => by simp [boundOf]
  | (q, vs) :: rest, res, h, hb => by
    simp only [noClash, Bool.and_eq_true] at h
    rw [boundOf_cons, List.nodup_append]
    refine ⟨hb (q, vs) (by simp), nodup_of_noClash rest _ h.2 (fun blk hblk => hb blk (by simp [hblk])), ?_⟩
    intro a ha b hbm e
    subst e
    exact noClash_not_mem rest _ h.2 a hbm (List.mem_append_right _ ha)

theorem nodup_of_noClashArgs : ∀ (as : List (List QBlock × Term)) (res : List Sym), noClashArgs as res = true →
    (∀ r ∈ as, (boundOf r.1).Nodup) → (boundOf (as.flatMap (·.1))).Nodup
  | [], _, _, _ => by simp [boundOf]
  | (qs, m) :: rest, res, h, hb => by
    simp only [noClashArgs, Bool.and_eq_true] at h
    have e : boundOf (((qs, m) :: rest).flatMap (·.1)) = boundOf qs ++ boundOf (rest.flatMap (·.1)) := by
      simp [boundOf]
    rw [e, List.nodup_append]
    refine ⟨hb (qs, m) (by simp), nodup_of_noClashArgs rest _ h.2 (fun r hr => hb r (by simp [hr])), ?_⟩
    intro a ha b hbm e'
    subst e'
    obtain ⟨r, hr, hsr⟩ := mem_boundOf_flatMap.mp hbm
    exact noClashArgs_not_mem rest _ h.2 r hr a hsr (List.mem_append_right _ ha)

end PySMT.Rewritings
