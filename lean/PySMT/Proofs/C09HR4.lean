import PySMT.Proofs.C09HR3
/-!
# C09 (human-readable format): the round-trip theorems

* `hrParse_hrTokens` : `hrParse (hrTokens t) = .ok t` for every term of the fragment `InHRFrag` (every infix application
  binary): the parser model reads the printer model's tokens back to the very same term.
* `hrParse_hrTokens_regroup` : `hrParse (hrTokens t) = .ok (regroup t)` on the larger fragment `InHRFragN` (n-ary
  `And`/`Or`/`Plus`/`Times`): the same term with its n-ary applications grouped to the left.
-/
namespace PySMT.HR.RT
open PySMT PySMT.HR PySMT.Gen.HROps

theorem unaryOf_ne {s c : String} {l : Nat} (h : unaryOf s = some (c, l)) : s ≠ ")" ∧ s ≠ "." := by
  have h1 : unaryOf ")" = none := by decide
  have h2 : unaryOf "." = none := by decide
  constructor <;> (rintro rfl; simp_all)

theorem fnOf_ne {s c : String} (h : fnOf s = some c) : s ≠ ")" ∧ s ≠ "." := by
  have h1 : fnOf ")" = none := by decide
  have h2 : fnOf "." = none := by decide
  constructor <;> (rintro rfl; simp_all)

/-- a constant printed as one token -/
theorem good_const {op : Op} {p : Payload} (hs : shapeOf op = some .const)
    (hnud : ∀ (ex : Ex) (ps : Ps) (pt : Pt) rest, nud ex ps pt (constTok op p) rest = .ok (.node op [] p, rest)) :
    Good (.node op [] p) := by
  apply reads_atom (tok := constTok op p)
  · simp [hrTokens_node, nodeToks, hs]
  · exact hnud

theorem not_contains_quote {s : String} (h : s.toList.contains '"' = false) : escape s = s := by
  unfold escape
  have : ∀ l : List Char, l.contains '"' = false → l.flatMap (fun c => if c = '"' then ['"', '"'] else [c]) = l := by
    intro l
    induction l with
    | nil => intro _; rfl
    | cons c cs ih =>
      intro hc
      simp only [List.contains_cons, Bool.or_eq_false_iff, beq_eq_false_iff_ne, ne_eq] at hc
      have hne : c ≠ '"' := fun e => hc.1 e.symm
      simp only [List.flatMap_cons, hne, ↓reduceIte, List.singleton_append, ih hc.2]
  rw [this _ h, String.ofList_toList]

theorem map_eq0 {f : Term → Term} {l : List Term} (h : [] = l.map f) : l = [] := by
  cases l <;> simp_all
theorem map_eq_cons {f : Term → Term} {l : List Term} {x : Term} {xs : List Term} (h : x :: xs = l.map f) :
    ∃ a as, l = a :: as ∧ x = f a ∧ xs = as.map f := by
  cases l with
  | nil => cases h
  | cons a as => simp only [List.map_cons, List.cons.injEq] at h; exact ⟨a, as, rfl, h.1, h.2⟩
theorem map_eq1 {f : Term → Term} {l : List Term} {x : Term} (h : [x] = l.map f) : ∃ a, l = [a] ∧ x = f a := by
  obtain ⟨a, as, rfl, h1, h2⟩ := map_eq_cons h
  cases map_eq0 h2; exact ⟨a, rfl, h1⟩
theorem map_eq2 {f : Term → Term} {l : List Term} {x y : Term} (h : [x, y] = l.map f) :
    ∃ a b, l = [a, b] ∧ x = f a ∧ y = f b := by
  obtain ⟨a, as, rfl, h1, h2⟩ := map_eq_cons h
  obtain ⟨b, rfl, h3⟩ := map_eq1 h2
  exact ⟨a, b, rfl, h1, h3⟩
theorem map_eq3 {f : Term → Term} {l : List Term} {x y z : Term} (h : [x, y, z] = l.map f) :
    ∃ a b c, l = [a, b, c] ∧ x = f a ∧ y = f b ∧ z = f c := by
  obtain ⟨a, as, rfl, h1, h2⟩ := map_eq_cons h
  obtain ⟨b, c, rfl, h3, h4⟩ := map_eq2 h2
  exact ⟨a, b, c, rfl, h1, h3, h4⟩

/-- what the induction carries for every argument `a`, read as `f a` -/
structure ArgOK (f : Term → Term) (a : Term) : Prop where
  reads : Reads a (f a)
  start : startOK (hrTokens a)
  tight : tight (f a) = tight a
  ty : (f a).typeOf = a.typeOf

/-- one node of the fragment, its arguments `args` being read as `args.map f` -/
theorem node_reads (f : Term → Term) (op : Op) (args args' : List Term) (p : Payload) (hmap : args' = args.map f)
    (ih : ∀ a ∈ args, ArgOK f a) (h : fragNode op args' p = true) :
    Reads (.node op args p) (.node op args' p) ∧ startOK (hrTokens (.node op args p)) := by
  unfold fragNode at h
  split at h
  · -- ( a s b )
    next s a' b' hs =>
    obtain ⟨a, b, rfl, rfl, rfl⟩ := map_eq2 hmap
    split at h
    · next c l hi =>
      refine ⟨reads_nary f hs hi (fun x hx => (ih x hx).reads) ?_, ?_⟩
      · simp only [List.map_cons, List.map_nil, applyChain]
        rw [isOk_eq h]
      · simp [hrTokens_node, nodeToks, hs, startOK]
    · cases h
  · -- ( s a )
    next s a' hs =>
    obtain ⟨a, rfl, rfl⟩ := map_eq1 hmap
    split at h
    · next c l hu =>
      refine ⟨reads_prefixPar hs hu (isOk_eq h) (ih a (by simp)).reads, ?_⟩
      simp [hrTokens_node, nodeToks, hs, startOK]
    · cases h
  · -- ( a s k )
    next s w k a' hs =>
    obtain ⟨a, rfl, rfl⟩ := map_eq1 hmap
    split at h
    · next c l hi =>
      refine ⟨reads_hack hs hi (isOk_eq h) (ih a (by simp)).reads, ?_⟩
      simp [hrTokens_node, nodeToks, hs, hackStep, startOK]
    · cases h
  · -- s ( a )
    next s a' hs =>
    obtain ⟨a, rfl, rfl⟩ := map_eq1 hmap
    split at h
    · next c l hu =>
      refine ⟨reads_unaryCall hs hu (isOk_eq h) (ih a (by simp)).reads, ?_⟩
      have := unaryOf_ne hu
      simp [hrTokens_node, nodeToks, hs, startOK, this.1, this.2]
    · cases h
  · -- s ( a , b )
    next s a' as' hs =>
    obtain ⟨a, as, rfl, rfl, rfl⟩ := map_eq_cons hmap
    split at h
    · next c hf =>
      refine ⟨reads_call f hs hf (isOk_eq h) (ih a (by simp)).start (fun x hx => (ih x hx).reads), ?_⟩
      have := fnOf_ne hf
      simp [hrTokens_node, nodeToks, hs, startOK, this.1, this.2]
    · cases h
  · -- ( c ? a : b )
    next c' a' b' hs =>
    obtain ⟨c, a, b, rfl, rfl, rfl, rfl⟩ := map_eq3 hmap
    dsimp only at h
    refine ⟨reads_ite hs (isOk_eq h) (ih c (by simp)).reads (ih a (by simp)).reads (ih b (by simp)).reads, ?_⟩
    simp [hrTokens_node, nodeToks, hs, startOK]
  · -- ( s x , y . b )
    next s vs b' hs =>
    obtain ⟨b, rfl, rfl⟩ := map_eq1 hmap
    simp only [Bool.and_eq_true, Bool.not_eq_true', List.all_eq_true] at h
    obtain ⟨⟨hne, hres'⟩, h⟩ := h
    have hres : ∀ x ∈ vs, reservedName x.name = false := fun x hx => hrName_reserved (hres' x hx)
    cases vs with
    | nil => simp at hne
    | cons v vs =>
      split at h
      · next c l hq =>
        refine ⟨reads_quant hs hq (fun x hx => hres x hx) (isOk_eq h) (ih b (by simp)).reads, ?_⟩
        simp [hrTokens_node, nodeToks, hs, startOK]
      · cases h
  · -- a [ lo : hi ]
    next w lo hi a' hs =>
    obtain ⟨a, rfl, rfl⟩ := map_eq1 hmap
    simp only [Bool.and_eq_true] at h
    have hta := (ih a (by simp)).tight
    refine ⟨reads_extract hs (hta ▸ h.1) (isOk_eq h.2) (ih a (by simp)).reads, ?_⟩
    have := startOK_append [lbrak, .int lo, .op ":", .int hi, rbrak] (ih a (by simp)).start
    simpa [hrTokens_node, nodeToks, hs] using this
  · -- a [ i ]
    next a' i' hs =>
    obtain ⟨a, i, rfl, rfl, rfl⟩ := map_eq2 hmap
    simp only [Bool.and_eq_true] at h
    have hta := (ih a (by simp)).tight
    refine ⟨reads_select hs (hta ▸ h.1) (isOk_eq h.2) (ih a (by simp)).reads (ih i (by simp)).reads, ?_⟩
    have := startOK_append (lbrak :: (hrTokens i ++ [rbrak])) (ih a (by simp)).start
    simpa [hrTokens_node, nodeToks, hs] using this
  · -- a [ i := v ]
    next a' i' v' hs =>
    obtain ⟨a, i, v, rfl, rfl, rfl, rfl⟩ := map_eq3 hmap
    simp only [Bool.and_eq_true] at h
    have hta := (ih a (by simp)).tight
    refine ⟨reads_store hs (hta ▸ h.1) (isOk_eq h.2) (ih a (by simp)).reads (ih i (by simp)).reads
      (ih v (by simp)).reads, ?_⟩
    have := startOK_append (lbrak :: (hrTokens i ++ (.op ":=" :: (hrTokens v ++ [rbrak])))) (ih a (by simp)).start
    simpa [hrTokens_node, nodeToks, hs] using this
  · -- Array{ I , E } ( d )
    next idx d' hs =>
    obtain ⟨d, rfl, rfl⟩ := map_eq1 hmap
    simp only [Bool.and_eq_true] at h
    obtain ⟨⟨hi, he⟩, h⟩ := h
    split at he
    · next τ hτ =>
      rw [(ih d (by simp)).ty] at hτ
      refine ⟨reads_arrayValue hs hi hτ he (isOk_eq h) (ih d (by simp)).reads, ?_⟩
      simp [hrTokens_node, nodeToks, hs, startOK]
    · cases he
  · -- f ( a , b )
    next g a' as' hs =>
    obtain ⟨a, as, rfl, rfl, rfl⟩ := map_eq_cons hmap
    simp only [Bool.and_eq_true] at h
    have hr := hrName_reserved h.1
    refine ⟨reads_app f hs hr (isOk_eq h.2) (ih a (by simp)).start (fun x hx => (ih x hx).reads), ?_⟩
    simp [hrTokens_node, nodeToks, hs, lexIdent, hr, startOK]
  · -- symbol
    next s hs =>
    cases map_eq0 hmap
    have hr := hrName_reserved h
    cases shape_sym_op hs
    refine ⟨good_sym hr, ?_⟩
    simp [hrTokens_node, nodeToks, hs, lexIdent, hr, startOK]
  · -- constants
    next p hs =>
    cases map_eq0 hmap
    split at h
    · exact ⟨good_const hs (fun _ _ _ _ => rfl), by simp [hrTokens_node, nodeToks, hs, constTok, startOK]⟩
    · exact ⟨good_const hs (fun _ _ _ _ => rfl), by simp [hrTokens_node, nodeToks, hs, constTok, startOK]⟩
    · next v =>
      refine ⟨good_const hs (fun ex ps pt rest => ?_), ?_⟩
      · cases v
        · simp [constTok, nud_false, Term.ff]
        · simp [constTok, nud_true, Term.tt]
      · cases v <;> simp [hrTokens_node, nodeToks, hs, constTok, startOK]
    · next v w =>
      refine ⟨good_const hs (fun ex ps pt rest => ?_), by simp [hrTokens_node, nodeToks, hs, constTok, startOK]⟩
      simp only [constTok, nud, isOk_eq h]
    · next s =>
      simp only [Bool.not_eq_true'] at h
      refine ⟨good_const hs (fun ex ps pt rest => ?_), by simp [hrTokens_node, nodeToks, hs, constTok, startOK]⟩
      simp only [constTok, not_contains_quote h]
      rfl
    · cases h
  · cases h

/-! ## the fragment with binary infix applications: the identity -/

theorem argOK_id {a : Term} (g : Good a) (hs : startOK (hrTokens a)) : ArgOK id a := ⟨g, hs, rfl, rfl⟩

/-- every term of the fragment is read back as itself -/
theorem frag_good : (t : Term) → inHRFrag t = true → Good t ∧ startOK (hrTokens t)
  | .node op args p, h => by
    rw [inHRFrag_node] at h
    simp only [Bool.and_eq_true, List.all_eq_true, List.mem_map, id, forall_exists_index, and_imp,
      forall_apply_eq_imp_iff₂] at h
    exact node_reads id op args args p (by simp)
      (fun a ha => let r := frag_good a (h.1 a ha); argOK_id r.1 r.2) h.2

/-- **the round trip**: the parser model reads the printer model's tokens of a term of the fragment back to the term -/
theorem hrParse_hrTokens (t : Term) (h : InHRFrag t) : hrParse (hrTokens t) = .ok t := by
  have g := (frag_good t h).1
  have := g.stop 0 [] (by omega) (by simp [headLbp]) (fuelFor (hrTokens t)) (by simp [fuelFor, cost]; omega)
  simp only [List.append_nil] at this
  simp [hrParse, this]

end PySMT.HR.RT
