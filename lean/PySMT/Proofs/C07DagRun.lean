import PySMT.Proofs.C07DagInv
/-!
# C07: the memoization invariant of the DAG printer (quantifier-free formulas), part 2: the work-stack machine
-/
namespace PySMT.Printer
open PySMT.Std PySMT.Sexp

/-! ## association lists -/

theorem lookup_cons_self {β} (t : Term) (v : β) (m : List (Term × β)) : ((t, v) :: m).lookup t = some v := by
  simp [List.lookup]

theorem lookup_cons_isSome {β} (t c : Term) (v : β) (m : List (Term × β)) (h : (m.lookup c).isSome = true) :
    (((t, v) :: m).lookup c).isSome = true := by
  simp only [List.lookup]
  split <;> simp_all

theorem mem_of_lookup {β} (c : Term) (v : β) : ∀ (m : List (Term × β)), m.lookup c = some v → (c, v) ∈ m
  | [], h => by simp [List.lookup] at h
  | (k, w) :: m, h => by
    simp only [List.lookup] at h
    split at h
    · next heq =>
      have : c = k := by simpa using heq
      simp only [Option.some.injEq] at h
      subst this; subst h
      simp
    · exact List.mem_cons_of_mem _ (mem_of_lookup c v m h)

/-! ## "the results of the children are available" -/

/-- every expanded entry finds each child memoized or above it on the stack (`above`: the terms above) -/
def StackOK (memo : List (Term × Sexp)) : List Term → List (Bool × Term) → Prop
  | _, [] => True
  | above, (fl, s) :: rest =>
    (fl = true → ∀ c ∈ s.args, (memo.lookup c).isSome = true ∨ c ∈ above) ∧ StackOK memo (s :: above) rest

theorem StackOK.mono {memo memo' : List (Term × Sexp)} : ∀ (l : List (Bool × Term)) (above above' : List Term),
    (∀ c, ((memo.lookup c).isSome = true ∨ c ∈ above) → ((memo'.lookup c).isSome = true ∨ c ∈ above')) →
    StackOK memo above l → StackOK memo' above' l
  | [], _, _, _, _ => trivial
  | (fl, s) :: rest, above, above', h, hs => by
    refine ⟨fun hf c hc => h c (hs.1 hf c hc), ?_⟩
    apply StackOK.mono rest (s :: above) (s :: above') _ hs.2
    intro c hc
    rcases hc with hc | hc
    · rcases h c (Or.inl hc) with h' | h'
      · exact Or.inl h'
      · exact Or.inr (List.mem_cons_of_mem _ h')
    · rcases List.mem_cons.1 hc with rfl | hc
      · exact Or.inr (by simp)
      · rcases h c (Or.inr hc) with h' | h'
        · exact Or.inl h'
        · exact Or.inr (List.mem_cons_of_mem _ h')

theorem StackOK.false_prefix (memo : List (Term × Sexp)) : ∀ (ks : List Term) (above : List Term) (l : List (Bool × Term)),
    StackOK memo (ks.reverse ++ above) l → StackOK memo above (ks.map (fun a => (false, a)) ++ l)
  | [], above, l, h => by simpa using h
  | k :: ks, above, l, h => by
    simp only [List.map_cons, List.cons_append]
    refine ⟨fun hf => by simp at hf, ?_⟩
    apply StackOK.false_prefix memo ks (k :: above) l
    simpa using h

/-! ## the invariant -/

structure InvL (sp : Spell) (env : SEnv) (names : List String) (t : Term) (L : LS) (st : DSt) : Prop where
  binds : readBinds env [] (bindNames st.binds).reverse = .ok (toSc L)
  bok : BindsOK names st.binds
  fresh : Fresh names L
  memo : ∀ sm ∈ st.memo, DagOK names env sm.1 = true ∧ Valid env names st.seed L sm.1 sm.2
  stack : ∀ e ∈ st.stack, DagOK names env e.2 = true
  avail : StackOK st.memo [] st.stack
  root : (st.memo.lookup t).isSome = true ∨ ∃ e ∈ st.stack, e.2 = t

theorem readBinds_append (env : SEnv) : ∀ (l1 l2 : List (String × Sexp)) (sc : List Binding),
    readBinds env sc (l1 ++ l2) = match readBinds env sc l1 with
      | .ok sc' => readBinds env sc' l2
      | .error e => .error e
  | [], l2, sc => rfl
  | (dn, e) :: l1, l2, sc => by
    simp only [List.cons_append, readBinds]
    cases symName? dn with
    | none => rfl
    | some n =>
      simp only []
      by_cases hth : theorySymbols.contains n = true
      · simp only [hth, if_true]
      · simp only [hth, Bool.false_eq_true, if_false]
        cases rd env sc e with
        | error err => rfl
        | ok r => exact readBinds_append env l1 l2 _

section
variable (sp : Spell) (hsp : SpellStd sp) (env : SEnv) (names : List String) (t : Term)
include hsp

omit hsp in
/-- an expanded entry whose result is already memoized is dropped -/
theorem inv_pop_memoized {L : LS} {st : DSt} (inv : InvL sp env names t L st) (s : Term) (rest : List (Bool × Term))
    (hst : st.stack = (true, s) :: rest) (hm : (st.memo.lookup s).isSome = true) :
    InvL sp env names t L { st with stack := rest } := by
  refine ⟨inv.binds, inv.bok, inv.fresh, inv.memo, fun e he => inv.stack e (by rw [hst]; exact List.mem_cons_of_mem _ he), ?_, ?_⟩
  · have h := inv.avail
    rw [hst] at h
    refine StackOK.mono rest [s] [] ?_ h.2
    intro c hc
    rcases hc with hc | hc
    · exact Or.inl hc
    · have : c = s := by simpa using hc
      subst this; exact Or.inl hm
  · rcases inv.root with h | ⟨e, he, het⟩
    · exact Or.inl h
    · rw [hst] at he
      rcases List.mem_cons.1 he with rfl | he
      · simp only at het; subst het; exact Or.inl hm
      · exact Or.inr ⟨e, he, het⟩

omit hsp in
/-- the memoized results of the children of an expanded entry at the top are read as the children, in every later scope -/
theorem kids_valid {L : LS} {st : DSt} (inv : InvL sp env names t L st) (op : Op) (args : List Term) (p : Payload)
    (rest : List (Bool × Term)) (hst : st.stack = (true, .node op args p) :: rest) :
    ∀ a ∈ args, ∀ L', Ext names st.seed L L' → rd env (toSc L') (memoGet st.memo a) = .ok (U false a) := by
  intro a ha L' hext
  have h := inv.avail
  rw [hst] at h
  have hav := h.1 rfl a (by simpa [Term.args] using ha)
  rcases hav with hav | hav
  · cases hl : st.memo.lookup a with
    | none => rw [hl] at hav; simp at hav
    | some m =>
      have hmem := mem_of_lookup a m st.memo hl
      have := (inv.memo (a, m) hmem).2 L' hext
      simpa [memoGet, hl] using this
  · simp at hav

/-- an inline operator: its text is memoized -/
theorem inv_pop_inline {L : LS} {st : DSt} (inv : InvL sp env names t L st) (op : Op) (args : List Term) (p : Payload)
    (rest : List (Bool × Term)) (hst : st.stack = (true, .node op args p) :: rest) :
    InvL sp env names t L
      { st with stack := rest, memo := (Term.node op args p, nodeSexp sp false op p args (args.map (memoGet st.memo))) :: st.memo } := by
  have hok : DagOK names env (.node op args p) = true := inv.stack (true, .node op args p) (by rw [hst]; simp)
  have hkids := kids_valid sp env names t inv op args p rest hst
  refine ⟨inv.binds, inv.bok, inv.fresh, ?_, fun e he => inv.stack e (by rw [hst]; exact List.mem_cons_of_mem _ he), ?_, ?_⟩
  · intro sm hsm
    rcases List.mem_cons.1 hsm with rfl | hsm
    · refine ⟨hok, ?_⟩
      intro L' hext
      exact node_valid sp hsp env names op args p hok L' (hext.fresh inv.fresh) (memoGet st.memo)
        (fun a ha => hkids a ha L' hext)
    · exact inv.memo sm hsm
  · have h := inv.avail
    rw [hst] at h
    refine StackOK.mono rest [.node op args p] [] ?_ h.2
    intro c hc
    rcases hc with hc | hc
    · exact Or.inl (lookup_cons_isSome _ _ _ _ hc)
    · have : c = .node op args p := by simpa using hc
      subst this; exact Or.inl (by rw [lookup_cons_self]; rfl)
  · rcases inv.root with h | ⟨e, he, het⟩
    · exact Or.inl (lookup_cons_isSome _ _ _ _ h)
    · rw [hst] at he
      rcases List.mem_cons.1 he with rfl | he
      · simp only at het; subst het; exact Or.inl (by rw [lookup_cons_self]; rfl)
      · exact Or.inr ⟨e, he, het⟩

/-- an operator printed through a `let`: a new binding, the generated name is memoized -/
theorem inv_pop_let {L : LS} {st : DSt} (inv : InvL sp env names t L st) (op : Op) (args : List Term) (p : Payload)
    (rest : List (Bool × Term)) (hst : st.stack = (true, .node op args p) :: rest) :
    ∃ L', InvL sp env names t L' (bindNew names st rest (.node op args p)
      (nodeSexp sp false op p args (args.map (memoGet st.memo)))) := by
  have hok : DagOK names env (.node op args p) = true := inv.stack (true, .node op args p) (by rw [hst]; simp)
  have hkids := kids_valid sp env names t inv op args p rest hst
  let k := nextFree names (names.length + 1) st.seed
  have hk1 : st.seed ≤ k := (nextFree_spec names (names.length + 1) st.seed).2.1
  have hk2 : defName k ∉ names := nextFree_fresh names st.seed
  let s := Term.node op args p
  let e := nodeSexp sp false op p args (args.map (memoGet st.memo))
  have hrd : rd env (toSc L) e = .ok (U false s) :=
    node_valid sp hsp env names op args p hok L inv.fresh (memoGet st.memo)
      (fun a ha => hkids a ha L (Ext.refl names st.seed L))
  have hext : Ext names st.seed L ((k, unfoldAVw false s, tyD s) :: L) :=
    ⟨[(k, unfoldAVw false s, tyD s)], rfl, by simpa using ⟨hk1, hk2⟩⟩
  refine ⟨(k, unfoldAVw false s, tyD s) :: L, ?_, bindNew_ok names st rest _ _ inv.bok, ?_, ?_,
    fun e he => inv.stack e (by rw [hst]; exact List.mem_cons_of_mem _ he), ?_, ?_⟩
  · show readBinds env [] (bindNames ((Sexp.atom (defName k), e) :: st.binds)).reverse = _
    simp only [bindNames, List.map_cons, List.reverse_cons]
    rw [readBinds_append]
    have hb := inv.binds
    simp only [bindNames] at hb
    rw [hb]
    simp only [readBinds, defName_symName, defName_not_theory, Bool.false_eq_true, if_false, hrd, U]
    rfl
  · intro x hx
    rcases List.mem_cons.1 hx with rfl | hx
    · exact hk2
    · exact inv.fresh x hx
  · intro sm hsm
    rcases List.mem_cons.1 hsm with rfl | hsm
    · exact ⟨hok, valid_defName env names k L s (tyD s) rfl⟩
    · exact ⟨(inv.memo sm hsm).1, (inv.memo sm hsm).2.mono hext (by show st.seed ≤ k + 1; omega)⟩
  · have h := inv.avail
    rw [hst] at h
    refine StackOK.mono rest [s] [] ?_ h.2
    intro c hc
    rcases hc with hc | hc
    · exact Or.inl (lookup_cons_isSome _ _ _ _ hc)
    · have : c = s := by simpa using hc
      subst this; exact Or.inl (by show ((List.lookup _ ((s, _) :: st.memo))).isSome = true; rw [lookup_cons_self]; rfl)
  · rcases inv.root with h | ⟨e', he, het⟩
    · exact Or.inl (lookup_cons_isSome _ _ _ _ h)
    · rw [hst] at he
      rcases List.mem_cons.1 he with rfl | he
      · simp only at het; subst het
        exact Or.inl (by show ((List.lookup _ ((s, _) :: st.memo))).isSome = true; rw [lookup_cons_self]; rfl)
      · exact Or.inr ⟨e', he, het⟩

omit hsp in
/-- an unexpanded entry: it is expanded and its children that are not memoized are pushed above it -/
theorem inv_expand {L : LS} {st : DSt} (inv : InvL sp env names t L st) (op : Op) (args : List Term) (p : Payload)
    (rest : List (Bool × Term)) (hst : st.stack = (false, .node op args p) :: rest) :
    InvL sp env names t L { st with stack :=
      ((args.filter (fun a => (st.memo.lookup a).isNone)).reverse.map (fun a => (false, a))) ++ (true, .node op args p) :: rest } := by
  have hok : DagOK names env (.node op args p) = true := inv.stack (false, .node op args p) (by rw [hst]; simp)
  obtain ⟨_, _, _, _, hargs⟩ := dagOK_node hok
  refine ⟨inv.binds, inv.bok, inv.fresh, inv.memo, ?_, ?_, ?_⟩
  · intro e he
    rcases List.mem_append.1 he with he | he
    · simp only [List.mem_map, List.mem_reverse, List.mem_filter] at he
      obtain ⟨a, ⟨ha, _⟩, rfl⟩ := he
      exact hargs a ha
    · rcases List.mem_cons.1 he with rfl | he
      · exact hok
      · exact inv.stack e (by rw [hst]; exact List.mem_cons_of_mem _ he)
  · have h := inv.avail
    rw [hst] at h
    apply StackOK.false_prefix
    refine ⟨fun _ c hc => ?_, ?_⟩
    · have hc' : c ∈ args := by simpa [Term.args] using hc
      cases hl : st.memo.lookup c with
      | some m => exact Or.inl rfl
      | none =>
        right
        simp only [List.reverse_reverse, List.append_nil, List.mem_filter]
        exact ⟨hc', by simp [hl]⟩
    · refine StackOK.mono rest [.node op args p] _ ?_ h.2
      intro c hc
      rcases hc with hc | hc
      · exact Or.inl hc
      · have : c = .node op args p := by simpa using hc
        subst this; exact Or.inr (by simp)
  · rcases inv.root with h | ⟨e, he, het⟩
    · exact Or.inl h
    · rw [hst] at he
      rcases List.mem_cons.1 he with rfl | he
      · exact Or.inr ⟨(true, .node op args p), List.mem_append_right _ (by simp), het⟩
      · exact Or.inr ⟨e, List.mem_append_right _ (List.mem_cons_of_mem _ he), het⟩

/-- one iteration of the work loop preserves the invariant -/
theorem dagStep_inv (sub : Term → Sexp) {L : LS} {st : DSt} (inv : InvL sp env names t L st) :
    ∃ L', InvL sp env names t L' (dagStep sp names sub st) := by
  unfold dagStep
  split
  · exact ⟨L, inv⟩
  · next expanded op args p rest hst =>
    dsimp only
    split
    · next hexp =>
      subst hexp
      split
      · next hm => exact ⟨L, inv_pop_memoized sp env names t inv _ rest hst hm⟩
      · split
        · exact inv_pop_let sp hsp env names t inv op args p rest hst
        · exact ⟨L, inv_pop_inline sp hsp env names t inv op args p rest hst⟩
    · next hexp =>
      have hexp' : expanded = false := by simpa using hexp
      subst hexp'
      split
      · next hq =>
        have hok : DagOK names env (.node op args p) = true := inv.stack (false, .node op args p) (by rw [hst]; simp)
        have := (dagOK_node hok).1
        rw [hq] at this
        exact absurd this (by simp)
      · exact ⟨L, inv_expand sp env names t inv op args p rest hst⟩

theorem dagLoop_inv (sub : Term → Sexp) : ∀ (fuel : Nat) {L : LS} {st : DSt}, InvL sp env names t L st →
    ∃ L', InvL sp env names t L' (dagLoop sp names sub fuel st)
  | 0, L, _, inv => ⟨L, inv⟩
  | fuel + 1, L, st, inv => by
    unfold dagLoop
    split
    · exact ⟨L, inv⟩
    · obtain ⟨L', inv'⟩ := dagStep_inv sp hsp env names t sub inv
      exact dagLoop_inv sub fuel inv'

end

/-! ## the loop empties the stack within the fuel -/

def entryWeight : Bool × Term → Nat
  | (true, _) => 1
  | (false, s) => 2 * s.size

def stackWeight (l : List (Bool × Term)) : Nat := (l.map entryWeight).sum

theorem size_pos (s : Term) : 0 < s.size := by
  cases s with
  | node op args p => simp [Term.size]; omega

theorem sum_filter_le (f : Term → Nat) (q : Term → Bool) : ∀ (l : List Term), ((l.filter q).map f).sum ≤ (l.map f).sum
  | [] => Nat.le_refl _
  | a :: l => by
    simp only [List.filter]
    split
    · simp only [List.map_cons, List.sum_cons]; have := sum_filter_le f q l; omega
    · simp only [List.map_cons, List.sum_cons]; have := sum_filter_le f q l; omega

theorem stackWeight_kids (ks : List Term) : stackWeight (ks.reverse.map (fun a => (false, a))) = 2 * (ks.map Term.size).sum := by
  unfold stackWeight
  rw [List.map_map]
  have : ∀ (l : List Term), (l.map (entryWeight ∘ fun a => (false, a))).sum = 2 * (l.map Term.size).sum := by
    intro l
    induction l with
    | nil => rfl
    | cons a l ih => simp only [List.map_cons, List.sum_cons, Function.comp, entryWeight, ih]; omega
  rw [this, List.map_reverse, List.sum_reverse]

theorem dagStep_weight (sp : Spell) (names : List String) (sub : Term → Sexp) (st : DSt) (hne : st.stack ≠ []) :
    stackWeight (dagStep sp names sub st).stack < stackWeight st.stack := by
  unfold dagStep
  split
  · next h => exact absurd h hne
  · next expanded op args p rest hst =>
    dsimp only
    rw [hst]
    have hw : ∀ fl, stackWeight ((fl, Term.node op args p) :: rest) = entryWeight (fl, Term.node op args p) + stackWeight rest := by
      intro fl; simp [stackWeight]
    split
    · next hexp =>
      subst hexp
      rw [hw]
      simp only [entryWeight]
      split
      · simp
      · split
        · simp [bindNew]
        · simp
    · next hexp =>
      have hexp' : expanded = false := by simpa using hexp
      subst hexp'
      rw [hw]
      simp only [entryWeight, Term.size]
      split
      · split
        · show stackWeight rest < _; omega
        · simp only [bindNew]; omega
      · show stackWeight (_ ++ _) < _
        unfold stackWeight
        rw [List.map_append, List.sum_append]
        have h1 := stackWeight_kids (args.filter (fun a => (st.memo.lookup a).isNone))
        unfold stackWeight at h1
        rw [h1]
        have h2 := sum_filter_le Term.size (fun a => (st.memo.lookup a).isNone) args
        simp only [List.map_cons, List.sum_cons, entryWeight]
        omega

theorem dagLoop_done (sp : Spell) (names : List String) (sub : Term → Sexp) : ∀ (fuel : Nat) (st : DSt),
    stackWeight st.stack ≤ fuel → (dagLoop sp names sub fuel st).stack = []
  | 0, st, h => by
    cases hs : st.stack with
    | nil => simp [dagLoop, hs]
    | cons e l =>
      rw [hs] at h
      have : 0 < entryWeight e := by
        cases e with
        | mk fl s => cases fl <;> simp [entryWeight]; exact size_pos s
      simp [stackWeight] at h
      omega
  | fuel + 1, st, h => by
    unfold dagLoop
    split
    · next hemp => simpa using hemp
    · next hemp =>
      have hne : st.stack ≠ [] := by simpa using hemp
      have := dagStep_weight sp names sub st hne
      exact dagLoop_done sp names sub fuel _ (by omega)

end PySMT.Printer
