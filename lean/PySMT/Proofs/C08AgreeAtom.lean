import PySMT.Proofs.C08AgreeEnv
import PySMT.Proofs.C08Lit
import PySMT.Proofs.C07Read8
/-!
# C08/C09 agreement: atoms (literals, names), string literals, applications of declared functions
-/
namespace PySMT.Parser.Agree
open PySMT PySMT.Parser PySMT.Std PySMT.Sexp

theorem pnameOK_not_lit {tok : String} (h : Lit.litHead tok = true) : pnameOK tok = false := by
  suffices hs : pnameOK0 tok = false by simp [pnameOK, hs]
  unfold Lit.litHead at h
  unfold pnameOK0
  split at h
  · rename_i c cs heq
    rw [heq]
    simp only [Bool.or_eq_true, beq_iff_eq] at h
    rcases h with h | h
    · simp [h]
    · simp [h]
  · cases h

theorem lookup_lit {env : SEnv} {sc : List Binding} {Γ : PEnv} (hc : Corr env sc Γ) {tok : String}
    (h : Lit.litHead tok = true) : lookup tok Γ.binds = none := by
  cases hl : lookup tok Γ.binds with
  | none => rfl
  | some v =>
    have := hc.names tok v hl
    rw [pnameOK_not_lit h] at this; cases this

theorem typeOf_bvc (v w : Nat) : (Term.bvc v w).typeOf = some (.bv w) := by
  rw [Term.bvc, typeOf_node]; rfl
theorem mkNorm_bvc (v w : Nat) : mkNorm (Term.bvc v w) = Term.bvc v w := by
  rw [Term.bvc, mkNorm_plain _ _ _ (by decide) (by decide) (by decide)]; rfl
theorem tok_bvc (v w : Nat) (hv : v < 2 ^ w) : TOK (Term.bvc v w) (.bv w) := by
  refine ⟨typeOf_bvc v w, ?_, fun w' hw' => by cases hw'; exact bvWidth_bvc v w⟩
  rw [Term.bvc]
  exact Term.wf_node.mpr ⟨by simp, by simp [Op.shapeOK, hv], rfl⟩

theorem mkNorm_tt : mkNorm Term.tt = Term.tt := by
  rw [Term.tt, mkNorm_plain _ _ _ (by decide) (by decide) (by decide)]; rfl
theorem mkNorm_ff : mkNorm Term.ff = Term.ff := by
  rw [Term.ff, mkNorm_plain _ _ _ (by decide) (by decide) (by decide)]; rfl
theorem tok_tt : TOK Term.tt .bool := by
  refine ⟨by rw [Term.tt, typeOf_node]; rfl, ?_, nobw_bool⟩
  rw [Term.tt]; exact Term.wf_node.mpr ⟨by simp, rfl, rfl⟩
theorem tok_ff : TOK Term.ff .bool := by
  refine ⟨by rw [Term.ff, typeOf_node]; rfl, ?_, nobw_bool⟩
  rw [Term.ff]; exact Term.wf_node.mpr ⟨by simp, rfl, rfl⟩
theorem mkNorm_str (v : String) : mkNorm (Term.str v) = Term.str v := by
  rw [Term.str, mkNorm_plain _ _ _ (by decide) (by decide) (by decide)]; rfl
theorem tok_str (v : String) : TOK (Term.str v) .str := by
  refine ⟨by rw [Term.str, typeOf_node]; rfl, ?_, nobw_str⟩
  rw [Term.str]; exact Term.wf_node.mpr ⟨by simp, rfl, rfl⟩

theorem pyTok_sym {tok n : String} (h : symName? tok = some n) : pyTok tok = n := by simp [pyTok, h]

/-- an atom: literal of the four classes, or a name the standard resolves -/
theorem agree_atom (env : SEnv) (sc : List Binding) (Γ : PEnv) (lone : Bool) (hc : Corr env sc Γ) (tok : String)
    (u : Term) (τ : Ty) (hstd : rd env sc (.atom tok) = .ok (u, τ)) :
    rdVal Γ lone (.atom tok) = .ok (.term (mkNorm u), Γ.mgr) ∧ TOK (mkNorm u) τ := by
  rw [rd] at hstd
  unfold atomTerm at hstd
  have hrd : ∀ v, atomVal Γ lone (.atom tok) = .ok v → rdVal Γ lone (.atom tok) = .ok (v, Γ.mgr) := by
    intro v hv; rw [rdVal, hv]; rfl
  cases hnum : numeral? tok with
  | some n =>
    obtain ⟨hpt, hlh, _, _, _, _⟩ := Lit.numeral_facts tok n hnum
    have hlit := Lit.literal_numeral Γ.intArith lone tok n hnum
    have hlk := lookup_lit hc hlh
    simp only [hnum] at hstd
    have hav : atomVal Γ lone (.atom tok) =
        .ok (.term (if Γ.intArith.getD true then Term.int n else Term.real ((n : Int) : Rat))) := by
      simp only [atomVal, hpt, hlk, hlit]
    rw [hc.logic] at hav
    by_cases hro : env.realsOnly = true
    · simp only [hro, if_true, Except.ok.injEq, Prod.mk.injEq] at hstd
      obtain ⟨rfl, rfl⟩ := hstd
      simp only [hro, Bool.not_true, Bool.false_eq_true, if_false] at hav
      rw [mkNorm_real]
      exact ⟨hrd _ hav, tok_real _⟩
    · have hro' : env.realsOnly = false := by simpa using hro
      simp only [hro', Bool.false_eq_true, if_false, Except.ok.injEq, Prod.mk.injEq] at hstd
      obtain ⟨rfl, rfl⟩ := hstd
      simp only [hro', Bool.not_false, if_true] at hav
      rw [mkNorm_int]
      exact ⟨hrd _ hav, tok_int _⟩
  | none =>
  simp only [hnum] at hstd
  cases hdec : decimal? tok with
  | some q =>
    obtain ⟨hpt, hlh, _, _, _⟩ := Lit.decimal_facts tok q hdec
    have hlit := Lit.literal_decimal Γ.intArith lone tok q hdec
    have hlk := lookup_lit hc hlh
    simp only [hdec, Except.ok.injEq, Prod.mk.injEq] at hstd
    obtain ⟨rfl, rfl⟩ := hstd
    rw [mkNorm_real]
    exact ⟨hrd _ (by simp only [atomVal, hpt, hlk, hlit]), tok_real _⟩
  | none =>
  simp only [hdec] at hstd
  cases hbin : binary? tok with
  | some vw =>
    obtain ⟨v, w⟩ := vw
    obtain ⟨hpt, hlh, hlit, _, hv⟩ := Lit.literal_binary Γ.intArith lone tok v w hbin
    have hlk := lookup_lit hc hlh
    simp only [hbin, Except.ok.injEq, Prod.mk.injEq] at hstd
    obtain ⟨rfl, rfl⟩ := hstd
    rw [mkNorm_bvc]
    exact ⟨hrd _ (by simp only [atomVal, hpt, hlk, hlit]), tok_bvc v w hv⟩
  | none =>
  simp only [hbin] at hstd
  cases hhex : hex? tok with
  | some vw =>
    obtain ⟨v, w⟩ := vw
    obtain ⟨hpt, hlh, hlit, _, hv⟩ := Lit.literal_hex Γ.intArith lone tok v w hhex
    have hlk := lookup_lit hc hlh
    simp only [hhex, Except.ok.injEq, Prod.mk.injEq] at hstd
    obtain ⟨rfl, rfl⟩ := hstd
    rw [mkNorm_bvc]
    exact ⟨hrd _ (by simp only [atomVal, hpt, hlk, hlit]), tok_bvc v w hv⟩
  | none =>
  simp only [hhex] at hstd
  cases hsn : symName? tok with
  | none => simp [hsn] at hstd
  | some n =>
    simp only [hsn] at hstd
    have hpt := pyTok_sym hsn
    cases hls : lookupScope n sc [] with
    | some r =>
      simp only [hls] at hstd
      subst hstd
      obtain ⟨h1, h2⟩ := hc.scope n u τ hls
      exact ⟨hrd _ (by simp only [atomVal, hpt, h1]), h2⟩
    | none =>
      simp only [hls] at hstd
      by_cases ht : n = "true"
      · subst ht
        simp only [beq_self_eq_true, if_true, Except.ok.injEq, Prod.mk.injEq] at hstd
        obtain ⟨rfl, rfl⟩ := hstd
        rw [mkNorm_tt]
        exact ⟨hrd _ (by simp only [atomVal, hpt, hc.tt hls]), tok_tt⟩
      · have ht' : (n == "true") = false := by simpa using ht
        simp only [ht', Bool.false_eq_true, if_false] at hstd
        by_cases hf : n = "false"
        · subst hf
          simp only [beq_self_eq_true, if_true, Except.ok.injEq, Prod.mk.injEq] at hstd
          obtain ⟨rfl, rfl⟩ := hstd
          rw [mkNorm_ff]
          exact ⟨hrd _ (by simp only [atomVal, hpt, hc.ff hls]), tok_ff⟩
        · have hf' : (n == "false") = false := by simpa using hf
          simp only [hf', Bool.false_eq_true, if_false] at hstd
          cases hlf : env.lookupFun n with
          | some s =>
            simp only [hlf] at hstd
            by_cases hp : s.params.isEmpty = true
            · simp only [hp, if_true, Except.ok.injEq, Prod.mk.injEq] at hstd
              obtain ⟨rfl, rfl⟩ := hstd
              have hb := hc.funs n s hls ht hf hlf
              simp only [hp, if_true] at hb
              rw [mkNorm_sym]
              exact ⟨hrd _ (by simp only [atomVal, hpt, hb]), tok_sym s (by simpa using hp)⟩
            · simp [hp] at hstd
          | none =>
            have : env.lookupDef n = none := by simp [SEnv.lookupDef, hc.nodefs]
            simp [hlf, this] at hstd

/-- a string literal without escapes -/
theorem agree_str (env : SEnv) (sc : List Binding) (Γ : PEnv) (lone : Bool) (lit : String)
    (hfine : Printer.strFine lit = true) (u : Term) (τ : Ty) (hstd : rd env sc (.str lit) = .ok (u, τ)) :
    rdVal Γ lone (.str lit) = .ok (.term (mkNorm u), Γ.mgr) ∧ TOK (mkNorm u) τ := by
  have : strConstOf lit = .ok lit := by
    simp only [strConstOf, Printer.decodeStrLit_id (lit.length + 1) lit.toList (by rw [String.length_toList]; omega) hfine,
      Except.map, String.ofList_toList]
  rw [rd, this] at hstd
  simp only [Except.map, Except.ok.injEq, Prod.mk.injEq] at hstd
  obtain ⟨rfl, rfl⟩ := hstd
  rw [mkNorm_str, rdVal_str]
  exact ⟨rfl, tok_str lit⟩

/-! ## applications of declared functions -/

theorem ag_user (env : SEnv) (hnd : env.defs = []) (f : String) (as : List TT) (u : Term) (τ : Ty) (hne : as ≠ [])
    (hargs : ∀ a ∈ as, TOK (mkNorm a.1) a.2) (hstd : applyUser env f as = .ok (u, τ)) :
    ∃ s, env.lookupFun f = some s ∧ s.params.isEmpty = false ∧ Agrees (.uf s) as u τ := by
  unfold applyUser at hstd
  cases hlf : env.lookupFun f with
  | none =>
    have : env.lookupDef f = none := by simp [SEnv.lookupDef, hnd]
    simp [hlf, this] at hstd
  | some s =>
    simp only [hlf] at hstd
    split at hstd
    · cases hstd
    · rename_i hp
      split at hstd
      · rename_i hts
        simp only [Except.ok.injEq, Prod.mk.injEq] at hstd
        obtain ⟨rfl, rfl⟩ := hstd
        have hts' : as.map (·.2) = s.params := by simpa using hts
        refine ⟨s, rfl, by simpa using hp, ?_⟩
        have hlen : (nargs as).length = s.params.length := by rw [nargs_length, ← hts', List.length_map]
        have hty : typeOfNode .function (.sym s) ((nargs as).map Term.typeOf) = some s.ret := by
          rw [tyNode_of (nargs_typeOf hargs), hts']
          simp [C03.tyNode]
        have hn : mkNorm (Term.app s (as.map (·.1))) = .node .function (nargs as) (.sym s) := by
          rw [Term.app, mkNorm_plain _ _ _ (by decide) (by decide) (by decide), map_fst_norm]
        unfold Agrees
        rw [hn]
        have hne' : nargs as ≠ [] := by
          intro h; apply hne; cases as <;> simp_all [nargs]
        have hsh : Op.shapeOK .function (.sym s) (nargs as).length = true := by
          cases hna : nargs as with
          | nil => exact absurd hna hne'
          | cons _ _ => simp [Op.shapeOK]
        refine ⟨?_, tok_node hty (nargs_wf hargs) hsh (fun w hw => bvWidth_app s _ w hw)⟩
        simp only [applyFn, termsOf_nargs, Mk.Function]
        have h1 : (nargs as).isEmpty = false := by cases hna : nargs as <;> simp_all
        have h2 : s.params.isEmpty = false := by simpa using hp
        simp only [h1, h2, hlen, ne_eq, not_true_eq_false, Bool.false_eq_true, if_false, create_ok hty]
        rfl
      · cases hstd

end PySMT.Parser.Agree
