import PySMT.Impl.SubstBuild
import PySMT.Proofs.Coincidence
import PySMT.Proofs.C05Types
import PySMT.Proofs.C05Array
/-!
# C05 — lemmas about `Build.rebuild` (the manager constructors applied to new children)

* `rebuild_generic`  : for a node type without normalisation the raw node is built
* `rebuild_self`     : on a normal node, rebuilding with the same children is the identity
* `fnodeWidth_of_typeOf`: `bv_width()` agrees with the type checker on well-typed terms
-/
namespace PySMT.Build
open PySMT.C05T

/-- node types whose constructor normalises or recomputes the payload -/
def special : Op → Bool
  | .and | .or | .plus | .times | .not | .toReal | .div | .forall_ | .exists_ | .bvConcat | .bvExtract
  | .bvRol | .bvRor | .bvZext | .bvSext | .bvComp | .arrayValue => true
  | op => isBvSameWidthOp op

theorem rebuild_generic (op : Op) (p : Payload) (as : List Term) (h : special op = false) :
    rebuild op p as = .node op as p := by
  cases op <;> simp [special, isBvSameWidthOp] at h <;> simp [rebuild, isBvSameWidthOp]

theorem normal_node (op : Op) (args : List Term) (p : Payload) :
    normal (.node op args p) = ((args.map normal).all id && normalNode op p args) := by
  rw [normal]

theorem normal_child {op args p} (h : normal (.node op args p) = true) : ∀ a ∈ args, normal a = true := by
  intro a ha
  rw [normal_node] at h
  simp only [Bool.and_eq_true, List.all_eq_true, List.mem_map] at h
  exact h.1 _ ⟨a, ha, rfl⟩

theorem normal_here {op args p} (h : normal (.node op args p) = true) : normalNode op p args = true := by
  rw [normal_node] at h
  simp only [Bool.and_eq_true] at h
  exact h.2

theorem rebuild_self (op : Op) (p : Payload) (args : List Term) (h : normalNode op p args = true) :
    rebuild op p args = .node op args p := by
  by_cases hs : special op = false
  · exact rebuild_generic op p args hs
  · cases op <;> simp [special, isBvSameWidthOp] at hs
    case and =>
      simp only [normalNode, decide_eq_true_eq] at h
      match args, h with | _ :: _ :: _, _ => rfl
    case or =>
      simp only [normalNode, decide_eq_true_eq] at h
      match args, h with | _ :: _ :: _, _ => rfl
    case plus =>
      simp only [normalNode, decide_eq_true_eq] at h
      match args, h with | _ :: _ :: _, _ => rfl
    case times =>
      simp only [normalNode, decide_eq_true_eq] at h
      match args, h with | _ :: _ :: _, _ => rfl
    case not =>
      match args, h with
      | [.node o as' p'], h =>
        simp only [normalNode, Term.op, bne_iff_ne, ne_eq] at h
        simp only [rebuild]
        unfold mkNotN
        split
        · next heq => cases heq; exact absurd rfl h
        · rfl
    case toReal =>
      match args, h with
      | [a], h =>
        simp only [normalNode, Bool.and_eq_true, bne_iff_ne, ne_eq] at h
        simp only [rebuild, mkToReal]
        split
        · next h1 => exact absurd h1 h.1
        · next h1 => exact absurd rfl h.2
        · rfl
    case div =>
      match args, h with
      | [a, b], h =>
        simp only [normalNode, Bool.not_eq_true', Bool.and_eq_false_iff] at h
        simp only [rebuild]
        unfold mkDiv
        split
        · next c heq =>
          cases heq
          split
          · rfl
          · next hc =>
            rcases h with h | h
            · simp [Term.op] at h
            · simp only [bne_eq_false_iff_eq] at h
              simp [Term.real] at h
              exact absurd h hc
        · rfl
    case forall_ =>
      simp only [normalNode, bne_iff_ne, ne_eq] at h
      simp only [rebuild]; unfold mkQuant
      split
      · split
        · exact absurd rfl h
        · rfl
      · rfl
    case exists_ =>
      simp only [normalNode, bne_iff_ne, ne_eq] at h
      simp only [rebuild]; unfold mkQuant
      split
      · split
        · exact absurd rfl h
        · rfl
      · rfl
    case bvConcat =>
      match args, h with
      | [a, b], h =>
        simp only [normalNode] at h
        simp only [rebuild, mkConcat]
        split at h
        · next wa wb h1 h2 => simp only [beq_iff_eq] at h; simp only [h1, h2, h]
        · simp at h
    case bvExtract =>
      simp only [normalNode] at h
      simp only [rebuild, mkExtract]
      split at h
      · next w lo hi => simp only [beq_iff_eq] at h; simp only [h]
      · simp at h
    case bvRol =>
      match args, h with
      | [a], h =>
        simp only [normalNode] at h
        simp only [rebuild, mkRot]
        split at h
        · next w k wa h2 => simp only [beq_iff_eq] at h; simp only [h2, h]
        · simp at h
    case bvRor =>
      match args, h with
      | [a], h =>
        simp only [normalNode] at h
        simp only [rebuild, mkRot]
        split at h
        · next w k wa h2 => simp only [beq_iff_eq] at h; simp only [h2, h]
        · simp at h
    case bvZext =>
      match args, h with
      | [a], h =>
        simp only [normalNode] at h
        simp only [rebuild, mkExt]
        split at h
        · next w k wa h2 => simp only [beq_iff_eq] at h; simp only [h2, h]
        · simp at h
    case bvSext =>
      match args, h with
      | [a], h =>
        simp only [normalNode] at h
        simp only [rebuild, mkExt]
        split at h
        · next w k wa h2 => simp only [beq_iff_eq] at h; simp only [h2, h]
        · simp at h
    case bvComp =>
      simp only [normalNode, beq_iff_eq] at h
      simp only [rebuild, h]
    case arrayValue =>
      match args, h with
      | d :: rest, h =>
        simp only [normalNode, decide_eq_true_eq] at h
        simp only [rebuild, mkArray]
        rw [← h]
    all_goals
      simp only [normalNode, isBvSameWidthOp, Bool.not_true, Bool.false_or] at h
      cases args with
      | nil => simp at h
      | cons a rest =>
        simp only at h
        simp only [rebuild, isBvSameWidthOp, if_true, mkBvOp, bvPayload]
        cases hw : fnodeWidth a with
        | none => simp [hw] at h
        | some w => simp only [hw, beq_iff_eq] at h; simp only [h]

/-! ## typing -/

def tyOf (a : Term) : Ty := a.typeOf.getD .bool

theorem wt_typeOf_some : (t : Term) → t.wt = true → t.typeOf = some (tyOf t)
  | .node op args p, h => by
    have := Term.wt_typeOf h
    rw [← typeOf_node] at this
    unfold tyOf
    cases hh : (Term.node op args p).typeOf with
    | none => rw [hh] at this; cases this
    | some τ => rfl

theorem map_typeOf_wt (args : List Term) (h : ∀ a ∈ args, a.wt = true) :
    args.map Term.typeOf = (args.map tyOf).map some := by
  rw [List.map_map]
  exact List.map_congr_left (fun a ha => wt_typeOf_some a (h a ha))

theorem typeOf_node_ty {op args p} (h : (Term.node op args p).wt = true) :
    (Term.node op args p).typeOf = tyNode op p (args.map tyOf) := by
  rw [typeOf_node, map_typeOf_wt args (Term.wt_child h), typeOfNode_eq_tyNode]

theorem list_map_eq_three {α β} {f : α → β} {l : List α} {x y z : β} (h : l.map f = [x, y, z]) :
    ∃ a b c, l = [a, b, c] ∧ f a = x ∧ f b = y ∧ f c = z := by
  match l, h with
  | [a, b, c], h => simp only [List.map, List.cons.injEq, and_true] at h; exact ⟨a, b, c, rfl, h.1, h.2.1, h.2.2⟩

theorem list_map_eq_two {α β} {f : α → β} {l : List α} {x y : β} (h : l.map f = [x, y]) :
    ∃ a b, l = [a, b] ∧ f a = x ∧ f b = y := by
  match l, h with
  | [a, b], h => simp only [List.map, List.cons.injEq, and_true] at h; exact ⟨a, b, rfl, h.1, h.2⟩

theorem list_map_eq_one {α β} {f : α → β} {l : List α} {x : β} (h : l.map f = [x]) :
    ∃ a, l = [a] ∧ f a = x := by
  match l, h with
  | [a], h => simp only [List.map, List.cons.injEq, and_true] at h; exact ⟨a, rfl, h⟩

theorem fnodeWidth_node (op : Op) (args : List Term) (p : Payload) : fnodeWidth (.node op args p) =
    (match op, p with
    | .bvConst, .bv _ w => some w
    | .symbol, .sym s => if s.params.isEmpty then (match s.ret with | .bv w => some w | _ => none) else none
    | .function, .sym f => (match f.ret with | .bv w => some w | _ => none)
    | .ite, _ => (match args.map fnodeWidth with | [_, w, _] => w | _ => none)
    | .arraySelect, _ =>
      (match args.map Term.typeOf with
       | some (.array _ (.bv w)) :: _ => some w
       | _ => none)
    | .bvComp, _ => some 1
    | _, .ints (w :: _) => some w
    | _, _ => none) := by
  rw [fnodeWidth.eq_def]; rfl

theorem fnodeWidth_of_typeOf : (t : Term) → t.wt = true → ∀ w, t.typeOf = some (.bv w) → fnodeWidth t = some w
  | .node op args p, hwt, w, hty => by
    have hch := Term.wt_child hwt
    rw [typeOf_node_ty hwt] at hty
    cases op <;> simp only [tyNode] at hty
    case symbol =>
      split at hty
      · next s _ => rw [fnodeWidth_node]; split at hty <;> simp_all
      · cases hty
    case function =>
      split at hty
      · next f => rw [fnodeWidth_node]; split at hty <;> simp_all
      · cases hty
    case bvConst =>
      split at hty
      · rw [fnodeWidth_node]; simp_all
      · cases hty
    case ite =>
      split at hty
      · next a b heq =>
        obtain ⟨c, x, y, rfl, _, hx, _⟩ := list_map_eq_three heq
        split at hty
        · cases hty
          have hxw : x.wt = true := hch x (by simp)
          have := fnodeWidth_of_typeOf x hxw w (by rw [wt_typeOf_some x hxw, hx])
          rw [fnodeWidth_node]; simp [this]
        · cases hty
      · cases hty
    case arraySelect =>
      split at hty
      · next i e j heq =>
        obtain ⟨a, b, rfl, ha, _⟩ := list_map_eq_two heq
        split at hty
        · cases hty
          have haw : a.wt = true := hch a (by simp)
          rw [fnodeWidth_node]; simp [wt_typeOf_some a haw, ha]
        · cases hty
      · cases hty
    case bvComp =>
      rw [fnodeWidth_node]
      split at hty
      · split at hty <;> simp_all
      · cases hty
    case bvNot | bvAnd | bvOr | bvXor | bvNeg | bvAdd | bvSub | bvMul | bvUdiv | bvUrem | bvLshl | bvLshr
       | bvSdiv | bvSrem | bvAshr | bvConcat | bvExtract | bvRol | bvRor | bvZext | bvSext =>
      rw [fnodeWidth_node]
      split at hty
      · split at hty <;> simp_all
      · cases hty
    all_goals
      first
      | (cases hty; done)
      | (split at hty <;> first | (cases hty; done) | (split at hty <;> cases hty; done))

/-- new children: well-typed, same types as the old ones -/
structure SameTypes (args as' : List Term) : Prop where
  wt  : ∀ a ∈ as', a.wt = true
  ty  : as'.map Term.typeOf = args.map Term.typeOf

theorem SameTypes.length {args as' : List Term} (h : SameTypes args as') : as'.length = args.length := by
  have := congrArg List.length h.ty
  simpa using this

theorem SameTypes.tyOf {args as' : List Term} (h : SameTypes args as') : as'.map tyOf = args.map tyOf := by
  have : (as'.map Term.typeOf).map (fun o => o.getD .bool) = (args.map Term.typeOf).map (fun o => o.getD .bool) := by
    rw [h.ty]
  rw [List.map_map, List.map_map] at this
  exact this

/-- a raw node over the new children, with a payload that the checker treats like the old one -/
theorem node_type {op : Op} {p p' : Payload} {args as' : List Term}
    (hwt : (Term.node op args p).wt = true) (hs : SameTypes args as')
    (hp : typeOfNode op p' (args.map Term.typeOf) = typeOfNode op p (args.map Term.typeOf)) :
    (Term.node op as' p').wt = true ∧ (Term.node op as' p').typeOf = (Term.node op args p).typeOf := by
  have h1 := Term.wt_typeOf hwt
  constructor
  · rw [wt_node, hs.ty, hp, h1]
    simp only [Bool.and_true, List.all_eq_true, List.mem_map, id]
    rintro _ ⟨a, ha, rfl⟩
    exact hs.wt a ha
  · rw [typeOf_node, typeOf_node, hs.ty, hp]


theorem SameTypes.one {a : Term} {as' : List Term} (h : SameTypes [a] as') :
    ∃ a', as' = [a'] ∧ a'.wt = true ∧ a'.typeOf = a.typeOf := by
  obtain ⟨a', rfl, h1⟩ := list_map_eq_one h.ty
  exact ⟨a', rfl, h.wt a' (by simp), h1⟩

theorem SameTypes.two {a b : Term} {as' : List Term} (h : SameTypes [a, b] as') :
    ∃ a' b', as' = [a', b'] ∧ a'.wt = true ∧ a'.typeOf = a.typeOf ∧ b'.wt = true ∧ b'.typeOf = b.typeOf := by
  obtain ⟨a', b', rfl, h1, h2⟩ := list_map_eq_two h.ty
  exact ⟨a', b', rfl, h.wt a' (by simp), h1, h.wt b' (by simp), h2⟩

theorem SameTypes.cons {a : Term} {rest as' : List Term} (h : SameTypes (a :: rest) as') :
    ∃ a' rest', as' = a' :: rest' ∧ a'.wt = true ∧ a'.typeOf = a.typeOf := by
  match as', h with
  | a' :: rest', h =>
    have := h.ty
    simp only [List.map_cons, List.cons.injEq] at this
    exact ⟨a', rest', rfl, h.wt a' (by simp), this.1⟩

theorem typeOf_of_tyOf {a : Term} (h : a.wt = true) {τ : Ty} (ht : tyOf a = τ) : a.typeOf = some τ := by
  rw [wt_typeOf_some a h, ht]

theorem tyOf_of_typeOf {a : Term} {τ : Ty} (ht : a.typeOf = some τ) : tyOf a = τ := by
  unfold tyOf; rw [ht]; rfl

/-- the type the checker gives the node, in closed form -/
theorem wt_tyNode {op args p} (h : (Term.node op args p).wt = true) :
    (tyNode op p (args.map tyOf)).isSome = true := by
  rw [← typeOf_node_ty h, typeOf_node]; exact Term.wt_typeOf h

theorem allAre_cons_some {x : Ty} {rest : List (Option Ty)} {t : Ty} (h : allAre (some x :: rest) t = true) : x = t := by
  simp only [allAre, List.all_cons, Bool.and_eq_true, beq_iff_eq, Option.some.injEq] at h
  exact h.1


theorem typeOf_realConst (q : Rat) : (Term.node .realConst [] (.q q)).typeOf = some .real := by
  rw [typeOf_node]; rfl
theorem wt_realConst (q : Rat) : (Term.node .realConst [] (.q q)).wt = true := by
  rw [wt_node]; rfl
theorem typeOf_real (q : Rat) : (Term.real q).typeOf = some .real := typeOf_realConst q
theorem wt_real (q : Rat) : (Term.real q).wt = true := wt_realConst q

theorem rebuild_nary {op : Op} {p : Payload} {as' : List Term} (h2 : 2 ≤ as'.length)
    (hop : op = .and ∨ op = .or ∨ op = .plus ∨ op = .times) : rebuild op p as' = .node op as' p := by
  match as', h2 with
  | _ :: _ :: _, _ => rcases hop with rfl | rfl | rfl | rfl <;> rfl

theorem rebuild_type {op : Op} {p : Payload} {args as' : List Term}
    (hwt : (Term.node op args p).wt = true) (hn : normalNode op p args = true) (hs : SameTypes args as') :
    (rebuild op p as').wt = true ∧ (rebuild op p as').typeOf = (Term.node op args p).typeOf := by
  by_cases hsp : special op = false
  · rw [rebuild_generic op p as' hsp]; exact node_type hwt hs rfl
  have hty := wt_tyNode hwt
  cases op <;> simp [special, isBvSameWidthOp] at hsp
  case and | or | plus | times =>
    have h2 : 2 ≤ as'.length := by rw [hs.length]; simpa [normalNode] using hn
    rw [rebuild_nary h2 (by simp)]; exact node_type hwt hs rfl
  case not =>
    match args, hn, hs, hwt, hty with
    | [a], hn, hs, hwt, hty =>
      obtain ⟨a', rfl, hwa', hta'⟩ := hs.one
      have hb : (Term.node .not [a] p).typeOf = some .bool := by
        rw [typeOf_node_ty hwt]; simp only [tyNode] at hty ⊢; split <;> simp_all
      simp only [rebuild]; unfold mkNotN
      split
      · next b pl heq =>
        cases heq
        have hbw : b.wt = true := Term.wt_child hwa' b (by simp)
        refine ⟨hbw, ?_⟩
        have h2 := wt_tyNode hwa'
        simp only [tyNode, List.map_cons, List.map_nil] at h2
        rw [hb]
        apply typeOf_of_tyOf hbw
        have := allAre_cons_some (x := tyOf b) (rest := []) (t := .bool) (by split at h2 <;> simp_all)
        exact this
      · exact node_type hwt hs rfl
  case toReal =>
    match args, hn, hs, hwt, hty with
    | [a], hn, hs, hwt, hty =>
      obtain ⟨a', rfl, hwa', hta'⟩ := hs.one
      simp only [normalNode, Bool.and_eq_true, bne_iff_ne, ne_eq] at hn
      have hb : (Term.node .toReal [a] p).typeOf = some .real := by
        rw [typeOf_node_ty hwt]; simp only [tyNode] at hty ⊢; split <;> simp_all
      simp only [rebuild, mkToReal]
      split
      · next h1 => rw [hta'] at h1; exact absurd h1 hn.1
      · next v _ => exact ⟨wt_real _, by rw [hb]; exact typeOf_real _⟩
      · exact node_type hwt hs rfl
  case div =>
    match args, hn, hs, hwt, hty with
    | [a, b], hn, hs, hwt, hty =>
      obtain ⟨a', b', rfl, hwa', hta', hwb', htb'⟩ := hs.two
      simp only [rebuild]; unfold mkDiv
      split
      · next x c heq =>
        cases heq
        split
        · exact node_type hwt hs rfl
        · have hbr : tyOf b = .real := by
            apply tyOf_of_typeOf; rw [← htb']; exact typeOf_realConst c
          have hwa : a.wt = true := Term.wt_child hwt a (by simp)
          have har : tyOf a = .real := by
            simp only [tyNode, List.map_cons, List.map_nil, hbr] at hty
            by_cases h1 : allAre [some (tyOf a), some .real] .real = true
            · exact allAre_cons_some h1
            · simp only [h1] at hty
              by_cases h2 : allAre [some (tyOf a), some .real] .int = true
              · simp [allAre] at h2
              · simp [h2] at hty
          have hd : (Term.node .div [a, b] p).typeOf = some .real := by
            rw [typeOf_node_ty hwt]; simp [tyNode, har, hbr, allAre]
          have ha' : a'.typeOf = some .real := by rw [hta']; exact typeOf_of_tyOf hwa har
          constructor
          · rw [wt_node]
            simp only [List.map_cons, List.map_nil, List.all_cons, List.all_nil, id, hwa', wt_real, Bool.true_and,
              Bool.and_true, ha', typeOf_real]
            rfl
          · rw [hd, typeOf_node]
            simp only [List.map_cons, List.map_nil, ha', typeOf_real]; rfl
      · exact node_type hwt hs rfl
  case forall_ | exists_ =>
    simp only [normalNode, bne_iff_ne, ne_eq] at hn
    simp only [rebuild]; unfold mkQuant
    split
    · split
      · exact absurd rfl hn
      · exact node_type hwt hs rfl
    · exact node_type hwt hs rfl
  case bvComp =>
    simp only [normalNode, beq_iff_eq] at hn
    simp only [rebuild, ← hn]; exact node_type hwt hs rfl
  case bvExtract =>
    simp only [normalNode] at hn
    simp only [rebuild, mkExtract]
    split at hn
    · next w lo hi => simp only [beq_iff_eq] at hn; simp only [← hn]; exact node_type hwt hs rfl
    · simp at hn
  case arrayValue =>
    have hτ := wt_typeOf_some _ hwt
    obtain ⟨idx, e, d, rest, rfl, rfl, hd, hc, hτ'⟩ := Simp.ArrayRules.typeOf_arrayValue_inv hτ
    obtain ⟨d', rest', rfl, hwd', htd'⟩ := hs.cons
    have hrt : rest'.map Term.typeOf = rest.map Term.typeOf := by
      have := hs.ty
      simp only [List.map_cons, List.cons.injEq] at this
      exact this.2
    have hp := (Simp.ArrayRules.chk_pairs idx e rest' (by rw [hrt]; exact hc)).1
    have hF : ∀ kv ∈ (pyDict (pairsOf rest')).filter (fun kv => kv.2 ≠ d'),
        (kv.1.wt = true ∧ kv.1.typeOf = some idx) ∧ (kv.2.wt = true ∧ kv.2.typeOf = some e) := by
      intro kv hkv
      refine pyDict_all (fun k => k.wt = true ∧ k.typeOf = some idx) (fun v => v.wt = true ∧ v.typeOf = some e)
        (fun q hq => ?_) kv (List.mem_filter.mp hkv).1
      have hm := mem_pairsOf hq
      rw [pairsOf_eq_pairs] at hq
      exact ⟨⟨hs.wt _ (List.mem_cons_of_mem _ hm.1), (hp q hq).1⟩, ⟨hs.wt _ (List.mem_cons_of_mem _ hm.2), (hp q hq).2⟩⟩
    have hty : (mkArray (.ty idx) (d' :: rest')).typeOf = some (.array idx e) := by
      rw [mkArray_cons, unpairs_eq_flatMap, typeOf_node, List.map_cons, htd', hd]
      show (if typeOfNode.chk idx e _ = true then some (Ty.array idx e) else none) = _
      rw [Simp.ArrayRules.chk_flatMap idx e _ (fun kv hkv => ⟨(hF kv hkv).1.2, (hF kv hkv).2.2⟩), if_pos rfl]
    have hrb : rebuild .arrayValue (.ty idx) (d' :: rest') = mkArray (.ty idx) (d' :: rest') := rfl
    rw [hrb]
    refine ⟨?_, by rw [hty, hτ]; exact hτ'.symm ▸ rfl⟩
    have hsome : (typeOfNode .arrayValue (.ty idx) ((d' :: unpairs ((pyDict (pairsOf rest')).filter
        (fun kv => kv.2 ≠ d'))).map Term.typeOf)).isSome = true := by
      rw [mkArray_cons, typeOf_node] at hty; rw [hty]; rfl
    rw [mkArray_cons, wt_node, hsome]
    simp only [Bool.and_true, List.all_eq_true, List.mem_map, id]
    rintro _ ⟨x, hx, rfl⟩
    rcases List.mem_cons.mp hx with rfl | hx
    · exact hwd'
    · obtain ⟨kv, hkv, rfl | rfl⟩ := mem_unpairs hx
      · exact (hF kv hkv).1.1
      · exact (hF kv hkv).2.1
  case bvConcat =>
    rcases args with _ | ⟨a, _ | ⟨b, _ | ⟨c, r⟩⟩⟩ <;> try (simp [normalNode] at hn; done)
    obtain ⟨a', b', rfl, hwa', hta', hwb', htb'⟩ := hs.two
    have hwa : a.wt = true := Term.wt_child hwt a (by simp)
    have hwb : b.wt = true := Term.wt_child hwt b (by simp)
    simp only [normalNode] at hn
    simp only [tyNode, List.map_cons, List.map_nil] at hty
    split at hty
    · next w tl l r heq =>
      simp only [List.cons.injEq, and_true] at heq
      have hla := fnodeWidth_of_typeOf a hwa l (typeOf_of_tyOf hwa heq.1)
      have hrb := fnodeWidth_of_typeOf b hwb r (typeOf_of_tyOf hwb heq.2)
      have hla' := fnodeWidth_of_typeOf a' hwa' l (by rw [hta']; exact typeOf_of_tyOf hwa heq.1)
      have hrb' := fnodeWidth_of_typeOf b' hwb' r (by rw [htb']; exact typeOf_of_tyOf hwb heq.2)
      simp only [hla, hrb, beq_iff_eq] at hn
      simp only [rebuild, mkConcat, hla', hrb', ← hn]
      exact node_type hwt hs rfl
    · simp at hty
  case bvRol | bvRor =>
    rcases args with _ | ⟨a, _ | ⟨b, r⟩⟩ <;> try (simp [normalNode] at hn; done)
    obtain ⟨a', rfl, hwa', hta'⟩ := hs.one
    have hwa : a.wt = true := Term.wt_child hwt a (by simp)
    simp only [normalNode] at hn
    simp only [tyNode, List.map_cons, List.map_nil] at hty
    split at hty
    · next w k x heq =>
      simp only [List.cons.injEq, and_true] at heq
      have hx := fnodeWidth_of_typeOf a hwa x (typeOf_of_tyOf hwa heq)
      have hx' := fnodeWidth_of_typeOf a' hwa' x (by rw [hta']; exact typeOf_of_tyOf hwa heq)
      simp only [hx, beq_iff_eq] at hn
      simp only [rebuild, mkRot, hx', ← hn]
      exact node_type hwt hs rfl
    · simp at hty
  case bvZext | bvSext =>
    rcases args with _ | ⟨a, _ | ⟨b, r⟩⟩ <;> try (simp [normalNode] at hn; done)
    obtain ⟨a', rfl, hwa', hta'⟩ := hs.one
    have hwa : a.wt = true := Term.wt_child hwt a (by simp)
    simp only [normalNode] at hn
    simp only [tyNode, List.map_cons, List.map_nil] at hty
    split at hty
    · next w tl x rest heq =>
      simp only [List.cons.injEq, and_true] at heq
      have hx := fnodeWidth_of_typeOf a hwa x (typeOf_of_tyOf hwa heq.1)
      have hx' := fnodeWidth_of_typeOf a' hwa' x (by rw [hta']; exact typeOf_of_tyOf hwa heq.1)
      simp only [hx] at hn
      split at hn
      · next w2 inc wa hp hw =>
        cases hp; cases hw
        simp only [beq_iff_eq] at hn
        simp only [rebuild, mkExt, hx', ← hn]
        exact node_type hwt hs rfl
      · simp at hn
    · simp at hty
  all_goals
    simp only [normalNode, isBvSameWidthOp, Bool.not_true, Bool.false_or] at hn
    rcases args with _ | ⟨a, rest⟩
    · simp at hn
    obtain ⟨a', rest', rfl, hwa', hta'⟩ := hs.cons
    have hwa : a.wt = true := Term.wt_child hwt a (by simp)
    simp only at hn
    simp only [tyNode, List.map_cons] at hty
    split at hty
    · next w tl =>
      have hall : allAre (some (tyOf a) :: List.map some (List.map tyOf rest)) (.bv w) = true := by
        by_cases h : allAre (some (tyOf a) :: List.map some (List.map tyOf rest)) (.bv w) = true
        · exact h
        · rw [if_neg h] at hty; cases hty
      have hx : tyOf a = .bv w := allAre_cons_some hall
      have h1 := fnodeWidth_of_typeOf a hwa w (typeOf_of_tyOf hwa hx)
      have h1' := fnodeWidth_of_typeOf a' hwa' w (by rw [hta']; exact typeOf_of_tyOf hwa hx)
      simp only [h1, beq_iff_eq] at hn
      simp only [rebuild, isBvSameWidthOp, if_true, mkBvOp, bvPayload, h1', ← hn]
      exact node_type hwt hs rfl
    · simp at hty


/-- what `rebuild` returns on new children of the same types: the raw node with the *old* payload,
or one of the normalisations that can fire (`Array(...)` always goes through the `dict`) -/
inductive Shape (op : Op) (p : Payload) (as' : List Term) : Term → Prop
  | node : Shape op p as' (.node op as' p)
  | notNot (b : Term) (pl : Payload) : op = .not → as' = [.node .not [b] pl] → Shape op p as' b
  | toRealConst (v : Int) : op = .toReal → as' = [.node .intConst [] (.i v)] → Shape op p as' (.real v)
  | divConst (a' : Term) (c : Rat) : op = .div → c ≠ 0 → as' = [a', .node .realConst [] (.q c)] →
      Shape op p as' (.node .times [a', .real (1 / c)] .none)
  | array : op = .arrayValue → Shape op p as' (mkArray p as')

theorem rebuild_shape {op : Op} {p : Payload} {args as' : List Term}
    (hwt : (Term.node op args p).wt = true) (hn : normalNode op p args = true) (hs : SameTypes args as') :
    Shape op p as' (rebuild op p as') := by
  by_cases hsp : special op = false
  · rw [rebuild_generic op p as' hsp]; exact .node
  have hty := wt_tyNode hwt
  cases op <;> simp [special, isBvSameWidthOp] at hsp
  case and | or | plus | times =>
    have h2 : 2 ≤ as'.length := by rw [hs.length]; simpa [normalNode] using hn
    rw [rebuild_nary h2 (by simp)]; exact .node
  case not =>
    match args, hn, hs, hwt, hty with
    | [a], hn, hs, hwt, hty =>
      obtain ⟨a', rfl, hwa', hta'⟩ := hs.one
      simp only [rebuild]; unfold mkNotN
      split
      · next b pl heq =>
        cases heq
        exact .notNot b pl rfl rfl
      · exact .node
  case toReal =>
    match args, hn, hs, hwt, hty with
    | [a], hn, hs, hwt, hty =>
      obtain ⟨a', rfl, hwa', hta'⟩ := hs.one
      simp only [normalNode, Bool.and_eq_true, bne_iff_ne, ne_eq] at hn
      simp only [rebuild, mkToReal]
      split
      · next h1 => rw [hta'] at h1; exact absurd h1 hn.1
      · exact .toRealConst _ rfl rfl
      · exact .node
  case div =>
    match args, hn, hs, hwt, hty with
    | [a, b], hn, hs, hwt, hty =>
      obtain ⟨a', b', rfl, hwa', hta', hwb', htb'⟩ := hs.two
      simp only [rebuild]; unfold mkDiv
      split
      · next x c heq =>
        cases heq
        split
        · exact .node
        · next hc => exact .divConst a' c rfl hc rfl
      · exact .node
  case forall_ | exists_ =>
    simp only [normalNode, bne_iff_ne, ne_eq] at hn
    simp only [rebuild]; unfold mkQuant
    split
    · split
      · exact absurd rfl hn
      · exact .node
    · exact .node
  case bvComp =>
    simp only [normalNode, beq_iff_eq] at hn
    simp only [rebuild, ← hn]; exact .node
  case bvExtract =>
    simp only [normalNode] at hn
    simp only [rebuild, mkExtract]
    split at hn
    · next w lo hi => simp only [beq_iff_eq] at hn; simp only [← hn]; exact .node
    · simp at hn
  case arrayValue => exact .array rfl
  case bvConcat =>
    rcases args with _ | ⟨a, _ | ⟨b, _ | ⟨c, r⟩⟩⟩ <;> try (simp [normalNode] at hn; done)
    obtain ⟨a', b', rfl, hwa', hta', hwb', htb'⟩ := hs.two
    have hwa : a.wt = true := Term.wt_child hwt a (by simp)
    have hwb : b.wt = true := Term.wt_child hwt b (by simp)
    simp only [normalNode] at hn
    simp only [tyNode, List.map_cons, List.map_nil] at hty
    split at hty
    · next w tl l r heq =>
      simp only [List.cons.injEq, and_true] at heq
      have hla := fnodeWidth_of_typeOf a hwa l (typeOf_of_tyOf hwa heq.1)
      have hrb := fnodeWidth_of_typeOf b hwb r (typeOf_of_tyOf hwb heq.2)
      have hla' := fnodeWidth_of_typeOf a' hwa' l (by rw [hta']; exact typeOf_of_tyOf hwa heq.1)
      have hrb' := fnodeWidth_of_typeOf b' hwb' r (by rw [htb']; exact typeOf_of_tyOf hwb heq.2)
      simp only [hla, hrb, beq_iff_eq] at hn
      simp only [rebuild, mkConcat, hla', hrb', ← hn]
      exact .node
    · simp at hty
  case bvRol | bvRor =>
    rcases args with _ | ⟨a, _ | ⟨b, r⟩⟩ <;> try (simp [normalNode] at hn; done)
    obtain ⟨a', rfl, hwa', hta'⟩ := hs.one
    have hwa : a.wt = true := Term.wt_child hwt a (by simp)
    simp only [normalNode] at hn
    simp only [tyNode, List.map_cons, List.map_nil] at hty
    split at hty
    · next w k x heq =>
      simp only [List.cons.injEq, and_true] at heq
      have hx := fnodeWidth_of_typeOf a hwa x (typeOf_of_tyOf hwa heq)
      have hx' := fnodeWidth_of_typeOf a' hwa' x (by rw [hta']; exact typeOf_of_tyOf hwa heq)
      simp only [hx, beq_iff_eq] at hn
      simp only [rebuild, mkRot, hx', ← hn]
      exact .node
    · simp at hty
  case bvZext | bvSext =>
    rcases args with _ | ⟨a, _ | ⟨b, r⟩⟩ <;> try (simp [normalNode] at hn; done)
    obtain ⟨a', rfl, hwa', hta'⟩ := hs.one
    have hwa : a.wt = true := Term.wt_child hwt a (by simp)
    simp only [normalNode] at hn
    simp only [tyNode, List.map_cons, List.map_nil] at hty
    split at hty
    · next w tl x rest heq =>
      simp only [List.cons.injEq, and_true] at heq
      have hx := fnodeWidth_of_typeOf a hwa x (typeOf_of_tyOf hwa heq.1)
      have hx' := fnodeWidth_of_typeOf a' hwa' x (by rw [hta']; exact typeOf_of_tyOf hwa heq.1)
      simp only [hx] at hn
      split at hn
      · next w2 inc wa hp hw =>
        cases hp; cases hw
        simp only [beq_iff_eq] at hn
        simp only [rebuild, mkExt, hx', ← hn]
        exact .node
      · simp at hn
    · simp at hty
  all_goals
    simp only [normalNode, isBvSameWidthOp, Bool.not_true, Bool.false_or] at hn
    rcases args with _ | ⟨a, rest⟩
    · simp at hn
    obtain ⟨a', rest', rfl, hwa', hta'⟩ := hs.cons
    have hwa : a.wt = true := Term.wt_child hwt a (by simp)
    simp only at hn
    simp only [tyNode, List.map_cons] at hty
    split at hty
    · next w tl =>
      have hall : allAre (some (tyOf a) :: List.map some (List.map tyOf rest)) (.bv w) = true := by
        by_cases h : allAre (some (tyOf a) :: List.map some (List.map tyOf rest)) (.bv w) = true
        · exact h
        · rw [if_neg h] at hty; cases hty
      have hx : tyOf a = .bv w := allAre_cons_some hall
      have h1 := fnodeWidth_of_typeOf a hwa w (typeOf_of_tyOf hwa hx)
      have h1' := fnodeWidth_of_typeOf a' hwa' w (by rw [hta']; exact typeOf_of_tyOf hwa hx)
      simp only [h1, beq_iff_eq] at hn
      simp only [rebuild, isBvSameWidthOp, if_true, mkBvOp, bvPayload, h1', ← hn]
      exact .node
    · simp at hty



end PySMT.Build
