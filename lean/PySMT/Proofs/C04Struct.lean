import PySMT.Proofs.C04Table
/-!
# C04 — structure of a node (its unfolded tree) and "same object ⇔ same structure"
-/
namespace PySMT.Manager

/-- payload with every node reference erased -/
def Payload.erase : Payload → Payload
  | .vars l => .vars (l.map fun _ => 0)
  | .fn _ => .fn 0
  | p => p

/-- operator, arity and parameters of a content: everything except *which* nodes it refers to -/
def Content.shape (c : Content) : Content := ⟨c.nodeType, c.args.map (fun _ => 0), c.payload.erase⟩

/-- A formula as a tree: the shape of the root and the trees of all nodes it refers to
    (children first, then payload nodes: bound variables / function symbol). -/
inductive Term
  | node (shape : Content) (kids : List Term)
  deriving Repr

instance : Inhabited Term := ⟨.node ⟨0, [], .none⟩ []⟩

def structAux (s : Mgr) : Nat → Nid → Term
  | 0, _ => default
  | fuel + 1, i =>
    match s.content? i with
    | none => default
    | some c => .node c.shape (c.ids.map (structAux s fuel))

/-- The unfolded tree of node `i`. -/
def Mgr.struct (s : Mgr) (i : Nid) : Term := structAux s (i + 1) i

theorem Payload.erase_ids_eq {p q : Payload} (h1 : p.erase = q.erase) (h2 : p.ids = q.ids) : p = q := by
  cases p <;> cases q <;> simp_all [Payload.erase, Payload.ids]

theorem Payload.erase_ids_length {p q : Payload} (h1 : p.erase = q.erase) : p.ids.length = q.ids.length := by
  cases p <;> cases q <;> simp_all [Payload.erase, Payload.ids]
  have := congrArg List.length h1
  simpa using this

/-- A content is determined by its shape and the nodes it refers to. -/
theorem Content.eq_of_shape_ids {c d : Content} (h1 : c.shape = d.shape) (h2 : c.ids = d.ids) : c = d := by
  obtain ⟨nt, args, pl⟩ := c
  obtain ⟨nt', args', pl'⟩ := d
  simp only [Content.shape, Content.mk.injEq] at h1
  obtain ⟨hnt, hargs, hpl⟩ := h1
  have hlen : args.length = args'.length := by simpa using congrArg List.length hargs
  simp only [Content.ids] at h2
  have h3 := List.append_inj h2 hlen
  subst hnt
  rw [h3.1, Payload.erase_ids_eq hpl h3.2]

theorem structAux_succ (s : Mgr) (fuel : Nat) (i : Nid) (c : Content) (h : s.content? i = some c) :
    structAux s (fuel + 1) i = .node c.shape (c.ids.map (structAux s fuel)) := by
  simp [structAux, h]

/-- With enough fuel the unfolding does not depend on the fuel. -/
theorem structAux_fuel {s : Mgr} (hs : Inv s) :
    ∀ (n : Nat) (i : Nid) (f g : Nat), i < n → i < f → i < g → structAux s f i = structAux s g i := by
  intro n
  induction n with
  | zero => intro i f g h; omega
  | succ n ih =>
    intro i f g hn hf hg
    obtain ⟨f, rfl⟩ : ∃ f', f = f' + 1 := ⟨f - 1, by omega⟩
    obtain ⟨g, rfl⟩ : ∃ g', g = g' + 1 := ⟨g - 1, by omega⟩
    cases hc : s.content? i with
    | none => simp [structAux, hc]
    | some c =>
      rw [structAux_succ s f i c hc, structAux_succ s g i c hc]
      congr 1
      apply List.map_congr_left
      intro j hj
      have := (hs.closed c i (content?_mem hc) j hj).2
      exact ih j f g (by omega) (by omega) (by omega)

theorem struct_eq {s : Mgr} (hs : Inv s) {i : Nid} {c : Content} (h : (c, i) ∈ s.formulae) :
    s.struct i = .node c.shape (c.ids.map s.struct) := by
  have hc := content?_of_mem hs h
  unfold Mgr.struct
  rw [structAux_succ s i i c hc]
  congr 1
  apply List.map_congr_left
  intro j hj
  have := (hs.closed c i h j hj).2
  exact structAux_fuel hs (i + 1) j i (j + 1) (by omega) (by omega) (by omega)

/-- Later constructions never change the structure of an existing node. -/
theorem struct_stable {s s' : Mgr} (hs : Inv s) (hs' : Inv s') (he : Ext s s') :
    ∀ (n : Nat) (i : Nid), i < n → 0 < i → i < s.nextId → s'.struct i = s.struct i := by
  intro n
  induction n with
  | zero => intro i h; omega
  | succ n ih =>
    intro i hn h0 h1
    obtain ⟨c, hc⟩ := hs.full i h0 h1
    rw [struct_eq hs hc, struct_eq hs' (he.sub _ hc)]
    congr 1
    apply List.map_congr_left
    intro j hj
    have hj' := hs.closed c i hc j hj
    exact ih j (by omega) hj'.1 (by omega)

theorem map_eq_map_of_inj {α β} {f : α → β} :
    ∀ {l1 l2 : List α}, l1.map f = l2.map f →
      (∀ a ∈ l1, ∀ b ∈ l2, f a = f b → a = b) → l1 = l2
  | [], [], _, _ => rfl
  | [], _ :: _, h, _ => by simp at h
  | _ :: _, [], h, _ => by simp at h
  | a :: t1, b :: t2, h, hinj => by
    simp only [List.map_cons, List.cons.injEq] at h
    have hab := hinj a (by simp) b (by simp) h.1
    have ht := map_eq_map_of_inj h.2 (fun x hx y hy => hinj x (List.mem_cons_of_mem _ hx) y (List.mem_cons_of_mem _ hy))
    rw [hab, ht]

/-- **Same structure ⇒ same node** (and trivially conversely): in a state satisfying the
    invariant two node ids unfold to the same tree only if they are equal. -/
theorem struct_inj {s : Mgr} (hs : Inv s) :
    ∀ (n : Nat) (i j : Nid), i < n → j < n → 0 < i → i < s.nextId → 0 < j → j < s.nextId →
      s.struct i = s.struct j → i = j := by
  intro n
  induction n with
  | zero => intro i j h; omega
  | succ n ih =>
    intro i j hi hj i0 i1 j0 j1 h
    obtain ⟨c, hc⟩ := hs.full i i0 i1
    obtain ⟨d, hd⟩ := hs.full j j0 j1
    rw [struct_eq hs hc, struct_eq hs hd] at h
    simp only [Term.node.injEq] at h
    have hids : c.ids = d.ids := by
      apply map_eq_map_of_inj h.2
      intro a ha b hb hab
      have ha' := hs.closed c i hc a ha
      have hb' := hs.closed d j hd b hb
      exact ih a b (by omega) (by omega) ha'.1 (by omega) hb'.1 (by omega) hab
    have hcd : c = d := Content.eq_of_shape_ids h.1 hids
    exact hs.tfun c i j hc (hcd ▸ hd)

theorem struct_eq_iff {s : Mgr} (hs : Inv s) {i j : Nid} (i0 : 0 < i) (i1 : i < s.nextId)
    (j0 : 0 < j) (j1 : j < s.nextId) : s.struct i = s.struct j ↔ i = j :=
  ⟨struct_inj hs (max i j + 1) i j (by omega) (by omega) i0 i1 j0 j1, fun h => h ▸ rfl⟩

/-! ## building a tree -/

/-- put node references back into a shape -/
def Content.withIds (sh : Content) (ids : List Nid) : Content :=
  let n := sh.args.length
  ⟨sh.nodeType, ids.take n,
   match sh.payload with
   | .vars l => .vars ((ids.drop n).take l.length)
   | .fn _ => .fn ((ids.drop n).headD 0)
   | p => p⟩

/-- `sh` is the shape of some content that refers to exactly `k` nodes -/
def Content.IsShape (sh : Content) (k : Nat) : Prop :=
  sh.shape = sh ∧ sh.ids.length = k

theorem Content.shape_isShape (c : Content) : c.shape.IsShape c.ids.length := by
  obtain ⟨nt, args, pl⟩ := c
  constructor
  · cases pl <;> simp [Content.shape, Payload.erase]
  · cases pl <;> simp [Content.shape, Payload.erase, Content.ids, Payload.ids]

theorem zeros_take {args ids : List Nat} (h : args.map (fun _ => 0) = args) (hl : args.length ≤ ids.length) :
    (ids.take args.length).map (fun _ => 0) = args := by
  have e : (ids.take args.length).map (fun _ => 0) = args.map (fun _ => 0) := by
    rw [List.map_const', List.map_const', List.length_take, Nat.min_eq_left hl]
  rw [e, h]

theorem Content.withIds_spec {sh : Content} {ids : List Nid} (h : sh.IsShape ids.length) :
    (sh.withIds ids).shape = sh ∧ (sh.withIds ids).ids = ids := by
  obtain ⟨nt, args, pl⟩ := sh
  obtain ⟨h1, h2⟩ := h
  simp only [Content.shape, Content.mk.injEq, true_and] at h1
  obtain ⟨h1a, h1p⟩ := h1
  simp only [Content.ids, List.length_append] at h2
  have hlen : args.length ≤ ids.length := by omega
  have hargs := zeros_take h1a hlen
  have happ := List.take_append_drop args.length ids
  simp only [Content.withIds, Content.shape, Content.ids, Content.mk.injEq, true_and]
  cases pl with
  | vars l =>
    simp only [Payload.erase, Payload.vars.injEq] at h1p
    simp only [Payload.ids] at h2
    have hd : (ids.drop args.length).length = l.length := by simp; omega
    refine ⟨⟨hargs, ?_⟩, ?_⟩
    · simp only [Payload.erase, Payload.vars.injEq]
      exact zeros_take h1p (by omega)
    · simp only [Payload.ids]
      have ht : (ids.drop args.length).take l.length = ids.drop args.length :=
        List.take_of_length_le (by omega)
      rw [ht]
      exact happ
  | fn f =>
    simp only [Payload.erase, Payload.fn.injEq] at h1p
    simp only [Payload.ids, List.length_cons, List.length_nil] at h2
    have hd : (ids.drop args.length).length = 1 := by simp; omega
    refine ⟨⟨hargs, ?_⟩, ?_⟩
    · simp only [Payload.erase, Payload.fn.injEq]; exact h1p
    · simp only [Payload.ids]
      match hd' : ids.drop args.length, hd with
      | [x], _ =>
        rw [hd'] at happ
        simpa using happ
  | none | bool _ | int _ | rat _ | str _ | bv _ _ | nums _ | sym _ _ | ty _ | alg _ =>
    simp only [Payload.ids, List.length_nil, Nat.add_zero] at h2
    refine ⟨⟨hargs, by simp [Payload.erase]⟩, ?_⟩
    simp only [Payload.ids, List.append_nil]
    exact List.take_of_length_le (by omega)

mutual
  /-- create the tree bottom-up with `create_node` only -/
  def buildT : Term → Prog Nid
    | .node sh kids => (buildL kids).bind fun ids => create (sh.withIds ids)
  def buildL : List Term → Prog (List Nid)
    | [] => .pure []
    | t :: ts => (buildT t).bind fun i => (buildL ts).bind fun is => .pure (i :: is)
end

mutual
  /-- every node of the tree is a genuine shape with the right number of references -/
  def Term.WF : Term → Prop
    | .node sh kids => sh.IsShape kids.length ∧ Term.WFL kids
  def Term.WFL : List Term → Prop
    | [] => True
    | t :: ts => t.WF ∧ Term.WFL ts
end

theorem Prog.run_bind {α β : Type} (p : Prog α) (f : α → Prog β) : ∀ (s : Mgr),
    (p.bind f).run s =
      match p.run s with
      | (.ok a, s') => (f a).run s'
      | (.error e, s') => (.error e, s') := by
  induction p with
  | pure a => intro s; simp [Prog.bind, Prog.run]
  | fail e => intro s; simp [Prog.bind, Prog.run]
  | read k ih => intro s; simp only [Prog.bind, Prog.run]; exact ih s s
  | prim p k ih =>
    intro s
    simp only [Prog.bind, Prog.run]
    cases hp : p.exec s with
    | mk r s' =>
      cases r with
      | error e => simp
      | ok i => simp only; exact ih i s'

theorem create_run (c : Content) (s : Mgr) : (create c).run s = createNode c s := by
  simp only [create, Prog.run, Prim.exec]
  cases h : createNode c s with
  | mk r s' => cases r <;> simp

/-- `create_node` succeeds when the references are existing nodes and the type checker
    accepts the content. -/
theorem createNode_ok (c : Content) (s : Mgr) (hv : ∀ j ∈ c.ids, 0 < j ∧ j < s.nextId) (htc : s.tc c = true) :
    ∃ i, (createNode c s).1 = .ok i := by
  have hu : ∃ i, (createNodeU c s).1 = .ok i := by
    unfold createNodeU
    have : c.ids.all s.validId = true := by
      rw [List.all_eq_true]; intro j hj; exact validId_iff.mpr (hv j hj)
    rw [if_pos this]
    split <;> simp
  obtain ⟨i, hi⟩ := hu
  exact ⟨i, (createNode_ok_iff c s i).mpr ⟨hi, htc⟩⟩

structure BuildOK (s : Mgr) (s' : Mgr) : Prop where
  inv : Inv s'
  ext : Ext s s'

mutual
  /-- whatever the type checker says: the state stays good, and a returned node has tree `t` -/
  theorem buildT_cond : ∀ (t : Term), t.WF → ∀ (s : Mgr), Inv s → ∀ r s', (buildT t).run s = (r, s') →
      BuildOK s s' ∧ ∀ i, r = .ok i → 0 < i ∧ i < s'.nextId ∧ s'.struct i = t
    | .node sh kids, hwf, s, hs, r, s', hrun => by
      obtain ⟨hsh, hk⟩ := hwf
      simp only [buildT] at hrun
      rw [Prog.run_bind] at hrun
      cases h1 : (buildL kids).run s with
      | mk r1 s1 =>
        have w1 := buildL_cond kids hk s hs r1 s1 h1
        rw [h1] at hrun
        cases r1 with
        | error e =>
          simp only [Prod.mk.injEq] at hrun
          obtain ⟨rfl, rfl⟩ := hrun
          exact ⟨w1.1, by simp⟩
        | ok ids =>
          simp only at hrun
          rw [create_run] at hrun
          obtain ⟨hval, hstruct⟩ := w1.2 ids rfl
          have hlen : ids.length = kids.length := by rw [← hstruct]; simp
          have hspec := Content.withIds_spec (sh := sh) (ids := ids) (hlen ▸ hsh)
          have hc := createNode_spec (sh.withIds ids) s1 w1.1.inv
          rw [hrun] at hc
          obtain ⟨hi2, he2, hmem, _⟩ := hc
          refine ⟨⟨hi2, w1.1.ext.trans he2⟩, fun i hi => ?_⟩
          have hm := hmem i hi
          refine ⟨(hi2.range _ _ hm).1, (hi2.range _ _ hm).2, ?_⟩
          rw [struct_eq hi2 hm, hspec.1, hspec.2]
          congr 1
          rw [← hstruct]
          apply List.map_congr_left
          intro j hj
          have := hval j hj
          exact struct_stable w1.1.inv hi2 he2 (j + 1) j (by omega) this.1 this.2
  theorem buildL_cond : ∀ (ts : List Term), Term.WFL ts → ∀ (s : Mgr), Inv s → ∀ r s', (buildL ts).run s = (r, s') →
      BuildOK s s' ∧ ∀ is, r = .ok is → (∀ i ∈ is, 0 < i ∧ i < s'.nextId) ∧ is.map s'.struct = ts
    | [], _, s, hs, r, s', hrun => by
      simp only [buildL, Prog.run, Prod.mk.injEq] at hrun
      obtain ⟨rfl, rfl⟩ := hrun
      exact ⟨⟨hs, Ext.refl s⟩, fun is h => by cases h; simp⟩
    | t :: ts, hwf, s, hs, r, s', hrun => by
      obtain ⟨ht, hts⟩ := hwf
      simp only [buildL] at hrun
      rw [Prog.run_bind] at hrun
      cases h1 : (buildT t).run s with
      | mk r1 s1 =>
        have w1 := buildT_cond t ht s hs r1 s1 h1
        rw [h1] at hrun
        cases r1 with
        | error e =>
          simp only [Prod.mk.injEq] at hrun
          obtain ⟨rfl, rfl⟩ := hrun
          exact ⟨w1.1, by simp⟩
        | ok i =>
          simp only at hrun
          rw [Prog.run_bind] at hrun
          obtain ⟨i0, i1, hst1⟩ := w1.2 i rfl
          cases h2 : (buildL ts).run s1 with
          | mk r2 s2 =>
            have w2 := buildL_cond ts hts s1 w1.1.inv r2 s2 h2
            rw [h2] at hrun
            cases r2 with
            | error e =>
              simp only [Prod.mk.injEq] at hrun
              obtain ⟨rfl, rfl⟩ := hrun
              exact ⟨⟨w2.1.inv, w1.1.ext.trans w2.1.ext⟩, by simp⟩
            | ok is =>
              simp only [Prog.run, Prod.mk.injEq] at hrun
              obtain ⟨rfl, rfl⟩ := hrun
              obtain ⟨hval2, hst2⟩ := w2.2 is rfl
              refine ⟨⟨w2.1.inv, w1.1.ext.trans w2.1.ext⟩, fun js hjs => ?_⟩
              cases hjs
              refine ⟨?_, ?_⟩
              · intro j hj
                rcases List.mem_cons.mp hj with rfl | hj
                · exact ⟨i0, Nat.lt_of_lt_of_le i1 w2.1.ext.next⟩
                · exact hval2 j hj
              · simp only [List.map_cons, List.cons.injEq]
                refine ⟨?_, hst2⟩
                rw [struct_stable w1.1.inv w2.1.inv w2.1.ext (i + 1) i (by omega) i0 i1, hst1]
end

/-- the type checker of `s` accepts every content (the unchecked / well-sorted reading) -/
def AcceptsAll (s : Mgr) : Prop := ∀ c, s.tc c = true

theorem AcceptsAll.run {α : Type} {s : Mgr} (h : AcceptsAll s) (p : Prog α) : AcceptsAll (p.run s).2 := by
  intro c; rw [Prog.run_tc]; exact h c

mutual
  /-- with an all-accepting type checker the build never fails -/
  theorem buildT_ok : ∀ (t : Term), t.WF → ∀ (s : Mgr), Inv s → AcceptsAll s → ∃ i s', (buildT t).run s = (.ok i, s')
    | .node sh kids, hwf, s, hs, ha => by
      obtain ⟨hsh, hk⟩ := hwf
      obtain ⟨ids, s1, hrun⟩ := buildL_ok kids hk s hs ha
      have w1 := buildL_cond kids hk s hs _ _ hrun
      obtain ⟨hval, hstruct⟩ := w1.2 ids rfl
      have hlen : ids.length = kids.length := by rw [← hstruct]; simp
      have hspec := Content.withIds_spec (sh := sh) (ids := ids) (hlen ▸ hsh)
      have ha1 : AcceptsAll s1 := by have := ha.run (buildL kids); rw [hrun] at this; exact this
      obtain ⟨i, hi⟩ := createNode_ok (sh.withIds ids) s1 (by rw [hspec.2]; exact hval) (ha1 _)
      refine ⟨i, (createNode (sh.withIds ids) s1).2, ?_⟩
      simp only [buildT]
      rw [Prog.run_bind, hrun]
      simp only
      rw [create_run, ← hi]
  theorem buildL_ok : ∀ (ts : List Term), Term.WFL ts → ∀ (s : Mgr), Inv s → AcceptsAll s →
      ∃ is s', (buildL ts).run s = (.ok is, s')
    | [], _, s, _, _ => ⟨[], s, by simp [buildL, Prog.run]⟩
    | t :: ts, hwf, s, hs, ha => by
      obtain ⟨ht, hts⟩ := hwf
      obtain ⟨i, s1, hr1⟩ := buildT_ok t ht s hs ha
      have w1 := buildT_cond t ht s hs _ _ hr1
      have ha1 : AcceptsAll s1 := by have := ha.run (buildT t); rw [hr1] at this; exact this
      obtain ⟨is, s2, hr2⟩ := buildL_ok ts hts s1 w1.1.inv ha1
      refine ⟨i :: is, s2, ?_⟩
      simp only [buildL]
      rw [Prog.run_bind, hr1]
      simp only
      rw [Prog.run_bind, hr2]
      simp [Prog.run]
end

/-- **Hash-consing, both directions, for arbitrary histories.**  Build tree `t₁`, run any
    program `p` (unrelated constructions, failing or not), build tree `t₂`: whenever both builds
    return a node, the two results are the same node exactly when the trees are equal —
    whatever the type checker accepts or rejects on the way. -/
theorem build_same_iff {α : Type} {s₀ : Mgr} (h₀ : Reachable s₀) (t₁ t₂ : Term) (w₁ : t₁.WF) (w₂ : t₂.WF)
    (p : Prog α) {i₁ i₂ : Nid} {s₁ s₃ : Mgr} (hr1 : (buildT t₁).run s₀ = (.ok i₁, s₁))
    (hr2 : (buildT t₂).run (p.run s₁).2 = (.ok i₂, s₃)) : i₁ = i₂ ↔ t₁ = t₂ := by
  obtain ⟨ok1, h1⟩ := buildT_cond t₁ w₁ s₀ h₀.inv _ _ hr1
  obtain ⟨a0, a1, st1⟩ := h1 i₁ rfl
  have hp := Prog.run_spec p s₁ ok1.inv
  obtain ⟨ok2, h2⟩ := buildT_cond t₂ w₂ (p.run s₁).2 hp.1 _ _ hr2
  obtain ⟨b0, b1, st2⟩ := h2 i₂ rfl
  have he : Ext s₁ s₃ := hp.2.trans ok2.ext
  have a1' : i₁ < s₃.nextId := Nat.lt_of_lt_of_le a1 he.next
  have st1' : s₃.struct i₁ = t₁ := by
    rw [struct_stable ok1.inv ok2.inv he (i₁ + 1) i₁ (by omega) a0 a1, st1]
  rw [← struct_eq_iff ok2.inv a0 a1' b0 b1, st1', st2]

/-- … and with an all-accepting type checker both builds do return. -/
theorem build_succeeds {α : Type} {s₀ : Mgr} (h₀ : Reachable s₀) (ha : AcceptsAll s₀) (t₁ t₂ : Term)
    (w₁ : t₁.WF) (w₂ : t₂.WF) (p : Prog α) :
    ∃ i₁ s₁ i₂ s₃, (buildT t₁).run s₀ = (.ok i₁, s₁) ∧ (buildT t₂).run (p.run s₁).2 = (.ok i₂, s₃) := by
  obtain ⟨i₁, s₁, hr1⟩ := buildT_ok t₁ w₁ s₀ h₀.inv ha
  have ok1 := (buildT_cond t₁ w₁ s₀ h₀.inv _ _ hr1).1
  have ha1 : AcceptsAll s₁ := by have := ha.run (buildT t₁); rw [hr1] at this; exact this
  have hp := Prog.run_spec p s₁ ok1.inv
  obtain ⟨i₂, s₃, hr2⟩ := buildT_ok t₂ w₂ (p.run s₁).2 hp.1 (ha1.run p)
  exact ⟨i₁, s₁, i₂, s₃, hr1, hr2⟩

theorem Term.WFL_map {f : Nid → Term} : ∀ (l : List Nid), (∀ j ∈ l, (f j).WF) → Term.WFL (l.map f)
  | [], _ => by simp [Term.WFL]
  | a :: t, h => by
    simp only [List.map_cons, Term.WFL]
    exact ⟨h a (by simp), Term.WFL_map t (fun j hj => h j (List.mem_cons_of_mem _ hj))⟩

/-- The tree of every existing node is well formed (so `Term.WF` is not a vacuous hypothesis:
    it holds of everything any history can produce). -/
theorem struct_WF {s : Mgr} (hs : Inv s) :
    ∀ (n : Nat) (i : Nid), i < n → 0 < i → i < s.nextId → (s.struct i).WF := by
  intro n
  induction n with
  | zero => intro i h; omega
  | succ n ih =>
    intro i hn h0 h1
    obtain ⟨c, hc⟩ := hs.full i h0 h1
    rw [struct_eq hs hc]
    simp only [Term.WF]
    refine ⟨by simpa using c.shape_isShape, Term.WFL_map _ ?_⟩
    intro j hj
    have := hs.closed c i hc j hj
    exact ih j (by omega) this.1 (by omega)

/-- Re-creating the tree of an existing node with `create_node`: whenever it returns, it
    returns that very node. -/
theorem rebuild_raw_id {s : Mgr} (hs : Inv s) {i : Nid} (h0 : 0 < i) (h1 : i < s.nextId) {j : Nid} {s' : Mgr}
    (hrun : (buildT (s.struct i)).run s = (.ok j, s')) : j = i := by
  obtain ⟨ok, h⟩ := buildT_cond (s.struct i) (struct_WF hs (i + 1) i (by omega) h0 h1) s hs _ _ hrun
  obtain ⟨j0, j1, hst⟩ := h j rfl
  have i1' : i < s'.nextId := Nat.lt_of_lt_of_le h1 ok.ext.next
  have : s'.struct j = s'.struct i := by
    rw [hst, struct_stable hs ok.inv ok.ext (i + 1) i (by omega) h0 h1]
  exact (struct_eq_iff ok.inv j0 j1 h0 i1').mp this

end PySMT.Manager
