import PySMT.Proofs.C12Atoms
import PySMT.Proofs.C12Types
/-!
# C12, part 4: independent characterisations (review rev-c, §4)

* tree size = length of the pre-order sub-term list;
* free symbols of a quantifier-free term = the symbols that *occur* (as a leaf or as an applied name);
* the Boolean DAG: the nodes reached through the Boolean skeleton (`SkelReach`, defined in
  `Spec/Analyses.lean` without reference to the model's stop predicate); its non-skeleton nodes are
  exactly the atoms of `atomsDef`, and the measure stops exactly at the atoms that are not symbols;
* declaration completeness of `get_types`, closure under argument sorts, the `custom_only` filter.
-/
namespace PySMT.Oracles
open PySMT.Gen.Operators PySMT.Analyses

/-! ## tree size -/

theorem treeO_eq_length_subterms : (t : Term) → treeO t = t.subterms.length
  | .node op args p => by
    rw [treeO_node, subterms_node, List.length_cons, List.length_flatten, List.map_map,
      List.map_congr_left (fun a _ => treeO_eq_length_subterms a)]
    simp only [Function.comp_def]
    omega

/-! ## occurrences -/

theorem mem_subterms_node {op args p} (x : Term) :
    x ∈ (Term.node op args p).subterms ↔ x = .node op args p ∨ ∃ a ∈ args, x ∈ a.subterms := by
  rw [subterms_node, List.mem_cons, List.mem_flatten]
  constructor
  · rintro (h | ⟨l, hl, hx⟩)
    · exact .inl h
    · obtain ⟨a, ha, rfl⟩ := List.mem_map.mp hl
      exact .inr ⟨a, ha, hx⟩
  · rintro (h | ⟨a, ha, hx⟩)
    · exact .inl h
    · exact .inr ⟨_, List.mem_map.mpr ⟨a, ha, rfl⟩, hx⟩

theorem self_mem_subterms : (t : Term) → t ∈ t.subterms
  | .node op args p => by rw [subterms_node]; exact List.mem_cons_self

theorem subterms_trans : (t : Term) → ∀ s ∈ t.subterms, ∀ x ∈ s.subterms, x ∈ t.subterms
  | .node op args p, s, hs, x, hx => by
    rcases (mem_subterms_node s).mp hs with rfl | ⟨a, ha, hsa⟩
    · exact hx
    · exact (mem_subterms_node x).mpr (.inr ⟨a, ha, subterms_trans a s hsa x hx⟩)

theorem subterms_wt : (t : Term) → t.wt = true → ∀ s ∈ t.subterms, s.wt = true
  | .node op args p, hwt, s, hs => by
    rcases (mem_subterms_node s).mp hs with rfl | ⟨a, ha, hsa⟩
    · exact hwt
    · exact subterms_wt a (Term.wt_child hwt a ha) s hsa

/-- `s` occurs in `t`, as a leaf or as the name of an application -/
def Occurs (t : Term) (s : Sym) : Prop := t.symOccurs s ∨ t.fnOccurs s

theorem occurs_node {op args p} (s : Sym) :
    Occurs (.node op args p) s ↔
      (op = .symbol ∧ args = [] ∧ p = .sym s) ∨ (op = .function ∧ p = .sym s) ∨ ∃ a ∈ args, Occurs a s := by
  simp only [Occurs, Term.symOccurs, Term.fnOccurs, mem_subterms_node]
  constructor
  · rintro ((h | ⟨a, ha, h⟩) | ⟨args', (h | ⟨a, ha, h⟩)⟩)
    · cases h; exact .inl ⟨rfl, rfl, rfl⟩
    · exact .inr (.inr ⟨a, ha, .inl h⟩)
    · cases h; exact .inr (.inl ⟨rfl, rfl⟩)
    · exact .inr (.inr ⟨a, ha, .inr ⟨args', h⟩⟩)
  · rintro (⟨rfl, rfl, rfl⟩ | ⟨rfl, rfl⟩ | ⟨a, ha, (h | ⟨args', h⟩)⟩)
    · exact .inl (.inl rfl)
    · exact .inr ⟨args, .inl rfl⟩
    · exact .inl (.inr ⟨a, ha, h⟩)
    · exact .inr ⟨args', .inr ⟨a, ha, h⟩⟩

theorem mem_flatten_fv {args : List Term} {s : Sym} :
    s ∈ (args.map Term.fv).flatten ↔ ∃ a ∈ args, s ∈ a.fv := by
  simp only [List.mem_flatten, List.mem_map]
  constructor
  · rintro ⟨l, ⟨a, ha, rfl⟩, h⟩; exact ⟨a, ha, h⟩
  · rintro ⟨a, ha, h⟩; exact ⟨_, ⟨a, ha, rfl⟩, h⟩

/-- every free symbol occurs (all well-typed terms) -/
theorem fv_occurs : (t : Term) → t.wt = true → ∀ s ∈ t.fv, Occurs t s
  | .node op args p, hwt, s, hs => by
    have ih : ∀ a ∈ args, ∀ s ∈ a.fv, Occurs a s := fun a ha => fv_occurs a (Term.wt_child hwt a ha)
    have hty := Term.wt_typeOf hwt
    rw [occurs_node]
    have hsub : s ∈ (args.map Term.fv).flatten → ∃ a ∈ args, Occurs a s := by
      intro h
      obtain ⟨a, ha, h⟩ := mem_flatten_fv.mp h
      exact ⟨a, ha, ih a ha s h⟩
    rw [fv_node] at hs
    split at hs
    · next s' =>
      obtain ⟨hts, _, _, _⟩ := typeOfNode_symbol hty
      have : args = [] := by simpa using hts
      simp only [List.mem_singleton] at hs
      subst hs
      exact .inl ⟨rfl, this, rfl⟩
    · next f =>
      rcases List.mem_cons.mp hs with rfl | h
      · exact .inr (.inl ⟨rfl, rfl⟩)
      · exact .inr (.inr (hsub h))
    · exact .inr (.inr (hsub (List.mem_filter.mp hs).1))
    · exact .inr (.inr (hsub (List.mem_filter.mp hs).1))
    · exact .inr (.inr (hsub hs))

/-- in a quantifier-free term every occurring symbol is free -/
theorem occurs_fv_qf : (t : Term) → t.wt = true → t.isQF = true → ∀ s, Occurs t s → s ∈ t.fv
  | .node op args p, hwt, hqf, s, hocc => by
    obtain ⟨hq, hch⟩ := isQF_node hqf
    have ih : ∀ a ∈ args, ∀ s, Occurs a s → s ∈ a.fv :=
      fun a ha => occurs_fv_qf a (Term.wt_child hwt a ha) (hch a ha)
    have hsub : (∃ a ∈ args, Occurs a s) → s ∈ (args.map Term.fv).flatten := by
      rintro ⟨a, ha, h⟩
      exact mem_flatten_fv.mpr ⟨a, ha, ih a ha s h⟩
    rcases (occurs_node s).mp hocc with ⟨rfl, rfl, rfl⟩ | ⟨rfl, rfl⟩ | h
    · rw [fv_symbol]; exact List.mem_cons_self
    · rw [fv_function]; exact List.mem_cons_self
    · by_cases hsym : op = .symbol
      · subst hsym
        have : args = [] := Term.wt_symbol_args hwt
        subst this
        obtain ⟨a, ha, _⟩ := h
        simp at ha
      · by_cases hfun : op = .function
        · subst hfun
          obtain ⟨f, rfl⟩ := typeOfNode_function_payload (Term.wt_typeOf hwt)
          rw [fv_function]; exact List.mem_cons_of_mem _ (hsub h)
        · rw [fv_node_plain op args p hsym hfun hq]; exact hsub h

/-! ## the Boolean DAG -/

theorem mem_atomsDef_iff : (t : Term) → ∀ s, s ∈ atomsDef t ↔ SkelReach t s ∧ isSkel s = false
  | .node op args p, s => by
    have ih : ∀ a ∈ args, ∀ s, s ∈ atomsDef a ↔ SkelReach a s ∧ isSkel s = false :=
      fun a _ => mem_atomsDef_iff a
    rw [atomsDef_node]
    cases hsk : isSkel (.node op args p)
    · simp only [Bool.false_eq_true, if_false, List.mem_singleton]
      constructor
      · rintro rfl; exact ⟨.refl _, hsk⟩
      · rintro ⟨h, _⟩
        cases h with
        | refl => rfl
        | step h' _ _ => rw [hsk] at h'; cases h'
    · simp only [if_true, List.mem_flatten, List.mem_map]
      constructor
      · rintro ⟨l, ⟨a, ha, rfl⟩, h⟩
        obtain ⟨h1, h2⟩ := (ih a ha s).mp h
        exact ⟨.step hsk ha h1, h2⟩
      · rintro ⟨h, hs⟩
        cases h with
        | refl => rw [hsk] at hs; cases hs
        | step _ ha hr => exact ⟨_, ⟨_, ha, rfl⟩, (ih _ ha s).mpr ⟨hr, hs⟩⟩

/-- the children of a Boolean skeleton node are Boolean -/
theorem skel_children_bool {op args p} (hwt : (Term.node op args p).wt = true)
    (hb : (Term.node op args p).typeOf = some .bool) (hsk : isSkel (.node op args p) = true) :
    ∀ a ∈ args, a.typeOf = some .bool := by
  have hty := hb
  rw [typeOf_node] at hty
  rcases isSkel_cases hsk with rfl | rfl | rfl | rfl | rfl | rfl | rfl | rfl | rfl
  · exact allAre_map (of_ite_some hty).1
  · exact allAre_map (of_ite_some hty).1
  · exact allAre_map (of_ite_some hty).1
  · exact allAre_map (of_ite_some hty).1
  · exact allAre_map (of_ite_some hty).1
  · have hts := typeOfNode_forall (Term.wt_typeOf hwt)
    intro a ha
    have hm : a.typeOf ∈ args.map Term.typeOf := List.mem_map.mpr ⟨a, ha, rfl⟩
    rw [hts] at hm
    simpa using hm
  · have hts := typeOfNode_exists (Term.wt_typeOf hwt)
    intro a ha
    have hm : a.typeOf ∈ args.map Term.typeOf := List.mem_map.mpr ⟨a, ha, rfl⟩
    rw [hts] at hm
    simpa using hm
  · have : args.map Term.typeOf = [] := typeOfNode_const_args rfl (Term.wt_typeOf hwt)
    have : args = [] := by simpa using this
    subst this
    intro a ha; simp at ha
  · have := typeOfNode_ite hty
    intro a ha
    have hm : a.typeOf ∈ args.map Term.typeOf := List.mem_map.mpr ⟨a, ha, rfl⟩
    rw [this] at hm
    simp at hm
    exact hm

theorem skelReach_wt_bool : (t : Term) → t.wt = true → t.typeOf = some .bool → ∀ s, SkelReach t s →
    s.wt = true ∧ s.typeOf = some .bool
  | .node op args p, hwt, hb, s, h => by
    cases h with
    | refl => exact ⟨hwt, hb⟩
    | step hsk ha hr =>
      exact skelReach_wt_bool _ (Term.wt_child hwt _ ha) (skel_children_bool hwt hb hsk _ ha) s hr

/-- skeleton nodes are never leaves of the measure -/
theorem skel_not_stop {op args p} (hsk : isSkel (.node op args p) = true) (ty : Option Ty) :
    boolDagStop op ty = false := by
  rcases isSkel_cases hsk with rfl | rfl | rfl | rfl | rfl | rfl | rfl | rfl | rfl <;> rfl

theorem map_atomsO_children {op args p} (hwt : (Term.node op args p).wt = true) :
    args.map atomsO = args.map childRes := by
  apply List.map_congr_left
  intro a ha
  have hwa := Term.wt_child hwt a ha
  obtain ⟨σ, hσ⟩ := wt_typeOf_isSome a hwa
  rw [atomsO_spec a hwa σ hσ, childRes, hσ]
  by_cases hb : σ = .bool <;> simp [hb]

/-- a Boolean node outside the skeleton is a leaf of the measure, or a symbol -/
theorem bool_atom_stop_or_symbol {op args p} (hwt : (Term.node op args p).wt = true)
    (hb : (Term.node op args p).typeOf = some .bool) (hsk : isSkel (.node op args p) = false) :
    boolDagStop op (some .bool) = true ∨ op = .symbol := by
  have hspec := atomsO_spec _ hwt .bool hb
  rw [atomsO_node, map_atomsO_children hwt, hb, atomsDef_node, hsk] at hspec
  simp only [if_true, Bool.false_eq_true, if_false] at hspec
  have hne := any_isErr_childRes args
  by_cases h1 : (boolConnectives.contains op || quantifiers.contains op) = true
  · exfalso
    have : isSkel (.node op args p) = true := by
      cases op <;> first | rfl | (exfalso; revert h1; decide)
    rw [this] at hsk; cases hsk
  have h1' : (boolConnectives.contains op || quantifiers.contains op) = false := by simpa using h1
  by_cases h2 : relations.contains op = true
  · left; simp only [boolDagStop, h2, Bool.true_or]
  have h2' : relations.contains op = false := by simpa using h2
  by_cases h3 : op = .arraySelect
  · left; subst h3; rfl
  have h3' : (op == .arraySelect) = false := by simpa using h3
  by_cases h4 : theoryOperators.contains op = true
  · rw [atomsNode_theory hne h1' h2' h3' h4] at hspec; cases hspec
  have h4' : theoryOperators.contains op = false := by simpa using h4
  by_cases h5 : constants.contains op = true
  · rw [atomsNode_const hne h1' h2' h3' h4' h5] at hspec
    split at hspec
    · next hbc =>
      have : op = .boolConst := by simpa using hbc
      subst this
      have : isSkel (.node .boolConst args p) = true := rfl
      rw [this] at hsk; cases hsk
    · cases hspec
  by_cases h6 : op = .symbol
  · exact .inr h6
  by_cases h7 : op = .function
  · left; subst h7; rfl
  by_cases h8 : op = .ite
  · subst h8
    have : isSkel (.node .ite args p) = true := by
      show ((Term.node .ite args p).typeOf == some .bool) = true
      rw [hb]; rfl
    rw [this] at hsk; cases hsk
  · exfalso
    have h5' : constants.contains op = false := by simpa using h5
    have h6' : (op == .symbol) = false := by simpa using h6
    have h7' : (op == .function) = false := by simpa using h7
    have h8' : (op == .ite) = false := by simpa using h8
    simp only [atomsNode, hne, h1', h2', h3', h4', h5', h6', h7', h8', Bool.false_eq_true, if_false] at hspec
    cases hspec

/-- **Boolean DAG, independent form**: for a well-typed Boolean formula the measure collects exactly
the nodes reached through the Boolean skeleton -/
theorem mem_boolDagO_iff_skelReach : (t : Term) → t.wt = true → t.typeOf = some .bool →
    ∀ s, s ∈ boolDagO t ↔ SkelReach t s
  | .node op args p, hwt, hb, s => by
    rw [boolDagO_node, hb]
    cases hsk : isSkel (.node op args p)
    · have hrefl : SkelReach (.node op args p) s ↔ s = .node op args p := by
        constructor
        · intro h
          cases h with
          | refl => rfl
          | step h' _ _ => rw [hsk] at h'; cases h'
        · rintro rfl; exact .refl _
      rw [hrefl]
      rcases bool_atom_stop_or_symbol hwt hb hsk with hstop | rfl
      · simp [hstop]
      · have : args = [] := Term.wt_symbol_args hwt
        subst this
        have : boolDagStop .symbol (some .bool) = false := rfl
        simp [this]
    · have ih : ∀ a ∈ args, ∀ s, s ∈ boolDagO a ↔ SkelReach a s := fun a ha =>
        mem_boolDagO_iff_skelReach a (Term.wt_child hwt a ha) (skel_children_bool hwt hb hsk a ha)
      rw [skel_not_stop hsk]
      simp only [Bool.false_eq_true, if_false, List.mem_cons, List.mem_flatten, List.mem_map]
      constructor
      · rintro (rfl | ⟨l, ⟨a, ha, rfl⟩, h⟩)
        · exact .refl _
        · exact .step hsk ha ((ih a ha s).mp h)
      · intro h
        cases h with
        | refl => exact .inl rfl
        | step _ ha hr => exact .inr ⟨_, ⟨_, ha, rfl⟩, (ih _ ha s).mpr hr⟩

/-- the measure stops exactly at the atoms that are not (Boolean) symbols -/
theorem boolDagStop_iff_atom (t : Term) (hwt : t.wt = true) (hb : t.typeOf = some .bool) (s : Term)
    (hs : SkelReach t s) :
    boolDagStop s.op s.typeOf = true ↔ (s ∈ atomsDef t ∧ s.op ≠ .symbol) := by
  obtain ⟨hws, hbs⟩ := skelReach_wt_bool t hwt hb s hs
  rw [mem_atomsDef_iff]
  cases s with
  | node op args p =>
    show boolDagStop op (Term.node op args p).typeOf = true ↔ _
    rw [hbs]
    constructor
    · intro hstop
      refine ⟨⟨hs, ?_⟩, ?_⟩
      · cases hsk : isSkel (.node op args p)
        · rfl
        · rw [skel_not_stop hsk] at hstop; cases hstop
      · rintro rfl
        exact absurd hstop (by decide)
    · rintro ⟨⟨_, hsk⟩, hne⟩
      rcases bool_atom_stop_or_symbol hws hbs hsk with h | h
      · exact h
      · exact absurd h hne

/-! ## sorts: what `get_types` is for -/

theorem targs_subset_subsorts (τ σ : Ty) (h : σ ∈ Ty.targs τ) : σ ∈ Ty.subsorts τ := by
  cases τ <;> simp [Ty.targs] at h
  case array i e =>
    rcases h with rfl | rfl
    · simp only [Ty.subsorts, List.mem_cons, List.mem_append]
      exact .inr (.inl (self_mem_subsorts _))
    · simp only [Ty.subsorts, List.mem_cons, List.mem_append]
      exact .inr (.inr (self_mem_subsorts _))

/-- closure under argument sorts -/
theorem typesO_closed (t : Term) : ∀ τ ∈ typesO t, ∀ σ ∈ Ty.targs τ, σ ∈ typesO t :=
  fun τ hτ σ hσ => good_closed (typesO_good t) τ hτ σ (targs_subset_subsorts τ σ hσ)

theorem mem_typesO_of_written (t : Term) (hwt : t.wt = true) (s : Term) (hs : s ∈ t.subterms) (τ : Ty)
    (hτ : τ ∈ nodeSorts s) : τ ∈ typesO t :=
  (mem_typesO t hwt τ).mpr ⟨τ, List.mem_flatMap.mpr ⟨s, hs, hτ⟩, self_mem_subsorts τ⟩

/-- declaration completeness: the sort and the parameter sorts of every free symbol are reported -/
theorem typesO_declares_fv (t : Term) (hwt : t.wt = true) (s : Sym) (hs : s ∈ t.fv) :
    s.ret ∈ typesO t ∧ ∀ p ∈ s.params, p ∈ typesO t := by
  rcases fv_occurs t hwt s hs with h | ⟨args, h⟩
  · have hw := subterms_wt t hwt _ h
    obtain ⟨_, s', hp, hpar⟩ := typeOfNode_symbol (Term.wt_typeOf hw)
    cases hp
    have hns : nodeSorts (.node .symbol [] (.sym s)) = [s.ret] := by
      simp [nodeSorts, hpar]
    refine ⟨mem_typesO_of_written t hwt _ h _ (by rw [hns]; simp), ?_⟩
    rw [hpar]; intro p hp; simp at hp
  · have hns : nodeSorts (.node .function args (.sym s)) = s.ret :: s.params := rfl
    exact ⟨mem_typesO_of_written t hwt _ h _ (by rw [hns]; simp),
      fun p hp => mem_typesO_of_written t hwt _ h _ (by rw [hns]; simp [hp])⟩

/-- the sorts of the bound variables are reported -/
theorem typesO_declares_bound (t : Term) (hwt : t.wt = true) (op : Op) (hq : op.isQuantifier = true)
    (args : List Term) (vs : List Sym) (h : Term.node op args (.qvars vs) ∈ t.subterms) :
    ∀ v ∈ vs, v.ret ∈ typesO t := by
  intro v hv
  apply mem_typesO_of_written t hwt _ h
  cases op <;> simp [Op.isQuantifier] at hq
  · show v.ret ∈ vs.map (·.ret); exact List.mem_map.mpr ⟨v, hv, rfl⟩
  · show v.ret ∈ vs.map (·.ret); exact List.mem_map.mpr ⟨v, hv, rfl⟩

theorem keptByCustomOnly_eq (τ : Ty) : keptByCustomOnly τ = Ty.isDeclared τ := by
  cases τ <;> rfl

/-- `custom_only=True`: exactly the declared sorts among `get_types`, in the same order -/
theorem typesCustomO_eq (t : Term) : typesCustomO t = (typesO t).filter Ty.isDeclared := by
  simp only [typesCustomO]
  congr 1
  funext τ; exact keptByCustomOnly_eq τ

/-- … i.e. every declared sort that occurs in a sort written in the formula, also when it is reachable
only through an array sort or a function signature -/
theorem mem_typesCustomO (t : Term) (hwt : t.wt = true) (τ : Ty) :
    τ ∈ typesCustomO t ↔ Ty.isDeclared τ = true ∧ ∃ σ ∈ sortsWritten t, τ ∈ Ty.subsorts σ := by
  rw [typesCustomO_eq, List.mem_filter, mem_typesO t hwt τ, and_comm]

end PySMT.Oracles
