import PySMT.Proofs.C18Pareto
/-!
# C18, part 7: `pareto_optimize` terminates when the feasible models have finitely many cost vectors
-/
namespace PySMT.Opt
open PySMT.OptSpec

section
variable {M : Type} {A : M → Prop} {val : Nat → M → Val} {obj : Nat → M → Int} {o : Oracle M}

/-- one round of the inner loop: either it stops with `last`, or it continues with a feasible
    model that dominates `last` -/
theorem paretoInner_step (hO : OracleSpec A val o) (mx : Mixin) (goals : List (Nat × Goal))
    (hG : ∀ q ∈ goals, GoalReadsAll val obj q.2 q.1)
    (cd outer : List Constraint) (mk : List Nat) (bd : Bool) (last : Option M) (s : Solver M)
    (hI : IInv A val obj goals outer (effExtra mx cd) mk bd last s) :
    (∃ s1, ∀ n, paretoInner o obj mx goals cd (n + 1) last s = (.done last, s1)) ∨
    (∃ m s1, (∀ n, paretoInner o obj mx goals cd (n + 1) last s = paretoInner o obj mx goals cd n (some m) s1) ∧
      IInv A val obj goals outer (effExtra mx cd) mk bd (some m) s1 ∧
      Feas A val outer (effExtra mx cd) m ∧ DomLast (specGoals obj goals) last m) := by
  obtain ⟨h1, h2, added, h3, h4⟩ := hI
  have key : ∀ (nn : Nat) (cs : List Constraint),
      (∀ c, c ∈ cs ↔ (c ∈ outer ∨ c ∈ added ∨ c ∈ effExtra mx cd ∨ c ∈ paretoStepCs obj goals last)) →
      (∀ m, o nn cs = some m → Feas A val outer (effExtra mx cd) m ∧ DomLast (specGoals obj goals) last m) := by
    intro nn cs hcs m hm
    obtain ⟨ha, hc⟩ := (hO nn cs).1 m hm
    refine ⟨⟨ha, fun c hc' => hc c ((hcs c).2 (Or.inl hc')),
      fun c hc' => hc c ((hcs c).2 (Or.inr (Or.inr (Or.inl hc'))))⟩, ?_⟩
    exact (stepCs_hold hG last m).1 (fun c hc' => hc c ((hcs c).2 (Or.inr (Or.inr (Or.inr hc')))))
  have common : ∀ (m : M) (s1 : Solver M) (added' : List Constraint),
      (Feas A val outer (effExtra mx cd) m ∧ DomLast (specGoals obj goals) last m) →
      s1.marks = mk → s1.bad = bd → s1.stack = outer ++ added' →
      (∀ c ∈ added', c ∈ added ∨ c ∈ paretoStepCs obj goals last) →
      IInv A val obj goals outer (effExtra mx cd) mk bd (some m) s1 := by
    intro m s1 added' hk e1 e2 e3 hsub
    obtain ⟨hfm, hdm⟩ := hk
    refine ⟨e1, e2, added', e3, ?_⟩
    intro c hc m' hm' hd'
    have hd'' : DomLast (specGoals obj goals) last m' := by
      intro p hp
      exact Dominates.trans (hd' m rfl) (hdm p hp)
    rcases hsub c hc with hc | hc
    · exact h4 c hc m' hm' hd''
    · exact (stepCs_hold hG last m').2 hd'' c hc
  cases mx with
  | sua =>
    have hk := key s.calls (s.stack ++ (cd ++ paretoStepCs obj goals last)) (by
      intro c; simp [h3, effExtra])
    cases hr : o s.calls (s.stack ++ (cd ++ paretoStepCs obj goals last)) with
    | none =>
      left
      exact ⟨(s.solve o (cd ++ paretoStepCs obj goals last)).2, fun n => by simp only [paretoInner, Solver.solve, hr]⟩
    | some m =>
      right
      refine ⟨m, (s.solve o (cd ++ paretoStepCs obj goals last)).2,
        fun n => by simp only [paretoInner, Solver.solve, hr], ?_, hk m hr⟩
      exact common m _ added (hk m hr) h1 h2 h3 (fun c hc => Or.inl hc)
  | incr =>
    obtain ⟨a1, a2, a3⟩ := addAll_props s (paretoStepCs obj goals last)
    have hk := key (s.addAll (paretoStepCs obj goals last)).calls
      ((s.addAll (paretoStepCs obj goals last)).stack ++ []) (by
      intro c; simp [a1, h3, effExtra])
    cases hr : o (s.addAll (paretoStepCs obj goals last)).calls ((s.addAll (paretoStepCs obj goals last)).stack ++ []) with
    | none =>
      left
      exact ⟨((s.addAll (paretoStepCs obj goals last)).solve o []).2,
        fun n => by simp only [paretoInner, Solver.solve, hr]⟩
    | some m =>
      right
      refine ⟨m, ((s.addAll (paretoStepCs obj goals last)).solve o []).2,
        fun n => by simp only [paretoInner, Solver.solve, hr], ?_, hk m hr⟩
      refine common m _ (added ++ paretoStepCs obj goals last) (hk m hr) ?_ ?_ ?_ (fun c hc => List.mem_append.1 hc)
      · show (s.addAll (paretoStepCs obj goals last)).marks = mk
        rw [a2, h1]
      · show (s.addAll (paretoStepCs obj goals last)).bad = bd
        rw [a3, h2]
      · show (s.addAll (paretoStepCs obj goals last)).stack = _
        simp only [a1, h3, List.append_assoc]

/-! ### counting -/

theorem filter_length_le {α : Type} (p q : α → Bool) (L : List α) (hsub : ∀ x ∈ L, p x = true → q x = true) :
    (L.filter p).length ≤ (L.filter q).length := by
  induction L with
  | nil => simp
  | cons a L ih =>
    have ih' := ih (fun x hx => hsub x (by simp [hx]))
    simp only [List.filter]
    cases hp : p a <;> cases hq : q a <;> simp only [List.length_cons]
    · exact ih'
    · omega
    · have := hsub a (by simp) hp; rw [hq] at this; cases this
    · omega

theorem filter_length_lt {α : Type} (p q : α → Bool) (L : List α) (hsub : ∀ x ∈ L, p x = true → q x = true)
    (x : α) (hx : x ∈ L) (hq : q x = true) (hp : p x = false) :
    (L.filter p).length < (L.filter q).length := by
  induction L with
  | nil => cases hx
  | cons a L ih =>
    have hsub' : ∀ y ∈ L, p y = true → q y = true := fun y hy => hsub y (by simp [hy])
    simp only [List.filter]
    rcases List.mem_cons.1 hx with rfl | hx
    · rw [hp, hq]
      have := filter_length_le p q L hsub'
      simp only [List.length_cons]; omega
    · have ih' := ih hsub' hx
      cases hpa : p a <;> cases hqa : q a <;> simp only [List.length_cons]
      · exact ih'
      · omega
      · have := hsub a (by simp) hpa; rw [hqa] at this; cases this
      · omega

/-! ### the inner loop terminates -/

open Classical in
/-- number of cost vectors (from the finite list `L`) of feasible models that dominate `last` -/
noncomputable def betterCount (A : M → Prop) (val : Nat → M → Val) (obj : Nat → M → Int) (goals : List (Nat × Goal))
    (outer cdE : List Constraint) (L : List (List Int)) : Option M → Nat
  | none => L.length + 1
  | some p => (L.filter (fun w => decide (∃ q, Feas A val outer cdE q ∧
      costs (specGoals obj goals) q = w ∧ Dominates (specGoals obj goals) q p))).length

theorem not_dominates_of_costs_eq (gs : List (Sense × (M → Int))) (q m : M)
    (h : costs gs q = costs gs m) : ¬ Dominates gs q m := by
  rintro ⟨_, g, hg, hlt⟩
  exact Sense.lt_ne g.1 hlt (costs_eq_of gs q m h g hg)

theorem betterCount_lt (goals : List (Nat × Goal)) (outer cdE : List Constraint) (L : List (List Int))
    (hL : ∀ m, Feas A val outer cdE m → costs (specGoals obj goals) m ∈ L)
    (last : Option M) (m : M) (hm : Feas A val outer cdE m) (hd : DomLast (specGoals obj goals) last m) :
    betterCount A val obj goals outer cdE L (some m) < betterCount A val obj goals outer cdE L last := by
  cases last with
  | none =>
    simp only [betterCount]
    have := List.length_filter_le (fun w => @decide (∃ q, Feas A val outer cdE q ∧
      costs (specGoals obj goals) q = w ∧ Dominates (specGoals obj goals) q m) (Classical.propDecidable _)) L
    omega
  | some p =>
    simp only [betterCount]
    apply filter_length_lt _ _ L ?_ (costs (specGoals obj goals) m) (hL m hm)
    · simp only [decide_eq_true_eq]
      exact ⟨m, hm, rfl, hd p rfl⟩
    · simp only [decide_eq_false_iff_not]
      rintro ⟨q, _, hq, hdq⟩
      exact not_dominates_of_costs_eq _ q m hq hdq
    · intro w _ hw
      simp only [decide_eq_true_eq] at hw ⊢
      obtain ⟨q, hq1, hq2, hq3⟩ := hw
      exact ⟨q, hq1, hq2, Dominates.trans hq3 (hd p rfl)⟩

theorem paretoInner_terminates (hO : OracleSpec A val o) (mx : Mixin) (goals : List (Nat × Goal))
    (hG : ∀ q ∈ goals, GoalReadsAll val obj q.2 q.1)
    (cd outer : List Constraint) (mk : List Nat) (bd : Bool) (L : List (List Int))
    (hL : ∀ m, Feas A val outer (effExtra mx cd) m → costs (specGoals obj goals) m ∈ L) :
    ∀ (k : Nat) (last : Option M) (s : Solver M),
      IInv A val obj goals outer (effExtra mx cd) mk bd last s →
      betterCount A val obj goals outer (effExtra mx cd) L last ≤ k →
      ∀ n, n ≥ k + 1 → (paretoInner o obj mx goals cd n last s).1 ≠ .fuel := by
  intro k
  induction k with
  | zero =>
    intro last s hI hk n hge
    obtain ⟨n', rfl⟩ : ∃ n', n = n' + 1 := ⟨n - 1, by omega⟩
    rcases paretoInner_step hO mx goals hG cd outer mk bd last s hI with ⟨s1, h⟩ | ⟨m, s1, _, _, hfm, hdm⟩
    · rw [h n']; simp
    · have := betterCount_lt goals outer _ L hL last m hfm hdm
      omega
  | succ k ih =>
    intro last s hI hk n hge
    obtain ⟨n', rfl⟩ : ∃ n', n = n' + 1 := ⟨n - 1, by omega⟩
    rcases paretoInner_step hO mx goals hG cd outer mk bd last s hI with ⟨s1, h⟩ | ⟨m, s1, h, hI', hfm, hdm⟩
    · rw [h n']; simp
    · have := betterCount_lt goals outer _ L hL last m hfm hdm
      rw [h n']
      exact ih (some m) s1 hI' (by omega) n' (by omega)

/-! ### the outer loop terminates -/

theorem paretoOuter_step (hO : OracleSpec A val o) (mx : Mixin) (goals : List (Nat × Goal))
    (hG : ∀ q ∈ goals, GoalReadsAll val obj q.2 q.1) (fuel : Nat)
    (base : List Constraint) (marks0 : List Nat) (bad0 : Bool) (found : List M) (cd : List Constraint)
    (s : Solver M) (hst : OuterSt obj goals mx base marks0 bad0 found cd s)
    (hinner : (paretoInner o obj mx goals cd fuel none s.push).1 ≠ .fuel) :
    (∃ s', ∀ n acc, paretoOuter o obj mx goals fuel (n + 1) cd acc s = (.done acc, s')) ∨
    (∃ p cd' s',
      (∀ n acc, paretoOuter o obj mx goals fuel (n + 1) cd acc s =
        paretoOuter o obj mx goals fuel n cd' (acc ++ [(p, goals.map (fun (gi, _) => obj gi p))]) s') ∧
      OuterSt obj goals mx base marks0 bad0 (found ++ [p]) cd' s' ∧ FeasB A val obj goals base found p) := by
  have hin := paretoInner_spec hO mx goals hG cd s.stack (s.stack.length :: s.marks) s.bad fuel none s.push
    ⟨rfl, rfl, [], by simp [Solver.push], by simp⟩ (fun p h => by cases h)
  cases hr : paretoInner o obj mx goals cd fuel none s.push with
  | mk out s2 =>
  rw [hr] at hin hinner
  rcases hin with hfu | ⟨fin, hfin, hsome, _, e1, e2, added, e3⟩
  · exact absurd hfu hinner
  · simp only at hfin e1 e2 e3
    subst hfin
    obtain ⟨p1, p2, p3⟩ := pop_of_marks s2 s.stack.length s.marks e1
    rw [e3, take_length_append] at p1
    rw [e2] at p3
    obtain ⟨m1, m2, m3⟩ := hst
    cases fin with
    | none =>
      left
      exact ⟨s2.pop.pop, fun n acc => by rw [paretoOuter, hr]⟩
    | some p =>
      right
      obtain ⟨hfp, _⟩ := hsome p rfl
      have hfpB : FeasB A val obj goals base found p := (feasB_iff hG ⟨m1, m2, m3⟩ p).1 hfp
      have hblk : blocks obj goals (found ++ [p]) =
          blocks obj goals found ++ [Constraint.disj (paretoAtoms obj true goals p)] := by simp [blocks]
      cases mx with
      | sua =>
        simp only at m3
        refine ⟨p, cd ++ [Constraint.disj (paretoAtoms obj true goals p)], s2.pop,
          fun n acc => by rw [paretoOuter, hr], ?_, hfpB⟩
        exact ⟨by rw [p2, m1], by rw [p3, m2], by rw [hblk, m3.1], by rw [p1, m3.2]⟩
      | incr =>
        simp only at m3
        refine ⟨p, cd, s2.pop.add (Constraint.disj (paretoAtoms obj true goals p)),
          fun n acc => by rw [paretoOuter, hr], ?_, hfpB⟩
        exact ⟨by simp only [Solver.add]; rw [p2, m1], by simp only [Solver.add]; rw [p3, m2],
          by simp only [Solver.add]; rw [p1, m3, hblk, List.append_assoc]⟩

open Classical in
/-- number of cost vectors (from `L`) of feasible models not yet excluded by the blocking clauses -/
noncomputable def openCount (A : M → Prop) (val : Nat → M → Val) (obj : Nat → M → Int) (goals : List (Nat × Goal))
    (base : List Constraint) (L : List (List Int)) (found : List M) : Nat :=
  (L.filter (fun w => decide (∃ q, FeasB A val obj goals base found q ∧ costs (specGoals obj goals) q = w))).length

theorem openCount_lt (goals : List (Nat × Goal)) (base : List Constraint) (L : List (List Int))
    (hL : ∀ m, Feas A val base [] m → costs (specGoals obj goals) m ∈ L)
    (found : List M) (p : M) (hp : FeasB A val obj goals base found p) :
    openCount A val obj goals base L (found ++ [p]) < openCount A val obj goals base L found := by
  unfold openCount
  apply filter_length_lt _ _ L ?_ (costs (specGoals obj goals) p) (hL p hp.1)
  · simp only [decide_eq_true_eq]
    exact ⟨p, hp, rfl⟩
  · simp only [decide_eq_false_iff_not]
    rintro ⟨q, hq, hqe⟩
    obtain ⟨g, hg, hlt⟩ := hq.2 p (by simp)
    exact Sense.lt_ne g.1 hlt (costs_eq_of _ q p hqe g hg)
  · intro w _ hw
    simp only [decide_eq_true_eq] at hw ⊢
    obtain ⟨q, hq1, hq2⟩ := hw
    exact ⟨q, ⟨hq1.1, fun r hr => hq1.2 r (by simp [hr])⟩, hq2⟩

theorem paretoOuter_terminates (hO : OracleSpec A val o) (mx : Mixin) (goals : List (Nat × Goal))
    (hG : ∀ q ∈ goals, GoalReadsAll val obj q.2 q.1) (fuel : Nat)
    (base : List Constraint) (marks0 : List Nat) (bad0 : Bool) (L : List (List Int))
    (hL : ∀ m, Feas A val base [] m → costs (specGoals obj goals) m ∈ L) (hfuel : fuel ≥ L.length + 2) :
    ∀ (k : Nat) (found : List M) (cd : List Constraint) (acc : List (M × List Int)) (s : Solver M),
      OuterSt obj goals mx base marks0 bad0 found cd s →
      openCount A val obj goals base L found ≤ k →
      ∀ n, n ≥ k + 1 → (paretoOuter o obj mx goals fuel n cd acc s).1 ≠ .fuel := by
  have inner : ∀ (found : List M) (cd : List Constraint) (s : Solver M),
      OuterSt obj goals mx base marks0 bad0 found cd s →
      (paretoInner o obj mx goals cd fuel none s.push).1 ≠ .fuel := by
    intro found cd s hst
    have hL' : ∀ m, Feas A val s.push.stack (effExtra mx cd) m → costs (specGoals obj goals) m ∈ L := by
      intro m hm
      exact hL m ((feasB_iff hG hst m).1 hm).1
    exact paretoInner_terminates hO mx goals hG cd s.push.stack (s.stack.length :: s.marks) s.bad L hL'
      (L.length + 1) none s.push ⟨rfl, rfl, [], by simp, by simp⟩ (by simp [betterCount]) fuel (by omega)
  intro k
  induction k with
  | zero =>
    intro found cd acc s hst hk n hge
    obtain ⟨n', rfl⟩ : ∃ n', n = n' + 1 := ⟨n - 1, by omega⟩
    rcases paretoOuter_step hO mx goals hG fuel base marks0 bad0 found cd s hst (inner found cd s hst) with
      ⟨s', h⟩ | ⟨p, cd', s', _, _, hp⟩
    · rw [h n' acc]; simp
    · have := openCount_lt goals base L hL found p hp
      omega
  | succ k ih =>
    intro found cd acc s hst hk n hge
    obtain ⟨n', rfl⟩ : ∃ n', n = n' + 1 := ⟨n - 1, by omega⟩
    rcases paretoOuter_step hO mx goals hG fuel base marks0 bad0 found cd s hst (inner found cd s hst) with
      ⟨s', h⟩ | ⟨p, cd', s', h, hst', hp⟩
    · rw [h n' acc]; simp
    · have := openCount_lt goals base L hL found p hp
      rw [h n' acc]
      exact ih (found ++ [p]) cd' _ s' hst' (by omega) n' (by omega)

/-- `pareto_optimize` terminates when the feasible models have finitely many cost vectors (all of
    them in the list `L`): from `L.length + 2` units of fuel on the model is finished -/
theorem pareto_terminates (hO : OracleSpec A val o) (mx : Mixin) (goals : List (Nat × Goal))
    (hG : ∀ q ∈ goals, GoalReadsAll val obj q.2 q.1)
    (hsup : ∀ p ∈ goals, p.2.supported = true) (hne : goals ≠ []) (s : Solver M) (L : List (List Int))
    (hL : ∀ m, Feas A val s.stack [] m → costs (specGoals obj goals) m ∈ L)
    (fuel : Nat) (hfuel : fuel ≥ L.length + 2) :
    (pareto o obj mx goals fuel s).1 ≠ .fuel := by
  unfold pareto
  have h1 : goals.any (fun (x : Nat × Goal) => !x.2.supported) = false := by
    rw [List.any_eq_false]
    intro p hp
    simp [hsup p hp]
  have h2 : goals.isEmpty = false := by
    cases goals with
    | nil => exact absurd rfl hne
    | cons _ _ => rfl
  simp only [h1, h2, Bool.false_eq_true, if_false]
  have hk : openCount A val obj goals s.stack L ([] : List M) ≤ L.length := by
    unfold openCount
    exact List.length_filter_le _ L
  exact paretoOuter_terminates hO mx goals hG fuel s.stack s.marks s.bad L hL hfuel L.length [] [] [] s.push
    ⟨rfl, rfl, by cases mx <;> simp [blocks, Solver.push]⟩ hk fuel (by omega)

end
end PySMT.Opt
