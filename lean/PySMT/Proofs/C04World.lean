import PySMT.Proofs.C04Width
/-!
# C04 — several environments, persistent normalizer memos, arbitrary interleavings
-/
namespace PySMT.Manager

theorem Copy.mono2 {src src' tgt tgt' : Mgr} (hs : Inv src) (hs' : Inv src') (es : Ext src src')
    (ht : Inv tgt) (ht' : Inv tgt') (et : Ext tgt tgt') {a b : Nid} (h : Copy src tgt a b) :
    Copy src' tgt' a b :=
  ⟨h.spos, Nat.lt_of_lt_of_le h.slt es.next, h.pos, Nat.lt_of_lt_of_le h.lt et.next, by
    rw [struct_stable ht ht' et (b + 1) b (by omega) h.pos h.lt, h.eq,
      struct_stable hs hs' es (a + 1) a (by omega) h.spos h.slt]⟩

theorem MemoOK.mono2 {srcs srcs' : Nat → Mgr} {tgt tgt' : Mgr} (hi : ∀ k, Inv (srcs k)) (hi' : ∀ k, Inv (srcs' k))
    (he : ∀ k, Ext (srcs k) (srcs' k)) (ht : Inv tgt) (ht' : Inv tgt') (et : Ext tgt tgt') {memo : Memo}
    (h : MemoOK srcs tgt memo) : MemoOK srcs' tgt' memo :=
  fun k a b hab => (h k a b hab).mono2 (hi k) (hi' k) (he k) ht ht' et

/-- every manager satisfies the invariant and every normalizer memo is faithful -/
structure WInv (w : World) : Prop where
  inv : ∀ k, Inv (w.mgrs k)
  memo : ∀ t, MemoOK w.mgrs (w.mgrs t) (w.memos t)

theorem winv_init : WInv World.init :=
  ⟨fun _ => inv_init, fun _ k a b h => by simp [World.init, assoc] at h⟩

theorem upd_same {α : Type} (f : Nat → α) (t : Nat) (v : α) : upd f t v t = v := by simp [upd]
theorem upd_other {α : Type} (f : Nat → α) {t k : Nat} (v : α) (h : k ≠ t) : upd f t v k = f k := by simp [upd, h]

/-- replacing manager `t` by an extension keeps a world consistent -/
theorem winv_upd {w : World} (hw : WInv w) (t : Nat) {m' : Mgr} (hm : Inv m') (he : Ext (w.mgrs t) m')
    {memo' : Memo} (hmemo : MemoOK w.mgrs m' memo') :
    WInv ⟨upd w.mgrs t m', upd w.memos t memo'⟩ := by
  have hi' : ∀ k, Inv (upd w.mgrs t m' k) := by
    intro k; by_cases h : k = t
    · subst h; rw [upd_same]; exact hm
    · rw [upd_other _ _ h]; exact hw.inv k
  have hext : ∀ k, Ext (w.mgrs k) (upd w.mgrs t m' k) := by
    intro k; by_cases h : k = t
    · subst h; rw [upd_same]; exact he
    · rw [upd_other _ _ h]; exact Ext.refl _
  refine ⟨hi', fun t' => ?_⟩
  by_cases h : t' = t
  · subst h
    simp only [upd_same]
    exact hmemo.mono2 hw.inv hi' hext hm hm (Ext.refl _)
  · simp only [upd_other _ _ h]
    exact (hw.memo t').mono2 hw.inv hi' hext (hw.inv t') (hw.inv t') (Ext.refl _)

theorem winv_runProg {α : Type} {w : World} (hw : WInv w) (t : Nat) (p : Prog α) : WInv (w.runProg t p).2 := by
  have hp := Prog.run_spec p (w.mgrs t) (hw.inv t)
  have := winv_upd hw t hp.1 hp.2 ((hw.memo t).mono (hw.inv t) hp.1 hp.2)
  have hmm : upd w.memos t (w.memos t) = w.memos := by
    funext k; simp only [upd]; split
    next h => rw [h]
    next => rfl
  rw [hmm] at this
  exact this

/-- every node of the sub-DAG of `i` (children, transitively) has a content that the public constructors produce (`Normal`: all 66
    node types with the side conditions the constructors establish) -/
def AllNormal (src : Mgr) (addr : Nid → Nat) (same : Bool) (i : Nid) : Prop :=
  ∀ c k, (c, k) ∈ src.formulae → InDag src i k → Normal src addr same c

/-- one `normalize` step of a consistent world: consistent again, and on success a faithful
    copy (array values only when source = target) -/
theorem winv_normalize {w : World} (hw : WInv w) (t k : Nat) (addr : Nid → Nat) {i : Nid} (i0 : 0 < i)
    (i1 : i < (w.mgrs k).nextId) (hn : AllNormal (w.mgrs k) addr (decide (k = t)) i) :
    WInv (w.normalize t k addr i).2 ∧
    Ext (w.mgrs t) ((w.normalize t k addr i).2.mgrs t) ∧
    NewCopies (w.mgrs k) (w.mgrs t) ((w.normalize t k addr i).2.mgrs t) ∧
    ∀ j, (w.normalize t k addr i).1 = .ok j → Copy (w.mgrs k) ((w.normalize t k addr i).2.mgrs t) i j := by
  simp only [World.normalize, normStep]
  have hsame : decide (k = t) = true → Ext (w.mgrs k) (w.mgrs t) := by
    intro h; have : k = t := of_decide_eq_true h; rw [this]; exact Ext.refl _
  cases hrun : (normalizeM (w.mgrs k) k addr i (w.memos t)).run (w.mgrs t) with
  | mk r tgt' =>
    have hsp := normalizeM_spec (srcs := w.mgrs) k (hw.inv k) addr (decide (k = t)) i0 i1
      (fun c j hc hj => recSpec_of_Normal (hw.inv k) addr _ j (hn c j hc hj)) (hw.inv t) hsame (hw.memo t) hrun
    obtain ⟨hi', he, hnew, hok⟩ := hsp
    cases r with
    | error e =>
      simp only [upd_same]
      exact ⟨winv_upd hw t hi' he ((hw.memo t).mono (hw.inv t) hi' he), he, hnew, by simp⟩
    | ok mj =>
      obtain ⟨memo', j⟩ := mj
      simp only [upd_same]
      obtain ⟨hcp, hm'⟩ := hok memo' j rfl
      exact ⟨winv_upd hw t hi' he hm', he, hnew, fun j' hj' => by cases hj'; exact hcp⟩

/-- Worlds reachable by any interleaving of programs in any manager and `normalize` calls
    between any two managers (the source DAG being made of constructor-produced nodes). -/
inductive WReach : World → Prop
  | init : WReach World.init
  | prog {α : Type} {w : World} (t : Nat) (p : Prog α) : WReach w → WReach (w.runProg t p).2
  | norm {w : World} (t k : Nat) (addr : Nid → Nat) (i : Nid) (i0 : 0 < i) (i1 : i < (w.mgrs k).nextId)
      (hn : AllNormal (w.mgrs k) addr (decide (k = t)) i) : WReach w → WReach (w.normalize t k addr i).2

theorem WReach.winv {w : World} (h : WReach w) : WInv w := by
  induction h with
  | init => exact winv_init
  | prog t p _ ih => exact winv_runProg ih t p
  | norm t k addr i i0 i1 hn _ ih => exact (winv_normalize ih t k addr i0 i1 hn).1

/-- every manager of a reachable world is a reachable manager state in the sense of
    `Reachable` (so all single-manager theorems apply to it) -/
theorem WReach.reachable {w : World} (h : WReach w) : ∀ k, Reachable (w.mgrs k) := by
  induction h with
  | init => intro k; exact Reachable.init _
  | prog t p _ ih =>
    intro k
    simp only [World.runProg]
    by_cases hk : k = t
    · subst hk; rw [upd_same]; exact Reachable.step p (ih k)
    · rw [upd_other _ _ hk]; exact ih k
  | @norm w t k addr i i0 i1 hn _ ih =>
    intro k'
    simp only [World.normalize, normStep]
    by_cases hk : k' = t
    · subst hk
      have := Reachable.step (normalizeM (w.mgrs k) k addr i (w.memos k')) (ih k')
      cases hrun : (normalizeM (w.mgrs k) k addr i (w.memos k')).run (w.mgrs k') with
      | mk r tgt' =>
        rw [hrun] at this
        cases r <;> (simp only [upd_same]; exact this)
    · cases hrun : (normalizeM (w.mgrs k) k addr i (w.memos t)).run (w.mgrs t) with
      | mk r tgt' =>
        cases r <;> (simp only [upd_other _ _ hk]; exact ih k')

/-- in the manager itself: nothing is created and the copy is the node -/
theorem same_manager_identity {s s' : Mgr} (hs : Inv s) (hi' : Inv s') (he : Ext s s') (hn : NewCopies s s s')
    {i j : Nid} (hc : Copy s s' i j) : s'.nextId = s.nextId ∧ j = i := by
  constructor
  · apply Nat.le_antisymm _ he.next
    apply Nat.le_of_not_lt
    intro hlt
    obtain ⟨a, a0, a1, ha⟩ := hn s.nextId (Nat.le_refl _) hlt
    have hpos : 0 < s.nextId := Nat.zero_lt_of_lt (hs.range _ _ hs.tt).2
    rw [← struct_stable hs hi' he (a + 1) a (by omega) a0 a1] at ha
    have := (struct_eq_iff hi' hpos hlt a0 (Nat.lt_of_lt_of_le a1 he.next)).mp ha
    omega
  · have h := hc.eq
    rw [← struct_stable hs hi' he (i + 1) i (by omega) hc.spos hc.slt] at h
    exact (struct_eq_iff hi' hc.pos hc.lt hc.spos (Nat.lt_of_lt_of_le hc.slt he.next)).mp h

theorem same_manager_no_new {s s' : Mgr} (hs : Inv s) (hi' : Inv s') (he : Ext s s') (hn : NewCopies s s s') :
    s'.nextId = s.nextId := by
  apply Nat.le_antisymm _ he.next
  apply Nat.le_of_not_lt
  intro hlt
  obtain ⟨a, a0, a1, ha⟩ := hn s.nextId (Nat.le_refl _) hlt
  have hpos : 0 < s.nextId := Nat.zero_lt_of_lt (hs.range _ _ hs.tt).2
  rw [← struct_stable hs hi' he (a + 1) a (by omega) a0 a1] at ha
  have := (struct_eq_iff hi' hpos hlt a0 (Nat.lt_of_lt_of_le a1 he.next)).mp ha
  omega

end PySMT.Manager
