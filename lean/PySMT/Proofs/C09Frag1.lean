import PySMT.Proofs.C09Hyp
import PySMT.Proofs.C07ReadMain
/-!
# C09: what the printers write lies in the fragment `FragS` of the agreement theorem (C08)

This file: how `FragS` unfolds on the shapes the printers write; sorts; numerals; the table of the operators that are
printed `(f args…)` with their standard names and arities.
-/
namespace PySMT.Parser.Agree
open PySMT PySMT.Parser PySMT.Std PySMT.Sexp PySMT.Printer

/-! ## unfolding `FragS` -/

theorem FragS_atom (env : SEnv) (ρ : List (String × Sym)) (a : String) : FragS env ρ (.atom a) = true := by
  rw [FragS]

theorem FragS_str (env : SEnv) (ρ : List (String × Sym)) (v : String) : FragS env ρ (.str v) = strFine v := by
  rw [FragS]

theorem FragL_nil (env : SEnv) (ρ : List (String × Sym)) : FragL env ρ [] = true := by
  rw [FragL]

theorem FragL_cons_eq (env : SEnv) (ρ : List (String × Sym)) (s : Sexp) (r : List Sexp) :
    FragL env ρ (s :: r) = (FragS env ρ s && FragL env ρ r) := by
  rw [FragL]

theorem FragL_of_mem (env : SEnv) (ρ : List (String × Sym)) : ∀ (l : List Sexp), (∀ s ∈ l, FragS env ρ s = true) →
    FragL env ρ l = true
  | [], _ => FragL_nil env ρ
  | s :: r, h => by
    rw [FragL_cons_eq, h s (by simp), FragL_of_mem env ρ r (fun x hx => h x (List.mem_cons_of_mem _ hx))]
    rfl

theorem FragL_map (env : SEnv) (ρ : List (String × Sym)) (toS : Term → Sexp) (args : List Term)
    (h : ∀ a ∈ args, FragS env ρ (toS a) = true) : FragL env ρ (args.map toS) = true := by
  apply FragL_of_mem
  intro s hs
  obtain ⟨a, ha, rfl⟩ := List.mem_map.1 hs
  exact h a ha

/-- an application of a theory symbol of the fragment -/
theorem FragS_op (env : SEnv) (ρ : List (String × Sym)) (f : String) (hf : f ∈ fragOps) (as : List Sexp)
    (har : arityOK f as.length = true) (hm : minusOK f as = true) (hl : FragL env ρ as = true) :
    FragS env ρ (.list (.atom f :: as)) = true := by
  obtain ⟨_, _, _, e1, e2, e3, _, e5, _, _, _, _⟩ := opTok_unpack (fragOps_facts f hf)
  have hc : fragOps.contains f = true := by simpa using hf
  rw [FragS]
  simp only [e1, e2, e3, e5, Bool.false_eq_true, if_false, Bool.or_self, hc, if_true, har, hm, hl, Bool.and_self]

/-- an application of a declared function -/
theorem FragS_user (env : SEnv) (ρ : List (String × Sym)) (hd n : String) (hsn : symName? hd = some n)
    (hth : theorySymbols.contains n = false) (as : List Sexp) (hl : FragL env ρ as = true) :
    FragS env ρ (.list (.atom hd :: as)) = true := by
  obtain ⟨e1, e2, e3, _, e5, _, _, _⟩ := sym_not_special hsn
  have hc : fragOps.contains hd = false := by
    cases hc : fragOps.contains hd with
    | false => rfl
    | true =>
      have hf : hd ∈ fragOps := by simpa using hc
      obtain ⟨h1, _, h3, _⟩ := opTok_unpack (fragOps_facts hd hf)
      rw [h1] at hsn
      cases hsn
      rw [h3] at hth; cases hth
  rw [FragS]
  simp only [e1, e2, e3, e5, Bool.false_eq_true, if_false, Bool.or_self, hc, userHead, hsn, hth, Bool.not_false, hl,
    Bool.and_self]

/-- an application whose head is a list -/
theorem FragS_head (env : SEnv) (ρ : List (String × Sym)) (hd as : List Sexp)
    (hh : fragHead hd = true) (hl : FragL env ρ as = true) : FragS env ρ (.list (.list hd :: as)) = true := by
  rw [FragS, hh, hl]; rfl

/-- a quantifier -/
theorem FragS_quant (env : SEnv) (ρ : List (String × Sym)) (q : String) (hq : q = "forall" ∨ q = "exists")
    (vs : List Sexp) (body : Sexp) (hv : fragVars env ρ vs = true) (hb : FragS env ρ body = true) :
    FragS env ρ (.list (.atom q :: .list vs :: [body])) = true := by
  have hbody : fragBody env ρ [body] = true := by rw [fragBody]; exact hb
  have hqu : fragQuant env ρ [.list vs, body] = true := by
    rw [fragQuant]; simp only [hv, hbody, Bool.and_self]
  rw [FragS]
  rcases hq with rfl | rfl
  · simp only [show ("forall" == "let") = false by decide, Bool.false_eq_true, if_false, beq_self_eq_true,
      Bool.true_or, if_true, hqu]
  · simp only [show ("exists" == "let") = false by decide, Bool.false_eq_true, if_false, beq_self_eq_true,
      Bool.or_true, if_true, hqu]

theorem minusOK_ne (f : String) (hf : f ≠ "-") (as : List Sexp) : minusOK f as = true := by
  unfold minusOK
  split
  · simp [hf]
  · rfl

theorem minusOK_two (f : String) (a b : Sexp) : minusOK f [a, b] = true := rfl

/-! ## sorts -/

theorem FragSort_atom (a : String) : FragSort (.atom a) = true := by rw [FragSort]

theorem FragSort_tySexp (env : SEnv) : ∀ (ty : Ty), SortOK env ty = true → FragSort (tySexp ty) = true
  | .bool, _ => by simp only [tySexp]; exact FragSort_atom _
  | .int, _ => by simp only [tySexp]; exact FragSort_atom _
  | .real, _ => by simp only [tySexp]; exact FragSort_atom _
  | .str, _ => by simp only [tySexp]; exact FragSort_atom _
  | .bv w, _ => by
    simp only [tySexp, natAtom]
    rw [FragSort]
    simp [isIdx2]
  | .array i e, h => by
    simp only [SortOK, Bool.and_eq_true] at h
    have hi := FragSort_tySexp env i h.1
    have he := FragSort_tySexp env e h.2
    simp only [tySexp]
    rw [FragSort, FragSortL, FragSortL, FragSortL, hi, he]
    simp [symName_lits.2.2.2.2.2.1]
  | .custom n, h => by
    have h' := h
    simp only [SortOK, Bool.and_eq_true, Bool.not_eq_true', beq_iff_eq] at h'
    obtain ⟨⟨⟨⟨hbr, hch⟩, hr⟩, hbuiltin⟩, hls⟩ := h'
    obtain ⟨tok, htok, _⟩ := symTok n hch hr
    -- `sortStd` reads the printed sort: it is an atom
    have hstd := sortStd_tySexp env (.custom n) h
    cases hts : tySexp (.custom n) with
    | atom a => exact FragSort_atom a
    | str s => rw [hts, sortStd] at hstd; cases hstd
    | list l =>
      exfalso
      have hbr' : '{' ∉ n.toList := by simpa using hbr
      simp only [List.contains_cons, List.contains_nil, Bool.or_false, Bool.or_eq_false_iff, beq_eq_false_iff_ne,
        ne_eq] at hbuiltin
      obtain ⟨hB, hI, hR, hS⟩ := hbuiltin
      have : tySexp (.custom n) = quoteAtom n := by
        simp only [tySexp]
        cases hl : n.length with
        | zero => simp [nameToSexp, sortAtom, String.ofList_toList]
        | succ k =>
          have hb : ["Int", "Real", "Bool", "String"].contains n = false := by
            simp only [List.contains_cons, List.contains_nil, Bool.or_false, Bool.or_eq_false_iff, beq_eq_false_iff_ne,
              ne_eq]
            exact ⟨hI, hR, hB, hS⟩
          simp only [nameToSexp, breakBrace_none _ hbr', String.ofList_toList, hb, Bool.false_eq_true, if_false,
            sortAtom]
      rw [this, htok] at hts
      cases hts

/-! ## numerals -/

theorem isNumLit_natAtom (k : Nat) : isNumLit (natAtom k) = true := by
  simp [isNumLit, natAtom, numeral?_natStr]

theorem isNumLit_decAtom (k : Nat) : isNumLit (decAtom k) = true := by
  unfold decAtom isNumLit
  simp only [(decimal_read k).1, (decimal_read k).2]; rfl

theorem isNonzeroLit_decAtom (k : Nat) (hk : k ≠ 0) : isNonzeroLit (decAtom k) = true := by
  have hq : ((k : Nat) : Rat) ≠ 0 := fun h => hk (Rat.natCast_eq_zero_iff.mp h)
  unfold decAtom isNonzeroLit
  simp only [(decimal_read k).1, (decimal_read k).2]
  simpa using hq

end PySMT.Parser.Agree
