import PySMT.Proofs.C09FragDag
import PySMT.Proofs.C08AgreeRot
/-!
# C09: the side condition `RotOK` of the agreement theorem (C08) for what the DAG printer writes

`rotOK_toSexpDag`: the DAG printer's text of a formula without `rotate_left`/`rotate_right` nodes (`noRot`) satisfies the
side condition `RotOK` — it contains no head `(_ rotate_x k)` at all.

* `noRotS s` (syntactic, decidable): no sub-expression of `s` is an application whose head is `(_ rotate_x k)`.
* `rotOK_of_noRotS`: `noRotS s → RotOK env sc s` in every scope.
* `noRotS_node`: what a walker method writes for a node other than a rotation, given that what was written for the
  children has the property.
* `RotInv`: the invariant of the work-stack machine; `noRotS_dagPrint` (induction on the fuel: quantifiers are printed by a
  nested printer).
-/
namespace PySMT.Parser.Agree
open PySMT PySMT.Parser PySMT.Std PySMT.Sexp PySMT.Printer

/-! ## the syntactic predicate -/

/-- the first element of a list is not `(_ rotate_x k)` -/
def headOK : List Sexp → Bool
  | .list [.atom u, .atom f, .atom _] :: _ => !(u == "_" && isRot f)
  | _ => true

mutual
/-- no application of a head `(_ rotate_left k)` / `(_ rotate_right k)` anywhere -/
def noRotS : Sexp → Bool
  | .atom _ => true
  | .str _ => true
  | .list xs => headOK xs && noRotL xs
def noRotL : List Sexp → Bool
  | [] => true
  | s :: r => noRotS s && noRotL r
end

theorem noRotS_atom (a : String) : noRotS (.atom a) = true := by rw [noRotS]
theorem noRotS_str (a : String) : noRotS (.str a) = true := by rw [noRotS]
theorem noRotS_list (xs : List Sexp) : noRotS (.list xs) = (headOK xs && noRotL xs) := by rw [noRotS]
theorem noRotL_nil : noRotL [] = true := by rw [noRotL]
theorem noRotL_cons (s : Sexp) (r : List Sexp) : noRotL (s :: r) = (noRotS s && noRotL r) := by rw [noRotL]

theorem headOK_nil : headOK [] = true := rfl
theorem headOK_atom (a : String) (r : List Sexp) : headOK (.atom a :: r) = true := rfl
theorem headOK_str (a : String) (r : List Sexp) : headOK (.str a :: r) = true := rfl

/-- a list head that is not a rotation head -/
theorem headOK_of (hd r : List Sexp)
    (h : ∀ u f k, hd = [.atom u, .atom f, .atom k] → (u == "_" && isRot f) = false) : headOK (.list hd :: r) = true := by
  unfold headOK
  split
  · next u f k _ heq =>
    simp only [List.cons.injEq, Sexp.list.injEq] at heq
    rw [h u f k heq.1]; rfl
  · rfl

theorem headOK_two (a b : Sexp) (r : List Sexp) : headOK (.list [a, b] :: r) = true :=
  headOK_of _ _ (fun u f k h => by simp at h)

theorem noRotL_of_mem : ∀ (l : List Sexp), (∀ s ∈ l, noRotS s = true) → noRotL l = true
  | [], _ => noRotL_nil
  | s :: r, h => by
    rw [noRotL_cons, h s (by simp), noRotL_of_mem r (fun x hx => h x (List.mem_cons_of_mem _ hx))]
    rfl

theorem noRotL_mem : ∀ (l : List Sexp), noRotL l = true → ∀ s ∈ l, noRotS s = true
  | [], _, s, hs => by cases hs
  | x :: r, h, s, hs => by
    rw [noRotL_cons, Bool.and_eq_true] at h
    rcases List.mem_cons.1 hs with rfl | hs
    · exact h.1
    · exact noRotL_mem r h.2 s hs

theorem noRotL_map (toS : Term → Sexp) (args : List Term) (h : ∀ a ∈ args, noRotS (toS a) = true) :
    noRotL (args.map toS) = true := by
  apply noRotL_of_mem
  intro s hs
  obtain ⟨a, ha, rfl⟩ := List.mem_map.1 hs
  exact h a ha

/-- an application whose head is an atom -/
theorem noRotS_app (f : String) (as : List Sexp) (h : noRotL as = true) : noRotS (.list (.atom f :: as)) = true := by
  rw [noRotS_list, headOK_atom, noRotL_cons, noRotS_atom, h]; rfl

/-! ## `noRotS` implies `RotOK`, in every scope -/

theorem rotHeadOK_of_headOK (env : SEnv) (sc : List Binding) (hd args : List Sexp)
    (h : headOK (.list hd :: args) = true) : rotHeadOK env sc hd args = true := by
  unfold rotHeadOK
  split
  · next u f k x =>
    have : (u == "_" && isRot f) = false := by
      have h' : (!(u == "_" && isRot f)) = true := h
      cases hc : (u == "_" && isRot f) with
      | false => rfl
      | true => rw [hc] at h'; cases h'
    rw [this]; rfl
  · rfl

/-- the claim for one S-expression -/
def RotP (env : SEnv) (s : Sexp) : Prop := noRotS s = true → ∀ sc, RotOK env sc s = true

theorem rotOKL_of (env : SEnv) : ∀ (l : List Sexp), (∀ s ∈ l, RotP env s) → noRotL l = true →
    ∀ sc, RotOKL env sc l = true
  | [], _, _, sc => by rw [RotOKL]
  | s :: r, ih, h, sc => by
    rw [noRotL_cons, Bool.and_eq_true] at h
    rw [RotOKL_cons, ih s (by simp) h.1 sc, rotOKL_of env r (fun x hx => ih x (List.mem_cons_of_mem _ hx)) h.2 sc]
    rfl

theorem rotBind_of (env : SEnv) (b : Sexp) (ih : ∀ e, sizeOf e < sizeOf b → RotP env e) (h : noRotS b = true)
    (sc : List Binding) : rotBind env sc b = true := by
  unfold rotBind
  split
  · next x e =>
    rw [noRotS_list, Bool.and_eq_true, noRotL_cons, noRotL_cons, Bool.and_eq_true, Bool.and_eq_true] at h
    exact ih e (by simp; omega) h.2.2.1 _
  · rfl

theorem rotBinds_of (env : SEnv) : ∀ (bs : List Sexp), (∀ b ∈ bs, ∀ e, sizeOf e < sizeOf b → RotP env e) →
    noRotL bs = true → ∀ sc, rotBinds env sc bs = true
  | [], _, _, sc => by rw [rotBinds]
  | b :: r, ih, h, sc => by
    rw [noRotL_cons, Bool.and_eq_true] at h
    rw [rotBinds, rotBind_of env b (ih b (by simp)) h.1 sc,
      rotBinds_of env r (fun x hx => ih x (List.mem_cons_of_mem _ hx)) h.2 sc]
    rfl

theorem rotLet_of (env : SEnv) (args : List Sexp) (ih : ∀ e, sizeOf e < sizeOf args → RotP env e)
    (h : noRotL args = true) (sc : List Binding) : rotLet env sc args = true := by
  unfold rotLet
  split
  · next bs body =>
    rw [noRotL_cons, noRotL_cons, Bool.and_eq_true, Bool.and_eq_true, noRotS_list, Bool.and_eq_true] at h
    obtain ⟨⟨_, hbs⟩, hbody, _⟩ := h
    rw [rotBinds_of env bs (fun b hb e he => ih e (by
      have := List.sizeOf_lt_of_mem hb
      simp; omega)) hbs sc]
    simp only [Bool.true_and]
    split
    · exact ih body (by simp; omega) hbody _
    · rfl
  · rfl

theorem rotQuant_of (env : SEnv) (args : List Sexp) (ih : ∀ e, sizeOf e < sizeOf args → RotP env e)
    (h : noRotL args = true) (sc : List Binding) : rotQuant env sc args = true := by
  unfold rotQuant
  split
  · next vs body =>
    rw [noRotL_cons, noRotL_cons, Bool.and_eq_true, Bool.and_eq_true] at h
    split
    · exact ih body (by simp; omega) h.2.1 _
    · rfl
  · rfl

theorem rotP_all (env : SEnv) : ∀ (n : Nat) (s : Sexp), sizeOf s < n → RotP env s
  | 0, _, h => by omega
  | n + 1, s, hn => by
    have ih : ∀ e, sizeOf e < sizeOf s → RotP env e := fun e he => rotP_all env n e (by omega)
    intro h sc
    match s, ih, h with
    | .atom _, _, _ => rw [RotOK]
    | .str _, _, _ => rw [RotOK]
    | .list [], _, _ => rw [RotOK]
    | .list (.str _ :: _), _, _ => rw [RotOK]
    | .list (.list hd :: args), ih, h =>
      rw [noRotS_list, Bool.and_eq_true, noRotL_cons, Bool.and_eq_true] at h
      rw [RotOK_head, rotHeadOK_of_headOK env sc hd args h.1,
        rotOKL_of env args (fun e he => ih e (by
          have := List.sizeOf_lt_of_mem he
          simp; omega)) h.2.2 sc]
      rfl
    | .list (.atom f :: args), ih, h =>
      rw [noRotS_list, Bool.and_eq_true, noRotL_cons, Bool.and_eq_true] at h
      have ih' : ∀ e, sizeOf e < sizeOf args → RotP env e := fun e he => ih e (by simp; omega)
      by_cases h1 : f = "let"
      · subst h1
        rw [RotOK_let]
        exact rotLet_of env args ih' h.2.2 sc
      · by_cases h2 : f = "forall" ∨ f = "exists"
        · rw [RotOK_quant env sc f h2]
          exact rotQuant_of env args ih' h.2.2 sc
        · rw [RotOK_app env sc f args (by simpa using h1) (by simpa using h2)]
          exact rotOKL_of env args (fun e he => ih e (by
            have := List.sizeOf_lt_of_mem he
            simp; omega)) h.2.2 sc

/-- **A text without rotation heads satisfies the side condition**, in every scope. -/
theorem rotOK_of_noRotS (env : SEnv) (s : Sexp) (h : noRotS s = true) (sc : List Binding) : RotOK env sc s = true :=
  rotP_all env (sizeOf s + 1) s (by omega) h sc

/-! ## sorts, constants -/

theorem noRotS_quoteAtom (n : String) : noRotS (quoteAtom n) = true := by
  unfold quoteAtom atomOfText
  split <;> exact noRotS_atom _

theorem quoteAtom_app (n : String) (as : List Sexp) (h : noRotL as = true) :
    noRotS (.list (quoteAtom n :: as)) = true := by
  unfold quoteAtom atomOfText
  split <;> exact noRotS_app _ _ h

theorem noRotS_bitvec (k : Sexp) (hk : noRotS k = true) : noRotS (.list [.atom "_", .atom "BitVec", k]) = true := by
  apply noRotS_app
  rw [noRotL_cons, noRotL_cons, noRotS_atom, hk, noRotL_nil]; rfl

theorem noRotS_nameToSexp : ∀ (fuel : Nat) (cs : List Char), noRotS (nameToSexp fuel cs) = true
  | 0, cs => by simp only [nameToSexp, sortAtom]; exact noRotS_quoteAtom _
  | fuel + 1, cs => by
    simp only [nameToSexp]
    split
    · split
      · exact noRotS_atom _
      · exact noRotS_quoteAtom _
    · split
      · exact noRotS_bitvec _ (noRotS_atom _)
      · have hl : ∀ l : List (List Char), noRotL (l.map (nameToSexp fuel)) = true := fun l =>
          noRotL_of_mem _ (fun s hs => by
            obtain ⟨a, _, rfl⟩ := List.mem_map.1 hs
            exact noRotS_nameToSexp fuel a)
        have hl := hl (splitTop (List.dropLast (by assumption)) 0 [])
        split
        · exact noRotS_app _ _ hl
        · exact quoteAtom_app _ _ hl

theorem noRotS_tySexp : ∀ (ty : Ty), noRotS (tySexp ty) = true
  | .bool => by simp only [tySexp]; exact noRotS_atom _
  | .int => by simp only [tySexp]; exact noRotS_atom _
  | .real => by simp only [tySexp]; exact noRotS_atom _
  | .str => by simp only [tySexp]; exact noRotS_atom _
  | .bv w => by simp only [tySexp]; exact noRotS_bitvec _ (noRotS_atom _)
  | .array i e => by
    simp only [tySexp]
    apply noRotS_app
    rw [noRotL_cons, noRotL_cons, noRotS_tySexp i, noRotS_tySexp e, noRotL_nil]; rfl
  | .custom n => by simp only [tySexp]; exact noRotS_nameToSexp _ _

theorem noRotS_arrTySexp (idx : Ty) (d : Term) : noRotS (arrTySexp idx d) = true := by
  unfold arrTySexp
  apply noRotS_app
  rw [noRotL_cons, noRotL_cons, noRotS_tySexp, noRotL_nil]
  split
  · rw [noRotS_tySexp]; rfl
  · rw [noRotS_atom]; rfl

theorem noRotS_intSexp (sp : Spell) (n : Int) : noRotS (intSexp sp n) = true := by
  unfold intSexp
  split
  · apply noRotS_app
    rw [noRotL_cons, noRotL_nil]; simp only [natAtom, noRotS_atom, Bool.and_self]
  · exact noRotS_atom _

theorem noRotS_realSexp (sp : Spell) (q : Rat) : noRotS (realSexp sp q) = true := by
  have hb : noRotS (if q.den != 1 then Sexp.list [.atom (sp "walk_real_constant:1"),
      decAtom q.num.natAbs, decAtom q.den] else decAtom q.num.natAbs) = true := by
    split
    · apply noRotS_app
      rw [noRotL_cons, noRotL_cons, noRotL_nil]; simp only [decAtom, noRotS_atom, Bool.and_self]
    · exact noRotS_atom _
  simp only [realSexp]
  split
  · apply noRotS_app
    rw [noRotL_cons, hb, noRotL_nil]; rfl
  · exact hb

/-- `((_ f idx…) args…)` for `f` not a rotation -/
theorem noRotS_indexed (f : String) (hf : isRot f = false) (idx : List Nat) (as : List Sexp) (h : noRotL as = true) :
    noRotS (indexed f idx as) = true := by
  unfold indexed
  rw [noRotS_list, noRotL_cons, h]
  have h1 : headOK (.list (.atom "_" :: .atom f :: idx.map natAtom) :: as) = true :=
    headOK_of _ _ (fun u f' k he => by
      simp only [List.cons.injEq, Sexp.atom.injEq] at he
      rw [← he.2.1, hf, Bool.and_false])
  have h2 : noRotS (.list (.atom "_" :: .atom f :: idx.map natAtom)) = true := by
    apply noRotS_app
    rw [noRotL_cons, noRotS_atom]
    simp only [Bool.true_and]
    apply noRotL_of_mem
    intro s hs
    obtain ⟨a, _, rfl⟩ := List.mem_map.1 hs
    exact noRotS_atom _
  rw [h1, h2]; rfl

theorem noRotS_storeChain (sp : Spell) (hsp : SpellStd sp) (arrTy d : Sexp) (hty : noRotS arrTy = true)
    (hd : noRotS d = true) : ∀ (ents : List (Sexp × Sexp)), (∀ kv ∈ ents, noRotS kv.1 = true ∧ noRotS kv.2 = true) →
      noRotS (storeChain sp arrTy d ents) = true := by
  have hbase : noRotS (.list [.list [.atom (sp "walk_array_value:1"), .atom (sp "walk_array_value:2"), arrTy], d])
      = true := by
    rw [spell sp hsp "walk_array_value:1" "as" (by decide), spell sp hsp "walk_array_value:2" "const" (by decide)]
    rw [noRotS_list, noRotL_cons, noRotL_cons, noRotL_nil, hd]
    have h1 : headOK [.list [.atom "as", .atom "const", arrTy], d] = true :=
      headOK_of _ _ (fun u f k he => by
        simp only [List.cons.injEq, Sexp.atom.injEq] at he
        rw [← he.1]; rfl)
    have h2 : noRotS (.list [.atom "as", .atom "const", arrTy]) = true := by
      apply noRotS_app
      rw [noRotL_cons, noRotL_cons, noRotS_atom, hty, noRotL_nil]; rfl
    rw [h1, h2]; rfl
  have step : ∀ (ents : List (Sexp × Sexp)) (acc : Sexp),
      (∀ kv ∈ ents, noRotS kv.1 = true ∧ noRotS kv.2 = true) → noRotS acc = true →
      noRotS (ents.foldl (fun acc kv => .list [.atom (sp "walk_array_value:0"), acc, kv.1, kv.2]) acc) = true := by
    intro ents
    induction ents with
    | nil => intro acc _ h; exact h
    | cons kv l ih =>
      intro acc hl hacc
      simp only [List.foldl_cons]
      apply ih _ (fun x hx => hl x (List.mem_cons_of_mem _ hx))
      obtain ⟨hk, hv⟩ := hl kv (by simp)
      apply noRotS_app
      rw [noRotL_cons, noRotL_cons, noRotL_cons, hacc, hk, hv, noRotL_nil]; rfl
  intro ents hents
  exact step ents _ hents hbase

theorem noRotS_sortedVar (v : Sym) : noRotS (sortedVar v) = true := by
  unfold sortedVar
  apply quoteAtom_app
  rw [noRotL_cons, noRotS_tySexp, noRotL_nil]; rfl

theorem noRotS_sortedVars (vs : List Sym) : noRotS (.list (vs.map sortedVar)) = true := by
  rw [noRotS_list]
  have h1 : headOK (vs.map sortedVar) = true := by
    cases vs with
    | nil => rfl
    | cons v vs => simp only [List.map_cons, sortedVar]; exact headOK_two _ _ _
  have h2 : noRotL (vs.map sortedVar) = true := by
    apply noRotL_of_mem
    intro s hs
    obtain ⟨a, _, rfl⟩ := List.mem_map.1 hs
    exact noRotS_sortedVar a
  rw [h1, h2]; rfl

/-! ## what a walker method writes -/

section
variable (sp : Spell) (hsp : SpellStd sp) (srt : Bool) (toS : Term → Sexp)
include hsp

/-- what either printer writes for a node other than a rotation contains no rotation head, given that what was written
for the arguments contains none (quantifiers included; no typing hypothesis is needed) -/
theorem noRotS_node (op : Op) (args : List Term) (p : Payload) (h1 : op ≠ .bvRol) (h2 : op ≠ .bvRor)
    (hargs : ∀ a ∈ args, noRotS (toS a) = true) : noRotS (nodeSexp sp srt op p args (args.map toS)) = true := by
  have hl : noRotL (args.map toS) = true := noRotL_map toS args hargs
  unfold nodeSexp
  split
  · exact noRotS_quoteAtom _
  · exact quoteAtom_app _ _ hl
  · exact noRotS_intSexp sp _
  · exact noRotS_realSexp sp _
  · exact noRotS_atom _
  · exact noRotS_atom _
  · exact noRotS_str _
  · apply noRotS_app
    rw [noRotL_cons, noRotS_sortedVars, hl]; rfl
  · apply noRotS_app
    rw [noRotL_cons, noRotS_sortedVars, hl]; rfl
  · simp only [walkKey, spell sp hsp "walk_bv_extract" "extract" (by decide)]
    exact noRotS_indexed _ (by decide) _ _ hl
  · exact absurd rfl h1
  · exact absurd rfl h2
  · simp only [walkKey, spell sp hsp "walk_bv_extend:is_bv_zext" "zero_extend" (by decide)]
    exact noRotS_indexed _ (by decide) _ _ hl
  · simp only [walkKey, spell sp hsp "walk_bv_extend:is_bv_sext" "sign_extend" (by decide)]
    exact noRotS_indexed _ (by decide) _ _ hl
  · cases args with
    | nil => exact noRotS_atom _
    | cons d rest =>
      simp only [List.map_cons]
      apply noRotS_storeChain sp hsp _ _ (noRotS_arrTySexp _ _) (hargs d (by simp))
      intro kv hkv
      obtain ⟨e, he, rfl⟩ := List.mem_map.1 hkv
      obtain ⟨m1, m2⟩ := mem_avEnts srt rest toS e he
      obtain ⟨a1, ha1, e1⟩ := List.mem_map.1 m1
      obtain ⟨a2, ha2, e2⟩ := List.mem_map.1 m2
      rw [← e1, ← e2]
      exact ⟨hargs a1 (List.mem_cons_of_mem _ ha1), hargs a2 (List.mem_cons_of_mem _ ha2)⟩
  · exact noRotS_app _ _ hl

end

/-! ## one `let` with one binding; the chain -/

theorem noRotS_let1 (x : String) (e body : Sexp) (he : noRotS e = true) (hb : noRotS body = true) :
    noRotS (.list [.atom "let", .list [.list [.atom x, e]], body]) = true := by
  have h1 : noRotS (.list [.atom x, e]) = true := by
    apply noRotS_app
    rw [noRotL_cons, he, noRotL_nil]; rfl
  have h2 : noRotS (.list [.list [.atom x, e]]) = true := by
    rw [noRotS_list, headOK_two, noRotL_cons, h1, noRotL_nil]; rfl
  apply noRotS_app
  rw [noRotL_cons, noRotL_cons, h2, hb, noRotL_nil]; rfl

theorem noRotS_letWrap : ∀ (binds : List (Sexp × Sexp)) (key : Sexp),
    (∀ b ∈ binds, (∃ x, b.1 = .atom x) ∧ noRotS b.2 = true) → noRotS key = true →
    noRotS (letWrap binds key) = true
  | [], key, _, hk => hk
  | b :: binds, key, hb, hk => by
    unfold letWrap
    rw [List.foldl_cons]
    obtain ⟨⟨x, hbx⟩, hbe⟩ := hb b (by simp)
    apply noRotS_letWrap binds _ (fun b' hb' => hb b' (List.mem_cons_of_mem _ hb'))
    rw [hbx]
    exact noRotS_let1 _ _ _ hbe hk

/-! ## the invariant of the work-stack machine -/

theorem noRotS_memoGet (memo : List (Term × Sexp)) (h : ∀ e ∈ memo, noRotS e.2 = true) (a : Term) :
    noRotS (memoGet memo a) = true := by
  unfold memoGet
  cases hl : memo.lookup a with
  | none => exact noRotS_atom _
  | some s =>
    have hm : (a, s) ∈ memo := by
      clear h
      induction memo with
      | nil => simp at hl
      | cons x memo ih =>
        obtain ⟨xa, xs⟩ := x
        rw [List.lookup_cons] at hl
        by_cases hax : (a == xa) = true
        · rw [hax] at hl
          have : a = xa := by simpa using hax
          simp only [Option.some.injEq] at hl
          subst hl; subst this
          exact List.mem_cons_self
        · have hax' : (a == xa) = false := by simpa using hax
          rw [hax'] at hl
          exact List.mem_cons_of_mem _ (ih hl)
    exact h _ hm

theorem noRot_inv (op : Op) (args : List Term) (p : Payload) (h : noRot (.node op args p) = true) :
    op ≠ .bvRol ∧ op ≠ .bvRor ∧ ∀ a ∈ args, noRot a = true := by
  rw [noRot_node] at h
  simp only [Bool.and_eq_true, bne_iff_ne, ne_eq, List.all_map, List.all_eq_true, Function.comp, id] at h
  exact ⟨h.1.1, h.1.2, h.2⟩

/-- every memoized result and every right-hand side is free of rotation heads; every binding binds an atom; no formula on
the stack has a rotation node -/
def RotInv (st : DSt) : Prop :=
  (∀ e ∈ st.memo, noRotS e.2 = true) ∧
  (∀ b ∈ st.binds, (∃ x, b.1 = .atom x) ∧ noRotS b.2 = true) ∧
  (∀ e ∈ st.stack, noRot e.2 = true)

section
variable (sp : Spell) (hsp : SpellStd sp) (names : List String)

theorem bindNew_rot (st : DSt) (rest : List (Bool × Term)) (t : Term) (e : Sexp)
    (hm : ∀ x ∈ st.memo, noRotS x.2 = true)
    (hb : ∀ b ∈ st.binds, (∃ x, b.1 = .atom x) ∧ noRotS b.2 = true)
    (hs : ∀ x ∈ rest, noRot x.2 = true)
    (he : noRotS e = true) : RotInv (bindNew names st rest t e) := by
  refine ⟨?_, ?_, ?_⟩
  · intro x hx
    simp only [bindNew, List.mem_cons] at hx
    rcases hx with rfl | hx
    · exact noRotS_atom _
    · exact hm x hx
  · intro b hb'
    simp only [bindNew, List.mem_cons] at hb'
    rcases hb' with rfl | hb'
    · exact ⟨⟨_, rfl⟩, he⟩
    · exact hb b hb'
  · intro x hx
    exact hs x hx

include hsp in
/-- `sub` (the nested printer for the body of a quantifier) need only be good on formulas without rotation nodes -/
theorem dagStep_rot (sub : Term → Sexp) (hsub : ∀ a, noRot a = true → noRotS (sub a) = true) (st : DSt)
    (h : RotInv st) : RotInv (dagStep sp names sub st) := by
  obtain ⟨hm, hb, hs⟩ := h
  unfold dagStep
  split
  · exact ⟨hm, hb, hs⟩
  · next expanded op args p rest hst =>
    have hrest : ∀ x ∈ rest, noRot x.2 = true := by
      intro x hx; exact hs x (by rw [hst]; exact List.mem_cons_of_mem _ hx)
    have hN : noRot (.node op args p) = true := hs (expanded, .node op args p) (by rw [hst]; exact List.mem_cons_self)
    obtain ⟨h1, h2, hNargs⟩ := noRot_inv op args p hN
    have hnode : noRotS (nodeSexp sp false op p args (args.map (memoGet st.memo))) = true :=
      noRotS_node sp hsp false (memoGet st.memo) op args p h1 h2 (fun a _ => noRotS_memoGet st.memo hm a)
    have hquant : noRotS (nodeSexp sp false op p args (args.map sub)) = true :=
      noRotS_node sp hsp false sub op args p h1 h2 (fun a ha => hsub a (hNargs a ha))
    dsimp only
    split
    · split
      · exact ⟨hm, hb, hrest⟩
      · split
        · exact bindNew_rot names st rest _ _ hm hb hrest hnode
        · refine ⟨?_, hb, hrest⟩
          intro x hx
          simp only [List.mem_cons] at hx
          rcases hx with rfl | hx
          · exact hnode
          · exact hm x hx
    · split
      · split
        · exact ⟨hm, hb, hrest⟩
        · exact bindNew_rot names st rest _ _ hm hb hrest hquant
      · refine ⟨hm, hb, ?_⟩
        intro x hx
        simp only [List.mem_append, List.mem_map, List.mem_reverse, List.mem_filter, List.mem_cons] at hx
        rcases hx with ⟨a, ⟨ha, _⟩, rfl⟩ | rfl | hx
        · exact hNargs a ha
        · exact hN
        · exact hrest x hx

include hsp in
theorem dagLoop_rot (sub : Term → Sexp) (hsub : ∀ a, noRot a = true → noRotS (sub a) = true) :
    ∀ (fuel : Nat) (st : DSt), RotInv st → RotInv (dagLoop sp names sub fuel st)
  | 0, _, h => h
  | fuel + 1, st, h => by
    unfold dagLoop
    split
    · exact h
    · exact dagLoop_rot sub hsub fuel _ (dagStep_rot sp hsp names sub hsub st h)

include hsp in
/-- what `SmtDagPrinter.printer` writes for a formula without rotation nodes contains no rotation head (quantifiers
included: induction on the fuel, which bounds the nesting of the printers) -/
theorem noRotS_dagPrint : ∀ (fuel : Nat) (t : Term), noRot t = true → noRotS (dagPrint sp fuel t) = true
  | 0, _, _ => noRotS_atom _
  | fuel + 1, t, hN => by
    simp only [dagPrint]
    have h0 : RotInv { stack := [(false, t)], memo := [], seed := 0, binds := [] } := by
      refine ⟨fun _ h => (by cases h), fun _ h => (by cases h), ?_⟩
      intro e he
      simp only [List.mem_singleton] at he
      subst he
      exact hN
    obtain ⟨hm, hb, _⟩ := dagLoop_rot sp hsp _ (dagPrint sp fuel) (fun a ha => noRotS_dagPrint fuel a ha) fuel _ h0
    exact noRotS_letWrap _ _ hb (noRotS_memoGet _ hm t)

end

/-- `to_smtlib(f, daggify=True)` of a formula without rotation nodes contains no head `(_ rotate_x k)` -/
theorem noRotS_toSexpDag (t : Term) (hnr : noRot t = true) : noRotS (Printer.toSexpDag t) = true :=
  noRotS_dagPrint dagSpell dagSpell_std (dagFuel t) t hnr

/-- the side condition holds in every scope, and neither `Printable` nor `noQuant` is needed -/
theorem rotOK_toSexpDag' (env : SEnv) (sc : List Binding) (t : Term) (hnr : noRot t = true) :
    RotOK env sc (Printer.toSexpDag t) = true :=
  rotOK_of_noRotS env _ (noRotS_toSexpDag t hnr) sc

set_option linter.unusedVariables false in
/-- **The side condition of the agreement theorem holds for the DAG printer's text** of a formula without
`rotate_left`/`rotate_right` nodes. (`hP`, `hq` are the hypotheses of the companion theorem `fragS_toSexpDag`; this proof
does not use them: see `rotOK_toSexpDag'`.) -/
theorem rotOK_toSexpDag (env : SEnv) (t : Term) (hP : Printer.Printable env [] t = true) (hq : Printer.noQuant t = true)
    (hnr : noRot t = true) : RotOK env [] (Printer.toSexpDag t) = true :=
  rotOK_toSexpDag' env [] t hnr

end PySMT.Parser.Agree
