import PySMT.Proofs.C18Multi
/-!
# C18: MaxSMT with rational weights, through the common denominator
-/
namespace PySMT.Opt

/-- `MaxSMTGoal(real_weights=True).term()`: the rational weight of the satisfied soft clauses -/
def maxsmtObjQ {M : Type} (soft : List ((M → Bool) × Rat)) (m : M) : Rat :=
  (soft.map (fun (c, w) => if c m then w else 0)).sum

/-- `softN` are the soft clauses of `softQ` with every weight multiplied by `d` (an integer) -/
def Scaled {M : Type} (d : Int) (softQ : List ((M → Bool) × Rat)) (softN : List ((M → Bool) × Int)) : Prop :=
  All2 (fun q n => q.1 = n.1 ∧ (d : Rat) * q.2 = (n.2 : Rat)) softQ softN

theorem scaled_sum {M : Type} (d : Int) (softQ : List ((M → Bool) × Rat)) (softN : List ((M → Bool) × Int))
    (h : Scaled d softQ softN) (m : M) :
    (d : Rat) * maxsmtObjQ softQ m = ((maxsmtObj softN m : Int) : Rat) := by
  unfold Scaled at h
  induction h with
  | nil => simp [maxsmtObjQ, maxsmtObj, Rat.mul_zero]
  | @cons a b as bs hab _ ih =>
    obtain ⟨c, w⟩ := a
    obtain ⟨c', n⟩ := b
    obtain ⟨hc, hw⟩ := hab
    simp only at hc hw
    subst hc
    simp only [maxsmtObjQ, maxsmtObj, List.map, List.sum_cons] at ih ⊢
    rw [Rat.mul_add, ih, Rat.intCast_add]
    cases c m
    · simp [Rat.mul_zero]
    · simp [hw]

end PySMT.Opt
