import PySMT.Proofs.SimpArith
import Mathlib.Tactic.Ring
/-!
# The order freedoms of the correspondence check

`walk_and/or` build their result from a Python `set`, `walk_times` sorts by node id: the
implementation's argument order is not determined by the formula. The harness compares
modulo the order of `and`/`or`/`times` arguments; this is licensed by `eval_perm_and`,
`eval_perm_or` (Proofs/Coincidence.lean) and `eval_perm_times` below, together with the
invariance of type, well-formedness, proviso and free symbols.
-/
namespace PySMT
open PySMT.Simp.ArithRules

theorem qprod_perm {l₁ l₂ : List Rat} (h : l₁.Perm l₂) : qprod l₁ = qprod l₂ := by
  induction h with
  | nil => rfl
  | cons x _ ih => simp only [qprod, ih]
  | swap x y l => simp only [qprod]; ring
  | trans _ _ ih1 ih2 => rw [ih1, ih2]

theorem typeOf_perm_times {l₁ l₂ : List Term} {p : Payload} {τ : Ty} (h : l₁.Perm l₂)
    (hty : (Term.node .times l₁ p).typeOf = some τ) : (Term.node .times l₂ p).typeOf = some τ := by
  have hop : ArithOp .times := Or.inr (Or.inr (Or.inl rfl))
  obtain ⟨hτ, hargs⟩ := arith_inv hop hty
  rw [typeOf_node, typeOfNode_arith .times rfl]
  have hall : ∀ a ∈ l₂, a.typeOf = some τ := fun a ha => hargs a (h.mem_iff.mpr ha)
  rcases hτ with rfl | rfl
  · have h1 : allAre (l₂.map Term.typeOf) .int = true := allAre_map.mpr hall
    have h2 : allAre (l₂.map Term.typeOf) .real = true ∨ allAre (l₂.map Term.typeOf) .real = false := by
      cases allAre (l₂.map Term.typeOf) .real <;> simp
    rcases h2 with h2 | h2
    · -- all Real and all Int: only possible for the empty list, excluded below by typing of l₁
      rw [allAre_map] at h2
      cases l₂ with
      | nil =>
        have : l₁ = [] := List.Perm.eq_nil (h)
        subst this
        rw [typeOf_node, typeOfNode_arith .times rfl] at hty
        simp [allAre] at hty
      | cons a r =>
        have e1 := hall a (by simp)
        have e2 := h2 a (by simp)
        rw [e1] at e2; cases e2
    · simp [h2, h1]
  · have h1 : allAre (l₂.map Term.typeOf) .real = true := allAre_map.mpr hall
    simp [h1]

theorem wf_perm_times {l₁ l₂ : List Term} {p : Payload} (h : l₁.Perm l₂)
    (hwf : (Term.node .times l₁ p).wf = true) : (Term.node .times l₂ p).wf = true := by
  obtain ⟨τ, hτ⟩ := wf_typeOf _ hwf
  refine wf_mk' (fun a ha => wf_args hwf a (h.mem_iff.mpr ha)) ?_ (typeOf_perm_times h hτ)
  have := wf_shape hwf
  rw [← h.length_eq]; exact this

/-- the value of a well-formed product does not depend on the order of its arguments -/
theorem eval_perm_times (I : Interp) (hI : I.WF) {l₁ l₂ : List Term} {p : Payload} (h : l₁.Perm l₂)
    (hwf : (Term.node .times l₁ p).wf = true) :
    eval I (.node .times l₁ p) = eval I (.node .times l₂ p) := by
  obtain ⟨τ, hτ⟩ := wf_typeOf _ hwf
  have n1 : NT τ (.node .times l₁ p) := ⟨hwf, hτ⟩
  have n2 : NT τ (.node .times l₂ p) := ⟨wf_perm_times h hwf, typeOf_perm_times h hτ⟩
  have hnum := (arith_inv (Or.inr (Or.inr (Or.inl rfl))) hτ).1
  apply toQ_inj hnum (n1.sort hI) (n2.sort hI)
  have e1 := ev_times n1 hI
  have e2 := ev_times n2 hI
  simp only [ev] at e1 e2
  rw [e1, e2]
  exact qprod_perm (h.map _)

theorem div0_perm_plain (I : Interp) (op : Op) (hq : op.isQuantifier = false) (hd : op ≠ .div)
    {l₁ l₂ : List Term} (p : Payload) (h : l₁.Perm l₂) :
    div0 I (.node op l₁ p) = div0 I (.node op l₂ p) := by
  rw [div0_plain I op _ p hq hd, div0_plain I op _ p hq hd, h.any_eq]

theorem fv_perm_plain (op : Op) (h1 : op ≠ .symbol) (h2 : op ≠ .function) (h3 : op.isQuantifier = false)
    {l₁ l₂ : List Term} (p : Payload) (h : l₁.Perm l₂) (s : Sym) :
    s ∈ (Term.node op l₁ p).fv ↔ s ∈ (Term.node op l₂ p).fv := by
  rw [mem_fv_plain h1 h2 h3, mem_fv_plain h1 h2 h3]
  constructor
  · rintro ⟨a, ha, hs⟩; exact ⟨a, h.mem_iff.mp ha, hs⟩
  · rintro ⟨a, ha, hs⟩; exact ⟨a, h.mem_iff.mpr ha, hs⟩

end PySMT
