import Std.Data.String.ToNat
import PySMT.Proofs.C11Cnf
import PySMT.Impl.Rewritings.PolCNF
import PySMT.Impl.Rewritings.Ackermann
/-!
# C11 — the fresh-symbol supply (`FormulaManager.new_fresh_symbol`, `formula.py:119-128`)

`Supply.fresh` returns a name that is not among the manager's symbols; a sequence of `fresh` calls
returns pairwise distinct names.  Hence the definition-variable table of a `CNFizer` run
(`CNF.keyTable`) and the constant table of an `Ackermannizer` run (`Ackermann.constTable`) satisfy
what the semantic theorems assume about `key`: it is injective on the sub-formulas that receive a
symbol, and its range is disjoint from the symbols of the input.
-/
namespace PySMT.CNF

/-! ## one `new_fresh_symbol` call -/

theorem firstFree_spec (base : Nat → String) (hinj : ∀ i j, base i = base j → i = j) (used : List String) :
    ∀ (fuel c : Nat) (L : List String), (∀ i, c ≤ i → base i ∈ used → base i ∈ L) → L.length < fuel →
      base (firstFree base used fuel c) ∉ used
  | 0, _, L, _, hl => by cases hl
  | fuel + 1, c, L, hL, hl => by
    simp only [firstFree]
    split
    · next hc =>
      have hcu : base c ∈ used := List.contains_iff_mem.mp hc
      have hcL : base c ∈ L := hL c (Nat.le_refl c) hcu
      apply firstFree_spec base hinj used fuel (c + 1) (L.erase (base c))
      · intro i hi hiu
        have hne : base i ≠ base c := fun e => by have := hinj _ _ e; omega
        exact (List.mem_erase_of_ne hne).mpr (hL i (by omega) hiu)
      · rw [List.length_erase_of_mem hcL]
        have : 0 < L.length := List.length_pos_of_mem hcL
        omega
    · next hc =>
      intro hcu
      exact hc (List.contains_iff_mem.mpr hcu)

theorem fresh_not_used (s : Supply) (base : Nat → String) (hinj : ∀ i j, base i = base j → i = j) (ty : Ty) :
    (s.fresh base ty).1.name ∉ s.used := by
  simp only [Supply.fresh]
  exact firstFree_spec base hinj s.used _ _ s.used (fun _ _ h => h) (Nat.lt_succ_self _)

theorem fresh_used (s : Supply) (base : Nat → String) (ty : Ty) :
    (s.fresh base ty).2.used = (s.fresh base ty).1.name :: s.used := rfl

theorem fvName_inj : ∀ i j, fvName i = fvName j → i = j := by
  intro i j h
  simp only [fvName, toString] at h
  have := (String.append_right_inj _).mp h
  exact Nat.repr_inj.mp this

/-! ## tables: association lists `term ↦ symbol` built from a supply -/

/-- a table assigns pairwise distinct symbols whose names avoid `used` -/
def TableOK (used : List String) : List (Term × Sym) → Prop
  | [] => True
  | (_, k) :: rest => k.name ∉ used ∧ (∀ e ∈ rest, e.2.name ≠ k.name) ∧ TableOK used rest

theorem tableOK_mono {used used' : List String} (h : ∀ n ∈ used', n ∈ used) :
    ∀ tbl : List (Term × Sym), TableOK used tbl → TableOK used' tbl
  | [], _ => trivial
  | (_, _) :: rest, ⟨h1, h2, h3⟩ => ⟨fun hk => h1 (h _ hk), h2, tableOK_mono h rest h3⟩

theorem tableOK_names {used : List String} : ∀ tbl : List (Term × Sym), TableOK used tbl →
    ∀ e ∈ tbl, e.2.name ∉ used
  | [], _, e, he => by cases he
  | (g, k) :: rest, ⟨h1, _, h3⟩, e, he => by
    rcases List.mem_cons.mp he with rfl | he
    · exact h1
    · exact tableOK_names rest h3 e he

theorem assignKeys_ok (base : Nat → String) (hinj : ∀ i j, base i = base j → i = j) :
    ∀ (gs : List Term) (s : Supply), TableOK s.used (assignKeys base s gs)
  | [], _ => trivial
  | g :: gs, s => by
    simp only [assignKeys]
    have ih := assignKeys_ok base hinj gs (s.fresh base .bool).2
    refine ⟨fresh_not_used s base hinj .bool, ?_, ?_⟩
    · intro e he
      have := tableOK_names _ ih e he
      rw [fresh_used] at this
      exact fun heq => this (by rw [heq]; exact List.mem_cons_self)
    · exact tableOK_mono (fun n hn => by rw [fresh_used]; exact List.mem_cons_of_mem _ hn) _ ih

theorem assignKeys_fst (base : Nat → String) : ∀ (gs : List Term) (s : Supply),
    (assignKeys base s gs).map (·.1) = gs
  | [], _ => rfl
  | g :: gs, s => by simp only [assignKeys, List.map_cons, assignKeys_fst base gs]

/-- inverse of a table: symbol ↦ term -/
def unkey (tbl : List (Term × Sym)) (k : Sym) : Option Term :=
  (tbl.find? (fun e => e.2 == k)).map (·.1)

theorem nodup_dedup {α} [BEq α] [LawfulBEq α] : ∀ l : List α, (dedup l).Nodup
  | [] => by simp [dedup]
  | x :: xs => by
    simp only [dedup]
    split
    · exact nodup_dedup xs
    · next h =>
      refine List.nodup_cons.mpr ⟨?_, nodup_dedup xs⟩
      rw [mem_dedup]
      exact fun hx => h (List.contains_iff_mem.mpr hx)

/-- on a table with distinct terms and distinct symbols, `lookupKey` and `unkey` are inverse -/
theorem unkey_lookupKey {used : List String} : ∀ (tbl : List (Term × Sym)), TableOK used tbl →
    (tbl.map (·.1)).Nodup → ∀ g ∈ tbl.map (·.1), unkey tbl (lookupKey tbl g) = some g
  | [], _, _, g, hg => by cases hg
  | (g0, k0) :: rest, ⟨_, h2, h3⟩, hnd, g, hg => by
    simp only [List.map_cons, List.nodup_cons] at hnd
    simp only [List.map_cons, List.mem_cons] at hg
    by_cases hgg : g0 = g
    · subst hgg
      simp [lookupKey, unkey, List.find?]
    · have hg' : g ∈ rest.map (·.1) := by
        rcases hg with rfl | h
        · exact absurd rfl hgg
        · exact h
      have ih := unkey_lookupKey rest h3 hnd.2 g hg'
      have hgb : (g0 == g) = false := by simpa using hgg
      have hl : lookupKey ((g0, k0) :: rest) g = lookupKey rest g := by
        simp only [lookupKey, List.find?, hgb]
      rw [hl]
      -- the symbol found for `g` in `rest` differs from `k0`
      have hmem : ∃ e ∈ rest, e.1 = g ∧ lookupKey rest g = e.2 := by
        simp only [lookupKey]
        cases hf : rest.find? (fun e => e.1 == g) with
        | none =>
          obtain ⟨e, he, rfl⟩ := List.mem_map.mp hg'
          have := List.find?_eq_none.mp hf e he
          simp at this
        | some e =>
          exact ⟨e, List.mem_of_find?_eq_some hf, by simpa using List.find?_some hf, rfl⟩
      obtain ⟨e, he, _, hek⟩ := hmem
      have hne : ¬ (k0 == lookupKey rest g) = true := by
        rw [hek]
        intro heq
        have : k0 = e.2 := by simpa using heq
        exact h2 e he (by rw [this])
      simp only [unkey, List.find?, hne]
      exact ih

theorem unkey_none_of_used {used : List String} (tbl : List (Term × Sym)) (h : TableOK used tbl)
    (k : Sym) (hk : k.name ∈ used) : unkey tbl k = none := by
  simp only [unkey, Option.map_eq_none_iff]
  apply List.find?_eq_none.mpr
  intro e he heq
  have : e.2 = k := by simpa using heq
  exact tableOK_names tbl h e he (by rw [this]; exact hk)

/-! ## the table of a `CNFizer` run -/

theorem mem_postorder : (t : Term) → ∀ h, h ∈ postorder t ↔ h ∈ t.subterms
  | .node op args p => by
    intro h
    have ih : ∀ a ∈ args, ∀ h, h ∈ postorder a ↔ h ∈ a.subterms := fun a _ => mem_postorder a
    simp only [postorder, Term.subterms, List.mem_append, List.mem_flatten, List.mem_map, List.mem_cons,
      List.mem_nil_iff, or_false]
    constructor
    · rintro (⟨_, ⟨a, ha, rfl⟩, hh⟩ | rfl)
      · exact Or.inr ⟨_, ⟨a, ha, rfl⟩, (ih a ha h).mp hh⟩
      · exact Or.inl rfl
    · rintro (rfl | ⟨_, ⟨a, ha, rfl⟩, hh⟩)
      · exact Or.inr rfl
      · exact Or.inl ⟨_, ⟨a, ha, rfl⟩, (ih a ha h).mpr hh⟩

theorem mem_keyOrder (t h : Term) : h ∈ keyOrder t ↔ h ∈ t.subterms ∧ wantsKey h = true := by
  simp only [keyOrder, mem_dedup, List.mem_filter, mem_postorder]

/-- a symbol found by `unkey` is paired with its term in the table -/
theorem unkey_mem {tbl : List (Term × Sym)} {k : Sym} {g : Term} (h : unkey tbl k = some g) : (g, k) ∈ tbl := by
  simp only [unkey, Option.map_eq_some_iff] at h
  obtain ⟨e, he, rfl⟩ := h
  have h1 := List.mem_of_find?_eq_some he
  have h2 : e.2 = k := by simpa using List.find?_some he
  rw [← h2]; exact h1

theorem assignKeys_bool (base : Nat → String) : ∀ (gs : List Term) (s : Supply), ∀ e ∈ assignKeys base s gs,
    e.2.params = [] ∧ e.2.ret = .bool
  | [], _, e, he => by cases he
  | g :: gs, s, e, he => by
    simp only [assignKeys, List.mem_cons] at he
    rcases he with rfl | he
    · exact ⟨rfl, rfl⟩
    · exact assignKeys_bool base gs _ e he

/-- on a table with distinct terms, the symbol paired with a term is the one `lookupKey` finds -/
theorem lookupKey_of_mem : ∀ (tbl : List (Term × Sym)), (tbl.map (·.1)).Nodup → ∀ g k, (g, k) ∈ tbl →
    lookupKey tbl g = k
  | [], _, g, k, h => by cases h
  | (g0, k0) :: rest, hnd, g, k, h => by
    simp only [List.map_cons, List.nodup_cons] at hnd
    rcases List.mem_cons.mp h with e | h
    · cases e; simp [lookupKey, List.find?]
    · have hne : (g0 == g) = false := by
        simp only [beq_eq_false_iff_ne, ne_eq]
        rintro rfl
        exact hnd.1 (List.mem_map.mpr ⟨(g0, k), h, rfl⟩)
      have := lookupKey_of_mem rest hnd.2 g k h
      simpa [lookupKey, List.find?, hne] using this

/-- **Freshness of the definition variables** (model of `new_fresh_symbol`), for a manager in ANY state
`s` that knows the symbols of the input: on the nodes `gs` that receive a definition variable `key` has the left
inverse `unkey`, no symbol of the input is a definition variable, every definition variable is a Boolean
constant symbol. -/
theorem assignKeys_spec (s : Supply) (t : Term) (hs : ∀ x ∈ t.fv, x.name ∈ s.used) (gs : List Term)
    (hnd : gs.Nodup) :
    (∀ h ∈ gs, unkey (assignKeys fvName s gs) (lookupKey (assignKeys fvName s gs) h) = some h) ∧
    (∀ x ∈ t.fv, unkey (assignKeys fvName s gs) x = none) ∧
    (∀ k g, unkey (assignKeys fvName s gs) k = some g → k.params = [] ∧ k.ret = .bool) := by
  have hok := assignKeys_ok fvName fvName_inj gs s
  have hfst := assignKeys_fst fvName gs s
  refine ⟨?_, ?_, ?_⟩
  · intro h hh
    apply unkey_lookupKey _ hok
    · rw [hfst]; exact hnd
    · rw [hfst]; exact hh
  · intro x hx
    exact unkey_none_of_used _ hok x (hs x hx)
  · intro k g hkg
    exact assignKeys_bool fvName gs s _ (unkey_mem hkg)

theorem keyTableIn_spec (s : Supply) (t : Term) (hs : ∀ x ∈ t.fv, x.name ∈ s.used) :
    (∀ h ∈ t.subterms, wantsKey h = true →
        unkey (keyTableIn s t) (lookupKey (keyTableIn s t) h) = some h) ∧
    (∀ x ∈ t.fv, unkey (keyTableIn s t) x = none) ∧
    (∀ k g, unkey (keyTableIn s t) k = some g → k.params = [] ∧ k.ret = .bool) := by
  have := assignKeys_spec s t hs (keyOrder t) (nodup_dedup _)
  exact ⟨fun h hh hw => this.1 h ((mem_keyOrder t h).mpr ⟨hh, hw⟩), this.2.1, this.2.2⟩

theorem keyTable_spec (t : Term) :
    (∀ h ∈ t.subterms, wantsKey h = true →
        unkey (keyTable t) (lookupKey (keyTable t) h) = some h) ∧
    (∀ s ∈ t.fv, unkey (keyTable t) s = none) := by
  have := keyTableIn_spec ⟨t.fv.map (·.name), 0⟩ t (fun x hx => List.mem_map.mpr ⟨x, hx, rfl⟩)
  exact ⟨this.1, this.2.1⟩

theorem keyTable_fresh (t : Term) : ∀ h ∈ t.subterms, wantsKey h = true → lookupKey (keyTable t) h ∉ t.fv := by
  intro h hh hw hmem
  have := (keyTable_spec t).1 h hh hw
  rw [(keyTable_spec t).2 _ hmem] at this
  cases this

/-- the same for the supply of a `PolarityCNFizer` run: only the Boolean skeleton receives variables -/
theorem polKeyTableIn_spec (s : Supply) (t : Term) (hs : ∀ x ∈ t.fv, x.name ∈ s.used) :
    (∀ h ∈ boolNodes t, wantsKey h = true →
        unkey (PolCNF.keyTableIn s t) (lookupKey (PolCNF.keyTableIn s t) h) = some h) ∧
    (∀ x ∈ t.fv, unkey (PolCNF.keyTableIn s t) x = none) ∧
    (∀ k g, unkey (PolCNF.keyTableIn s t) k = some g → k.params = [] ∧ k.ret = .bool) := by
  have := assignKeys_spec s t hs (PolCNF.keyOrder t) (nodup_dedup _)
  refine ⟨fun h hh hw => this.1 h ?_, this.2.1, this.2.2⟩
  simp only [PolCNF.keyOrder, mem_dedup, List.mem_filter]
  exact ⟨hh, hw⟩

end PySMT.CNF

namespace PySMT.Ackermann
open PySMT.CNF

theorem ackName_inj : ∀ i j, ackName i = ackName j → i = j := by
  intro i j h
  simp only [ackName, toString] at h
  have := (String.append_right_inj _).mp h
  exact Nat.repr_inj.mp this

theorem assignConsts_ok : ∀ (gs : List Term) (s : Supply), TableOK s.used (assignConsts s gs)
  | [], _ => trivial
  | g :: gs, s => by
    simp only [assignConsts]
    have ih := assignConsts_ok gs (s.fresh ackName (retTy g)).2
    refine ⟨fresh_not_used s ackName ackName_inj _, ?_, ?_⟩
    · intro e he
      have := tableOK_names _ ih e he
      rw [fresh_used] at this
      exact fun heq => this (by rw [heq]; exact List.mem_cons_self)
    · exact tableOK_mono (fun n hn => by rw [fresh_used]; exact List.mem_cons_of_mem _ hn) _ ih

theorem assignConsts_fst : ∀ (gs : List Term) (s : Supply), (assignConsts s gs).map (·.1) = gs
  | [], _ => rfl
  | g :: gs, s => by simp only [assignConsts, List.map_cons, assignConsts_fst gs]

theorem assignConsts_typed : ∀ (gs : List Term) (s : Supply), ∀ e ∈ assignConsts s gs,
    e.2.params = [] ∧ e.2.ret = retTy e.1
  | [], _, e, he => by cases he
  | g :: gs, s, e, he => by
    simp only [assignConsts, List.mem_cons] at he
    rcases he with rfl | he
    · exact ⟨rfl, rfl⟩
    · exact assignConsts_typed gs _ e he

/-- **Freshness and sorts of the Ackermann constants**, for a manager in any state `s` that knows the symbols
of the input -/
theorem constTableIn_spec (s : Supply) (t : Term) (hs : ∀ x ∈ t.fv, x.name ∈ s.used) :
    (∀ a ∈ apps t, unkey (constTableIn s t) (lookupKey (constTableIn s t) a) = some a) ∧
    (∀ x ∈ t.fv, unkey (constTableIn s t) x = none) ∧
    (∀ a ∈ apps t, (lookupKey (constTableIn s t) a).params = [] ∧ (lookupKey (constTableIn s t) a).ret = retTy a) ∧
    (∀ k a, unkey (constTableIn s t) k = some a → a ∈ apps t ∧ lookupKey (constTableIn s t) a = k) := by
  have hok := assignConsts_ok (appsD t) s
  have hfst := assignConsts_fst (appsD t) s
  have hnd : ((constTableIn s t).map (·.1)).Nodup := by
    show ((assignConsts s (appsD t)).map (·.1)).Nodup
    rw [hfst]; exact nodup_dedup _
  have hrange : ∀ k a, unkey (constTableIn s t) k = some a → a ∈ apps t ∧ lookupKey (constTableIn s t) a = k := by
    intro k a hka
    have hm := unkey_mem hka
    refine ⟨?_, lookupKey_of_mem _ hnd a k hm⟩
    have : a ∈ (constTableIn s t).map (·.1) := List.mem_map.mpr ⟨(a, k), hm, rfl⟩
    have h2 : a ∈ appsD t := by
      have e : (constTableIn s t).map (·.1) = appsD t := hfst
      rw [e] at this; exact this
    exact (mem_dedup _ _).mp h2
  refine ⟨?_, ?_, ?_, hrange⟩
  · intro a ha
    apply unkey_lookupKey _ hok hnd
    show a ∈ (assignConsts s (appsD t)).map (·.1)
    rw [hfst]; exact (mem_dedup _ _).mpr ha
  · intro x hx
    exact unkey_none_of_used _ hok x (hs x hx)
  · intro a ha
    have hmem : a ∈ (constTableIn s t).map (·.1) := by
      show a ∈ (assignConsts s (appsD t)).map (·.1)
      rw [hfst]; exact (mem_dedup _ _).mpr ha
    obtain ⟨e, he, hea⟩ := List.mem_map.mp hmem
    have hl := lookupKey_of_mem _ hnd e.1 e.2 he
    have := assignConsts_typed _ _ e he
    rw [← hea, hl]
    exact this

theorem constTable_spec (t : Term) :
    (∀ a ∈ apps t, unkey (constTable t) (lookupKey (constTable t) a) = some a) ∧
    (∀ s ∈ t.fv, unkey (constTable t) s = none) ∧
    (∀ a ∈ apps t, (lookupKey (constTable t) a).params = [] ∧ (lookupKey (constTable t) a).ret = retTy a) := by
  have := constTableIn_spec ⟨t.fv.map (·.name), 0⟩ t (fun x hx => List.mem_map.mpr ⟨x, hx, rfl⟩)
  exact ⟨this.1, this.2.1, this.2.2.1⟩

end PySMT.Ackermann
