import PySMT.Proofs.C16Script
/-!
# C16: the statements of the property theorems, assembled from `C16Track` and `C16Script`,
and the check of the regenerated decorator table.
-/

namespace PySMT.Proofs.C16
open PySMT.AssertStack PySMT.SolverTrack PySMT.Gen.PendingPop

/-! ### solvers -/

/-- After every prefix of a legal sequence of API calls the solver runs without exception, its `assertions`
    property (when the class has one) returns exactly the live assertions, and a `solve()` issued at that moment
    would be computed on exactly the live assertions.  `Admits`: when the wrapper's assumption path does not protect
    its `pending_pop` assignment (`assumeGuarded = false`), sequences in which asserting an assumption raises
    (`assumingPushFails`) are excluded — for them the statement is false, see `assume_leak`. -/
def TrackRefines (cfg : Config) : Prop :=
  ∀ (ops : List Op), LegalOps ops → Admits cfg ops → ∀ k : Nat,
    ∃ s st, runOps (ops.take k) = some s ∧ SolverTrack.run cfg (ops.take k) = .ok st ∧
      (cfg.tracking = true → observe cfg st = .ok (live s)) ∧
      (cfg.native = true ∨ cfg.tracking = true → wouldCheck cfg st = .ok (live s))

theorem trackRefines_of_covers {cfg : Config} (hc : Covers cfg = true) : TrackRefines cfg := by
  intro ops hl ha k
  have hk := legal_take hl k
  unfold LegalOps at hk
  cases hs : runOps (ops.take k) with
  | none => simp [hs] at hk
  | some s =>
    obtain ⟨st, h1, i1⟩ := run_inv hc (ops.take k) (ha.take k) s hs
    exact ⟨s, st, rfl, h1, fun ht => observe_inv hc ht i1, fun hn => wouldCheck_inv hc hn i1⟩

/-- a call that is a `check` for the specification is invisible to it -/
theorem runOps_check (a b : List Op) (o : Op) (ho : o.cmd = .check) :
    runOps (a ++ o :: b) = runOps (a ++ b) := by
  unfold runOps AssertStack.run
  simp only [List.map_append, List.map_cons, runFrom_append, ho]
  cases AssertStack.runFrom init (a.map Op.cmd) with
  | none => rfl
  | some s => simp [AssertStack.runFrom, legal, AssertStack.step]

theorem cmd_of_isOneshot {o : Op} (h : o.isOneshot = true) : o.cmd = .check := by
  cases o <;> simp_all [Op.isOneshot, Op.cmd]

/-- One-shot queries leave the assertions as they found them, *as observed through any later calls*: inserting
    `is_sat f` / `is_valid f` / `is_unsat f` / `solve([f])` (with `f` handed to the native check, or asserted in a
    temporary level as the wrappers do for assumptions they cannot pass natively) — answered normally, or ended by an exception of the native
    check (unknown result) or of the assertion of `f` that the client catches — anywhere into a legal sequence changes
    neither the assertion list read at the end nor what a final `solve()` is computed on, and makes no later call fail. -/
def OneshotRestores (cfg : Config) : Prop :=
  ∀ (before after : List Op) (o : Op), o.isOneshot = true → LegalOps (before ++ after) →
    Admits cfg (before ++ o :: after) →
    ∃ st₁ st₂, SolverTrack.run cfg (before ++ o :: after) = .ok st₁ ∧
      SolverTrack.run cfg (before ++ after) = .ok st₂ ∧
      (cfg.tracking = true → observe cfg st₁ = observe cfg st₂) ∧
      (cfg.native = true ∨ cfg.tracking = true → wouldCheck cfg st₁ = wouldCheck cfg st₂)

theorem oneshotRestores_of_covers {cfg : Config} (hc : Covers cfg = true) : OneshotRestores cfg := by
  intro a b o ho hl ha
  have ha' : Admits cfg (a ++ b) := by
    cases ha with
    | inl h => exact .inl h
    | inr h =>
      refine .inr fun x hx => h x ?_
      simp only [List.mem_append, List.mem_cons] at hx ⊢
      cases hx with
      | inl h1 => exact .inl h1
      | inr h1 => exact .inr (.inr h1)
  unfold LegalOps at hl
  cases hs : runOps (a ++ b) with
  | none => simp [hs] at hl
  | some s =>
    have hs' : runOps (a ++ o :: b) = some s := by rw [runOps_check a b o (cmd_of_isOneshot ho)]; exact hs
    obtain ⟨st1, h1, i1⟩ := run_inv hc _ ha s hs'
    obtain ⟨st2, h2, i2⟩ := run_inv hc _ ha' s hs
    refine ⟨st1, st2, h1, h2, fun ht => ?_, fun hn => ?_⟩
    · rw [observe_inv hc ht i1, observe_inv hc ht i2]
    · rw [wouldCheck_inv hc hn i1, wouldCheck_inv hc hn i2]

/-! ### the glue route `SmtLibScript.evaluate(solver)` -/

theorem interp_runFrom : ∀ (cs : List Cmd) (s : Stack), cs.all Plain = true →
    AssertStack.runFrom s ((interp cs).map Op.cmd) = AssertStack.runFrom s cs
  | [], s, _ => rfl
  | c :: cs, s, h => by
    simp only [List.all_cons, Bool.and_eq_true] at h
    have ih := fun s' => interp_runFrom cs s' h.2
    cases c with
    | assert f => simp [interp, interpCmd, AssertStack.runFrom, Op.cmd, legal, AssertStack.step] at ih ⊢; exact ih _
    | push n => simp [interp, interpCmd, AssertStack.runFrom, Op.cmd, legal, AssertStack.step] at ih ⊢; exact ih _
    | pop n =>
      simp only [interp, List.filterMap_cons, interpCmd, List.map_cons, AssertStack.runFrom, Op.cmd] at ih ⊢
      by_cases hl : legal s (.pop n) = true
      · simp only [hl, if_true]; exact ih _
      · simp [hl]
    | reset => simp [interp, interpCmd, AssertStack.runFrom, Op.cmd, legal, AssertStack.step] at ih ⊢; exact ih _
    | check => simp [interp, interpCmd, AssertStack.runFrom, Op.cmd, legal, AssertStack.step] at ih ⊢; exact ih _
    | other => simp [interp, AssertStack.runFrom, legal, AssertStack.step] at ih ⊢; exact ih _
    | objective g => simp [Plain] at h
    | soft i f w => simp [Plain] at h

theorem interp_not_leaky (cs : List Cmd) : ∀ o ∈ interp cs, leaky o = false := by
  intro o ho
  simp only [interp, List.mem_filterMap] at ho
  obtain ⟨c, _, hc⟩ := ho
  cases c <;> simp [interpCmd] at hc <;> subst hc <;> rfl

/-- A legal plain script executed command by command on a solver whose placement covers the entry points: nothing
    raises, and afterwards the solver's assertion list is exactly what `get_last_formula` reports for the script,
    namely the live assertions; a `solve()` would run on exactly them. -/
theorem evaluate_agrees {cfg : Config} (hc : Covers cfg = true) (cs : List Cmd) (hp : cs.all Plain = true)
    (s : Stack) (hs : AssertStack.run cs = some s) :
    ∃ st, SolverTrack.run cfg (interp cs) = .ok st ∧
      (cfg.tracking = true → observe cfg st = .ok (live s) ∧ (Script.lastFormula cs).map Prod.fst = .ok (live s)) ∧
      (cfg.native = true ∨ cfg.tracking = true → wouldCheck cfg st = .ok (live s)) := by
  have hr : runOps (interp cs) = some s := by
    unfold runOps AssertStack.run
    rw [interp_runFrom cs init hp]; exact hs
  obtain ⟨st, h1, i1⟩ := run_inv hc (interp cs) (.inr (interp_not_leaky cs)) s hr
  refine ⟨st, h1, fun ht => ⟨observe_inv hc ht i1, ?_⟩, fun hn => wouldCheck_inv hc hn i1⟩
  rw [lastFormula_refines cs s hs]
  rfl

/-! ### the unprotected assumption path (finding F44) -/

/-- Z3Solver before the repair, MathSAT5Solver: every decorator in place, assumption path without `finally` -/
def unguardedTracking : Config := ⟨true, true, true, true, true, true, true, true, true, true, false⟩

/-- Without the guard the property fails: `push; assert 2; solve([f])` where asserting `f` raises; `pop 1` — the
    solver still reports the assertion `2` that the `pop` should have removed (and `solve()` still runs on it). -/
theorem assume_leak :
    LegalOps [.push 1, .assert 2, .assumingPushFails 6, .pop 1] ∧
    (SolverTrack.run unguardedTracking [.push 1, .assert 2, .assumingPushFails 6, .pop 1]).map
      (fun st => (observe unguardedTracking st, wouldCheck unguardedTracking st)) = .ok (.ok [2], .ok [2]) ∧
    (runOps [.push 1, .assert 2, .assumingPushFails 6, .pop 1]).map live = some [] :=
  ⟨by decide, rfl, rfl⟩

/-- the one-shot statement without the exclusion -/
def OneshotRestoresFull (cfg : Config) : Prop :=
  ∀ (before after : List Op) (o : Op), o.isOneshot = true → LegalOps (before ++ after) →
    ∃ st₁ st₂, SolverTrack.run cfg (before ++ o :: after) = .ok st₁ ∧
      SolverTrack.run cfg (before ++ after) = .ok st₂ ∧
      (cfg.tracking = true → observe cfg st₁ = observe cfg st₂) ∧
      (cfg.native = true ∨ cfg.tracking = true → wouldCheck cfg st₁ = wouldCheck cfg st₂)

theorem full_of_guarded {cfg : Config} (hg : cfg.assumeGuarded = true) (h : OneshotRestores cfg) :
    OneshotRestoresFull cfg :=
  fun a b o ho hl => h a b o ho hl (.inl hg)

theorem not_full_unguarded : ¬ OneshotRestoresFull unguardedTracking := by
  intro h
  obtain ⟨st1, st2, h1, h2, h3, _⟩ := h [.push 1, .assert 2] [.pop 1] (.assumingPushFails 6) rfl (by decide)
  have e1 : SolverTrack.run unguardedTracking ([.push 1, .assert 2] ++ Op.assumingPushFails 6 :: [.pop 1]) =
      .ok ⟨[[2], []], [2], [0], false, []⟩ := rfl
  have e2 : SolverTrack.run unguardedTracking ([.push 1, .assert 2] ++ [.pop 1]) =
      .ok ⟨[[]], [], [], false, []⟩ := rfl
  rw [e1] at h1
  rw [e2] at h2
  cases h1
  cases h2
  have := h3 rfl
  simp [observe, SolverTrack.read, enter, unguardedTracking, clear] at this

/-! ### necessity of the placement condition -/

def obsOk : Except Err (List Nat) → List Nat → Bool
  | .ok l, l' => l == l'
  | .error _, _ => false

theorem obsOk_of_eq {x : Except Err (List Nat)} {l : List Nat} (h : x = .ok l) : obsOk x l = true := by
  subst h; simp [obsOk]

/-- the statement of `TrackRefines` at the end of one particular sequence, as a Boolean -/
def goodAt (cfg : Config) (w : List Op) : Bool :=
  match runOps w, SolverTrack.run cfg w with
  | some s, .ok st =>
    (!cfg.tracking || obsOk (observe cfg st) (live s)) &&
    (!(cfg.native || cfg.tracking) || obsOk (wouldCheck cfg st) (live s))
  | _, _ => false

/-- fixed witness sequences: a one-shot query followed by one call of each kind -/
def witnesses : List (List Op) :=
  [[.oneshot .isSat 4], [.oneshot .isSat 4, .assert 2], [.oneshot .isSat 4, .push 1], [.oneshot .isSat 4, .reset],
   [.oneshot .isSat 4, .solve], [.oneshot .isSat 4, .assert 2, .solve], [.oneshot .isSat 4, .push 1, .assert 2]]

def refuted (cfg : Config) : Bool := witnesses.any fun w => !goodAt cfg w

theorem witnesses_legal : ∀ w ∈ witnesses, LegalOps w ∧ ∀ o ∈ w, leaky o = false := by decide

theorem not_trackRefines_of_refuted {cfg : Config} (h : refuted cfg = true) : ¬ TrackRefines cfg := by
  intro ht
  simp only [refuted, List.any_eq_true, Bool.not_eq_true'] at h
  obtain ⟨w, hw, hbad⟩ := h
  obtain ⟨hl, hnl⟩ := witnesses_legal w hw
  obtain ⟨s, st, h1, h2, h3, h4⟩ := ht w hl (.inr hnl) w.length
  rw [List.take_length] at h1 h2
  have : goodAt cfg w = true := by
    simp only [goodAt, h1, h2, Bool.and_eq_true, Bool.or_eq_true, Bool.not_eq_true']
    constructor
    · cases hc : cfg.tracking with
      | false => exact .inl rfl
      | true => exact .inr (obsOk_of_eq (h3 hc))
    · cases hc : (cfg.native || cfg.tracking) with
      | false => exact .inl rfl
      | true =>
        refine .inr (obsOk_of_eq (h4 ?_))
        simpa [Bool.or_eq_true] using hc
  rw [this] at hbad
  exact Bool.noConfusion hbad

/-- Every component of `Covers` other than the decorator on `pop` is necessary: a placement that supports `push`,
    has something to observe (a native stack or an assertion list) and lacks one of them is refuted by one of the
    fixed witness sequences.  (The decorator on `pop` alone is not: an undecorated `pop n` followed by the pending pop
    removes the same `n + 1` levels as the pending pop followed by `pop n`.) -/
theorem refuted_of_not_covers : ∀ (a b d e f g h j k : Bool),
    (g || h) = true → Covers ⟨a, b, true, d, e, f, g, h, true, j, k⟩ = false →
    ∀ p : Bool, refuted ⟨a, b, p, d, e, f, g, h, true, j, k⟩ = true := by decide +kernel

/-! ### the regenerated table -/

/-- Every concrete class of the tree that answers one-shot queries through `Solver.is_sat` clears the pending pop
    in every entry point that touches the assertions (and in `all_sat` / `declare_variable` where implemented).
    Checked by evaluation over `Gen/PendingPop.lean`, which is regenerated from the source on every run. -/
theorem placement_table_holds : ∀ c ∈ classes, isConcrete classes c = true → usesBaseIsSat classes c = true →
    Covers (configOf classes c) = true ∧ extrasCovered classes c = true := by decide +kernel

/-- the table is not empty: it contains the classes the property is about -/
theorem table_has_classes :
    (classes.filter fun c => isConcrete classes c && usesBaseIsSat classes c).length ≥ 10 := by decide +kernel

/-! ### `get_strict_formula` -/

theorem strictFormula_ok_iff (cs : List Cmd) (fs : List Nat) :
    Script.strictFormula cs = .ok fs ↔
      (cs.any Script.isStackCmd = false ∧ (cs.filter Script.isCheck).length = 1) ∧ fs = Script.assertsOfCmds cs := by
  unfold Script.strictFormula
  by_cases h1 : cs.any Script.isStackCmd = true
  · simp [h1]
  · by_cases h2 : (cs.filter Script.isCheck).length = 1
    · simp [h1, h2, eq_comm]
    · simp [h1, h2]

theorem strictFormula_live (cs : List Cmd) (fs : List Nat) (h : Script.strictFormula cs = .ok fs) :
    ∃ s, AssertStack.run cs = some s ∧ fs = live s := by
  obtain ⟨⟨h1, _⟩, h3⟩ := (strictFormula_ok_iff cs fs).1 h
  obtain ⟨s, hr, hlive⟩ := strict_runFrom cs init (by simp [init]) h1
  exact ⟨s, hr, by rw [h3, hlive, live_init]; simp⟩

end PySMT.Proofs.C16
