import PySMT.Proofs.C16Script
/-!
# C16: the statements of the property theorems, assembled from `C16Track` and `C16Script`,
and the check of the regenerated decorator table.
-/

namespace PySMT.Proofs.C16
open PySMT.AssertStack PySMT.SolverTrack PySMT.Gen.PendingPop

/-! ### solvers -/

/-- After every prefix of a legal sequence of API calls the solver runs without exception, its `assertions`
    property (when the class has one) returns exactly the live assertions, and a `solve()` issued at that moment
    would be computed on exactly the live assertions. -/
def TrackRefines (cfg : Config) : Prop :=
  ∀ (ops : List Op), LegalOps ops → ∀ k : Nat,
    ∃ s st, runOps (ops.take k) = some s ∧ SolverTrack.run cfg (ops.take k) = .ok st ∧
      (cfg.tracking = true → observe cfg st = .ok (live s)) ∧
      (cfg.native = true ∨ cfg.tracking = true → wouldCheck cfg st = .ok (live s))

theorem trackRefines_of_covers {cfg : Config} (hc : Covers cfg = true) : TrackRefines cfg := by
  intro ops hl k
  have hk := legal_take hl k
  unfold LegalOps at hk
  cases hs : runOps (ops.take k) with
  | none => simp [hs] at hk
  | some s =>
    obtain ⟨st, h1, i1⟩ := run_inv hc (ops.take k) s hs
    exact ⟨s, st, rfl, h1, fun ht => observe_inv hc ht i1, fun hn => wouldCheck_inv hc hn i1⟩

/-- a call that is a `check` for the specification is invisible to it -/
theorem runOps_check (a b : List Op) (o : Op) (ho : o.cmd = .check) :
    runOps (a ++ o :: b) = runOps (a ++ b) := by
  unfold runOps AssertStack.run
  simp only [List.map_append, List.map_cons, runFrom_append, ho]
  cases AssertStack.runFrom init (a.map Op.cmd) with
  | none => rfl
  | some s => simp [AssertStack.runFrom, legal, AssertStack.step]

theorem cmd_of_isOneshot {o : Op} (h : o.isOneshot = true) : o.cmd = .check := by
  cases o <;> simp_all [Op.isOneshot, Op.cmd]

/-- One-shot queries leave the assertions as they found them, *as observed through any later calls*: inserting
    `is_sat f` / `is_valid f` / `is_unsat f` / `solve([f])` — answered normally, or ended by an exception of the native
    check (unknown result) or of the assertion of `f` that the client catches — anywhere into a legal sequence changes
    neither the assertion list read at the end nor what a final `solve()` is computed on, and makes no later call fail. -/
def OneshotRestores (cfg : Config) : Prop :=
  ∀ (before after : List Op) (o : Op), o.isOneshot = true → LegalOps (before ++ after) →
    ∃ st₁ st₂, SolverTrack.run cfg (before ++ o :: after) = .ok st₁ ∧
      SolverTrack.run cfg (before ++ after) = .ok st₂ ∧
      (cfg.tracking = true → observe cfg st₁ = observe cfg st₂) ∧
      (cfg.native = true ∨ cfg.tracking = true → wouldCheck cfg st₁ = wouldCheck cfg st₂)

theorem oneshotRestores_of_covers {cfg : Config} (hc : Covers cfg = true) : OneshotRestores cfg := by
  intro a b o ho hl
  unfold LegalOps at hl
  cases hs : runOps (a ++ b) with
  | none => simp [hs] at hl
  | some s =>
    have hs' : runOps (a ++ o :: b) = some s := by rw [runOps_check a b o (cmd_of_isOneshot ho)]; exact hs
    obtain ⟨st1, h1, i1⟩ := run_inv hc _ s hs'
    obtain ⟨st2, h2, i2⟩ := run_inv hc _ s hs
    refine ⟨st1, st2, h1, h2, fun ht => ?_, fun hn => ?_⟩
    · rw [observe_inv hc ht i1, observe_inv hc ht i2]
    · rw [wouldCheck_inv hc hn i1, wouldCheck_inv hc hn i2]

/-! ### the regenerated table -/

/-- Every concrete class of the tree that answers one-shot queries through `Solver.is_sat` clears the pending pop
    in every entry point that touches the assertions (and in `all_sat` / `declare_variable` where implemented).
    Checked by evaluation over `Gen/PendingPop.lean`, which is regenerated from the source on every run. -/
theorem placement_table_holds : ∀ c ∈ classes, isConcrete classes c = true → usesBaseIsSat classes c = true →
    Covers (configOf classes c) = true ∧ extrasCovered classes c = true := by decide +kernel

/-- the table is not empty: it contains the classes the property is about -/
theorem table_has_classes :
    (classes.filter fun c => isConcrete classes c && usesBaseIsSat classes c).length ≥ 10 := by decide +kernel

/-! ### `get_strict_formula` -/

theorem strictFormula_ok_iff (cs : List Cmd) (fs : List Nat) :
    Script.strictFormula cs = .ok fs ↔
      (cs.any Script.isStackCmd = false ∧ (cs.filter Script.isCheck).length = 1) ∧ fs = Script.assertsOfCmds cs := by
  unfold Script.strictFormula
  by_cases h1 : cs.any Script.isStackCmd = true
  · simp [h1]
  · by_cases h2 : (cs.filter Script.isCheck).length = 1
    · simp [h1, h2, eq_comm]
    · simp [h1, h2]

theorem strictFormula_live (cs : List Cmd) (fs : List Nat) (h : Script.strictFormula cs = .ok fs) :
    ∃ s, AssertStack.run cs = some s ∧ fs = live s := by
  obtain ⟨⟨h1, _⟩, h3⟩ := (strictFormula_ok_iff cs fs).1 h
  obtain ⟨s, hr, hlive⟩ := strict_runFrom cs init (by simp [init]) h1
  exact ⟨s, hr, by rw [h3, hlive, live_init]; simp⟩

end PySMT.Proofs.C16
