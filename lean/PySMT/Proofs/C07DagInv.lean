import PySMT.Proofs.C07Dag
/-!
# C07: the memoization invariant of the DAG printer (quantifier-free formulas)

Part 1: generated names and scopes made of `let` bindings.
-/
namespace PySMT.Printer
open PySMT.Std PySMT.Sexp

/-! ## the generated names `.def_k` -/

theorem defName_toList (k : Nat) : (defName k).toList = ".def_".toList ++ natChars k := by
  unfold defName
  rw [String.toList_ofList]

theorem defName_simple (k : Nat) : isSimpleSymbolChars (defName k).toList = true := by
  rw [defName_toList]
  have hd := (natChars_proper k).1
  have hs : (natChars k).all isSymChar = true := all_sym_of_all_digit hd
  show isSimpleSymbolChars ('.' :: 'd' :: 'e' :: 'f' :: '_' :: natChars k) = true
  simp only [isSimpleSymbolChars, List.all_cons, hs]
  decide

theorem head_ne_of_take {s : String} {k : Nat} (h : defName k = s) : s.toList.take 5 = ".def_".toList := by
  rw [← h, defName_toList]
  simp

theorem defName_not_theory (k : Nat) : theorySymbols.contains (defName k) = false := by
  have hall : ∀ f ∈ theorySymbols, (f.toList.take 5 == ".def_".toList) = false := by decide +kernel
  cases hc : theorySymbols.contains (defName k) with
  | false => rfl
  | true =>
    have hm : defName k ∈ theorySymbols := by simpa using hc
    have := hall _ hm
    rw [head_ne_of_take rfl] at this
    simp at this

theorem defName_not_reserved (k : Nat) : isReserved (defName k) = false := by
  have hall : ∀ f ∈ reservedWords, (f.toList.take 5 == ".def_".toList) = false := by decide +kernel
  cases hc : isReserved (defName k) with
  | false => rfl
  | true =>
    have hm : defName k ∈ reservedWords := by simpa [isReserved] using hc
    have := hall _ hm
    rw [head_ne_of_take rfl] at this
    simp at this

theorem defName_symName (k : Nat) : symName? (defName k) = some (defName k) := by
  have hs := defName_simple k
  have hr := defName_not_reserved k
  have hns : isNonSymbolChars (defName k).toList = false :=
    simple_not_nonSymbol hs (by rw [String.ofList_toList]; exact hr)
  have hhead : ((defName k).toList.head? == some '|') = false := by
    rw [defName_toList]; rfl
  have hsb : stripBars (defName k).toList = none := by
    rw [defName_toList]; rfl
  simp [symName?, hsb, hns, hhead]

theorem defName_not_literal (k : Nat) :
    numeral? (defName k) = none ∧ decimal? (defName k) = none ∧ binary? (defName k) = none ∧ hex? (defName k) = none := by
  have hs := defName_simple k
  obtain ⟨h1, h2, h3, h4, _⟩ := simple_not_literal hs
  simp [numeral?, decimal?, binary?, hex?, h1, h2, h3, h4]

theorem pyQuote_defName (k : Nat) : pyQuote (defName k) = defName k := by
  have hs := defName_simple k
  have hk : ["Int", "Real", "Bool"].contains (defName k) = false := by
    have hall : ∀ f ∈ ["Int", "Real", "Bool"], (f.toList.take 5 == ".def_".toList) = false := by decide
    cases hc : ["Int", "Real", "Bool"].contains (defName k) with
    | false => rfl
    | true =>
      have hm : defName k ∈ ["Int", "Real", "Bool"] := by simpa using hc
      have := hall _ hm
      rw [head_ne_of_take rfl] at this
      simp at this
  simp only [pyQuote, pyQuoteChars, String.ofList_toList, hk, pyIsSimple, hs, Bool.true_or, Bool.not_true, Bool.or_self,
    Bool.false_eq_true, if_false]

/-- a user symbol whose quoted name is protected is not a generated name that is not protected -/
theorem name_ne_defName {names : List String} {n : String} {k : Nat} (hn : names.contains (pyQuote n) = true)
    (hk : defName k ∉ names) : defName k ≠ n := by
  intro e
  subst e
  rw [pyQuote_defName] at hn
  exact hk (by simpa using hn)

/-! ## scopes that consist of `let` bindings of generated names -/

/-- ghost representation of a scope: `(k, term, sort)` for `.def_k ↦ term` -/
abbrev LS := List (Nat × Term × Ty)

def toB (e : Nat × Term × Ty) : Binding := .letb (defName e.1) e.2.1 e.2.2
def toSc (L : LS) : List Binding := L.map toB

theorem lookupScope_toSc_none (n : String) : ∀ (L : LS) (crossed : List Sym), (∀ e ∈ L, defName e.1 ≠ n) →
    lookupScope n (toSc L) crossed = none
  | [], _, _ => rfl
  | e :: L, crossed, h => by
    have hne : (defName e.1 == n) = false := by simpa using h e (by simp)
    simp only [toSc, List.map_cons, toB, lookupScope, hne, Bool.false_eq_true, if_false]
    exact lookupScope_toSc_none n L crossed (fun e' he' => h e' (List.mem_cons_of_mem _ he'))

theorem lookupScope_toSc_hit (k : Nat) (u : Term) (τ : Ty) : ∀ (L1 L2 : LS), (∀ e ∈ L1, e.1 ≠ k) →
    lookupScope (defName k) (toSc (L1 ++ (k, u, τ) :: L2)) [] = some (.ok (u, τ))
  | [], L2, _ => by
    simp [toSc, toB, lookupScope]
  | e :: L1, L2, h => by
    have hne : (defName e.1 == defName k) = false := by
      apply beq_eq_false_iff_ne.2
      exact fun he => h e (by simp) (defName_inj he)
    simp only [toSc, List.cons_append, List.map_cons, toB, lookupScope, hne, Bool.false_eq_true, if_false]
    exact lookupScope_toSc_hit k u τ L1 L2 (fun e' he' => h e' (List.mem_cons_of_mem _ he'))

theorem thFree_toSc (L : LS) : ThFree (toSc L) := by
  intro f hf
  apply lookupScope_toSc_none
  intro e _ he
  rw [← he, defName_not_theory] at hf
  exact absurd hf (by simp)

/-! ## what `DagOK` says about a node -/

theorem dagOK_node {names : List String} {env : SEnv} {op : Op} {args : List Term} {p : Payload}
    (h : DagOK names env (.node op args p) = true) :
    op.isQuantifier = false ∧
    (∃ τ, stdTy op p (args.map tyD) = some τ ∧ (Term.node op args p).typeOf = some τ) ∧
    nodeOK env [] op p args = true ∧
    dagNameOK names op p = true ∧
    ∀ a ∈ args, DagOK names env a = true := by
  rw [DagOK.eq_def] at h
  simp only [Bool.and_eq_true, Bool.not_eq_true', List.all_map, List.all_eq_true, Function.comp, id] at h
  obtain ⟨⟨⟨⟨hq, hty⟩, hok⟩, hnm⟩, hargs⟩ := h
  refine ⟨hq, ?_, hok, hnm, hargs⟩
  cases hS : stdTy op p (args.map tyD) with
  | none => rw [hS] at hty; simp at hty
  | some τ =>
    rw [hS] at hty
    exact ⟨τ, rfl, by rw [typeOf_node]; simpa using hty⟩

theorem dagOK_typed {names : List String} {env : SEnv} {t : Term} (h : DagOK names env t = true) :
    t.typeOf = some (tyD t) := by
  cases t with
  | node op args p =>
    obtain ⟨_, ⟨τ, _, hty⟩, _⟩ := dagOK_node h
    simp [tyD, hty]

/-! ## validity of a memoized result in all later scopes -/

def Fresh (names : List String) (L : LS) : Prop := ∀ e ∈ L, defName e.1 ∉ names

/-- `L'` extends `L` by bindings of fresh generated names with index at least `n` -/
def Ext (names : List String) (n : Nat) (L L' : LS) : Prop :=
  ∃ X : LS, L' = X ++ L ∧ ∀ e ∈ X, n ≤ e.1 ∧ defName e.1 ∉ names

theorem Ext.refl (names : List String) (n : Nat) (L : LS) : Ext names n L L := ⟨[], rfl, by simp⟩

theorem Ext.trans {names : List String} {n n1 : Nat} {L L1 L2 : LS} (h1 : Ext names n L L1) (h2 : Ext names n1 L1 L2)
    (hn : n ≤ n1) : Ext names n L L2 := by
  obtain ⟨X, rfl, hX⟩ := h1
  obtain ⟨Y, rfl, hY⟩ := h2
  refine ⟨Y ++ X, by simp, ?_⟩
  intro e he
  rcases List.mem_append.1 he with he | he
  · exact ⟨Nat.le_trans hn (hY e he).1, (hY e he).2⟩
  · exact hX e he

theorem Ext.fresh {names : List String} {n : Nat} {L L' : LS} (h : Ext names n L L') (hf : Fresh names L) :
    Fresh names L' := by
  obtain ⟨X, rfl, hX⟩ := h
  intro e he
  rcases List.mem_append.1 he with he | he
  · exact (hX e he).2
  · exact hf e he

/-- the S-expression `m` memoized for `s` is read as `s` in the scope `L` and in every later scope -/
def Valid (env : SEnv) (names : List String) (n : Nat) (L : LS) (s : Term) (m : Sexp) : Prop :=
  ∀ L', Ext names n L L' → rd env (toSc L') m = .ok (U false s)

theorem Valid.mono {env : SEnv} {names : List String} {n n1 : Nat} {L L1 : LS} {s : Term} {m : Sexp}
    (h : Valid env names n L s m) (he : Ext names n L L1) (hn : n ≤ n1) : Valid env names n1 L1 s m :=
  fun L' h' => h L' (he.trans h' hn)

/-- the name a let binding generated at index `k` is read, in every later scope, as what it was bound to -/
theorem valid_defName (env : SEnv) (names : List String) (k : Nat) (L : LS) (s : Term) (τ : Ty)
    (hτ : tyD s = τ) :
    Valid env names (k + 1) ((k, unfoldAVw false s, τ) :: L) s (.atom (defName k)) := by
  intro L' hext
  obtain ⟨X, rfl, hX⟩ := hext
  obtain ⟨h1, h2, h3, h4⟩ := defName_not_literal k
  simp only [rd, atomTerm, h1, h2, h3, h4, defName_symName]
  rw [lookupScope_toSc_hit k _ τ X L (fun e he => by have := (hX e he).1; omega)]
  simp [U, hτ]

section
variable (sp : Spell) (hsp : SpellStd sp) (env : SEnv) (names : List String)
include hsp

/-- **one node**: what the DAG printer writes for a node from the memoized results of its arguments is read as the node,
in every scope of fresh let bindings in which the results of the arguments are read as the arguments -/
theorem node_valid (op : Op) (args : List Term) (p : Payload) (hok : DagOK names env (.node op args p) = true)
    (L : LS) (hf : Fresh names L) (toS : Term → Sexp)
    (hkids : ∀ a ∈ args, rd env (toSc L) (toS a) = .ok (U false a)) :
    rd env (toSc L) (nodeSexp sp false op p args (args.map toS)) = .ok (U false (.node op args p)) := by
  obtain ⟨hq, ⟨τ, hS, hty⟩, hnok, hnm, hargs⟩ := dagOK_node hok
  have h1 : op ≠ .forall_ := by intro e; subst e; simp [Op.isQuantifier] at hq
  have h2 : op ≠ .exists_ := by intro e; subst e; simp [Op.isQuantifier] at hq
  have hfreeName : ∀ (n : String), names.contains (pyQuote n) = true → lookupScope n (toSc L) [] = none :=
    fun n hn => lookupScope_toSc_none n L [] (fun e he => name_ne_defName hn (hf e he))
  have hres : Resolves env (toSc L) op p := by
    unfold Resolves
    split
    · next s =>
      -- a symbol: not shadowed by a let binding, found among the declarations
      simp only [dagNameOK] at hnm
      have hls := hfreeName s.name hnm
      have hargs0 : args = [] := by
        simp only [stdTy] at hS
        split at hS
        · next hts => simpa using hts
        · simp at hS
      subst hargs0
      have hvar := atomTerm_sym env [] s hnok
      simp only [List.map_nil] at hvar
      -- the reading does not depend on the let bindings, none of which has this name
      obtain ⟨hfine, _⟩ : nameFine s.name = true ∧ True := by
        simp only [nodeOK, List.length_nil, beq_self_eq_true, Bool.true_and, Bool.and_eq_true] at hnok
        exact ⟨hnok.1.1, trivial⟩
      simp only [nameFine, Bool.and_eq_true, Bool.not_eq_true'] at hfine
      obtain ⟨⟨hch, hrsv⟩, _⟩ := hfine
      rw [quoteAtom_eq s.name hch hrsv] at hvar ⊢
      obtain ⟨tok, htok, hsn⟩ := symName?_sym s.name hch
      have hlit := sym_not_literal s.name.toList
      simp only [Sexp.sym, Sexp.atom.injEq] at htok
      rw [← htok] at hsn
      simp only [Sexp.sym, rd, atomTerm, hlit.1, hlit.2.1, hlit.2.2.1, hlit.2.2.2, hsn, lookupScope, hls] at hvar ⊢
      exact hvar
    · next f =>
      simp only [dagNameOK] at hnm
      simp only [nodeOK, Bool.and_eq_true, bne_iff_ne, ne_eq, beq_iff_eq, Bool.not_eq_true'] at hnok
      obtain ⟨⟨⟨⟨_, hfine⟩, _⟩, _⟩, hlf⟩ := hnok
      exact ⟨hfine, hfreeName f.name hnm, hlf⟩
    · trivial
  have hr := reads_node sp hsp env (toSc L) (thFree_toSc L) false toS [] op args p τ h1 h2
    (fun a ha => ⟨dagOK_typed (hargs a ha), hkids a ha⟩) hty hS hnok hres
  exact hr.2

end

end PySMT.Printer
