import PySMT.Proofs.C10Basic
/-!
# C10 — `nnf`: equivalence and shape
-/
namespace PySMT.Rewritings

theorem nnfP_atom {op : Op} (h : isConnective op = false) (pos : Bool) (args : List Term) (p : Payload) :
    nnfP pos (.node op args p) =
      if pos then .node op args p else .node .not [.node op args p] .none := by
  unfold nnfP
  split <;> simp_all [isConnective]

/-- `nnfP pos t` is well-formed Boolean and denotes `t` (`pos`) resp. `¬t` (`¬pos`) -/
theorem nnfP_spec : (t : Term) → ∀ pos : Bool, WB t →
    WB (nnfP pos t) ∧ ∀ I : Interp, I.WF → eval I (nnfP pos t) = .b (truth I t == pos)
  | .node op args p => fun pos h => by
    have ih : ∀ a ∈ args, ∀ pos : Bool, WB a →
        WB (nnfP pos a) ∧ ∀ I : Interp, I.WF → eval I (nnfP pos a) = .b (truth I a == pos) :=
      fun a _ pos ha => nnfP_spec a pos ha
    have tr : ∀ a ∈ args, WB a → ∀ (pos : Bool) (I : Interp), I.WF → truth I (nnfP pos a) = (truth I a == pos) :=
      fun a ha hwa pos I hI => truth_of_eval ((ih a ha pos hwa).2 I hI)
    by_cases hc : isConnective op = false
    · -- atom
      rw [nnfP_atom hc]
      cases pos
      · simp only [Bool.false_eq_true, if_false]
        exact ⟨(wb_not _ _).mpr h, fun I hI => by rw [eval_not]; simp⟩
      · simp only [if_true]
        exact ⟨h, fun I hI => by rw [h.isB hI]; simp⟩
    · cases op <;> simp [isConnective] at hc
      case and =>
        have hch := (wb_and _ _).mp h
        have hw : ∀ pos, ∀ x ∈ args.map (nnfP pos), WB x := by
          intro pos x hx
          obtain ⟨a, ha, rfl⟩ := List.mem_map.mp hx
          exact (ih a ha pos (hch a ha)).1
        cases pos
        · simp only [nnfP, Bool.false_eq_true, if_false]
          refine ⟨wb_mkOr (hw false), fun I hI => ?_⟩
          rw [eval_mkOr hI (hw false), truth_and, List.any_map]
          simp only [beq_false, list_not_all]
          congr 1
          exact list_any_congr (fun a ha => by simp [tr a ha (hch a ha) false I hI])
        · simp only [nnfP, if_true]
          refine ⟨wb_mkAnd (hw true), fun I hI => ?_⟩
          rw [eval_mkAnd hI (hw true), truth_and, List.all_map]
          simp only [beq_true]
          congr 1
          exact list_all_congr (fun a ha => by simp [tr a ha (hch a ha) true I hI])
      case or =>
        have hch := (wb_or _ _).mp h
        have hw : ∀ pos, ∀ x ∈ args.map (nnfP pos), WB x := by
          intro pos x hx
          obtain ⟨a, ha, rfl⟩ := List.mem_map.mp hx
          exact (ih a ha pos (hch a ha)).1
        cases pos
        · simp only [nnfP, Bool.false_eq_true, if_false]
          refine ⟨wb_mkAnd (hw false), fun I hI => ?_⟩
          rw [eval_mkAnd hI (hw false), truth_or, List.all_map]
          simp only [beq_false, list_not_any]
          congr 1
          exact list_all_congr (fun a ha => by simp [tr a ha (hch a ha) false I hI])
        · simp only [nnfP, if_true]
          refine ⟨wb_mkOr (hw true), fun I hI => ?_⟩
          rw [eval_mkOr hI (hw true), truth_or, List.any_map]
          simp only [beq_true]
          congr 1
          exact list_any_congr (fun a ha => by simp [tr a ha (hch a ha) true I hI])
      case not =>
        obtain ⟨a, rfl⟩ := wf_not_args h.1
        have ha := (wb_not _ _).mp h
        simp only [nnfP]
        have := ih a (by simp) (!pos) ha
        refine ⟨this.1, fun I hI => ?_⟩
        rw [this.2 I hI, truth_not]
        cases pos <;> cases truth I a <;> rfl
      case implies =>
        obtain ⟨a, b, rfl⟩ := wf_binary_args (.inl rfl) h.1
        obtain ⟨ha, hb⟩ := (wb_implies _ _ _).mp h
        have a1 := ih a (by simp) true ha; have a0 := ih a (by simp) false ha
        have b1 := ih b (by simp) true hb; have b0 := ih b (by simp) false hb
        cases pos
        · simp only [nnfP, Bool.false_eq_true, if_false]
          have hw : ∀ x ∈ [nnfP true a, nnfP false b], WB x :=
            wb_pair (a1.1) (b0.1)
          refine ⟨wb_mkAnd hw, fun I hI => ?_⟩
          rw [eval_mkAnd hI hw, truth_implies]
          simp only [List.all_cons, List.all_nil, truth_of_eval (a1.2 I hI), truth_of_eval (b0.2 I hI)]
          cases truth I a <;> cases truth I b <;> rfl
        · simp only [nnfP, if_true]
          have hw : ∀ x ∈ [nnfP false a, nnfP true b], WB x :=
            wb_pair (a0.1) (b1.1)
          refine ⟨wb_mkOr hw, fun I hI => ?_⟩
          rw [eval_mkOr hI hw, truth_implies]
          simp only [List.any_cons, List.any_nil, truth_of_eval (a0.2 I hI), truth_of_eval (b1.2 I hI)]
          cases truth I a <;> cases truth I b <;> rfl
      case iff =>
        obtain ⟨a, b, rfl⟩ := wf_binary_args (.inr rfl) h.1
        obtain ⟨ha, hb⟩ := (wb_iff _ _ _).mp h
        have a1 := ih a (by simp) true ha; have a0 := ih a (by simp) false ha
        have b1 := ih b (by simp) true hb; have b0 := ih b (by simp) false hb
        cases pos
        · simp only [nnfP, Bool.false_eq_true, if_false]
          have hw1 : ∀ x ∈ [nnfP true a, nnfP false b], WB x :=
            wb_pair (a1.1) (b0.1)
          have hw2 : ∀ x ∈ [nnfP true b, nnfP false a], WB x :=
            wb_pair (b1.1) (a0.1)
          have hw : ∀ x ∈ [mkAnd [nnfP true a, nnfP false b], mkAnd [nnfP true b, nnfP false a]], WB x :=
            wb_pair (wb_mkAnd hw1) (wb_mkAnd hw2)
          refine ⟨wb_mkOr hw, fun I hI => ?_⟩
          rw [eval_mkOr hI hw, truth_iff]
          simp only [List.any_cons, List.any_nil, truth_of_eval (eval_mkAnd hI hw1),
            truth_of_eval (eval_mkAnd hI hw2), List.all_cons, List.all_nil,
            truth_of_eval (a1.2 I hI), truth_of_eval (b0.2 I hI), truth_of_eval (a0.2 I hI), truth_of_eval (b1.2 I hI)]
          cases truth I a <;> cases truth I b <;> rfl
        · simp only [nnfP, if_true]
          have hw1 : ∀ x ∈ [nnfP false a, nnfP true b], WB x :=
            wb_pair (a0.1) (b1.1)
          have hw2 : ∀ x ∈ [nnfP false b, nnfP true a], WB x :=
            wb_pair (b0.1) (a1.1)
          have hw : ∀ x ∈ [mkOr [nnfP false a, nnfP true b], mkOr [nnfP false b, nnfP true a]], WB x :=
            wb_pair (wb_mkOr hw1) (wb_mkOr hw2)
          refine ⟨wb_mkAnd hw, fun I hI => ?_⟩
          rw [eval_mkAnd hI hw, truth_iff]
          simp only [List.all_cons, List.all_nil, truth_of_eval (eval_mkOr hI hw1),
            truth_of_eval (eval_mkOr hI hw2), List.any_cons, List.any_nil,
            truth_of_eval (a1.2 I hI), truth_of_eval (b0.2 I hI), truth_of_eval (a0.2 I hI), truth_of_eval (b1.2 I hI)]
          cases truth I a <;> cases truth I b <;> rfl
      case ite =>
        obtain ⟨c, a, b, rfl⟩ := wf_ite_args h.1
        obtain ⟨hc', ha, hb⟩ := (wb_ite _ _ _ _).mp h
        have c1 := ih c (by simp) true hc'; have c0 := ih c (by simp) false hc'
        have a1 := ih a (by simp) true ha; have a0 := ih a (by simp) false ha
        have b1 := ih b (by simp) true hb; have b0 := ih b (by simp) false hb
        cases pos
        · simp only [nnfP, Bool.false_eq_true, if_false]
          have hw1 : ∀ x ∈ [nnfP false c, nnfP false a], WB x :=
            wb_pair (c0.1) (a0.1)
          have hw2 : ∀ x ∈ [nnfP true c, nnfP false b], WB x :=
            wb_pair (c1.1) (b0.1)
          have hw : ∀ x ∈ [mkOr [nnfP false c, nnfP false a], mkOr [nnfP true c, nnfP false b]], WB x :=
            wb_pair (wb_mkOr hw1) (wb_mkOr hw2)
          refine ⟨wb_mkAnd hw, fun I hI => ?_⟩
          rw [eval_mkAnd hI hw, truth_ite]
          simp only [List.all_cons, List.all_nil, truth_of_eval (eval_mkOr hI hw1),
            truth_of_eval (eval_mkOr hI hw2), List.any_cons, List.any_nil,
            truth_of_eval (c1.2 I hI), truth_of_eval (c0.2 I hI), truth_of_eval (a0.2 I hI), truth_of_eval (b0.2 I hI)]
          cases truth I c <;> cases truth I a <;> cases truth I b <;> rfl
        · simp only [nnfP, if_true]
          have hw1 : ∀ x ∈ [nnfP false c, nnfP true a], WB x :=
            wb_pair (c0.1) (a1.1)
          have hw2 : ∀ x ∈ [nnfP true c, nnfP true b], WB x :=
            wb_pair (c1.1) (b1.1)
          have hw : ∀ x ∈ [mkOr [nnfP false c, nnfP true a], mkOr [nnfP true c, nnfP true b]], WB x :=
            wb_pair (wb_mkOr hw1) (wb_mkOr hw2)
          refine ⟨wb_mkAnd hw, fun I hI => ?_⟩
          rw [eval_mkAnd hI hw, truth_ite]
          simp only [List.all_cons, List.all_nil, truth_of_eval (eval_mkOr hI hw1),
            truth_of_eval (eval_mkOr hI hw2), List.any_cons, List.any_nil,
            truth_of_eval (c1.2 I hI), truth_of_eval (c0.2 I hI), truth_of_eval (a1.2 I hI), truth_of_eval (b1.2 I hI)]
          cases truth I c <;> cases truth I a <;> cases truth I b <;> rfl
      case forall_ =>
        obtain ⟨b, vs, rfl, rfl⟩ := wf_quant_args (.inl rfl) h.1
        have hb := (wb_forall _ _).mp h
        have b1 := ih b (by simp) true hb; have b0 := ih b (by simp) false hb
        cases pos
        · simp only [nnfP, Bool.false_eq_true, if_false]
          refine ⟨wb_mkExists b0.1, fun I hI => ?_⟩
          rw [eval_mkExists hI vs b0.1, truth_forall, beq_false, quant_not]
          congr 1
          exact quant_congr_wf _ _ _ (fun J hJ => by simp [truth_of_eval (b0.2 J hJ)]) vs I hI
        · simp only [nnfP, if_true]
          refine ⟨wb_mkForall b1.1, fun I hI => ?_⟩
          rw [eval_mkForall hI vs b1.1, truth_forall, beq_true]
          congr 1
          exact quant_congr_wf _ _ _ (fun J hJ => by simp [truth_of_eval (b1.2 J hJ)]) vs I hI
      case exists_ =>
        obtain ⟨b, vs, rfl, rfl⟩ := wf_quant_args (.inr rfl) h.1
        have hb := (wb_exists _ _).mp h
        have b1 := ih b (by simp) true hb; have b0 := ih b (by simp) false hb
        cases pos
        · simp only [nnfP, Bool.false_eq_true, if_false]
          refine ⟨wb_mkForall b0.1, fun I hI => ?_⟩
          rw [eval_mkForall hI vs b0.1, truth_exists, beq_false, quant_not]
          congr 1
          exact quant_congr_wf _ _ _ (fun J hJ => by simp [truth_of_eval (b0.2 J hJ)]) vs I hI
        · simp only [nnfP, if_true]
          refine ⟨wb_mkExists b1.1, fun I hI => ?_⟩
          rw [eval_mkExists hI vs b1.1, truth_exists, beq_true]
          congr 1
          exact quant_congr_wf _ _ _ (fun J hJ => by simp [truth_of_eval (b1.2 J hJ)]) vs I hI

/-- `nnf` returns a formula with the same value under every interpretation -/
theorem nnf_equiv (t : Term) (hwf : t.wf = true) (hty : t.typeOf = some .bool) (I : Interp) (hI : I.WF) :
    eval I (nnf t) = eval I t := by
  rw [nnf, (nnfP_spec t true ⟨hwf, hty⟩).2 I hI, WB.isB ⟨hwf, hty⟩ hI]
  simp

theorem nnf_wf (t : Term) (hwf : t.wf = true) (hty : t.typeOf = some .bool) :
    (nnf t).wf = true ∧ (nnf t).typeOf = some .bool := (nnfP_spec t true ⟨hwf, hty⟩).1

end PySMT.Rewritings

namespace PySMT.Rewritings

/-! ## shape -/

theorem isNNF_and (as : List Term) (p : Payload) : isNNF (.node .and as p) = as.all isNNF := by
  rw [isNNF, List.all_map]; rfl
theorem isNNF_or (as : List Term) (p : Payload) : isNNF (.node .or as p) = as.all isNNF := by
  rw [isNNF, List.all_map]; rfl
theorem isNNF_forall (b : Term) (p : Payload) : isNNF (.node .forall_ [b] p) = isNNF b := by
  rw [isNNF]
theorem isNNF_exists (b : Term) (p : Payload) : isNNF (.node .exists_ [b] p) = isNNF b := by
  rw [isNNF]
theorem isNNF_atom {op : Op} (h : isConnective op = false) (args : List Term) (p : Payload) :
    isNNF (.node op args p) = true := by
  unfold isNNF
  split <;> simp_all [isConnective]
theorem isNNF_natom {op : Op} (h : isConnective op = false) (args : List Term) (p p' : Payload) :
    isNNF (.node .not [.node op args p] p') = true := by
  rw [isNNF]; simp [h]

theorem isNNF_mkAnd {as : List Term} (h : ∀ a ∈ as, isNNF a = true) : isNNF (mkAnd as) = true := by
  match as, h with
  | [], _ => exact isNNF_atom rfl _ _
  | [a], h => exact h a (by simp)
  | a :: b :: rest, h => rw [show mkAnd (a :: b :: rest) = .node .and (a :: b :: rest) .none from rfl, isNNF_and]; exact List.all_eq_true.mpr h

theorem isNNF_mkOr {as : List Term} (h : ∀ a ∈ as, isNNF a = true) : isNNF (mkOr as) = true := by
  match as, h with
  | [], _ => exact isNNF_atom rfl _ _
  | [a], h => exact h a (by simp)
  | a :: b :: rest, h => rw [show mkOr (a :: b :: rest) = .node .or (a :: b :: rest) .none from rfl, isNNF_or]; exact List.all_eq_true.mpr h

theorem isNNF_mkForall (vs : List Sym) {b : Term} (h : isNNF b = true) : isNNF (mkForall vs b) = true := by
  unfold mkForall; split
  · exact h
  · rw [isNNF_forall]; exact h

theorem isNNF_mkExists (vs : List Sym) {b : Term} (h : isNNF b = true) : isNNF (mkExists vs b) = true := by
  unfold mkExists; split
  · exact h
  · rw [isNNF_exists]; exact h

theorem isNNF_pair {x y : Term} (hx : isNNF x = true) (hy : isNNF y = true) : ∀ z ∈ [x, y], isNNF z = true := by
  intro z hz
  simp only [List.mem_cons, List.not_mem_nil, or_false] at hz
  rcases hz with rfl | rfl
  · exact hx
  · exact hy

/-- negations only on atoms, only `and`/`or`/quantifiers above the literals -/
theorem nnfP_shape : (t : Term) → ∀ pos : Bool, t.wf = true → isNNF (nnfP pos t) = true
  | .node op args p => fun pos h => by
    have ih : ∀ a ∈ args, ∀ pos : Bool, isNNF (nnfP pos a) = true :=
      fun a ha pos => nnfP_shape a pos ((Term.wf_node.mp h).1 a ha)
    by_cases hc : isConnective op = false
    · rw [nnfP_atom hc]
      cases pos
      · exact isNNF_natom hc _ _ _
      · exact isNNF_atom hc _ _
    · have hl : ∀ pos, ∀ x ∈ args.map (nnfP pos), isNNF x = true := by
        intro pos x hx
        obtain ⟨a, ha, rfl⟩ := List.mem_map.mp hx
        exact ih a ha pos
      cases op <;> simp [isConnective] at hc
      case and =>
        cases pos <;> simp only [nnfP, Bool.false_eq_true, if_false, if_true]
        · exact isNNF_mkOr (hl false)
        · exact isNNF_mkAnd (hl true)
      case or =>
        cases pos <;> simp only [nnfP, Bool.false_eq_true, if_false, if_true]
        · exact isNNF_mkAnd (hl false)
        · exact isNNF_mkOr (hl true)
      case not =>
        obtain ⟨a, rfl⟩ := wf_not_args h
        simp only [nnfP]
        exact ih a (by simp) _
      case implies =>
        obtain ⟨a, b, rfl⟩ := wf_binary_args (.inl rfl) h
        cases pos <;> simp only [nnfP, Bool.false_eq_true, if_false, if_true]
        · exact isNNF_mkAnd (isNNF_pair (ih a (by simp) _) (ih b (by simp) _))
        · exact isNNF_mkOr (isNNF_pair (ih a (by simp) _) (ih b (by simp) _))
      case iff =>
        obtain ⟨a, b, rfl⟩ := wf_binary_args (.inr rfl) h
        cases pos <;> simp only [nnfP, Bool.false_eq_true, if_false, if_true]
        · exact isNNF_mkOr (isNNF_pair
            (isNNF_mkAnd (isNNF_pair (ih a (by simp) _) (ih b (by simp) _)))
            (isNNF_mkAnd (isNNF_pair (ih b (by simp) _) (ih a (by simp) _))))
        · exact isNNF_mkAnd (isNNF_pair
            (isNNF_mkOr (isNNF_pair (ih a (by simp) _) (ih b (by simp) _)))
            (isNNF_mkOr (isNNF_pair (ih b (by simp) _) (ih a (by simp) _))))
      case ite =>
        obtain ⟨c, a, b, rfl⟩ := wf_ite_args h
        cases pos <;> simp only [nnfP, Bool.false_eq_true, if_false, if_true]
        · exact isNNF_mkAnd (isNNF_pair
            (isNNF_mkOr (isNNF_pair (ih c (by simp) _) (ih a (by simp) _)))
            (isNNF_mkOr (isNNF_pair (ih c (by simp) _) (ih b (by simp) _))))
        · exact isNNF_mkAnd (isNNF_pair
            (isNNF_mkOr (isNNF_pair (ih c (by simp) _) (ih a (by simp) _)))
            (isNNF_mkOr (isNNF_pair (ih c (by simp) _) (ih b (by simp) _))))
      case forall_ =>
        obtain ⟨b, vs, rfl, rfl⟩ := wf_quant_args (.inl rfl) h
        cases pos <;> simp only [nnfP, Bool.false_eq_true, if_false, if_true]
        · exact isNNF_mkExists vs (ih b (by simp) _)
        · exact isNNF_mkForall vs (ih b (by simp) _)
      case exists_ =>
        obtain ⟨b, vs, rfl, rfl⟩ := wf_quant_args (.inr rfl) h
        cases pos <;> simp only [nnfP, Bool.false_eq_true, if_false, if_true]
        · exact isNNF_mkForall vs (ih b (by simp) _)
        · exact isNNF_mkExists vs (ih b (by simp) _)

theorem nnf_shape (t : Term) (hwf : t.wf = true) : isNNF (nnf t) = true := nnfP_shape t true hwf

end PySMT.Rewritings
