import PySMT.Proofs.C05Type
/-!
# C05 — the result of a substitution is normal again (so substitutions compose)

`rebuild_normal` : the manager constructor applied to normal, well-formed new children of the old
types returns a normal term; `substG_normal` : so does the substitution, for maps and interpretation
handlers with normal values.
-/
namespace PySMT.Subst
open PySMT.Build PySMT.C05T

theorem normal_mk {op : Op} {p : Payload} {as : List Term} (h1 : ∀ a ∈ as, normal a = true)
    (h2 : normalNode op p as = true) : normal (.node op as p) = true := by
  rw [normal_node, h2]
  simp only [Bool.and_true, List.all_eq_true, List.mem_map, id]
  rintro _ ⟨a, ha, rfl⟩
  exact h1 a ha

theorem normal_real (q : Rat) : normal (Term.real q) = true := by
  rw [Term.real, normal_node]; rfl

theorem normalNode_generic {op : Op} {p : Payload} {args as' : List Term} (hsp : special op = false)
    (hn : normalNode op p args = true) : normalNode op p as' = true := by
  cases op <;> simp [special, isBvSameWidthOp] at hsp <;>
    first
    | exact hn
    | (simp only [normalNode, isBvSameWidthOp] at hn ⊢; exact hn)
    | (simp [normalNode, isBvSameWidthOp] at hn ⊢)

/-- the pairs kept by `Array(...)` are again what `Array(...)` keeps -/
theorem mkArray_idem (d : Term) (ps : List (Term × Term)) :
    unpairs ((pyDict ps).filter (fun kv => kv.2 ≠ d)) =
      unpairs ((pyDict (pairsOf (unpairs ((pyDict ps).filter (fun kv => kv.2 ≠ d))))).filter (fun kv => kv.2 ≠ d)) := by
  rw [pairsOf_unpairs]
  have hnd : (((pyDict ps).filter (fun kv => kv.2 ≠ d)).map Prod.fst).Nodup :=
    List.Nodup.sublist (List.Sublist.map _ List.filter_sublist) (pyDict_keys_nodup ps)
  rw [pyDict_nodup _ hnd, List.filter_filter]
  congr 1
  apply List.filter_congr
  intro kv _
  simp

theorem rebuild_normal {op : Op} {p : Payload} {args as' : List Term}
    (hwf : (Term.node op args p).wf = true) (hn : normalNode op p args = true) (hs : SameTypes args as')
    (hwf' : ∀ a ∈ as', a.wf = true) (hn' : ∀ a ∈ as', normal a = true) :
    normal (rebuild op p as') = true := by
  have hwt := Term.wf_wt _ hwf
  by_cases hsp : special op = false
  · rw [rebuild_generic op p as' hsp]; exact normal_mk hn' (normalNode_generic hsp hn)
  have hty := wt_tyNode hwt
  cases op <;> simp [special, isBvSameWidthOp] at hsp
  case and | or | plus | times =>
    have h2 : 2 ≤ as'.length := by rw [hs.length]; simpa [normalNode] using hn
    rw [rebuild_nary h2 (by simp)]
    exact normal_mk hn' (by simpa [normalNode] using h2)
  case not =>
    match args, hn, hs, hwt, hty with
    | [a], hn, hs, hwt, hty =>
      obtain ⟨a', rfl, hwa', hta'⟩ := hs.one
      simp only [rebuild]; unfold mkNotN
      split
      · next b pl heq =>
        cases heq
        exact normal_child (hn' (.node .not [b] pl) (by simp)) b (by simp)
      · next hne =>
        apply normal_mk hn'
        obtain ⟨oa, aa, pa⟩ := a'
        simp only [normalNode, Term.op, bne_iff_ne, ne_eq]
        intro ho
        subst ho
        have hsh := (Term.wf_node.mp (hwf' (.node .not aa pa) (by simp))).2.1
        simp only [Op.shapeOK, beq_iff_eq] at hsh
        match aa, hsh with
        | [b], _ => exact hne b pa rfl
  case toReal =>
    match args, hn, hs, hwt, hty with
    | [a], hn, hs, hwt, hty =>
      obtain ⟨a', rfl, hwa', hta'⟩ := hs.one
      simp only [normalNode, Bool.and_eq_true, bne_iff_ne, ne_eq] at hn
      obtain ⟨oa, aa, pa⟩ := a'
      simp only [rebuild, mkToReal]
      split
      · next h1 => rw [hta'] at h1; exact absurd h1 hn.1
      · exact normal_real _
      · next hnr hnc =>
        apply normal_mk hn'
        simp only [normalNode, Bool.and_eq_true, bne_iff_ne, ne_eq, Term.op]
        refine ⟨by rw [hta']; exact hn.1, ?_⟩
        intro ho
        subst ho
        have hsh := (Term.wf_node.mp (hwf' (.node .intConst aa pa) (by simp))).2.1
        have haa : aa = [] := by
          cases aa with
          | nil => rfl
          | cons _ _ => cases pa <;> simp [Op.shapeOK] at hsh
        subst haa
        have hnn := normal_here (hn' (.node .intConst [] pa) (by simp))
        cases pa <;> simp [normalNode] at hnn
        exact hnc _ rfl
  case div =>
    match args, hn, hs, hwt, hty with
    | [a, b], hn, hs, hwt, hty =>
      obtain ⟨a', b', rfl, hwa', hta', hwb', htb'⟩ := hs.two
      simp only [rebuild]; unfold mkDiv
      split
      · next x c heq =>
        cases heq
        split
        · next hc =>
          apply normal_mk hn'
          simp [normalNode, Term.op, hc, Term.real]
        · apply normal_mk
          · intro y hy
            simp only [List.mem_cons, List.not_mem_nil, or_false] at hy
            rcases hy with rfl | rfl
            · exact hn' _ (List.mem_cons_self ..)
            · exact normal_real _
          · simp [normalNode]
      · next hne =>
        apply normal_mk hn'
        obtain ⟨ob, ab, pb⟩ := b'
        simp only [normalNode, Term.op, Bool.not_eq_true', Bool.and_eq_false_iff, beq_eq_false_iff_ne, ne_eq,
          bne_eq_false_iff_eq]
        by_cases ho : ob = .realConst
        · subst ho
          have hsh := (Term.wf_node.mp (hwf' (Term.node .realConst ab pb) (by simp))).2.1
          have hab : ab = [] := by
            cases ab with
            | nil => rfl
            | cons _ _ => cases pb <;> simp [Op.shapeOK] at hsh
          subst hab
          have hnn := normal_here (hn' (Term.node .realConst [] pb) (by simp))
          cases pb <;> simp [normalNode] at hnn
          exact absurd rfl (hne a' _)
        · exact .inl ho
  case forall_ | exists_ =>
    simp only [normalNode, bne_iff_ne, ne_eq] at hn
    simp only [rebuild]; unfold mkQuant
    split
    · split
      · exact absurd rfl hn
      · exact normal_mk hn' (by simpa [normalNode] using hn)
    · exact normal_mk hn' (by simpa [normalNode] using hn)
  case bvComp =>
    simp only [rebuild]
    exact normal_mk hn' (by simp [normalNode])
  case bvExtract =>
    simp only [normalNode] at hn
    simp only [rebuild, mkExtract]
    split at hn
    · next w lo hi =>
      simp only [beq_iff_eq] at hn
      exact normal_mk hn' (by simp [normalNode])
    · simp at hn
  case arrayValue =>
    obtain ⟨d', rest', rfl, _, _⟩ : ∃ d' rest', as' = d' :: rest' ∧ True ∧ True := by
      cases args with
      | nil => simp [normalNode] at hn
      | cons d rest => obtain ⟨d', rest', rfl, _, _⟩ := hs.cons; exact ⟨d', rest', rfl, trivial, trivial⟩
    have hrb : rebuild .arrayValue p (d' :: rest') = mkArray p (d' :: rest') := rfl
    rw [hrb, mkArray_cons]
    apply normal_mk
    · intro x hx
      rcases List.mem_cons.mp hx with rfl | hx
      · exact hn' _ (by simp)
      · obtain ⟨kv, hkv, hx⟩ := mem_unpairs hx
        have := pyDict_all (fun k => normal k = true) (fun v => normal v = true)
          (fun q hq => ⟨hn' _ (List.mem_cons_of_mem _ (mem_pairsOf hq).1),
            hn' _ (List.mem_cons_of_mem _ (mem_pairsOf hq).2)⟩) kv (List.mem_filter.mp hkv).1
        rcases hx with rfl | rfl
        · exact this.1
        · exact this.2
    · simp only [normalNode, decide_eq_true_eq]
      exact mkArray_idem d' (pairsOf rest')
  case bvConcat =>
    rcases args with _ | ⟨a, _ | ⟨b, _ | ⟨c, r⟩⟩⟩ <;> try (simp [normalNode] at hn; done)
    obtain ⟨a', b', rfl, hwa', hta', hwb', htb'⟩ := hs.two
    have hwa : a.wt = true := Term.wt_child hwt a (by simp)
    have hwb : b.wt = true := Term.wt_child hwt b (by simp)
    simp only [normalNode] at hn
    simp only [tyNode, List.map_cons, List.map_nil] at hty
    split at hty
    · next w tl l r heq =>
      simp only [List.cons.injEq, and_true] at heq
      have hla := fnodeWidth_of_typeOf a hwa l (typeOf_of_tyOf hwa heq.1)
      have hrb := fnodeWidth_of_typeOf b hwb r (typeOf_of_tyOf hwb heq.2)
      have hla' := fnodeWidth_of_typeOf a' hwa' l (by rw [hta']; exact typeOf_of_tyOf hwa heq.1)
      have hrb' := fnodeWidth_of_typeOf b' hwb' r (by rw [htb']; exact typeOf_of_tyOf hwb heq.2)
      simp only [rebuild, mkConcat, hla', hrb']
      exact normal_mk hn' (by simp [normalNode, hla', hrb'])
    · simp at hty
  case bvRol | bvRor =>
    rcases args with _ | ⟨a, _ | ⟨b, r⟩⟩ <;> try (simp [normalNode] at hn; done)
    obtain ⟨a', rfl, hwa', hta'⟩ := hs.one
    have hwa : a.wt = true := Term.wt_child hwt a (by simp)
    simp only [normalNode] at hn
    simp only [tyNode, List.map_cons, List.map_nil] at hty
    split at hty
    · next w k x heq =>
      simp only [List.cons.injEq, and_true] at heq
      have hx' := fnodeWidth_of_typeOf a' hwa' x (by rw [hta']; exact typeOf_of_tyOf hwa heq)
      simp only [rebuild, mkRot, hx']
      exact normal_mk hn' (by simp [normalNode, hx'])
    · simp at hty
  case bvZext | bvSext =>
    rcases args with _ | ⟨a, _ | ⟨b, r⟩⟩ <;> try (simp [normalNode] at hn; done)
    obtain ⟨a', rfl, hwa', hta'⟩ := hs.one
    have hwa : a.wt = true := Term.wt_child hwt a (by simp)
    simp only [normalNode] at hn
    simp only [tyNode, List.map_cons, List.map_nil] at hty
    split at hty
    · next w tl x rest heq =>
      simp only [List.cons.injEq, and_true] at heq
      have hx := fnodeWidth_of_typeOf a hwa x (typeOf_of_tyOf hwa heq.1)
      have hx' := fnodeWidth_of_typeOf a' hwa' x (by rw [hta']; exact typeOf_of_tyOf hwa heq.1)
      simp only [hx] at hn
      split at hn
      · next w2 inc wa hp hw =>
        cases hp; cases hw
        simp only [rebuild, mkExt, hx']
        exact normal_mk hn' (by simp [normalNode, hx'])
      · simp at hn
    · simp at hty
  all_goals
    simp only [normalNode, isBvSameWidthOp, Bool.not_true, Bool.false_or] at hn
    rcases args with _ | ⟨a, rest⟩
    · simp at hn
    obtain ⟨a', rest', rfl, hwa', hta'⟩ := hs.cons
    have hwa : a.wt = true := Term.wt_child hwt a (by simp)
    simp only at hn
    simp only [tyNode, List.map_cons] at hty
    split at hty
    · next w tl =>
      have hall : allAre (some (tyOf a) :: List.map some (List.map tyOf rest)) (.bv w) = true := by
        by_cases h : allAre (some (tyOf a) :: List.map some (List.map tyOf rest)) (.bv w) = true
        · exact h
        · rw [if_neg h] at hty; cases hty
      have hx : tyOf a = .bv w := allAre_cons_some hall
      have h1' := fnodeWidth_of_typeOf a' hwa' w (by rw [hta']; exact typeOf_of_tyOf hwa hx)
      simp only [rebuild, isBvSameWidthOp, if_true, mkBvOp, bvPayload, h1']
      exact normal_mk hn' (by simp [normalNode, isBvSameWidthOp, h1'])
    · simp at hty

/-- interpretation results are normal -/
def HandlerNormal (h : FnHandler) : Prop :=
  ∀ f as r, h f as = some r → (∀ a ∈ as, a.wf = true) → (∀ a ∈ as, normal a = true) →
    as.map Term.typeOf = f.params.map some → normal r = true

theorem noInterp_normal : HandlerNormal noInterp := by intro f as r h; cases h

/-- every replacement is normal -/
def NormalMap (σ : TMap) : Prop := ∀ kv ∈ σ, normal kv.2 = true

theorem NormalMap.bodyMap {σ : TMap} (h : NormalMap σ) (op : Op) (p : Payload) : NormalMap (bodyMap σ op p) := by
  unfold Subst.bodyMap
  split
  · exact fun kv hkv => h kv (List.mem_filter.mp hkv).1
  · exact h

theorem substG_normal (ms : Bool) {h : FnHandler} (hh : HandlerTyped h) (hw : HandlerWf h) (hnh : HandlerNormal h) :
    (t : Term) → ∀ σ : TMap, WfMap σ → NormalMap σ → t.wf = true → normal t = true →
      normal (substG ms h σ t) = true
  | .node op args p, σ, hσ, hσn, hwf, hn => by
    have hwt := Term.wf_wt _ hwf
    obtain ⟨hchwf, _, _⟩ := Term.wf_node.mp hwf
    have ihn : ∀ a ∈ args, normal (substG ms h (bodyMap σ op p) a) = true :=
      fun a hm => substG_normal ms hh hw hnh a _ (hσ.bodyMap op p) (hσn.bodyMap op p) (hchwf a hm) (normal_child hn a hm)
    have ihw : ∀ a ∈ args, (substG ms h (bodyMap σ op p) a).wf = true :=
      fun a hm => substG_wf ms hh hw a _ (hσ.bodyMap op p) (hchwf a hm) (normal_child hn a hm)
    have iht : ∀ a ∈ args, (substG ms h (bodyMap σ op p) a).wt = true ∧
        (substG ms h (bodyMap σ op p) a).typeOf = a.typeOf :=
      fun a hm => substG_type ms hh a _ (hσ.bodyMap op p).tyMap (Term.wt_child hwt a hm) (normal_child hn a hm)
    have hs : SameTypes args (args.map (substG ms h (bodyMap σ op p))) := by
      constructor
      · intro a' ha'
        obtain ⟨a, hm, rfl⟩ := List.mem_map.mp ha'
        exact (iht a hm).1
      · rw [List.map_map]
        exact List.map_congr_left (fun a hm => (iht a hm).2)
    have hwf' : ∀ a' ∈ args.map (substG ms h (bodyMap σ op p)), a'.wf = true := by
      intro a' ha'
      obtain ⟨a, hm, rfl⟩ := List.mem_map.mp ha'
      exact ihw a hm
    have hn' : ∀ a' ∈ args.map (substG ms h (bodyMap σ op p)), normal a' = true := by
      intro a' ha'
      obtain ⟨a, hm, rfl⟩ := List.mem_map.mp ha'
      exact ihn a hm
    have hb : normal (build h op p (args.map (substG ms h (bodyMap σ op p)))) = true := by
      unfold build
      split
      · split
        · next r hr =>
          have h1 := typeOfNode_function_some (Term.wt_typeOf hwt)
          exact hnh _ _ r hr hwf' hn' (by rw [hs.ty]; exact h1.1)
        · exact rebuild_normal hwf (normal_here hn) hs hwf' hn'
      · exact rebuild_normal hwf (normal_here hn) hs hwf' hn'
    rw [substG]
    cases ms
    · simp only [Bool.false_eq_true, if_false]
      cases hl : lookup σ (.node op args p) with
      | none => exact hb
      | some v => exact hσn _ (lookup_mem hl)
    · simp only [if_true]
      cases hl : lookup σ (build h op p (args.map (substG true h (bodyMap σ op p)))) with
      | none => exact hb
      | some v => exact hσn _ (lookup_mem hl)

end PySMT.Subst
