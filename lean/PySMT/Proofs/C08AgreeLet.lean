import PySMT.Proofs.C08AgreeBind2
/-!
# C08/C09 agreement: `let` — the parser's binding loop (`_enter_let`, with the delayed bindings of the repair F13)
against the standard's simultaneous bindings
-/
namespace PySMT.Parser.Agree
open PySMT PySMT.Parser PySMT.Std PySMT.Sexp

theorem eraseDups_len_le : ∀ (n : Nat) (l : List String), l.length ≤ n → l.eraseDups.length ≤ l.length
  | _, [], _ => by simp
  | 0, _ :: _, h => by simp at h
  | n + 1, a :: as, h => by
    rw [List.eraseDups_cons]
    simp only [List.length_cons] at h ⊢
    have h1 := List.length_filter_le (fun b => !b == a) as
    have := eraseDups_len_le n (as.filter (fun b => !b == a)) (by omega)
    omega

theorem nodup_of_distinct : ∀ (n : Nat) (l : List String), l.length ≤ n → distinctNames l = true → l.Nodup
  | _, [], _, _ => List.nodup_nil
  | 0, _ :: _, h, _ => by simp at h
  | n + 1, a :: as, h, hd => by
    simp only [distinctNames, beq_iff_eq] at hd
    rw [List.eraseDups_cons] at hd
    simp only [List.length_cons] at h hd
    have h1 := List.length_filter_le (fun b => !b == a) as
    have h2 := eraseDups_len_le _ (as.filter (fun b => !b == a)) (Nat.le_refl _)
    have hfl : (as.filter (fun b => !b == a)).length = as.length := by omega
    have hfe : as.filter (fun b => !b == a) = as := by
      exact List.filter_eq_self.mpr (List.length_filter_eq_length_iff.mp hfl)
    rw [hfe] at hd
    have hna : a ∉ as := by
      intro hmem
      have := List.filter_eq_self.mp hfe a hmem
      simp at this
    exact List.nodup_cons.mpr ⟨hna, nodup_of_distinct n as (by omega) (by simp [distinctNames]; omega)⟩

/-- the agreement statement for the binding list of a `let`, in the middle of the parser's loop -/
def AgreeBindsAt (env : SEnv) (ρ : List (String × Sym)) (bs : List Sexp) : Prop :=
  ∀ (sc : List Binding) (Γc : PEnv) (seen : List String) (delayed : List (String × Parser.Val)),
    Corr env sc Γc → MgrLe Γc.mgr ρ → rotBinds env sc bs = true →
    ∀ new, rdBindings env sc bs = .ok new → (∀ b ∈ new, bindingName b ∉ seen) → (new.map bindingName).Nodup →
      (∀ d ∈ delayed, d.1 ∈ seen) →
    ∃ Γ', rdLetBinds Γc seen delayed bs = .ok Γ' ∧ MgrLe Γ'.mgr ρ ∧ Γ'.intArith = Γc.intArith ∧ allLet new = true ∧
      (∀ n t ty, letFind n new = some (t, ty) →
        lookup n Γ'.binds = some (.term (mkNorm t)) ∧ TOK (mkNorm t) ty ∧ bindNameOK env n = true ∧
          theorySymbols.contains n = false) ∧
      (∀ n, letFind n new = none → lookup n Γ'.binds = lookup n (delayed ++ Γc.binds))

theorem agreeB_nil (env : SEnv) (ρ : List (String × Sym)) : AgreeBindsAt env ρ [] := by
  intro sc Γc seen delayed _ hm _ new h _ _ _
  simp only [rdBindings, Except.ok.injEq] at h
  subst h
  refine ⟨_, rdLetBinds_nil Γc seen delayed, hm, rfl, rfl, ?_, ?_⟩
  · intro n t ty hf; simp [letFind] at hf
  · intro n _
    show lookup n (bindAll delayed.reverse Γc.binds) = _
    rw [bindAll_eq, List.reverse_reverse]

theorem lookup_delayed_none {delayed : List (String × Parser.Val)} {seen : List String} {n : String}
    (hd : ∀ d ∈ delayed, d.1 ∈ seen) (hn : n ∉ seen) : lookup n delayed = none := by
  induction delayed with
  | nil => rfl
  | cons d rest ih =>
    obtain ⟨k, v⟩ := d
    have hk : k ≠ n := by
      intro e; subst e; exact hn (hd (k, v) (by simp))
    rw [lookup_cons_ne hk]
    exact ih (fun d' hd' => hd d' (List.mem_cons_of_mem _ hd'))

theorem letFind_none_of_not_mem {n : String} : ∀ {new : List Binding}, n ∉ new.map bindingName → letFind n new = none
  | [], _ => rfl
  | .letb m t ty :: rest, h => by
    simp only [List.map_cons, bindingName, List.mem_cons, not_or] at h
    have : (m == n) = false := by
      apply beq_eq_false_iff_ne.2; exact fun e => h.1 e.symm
    simp only [letFind, this, Bool.false_eq_true, if_false]
    exact letFind_none_of_not_mem h.2
  | .var s :: rest, h => by
    simp only [List.map_cons, List.mem_cons, not_or] at h
    simp only [letFind]
    exact letFind_none_of_not_mem h.2

theorem agreeB_cons (env : SEnv) (ρ : List (String × Sym)) (x : String) (e : Sexp) (rest : List Sexp)
    (hx : letNameOK env x = true) (hE : AgreeAt env ρ e) (hR : AgreeBindsAt env ρ rest) :
    AgreeBindsAt env ρ (.list [.atom x, e] :: rest) := by
  intro sc Γc seen delayed hc hm hro new h hseen hnd hdel
  rw [rotBinds_cons, Bool.and_eq_true] at hro
  unfold letNameOK at hx
  simp only [rdBindings] at h
  cases hsn : symName? x with
  | none => simp [hsn] at hx
  | some n =>
    simp only [hsn] at hx h
    have hpn : pnameOK n = true := by
      simp only [bindNameOK, Bool.and_eq_true] at hx; exact hx.1.1
    split at h
    · cases h
    · rename_i hth
      have hth' : theorySymbols.contains n = false := by simpa using hth
      cases he : rd env sc e with
      | error err => simp [he] at h
      | ok r =>
        obtain ⟨t, ty⟩ := r
        cases hrb : rdBindings env sc rest with
        | error err => simp [he, hrb] at h
        | ok bs' =>
          simp only [he, hrb, Except.ok.injEq] at h
          subst h
          simp only [List.map_cons, bindingName, List.nodup_cons] at hnd
          have hns : n ∉ seen := hseen (.letb n t ty) (by simp)
          obtain ⟨σ1, hv, hm1, htok⟩ := hE sc Γc false hc hm hro.1 t ty he
          have hseen' : ∀ b ∈ bs', bindingName b ∉ n :: seen := by
            intro b hb hmem
            simp only [List.mem_cons] at hmem
            rcases hmem with hbn | hbs
            · exact hnd.1 (by rw [← hbn]; exact List.mem_map_of_mem hb)
            · exact hseen b (List.mem_cons_of_mem _ hb) hbs
          have hsc : seen.contains n = false := by simpa using hns
          have hfn : letFind n bs' = none := letFind_none_of_not_mem hnd.1
          have hpt : pyTok x = n := pyTok_sym hsn
          cases hlk : lookup n Γc.binds with
          | none =>
            have hc1 : Corr env sc { Γc with binds := (n, .term (mkNorm t)) :: Γc.binds, mgr := σ1 } :=
              corr_mgr (corr_fresh hc n _ hlk hpn) σ1
            obtain ⟨Γ', hrl, hm', hia, hal, hnew, hold⟩ :=
              hR sc _ (n :: seen) delayed hc1 hm1 hro.2 bs' hrb hseen' hnd.2
                (fun d hd => List.mem_cons_of_mem _ (hdel d hd))
            refine ⟨Γ', ?_, hm', hia, by simpa [allLet] using hal, ?_, ?_⟩
            · rw [rdLetBinds]
              simp only [hpt, hsc, Bool.false_eq_true, if_false, hv, hlk]
              exact hrl
            · intro m t' ty' hf
              simp only [letFind] at hf
              by_cases hnm : (n == m) = true
              · simp only [hnm, if_true, Option.some.injEq, Prod.mk.injEq] at hf
                obtain ⟨rfl, rfl⟩ := hf
                have hnm' : n = m := by simpa using hnm
                subst hnm'
                refine ⟨?_, htok, hx, hth'⟩
                rw [hold n hfn, lookup_append, lookup_delayed_none hdel hns]
                exact lookup_cons_eq
              · simp only [hnm, Bool.false_eq_true, if_false] at hf
                exact hnew m t' ty' hf
            · intro m hf
              simp only [letFind] at hf
              by_cases hnm : (n == m) = true
              · simp [hnm] at hf
              · simp only [hnm, Bool.false_eq_true, if_false] at hf
                have hnm' : n ≠ m := by simpa using hnm
                rw [hold m hf, lookup_append, lookup_append]
                show (match lookup m delayed with | some v => some v | none => lookup m ((n, _) :: Γc.binds)) = _
                rw [lookup_cons_ne hnm']
                cases lookup m delayed <;> rfl
          | some w =>
            obtain ⟨Γ', hrl, hm', hia, hal, hnew, hold⟩ :=
              hR sc { Γc with mgr := σ1 } (n :: seen) ((n, .term (mkNorm t)) :: delayed) (corr_mgr hc σ1) hm1 hro.2 bs' hrb hseen'
                hnd.2 (by
                  intro d hd
                  simp only [List.mem_cons] at hd ⊢
                  rcases hd with rfl | hd
                  · exact Or.inl rfl
                  · exact Or.inr (hdel d hd))
            refine ⟨Γ', ?_, hm', hia, by simpa [allLet] using hal, ?_, ?_⟩
            · rw [rdLetBinds]
              simp only [hpt, hsc, Bool.false_eq_true, if_false, hv, hlk]
              exact hrl
            · intro m t' ty' hf
              simp only [letFind] at hf
              by_cases hnm : (n == m) = true
              · simp only [hnm, if_true, Option.some.injEq, Prod.mk.injEq] at hf
                obtain ⟨rfl, rfl⟩ := hf
                have hnm' : n = m := by simpa using hnm
                subst hnm'
                refine ⟨?_, htok, hx, hth'⟩
                rw [hold n hfn]
                exact lookup_cons_eq
              · simp only [hnm, Bool.false_eq_true, if_false] at hf
                exact hnew m t' ty' hf
            · intro m hf
              simp only [letFind] at hf
              by_cases hnm : (n == m) = true
              · simp [hnm] at hf
              · simp only [hnm, Bool.false_eq_true, if_false] at hf
                have hnm' : n ≠ m := by simpa using hnm
                rw [hold m hf]
                show lookup m ((n, _) :: (delayed ++ Γc.binds)) = _
                rw [lookup_cons_ne hnm']

/-! ## the `let` form -/

theorem rdVal_let (Γ : PEnv) (lone : Bool) (rest : List Sexp) :
    rdVal Γ lone (.list (.atom "let" :: rest)) = rdLetForm Γ rest := by
  have hp : pyTok "let" = "let" := by decide
  have ht : tableLookup "let" = some (.handler "_enter_let") := by decide
  rw [rdVal]
  simp only [hp, ht]
  simp (config := { decide := true }) only [if_true]

theorem rd_let (env : SEnv) (sc : List Binding) (rest : List Sexp) :
    rd env sc (.list (.atom "let" :: rest)) = rdLet env sc rest := by
  rw [rd]; simp (config := { decide := true }) only [if_true]

theorem agree_let (env : SEnv) (ρ : List (String × Sym)) (bs : List Sexp) (body : Sexp)
    (hBs : AgreeBindsAt env ρ bs) (hB : AgreeAt env ρ body) :
    AgreeAt env ρ (.list [.atom "let", .list bs, body]) := by
  intro sc Γ lone hc hm hro u τ h
  rw [RotOK_let, rotLet_eq, Bool.and_eq_true] at hro
  rw [rd_let, rdLet] at h
  cases hrb : rdBindings env sc bs with
  | error e => simp [hrb] at h
  | ok new =>
    simp only [hrb] at h
    split at h
    · cases h
    · rename_i hne
      split at h
      · cases h
      · rename_i hdist
        have hnd : (new.map bindingName).Nodup :=
          nodup_of_distinct _ _ (Nat.le_refl _) (by simpa using hdist)
        obtain ⟨Γ', hrl, hm', hia, hal, hnew, hold⟩ :=
          hBs sc Γ [] [] hc hm hro.1 new hrb (by simp) hnd (by simp)
        have hc' : Corr env (new ++ sc) Γ' := by
          have := corr_mgr (corr_let hc new hal Γ'.binds hnew (fun n hn => by simpa using hold n hn)) Γ'.mgr
          have e : ({ Γ with binds := Γ'.binds, mgr := Γ'.mgr } : PEnv) = Γ' := by
            cases Γ'; cases Γ; simp_all
          rw [← e]; exact this
        have hro2 := hro.2
        simp only [hrb] at hro2
        obtain ⟨σ', hbody, hm'', htok⟩ := hB (new ++ sc) Γ' false hc' hm' hro2 u τ h
        refine ⟨σ', ?_, hm'', htok⟩
        rw [rdVal_let]
        have hbne : ∃ b bs', bs = b :: bs' := by
          cases bs with
          | nil => simp [rdBindings] at hrb; subst hrb; simp at hne
          | cons b bs' => exact ⟨b, bs', rfl⟩
        obtain ⟨b, bs', rfl⟩ := hbne
        rw [rdLetForm]
        simp only [hrl, hbody]

end PySMT.Parser.Agree
