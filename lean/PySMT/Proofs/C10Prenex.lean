import PySMT.Proofs.C10Subst
import PySMT.Impl.Rewritings.Prenex
/-!
# C10 — `prenex_normal_form`: the result is a quantifier prefix over a quantifier-free matrix
-/
namespace PySMT.Rewritings

/-! ## quantifier-freeness without typing assumptions -/

theorem rebuild_qf' {op : Op} {args : List Term} {p : Payload} (hq : op.isQuantifier = false)
    (h : ∀ x ∈ args, x.isQF = true) : (rebuild op args p).isQF = true := by
  unfold rebuild
  split
  · exact isQF_mkNot (h _ (by simp))
  · exact isQF_mkAnd h
  · exact isQF_mkOr h
  · simp [Op.isQuantifier] at hq
  · simp [Op.isQuantifier] at hq
  · rw [isQF_node, hq]; simpa using h

theorem bodyMap_nonquant {σ : List (Term × Term)} {op : Op} (hq : op.isQuantifier = false) (p : Payload) :
    bodyMap σ op p = σ := by
  unfold bodyMap
  split <;> simp_all [Op.isQuantifier]

theorem substT_qf' {σ : List (Term × Term)} (hσ : ∀ kv ∈ σ, kv.2.isQF = true) :
    (t : Term) → t.isQF = true → (substT σ t).isQF = true
  | .node op args p => fun h => by
    rw [isQF_node] at h
    simp only [Bool.and_eq_true, Bool.not_eq_eq_eq_not, Bool.not_true, List.all_eq_true] at h
    rw [substT]
    cases hl : lookupT σ (.node op args p) with
    | some r => exact hσ _ (lookupT_mem hl)
    | none =>
      simp only [bodyMap_nonquant h.1]
      refine rebuild_qf' h.1 (fun x hx => ?_)
      obtain ⟨a, ha, rfl⟩ := List.mem_map.mp hx
      exact substT_qf' hσ a (h.2 a ha)

theorem isQF_sym (s : Sym) : (Term.sym s).isQF = true := by rw [Term.sym, isQF_node]; rfl

/-! ## the matrix stays quantifier-free -/

/-- the matrix of a walker result is quantifier-free -/
def QFRes : PRes → Prop
  | some r => r.2.isQF = true
  | none => True

theorem mergeBlocks_qf (fresh : Nat → String) : ∀ (qs : List QBlock) (res : List Sym) (m : Term) (n : Nat),
    m.isQF = true → (mergeBlocks fresh qs res m n).2.2.1.isQF = true
  | [], _, _, _, h => h
  | (q, vs) :: rest, res, m, n, h => by
    simp only [mergeBlocks]
    apply mergeBlocks_qf fresh rest
    split
    · exact h
    · refine substT_qf' (fun kv hkv => ?_) m h
      simp only [List.mem_map] at hkv
      obtain ⟨_, _, rfl⟩ := hkv
      exact isQF_sym _

theorem mergeArgs_qf (fresh : Nat → String) : ∀ (args : List (List QBlock × Term)) (res : List Sym) (n : Nat),
    (∀ a ∈ args, a.2.isQF = true) → ∀ m ∈ (mergeArgs fresh args res n).2.1, m.isQF = true
  | [], _, _, _ => by simp [mergeArgs]
  | (qs, m) :: rest, res, n, h => by
    intro x hx
    simp only [mergeArgs, List.mem_cons] at hx
    rcases hx with rfl | hx
    · exact mergeBlocks_qf fresh qs res m n (h (qs, m) (by simp))
    · exact mergeArgs_qf fresh rest _ _ (fun a ha => h a (by simp [ha])) x hx

theorem conjDisj_qf (fresh : Nat → String) (isAnd : Bool) (fvs : List Sym) (args : List (List QBlock × Term))
    (n : Nat) (h : ∀ a ∈ args, a.2.isQF = true) : (conjDisj fresh isAnd fvs args n).1.2.isQF = true := by
  simp only [conjDisj]
  split
  · exact isQF_mkAnd (mergeArgs_qf fresh args fvs n h)
  · exact isQF_mkOr (mergeArgs_qf fresh args fvs n h)

theorem prenexNot_qf {r : List QBlock × Term} (h : r.2.isQF = true) : (prenexNot r).2.isQF = true :=
  isQF_mkNot h

theorem pair_qf {x y : List QBlock × Term} (hx : x.2.isQF = true) (hy : y.2.isQF = true) :
    ∀ a ∈ [x, y], a.2.isQF = true := by
  intro a ha
  simp only [List.mem_cons, List.not_mem_nil, or_false] at ha
  rcases ha with rfl | rfl
  · exact hx
  · exact hy

theorem prenexImplies_qf (fresh : Nat → String) (fvs : List Sym) {ra rb : List QBlock × Term} (n : Nat)
    (ha : ra.2.isQF = true) (hb : rb.2.isQF = true) : (prenexImplies fresh fvs ra rb n).1.2.isQF = true :=
  conjDisj_qf fresh false fvs _ n (pair_qf (prenexNot_qf ha) hb)

theorem prenexQuant_qf (isExists : Bool) (vs : List Sym) {rb : List QBlock × Term} (h : rb.2.isQF = true) :
    (prenexQuant isExists vs rb).2.isQF = true := by
  unfold prenexQuant
  simp only
  split <;> exact h

theorem allSome_mem {α} : ∀ {rs : List (Option α)} {as : List α}, allSome rs = some as → ∀ a ∈ as, some a ∈ rs
  | [], as, h, a, ha => by simp [allSome] at h; subst h; cases ha
  | none :: _, _, h, _, _ => by simp [allSome] at h
  | some x :: rest, as, h, a, ha => by
    simp only [allSome, Option.map_eq_some_iff] at h
    obtain ⟨as', h', rfl⟩ := h
    simp only [List.mem_cons] at ha ⊢
    rcases ha with rfl | ha
    · exact .inl rfl
    · exact .inr (allSome_mem h' a ha)

/-- is the operator looked into by the prenex walker? -/
def prenexConn : Op → Bool
  | .and | .or | .not | .implies | .iff | .ite | .forall_ | .exists_ => true
  | _ => false

theorem prenexNode_qf (fresh : Nat → String) (op : Op) (args : List Term) (p : Payload) (rs : List PRes) (n : Nat)
    (hrs : ∀ r ∈ rs, QFRes r) (hatom : prenexConn op = false → (Term.node op args p).isQF = true) :
    QFRes (prenexNode fresh op args p rs n).1 := by
  have hsome : ∀ {x : List QBlock × Term}, some x ∈ rs → x.2.isQF = true := fun hx => hrs _ hx
  unfold prenexNode
  split
  · simp only; split
    · exact hatom rfl
    · trivial
  · exact hatom rfl
  · simp only; split
    · next as has => exact conjDisj_qf fresh true _ as n (fun a ha => hsome (allSome_mem has a ha))
    · trivial
  · simp only; split
    · next as has => exact conjDisj_qf fresh false _ as n (fun a ha => hsome (allSome_mem has a ha))
    · trivial
  · exact prenexNot_qf (hsome (by simp))
  · exact prenexImplies_qf fresh _ n (hsome (by simp)) (hsome (by simp))
  · exact conjDisj_qf fresh true _ _ _ (pair_qf
      (prenexImplies_qf fresh _ n (hsome (by simp)) (hsome (by simp)))
      (prenexImplies_qf fresh _ _ (hsome (by simp)) (hsome (by simp))))
  · exact conjDisj_qf fresh true _ _ _ (pair_qf
      (prenexImplies_qf fresh _ n (hsome (by simp)) (hsome (by simp)))
      (prenexImplies_qf fresh _ _ (prenexNot_qf (hsome (by simp))) (hsome (by simp))))
  · simp only; split
    · exact hatom rfl
    · trivial
  · exact prenexQuant_qf false _ (hsome (by simp))
  · exact prenexQuant_qf true _ (hsome (by simp))
  all_goals first
    | exact hatom rfl
    | (simp only; split <;> first | exact hatom rfl | trivial)
    | trivial

/-- the Boolean connectives and binders the fragment predicate looks through -/
def boolConn : Op → Bool
  | .and | .or | .not | .implies | .iff | .forall_ | .exists_ => true
  | _ => false

theorem qibp_conn {op : Op} (h : boolConn op = true) (args : List Term) (p : Payload) :
    quantInBoolPos (.node op args p) = (args.map quantInBoolPos).all id := by
  cases op <;> simp [boolConn] at h <;> rw [quantInBoolPos]

theorem qibp_ite (args : List Term) (p : Payload) :
    quantInBoolPos (.node .ite args p) =
      if (Term.node .ite args p).typeOf == some .bool then (args.map quantInBoolPos).all id
      else (Term.node .ite args p).isQF := by
  rw [quantInBoolPos]

theorem qibp_other {op : Op} (h : prenexConn op = false) (args : List Term) (p : Payload) :
    quantInBoolPos (.node op args p) = (Term.node op args p).isQF := by
  cases op <;> simp [prenexConn] at h <;> (rw [quantInBoolPos] <;> simp)

theorem conn_cases (op : Op) : boolConn op = true ∨ op = .ite ∨ prenexConn op = false := by
  cases op <;> simp [boolConn, prenexConn]

/-- a quantifier-free term has its (non-existent) quantifiers in Boolean positions -/
theorem qf_quantInBoolPos : (t : Term) → t.isQF = true → quantInBoolPos t = true
  | .node op args p => fun h => by
    have hn := h
    rw [isQF_node] at hn
    simp only [Bool.and_eq_true, Bool.not_eq_eq_eq_not, Bool.not_true, List.all_eq_true] at hn
    have hall : (args.map quantInBoolPos).all id = true := by
      simp only [List.all_eq_true, List.mem_map, id]
      rintro _ ⟨a, ha, rfl⟩
      exact qf_quantInBoolPos a (hn.2 a ha)
    rcases conn_cases op with hc | rfl | hc
    · rw [qibp_conn hc]; exact hall
    · rw [qibp_ite]; split
      · exact hall
      · exact h
    · rw [qibp_other hc]; exact h

theorem quantInBoolPos_child {op : Op} {args : List Term} {p : Payload}
    (h : quantInBoolPos (.node op args p) = true) : ∀ a ∈ args, quantInBoolPos a = true := by
  intro a ha
  have hall : (args.map quantInBoolPos).all id = true → quantInBoolPos a = true := by
    intro h'
    simp only [List.all_eq_true, List.mem_map, id] at h'
    exact h' _ ⟨a, ha, rfl⟩
  have hqf : (Term.node op args p).isQF = true → quantInBoolPos a = true := by
    intro h'
    rw [isQF_node] at h'
    simp only [Bool.and_eq_true, List.all_eq_true] at h'
    exact qf_quantInBoolPos a (h'.2 a ha)
  rcases conn_cases op with hc | rfl | hc
  · rw [qibp_conn hc] at h; exact hall h
  · rw [qibp_ite] at h
    split at h
    · exact hall h
    · exact hqf h
  · rw [qibp_other hc] at h; exact hqf h

theorem quantInBoolPos_atom {op : Op} {args : List Term} {p : Payload}
    (h : quantInBoolPos (.node op args p) = true) (hc : prenexConn op = false) :
    (Term.node op args p).isQF = true := by
  rw [qibp_other hc] at h; exact h

mutual
theorem prenexW_qf (fresh : Nat → String) : (t : Term) → ∀ n : Nat, quantInBoolPos t = true →
    QFRes (prenexW fresh t n).1
  | .node op args p, n, h => by
    rw [prenexW]
    exact prenexNode_qf fresh op args p _ _
      (prenexL_qf fresh args n (quantInBoolPos_child h))
      (fun hc => quantInBoolPos_atom h hc)
theorem prenexL_qf (fresh : Nat → String) : (ts : List Term) → ∀ n : Nat,
    (∀ t ∈ ts, quantInBoolPos t = true) → ∀ r ∈ (prenexL fresh ts n).1, QFRes r
  | [], _, _ => by simp [prenexL]
  | a :: as, n, h => by
    intro r hr
    simp only [prenexL, List.mem_cons] at hr
    rcases hr with rfl | hr
    · exact prenexW_qf fresh a n (h a (by simp))
    · exact prenexL_qf fresh as _ (fun t ht => h t (by simp [ht])) r hr
end

/-! ## the prefix -/

theorem stripPrefix_mkForall (vs : List Sym) (b : Term) : stripPrefix (mkForall vs b) = stripPrefix b := by
  unfold mkForall; split
  · rfl
  · rw [stripPrefix]

theorem stripPrefix_mkExists (vs : List Sym) (b : Term) : stripPrefix (mkExists vs b) = stripPrefix b := by
  unfold mkExists; split
  · rfl
  · rw [stripPrefix]

theorem stripPrefix_wrap : ∀ (qs : List QBlock) (m : Term), stripPrefix (wrapBlocks qs m) = stripPrefix m
  | [], _ => rfl
  | (q, vs) :: rest, m => by
    have := stripPrefix_wrap rest (if q then mkExists vs m else mkForall vs m)
    simp only [wrapBlocks, List.foldl_cons] at this ⊢
    rw [this]
    split
    · exact stripPrefix_mkExists vs m
    · exact stripPrefix_mkForall vs m

theorem stripPrefix_qf : (m : Term) → m.isQF = true → stripPrefix m = m
  | .node op args p, h => by
    rw [isQF_node] at h
    simp only [Bool.and_eq_true, Bool.not_eq_eq_eq_not, Bool.not_true] at h
    unfold stripPrefix
    split <;> simp_all [Op.isQuantifier]

/-- **`prenex_shape`**: a quantifier prefix over a quantifier-free matrix -/
theorem prenex_shape (fresh : Nat → String) (t r : Term) (hq : quantInBoolPos t = true)
    (h : prenex fresh t = some r) : isPrenex r = true := by
  unfold prenex at h
  have hqf := prenexW_qf fresh t 0 hq
  cases hw : (prenexW fresh t 0).1 with
  | none => rw [hw] at h; cases h
  | some x =>
    rw [hw] at h hqf
    simp only [Option.map_some, Option.some.injEq] at h
    subst h
    unfold isPrenex
    rw [stripPrefix_wrap, stripPrefix_qf _ hqf]
    exact hqf

end PySMT.Rewritings
