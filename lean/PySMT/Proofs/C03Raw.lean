import PySMT.Impl.CreateNode
/-!
# C03 — `typeOfNode` is the real checker's rule on every node of the operator's arity

`CreateNode.pyNode` transcribes `SimpleTypeChecker` including its behaviour on raw nodes with a
wrong number of arguments (extra arguments ignored, `IndexError` on none, dangling array key,
binder list). `pyNode_eq_typeOfNode`: on a node that has the arity of its operator — every
node a constructor builds — and, for a quantifier, a binder list of plain symbols, the two agree.
-/
namespace PySMT
namespace C03
open CreateNode

theorem chkPy_eq_chk (idx d : Ty) : ∀ (l : List (Option Ty)), l.length % 2 = 0 → chkPy idx d l = typeOfNode.chk idx d l
  | [], _ => rfl
  | [_], h => by simp at h
  | k :: v :: more, h => by
    have h' : more.length % 2 = 0 := by simp only [List.length_cons] at h; omega
    simp only [chkPy, typeOfNode.chk, chkPy_eq_chk idx d more h']

local macro "unfold_ar " h:ident : tactic =>
  `(tactic| simp only [arityOk, beq_iff_eq, decide_eq_true_eq] at $h:ident)

local macro "optcases " a:ident : tactic =>
  `(tactic| (rcases $a:ident with _ | $a:ident <;> try rfl))

set_option maxHeartbeats 1000000 in
/-- **Boundary theorem.** On nodes of the operator's arity (children that type-check, binder lists of plain
symbols, no payload elements beyond the ones read) `typeOfNode` is exactly the rule of the real checker. -/
theorem pyNode_eq_typeOfNode (op : Op) (p : Payload) (ts : List (Option Ty))
    (har : arityOk op ts.length = true) (hq : rawPayloadOk op p = true)
    (hs : ∀ t ∈ ts, t.isSome = true) :
    pyNode op p ts = typeOfNode op p ts := by
  cases op
  case bvConcat =>
    unfold_ar har
    rcases ts with _ | ⟨a, _ | ⟨b, _ | ⟨c, r⟩⟩⟩ <;> simp at har
    cases p <;> try rfl
    rename_i l
    cases l <;> try rfl
    optcases a
    cases a <;> try rfl
    optcases b
    cases b <;> rfl
  case bvExtract =>
    unfold_ar har
    rcases ts with _ | ⟨a, _ | ⟨b, r⟩⟩ <;> simp at har
    cases p <;> try rfl
    rename_i l
    rcases l with _ | ⟨w, _ | ⟨lo, _ | ⟨hi, _ | ⟨e, l⟩⟩⟩⟩ <;> try rfl
    · optcases a
      cases a <;> rfl
    · simp [rawPayloadOk] at hq
  case bvRol | bvRor =>
    unfold_ar har
    rcases ts with _ | ⟨a, _ | ⟨b, r⟩⟩ <;> simp at har
    cases p <;> try rfl
    rename_i l
    rcases l with _ | ⟨w, _ | ⟨k, _ | ⟨e, l⟩⟩⟩ <;> try rfl
    · optcases a
      cases a <;> rfl
    · simp [rawPayloadOk] at hq
  case ite =>
    unfold_ar har
    rcases ts with _ | ⟨a, _ | ⟨b, _ | ⟨c, _ | ⟨d, r⟩⟩⟩⟩ <;> simp at har
    optcases a
    cases a <;> try rfl
    optcases b
    optcases c
    simp [pyNode]
    rfl
  case arraySelect =>
    unfold_ar har
    rcases ts with _ | ⟨a, _ | ⟨b, _ | ⟨c, r⟩⟩⟩ <;> simp at har
    optcases a
    cases a <;> try rfl
    optcases b
    simp [pyNode]
    rfl
  case arrayStore =>
    unfold_ar har
    rcases ts with _ | ⟨a, _ | ⟨b, _ | ⟨c, _ | ⟨d, r⟩⟩⟩⟩ <;> simp at har
    optcases a
    cases a <;> try rfl
    optcases b
    optcases c
    simp [pyNode]
    rfl
  case pow =>
    unfold_ar har
    rcases ts with _ | ⟨a, _ | ⟨b, _ | ⟨c, r⟩⟩⟩ <;> simp at har
    rcases a with _ | a
    · have := hs none (by simp); simp at this
    rcases b with _ | b
    · have := hs none (by simp); simp at this
    simp [pyNode]
    rfl
  case arrayValue =>
    cases p <;> try rfl
    rcases ts with _ | ⟨d, rest⟩ <;> try rfl
    optcases d
    have hl : rest.length % 2 = 0 := by
      simp only [arityOk, List.length_cons, beq_iff_eq] at har; omega
    simp only [pyNode, chkPy_eq_chk _ _ rest hl]
    rfl
  case le | lt =>
    unfold_ar har
    rcases ts with _ | ⟨a, r⟩ <;> simp at har
    rfl
  case function =>
    cases p <;> try rfl
    rename_i f
    simp only [pyNode]
    split
    · next he =>
      -- a constant "applied": the arity (≥ 1) rules out the only case typeOfNode accepts
      rcases ts with _ | ⟨a, r⟩
      · simp [arityOk] at har
      · have hp : f.params = [] := by simpa using he
        have e : typeOfNode .function (.sym f) (a :: r) =
            if (a :: r).length = f.params.length ∧ (a :: r) = f.params.map some then some f.ret else none := rfl
        rw [e, hp]; simp
    · rfl
  case forall_ | exists_ =>
    unfold_ar har
    rcases ts with _ | ⟨a, _ | ⟨b, r⟩⟩ <;> simp at har
    cases p <;> simp [rawPayloadOk] at hq
    optcases a
    cases a <;> try rfl
    all_goals (simp only [pyNode]; rw [if_pos (by simpa using hq)]; rfl)
  all_goals rfl

theorem arityOkAll_node (op : Op) (args : List Term) (p : Payload) :
    (Term.node op args p).arityOkAll = true ↔
      (∀ a ∈ args, a.arityOkAll = true) ∧ arityOk op args.length = true ∧ rawPayloadOk op p = true := by
  rw [Term.arityOkAll.eq_def]
  simp only [Bool.and_eq_true, List.all_eq_true, List.mem_map, id]
  constructor
  · rintro ⟨⟨h1, h2⟩, h3⟩; exact ⟨fun a ha => h1 _ ⟨a, ha, rfl⟩, h2, h3⟩
  · rintro ⟨h1, h2, h3⟩
    refine ⟨⟨?_, h2⟩, h3⟩
    rintro _ ⟨a, ha, rfl⟩
    exact h1 a ha

theorem wtRaw_node (op : Op) (args : List Term) (p : Payload) :
    (Term.node op args p).wtRaw = true ↔
      (∀ a ∈ args, a.wtRaw = true) ∧ (pyNode op p (args.map Term.typeOfRaw)).isSome = true := by
  rw [Term.wtRaw.eq_def]
  simp only [Bool.and_eq_true, List.all_eq_true, List.mem_map, id]
  constructor
  · rintro ⟨h1, h2⟩; exact ⟨fun a ha => h1 _ ⟨a, ha, rfl⟩, h2⟩
  · rintro ⟨h1, h2⟩
    refine ⟨?_, h2⟩
    rintro _ ⟨a, ha, rfl⟩
    exact h1 a ha

theorem wt_node' (op : Op) (args : List Term) (p : Payload) :
    (Term.node op args p).wt = true ↔
      (∀ a ∈ args, a.wt = true) ∧ (typeOfNode op p (args.map Term.typeOf)).isSome = true := by
  rw [Term.wt.eq_def]
  simp only [Bool.and_eq_true, List.all_eq_true, List.mem_map, id]
  constructor
  · rintro ⟨h1, h2⟩; exact ⟨fun a ha => h1 _ ⟨a, ha, rfl⟩, h2⟩
  · rintro ⟨h1, h2⟩
    refine ⟨?_, h2⟩
    rintro _ ⟨a, ha, rfl⟩
    exact h1 a ha

theorem wtRaw_isSome : (t : Term) → t.wtRaw = true → t.typeOfRaw.isSome = true
  | .node op args p, h => by rw [Term.typeOfRaw.eq_def]; exact ((wtRaw_node op args p).1 h).2

theorem wt_isSome' : (t : Term) → t.wt = true → t.typeOf.isSome = true
  | .node op args p, h => by rw [Term.typeOf.eq_def]; exact ((wt_node' op args p).1 h).2

/-- on terms whose nodes all have their operator's arity, the model `typeOf`/`wt` IS the real
checker (`typeOfRaw`/`wtRaw`): accepted by one iff accepted by the other, with the same type -/
theorem raw_of_wt : (t : Term) → t.arityOkAll = true → t.wt = true → t.wtRaw = true ∧ t.typeOfRaw = t.typeOf
  | .node op args p, ha, hw => by
    obtain ⟨ha1, ha2, ha3⟩ := (arityOkAll_node op args p).1 ha
    obtain ⟨hw1, hw2⟩ := (wt_node' op args p).1 hw
    have ih : ∀ a ∈ args, a.wtRaw = true ∧ a.typeOfRaw = a.typeOf := fun a h => raw_of_wt a (ha1 a h) (hw1 a h)
    have hm : args.map Term.typeOfRaw = args.map Term.typeOf := List.map_congr_left (fun a h => (ih a h).2)
    have hs : ∀ t ∈ args.map Term.typeOf, t.isSome = true := by
      intro t ht; obtain ⟨a, h, rfl⟩ := List.mem_map.1 ht; exact wt_isSome' a (hw1 a h)
    have hn := pyNode_eq_typeOfNode op p (args.map Term.typeOf) (by simpa using ha2) ha3 hs
    refine ⟨(wtRaw_node op args p).2 ⟨fun a h => (ih a h).1, by rw [hm, hn]; exact hw2⟩, ?_⟩
    rw [Term.typeOfRaw.eq_def, Term.typeOf.eq_def]
    simp only [hm, hn]

theorem wt_of_raw : (t : Term) → t.arityOkAll = true → t.wtRaw = true → t.wt = true ∧ t.typeOfRaw = t.typeOf
  | .node op args p, ha, hw => by
    obtain ⟨ha1, ha2, ha3⟩ := (arityOkAll_node op args p).1 ha
    obtain ⟨hw1, hw2⟩ := (wtRaw_node op args p).1 hw
    have ih : ∀ a ∈ args, a.wt = true ∧ a.typeOfRaw = a.typeOf := fun a h => wt_of_raw a (ha1 a h) (hw1 a h)
    have hm : args.map Term.typeOfRaw = args.map Term.typeOf := List.map_congr_left (fun a h => (ih a h).2)
    have hs : ∀ t ∈ args.map Term.typeOf, t.isSome = true := by
      intro t ht; obtain ⟨a, h, rfl⟩ := List.mem_map.1 ht; exact wt_isSome' a (ih a h).1
    have hn := pyNode_eq_typeOfNode op p (args.map Term.typeOf) (by simpa using ha2) ha3 hs
    refine ⟨(wt_node' op args p).2 ⟨fun a h => (ih a h).1, by rw [← hn, ← hm]; exact hw2⟩, ?_⟩
    rw [Term.typeOfRaw.eq_def, Term.typeOf.eq_def]
    simp only [hm, hn]

end C03
end PySMT
