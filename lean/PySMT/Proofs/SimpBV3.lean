import PySMT.Proofs.SimpBVArith
/-!
# `RuleOK` for `walk_bv_concat`, `_extract`, `_zext`, `_sext`, `_rol`, `_ror`, `_tonatural` (every width)
-/
namespace PySMT.Simp.BVRules
open PySMT PySMT.Build PySMT.Simp

theorem map_typeOf_one {args : List Term} {t : Option Ty} (h : args.map Term.typeOf = [t]) :
    ∃ a, args = [a] ∧ a.typeOf = t := by
  match args, h with
  | [a], h =>
    simp only [List.map_cons, List.map_nil, List.cons.injEq, and_true] at h
    exact ⟨a, rfl, h⟩

theorem map_typeOf_two {args : List Term} {t u : Option Ty} (h : args.map Term.typeOf = [t, u]) :
    ∃ a b, args = [a, b] ∧ a.typeOf = t ∧ b.typeOf = u := by
  match args, h with
  | [a, b], h =>
    simp only [List.map_cons, List.map_nil, List.cons.injEq, and_true] at h
    exact ⟨a, b, rfl, h.1, h.2⟩

/-! ## `bvConcat` -/

theorem walkBvConcat_ok : RuleOK .bvConcat walkBvConcat := by
  refine RuleOK.of_res fun p args τ hwf hty _ => ?_
  have hty0 := hty
  rw [typeOf_node] at hty
  obtain ⟨l, r, hts, rfl⟩ := typeOfNode_bvConcat hty
  obtain ⟨a, b, rfl, ta, tb⟩ := map_typeOf_two hts
  have wa := wf_args hwf a (by simp)
  have wb := wf_args hwf b (by simp)
  have hev : ∀ I : Interp, I.WF → eval I (.node .bvConcat [a, b] p) =
      .bv (l + r) (bvVal I a <<< r ||| bvVal I b) := by
    intro I hI
    rw [eval_args2 I .bvConcat a b p (by simp) (by simp) rfl, (bvVal_spec wa ta hI).1, (bvVal_spec wb tb hI).1]
    show Val.bv (l + r) (BitVec.ofNat l (bvVal I a) ++ BitVec.ofNat r (bvVal I b)).toNat = _
    rw [BitVec.toNat_append, ofNat_toNat_lt (bvVal_spec wa ta hI).2, ofNat_toNat_lt (bvVal_spec wb tb hI).2]
  show Res _ _ (walkBvConcat p [a, b])
  unfold walkBvConcat
  simp only [bvWidth_of ta, bvWidth_of tb]
  split
  · next v0 v1 h1 h2 =>
    obtain ⟨rfl, hl⟩ := const_of h1 wa ta
    obtain ⟨rfl, hr⟩ := const_of h2 wb tb
    rw [show r + l = l + r from Nat.add_comm r l]
    have hval : ∀ I : Interp, I.WF → eval I (.node .bvConcat [Term.bvc v0 l, Term.bvc v1 r] p) =
        .bv (l + r) (2 ^ r * v0 + v1) := by
      intro I hI
      rw [hev I hI, bvVal_bvc, bvVal_bvc, concat_arith hr]
    refine Res.bvc ?_ hval
    have := eval_hasSort _ hwf _ hty0 I0 I0_wf
    rw [hval I0 I0_wf] at this
    simpa [Val.hasSort] using this
  · unfold bvConcat_
    rw [bvWidth_of ta, bvWidth_of tb]
    refine Res.rebuild (by simp) (by simp) rfl hwf ?_ rfl (fun I => rfl)
    rw [typeOf_node]
    simp only [List.map_cons, List.map_nil, ta, tb]
    show (if l + r = l + r then some (Ty.bv (l + r)) else none) = _
    rw [if_pos rfl]

/-! ## `bvExtract` -/

theorem walkBvExtract_ok : RuleOK .bvExtract walkBvExtract := by
  refine RuleOK.of_res fun p args τ hwf hty _ => ?_
  have hty0 := hty
  rw [typeOf_node] at hty
  obtain ⟨wp, lo, hi, base, rfl, hts, rfl, hsum⟩ := typeOfNode_bvExtract hty
  obtain ⟨a, rfl, ta⟩ := map_typeOf_one hts
  have wa := wf_args hwf a (by simp)
  have hs := wf_shape hwf
  have hle : lo ≤ hi := by simpa [Op.shapeOK] using hs
  have e1 : hi + 1 - lo = wp := by omega
  have e2 : hi - lo + 1 = wp := by omega
  show Res _ _ (walkBvExtract (.ints [wp, lo, hi]) [a])
  unfold walkBvExtract
  simp only [pk, pe, e1]
  split
  · next v h1 =>
    obtain ⟨rfl, hv⟩ := const_of h1 wa ta
    refine Res.bvc (Nat.mod_lt _ (Nat.two_pow_pos wp)) fun I hI => ?_
    rw [eval_args1 I .bvExtract _ _ (by simp) (by simp) rfl, eval_bvc]
    show Val.bv (hi - lo + 1) (BitVec.extractLsb' lo (hi - lo + 1) (BitVec.ofNat base v)).toNat = _
    rw [BitVec.extractLsb'_toNat, ofNat_toNat_lt hv, e2]
  · unfold bvExtract_
    rw [e2]
    exact Res.self hwf hty0

/-! ## `bvRol`, `bvRor` -/

theorem rot_inv {op : Op} (hop : op = .bvRol ∨ op = .bvRor) {p : Payload} {args : List Term} {τ : Ty}
    (hty : (Term.node op args p).typeOf = some τ) :
    ∃ w k a, p = .ints [w, k] ∧ args = [a] ∧ τ = .bv w ∧ a.typeOf = some (.bv w) ∧ k ≤ w := by
  rw [typeOf_node] at hty
  obtain ⟨w, k, rfl, hts, rfl⟩ := typeOfNode_bvRot op hop hty
  obtain ⟨a, rfl, ta⟩ := map_typeOf_one hts
  refine ⟨w, k, a, rfl, rfl, rfl, ta, ?_⟩
  rw [hts] at hty
  have h' : (if w < k then none else if w ≠ w then none else some (Ty.bv w)) = some (Ty.bv w) := by
    rcases hop with rfl | rfl <;> exact hty
  by_cases hk : w < k
  · rw [if_pos hk] at h'; cases h'
  · omega

theorem walkBvRor_ok : RuleOK .bvRor walkBvRor := by
  refine RuleOK.of_res fun p args τ hwf hty _ => ?_
  obtain ⟨w, k, a, rfl, rfl, rfl, ta, hk⟩ := rot_inv (Or.inr rfl) hty
  have wa := wf_args hwf a (by simp)
  show Res _ _ (walkBvRor (.ints [w, k]) [a])
  unfold walkBvRor
  simp only [pk, bvWidth_of ta]
  split
  · next v h1 =>
    obtain ⟨rfl, hv⟩ := const_of h1 wa ta
    have hval : ∀ I : Interp, I.WF → eval I (.node .bvRor [Term.bvc v w] (.ints [w, k])) =
        .bv w ((v >>> min k w) + (v % 2 ^ (min k w)) * 2 ^ (w - min k w)) := by
      intro I hI
      rw [eval_args1 I .bvRor _ _ (by simp) (by simp) rfl, eval_bvc]
      show Val.bv w ((BitVec.ofNat w v).rotateRight k).toNat = _
      rw [BitVec.toNat_rotateRight, ofNat_toNat_lt hv, ror_arith hv hk]
    refine Res.bvc ?_ hval
    have := eval_hasSort _ hwf _ hty I0 I0_wf
    rw [hval I0 I0_wf] at this
    simpa [Val.hasSort] using this
  · unfold bvRor_
    rw [bvWidth_of ta]
    exact Res.self hwf hty

theorem walkBvRol_ok : RuleOK .bvRol walkBvRol := by
  refine RuleOK.of_res fun p args τ hwf hty _ => ?_
  obtain ⟨w, k, a, rfl, rfl, rfl, ta, hk⟩ := rot_inv (Or.inl rfl) hty
  have wa := wf_args hwf a (by simp)
  show Res _ _ (walkBvRol (.ints [w, k]) [a])
  unfold walkBvRol
  simp only [pk, bvWidth_of ta]
  split
  · next v h1 =>
    obtain ⟨rfl, hv⟩ := const_of h1 wa ta
    have hval : ∀ I : Interp, I.WF → eval I (.node .bvRol [Term.bvc v w] (.ints [w, k])) =
        .bv w ((v >>> (if k = 0 then 0 else w - k)) + (v % 2 ^ (if k = 0 then 0 else w - k)) *
          2 ^ (w - (if k = 0 then 0 else w - k))) := by
      intro I hI
      rw [eval_args1 I .bvRol _ _ (by simp) (by simp) rfl, eval_bvc]
      show Val.bv w ((BitVec.ofNat w v).rotateLeft k).toNat = _
      rw [BitVec.toNat_rotateLeft, ofNat_toNat_lt hv, rol_arith hv hk]
    refine Res.bvc ?_ hval
    have := eval_hasSort _ hwf _ hty I0 I0_wf
    rw [hval I0 I0_wf] at this
    simpa [Val.hasSort] using this
  · unfold bvRol_
    rw [bvWidth_of ta]
    exact Res.self hwf hty

/-! ## `bvZext`, `bvSext` (entries guarded by `extGuard`) -/

theorem extGuard_inv {p : Payload} {ts : List (Option Ty)} (h : extGuard p ts = true) :
    ∃ k a, p = .ints [a + k, k] ∧ ts = [some (.bv a)] := by
  unfold extGuard at h
  split at h
  · next w k a =>
    have : w = a + k := by simpa using h
    subst this
    exact ⟨k, a, rfl, rfl⟩
  · cases h

theorem ext_inv {op : Op} (hop : op = .bvZext ∨ op = .bvSext) {p : Payload} {args : List Term} {τ : Ty}
    (hty : (Term.node op args p).typeOf = some τ) (hg : extGuard p (args.map Term.typeOf) = true) :
    ∃ k wa a, p = .ints [wa + k, k] ∧ args = [a] ∧ τ = .bv (wa + k) ∧ a.typeOf = some (.bv wa) := by
  obtain ⟨k, wa, rfl, hts⟩ := extGuard_inv hg
  obtain ⟨a, rfl, ta⟩ := map_typeOf_one hts
  rw [typeOf_node, hts] at hty
  have h' : (if wa + k < wa then none else some (Ty.bv (wa + k))) = some τ := by
    rcases hop with rfl | rfl <;> exact hty
  rw [if_neg (by omega)] at h'
  cases h'
  exact ⟨k, wa, a, rfl, rfl, rfl, ta⟩

theorem walkBvZext_ok : RuleOK .bvZext { rule := walkBvZext, guard := extGuard } := by
  refine RuleOK.of_res fun p args τ hwf hty hg => ?_
  obtain ⟨k, wa, a, rfl, rfl, rfl, ta⟩ := ext_inv (Or.inl rfl) hty hg
  have wfa := wf_args hwf a (by simp)
  show Res _ _ (walkBvZext (.ints [wa + k, k]) [a])
  unfold walkBvZext
  simp only [pk, pw]
  have hle : 2 ^ wa ≤ 2 ^ (wa + k) := Nat.pow_le_pow_right (by decide) (Nat.le_add_right wa k)
  split
  · next v h1 =>
    obtain ⟨rfl, hv⟩ := const_of h1 wfa ta
    refine Res.bvc (Nat.lt_of_lt_of_le hv hle) fun I hI => ?_
    rw [eval_args1 I .bvZext _ _ (by simp) (by simp) rfl, eval_bvc]
    show Val.bv (wa + k) (BitVec.setWidth (wa + k) (BitVec.ofNat wa v)).toNat = _
    rw [BitVec.toNat_setWidth, ofNat_toNat_lt hv, Nat.mod_eq_of_lt (Nat.lt_of_lt_of_le hv hle)]
  · unfold bvZext_
    rw [bvWidth_of ta]
    exact Res.self hwf hty

theorem walkBvSext_ok : RuleOK .bvSext { rule := walkBvSext, guard := extGuard } := by
  refine RuleOK.of_res fun p args τ hwf hty hg => ?_
  obtain ⟨k, wa, a, rfl, rfl, rfl, ta⟩ := ext_inv (Or.inr rfl) hty hg
  have wfa := wf_args hwf a (by simp)
  show Res _ _ (walkBvSext (.ints [wa + k, k]) [a])
  unfold walkBvSext
  simp only [pk, pw, bvWidth_of ta]
  split
  · next v h1 =>
    obtain ⟨rfl, hv⟩ := const_of h1 wfa ta
    have hval : ∀ I : Interp, I.WF → eval I (.node .bvSext [Term.bvc v wa] (.ints [wa + k, k])) =
        .bv (wa + k) ((if v.testBit (wa - 1) then (2 ^ k - 1) * 2 ^ wa else 0) + v) := by
      intro I hI
      rw [eval_args1 I .bvSext _ _ (by simp) (by simp) rfl, eval_bvc]
      show Val.bv (wa + k) (BitVec.signExtend (wa + k) (BitVec.ofNat wa v)).toNat = _
      rw [sext_arith hv]
    refine Res.bvc ?_ hval
    have := eval_hasSort _ hwf _ hty I0 I0_wf
    rw [hval I0 I0_wf] at this
    simpa [Val.hasSort] using this
  · unfold bvSext_
    rw [bvWidth_of ta]
    exact Res.self hwf hty

/-! ## `bvToNatural` -/

theorem walkBvToNatural_ok : RuleOK .bvToNatural walkBvToNatural := by
  refine RuleOK.of_res fun p args τ hwf hty _ => ?_
  have hs := wf_shape hwf
  simp only [Op.shapeOK, beq_iff_eq] at hs
  match args, hs, hwf, hty with
  | [a], _, hwf, hty =>
    have hty0 := hty
    rw [typeOf_node] at hty
    obtain ⟨rfl, w, r, hts⟩ := typeOfNode_bvToNatural hty
    simp only [List.map_cons, List.map_nil, List.cons.injEq] at hts
    have ta := hts.1
    have wa := wf_args hwf a (by simp)
    show Res _ _ (walkBvToNatural p [a])
    unfold walkBvToNatural
    simp only
    split
    · next v h1 =>
      obtain ⟨rfl, hv⟩ := const_of h1 wa ta
      refine Res.int _ fun I hI _ => ?_
      rw [eval_args1 I .bvToNatural _ _ (by simp) (by simp) rfl, eval_bvc]
      show Val.i ((v % 2 ^ w : Nat) : Int) = _
      rw [Nat.mod_eq_of_lt hv]
    · unfold bvToNatural_
      refine Res.rebuild (by simp) (by simp) rfl hwf ?_ rfl (fun I => rfl)
      rw [typeOf_node]
      simp only [List.map_cons, List.map_nil, ta]
      rfl

end PySMT.Simp.BVRules
