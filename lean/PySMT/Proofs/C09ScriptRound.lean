import PySMT.Proofs.C09Script3
import PySMT.Proofs.C09RotDag2
import PySMT.Proofs.C07Example
/-!
# C09: the script of a formula, DAG form, without the restriction on rotations; a concrete instance of the hypotheses
-/
namespace PySMT.Parser.Agree
open PySMT PySMT.Parser PySMT.Std PySMT.Sexp PySMT.Printer

/-- **Print → parse round trip for the script of a formula, DAG form** (`serialize(daggify=True)`, pySMT's default), for
quantifier-free formulas. -/
theorem script_print_parse_dag (logic : String) (ρ : List (String × Sym)) (t : Term)
    (hs : ScriptOK logic t = true) (hl : logicOK logic = true) (henv : envOK (scriptEnv logic t) = true)
    (hρ : ∀ s ∈ t.fv.eraseDups, ρ.lookup s.name = some s) (hdf : defFree (scriptEnv logic t))
    (hq : noQuant t = true) (hQ : parseOK (scriptEnv logic t) ρ t = true) (hN : mgrNormal t = true) :
    script PEnv.init (scriptOfFormula logic true t)
      = .ok ([Command.setLogic ((logicEntry logic).map (·.1))]
          ++ (sortDecls t).map (fun d => Command.declareSort d.1 d.2)
          ++ t.fv.eraseDups.map (Command.declare "declare-fun")
          ++ [Command.assert (unfoldAVw false t), Command.plain "check-sat" []]) := by
  obtain ⟨hbool, hP⟩ := scriptOK_parts hs
  have hrd := Printer.readStd_toSexpDag (scriptEnv logic t) t (dagOK_of_printable' _ t hP hq)
  have hτ : tyD t = .bool := by simp [tyD, hbool]
  rw [hτ] at hrd
  simp only [readStdTy, List.reverse_nil, List.map_nil] at hrd
  have h := script_print_parse_text logic ρ t hs hl henv hρ (toSexpDag t) (unfoldAVw false t) hrd
    (fragS_toSexpDag _ ρ hdf t hP hq hQ) (rotOK_toSexpDag_full _ t hP hq)
  rw [mkNorm_of_normal _ (mgrNormal_unfold _ false t [] hP hN)] at h
  simp only [scriptOfFormula, if_true]
  exact h

/-! ## the hypotheses are satisfiable: C07's example `t1 = (<= |x y| (- 5))`, logic `QF_LIA` -/

theorem scriptEnv_t1 : scriptEnv "QF_LIA" C07.t1 = { logic := "QF_LIA", sorts := [], funs := [C07.x] } := by
  simp [scriptEnv, C07.fv_t1, C07.decls_t1]

theorem example_script_hyps :
    ScriptOK "QF_LIA" C07.t1 = true ∧ logicOK "QF_LIA" = true ∧ envOK (scriptEnv "QF_LIA" C07.t1) = true ∧
    (∀ s ∈ C07.t1.fv.eraseDups, [("x y", C07.x)].lookup s.name = some s) ∧ defFree (scriptEnv "QF_LIA" C07.t1) ∧
    noQuant C07.t1 = true ∧ parseOK (scriptEnv "QF_LIA" C07.t1) [("x y", C07.x)] C07.t1 = true ∧
    mgrNormal C07.t1 = true := by
  refine ⟨C07.scriptOK_t1, by decide +kernel, by rw [scriptEnv_t1]; decide, ?_, ?_, C07.noQuant_t1, ?_, ?_⟩
  · intro s hs
    rw [C07.fv_t1] at hs
    simp only [List.mem_singleton] at hs
    subst hs
    rfl
  · intro k
    rw [scriptEnv_t1]
    exact ⟨rfl, rfl⟩
  · simp [C07.t1, Term.sym, Term.int, parseOK, parseNodeOK]
  · simp [C07.t1, Term.sym, Term.int, mgrNormal, rootNorm]

end PySMT.Parser.Agree
