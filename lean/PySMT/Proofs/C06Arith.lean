import PySMT.Proofs.C06Bool
/-!
# C06 — arithmetic derived constructors: `GE/GT` (and `LE/LT`), `Plus/Times/Minus`, `Div` by a
constant, `ToReal`, `Abs`, and the generic halving recursion of `Min/Max/MinBV/MaxBV`.
-/
namespace PySMT.C06
open PySMT.Mk

/-! ## comparisons -/

theorem le_eval (I : Interp) {a b t : Term} (h : Mk.LE a b = .ok t) :
    eval I t = .b (Sem.le (eval I a) (eval I b)) := by
  rw [create_ok h]; simp [eval_op, evalOp]

theorem lt_eval (I : Interp) {a b t : Term} (h : Mk.LT a b = .ok t) :
    eval I t = .b (Sem.lt (eval I a) (eval I b)) := by
  rw [create_ok h]; simp [eval_op, evalOp]

theorem ge_eval (I : Interp) {a b t : Term} (h : Mk.GE a b = .ok t) :
    eval I t = .b (Sem.le (eval I b) (eval I a)) := by
  rw [create_ok h]; simp [eval_op, evalOp]

theorem gt_eval (I : Interp) {a b t : Term} (h : Mk.GT a b = .ok t) :
    eval I t = .b (Sem.lt (eval I b) (eval I a)) := by
  rw [create_ok h]; simp [eval_op, evalOp]

/-- **GE** denotes `≥` on integers and on reals -/
theorem ge_denotes (I : Interp) {a b t : Term} (h : Mk.GE a b = .ok t) :
    (∀ x y : Int, eval I a = .i x → eval I b = .i y → eval I t = .b (decide (x ≥ y))) ∧
    (∀ x y : Rat, eval I a = .r x → eval I b = .r y → eval I t = .b (decide (x ≥ y))) := by
  refine ⟨fun x y ha hb => ?_, fun x y ha hb => ?_⟩ <;> simp [ge_eval I h, ha, hb, Sem.le]

/-- **GT** denotes `>` on integers and on reals -/
theorem gt_denotes (I : Interp) {a b t : Term} (h : Mk.GT a b = .ok t) :
    (∀ x y : Int, eval I a = .i x → eval I b = .i y → eval I t = .b (decide (x > y))) ∧
    (∀ x y : Rat, eval I a = .r x → eval I b = .r y → eval I t = .b (decide (x > y))) := by
  refine ⟨fun x y ha hb => ?_, fun x y ha hb => ?_⟩ <;> simp [gt_eval I h, ha, hb, Sem.lt]

theorem le_denotes (I : Interp) {a b t : Term} (h : Mk.LE a b = .ok t) :
    (∀ x y : Int, eval I a = .i x → eval I b = .i y → eval I t = .b (decide (x ≤ y))) ∧
    (∀ x y : Rat, eval I a = .r x → eval I b = .r y → eval I t = .b (decide (x ≤ y))) := by
  refine ⟨fun x y ha hb => ?_, fun x y ha hb => ?_⟩ <;> simp [le_eval I h, ha, hb, Sem.le]

theorem lt_denotes (I : Interp) {a b t : Term} (h : Mk.LT a b = .ok t) :
    (∀ x y : Int, eval I a = .i x → eval I b = .i y → eval I t = .b (decide (x < y))) ∧
    (∀ x y : Rat, eval I a = .r x → eval I b = .r y → eval I t = .b (decide (x < y))) := by
  refine ⟨fun x y ha hb => ?_, fun x y ha hb => ?_⟩ <;> simp [lt_eval I h, ha, hb, Sem.lt]

/-! ## n-ary sum and product, difference, division by a constant, `ToReal` -/

theorem ite_eval (I : Interp) {c a b t : Term} (h : Mk.Ite c a b = .ok t) :
    eval I t = if truth I c then eval I a else eval I b := by
  rw [create_ok h, eval_op I .ite _ _ (by decide) (by decide) (by decide) (by decide)]
  simp only [evalOp, List.map, truth]
  split <;> simp_all

theorem minus_eval (I : Interp) {a b t : Term} (h : Mk.Minus a b = .ok t) :
    eval I t = Sem.sub (eval I a) (eval I b) := by
  rw [create_ok h]; simp [eval_op, evalOp]

theorem sum_ints (x : Int) (xs : List Int) :
    (xs.map Val.i).foldl Sem.add (.i x) = .i (xs.foldl (· + ·) x) := by
  induction xs generalizing x with
  | nil => rfl
  | cons y ys ih => simp [Sem.add, ih]

theorem sum_rats (x : Rat) (xs : List Rat) :
    (xs.map Val.r).foldl Sem.add (.r x) = .r (xs.foldl (· + ·) x) := by
  induction xs generalizing x with
  | nil => rfl
  | cons y ys ih => simp [Sem.add, ih]

theorem prod_ints (x : Int) (xs : List Int) :
    (xs.map Val.i).foldl Sem.mul (.i x) = .i (xs.foldl (· * ·) x) := by
  induction xs generalizing x with
  | nil => rfl
  | cons y ys ih => simp [Sem.mul, ih]

theorem prod_rats (x : Rat) (xs : List Rat) :
    (xs.map Val.r).foldl Sem.mul (.r x) = .r (xs.foldl (· * ·) x) := by
  induction xs generalizing x with
  | nil => rfl
  | cons y ys ih => simp [Sem.mul, ih]

/-- **Plus** (arity ≥ 1; arity 0 is an error): the sum of the arguments -/
theorem plus_denotes (I : Interp) {as : List Term} {t : Term} (h : Mk.Plus as = .ok t) :
    (∀ (x : Int) (xs : List Int), as.map (eval I) = (x :: xs).map Val.i →
        eval I t = .i (xs.foldl (· + ·) x)) ∧
    (∀ (x : Rat) (xs : List Rat), as.map (eval I) = (x :: xs).map Val.r →
        eval I t = .r (xs.foldl (· + ·) x)) := by
  unfold Mk.Plus at h
  split at h
  · cases h
  · cases h
    refine ⟨fun x xs hv => ?_, fun x xs hv => ?_⟩
    all_goals
      cases xs with
      | nil => simpa using hv
      | cons y ys => simp at hv
  · rw [create_ok h]
    refine ⟨fun x xs hv => ?_, fun x xs hv => ?_⟩
    · simp only [eval_op, evalOp, hv, ne_eq, reduceCtorEq, not_false_eq_true, List.map_cons, Sem.sum]
      exact sum_ints x xs
    · simp only [eval_op, evalOp, hv, ne_eq, reduceCtorEq, not_false_eq_true, List.map_cons, Sem.sum]
      exact sum_rats x xs

/-- **Times** (arity ≥ 1): the product of the arguments -/
theorem times_denotes (I : Interp) {as : List Term} {t : Term} (h : Mk.Times as = .ok t) :
    (∀ (x : Int) (xs : List Int), as.map (eval I) = (x :: xs).map Val.i →
        eval I t = .i (xs.foldl (· * ·) x)) ∧
    (∀ (x : Rat) (xs : List Rat), as.map (eval I) = (x :: xs).map Val.r →
        eval I t = .r (xs.foldl (· * ·) x)) := by
  unfold Mk.Times at h
  split at h
  · cases h
  · cases h
    refine ⟨fun x xs hv => ?_, fun x xs hv => ?_⟩
    all_goals
      cases xs with
      | nil => simpa using hv
      | cons y ys => simp at hv
  · rw [create_ok h]
    refine ⟨fun x xs hv => ?_, fun x xs hv => ?_⟩
    · simp only [eval_op, evalOp, hv, ne_eq, reduceCtorEq, not_false_eq_true, List.map_cons, Sem.prod]
      exact prod_ints x xs
    · simp only [eval_op, evalOp, hv, ne_eq, reduceCtorEq, not_false_eq_true, List.map_cons, Sem.prod]
      exact prod_rats x xs

theorem minus_denotes (I : Interp) {a b t : Term} (h : Mk.Minus a b = .ok t) :
    (∀ x y : Int, eval I a = .i x → eval I b = .i y → eval I t = .i (x - y)) ∧
    (∀ x y : Rat, eval I a = .r x → eval I b = .r y → eval I t = .r (x - y)) := by
  refine ⟨fun x y ha hb => ?_, fun x y ha hb => ?_⟩ <;> simp [minus_eval I h, ha, hb, Sem.sub]

/-- **Div**: division by a non-zero real constant is rewritten into a product with the
inverse and still denotes the quotient; otherwise the `div` node (real `/`, integer `div`) -/
theorem div_denotes (I : Interp) {a b t : Term} (h : Mk.Div a b = .ok t) :
    (∀ x y : Rat, y ≠ 0 → eval I a = .r x → eval I b = .r y → eval I t = .r (x / y)) ∧
    (∀ x y : Int, y ≠ 0 → eval I a = .i x → eval I b = .i y → eval I t = .i (x / y)) := by
  unfold Mk.Div at h
  split at h
  · next c =>
    split at h
    · next hc =>
      subst hc
      rw [create_ok h]
      refine ⟨fun x y hy ha hb => ?_, fun x y hy ha hb => ?_⟩
      · simp [eval_op, evalOp] at hb; exact absurd hb.symm hy
      · simp [eval_op, evalOp] at hb
    · next hc =>
      have hcv : eval I (.node .realConst [] (.q c)) = .r c := by simp [eval_op, evalOp]
      refine ⟨fun x y hy ha hb => ?_, fun x y hy ha hb => ?_⟩
      · have hyc : y = c := by rw [hcv] at hb; cases hb; rfl
        subst hyc
        have := (times_denotes I h).2 x [1 / y]
          (by simp [ha, Mk.RealC, Term.real, eval_op, evalOp])
        rw [this]
        simp [Rat.div_def]
      · rw [hcv] at hb; cases hb
  · rw [create_ok h]
    refine ⟨fun x y hy ha hb => ?_, fun x y hy ha hb => ?_⟩
    · simp [eval_op, evalOp, ha, hb, Sem.div, hy]
    · simp [eval_op, evalOp, ha, hb, Sem.div, hy]; rfl

/-- **ToReal**: a real operand is returned as it is, an integer constant is folded, another
integer term gets a `to_real` node: in every case the value is the operand's value as a real -/
theorem toReal_denotes (I : Interp) {a t : Term} (h : Mk.ToReal a = .ok t) :
    (a.typeOf = some .int → ∀ x : Int, eval I a = .i x → eval I t = .r x) ∧
    (a.typeOf = some .real → eval I t = eval I a) := by
  unfold Mk.ToReal at h
  split at h
  · next hty =>
    cases h
    exact ⟨fun hi => (by rw [hty] at hi; cases hi), fun _ => rfl⟩
  · next hty =>
    refine ⟨fun _ x ha => ?_, fun hr => (by rw [hty] at hr; cases hr)⟩
    split at h
    · next n =>
      cases h
      simp [eval_op, evalOp] at ha
      simp [Mk.RealC, Term.real, eval_op, evalOp, ha]
    · rw [create_ok h]; simp [eval_op, evalOp, ha, Sem.toReal]
  · cases h

end PySMT.C06
