import PySMT.Proofs.C08Agree1
/-!
# C08/C09 agreement, operator families: fixed-size bit-vectors (1) — the unary and binary operators, `bvcomp`,
`bv2nat`, `concat` (two arguments), the abbreviations `bvnand bvnor bvxnor`, the relations

Same shape as `C08Agree1`: the standard's `applyTheory "<token>"` accepts the elaborated arguments with result `(u, τ)`;
then the manager method the parser's table binds to the token returns `mkNorm u`, which satisfies `TOK`.
-/
namespace PySMT.Parser.Agree
open PySMT PySMT.Parser PySMT.Std PySMT.Sexp

/-! ## the manager's bit-vector constructors on arguments that satisfy the invariant -/

/-- the 13 binary operators whose payload is the (common) width -/
def isBvBinOp : Op → Bool
  | .bvAnd | .bvOr | .bvXor | .bvAdd | .bvSub | .bvMul | .bvUdiv | .bvUrem | .bvLshl | .bvLshr | .bvSdiv | .bvSrem
  | .bvAshr => true
  | _ => false

theorem tys1' {x : Term} {σ : Ty} (hx : TOK x σ) : [x].map Term.typeOf = [σ].map some := by simp [hx.ty]
theorem tys2' {x y : Term} {σ ρ : Ty} (hx : TOK x σ) (hy : TOK y ρ) :
    [x, y].map Term.typeOf = [σ, ρ].map some := by simp [hx.ty, hy.ty]

theorem bvw_self (w : Nat) : ∀ w', Ty.bv w = .bv w' → (Except.ok w : Except Mk.Err Nat) = .ok w' := by
  intro w' h; cases h; rfl

/-- `bvUn` (`BVNot`, `BVNeg`) -/
theorem bvUn_ok (op : Op) (hop : op = .bvNot ∨ op = .bvNeg) (x : Term) (w : Nat) (hx : TOK x (.bv w)) :
    Mk.bvUn op x = .ok (.node op [x] (.ints [w])) ∧ TOK (.node op [x] (.ints [w])) (.bv w) := by
  have hty : typeOfNode op (.ints [w]) ([x].map Term.typeOf) = some (.bv w) := by
    rw [tyNode_of (tys1' hx)]
    rcases hop with rfl | rfl <;> simp [C03.tyNode, allAre]
  have hb : Mk.isBvOp op = true := by rcases hop with rfl | rfl <;> rfl
  have hs : op.shapeOK (.ints [w]) [x].length = true := by rcases hop with rfl | rfl <;> rfl
  refine ⟨?_, tok_node hty (wf1 hx.wf) hs (fun w' h => by cases h; exact bvWidth_bvop op _ w [] hb)⟩
  simp only [Mk.bvUn, hx.bw w rfl, bind, Except.bind, create_ok hty]

/-- `bvBin` -/
theorem bvBin_ok (op : Op) (hop : isBvBinOp op = true) (x y : Term) (w : Nat) (hx : TOK x (.bv w)) (hy : TOK y (.bv w)) :
    Mk.bvBin op x y = .ok (.node op [x, y] (.ints [w])) ∧ TOK (.node op [x, y] (.ints [w])) (.bv w) := by
  have hty : typeOfNode op (.ints [w]) ([x, y].map Term.typeOf) = some (.bv w) := by
    rw [tyNode_of (tys2' hx hy)]
    cases op <;> first | (cases hop; done) | simp [C03.tyNode, allAre]
  have hb : Mk.isBvOp op = true := by cases op <;> first | (cases hop; done) | rfl
  have hs : op.shapeOK (.ints [w]) [x, y].length = true := by cases op <;> first | (cases hop; done) | rfl
  refine ⟨?_, tok_node hty (wf2 hx.wf hy.wf) hs (fun w' h => by cases h; exact bvWidth_bvop op _ w [] hb)⟩
  simp only [Mk.bvBin, hx.bw w rfl, bind, Except.bind, create_ok hty]

/-! ## `bvnot`, `bvneg` -/

theorem callMgr_bvnot (a : Term) : callMgr "BVNot" [a] = liftMk (Mk.bvUn .bvNot a) := by
  simp [callMgr, mgrArity, Mk.call, Mk.asTerm, Mk.BVNot]
theorem callMgr_bvneg (a : Term) : callMgr "BVNeg" [a] = liftMk (Mk.bvUn .bvNeg a) := by
  simp [callMgr, mgrArity, Mk.call, Mk.asTerm, Mk.BVNeg]

theorem ag_bvnot (as : List TT) (u : Term) (τ : Ty) (hargs : ∀ a ∈ as, TOK (mkNorm a.1) a.2)
    (hstd : applyTheory "bvnot" as = .ok (u, τ)) : Agrees (.mgr "BVNot") as u τ := by
  simp only [applyTheory] at hstd
  split at hstd
  · rename_i a
    split at hstd
    · rename_i w hw
      simp only [if_true, beq_self_eq_true, Except.ok.injEq, Prod.mk.injEq] at hstd
      obtain ⟨rfl, rfl⟩ := hstd
      have ha := hargs a (by simp)
      rw [hw] at ha
      obtain ⟨h1, h2⟩ := bvUn_ok .bvNot (Or.inl rfl) _ w ha
      have hn : mkNorm (Std.node .bvNot [a] (.ints [w])) = .node .bvNot [mkNorm a.1] (.ints [w]) := by
        simp only [Std.node, List.map_cons, List.map_nil]
        rw [mkNorm_plain _ _ _ (by decide) (by decide) (by decide)]; rfl
      unfold Agrees
      rw [hn]
      refine ⟨?_, h2⟩
      rw [applyFn_mgr]
      simp only [nargs_cons, nargs_nil, callMgr_bvnot, h1]; rfl
    · cases hstd
  · cases hstd

theorem ag_bvneg (as : List TT) (u : Term) (τ : Ty) (hargs : ∀ a ∈ as, TOK (mkNorm a.1) a.2)
    (hstd : applyTheory "bvneg" as = .ok (u, τ)) : Agrees (.mgr "BVNeg") as u τ := by
  simp only [applyTheory] at hstd
  split at hstd
  · rename_i a
    split at hstd
    · rename_i w hw
      have hne : ("bvneg" == "bvnot") = false := by decide
      simp only [hne, Bool.false_eq_true, if_false, Except.ok.injEq, Prod.mk.injEq] at hstd
      obtain ⟨rfl, rfl⟩ := hstd
      have ha := hargs a (by simp)
      rw [hw] at ha
      obtain ⟨h1, h2⟩ := bvUn_ok .bvNeg (Or.inr rfl) _ w ha
      have hn : mkNorm (Std.node .bvNeg [a] (.ints [w])) = .node .bvNeg [mkNorm a.1] (.ints [w]) := by
        simp only [Std.node, List.map_cons, List.map_nil]
        rw [mkNorm_plain _ _ _ (by decide) (by decide) (by decide)]; rfl
      unfold Agrees
      rw [hn]
      refine ⟨?_, h2⟩
      rw [applyFn_mgr]
      simp only [nargs_cons, nargs_nil, callMgr_bvneg, h1]; rfl
    · cases hstd
  · cases hstd

/-! ## `bv2nat`, `bvcomp` -/

theorem callMgr_bv2nat (a : Term) : callMgr "BVToNatural" [a] = liftMk (Mk.create .bvToNatural [a]) := by
  simp [callMgr, mgrArity, Mk.call, Mk.asTerm, Mk.BVToNatural]
theorem callMgr_bvcomp (a b : Term) : callMgr "BVComp" [a, b] = liftMk (Mk.create .bvComp [a, b] (.ints [1])) := by
  simp [callMgr, mgrArity, Mk.call, Mk.asTerm, Mk.BVComp]

theorem ag_bv2nat (as : List TT) (u : Term) (τ : Ty) (hargs : ∀ a ∈ as, TOK (mkNorm a.1) a.2)
    (hstd : applyTheory "bv2nat" as = .ok (u, τ)) : Agrees (.mgr "BVToNatural") as u τ := by
  simp only [applyTheory] at hstd
  split at hstd
  · rename_i a
    split at hstd
    · rename_i w hw
      cases hstd
      have ha := hargs a (by simp)
      rw [hw] at ha
      have hty : typeOfNode .bvToNatural .none ([mkNorm a.1].map Term.typeOf) = some .int := by
        rw [tyNode_of (tys1' ha)]; rfl
      have hn : mkNorm (Std.node .bvToNatural [a]) = .node .bvToNatural [mkNorm a.1] .none := by
        simp only [Std.node, List.map_cons, List.map_nil]
        rw [mkNorm_plain _ _ _ (by decide) (by decide) (by decide)]; rfl
      unfold Agrees
      rw [hn]
      refine ⟨?_, tok_node hty (wf1 ha.wf) rfl nobw_int⟩
      rw [applyFn_mgr]
      simp only [nargs_cons, nargs_nil, callMgr_bv2nat, create_ok hty]; rfl
    · cases hstd
  · cases hstd

theorem ag_bvcomp (as : List TT) (u : Term) (τ : Ty) (hargs : ∀ a ∈ as, TOK (mkNorm a.1) a.2)
    (hstd : applyTheory "bvcomp" as = .ok (u, τ)) : Agrees (.mgr "BVComp") as u τ := by
  simp only [applyTheory] at hstd
  split at hstd
  · rename_i a b
    split at hstd
    · rename_i w w' hw hw'
      split at hstd
      · rename_i hww
        have hww' : w = w' := by simpa using hww
        subst hww'
        cases hstd
        have ha := hargs a (by simp)
        have hb := hargs b (by simp)
        rw [hw] at ha
        rw [hw'] at hb
        have hty : typeOfNode .bvComp (.ints [1]) ([mkNorm a.1, mkNorm b.1].map Term.typeOf) = some (.bv 1) := by
          rw [tyNode_of (tys2' ha hb)]; simp [C03.tyNode]
        have hn : mkNorm (Std.node .bvComp [a, b] (.ints [1])) = .node .bvComp [mkNorm a.1, mkNorm b.1] (.ints [1]) := by
          simp only [Std.node, List.map_cons, List.map_nil]
          rw [mkNorm_plain _ _ _ (by decide) (by decide) (by decide)]; rfl
        unfold Agrees
        rw [hn]
        refine ⟨?_, tok_node hty (wf2 ha.wf hb.wf) rfl (fun w' h => by cases h; exact bvWidth_bvop .bvComp _ 1 [] rfl)⟩
        rw [applyFn_mgr]
        simp only [nargs_cons, nargs_nil, callMgr_bvcomp, create_ok hty]; rfl
      · cases hstd
    · cases hstd
  · cases hstd

/-! ## the 13 binary operators (two arguments) -/

/-- token ↦ manager method, the 13 binary operators -/
def bvBinMethods : List (String × String) :=
  [("bvand","BVAnd"),("bvor","BVOr"),("bvxor","BVXor"),("bvadd","BVAdd"),("bvmul","BVMul"),("bvsub","BVSub"),
   ("bvudiv","BVUDiv"),("bvurem","BVURem"),("bvshl","BVLShl"),("bvlshr","BVLShr"),("bvashr","BVAShr"),
   ("bvsdiv","BVSDiv"),("bvsrem","BVSRem")]

theorem isBvBinOp_plain {op : Op} (h : isBvBinOp op = true) : op ≠ .not ∧ op ≠ .toReal ∧ op ≠ .div := by
  refine ⟨?_, ?_, ?_⟩ <;> (intro e; subst e; cases h)

/-- the standard's `bvBin` against the manager's -/
theorem bvBin_agree (op : Op) (hop : isBvBinOp op = true) (a b : TT) (u : Term) (τ : Ty)
    (ha : TOK (mkNorm a.1) a.2) (hb : TOK (mkNorm b.1) b.2) (hstd : Std.bvBin op a b = .ok (u, τ)) :
    ∃ w, τ = .bv w ∧ a.2 = .bv w ∧ b.2 = .bv w ∧ mkNorm u = .node op [mkNorm a.1, mkNorm b.1] (.ints [w]) ∧
      Mk.bvBin op (mkNorm a.1) (mkNorm b.1) = .ok (mkNorm u) ∧ TOK (mkNorm u) τ := by
  unfold Std.bvBin at hstd
  split at hstd
  · rename_i w w' hw hw'
    split at hstd
    · rename_i hww
      have hww' : w = w' := by simpa using hww
      subst hww'
      cases hstd
      rw [hw] at ha
      rw [hw'] at hb
      obtain ⟨h1, h2⟩ := bvBin_ok op hop _ _ w ha hb
      obtain ⟨p1, p2, p3⟩ := isBvBinOp_plain hop
      have hn : mkNorm (Std.node op [a, b] (.ints [w])) = .node op [mkNorm a.1, mkNorm b.1] (.ints [w]) := by
        simp only [Std.node, List.map_cons, List.map_nil]
        rw [mkNorm_plain _ _ _ p1 p2 p3]; rfl
      rw [hn]
      exact ⟨w, rfl, hw, hw', rfl, h1, h2⟩
    · cases hstd
  · cases hstd

/-- the standard's reading of the two-argument form -/
theorem std_bvbin2 (f : String) (op : Op) (h : (f, op) ∈ bvBinOps) (a b : TT) :
    applyTheory f [a, b] = Std.bvBin op a b := by
  simp only [bvBinOps, List.mem_cons, Prod.mk.injEq, List.not_mem_nil, or_false] at h
  rcases h with ⟨rfl, rfl⟩ | ⟨rfl, rfl⟩ | ⟨rfl, rfl⟩ | ⟨rfl, rfl⟩ | ⟨rfl, rfl⟩ | ⟨rfl, rfl⟩ | ⟨rfl, rfl⟩ | ⟨rfl, rfl⟩
    | ⟨rfl, rfl⟩ | ⟨rfl, rfl⟩ | ⟨rfl, rfl⟩ | ⟨rfl, rfl⟩ | ⟨rfl, rfl⟩ <;>
  simp [applyTheory, bvBinOps, bvLeftAssoc, List.lookup, leftFold]

theorem chain1 (op : Op) (x y : Term) : Mk.bvNary op [x, y] = Mk.bvBin op x y := by
  simp only [Mk.bvNary, Mk.bvChain, bind, Except.bind]
  cases Mk.bvBin op x y <;> rfl

theorem callMgr_bvand (x y : Term) : callMgr "BVAnd" [x, y] = liftMk (Mk.bvBin .bvAnd x y) := by
  rw [← chain1]; simp [callMgr, mgrArity, Mk.call, Mk.termArgs, bind, Except.bind, Mk.BVAnd]
theorem callMgr_bvor (x y : Term) : callMgr "BVOr" [x, y] = liftMk (Mk.bvBin .bvOr x y) := by
  rw [← chain1]; simp [callMgr, mgrArity, Mk.call, Mk.termArgs, bind, Except.bind, Mk.BVOr]
theorem callMgr_bvadd (x y : Term) : callMgr "BVAdd" [x, y] = liftMk (Mk.bvBin .bvAdd x y) := by
  rw [← chain1]; simp [callMgr, mgrArity, Mk.call, Mk.termArgs, bind, Except.bind, Mk.BVAdd]
theorem callMgr_bvmul (x y : Term) : callMgr "BVMul" [x, y] = liftMk (Mk.bvBin .bvMul x y) := by
  rw [← chain1]; simp [callMgr, mgrArity, Mk.call, Mk.termArgs, bind, Except.bind, Mk.BVMul]
theorem callMgr_bvxor (x y : Term) : callMgr "BVXor" [x, y] = liftMk (Mk.bvBin .bvXor x y) := by
  simp [callMgr, mgrArity, Mk.call, Mk.asTerm, Mk.BVXor]
theorem callMgr_bvsub (x y : Term) : callMgr "BVSub" [x, y] = liftMk (Mk.bvBin .bvSub x y) := by
  simp [callMgr, mgrArity, Mk.call, Mk.asTerm, Mk.BVSub]
theorem callMgr_bvudiv (x y : Term) : callMgr "BVUDiv" [x, y] = liftMk (Mk.bvBin .bvUdiv x y) := by
  simp [callMgr, mgrArity, Mk.call, Mk.asTerm, Mk.BVUDiv]
theorem callMgr_bvurem (x y : Term) : callMgr "BVURem" [x, y] = liftMk (Mk.bvBin .bvUrem x y) := by
  simp [callMgr, mgrArity, Mk.call, Mk.asTerm, Mk.BVURem]
theorem callMgr_bvsdiv (x y : Term) : callMgr "BVSDiv" [x, y] = liftMk (Mk.bvBin .bvSdiv x y) := by
  simp [callMgr, mgrArity, Mk.call, Mk.asTerm, Mk.BVSDiv]
theorem callMgr_bvsrem (x y : Term) : callMgr "BVSRem" [x, y] = liftMk (Mk.bvBin .bvSrem x y) := by
  simp [callMgr, mgrArity, Mk.call, Mk.asTerm, Mk.BVSRem]
theorem callMgr_bvshl (x y : Term) : callMgr "BVLShl" [x, y] = liftMk (Mk.bvBin .bvLshl x y) := by
  simp [callMgr, mgrArity, Mk.call, Mk.asTerm, Mk.BVLShl, Mk.shiftAmount, bind, Except.bind]
theorem callMgr_bvlshr (x y : Term) : callMgr "BVLShr" [x, y] = liftMk (Mk.bvBin .bvLshr x y) := by
  simp [callMgr, mgrArity, Mk.call, Mk.asTerm, Mk.BVLShr, Mk.shiftAmount, bind, Except.bind]
theorem callMgr_bvashr (x y : Term) : callMgr "BVAShr" [x, y] = liftMk (Mk.bvBin .bvAshr x y) := by
  simp [callMgr, mgrArity, Mk.call, Mk.asTerm, Mk.BVAShr, Mk.shiftAmount, bind, Except.bind]

/-- every token of the list: its operator, and what the manager method computes on two arguments -/
theorem mgr_bvbin (f m : String) (hf : (f, m) ∈ bvBinMethods) :
    ∃ op, (f, op) ∈ bvBinOps ∧ isBvBinOp op = true ∧ ∀ x y, callMgr m [x, y] = liftMk (Mk.bvBin op x y) := by
  simp only [bvBinMethods, List.mem_cons, Prod.mk.injEq, List.not_mem_nil, or_false] at hf
  rcases hf with ⟨rfl, rfl⟩ | ⟨rfl, rfl⟩ | ⟨rfl, rfl⟩ | ⟨rfl, rfl⟩ | ⟨rfl, rfl⟩ | ⟨rfl, rfl⟩ | ⟨rfl, rfl⟩ | ⟨rfl, rfl⟩
    | ⟨rfl, rfl⟩ | ⟨rfl, rfl⟩ | ⟨rfl, rfl⟩ | ⟨rfl, rfl⟩ | ⟨rfl, rfl⟩
  · exact ⟨.bvAnd, by simp [bvBinOps], rfl, callMgr_bvand⟩
  · exact ⟨.bvOr, by simp [bvBinOps], rfl, callMgr_bvor⟩
  · exact ⟨.bvXor, by simp [bvBinOps], rfl, callMgr_bvxor⟩
  · exact ⟨.bvAdd, by simp [bvBinOps], rfl, callMgr_bvadd⟩
  · exact ⟨.bvMul, by simp [bvBinOps], rfl, callMgr_bvmul⟩
  · exact ⟨.bvSub, by simp [bvBinOps], rfl, callMgr_bvsub⟩
  · exact ⟨.bvUdiv, by simp [bvBinOps], rfl, callMgr_bvudiv⟩
  · exact ⟨.bvUrem, by simp [bvBinOps], rfl, callMgr_bvurem⟩
  · exact ⟨.bvLshl, by simp [bvBinOps], rfl, callMgr_bvshl⟩
  · exact ⟨.bvLshr, by simp [bvBinOps], rfl, callMgr_bvlshr⟩
  · exact ⟨.bvAshr, by simp [bvBinOps], rfl, callMgr_bvashr⟩
  · exact ⟨.bvSdiv, by simp [bvBinOps], rfl, callMgr_bvsdiv⟩
  · exact ⟨.bvSrem, by simp [bvBinOps], rfl, callMgr_bvsrem⟩

theorem ag_bvbin (f m : String) (hf : (f, m) ∈ bvBinMethods) (a b : TT) (u : Term) (τ : Ty)
    (ha : TOK (mkNorm a.1) a.2) (hb : TOK (mkNorm b.1) b.2)
    (hstd : applyTheory f [a, b] = .ok (u, τ)) : Agrees (.mgr m) [a, b] u τ := by
  obtain ⟨op, hmem, hop, hcall⟩ := mgr_bvbin f m hf
  rw [std_bvbin2 f op hmem] at hstd
  obtain ⟨w, _, _, _, _, h1, h2⟩ := bvBin_agree op hop a b u τ ha hb hstd
  refine ⟨?_, h2⟩
  rw [applyFn_mgr]
  simp only [nargs_cons, nargs_nil, hcall, h1]; rfl

/-! ## `concat` (two arguments) -/

theorem concat2_ok (x y : Term) (w w' : Nat) (hx : TOK x (.bv w)) (hy : TOK y (.bv w')) :
    Mk.concat2 x y = .ok (.node .bvConcat [x, y] (.ints [w + w'])) ∧
      TOK (.node .bvConcat [x, y] (.ints [w + w'])) (.bv (w + w')) := by
  have hty : typeOfNode .bvConcat (.ints [w + w']) ([x, y].map Term.typeOf) = some (.bv (w + w')) := by
    rw [tyNode_of (tys2' hx hy)]; simp [C03.tyNode]
  refine ⟨?_, tok_node hty (wf2 hx.wf hy.wf) rfl (fun w' h => by cases h; exact bvWidth_bvop .bvConcat _ _ [] rfl)⟩
  simp only [Mk.concat2, hx.bw w rfl, hy.bw w' rfl, bind, Except.bind, create_ok hty]

/-- the standard's `bvConcat2` against the manager's `concat2` -/
theorem concat2_agree (a b : TT) (u : Term) (τ : Ty) (ha : TOK (mkNorm a.1) a.2) (hb : TOK (mkNorm b.1) b.2)
    (hstd : bvConcat2 a b = .ok (u, τ)) : Mk.concat2 (mkNorm a.1) (mkNorm b.1) = .ok (mkNorm u) ∧ TOK (mkNorm u) τ := by
  unfold bvConcat2 at hstd
  split at hstd
  · rename_i w w' hw hw'
    cases hstd
    rw [hw] at ha
    rw [hw'] at hb
    have hn : mkNorm (Std.node .bvConcat [a, b] (.ints [w + w'])) =
        .node .bvConcat [mkNorm a.1, mkNorm b.1] (.ints [w + w']) := by
      simp only [Std.node, List.map_cons, List.map_nil]
      rw [mkNorm_plain _ _ _ (by decide) (by decide) (by decide)]; rfl
    rw [hn]
    exact concat2_ok _ _ w w' ha hb
  · cases hstd

theorem std_concat2 (a b : TT) : applyTheory "concat" [a, b] = bvConcat2 a b := by
  simp [applyTheory, leftFold]

theorem callMgr_concat2 (x y : Term) : callMgr "BVConcat" [x, y] = liftMk (Mk.concat2 x y) := by
  have : Mk.BVConcat [x, y] = Mk.concat2 x y := by
    simp only [Mk.BVConcat, Mk.concatChain, bind, Except.bind]
    cases Mk.concat2 x y <;> rfl
  rw [← this]; simp [callMgr, mgrArity, Mk.call, Mk.termArgs, bind, Except.bind]

theorem ag_concat (a b : TT) (u : Term) (τ : Ty) (ha : TOK (mkNorm a.1) a.2) (hb : TOK (mkNorm b.1) b.2)
    (hstd : applyTheory "concat" [a, b] = .ok (u, τ)) : Agrees (.mgr "BVConcat") [a, b] u τ := by
  rw [std_concat2] at hstd
  obtain ⟨h1, h2⟩ := concat2_agree a b u τ ha hb hstd
  refine ⟨?_, h2⟩
  rw [applyFn_mgr]
  simp only [nargs_cons, nargs_nil, callMgr_concat2, h1]; rfl

/-! ## `bvnand`, `bvnor`, `bvxnor` -/

def bvNotMethods : List (String × String) := [("bvnand","BVNand"),("bvnor","BVNor"),("bvxnor","BVXnor")]

/-- the standard's reading of the three abbreviations -/
def stdNotBin (f : String) (op : Op) (args : List TT) : Except String TT :=
  match args with
  | [a, b] => (Std.bvBin op a b).map (fun r => (.node .bvNot [r.1] (.ints [(bvw r.2).getD 0]), r.2))
  | _ => .error (f ++ " takes two arguments")

theorem std_bvnand (as : List TT) : applyTheory "bvnand" as = stdNotBin "bvnand" .bvAnd as := rfl
theorem std_bvnor (as : List TT) : applyTheory "bvnor" as = stdNotBin "bvnor" .bvOr as := rfl
theorem std_bvxnor (as : List TT) : applyTheory "bvxnor" as = stdNotBin "bvxnor" .bvXor as := rfl

theorem callMgr_bvnand (x y : Term) :
    callMgr "BVNand" [x, y] = liftMk (Mk.bvBin .bvAnd x y >>= Mk.bvUn .bvNot) := by
  rw [← chain1]; simp [callMgr, mgrArity, Mk.call, Mk.asTerm, Mk.BVNand, Mk.BVAnd, Mk.BVNot]
theorem callMgr_bvnor (x y : Term) :
    callMgr "BVNor" [x, y] = liftMk (Mk.bvBin .bvOr x y >>= Mk.bvUn .bvNot) := by
  rw [← chain1]; simp [callMgr, mgrArity, Mk.call, Mk.asTerm, Mk.BVNor, Mk.BVOr, Mk.BVNot]
theorem callMgr_bvxnor (x y : Term) :
    callMgr "BVXnor" [x, y] = liftMk (Mk.bvBin .bvXor x y >>= Mk.bvUn .bvNot) := by
  simp [callMgr, mgrArity, Mk.call, Mk.asTerm, Mk.BVXnor, Mk.BVXor, Mk.BVNot]

theorem notbin_agree (f m : String) (op : Op) (hop : isBvBinOp op = true)
    (hcall : ∀ x y, callMgr m [x, y] = liftMk (Mk.bvBin op x y >>= Mk.bvUn .bvNot))
    (as : List TT) (u : Term) (τ : Ty) (hargs : ∀ a ∈ as, TOK (mkNorm a.1) a.2)
    (hstd : stdNotBin f op as = .ok (u, τ)) : Agrees (.mgr m) as u τ := by
  unfold stdNotBin at hstd
  split at hstd
  · rename_i a b
    have ha := hargs a (by simp)
    have hb := hargs b (by simp)
    cases hr : Std.bvBin op a b with
    | error e => rw [hr] at hstd; cases hstd
    | ok r =>
      obtain ⟨u0, τ0⟩ := r
      rw [hr] at hstd
      obtain ⟨w, rfl, _, _, hn0, h1, h2⟩ := bvBin_agree op hop a b u0 τ0 ha hb hr
      simp only [Except.map, bvw, Option.getD_some, Except.ok.injEq, Prod.mk.injEq] at hstd
      obtain ⟨rfl, rfl⟩ := hstd
      obtain ⟨h3, h4⟩ := bvUn_ok .bvNot (Or.inl rfl) _ w h2
      have hn : mkNorm (.node .bvNot [u0] (.ints [w])) = .node .bvNot [mkNorm u0] (.ints [w]) := by
        rw [mkNorm_plain _ _ _ (by decide) (by decide) (by decide)]; rfl
      unfold Agrees
      rw [hn]
      refine ⟨?_, h4⟩
      rw [applyFn_mgr]
      simp only [nargs_cons, nargs_nil, hcall, h1, bind, Except.bind, h3]; rfl
  · cases hstd

theorem ag_bvnotbin (f m : String) (hf : (f, m) ∈ bvNotMethods) (as : List TT) (u : Term) (τ : Ty)
    (hargs : ∀ a ∈ as, TOK (mkNorm a.1) a.2)
    (hstd : applyTheory f as = .ok (u, τ)) : Agrees (.mgr m) as u τ := by
  simp only [bvNotMethods, List.mem_cons, Prod.mk.injEq, List.not_mem_nil, or_false] at hf
  rcases hf with ⟨rfl, rfl⟩ | ⟨rfl, rfl⟩ | ⟨rfl, rfl⟩
  · rw [std_bvnand] at hstd
    exact notbin_agree _ _ .bvAnd rfl callMgr_bvnand as u τ hargs hstd
  · rw [std_bvnor] at hstd
    exact notbin_agree _ _ .bvOr rfl callMgr_bvnor as u τ hargs hstd
  · rw [std_bvxnor] at hstd
    exact notbin_agree _ _ .bvXor rfl callMgr_bvxnor as u τ hargs hstd

/-! ## the relations -/

def bvRelMethods : List (String × String) :=
  [("bvult","BVULT"),("bvule","BVULE"),("bvugt","BVUGT"),("bvuge","BVUGE"),("bvslt","BVSLT"),("bvsle","BVSLE"),
   ("bvsgt","BVSGT"),("bvsge","BVSGE")]

/-- the standard's reading of a relation (`swap`: `bvugt` etc. are the converse relation with swapped arguments) -/
def stdRel (f : String) (op : Op) (swap : Bool) (args : List TT) : Except String TT :=
  match args with
  | [a, b] => match a.2, b.2 with
    | .bv w, .bv w' =>
      if w == w' then .ok ((if swap then Std.node op [b, a] else Std.node op [a, b]), .bool)
      else .error (f ++ ": widths differ")
    | _, _ => .error (f ++ ": bit-vectors expected")
  | _ => .error (f ++ " takes two arguments")

def isBvRelOp : Op → Bool
  | .bvUlt | .bvUle | .bvSlt | .bvSle => true
  | _ => false

theorem rel_ok (op : Op) (hop : isBvRelOp op = true) (x y : Term) (w : Nat) (hx : TOK x (.bv w)) (hy : TOK y (.bv w)) :
    Mk.create op [x, y] = .ok (.node op [x, y] .none) ∧ TOK (.node op [x, y] .none) .bool := by
  have hty : typeOfNode op .none ([x, y].map Term.typeOf) = some .bool := by
    rw [tyNode_of (tys2' hx hy)]
    cases op <;> first | (cases hop; done) | simp [C03.tyNode, allAre]
  have hs : op.shapeOK .none [x, y].length = true := by cases op <;> first | (cases hop; done) | rfl
  exact ⟨create_ok hty, tok_node hty (wf2 hx.wf hy.wf) hs nobw_bool⟩

theorem rel_agree (f m : String) (op : Op) (swap : Bool) (hop : isBvRelOp op = true)
    (hcall : ∀ x y, callMgr m [x, y] = liftMk (if swap then Mk.create op [y, x] else Mk.create op [x, y]))
    (as : List TT) (u : Term) (τ : Ty) (hargs : ∀ a ∈ as, TOK (mkNorm a.1) a.2)
    (hstd : stdRel f op swap as = .ok (u, τ)) : Agrees (.mgr m) as u τ := by
  have p1 : op ≠ .not := by intro e; subst e; cases hop
  have p2 : op ≠ .toReal := by intro e; subst e; cases hop
  have p3 : op ≠ .div := by intro e; subst e; cases hop
  unfold stdRel at hstd
  split at hstd
  · rename_i a b
    split at hstd
    · rename_i w w' hw hw'
      split at hstd
      · rename_i hww
        have hww' : w = w' := by simpa using hww
        subst hww'
        have ha := hargs a (by simp)
        have hb := hargs b (by simp)
        rw [hw] at ha
        rw [hw'] at hb
        cases swap with
        | false =>
          simp only [Bool.false_eq_true, if_false, Except.ok.injEq, Prod.mk.injEq] at hstd hcall
          obtain ⟨rfl, rfl⟩ := hstd
          obtain ⟨h1, h2⟩ := rel_ok op hop _ _ w ha hb
          have hn : mkNorm (Std.node op [a, b]) = .node op [mkNorm a.1, mkNorm b.1] .none := by
            simp only [Std.node, List.map_cons, List.map_nil]
            rw [mkNorm_plain _ _ _ p1 p2 p3]; rfl
          unfold Agrees
          rw [hn]
          refine ⟨?_, h2⟩
          rw [applyFn_mgr]
          simp only [nargs_cons, nargs_nil, hcall, h1]; rfl
        | true =>
          simp only [if_true, Except.ok.injEq, Prod.mk.injEq] at hstd hcall
          obtain ⟨rfl, rfl⟩ := hstd
          obtain ⟨h1, h2⟩ := rel_ok op hop _ _ w hb ha
          have hn : mkNorm (Std.node op [b, a]) = .node op [mkNorm b.1, mkNorm a.1] .none := by
            simp only [Std.node, List.map_cons, List.map_nil]
            rw [mkNorm_plain _ _ _ p1 p2 p3]; rfl
          unfold Agrees
          rw [hn]
          refine ⟨?_, h2⟩
          rw [applyFn_mgr]
          simp only [nargs_cons, nargs_nil, hcall, h1]; rfl
      · cases hstd
    · cases hstd
  · cases hstd

theorem std_bvult (as : List TT) : applyTheory "bvult" as = stdRel "bvult" .bvUlt false as := rfl
theorem std_bvule (as : List TT) : applyTheory "bvule" as = stdRel "bvule" .bvUle false as := rfl
theorem std_bvugt (as : List TT) : applyTheory "bvugt" as = stdRel "bvugt" .bvUlt true as := rfl
theorem std_bvuge (as : List TT) : applyTheory "bvuge" as = stdRel "bvuge" .bvUle true as := rfl
theorem std_bvslt (as : List TT) : applyTheory "bvslt" as = stdRel "bvslt" .bvSlt false as := rfl
theorem std_bvsle (as : List TT) : applyTheory "bvsle" as = stdRel "bvsle" .bvSle false as := rfl
theorem std_bvsgt (as : List TT) : applyTheory "bvsgt" as = stdRel "bvsgt" .bvSlt true as := rfl
theorem std_bvsge (as : List TT) : applyTheory "bvsge" as = stdRel "bvsge" .bvSle true as := rfl

theorem callMgr_bvult (x y : Term) :
    callMgr "BVULT" [x, y] = liftMk (if false then Mk.create .bvUlt [y, x] else Mk.create .bvUlt [x, y]) := by
  simp [callMgr, mgrArity, Mk.call, Mk.asTerm, Mk.BVULT]
theorem callMgr_bvule (x y : Term) :
    callMgr "BVULE" [x, y] = liftMk (if false then Mk.create .bvUle [y, x] else Mk.create .bvUle [x, y]) := by
  simp [callMgr, mgrArity, Mk.call, Mk.asTerm, Mk.BVULE]
theorem callMgr_bvugt (x y : Term) :
    callMgr "BVUGT" [x, y] = liftMk (if true then Mk.create .bvUlt [y, x] else Mk.create .bvUlt [x, y]) := by
  simp [callMgr, mgrArity, Mk.call, Mk.asTerm, Mk.BVUGT]
theorem callMgr_bvuge (x y : Term) :
    callMgr "BVUGE" [x, y] = liftMk (if true then Mk.create .bvUle [y, x] else Mk.create .bvUle [x, y]) := by
  simp [callMgr, mgrArity, Mk.call, Mk.asTerm, Mk.BVUGE]
theorem callMgr_bvslt (x y : Term) :
    callMgr "BVSLT" [x, y] = liftMk (if false then Mk.create .bvSlt [y, x] else Mk.create .bvSlt [x, y]) := by
  simp [callMgr, mgrArity, Mk.call, Mk.asTerm, Mk.BVSLT]
theorem callMgr_bvsle (x y : Term) :
    callMgr "BVSLE" [x, y] = liftMk (if false then Mk.create .bvSle [y, x] else Mk.create .bvSle [x, y]) := by
  simp [callMgr, mgrArity, Mk.call, Mk.asTerm, Mk.BVSLE]
theorem callMgr_bvsgt (x y : Term) :
    callMgr "BVSGT" [x, y] = liftMk (if true then Mk.create .bvSlt [y, x] else Mk.create .bvSlt [x, y]) := by
  simp [callMgr, mgrArity, Mk.call, Mk.asTerm, Mk.BVSGT, Mk.BVSLT]
theorem callMgr_bvsge (x y : Term) :
    callMgr "BVSGE" [x, y] = liftMk (if true then Mk.create .bvSle [y, x] else Mk.create .bvSle [x, y]) := by
  simp [callMgr, mgrArity, Mk.call, Mk.asTerm, Mk.BVSGE, Mk.BVSLE]

theorem ag_bvrel (f m : String) (hf : (f, m) ∈ bvRelMethods) (as : List TT) (u : Term) (τ : Ty)
    (hargs : ∀ a ∈ as, TOK (mkNorm a.1) a.2)
    (hstd : applyTheory f as = .ok (u, τ)) : Agrees (.mgr m) as u τ := by
  simp only [bvRelMethods, List.mem_cons, Prod.mk.injEq, List.not_mem_nil, or_false] at hf
  rcases hf with ⟨rfl, rfl⟩ | ⟨rfl, rfl⟩ | ⟨rfl, rfl⟩ | ⟨rfl, rfl⟩ | ⟨rfl, rfl⟩ | ⟨rfl, rfl⟩ | ⟨rfl, rfl⟩ | ⟨rfl, rfl⟩
  · rw [std_bvult] at hstd; exact rel_agree _ _ .bvUlt false rfl callMgr_bvult as u τ hargs hstd
  · rw [std_bvule] at hstd; exact rel_agree _ _ .bvUle false rfl callMgr_bvule as u τ hargs hstd
  · rw [std_bvugt] at hstd; exact rel_agree _ _ .bvUlt true rfl callMgr_bvugt as u τ hargs hstd
  · rw [std_bvuge] at hstd; exact rel_agree _ _ .bvUle true rfl callMgr_bvuge as u τ hargs hstd
  · rw [std_bvslt] at hstd; exact rel_agree _ _ .bvSlt false rfl callMgr_bvslt as u τ hargs hstd
  · rw [std_bvsle] at hstd; exact rel_agree _ _ .bvSle false rfl callMgr_bvsle as u τ hargs hstd
  · rw [std_bvsgt] at hstd; exact rel_agree _ _ .bvSlt true rfl callMgr_bvsgt as u τ hargs hstd
  · rw [std_bvsge] at hstd; exact rel_agree _ _ .bvSle true rfl callMgr_bvsge as u τ hargs hstd

end PySMT.Parser.Agree
